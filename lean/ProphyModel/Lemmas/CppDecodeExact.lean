/-
  C07 (second clause) / C03 — what the generated C++ full decoder ACCEPTS, for EVERY byte string (not only
  canonical encodings), is a valid object that re-encodes to exactly as many bytes as were read.

  Main results (end of file):
    `Cpp.decode_accepted_typed`, `Cpp.decode_accepted_exact`  (with the hypotheses that had to be added)
    `Cpp.decode_accepted_hasType_false`, `Cpp.decode_accepted_limit_false`  (why they had to be added)
-/
import ProphyModel.Lemmas.CppRoundTrip
import ProphyModel.Lemmas.CppEncode
import ProphyModel.Lemmas.NoShift
import ProphyModel.Lemmas.PyDecodeTyped
namespace Prophy
open Prophy WF Accept

/-! ## the two findings: the original typing statement is false -/
namespace CppDecodeExactCx

/-- (1) `struct S { E x; }` with `enum E { a = 1 }`: the C++ decoder does not check that a decoded
    enum value is an enumerator (`decoder<E, enum>` is the 4-byte integer decoder) -/
def TE : Ty := .struct "S" [.mk "x" (.enum "E" [("a", 1)]) .plain]
def DE : Bytes := [7, 0, 0, 0]
def VE : Val := .struct [.int 7]

theorem TE_hyps : Accept.front TE = true ∧ Accept.noShift TE = true ∧ Cpp.optMisaligned TE = false := by decide
theorem TE_accepted : Cpp.decode TE DE .little = .accepted VE [] := by rfl
theorem TE_untyped : hasType TE VE = false := by decide

/-- (2) `struct S { u8 n; byte b<2> (bound n); byte a<1> (bound n); u8 c; }` (two limited arrays on one
    counter: expressible in the isar front-end, accepted by `Accept.front`): `do_decode_resize` is
    generated with the limit of the FIRST array bound to the counter only, the second array is then
    decoded "in place" with the same count: 2 elements in an array limited to 1 -/
def TL : Ty := .struct "S" [.mk "n" (.prim .u8) .plain, .mk "b" .byte (.limited "n" 2),
  .mk "a" .byte (.limited "n" 1), .mk "c" (.prim .u8) .plain]
def DL : Bytes := [2, 1, 2, 4, 5]
def VL : Val := .struct [.sizer, .bytes [1, 2], .bytes [4, 5], .int 5]

theorem TL_hyps : Accept.front TL = true ∧ Accept.noShift TL = true ∧ Cpp.optMisaligned TL = false := by decide
theorem TL_accepted : Cpp.decode TL DL .little = .accepted VL [2] := by rfl
theorem TL_untyped : hasType TL VL = false := by decide
/-- the re-encoded length is still the input length here -/
theorem TL_exact : Cpp.getByteSize TL VL = DL.length := by decide

end CppDecodeExactCx

namespace Cpp

/-! ## the added notions -/

/- `eraseEnum t`: `t` with every enum replaced by `u32` (same wire layout, same C++ decoder) -/
mutual
  def eraseEnum : Ty → Ty
    | .prim p => .prim p
    | .byte => .byte
    | .enum _ _ => .prim .u32
    | .struct n ms => .struct n (eraseEnumMs ms)
    | .union n arms => .union n (eraseEnumArms arms)
  def eraseEnumMs : List Member → List Member
    | [] => []
    | .mk n t k :: r => .mk n (eraseEnum t) k :: eraseEnumMs r
  def eraseEnumArms : List Arm → List Arm
    | [] => []
    | .mk n d t :: r => .mk n d (eraseEnum t) :: eraseEnumArms r
end

/-- "like `hasType`, but an enum value is any 32-bit unsigned integer": the typing the C++ decoder
    guarantees (it does not check enumerators; the Python decoder does) -/
def hasTypeW (t : Ty) (v : Val) : Bool := hasType (eraseEnum t) v

/- no enum anywhere in the type -/
mutual
  def noEnum : Ty → Bool
    | .enum _ _ => false
    | .struct _ ms => noEnumMs ms
    | .union _ arms => noEnumArms arms
    | _ => true
  def noEnumMs : List Member → Bool
    | [] => true
    | .mk _ t _ :: r => noEnum t && noEnumMs r
  def noEnumArms : List Arm → Bool
    | [] => true
    | .mk _ _ t :: r => noEnum t && noEnumArms r
end

/- in every struct (at any depth), the FIRST array bound to the counter of a limited array is a limited
   array with a limit that is not greater (always so in prophyc's own language: a limited array `T x<n>`
   gets its own counter `num_of_x` placed directly before it) -/
mutual
  def limFirst : Ty → Bool
    | .struct _ ms => limFirstMs ms ms
    | .union _ arms => limFirstArms arms
    | _ => true
  def limFirstMs (all : List Member) : List Member → Bool
    | [] => true
    | .mk _ t k :: r =>
      (match k with
       | .limited s l =>
         (match all.find? (fun m => decide (m.kind.sizer? = some s)) with
          | some m => (match m.kind with
            | .limited _ l' => decide (l' ≤ l)
            | _ => false)
          | none => false)
       | _ => true) && limFirst t && limFirstMs all r
  def limFirstArms : List Arm → Bool
    | [] => true
    | .mk _ _ t :: r => limFirst t && limFirstArms r
end

example : limFirst CppDecodeExactCx.TL = false := by decide

/-! ## scalars -/

theorem decScalar_ok_p17 (e : Endian) (k : Nat) (signed : Bool) (data : Bytes) (pos : Nat) (rs : List Nat)
    (i : Int) (pos' : Nat) (rs' : List Nat) (hpos : pos ≤ data.length)
    (h : decScalar e k signed data pos rs = .ok i pos' rs') :
    pos' = pos + k ∧ rs' = rs ∧ pos + k ≤ data.length ∧
      i = (if signed then toSigned k (scalarVal e ((data.drop pos).take k))
           else ((scalarVal e ((data.drop pos).take k) : Nat) : Int)) := by
  unfold decScalar at h
  rw [remaining_of_le hpos] at h
  split at h
  · cases h
  · rename_i hk
    have hfit : pos + k ≤ data.length := by omega
    simp only [readScalar, hfit, if_true] at h
    injection h with h1 h2 h3
    exact ⟨h2.symm, h3.symm, hfit, h1.symm⟩

theorem decScalar_prim_p17 (e : Endian) (p : Prim) (data : Bytes) (pos : Nat) (rs : List Nat)
    (i : Int) (pos' : Nat) (rs' : List Nat) (hpos : pos ≤ data.length)
    (h : decScalar e p.size p.isSigned data pos rs = .ok i pos' rs') :
    pos' = pos + p.size ∧ rs' = rs ∧ pos + p.size ≤ data.length ∧ inRange p i = true := by
  obtain ⟨h1, h2, h3, h4⟩ := decScalar_ok_p17 e _ _ data pos rs i pos' rs' hpos h
  refine ⟨h1, h2, h3, ?_⟩
  have hl : ((data.drop pos).take p.size).length = p.size := by
    simp only [List.length_take, List.length_drop]; omega
  apply Py.unpack_range e p ((data.drop pos).take p.size) i
  unfold Py.unpack
  rw [if_pos hl, h4]

/-! ## what a decoded value satisfies -/

/-- `v` is a well-typed, coherent value of type `t` (not a counter) -/
structure Good_p17 (t : Ty) (v : Val) : Prop where
  nc : v.isCounter = false
  ty : hasField [] .plain t v = true
  ag : agreeTy t v = true

/-- the induction hypothesis on an element decoder: started inside the buffer at an address aligned to
    the type, a successful decode returns a good value and has consumed exactly its encoded length -/
abbrev ElemOk_p17 (t : Ty) (size : Nat) (f : Nat → List Nat → DRes Val × Nat) : Prop :=
  ∀ (q : Nat) (rs : List Nat) (v : Val) (q' : Nat) (rs' : List Nat) (p : Nat),
    f q rs = (.ok v q' rs', p) → q ≤ size → Spec.alignTy t ∣ q →
    Good_p17 t v ∧ q' = q + Spec.clen (Spec.chunksTy t v) ∧ q' ≤ size

theorem good_elems_p17 (t : Ty) : ∀ vs : List Val, (∀ v ∈ vs, Good_p17 t v) →
    hasElems t vs = true ∧ agreeElems t vs = true
  | [], _ => by simp [hasElems, agreeElems]
  | x :: xs, h => by
    have hx := h x (List.mem_cons_self ..)
    obtain ⟨a, b⟩ := good_elems_p17 t xs (fun v hv => h v (List.mem_cons_of_mem _ hv))
    simp [hasElems, agreeElems, hx.nc, hx.ty, hx.ag, a, b]

theorem decN_spec_p17 (t : Ty) (hw : wfTy t = true) (size : Nat) (f : Nat → List Nat → DRes Val × Nat)
    (hf : ElemOk_p17 t size f) :
    ∀ (n pos : Nat) (rs : List Nat) (vs : List Val) (pos' : Nat) (rs' : List Nat) (p : Nat),
      decN f n pos rs = (.ok vs pos' rs', p) → pos ≤ size → Spec.alignTy t ∣ pos →
      vs.length = n ∧ (∀ v ∈ vs, Good_p17 t v) ∧ pos' = pos + Spec.clen (Spec.chunksElems t vs) ∧ pos' ≤ size
  | 0, pos, rs, vs, pos', rs', p, h, hpos, hal => by
    simp only [decN] at h
    injection h with h1 h2
    injection h1 with h3 h4 h5
    subst h3 h4
    exact ⟨rfl, by simp, by simp [Spec.chunksElems, Spec.clen], hpos⟩
  | n + 1, pos, rs, vs, pos', rs', p, h, hpos, hal => by
    simp only [decN] at h
    cases hfp : f pos rs with
    | mk r q =>
      rw [hfp] at h
      cases r with
      | ok v pos1 rs1 =>
        obtain ⟨hg, hp1, hle1⟩ := hf pos rs v pos1 rs1 q hfp hpos hal
        simp only at h
        cases hdn : decN f n pos1 rs1 with
        | mk r2 q2 =>
          rw [hdn] at h
          cases r2 with
          | ok vs2 pos2 rs2 =>
            simp only at h
            injection h with h1 h2
            injection h1 with h3 h4 h5
            subst h3 h4
            have hal1 : Spec.alignTy t ∣ pos1 := by
              rw [hp1]; exact Nat.dvd_add hal (Spec.align_dvd_clen t v hw hg.nc hg.ty)
            obtain ⟨a, b, c, d⟩ := decN_spec_p17 t hw size f hf n pos1 rs1 vs2 pos2 rs2 q2 hdn hle1 hal1
            refine ⟨by simp [a], ?_, ?_, d⟩
            · intro x hx
              rcases List.mem_cons.1 hx with rfl | hx
              · exact hg
              · exact b x hx
            · simp only [Spec.chunksElems, Spec.clen_append]; omega
          | fail rs2 => simp at h
          | fault => simp at h
          | throw rs2 => simp at h
      | fail rs1 => simp at h
      | fault => simp at h
      | throw rs1 => simp at h

theorem decGreedyDyn_spec_p17 (t : Ty) (hw : wfTy t = true) (size : Nat) (f : Nat → List Nat → DRes Val × Nat)
    (hf : ElemOk_p17 t size f) :
    ∀ (fuel pos : Nat) (rs : List Nat) (vs : List Val) (pos' : Nat) (rs' : List Nat),
      decGreedyDyn f fuel pos rs = .ok vs pos' rs' → pos ≤ size → Spec.alignTy t ∣ pos →
      (∀ v ∈ vs, Good_p17 t v) ∧ pos' = pos + Spec.clen (Spec.chunksElems t vs) ∧ pos' ≤ size
  | 0, pos, rs, vs, pos', rs', h, hpos, hal => by simp [decGreedyDyn] at h
  | fuel + 1, pos, rs, vs, pos', rs', h, hpos, hal => by
    simp only [decGreedyDyn] at h
    cases hfp : f pos rs with
    | mk r q =>
      rw [hfp] at h
      cases r with
      | ok v pos1 rs1 =>
        obtain ⟨hg, hp1, hle1⟩ := hf pos rs v pos1 rs1 q hfp hpos hal
        simp only at h
        cases hdn : decGreedyDyn f fuel pos1 rs1 with
        | ok vs2 pos2 rs2 =>
          rw [hdn] at h
          simp only [DRes.bind] at h
          injection h with h3 h4 h5
          subst h3 h4
          have hal1 : Spec.alignTy t ∣ pos1 := by
            rw [hp1]; exact Nat.dvd_add hal (Spec.align_dvd_clen t v hw hg.nc hg.ty)
          obtain ⟨b, c, d⟩ := decGreedyDyn_spec_p17 t hw size f hf fuel pos1 rs1 vs2 pos2 rs2 hdn hle1 hal1
          refine ⟨?_, ?_, d⟩
          · intro x hx
            rcases List.mem_cons.1 hx with rfl | hx
            · exact hg
            · exact b x hx
          · simp only [Spec.chunksElems, Spec.clen_append]; omega
        | fail rs2 => rw [hdn] at h; simp [DRes.bind] at h
        | fault => rw [hdn] at h; simp [DRes.bind] at h
        | throw rs2 => rw [hdn] at h; simp [DRes.bind] at h
      | fail rs1 =>
        simp only at h
        injection h with h3 h4 h5
        subst h3 h4
        exact ⟨by simp, by simp [Spec.chunksElems, Spec.clen], hpos⟩
      | fault => simp at h
      | throw rs1 => simp at h

/-- the value `decArray` builds from the decoded elements -/
def arrVal_p17 (t : Ty) (vs : List Val) : Val :=
  match t with
  | .byte => toBytesVal vs
  | _ => .arr vs

theorem decArray_spec_p17 (t : Ty) (hw : wfTy t = true) (size : Nat) (f : Nat → List Nat → DRes Val × Nat)
    (hf : ElemOk_p17 t size f) (cnt pos : Nat) (rs : List Nat) (v : Val) (pos' : Nat) (rs' : List Nat) (p : Nat)
    (h : decArray f t cnt size pos rs = (.ok v pos' rs', p)) (hpos : pos ≤ size) (hal : Spec.alignTy t ∣ pos) :
    ∃ vs, v = arrVal_p17 t vs ∧ vs.length = cnt ∧ (∀ x ∈ vs, Good_p17 t x) ∧
      pos' = pos + Spec.clen (Spec.chunksElems t vs) ∧ pos' ≤ size := by
  unfold decArray at h
  split at h
  · rename_i hm
    cases hdn : decN f cnt pos rs with
    | mk r q =>
      rw [hdn] at h
      cases r with
      | ok vs pos1 rs1 =>
        simp only at h
        injection h with h1 h2
        injection h1 with h3 h4 h5
        subst h3 h4
        obtain ⟨a, b, c, d⟩ := decN_spec_p17 t hw size f hf cnt pos rs vs pos1 rs1 q hdn hpos hal
        refine ⟨vs, ?_, a, b, c, d⟩
        cases t <;> simp [isMessage] at hm <;> rfl
      | fail rs1 => simp at h
      | fault => simp at h
      | throw rs1 => simp at h
  · simp only at h
    split at h
    · simp at h
    · cases hdn : decN f cnt pos rs with
      | mk r q =>
        rw [hdn] at h
        cases r with
        | ok vs pos1 rs1 =>
          simp only at h
          injection h with h1 h2
          injection h1 with h3 h4 h5
          subst h3 h4
          obtain ⟨a, b, c, d⟩ := decN_spec_p17 t hw size f hf cnt pos rs vs pos1 rs1 q hdn hpos hal
          refine ⟨vs, ?_, a, b, c, d⟩
          cases t <;> rfl
        | fail rs1 => simp at h
        | fault => simp at h
        | throw rs1 => simp at h

/-! ## the value of an array member -/

theorem toBytesVal_len_p17 (vs : List Val) : ∃ b, toBytesVal vs = .bytes b ∧ b.length = vs.length := by
  exact ⟨_, rfl, by simp⟩

theorem arrVal_spec_p17 (all : List Member) (k : MKind) (t : Ty) (vs : List Val)
    (hg : ∀ x ∈ vs, Good_p17 t x) (hl : lenOk_dt all k vs.length = true) :
    hasField all k t (arrVal_p17 t vs) = true ∧ agreeTy t (arrVal_p17 t vs) = true ∧
      (arrVal_p17 t vs).len = vs.length ∧ (arrVal_p17 t vs).isCounter = false := by
  obtain ⟨he, ha⟩ := good_elems_p17 t vs hg
  by_cases hb : t = .byte
  · subst hb
    obtain ⟨b, hb1, hb2⟩ := toBytesVal_len_p17 vs
    simp only [arrVal_p17, hb1]
    refine ⟨hasField_bytes_dt all k b (by rw [hb2]; exact hl), by simp [agreeTy], by simp [Val.len, hb2], rfl⟩
  · have hv : arrVal_p17 t vs = .arr vs := by cases t <;> first | rfl | exact absurd rfl hb
    rw [hv]
    exact ⟨hasField_arr_dt all k t vs hb hl he, by rw [agreeTy_arr]; exact ha, rfl, rfl⟩

theorem clen_elems_fixed_p17 (t : Ty) (vs : List Val) (hfx : Spec.fixedTy t = true)
    (hg : ∀ x ∈ vs, Good_p17 t x) : Spec.clen (Spec.chunksElems t vs) = vs.length * Spec.sizeTy t :=
  fsz_elems vs t hfx (good_elems_p17 t vs hg).1

/-- the own length of a dynamic / greedy array member is the length of its elements -/
theorem memberLen_arr_p17 (t : Ty) (k : MKind) (vs : List Val) (hg : ∀ x ∈ vs, Good_p17 t x)
    (hk : k.isStatic = false) :
    Spec.memberLen t k (arrVal_p17 t vs) = Spec.clen (Spec.chunksElems t vs) := by
  by_cases hb : t = .byte
  · subst hb
    obtain ⟨b, hb1, hb2⟩ := toBytesVal_len_p17 vs
    have := clen_elems_fixed_p17 .byte vs rfl hg
    simp only [arrVal_p17, hb1]
    cases k <;> simp [MKind.isStatic] at hk <;> simp [Spec.memberLen, this, hb2, Spec.sizeTy]
  · have hv : arrVal_p17 t vs = .arr vs := by cases t <;> first | rfl | exact absurd rfl hb
    rw [hv]
    cases k <;> simp [MKind.isStatic] at hk <;> simp [Spec.memberLen]

/-! ## one member statement -/

/-- what one member statement of `generate_struct_decode` establishes when it succeeds -/
structure FieldOk_p17 (all : List Member) (n : String) (t : Ty) (k : MKind)
    (lens : List (String × Nat)) (pos : Nat) (v : Val) (lens' : List (String × Nat)) (pos1 : Nat) : Prop where
  ty : hasField all k t v = true
  ag : agreeTy t v = true
  ps : pos1 = pos + Spec.memberLen t k v
  mode :
    (k = .plain ∧ isSizer n all = true ∧ v = .sizer ∧ ∃ c, lens' = Py.boundHints all n c ++ lens ∧
        (c : Int) ≤ sizerMax n all ∧
        (∀ m, all.find? (fun m => decide (m.kind.sizer? = some n)) = some m → ∀ s l, m.kind = .limited s l → c ≤ l)) ∨
    (isSizer n all = false ∧ v.isCounter = false ∧ lens' = lens ∧
      ∀ s, k.sizer? = some s → lens.lookup n = some v.len)

theorem primRange_lo_p17 (p : Prim) : -(2 ^ 63 : Int) ≤ (primRange p).1 := by
  cases p <;> simp [primRange, Prim.isFloat, Prim.isSigned, Prim.size]

theorem memberLen_plain_p17 (t : Ty) (v : Val) (h : v.isCounter = false) :
    Spec.memberLen t .plain v = Spec.clen (Spec.chunksTy t v) := by
  cases v <;> simp_all [Spec.memberLen, Val.isCounter]

theorem memberLen_optional_p17 (t : Ty) (v : Val) :
    Spec.memberLen t .optional v = max Spec.flagSize (Spec.alignTy t) + Spec.sizeTy t := by
  cases v <;> simp [Spec.memberLen]

theorem sizerTail_ok_p17 {α : Type} (b : Bool) (cnt el size pos1 : Nat) (rs1 : List Nat) (a x : α)
    (q : Nat) (rs' : List Nat) (p : Nat)
    (h : (if b = true then ((DRes.fail rs1 : DRes α), pos1)
       else if cnt > remaining size pos1 / el then (.fail rs1, pos1)
       else if cnt > resizeLimit then (.throw (cnt :: rs1), pos1)
       else (.ok a pos1 (cnt :: rs1), pos1)) = (.ok x q rs', p)) :
    b = false ∧ cnt ≤ resizeLimit ∧ a = x ∧ pos1 = q := by
  split at h
  · simp at h
  · rename_i hb
    split at h
    · simp at h
    · split at h
      · simp at h
      · injection h with h1 h2
        injection h1 with h3 h4 h5
        exact ⟨by simpa using hb, by omega, h3, h4⟩

theorem advance_ok_inv_p17 (n size pos : Nat) (rs : List Nat) (u : Unit) (q : Nat) (rs' : List Nat)
    (hpos : pos ≤ size) (h : advance n size pos rs = .ok u q rs') : q = pos + n ∧ q ≤ size ∧ rs' = rs := by
  unfold advance at h
  rw [remaining_of_le hpos] at h
  split at h
  · cases h
  · injection h with _ h2 h3
    exact ⟨h2.symm, by omega, h3.symm⟩

theorem optAdvance_inv_p17 (apad size q : Nat) (rs2 : List Nat) (u : Unit) (q2 : Nat) (rs3 : List Nat)
    (hq : q ≤ size) (h : (if apad ≠ 0 then advance apad size q rs2 else DRes.ok () q rs2) = .ok u q2 rs3) :
    q2 = q + apad ∧ q2 ≤ size := by
  split at h
  · obtain ⟨a, b, _⟩ := advance_ok_inv_p17 _ _ _ _ _ _ _ hq h
    exact ⟨a, b⟩
  · rename_i h0
    injection h with _ h2 _
    have : apad = 0 := by simpa using h0
    omega

theorem field_spec_p17 (e : Endian) (all : List Member) (n : String) (t : Ty) (k : MKind) (msize : Nat)
    (data : Bytes) (pos : Nat) (rs : List Nat) (lens : List (String × Nat))
    (elem : Nat → List Nat → DRes Val × Nat) (v : Val) (lens' : List (String × Nat)) (pos1 : Nat)
    (rs1 : List Nat) (p : Nat)
    (hty : ElemOk_p17 t data.length elem) (hw : wfTy t = true) (hft : front t = true)
    (hsp : isSizer n all = true →
      k = .plain ∧ ∃ pr, t = .prim pr ∧ sizerPrimOf n all = pr ∧ sizerMax n all = (primRange pr).2)
    (hnp : k ≠ .plain → isSizer n all = false)
    (hfx : needsFixed k = true → Spec.fixedTy t = true)
    (hoa : k = .optional → max 4 (cppAlign t) = max 4 (Spec.alignTy t))
    (hms : msize = (PL.memOf (PL.nodeTy t) k).size)
    (hsh : k.shift = 0)
    (hh : ∀ s, k.sizer? = some s → ∃ c, lens.lookup n = some c ∧ (c : Int) ≤ sizerMax s all ∧
      (∀ s' l, k = .limited s' l → c ≤ l))
    (hpos : pos ≤ data.length) (hal : Spec.alignMember (.mk n t k) ∣ pos)
    (h : memberStep e all n t k msize data pos rs lens elem = (.ok (v, lens') pos1 rs1, p)) :
    FieldOk_p17 all n t k lens pos v lens' pos1 := by
  unfold memberStep at h
  cases k with
  | plain =>
    simp only at h
    cases hs : isSizer n all with
    | true =>
      obtain ⟨_, pr, rfl, hpr, hmax⟩ := hsp hs
      rw [hs, hpr] at h
      simp only [if_true] at h
      cases hd : decScalar e pr.size pr.isSigned data pos rs with
      | ok c q rs2 =>
        rw [hd] at h
        obtain ⟨hq, _, _, hr⟩ := decScalar_prim_p17 e pr data pos rs c q rs2 hpos hd
        simp only at h
        generalize hcnt : (if c < 0 then sizeMax - c.natAbs else c.toNat) = cnt at h
        obtain ⟨hlim, hrl, h3, h4⟩ := sizerTail_ok_p17 _ _ _ _ _ _ _ _ _ _ _ h
        injection h3 with h6 h7
        subst h6 h4
        simp only [inRange, Bool.and_eq_true, decide_eq_true_eq] at hr
        have hlo := primRange_lo_p17 pr
        have hc0 : 0 ≤ c := by
          by_cases hc : c < 0
          · exfalso
            rw [if_pos hc] at hcnt
            simp only [sizeMax, resizeLimit] at hcnt hrl
            omega
          · omega
        have hcn : ¬ (c < 0) := by omega
        rw [if_neg hcn] at hcnt
        refine ⟨by simp [hasField], by simp [agreeTy], ?_, Or.inl ⟨rfl, hs, rfl, cnt, ?_, ?_, ?_⟩⟩
        · simp [Spec.memberLen, Spec.sizeTy, hq]
        · rw [← h7]; rfl
        · rw [hmax]; omega
        · intro m hm s l hml
          rw [hm] at hlim
          simp only [Option.bind, hml] at hlim
          simpa using hlim
      | fail rs2 => rw [hd] at h; simp at h
      | fault => rw [hd] at h; simp at h
      | throw rs2 => rw [hd] at h; simp at h
    | false =>
      rw [hs] at h
      simp only [Bool.false_eq_true, if_false] at h
      obtain ⟨a, h1, h2⟩ := retag_ok_inv_p10 _ _ _ _ _ _ h
      injection h2 with h3 h4
      subst h3 h4
      have hal' : Spec.alignTy t ∣ pos := by simpa [Spec.alignMember, Member.kind, Member.ty] using hal
      obtain ⟨hg, hq, _⟩ := hty pos rs a pos1 rs1 p h1 hpos hal'
      refine ⟨by rw [hasField_plain_indep all []]; exact hg.ty, hg.ag, ?_, Or.inr ⟨hs, hg.nc, rfl, ?_⟩⟩
      · rw [memberLen_plain_p17 t a hg.nc]; exact hq
      · intro s hs'; simp [MKind.sizer?] at hs'
  | optional =>
    have hns := hnp (by simp)
    have hfxt := hfx rfl
    have hoa' := hoa rfl
    have hal' : max 4 (Spec.alignTy t) ∣ pos := by
      simpa [Spec.alignMember, Member.kind, Member.ty, Spec.flagSize] using hal
    simp only at h
    cases hd : decScalar e 4 false data pos rs with
    | ok disc q rs2 =>
      rw [hd] at h
      obtain ⟨hq, _, hq2, _⟩ := decScalar_ok_p17 e 4 false data pos rs disc q rs2 hpos hd
      simp only at h
      have hap4 : 4 + (if cppAlign t > 4 then cppAlign t - 4 else 0) = max 4 (Spec.alignTy t) := by
        rw [← hoa']; split <;> omega
      generalize (if cppAlign t > 4 then cppAlign t - 4 else 0) = apad at h hap4
      cases hd2 : (if apad ≠ 0 then advance apad data.length q rs2 else DRes.ok () q rs2) with
      | ok u q2 rs3 =>
        rw [hd2] at h
        obtain ⟨hq2e, hq2l⟩ := optAdvance_inv_p17 apad data.length q rs2 u q2 rs3 (by omega) hd2
        simp only at h
        split at h
        · obtain ⟨a, h1, h2⟩ := retag_ok_inv_p10 _ _ _ _ _ _ h
          injection h2 with h3 h4
          subst h3 h4
          have hal2 : Spec.alignTy t ∣ q2 := by
            have hA := Spec.alignTy_isAl t
            have h4 : IsAl 4 := by unfold IsAl; simp
            have : Spec.alignTy t ∣ max 4 (Spec.alignTy t) := IsAl.dvd_max_right h4 hA
            have hq2' : q2 = pos + max 4 (Spec.alignTy t) := by omega
            rw [hq2']
            exact Nat.dvd_add (Nat.dvd_trans this hal') this
          obtain ⟨hg, hq3, _⟩ := hty q2 rs3 a pos1 rs1 p h1 hq2l hal2
          refine ⟨?_, by rw [agreeTy_present]; exact hg.ag, ?_, Or.inr ⟨hns, rfl, rfl, ?_⟩⟩
          · simp only [hasField, hg.nc, Bool.not_false, Bool.true_and]
            rw [hasField_plain_indep all []]; exact hg.ty
          · rw [memberLen_optional_p17, hq3, Spec.clen_fixed t a hfxt hg.nc hg.ty]
            simp only [Spec.flagSize]; omega
          · intro s hs'; simp [MKind.sizer?] at hs'
        · rw [Cpp.codecSize_fixed t hfxt] at h
          have hnn : ((Spec.sizeTy t : Nat) : Int) ≥ 0 := by omega
          rw [if_pos hnn] at h
          simp only [Int.toNat_natCast] at h
          cases hd3 : advance (Spec.sizeTy t) data.length q2 rs3 with
          | ok u3 q3 rs4 =>
            rw [hd3] at h
            obtain ⟨hq3, _, _⟩ := advance_ok_inv_p17 _ _ _ _ _ _ _ hq2l hd3
            simp only at h
            injection h with h1 h2
            injection h1 with h3 h4 h5
            injection h3 with h6 h7
            subst h6 h7 h4
            refine ⟨by simp [hasField], (agreeTy_flat t .absent trivial).1, ?_, Or.inr ⟨hns, rfl, rfl, ?_⟩⟩
            · rw [memberLen_optional_p17]
              simp only [Spec.flagSize]; omega
            · intro s hs'; simp [MKind.sizer?] at hs'
          | fail rs4 => rw [hd3] at h; simp at h
          | fault => rw [hd3] at h; simp at h
          | throw rs4 => rw [hd3] at h; simp at h
      | fail rs3 => rw [hd2] at h; simp at h
      | fault => rw [hd2] at h; simp at h
      | throw rs3 => rw [hd2] at h; simp at h
    | fail rs2 => rw [hd] at h; simp at h
    | fault => rw [hd] at h; simp at h
    | throw rs2 => rw [hd] at h; simp at h
  | fixed c =>
    have hns := hnp (by simp)
    have hfxt := hfx rfl
    have hal' : Spec.alignTy t ∣ pos := by simpa [Spec.alignMember, Member.kind, Member.ty] using hal
    simp only at h
    obtain ⟨a, h1, h2⟩ := retag_ok_inv_p10 _ _ _ _ _ _ h
    injection h2 with h3 h4
    subst h3 h4
    obtain ⟨vs, rfl, hlen, hg, hq, _⟩ := decArray_spec_p17 t hw data.length elem hty c pos rs a pos1 rs1 p h1 hpos hal'
    obtain ⟨a1, a2, a3, a4⟩ := arrVal_spec_p17 all (.fixed c) t vs hg (by simp [lenOk_dt, hlen])
    refine ⟨a1, a2, ?_, Or.inr ⟨hns, a4, rfl, ?_⟩⟩
    · rw [hq, clen_elems_fixed_p17 t vs hfxt hg, hlen]
      cases arrVal_p17 t vs <;> simp [Spec.memberLen]
    · intro s hs'; simp [MKind.sizer?] at hs'
  | dyn s sh =>
    have hns := hnp (by simp)
    have hal' : Spec.alignTy t ∣ pos := by simpa [Spec.alignMember, Member.kind, Member.ty] using hal
    obtain ⟨c, hc1, hc2, _⟩ := hh s rfl
    simp only [MKind.shift] at hsh
    subst hsh
    simp only [hc1, Option.getD_some] at h
    obtain ⟨a, h1, h2⟩ := retag_ok_inv_p10 _ _ _ _ _ _ h
    injection h2 with h3 h4
    subst h3 h4
    obtain ⟨vs, rfl, hlen, hg, hq, _⟩ := decArray_spec_p17 t hw data.length elem hty c pos rs a pos1 rs1 p h1 hpos hal'
    obtain ⟨a1, a2, a3, a4⟩ := arrVal_spec_p17 all (.dyn s 0) t vs hg (by simp [lenOk_dt, hlen, hc2])
    refine ⟨a1, a2, ?_, Or.inr ⟨hns, a4, rfl, ?_⟩⟩
    · rw [hq, memberLen_arr_p17 t _ vs hg rfl]
    · intro s' hs'; rw [a3, hlen]; exact hc1
  | limited s l =>
    have hns := hnp (by simp)
    have hfxt := hfx rfl
    have hal' : Spec.alignTy t ∣ pos := by simpa [Spec.alignMember, Member.kind, Member.ty] using hal
    obtain ⟨c, hc1, hc2, hc3⟩ := hh s rfl
    have hcl := hc3 s l rfl
    simp only [hc1, Option.getD_some] at h
    cases hd : decArray elem t c data.length pos rs with
    | mk r q =>
      rw [hd] at h
      cases r with
      | ok a q1 rs2 =>
        obtain ⟨vs, rfl, hlen, hg, hq, _⟩ := decArray_spec_p17 t hw data.length elem hty c pos rs a q1 rs2 q hd hpos hal'
        simp only at h
        cases hd3 : advance msize data.length pos rs2 with
        | ok u3 q3 rs4 =>
          rw [hd3] at h
          obtain ⟨hq3, _, _⟩ := advance_ok_inv_p17 _ _ _ _ _ _ _ hpos hd3
          simp only at h
          injection h with h1 h2
          injection h1 with h3 h4 h5
          injection h3 with h6 h7
          subst h6 h7 h4
          obtain ⟨a1, a2, a3, a4⟩ := arrVal_spec_p17 all (.limited s l) t vs hg (by simp [lenOk_dt, hlen, hc2, hcl])
          refine ⟨a1, a2, ?_, Or.inr ⟨hns, a4, rfl, ?_⟩⟩
          · rw [hq3, hms, PL.memOf_slot t _ hft]
            cases arrVal_p17 t vs <;> simp [Spec.memberLen, Spec.slot]
          · intro s' hs'; rw [a3, hlen]; exact hc1
        | fail rs4 => rw [hd3] at h; simp at h
        | fault => rw [hd3] at h; simp at h
        | throw rs4 => rw [hd3] at h; simp at h
      | fail rs2 => simp at h
      | fault => simp at h
      | throw rs2 => simp at h
  | greedy =>
    have hns := hnp (by simp)
    have hal' : Spec.alignTy t ∣ pos := by simpa [Spec.alignMember, Member.kind, Member.ty] using hal
    simp only at h
    split at h
    · split at h
      · simp at h
      · obtain ⟨a, h1, h2⟩ := retag_ok_inv_p10 _ _ _ _ _ _ h
        injection h2 with h3 h4
        subst h3 h4
        obtain ⟨vs, rfl, hlen, hg, hq, _⟩ := decArray_spec_p17 t hw data.length elem hty _ pos _ a pos1 rs1 p h1 hpos hal'
        obtain ⟨a1, a2, a3, a4⟩ := arrVal_spec_p17 all .greedy t vs hg (by simp [lenOk_dt])
        refine ⟨a1, a2, ?_, Or.inr ⟨hns, a4, rfl, ?_⟩⟩
        · rw [hq, memberLen_arr_p17 t _ vs hg rfl]
        · intro s' hs'; simp [MKind.sizer?] at hs'
    · rename_i hcs
      cases hd : decGreedyDyn elem (data.length + 1) pos rs with
      | ok vs q1 rs2 =>
        rw [hd] at h
        simp only at h
        injection h with h1 h2
        injection h1 with h3 h4 h5
        injection h3 with h6 h7
        subst h6 h7 h4
        obtain ⟨hg, hq, _⟩ := decGreedyDyn_spec_p17 t hw data.length elem hty _ pos rs vs q1 rs2 hd hpos hal'
        have hb : t ≠ .byte := by
          intro hb; subst hb; simp [codecSize] at hcs
        have hv : arrVal_p17 t vs = .arr vs := by cases t <;> first | rfl | exact absurd rfl hb
        obtain ⟨a1, a2, a3, a4⟩ := arrVal_spec_p17 all .greedy t vs hg (by simp [lenOk_dt])
        rw [hv] at a1 a2 a4
        refine ⟨a1, a2, ?_, Or.inr ⟨hns, a4, rfl, ?_⟩⟩
        · rw [hq, ← hv, memberLen_arr_p17 t _ vs hg rfl]
        · intro s' hs'; simp [MKind.sizer?] at hs'
      | fail rs2 => rw [hd] at h; simp at h
      | fault => rw [hd] at h; simp at h
      | throw rs2 => rw [hd] at h; simp at h

theorem padStep_ok_inv_p17 (pd : Int) (size pos : Nat) (rs : List Nat) (u : Unit) (q : Nat) (rs' : List Nat)
    (hpos : pos ≤ size) (h : padStep pd size pos rs = .ok u q rs') :
    q = applyPad pd pos ∧ q ≤ size ∧ rs' = rs := by
  unfold padStep at h
  unfold applyPad
  split at h
  · rename_i hneg
    rw [if_pos hneg]
    unfold alignStep at h
    simp only at h
    split at h
    · cases h
    · injection h with _ h2 h3
      exact ⟨h2.symm, by omega, h3.symm⟩
  · rename_i hneg
    rw [if_neg hneg]
    split at h
    · obtain ⟨a, b, c⟩ := advance_ok_inv_p17 _ _ _ _ _ _ _ hpos h
      exact ⟨a, b, c⟩
    · injection h with _ h2 h3
      have : pd.toNat = 0 := by omega
      exact ⟨by omega, by omega, h3.symm⟩

/-! ## the length hints: every array whose counter has been read has a hint within its bounds -/

def HOk_p17 (all before ms : List Member) (lens : List (String × Nat)) : Prop :=
  ∀ m ∈ ms, ∀ s, m.kind.sizer? = some s → (∃ x ∈ before, x.name = s) →
    ∃ c, lens.lookup m.name = some c ∧ (c : Int) ≤ sizerMax s all ∧ (∀ s' l, m.kind = .limited s' l → c ≤ l)

/-- what `limFirstMs all all` says member by member -/
def LimProp_p17 (all : List Member) : Prop :=
  ∀ m ∈ all, ∀ s l, m.kind = .limited s l →
    ∃ m1 s1 l1, all.find? (fun m => decide (m.kind.sizer? = some s)) = some m1 ∧ m1.kind = .limited s1 l1 ∧ l1 ≤ l

theorem limFirstMs_cons_p17 (all : List Member) (n : String) (t : Ty) (k : MKind) (r : List Member)
    (h : limFirstMs all (.mk n t k :: r) = true) :
    (∀ s l, k = .limited s l → ∃ m1 s1 l1,
        all.find? (fun m => decide (m.kind.sizer? = some s)) = some m1 ∧ m1.kind = .limited s1 l1 ∧ l1 ≤ l) ∧
      limFirst t = true ∧ limFirstMs all r = true := by
  simp only [limFirstMs, Bool.and_eq_true] at h
  refine ⟨?_, h.1.2, h.2⟩
  intro s l hk
  subst hk
  have h1 := h.1.1
  simp only at h1
  split at h1
  · rename_i m1 hm1
    split at h1
    · rename_i s1 l1 hk1
      exact ⟨m1, s1, l1, hm1, hk1, by simpa using h1⟩
    · cases h1
  · cases h1

theorem limProp_of_p17 (all : List Member) : (ms : List Member) → limFirstMs all ms = true →
    ∀ m ∈ ms, ∀ s l, m.kind = .limited s l →
      ∃ m1 s1 l1, all.find? (fun m => decide (m.kind.sizer? = some s)) = some m1 ∧ m1.kind = .limited s1 l1 ∧ l1 ≤ l
  | [], _, m, hm, _, _, _ => by cases hm
  | .mk n t k :: r, h, m, hm, s, l, hk => by
    obtain ⟨h1, _, h3⟩ := limFirstMs_cons_p17 all n t k r h
    rcases List.mem_cons.1 hm with rfl | hr
    · exact h1 s l hk
    · exact limProp_of_p17 all r h3 m hr s l hk

theorem HOk_nil_p17 (all ms : List Member) : HOk_p17 all [] ms [] := by
  intro m _ s _ ⟨x, hx, _⟩; cases hx

theorem HOk_other_p17 (all before : List Member) (m0 : Member) (r : List Member) (lens : List (String × Nat))
    (hall : all = before ++ m0 :: r) (hns : isSizer m0.name all = false) (h : HOk_p17 all before (m0 :: r) lens) :
    HOk_p17 all (before ++ [m0]) r lens := by
  intro m hm s hs ⟨x, hx, hxn⟩
  rcases List.mem_append.1 hx with hx | hx
  · exact h m (List.mem_cons_of_mem _ hm) s hs ⟨x, hx, hxn⟩
  · have hx0 : x = m0 := by simpa using hx
    subst hx0
    have : isSizer x.name all = true := by
      rw [isSizer_iff]
      exact ⟨m, by rw [hall]; simp [hm], by rw [hxn]; exact hs⟩
    rw [this] at hns; cases hns

theorem HOk_sizer_p17 (all before : List Member) (m0 : Member) (r : List Member) (lens : List (String × Nat))
    (c : Nat) (hall : all = before ++ m0 :: r)
    (UQ : ∀ m ∈ all, ∀ m' ∈ all, m.name = m'.name → m = m')
    (LP : LimProp_p17 all)
    (hc : (c : Int) ≤ sizerMax m0.name all)
    (hlim : ∀ m, all.find? (fun m => decide (m.kind.sizer? = some m0.name)) = some m →
      ∀ s l, m.kind = .limited s l → c ≤ l)
    (h : HOk_p17 all before (m0 :: r) lens) :
    HOk_p17 all (before ++ [m0]) r (Py.boundHints all m0.name c ++ lens) := by
  intro m hm s hs ⟨x, hx, hxn⟩
  have hmall : m ∈ all := by rw [hall]; simp [hm]
  rw [lookup_append']
  cases hq : (Py.boundHints all m0.name c).lookup m.name with
  | some c'' =>
    obtain ⟨rfl, m', hm', hs', hn'⟩ := lookup_bound_some m0.name c m.name c'' all hq
    have := UQ m' hm' m hmall hn'
    subst this
    rw [hs] at hs'
    have hsn : s = m0.name := by simpa using hs'
    refine ⟨c'', rfl, by rw [hsn]; exact hc, ?_⟩
    intro s' l hk
    have hs'' : s' = m0.name := by rw [hk] at hs; rw [← hsn]; simpa [MKind.sizer?] using hs
    obtain ⟨m1, s1, l1, hf1, hk1, hle⟩ := LP m' hmall s' l hk
    rw [hs''] at hf1
    have := hlim m1 hf1 s1 l1 hk1
    omega
  | none =>
    simp only
    have hne : s ≠ m0.name := by
      intro hsn
      subst hsn
      rw [lookup_bound_mem m0.name c m hs all hmall] at hq
      cases hq
    have hxb : x ∈ before := by
      rcases List.mem_append.1 hx with hx | hx
      · exact hx
      · have hx0 : x = m0 := by simpa using hx
        subst hx0; exact absurd hxn.symm hne
    exact h m (List.mem_cons_of_mem _ hm) s hs ⟨x, hxb, hxn⟩

end Cpp

/-! ## one step of the `&&` chain of generate_struct_decode -/

/-- a counter member is a plain integer member (and `sizerPrimOf` / `sizerMax` see its type) -/
def SP_p17 (all : List Member) : Prop :=
  ∀ n t k, Member.mk n t k ∈ all → isSizer n all = true →
    k = .plain ∧ ∃ pr, t = .prim pr ∧ Cpp.sizerPrimOf n all = pr ∧ sizerMax n all = (primRange pr).2

theorem SP_of_wf_p17 (all : List Member) (hu : WF.uniq (all.map (·.name)) = true) (hw : wfMs all all = true) :
    SP_p17 all := by
  intro n t k hm hs
  obtain ⟨p, rfl, rfl, _, hmax⟩ := WF.sizer_prim all hu hw n t k hm hs
  have hfind : all.find? (fun x => x.name == n) = some (.mk n (.prim p) .plain) := WF.uniq_find all hu _ hm
  refine ⟨rfl, p, rfl, ?_, hmax⟩
  unfold Cpp.sizerPrimOf
  rw [hfind]

theorem ms_step_p17 (e : Endian) (all before : List Member) (n : String) (t : Ty) (k : MKind) (r : List Member)
    (msize a : Nat) (padding : Int) (ls : List (Nat × Nat × Int)) (data : Bytes) (pos : Nat) (rs : List Nat)
    (lens : List (String × Nat)) (vs : List Val) (pos' : Nat) (rs' : List Nat) (p : Nat)
    (hall : all = before ++ .mk n t k :: r)
    (hfm : frontMs all (.mk n t k :: r) before = true) (hpm : pyRtMs all (.mk n t k :: r) before = true)
    (hns : Cpp.noShiftMs (.mk n t k :: r) = true) (hom : Cpp.optMisalignedMs (.mk n t k :: r) = false)
    (SP : SP_p17 all) (UQ : ∀ m ∈ all, ∀ m' ∈ all, m.name = m'.name → m = m') (LP : Cpp.LimProp_p17 all)
    (hok : Cpp.HOk_p17 all before (.mk n t k :: r) lens)
    (hty : Cpp.ElemOk_p17 t data.length (fun q rs' => Cpp.decTy e t data q rs'))
    (hms : msize = (PL.memOf (PL.nodeTy t) k).size)
    (hpos : pos ≤ data.length) (hal : Spec.alignMember (.mk n t k) ∣ pos)
    (h : Cpp.decMs e all (.mk n t k :: r) ((msize, a, padding) :: ls) data pos rs lens = (.ok vs pos' rs', p)) :
    ∃ v vs' lens' pos1 rs2 p2, vs = v :: vs' ∧ Cpp.FieldOk_p17 all n t k lens pos v lens' pos1 ∧
      v.isCounter = isSizer n all ∧ Cpp.applyPad padding pos1 ≤ data.length ∧
      Cpp.HOk_p17 all (before ++ [.mk n t k]) r lens' ∧
      Cpp.decMs e all r ls data (Cpp.applyPad padding pos1) rs2 lens' = (.ok vs' pos' rs', p2) := by
  have hw := Accept.wfMs_of_accept all (.mk n t k :: r) before hall hfm hpm
  obtain ⟨hwt, hfx, _, _, hwr⟩ := (wfMs_cons all n t k r).1 hw
  obtain ⟨hft, _, hfr⟩ := Accept.frontMs_cons all n t k r before hfm
  obtain ⟨hpt, _, _, _, _, h6, _, hpr⟩ := (Accept.pyRtMs_cons all n t k r before).1 hpm
  obtain ⟨hsh, hnst, hnsr⟩ := (Cpp.noShiftMs_cons n t k r).1 hns
  obtain ⟨hoa, homt, homr⟩ := (Cpp.optMisalignedMs_cons n t k r).1 hom
  have hmem : Member.mk n t k ∈ all := by rw [hall]; simp
  have hnp : k ≠ .plain → isSizer n all = false := by
    intro hk
    cases hs : isSizer n all with
    | false => rfl
    | true => exact absurd (SP n t k hmem hs).1 hk
  have hoa' : k = .optional → max 4 (Cpp.cppAlign t) = max 4 (Spec.alignTy t) := by
    intro hk; rw [← PL.nodeTy_align' t]; exact hoa hk
  have hh : ∀ s, k.sizer? = some s → ∃ c, lens.lookup n = some c ∧ (c : Int) ≤ sizerMax s all ∧
      (∀ s' l, k = .limited s' l → c ≤ l) := by
    intro s hs
    obtain ⟨sn, sty, sk, hfind, _⟩ := h6 s hs
    exact hok (.mk n t k) (List.mem_cons_self ..) s hs (find?_name_mem before s _ hfind)
  rw [Cpp.decMs_cons] at h
  have hgood := Cpp.memberStep_good e all n t k msize data pos rs lens (fun q rs' => Cpp.decTy e t data q rs')
    (fun q rs' hq => Cpp.decTy_good e t data q rs' hq) hpos
  cases hd : Cpp.memberStep e all n t k msize data pos rs lens (fun q rs' => Cpp.decTy e t data q rs') with
  | mk x p1 =>
    rw [hd] at h hgood
    cases x with
    | ok vl pos1 rs1 =>
      obtain ⟨v, lens'⟩ := vl
      obtain ⟨_, hp1le, _⟩ := hgood
      have F := Cpp.field_spec_p17 e all n t k msize data pos rs lens _ v lens' pos1 rs1 p1 hty hwt hft
        (SP n t k hmem) hnp hfx hoa' hms hsh hh hpos hal hd
      simp only at h
      cases hd2 : Cpp.padStep padding data.length pos1 rs1 with
      | ok u pos2 rs2 =>
        rw [hd2] at h
        obtain ⟨hp2, hp2le, _⟩ := Cpp.padStep_ok_inv_p17 padding data.length pos1 rs1 u pos2 rs2 hp1le hd2
        simp only at h
        cases hd3 : Cpp.decMs e all r ls data pos2 rs2 lens' with
        | mk y p3 =>
          rw [hd3] at h
          cases y with
          | ok vs' pos3 rs3 =>
            simp only at h
            injection h with h1 h2
            injection h1 with h3 h4 h5
            subst h3 h4 h5
            refine ⟨v, vs', lens', pos1, rs2, p3, rfl, F, ?_, by rw [← hp2]; exact hp2le, ?_, by rw [← hp2]; exact hd3⟩
            · rcases F.mode with ⟨_, hs, rfl, _⟩ | ⟨hs, hnc, _, _⟩
              · rw [hs]; rfl
              · rw [hs, hnc]
            · rcases F.mode with ⟨_, hs, _, c, hl, hc1, hc2⟩ | ⟨hs, _, hl, _⟩
              · rw [hl]; exact Cpp.HOk_sizer_p17 all before (.mk n t k) r lens c hall UQ LP hc1 hc2 hok
              · rw [hl]; exact Cpp.HOk_other_p17 all before (.mk n t k) r lens hall hs hok
          | fail rs3 => simp at h
          | fault => simp at h
          | throw rs3 => simp at h
      | fail rs2 => rw [hd2] at h; simp at h
      | fault => rw [hd2] at h; simp at h
      | throw rs2 => rw [hd2] at h; simp at h
    | fail rs1 => simp at h
    | fault => simp at h
    | throw rs1 => simp at h

/-! ## the walk over the members of one struct -/

theorem walk_p17 (e : Endian) (all : List Member) (data : Bytes) (A : Nat) (allv : List Val)
    (hu : WF.uniq (all.map (·.name)) = true) (SP : SP_p17 all)
    (UQ : ∀ m ∈ all, ∀ m' ∈ all, m.name = m'.name → m = m') (LP : Cpp.LimProp_p17 all)
    (hA : A = Spec.alignMs all) :
    (r : List Member) → ∀ (n : String) (t : Ty) (k : MKind) (before : List Member)
      (lens : List (String × Nat)) (rs : List Nat) (first pd : Bool) (off st base : Nat) (d : Bool)
      (vs : List Val) (pos' : Nat) (rs' : List Nat) (p : Nat),
    all = before ++ .mk n t k :: r →
    frontMs all (.mk n t k :: r) before = true → pyRtMs all (.mk n t k :: r) before = true →
    Cpp.noShiftMs (.mk n t k :: r) = true → Cpp.optMisalignedMs (.mk n t k :: r) = false →
    (∀ m ∈ Member.mk n t k :: r, Cpp.ElemOk_p17 m.ty data.length (fun q rs' => Cpp.decTy e m.ty data q rs')) →
    A ∣ base → base + off ≤ data.length →
    Cpp.HOk_p17 all before (.mk n t k :: r) lens →
    d = (pd || (PL.memsOf (.mk n t k :: r)).any PL.isMemberDynamic) →
    (pd = false → off = st) →
    off % Spec.blockAlign (.mk n t k :: r) = st % Spec.blockAlign (.mk n t k :: r) →
    Spec.alignMember (.mk n t k) ∣ off →
    (PL.curMem first n t k r).align ∣ st →
    Cpp.decMs e all (.mk n t k :: r)
      (PL.lsFrom A d (PL.curMem first n t k r) (PL.bump (PL.memsOf r) (PL.endsPart (PL.memOf (PL.nodeTy t) k)))
        (st + (PL.memOf (PL.nodeTy t) k).size)) data (base + off) rs lens = (.ok vs pos' rs', p) →
    ∃ v vs', vs = v :: vs' ∧ hasMs all (.mk n t k :: r) vs = true ∧ agreeFields (.mk n t k :: r) vs = true ∧
      Run all (.mk n t k :: r) lens vs ∧
      pos' = base + alignUp (Spec.specEnd r (Spec.memberLens all allv r vs') (off + Spec.memberLen t k v)
        (Spec.endsBlock (.mk n t k))) A
  | [], n, t, k, before, lens, rs, first, pd, off, st, base, d, vs, pos', rs', p, hall, hfm, hpm, hns, hom, hE,
      hbase, hle, hok, hdd, hi1, hi2, hi3, hi4, h => by
    have hAal : IsAl A := by rw [hA]; exact Spec.alignMs_isAl all
    have hmem : Member.mk n t k ∈ all := by rw [hall]; simp
    have hdm : Spec.alignMember (.mk n t k) ∣ A := by rw [hA]; exact Spec.alignMember_dvd_alignMs _ all hmem
    simp only [PL.memsOf, PL.bump, PL.lsFrom_nil] at h
    have hcs : (PL.curMem first n t k []).size = (PL.memOf (PL.nodeTy t) k).size := rfl
    obtain ⟨v, vs', lens', pos1, rs2, p2, rfl, F, hcnt, hple, hok', hrest⟩ :=
      ms_step_p17 e all before n t k [] _ _ _ _ data (base + off) rs lens vs pos' rs' p hall hfm hpm hns hom SP UQ LP
        hok (hE _ (List.mem_cons_self ..)) hcs hle (Nat.dvd_add (Nat.dvd_trans hdm hbase) hi3) h
    rw [Cpp.decMs_nil] at hrest
    injection hrest with h1 h2
    injection h1 with h3 h4 h5
    subst h3 h4
    have hh : hasMs all [.mk n t k] [v] = true := (hasMs_cons all n t k [] v []).2 ⟨hcnt, F.ty, by simp [hasMs]⟩
    have hAle : Spec.alignMs [.mk n t k] ≤ A := by
      rw [hA, hall]; exact Spec.alignMs_suffix_p10 before _
    have hlast := PL.last_p10 A hAal d all all allv n t k v before first pd off st hfm hh hAle hdd hi1 hi2 hi3 hi4
    have hpb := Cpp.applyPad_base_p10
      (PL.plastOf A d (PL.curMem first n t k []) (st + (PL.memOf (PL.nodeTy t) k).size)) base
      (off + Spec.memberLen t k v)
      (fun h => by rw [PL.plastOf_neg_p10 A d _ _ h]; exact hbase)
    rw [hlast] at hpb
    refine ⟨v, [], rfl, hh, by simp [agreeFields, F.ag], ?_, ?_⟩
    · rcases F.mode with ⟨rfl, hs, rfl, c, hl, _⟩ | ⟨hs, hnc, hl, hb⟩
      · exact Run.sizer n t [] lens c [] hs (by rw [← hl]; exact Run.nil _)
      · exact Run.other n t k [] lens v [] (fun _ => hs) hb (Run.nil _)
    · rw [F.ps, Nat.add_assoc, hpb]
      simp [Spec.specEnd]
  | .mk n' t' k' :: r', n, t, k, before, lens, rs, first, pd, off, st, base, d, vs, pos', rs', p, hall, hfm, hpm, hns,
      hom, hE, hbase, hle, hok, hdd, hi1, hi2, hi3, hi4, h => by
    have hAal : IsAl A := by rw [hA]; exact Spec.alignMs_isAl all
    have hmem : Member.mk n t k ∈ all := by rw [hall]; simp
    have hsub : ∀ m ∈ Member.mk n' t' k' :: r', m ∈ all := by intro m hm; rw [hall]; simp [hm]
    have hdm : Spec.alignMember (.mk n t k) ∣ A := by rw [hA]; exact Spec.alignMember_dvd_alignMs _ all hmem
    obtain ⟨hft, _, hfr⟩ := Accept.frontMs_cons all n t k (.mk n' t' k' :: r') before hfm
    obtain ⟨_, ho, hs, ha, hl, _⟩ := frontMs_cons_playou all n t k (.mk n' t' k' :: r') before hfm
    obtain ⟨_, _, _, _, _, _, _, hpr⟩ := (Accept.pyRtMs_cons all n t k (.mk n' t' k' :: r') before).1 hpm
    obtain ⟨_, _, hnsr⟩ := (Cpp.noShiftMs_cons n t k (.mk n' t' k' :: r')).1 hns
    obtain ⟨_, _, homr⟩ := (Cpp.optMisalignedMs_cons n t k (.mk n' t' k' :: r')).1 hom
    obtain ⟨_, hk2⟩ := hl (by simp)
    have hep := PL.endsPart_memOf n t k hft ho hs hk2
    have hmd : PL.isMemberDynamic (PL.memOf (PL.nodeTy t) k) = Spec.endsBlock (.mk n t k) := by
      rw [PL.isMemberDynamic_memOf t k hft hk2, hep]
    have hbs : st + (PL.memOf (PL.nodeTy t) k).size + (PL.curMem (Spec.endsBlock (.mk n t k)) n' t' k' r').size +
        padTo (st + (PL.memOf (PL.nodeTy t) k).size) (PL.curMem (Spec.endsBlock (.mk n t k)) n' t' k' r').align =
        alignUp (st + (PL.memOf (PL.nodeTy t) k).size) (PL.curMem (Spec.endsBlock (.mk n t k)) n' t' k' r').align +
          (PL.memOf (PL.nodeTy t') k').size := by
      have hc2s : (PL.curMem (Spec.endsBlock (.mk n t k)) n' t' k' r').size = (PL.memOf (PL.nodeTy t') k').size := rfl
      rw [hc2s]; unfold alignUp; omega
    rw [hep, PL.bump_memsOf_cons all _ n' t' k' r' _ hfr, PL.lsFrom_cons, hbs] at h
    have hcs : (PL.curMem first n t k (.mk n' t' k' :: r')).size = (PL.memOf (PL.nodeTy t) k).size := rfl
    obtain ⟨v, vs', lens', pos1, rs2, p2, rfl, F, hcnt, hple, hok', hrest⟩ :=
      ms_step_p17 e all before n t k _ _ _ _ _ data (base + off) rs lens vs pos' rs' p hall hfm hpm hns hom SP UQ LP
        hok (hE _ (List.mem_cons_self ..)) hcs hle (Nat.dvd_add (Nat.dvd_trans hdm hbase) hi3) h
    have hstep := PL.step_p10 all all n t k v n' t' k' r' before first pd off st hfm F.ty hi1 hi2 hi3 hi4
    obtain ⟨hs1, hs2, hs3, hs4⟩ := hstep
    have ha'A : (PL.curMem (Spec.endsBlock (.mk n t k)) n' t' k' r').align ∣ A := by
      show (if Spec.endsBlock (.mk n t k) = true then Spec.blockAlign (.mk n' t' k' :: r')
        else Spec.alignMember (.mk n' t' k')) ∣ A
      split
      · rw [hA]
        exact Spec.blockAlign_dvd _ (Spec.alignMs_isAl all) _
          (fun m hm => Spec.alignMember_dvd_alignMs m all (hsub m hm))
      · rw [hA]
        exact Spec.alignMember_dvd_alignMs _ all (hsub _ (List.mem_cons_self ..))
    have hpos2 : 0 < (PL.curMem (Spec.endsBlock (.mk n t k)) n' t' k' r').align := by
      show 0 < (if Spec.endsBlock (.mk n t k) = true then Spec.blockAlign (.mk n' t' k' :: r')
        else Spec.alignMember (.mk n' t' k'))
      split
      · exact (Spec.blockAlign_isAl _).pos
      · exact Spec.alignMember_pos _
    have hpb := Cpp.applyPad_base_p10
      (if (PL.isMemberDynamic (PL.curMem first n t k (.mk n' t' k' :: r')) &&
            decide ((PL.curMem first n t k (.mk n' t' k' :: r')).align <
              (PL.curMem (Spec.endsBlock (.mk n t k)) n' t' k' r').align)) = true
        then -((PL.curMem (Spec.endsBlock (.mk n t k)) n' t' k' r').align : Int)
        else (padTo (st + (PL.memOf (PL.nodeTy t) k).size)
          (PL.curMem (Spec.endsBlock (.mk n t k)) n' t' k' r').align : Int))
      base (off + Spec.memberLen t k v)
      (fun h => by rw [PL.pprev_neg_p10 _ _ _ h]; exact Nat.dvd_trans ha'A hbase)
    rw [hs1] at hpb
    rw [F.ps, Nat.add_assoc, hpb] at hrest hple
    have hdd' : d = ((pd || Spec.endsBlock (.mk n t k)) ||
        (PL.memsOf (.mk n' t' k' :: r')).any PL.isMemberDynamic) := by
      rw [hdd]; simp only [PL.memsOf, List.any_cons, hmd, Bool.or_assoc]
    obtain ⟨v2, vs'', rfl, i1, i2, irun, ipos⟩ := walk_p17 e all data A allv hu SP UQ LP hA r' n' t' k'
      (before ++ [.mk n t k]) lens' rs2 (Spec.endsBlock (.mk n t k)) (pd || Spec.endsBlock (.mk n t k))
      (alignUp (off + Spec.memberLen t k v) (PL.curMem (Spec.endsBlock (.mk n t k)) n' t' k' r').align)
      (alignUp (st + (PL.memOf (PL.nodeTy t) k).size) (PL.curMem (Spec.endsBlock (.mk n t k)) n' t' k' r').align)
      base d vs' pos' rs' p2 (by simp [hall]) hfr hpr hnsr homr
      (fun m hm => hE m (List.mem_cons_of_mem _ hm)) hbase hple hok' hdd' hs2 hs3 hs4 (dvd_alignUp _ _ hpos2) hrest
    refine ⟨v, v2 :: vs'', rfl, (hasMs_cons all n t k _ v _).2 ⟨hcnt, F.ty, i1⟩, ?_, ?_, ?_⟩
    · rw [show agreeFields (.mk n t k :: .mk n' t' k' :: r') (v :: v2 :: vs'') =
        (agreeTy t v && agreeFields (.mk n' t' k' :: r') (v2 :: vs'')) from rfl, F.ag, i2]; rfl
    · rcases F.mode with ⟨rfl, hs, rfl, c, hl, _⟩ | ⟨hs, hnc, hl, hb⟩
      · exact Run.sizer n t _ lens c _ hs (by rw [← hl]; exact irun)
      · exact Run.other n t k _ lens v _ (fun _ => hs) hb (by rw [← hl]; exact irun)
    · rw [ipos, Spec.memberLens_cons]
      rfl

/-! ## the induction over the type -/

theorem noEnumMs_cons_p17 (n : String) (t : Ty) (k : MKind) (r : List Member) :
    Cpp.noEnumMs (.mk n t k :: r) = true ↔ Cpp.noEnum t = true ∧ Cpp.noEnumMs r = true := by
  simp [Cpp.noEnumMs]

mutual
  theorem dec_ty_p17 (e : Endian) : (t : Ty) → front t = true → pyRt t = true → Cpp.noShift t = true →
      Cpp.optMisaligned t = false → Cpp.limFirst t = true → Cpp.noEnum t = true →
      ∀ (data : Bytes), Cpp.ElemOk_p17 t data.length (fun q rs => Cpp.decTy e t data q rs)
    | .prim pr, _, _, _, _, _, _, data => by
      intro q rs v q' rs' p' h hq hal
      simp only [Cpp.decTy] at h
      cases hd : Cpp.decScalar e pr.size pr.isSigned data q rs with
      | ok i q1 rs1 =>
        rw [hd] at h
        simp only [Cpp.DRes.bind] at h
        injection h with h1 h2
        injection h1 with h3 h4 h5
        subst h3 h4
        obtain ⟨a, _, c, d⟩ := Cpp.decScalar_prim_p17 e pr data q rs i q1 rs1 hq hd
        exact ⟨⟨rfl, by simpa [hasField] using d, by simp [agreeTy]⟩,
          by simp [Spec.chunksTy, Spec.clen, Spec.Chunk.len, a], by omega⟩
      | fail rs1 => rw [hd] at h; simp [Cpp.DRes.bind] at h
      | fault => rw [hd] at h; simp [Cpp.DRes.bind] at h
      | throw rs1 => rw [hd] at h; simp [Cpp.DRes.bind] at h
    | .byte, _, _, _, _, _, _, data => by
      intro q rs v q' rs' p' h hq hal
      simp only [Cpp.decTy] at h
      cases hd : Cpp.decScalar e 1 false data q rs with
      | ok i q1 rs1 =>
        rw [hd] at h
        simp only [Cpp.DRes.bind] at h
        injection h with h1 h2
        injection h1 with h3 h4 h5
        subst h3 h4
        obtain ⟨a, _, c, d⟩ := Cpp.decScalar_prim_p17 e .u8 data q rs i q1 rs1 hq hd
        simp only [Prim.size] at a c
        exact ⟨⟨rfl, by simpa [hasField] using d, by simp [agreeTy]⟩,
          by simp [Spec.chunksTy, Spec.clen, Spec.Chunk.len, a], by omega⟩
      | fail rs1 => rw [hd] at h; simp [Cpp.DRes.bind] at h
      | fault => rw [hd] at h; simp [Cpp.DRes.bind] at h
      | throw rs1 => rw [hd] at h; simp [Cpp.DRes.bind] at h
    | .enum _ _, _, _, _, _, _, hne, _ => by simp [Cpp.noEnum] at hne
    | .struct nm [], hf, _, _, _, _, _, _ => by simp [front] at hf
    | .struct nm (.mk n t k :: r), hf, hp, hns, hom, hlf, hne, data => by
      intro q rs v q' rs' p' h hq hal
      replace h : Cpp.decTy e (.struct nm (.mk n t k :: r)) data q rs = (.ok v q' rs', p') := h
      have hgood := Cpp.decTy_good e (.struct nm (.mk n t k :: r)) data q rs hq
      rw [h] at hgood
      have hw := Accept.wf_of_accept _ hf hp
      simp only [wfTy, Bool.and_eq_true] at hw
      obtain ⟨hu, hwm⟩ := hw
      simp only [front, Bool.and_eq_true] at hf
      obtain ⟨_, hfm⟩ := hf
      simp only [pyRt] at hp
      simp only [Cpp.noShift] at hns
      simp only [Cpp.optMisaligned] at hom
      simp only [Cpp.limFirst] at hlf
      simp only [Cpp.noEnum] at hne
      have UQ : ∀ m ∈ Member.mk n t k :: r, ∀ m' ∈ Member.mk n t k :: r, m.name = m'.name → m = m' :=
        fun m hm m' hm' hn => WF.uniq_name_inj _ hu m m' hm hm' hn
      have SP := SP_of_wf_p17 _ hu hwm
      have LP : Cpp.LimProp_p17 (.mk n t k :: r) := Cpp.limProp_of_p17 _ _ hlf
      have hE := dec_mems_p17 e (.mk n t k :: r) (.mk n t k :: r) [] hfm hp hns hom hlf hne
      have hal' : Spec.alignMs (.mk n t k :: r) ∣ q := by simpa [Spec.alignTy] using hal
      simp only [Cpp.decTy] at h
      obtain ⟨vs, h1, h2⟩ := Cpp.retag_ok_inv_p10 _ _ _ _ _ _ h
      subst h2
      rw [PL.structMembers_eq_p10 n t k r hfm] at h1
      obtain ⟨v0, vs', rfl, i1, i2, irun, ipos⟩ := walk_p17 e (.mk n t k :: r) data (Spec.alignMs (.mk n t k :: r)) vs
        hu SP UQ LP rfl r n t k [] [] rs false false 0 0 q
        ((PL.memsOf (.mk n t k :: r)).any PL.isMemberDynamic) vs q' rs' p' rfl hfm hp hns hom
        (fun m hm => hE m hm data) hal' (by omega) (Cpp.HOk_nil_p17 _ _) (by rw [Bool.false_or]) (fun _ => rfl) rfl
        (Nat.dvd_zero _) (Nat.dvd_zero _) (by rw [Nat.add_zero]; exact h1)
      have hag := run_agree (.mk n t k :: r) (v0 :: vs') hu (fun n t k hm hs => (SP n t k hm hs).1)
        (sizerBefore_of_pyRt _ hp) irun
      refine ⟨⟨rfl, by simp [hasField, i1], by simp only [agreeTy, hag, i2, Bool.and_self]⟩, ?_, hgood.2.1⟩
      rw [ipos]
      have hc := PL.clen_chunksMs (.mk n t k :: r) (v0 :: vs') (.mk n t k :: r) (.mk n t k :: r) []
        (v0 :: vs') hfm i1 0 false
      rw [Spec.memberLens_cons] at hc
      simp only [Spec.specEnd, Bool.false_eq_true, if_false, PL.alignUp_zero] at hc
      simp only [Spec.chunksTy, Spec.clen_append, clen_cons, clen_nil, Spec.Chunk.len, Nat.add_zero]
      rw [← hc]
      unfold alignUp
      simp only [Nat.zero_add]
    | .union nm arms, hf, hp, hns, hom, hlf, hne, data => by
      intro q rs v q' rs' p' h hq hal
      replace h : Cpp.decTy e (.union nm arms) data q rs = (.ok v q' rs', p') := h
      have hgood := Cpp.decTy_good e (.union nm arms) data q rs hq
      rw [h] at hgood
      have hw := Accept.wf_of_accept _ hf hp
      have hfxu := Spec.fixedTy_union_of_wf nm arms hw
      have hsz := PL.nodeTy_size' _ hf
      have hali := PL.nodeTy_align' (.union nm arms)
      have hsz_ge : max 4 (Spec.alignArms arms) ≤ Spec.sizeTy (.union nm arms) := by
        simp only [Spec.sizeTy, Spec.flagSize]
        exact Nat.le_trans (Nat.le_add_right _ _) (le_alignUp _ _)
      simp only [front, Bool.and_eq_true] at hf
      simp only [pyRt, Bool.and_eq_true] at hp
      simp only [Cpp.noShift] at hns
      simp only [Cpp.optMisaligned] at hom
      simp only [Cpp.limFirst] at hlf
      simp only [Cpp.noEnum] at hne
      simp only [Spec.alignTy, Spec.flagSize] at hal hali
      simp only [Cpp.decTy] at h
      generalize hdp : (if (PL.nodeTy (.union nm arms)).align > PL.discSize
        then (PL.nodeTy (.union nm arms)).align - PL.discSize else 0) = discpad at h
      rw [hsz] at h
      simp only [PL.discSize] at h
      have hdp' : discpad = (if max 4 (Spec.alignArms arms) > 4 then max 4 (Spec.alignArms arms) - 4 else 0) := by
        rw [← hdp, hali]; rfl
      have hap4 : 4 + discpad = max 4 (Spec.alignArms arms) := by
        rw [hdp']; split <;> omega
      cases hd : Cpp.decScalar e 4 false data q rs with
      | ok disc q1 rs1 =>
        rw [hd] at h
        obtain ⟨hq1, _, hq1le, _⟩ := Cpp.decScalar_ok_p17 e 4 false data q rs disc q1 rs1 hq hd
        simp only at h
        cases hd2 : (if discpad ≠ 0 then Cpp.advance discpad data.length q1 rs1 else Cpp.DRes.ok () q1 rs1) with
        | ok u q2 rs2 =>
          rw [hd2] at h
          obtain ⟨hq2e, hq2l⟩ := Cpp.optAdvance_inv_p17 discpad data.length q1 rs1 u q2 rs2 (by omega) hd2
          simp only at h
          cases hd3 : Cpp.decArms e arms disc data q2 rs2 0 with
          | ok iv q3 rs3 =>
            obtain ⟨idx, x⟩ := iv
            rw [hd3] at h
            simp only at h
            have hq2' : q2 = q + max 4 (Spec.alignArms arms) := by omega
            obtain ⟨j, an, ad, at', hj, hget, hg⟩ := dec_arms_p17 e arms hf.2 hp.2 hns hom hlf hne disc data q2 rs2 0
              idx x q3 rs3 hd3 hq2l (by
                intro j a ha
                have := Cpp.Spec.alignTy_arm_dvd arms j a ha
                rw [hq2']
                exact Nat.dvd_add (Nat.dvd_trans this hal) this)
            have hj' : idx = j := by omega
            subst hj'
            cases hd4 : Cpp.advance (Spec.sizeTy (.union nm arms) - 4 - discpad) data.length q2 rs3 with
            | ok u4 q4 rs4 =>
              rw [hd4] at h
              obtain ⟨hq4, _, _⟩ := Cpp.advance_ok_inv_p17 _ _ _ _ _ _ _ hq2l hd4
              simp only at h
              injection h with h1 h2
              injection h1 with h3 h4 h5
              subst h3 h4
              have G : Cpp.Good_p17 (.union nm arms) (.union idx x) :=
                ⟨rfl, by simp [hasField, hget, hg.nc, hg.ty], by simp [agreeTy, hget, hg.ag]⟩
              refine ⟨G, ?_, hgood.2.1⟩
              rw [Spec.clen_fixed _ _ hfxu G.nc G.ty]
              omega
            | fail rs4 => rw [hd4] at h; simp at h
            | fault => rw [hd4] at h; simp at h
            | throw rs4 => rw [hd4] at h; simp at h
          | fail rs3 => rw [hd3] at h; simp at h
          | fault => rw [hd3] at h; simp at h
          | throw rs3 => rw [hd3] at h; simp at h
        | fail rs2 => rw [hd2] at h; simp at h
        | fault => rw [hd2] at h; simp at h
        | throw rs2 => rw [hd2] at h; simp at h
      | fail rs1 => rw [hd] at h; simp at h
      | fault => rw [hd] at h; simp at h
      | throw rs1 => rw [hd] at h; simp at h
  theorem dec_arms_p17 (e : Endian) : (arms : List Arm) → frontArms arms = true → pyRtArms arms = true →
      Cpp.noShiftArms arms = true → Cpp.optMisalignedArms arms = false → Cpp.limFirstArms arms = true →
      Cpp.noEnumArms arms = true →
      ∀ (disc : Int) (data : Bytes) (pos : Nat) (rs : List Nat) (idx0 i : Nat) (v : Val) (pos' : Nat) (rs' : List Nat),
      Cpp.decArms e arms disc data pos rs idx0 = .ok (i, v) pos' rs' → pos ≤ data.length →
      (∀ (j : Nat) (a : Arm), arms[j]? = some a → Spec.alignTy a.ty ∣ pos) →
      ∃ j an ad at', i = idx0 + j ∧ arms[j]? = some (.mk an ad at') ∧ Cpp.Good_p17 at' v
    | [], _, _, _, _, _, _, disc, data, pos, rs, idx0, i, v, pos', rs', h, _, _ => by
      simp [Cpp.decArms] at h
    | .mk an ad t :: r, hf, hp, hns, hom, hlf, hne, disc, data, pos, rs, idx0, i, v, pos', rs', h, hpos, hal => by
      simp only [frontArms, Bool.and_eq_true] at hf
      simp only [pyRtArms, Bool.and_eq_true] at hp
      simp only [Cpp.noShiftArms, Bool.and_eq_true] at hns
      simp only [Cpp.optMisalignedArms, Bool.or_eq_false_iff] at hom
      simp only [Cpp.limFirstArms, Bool.and_eq_true] at hlf
      simp only [Cpp.noEnumArms, Bool.and_eq_true] at hne
      simp only [Cpp.decArms] at h
      split at h
      · cases hd : Cpp.decTy e t data pos rs with
        | mk x p =>
          rw [hd] at h
          cases x with
          | ok v1 q1 rs1 =>
            simp only at h
            injection h with h1 h2 h3
            injection h1 with h4 h5
            subst h4 h5
            have := dec_ty_p17 e t hf.1.1.1 hp.1.1 hns.1 hom.1 hlf.1 hne.1 data pos rs v1 q1 rs1 p hd hpos
              (hal 0 (.mk an ad t) rfl)
            exact ⟨0, an, ad, t, rfl, rfl, this.1⟩
          | fail rs1 => simp at h
          | fault => simp at h
          | throw rs1 => simp at h
      · obtain ⟨j, an', ad', at', hj, hget, hg⟩ := dec_arms_p17 e r hf.2 hp.2 hns.2 hom.2 hlf.2 hne.2 disc data pos rs
          (idx0 + 1) i v pos' rs' h hpos (fun j a hj => hal (j + 1) a (by simpa using hj))
        exact ⟨j + 1, an', ad', at', by omega, by simpa using hget, hg⟩
  theorem dec_mems_p17 (e : Endian) : (ms : List Member) → ∀ (all before : List Member),
      frontMs all ms before = true → pyRtMs all ms before = true →
      Cpp.noShiftMs ms = true → Cpp.optMisalignedMs ms = false → Cpp.limFirstMs all ms = true →
      Cpp.noEnumMs ms = true →
      ∀ m ∈ ms, ∀ (data : Bytes), Cpp.ElemOk_p17 m.ty data.length (fun q rs => Cpp.decTy e m.ty data q rs)
    | [], _, _, _, _, _, _, _, _, m, hm => by cases hm
    | .mk n t k :: r, all, before, hf, hp, hns, hom, hlf, hne, m, hm => by
      obtain ⟨hft, _, hfr⟩ := Accept.frontMs_cons all n t k r before hf
      obtain ⟨hpt, _, _, _, _, _, _, hpr⟩ := (Accept.pyRtMs_cons all n t k r before).1 hp
      obtain ⟨_, hnst, hnsr⟩ := (Cpp.noShiftMs_cons n t k r).1 hns
      obtain ⟨_, homt, homr⟩ := (Cpp.optMisalignedMs_cons n t k r).1 hom
      obtain ⟨_, hlft, hlfr⟩ := Cpp.limFirstMs_cons_p17 all n t k r hlf
      obtain ⟨hnet, hner⟩ := (noEnumMs_cons_p17 n t k r).1 hne
      rcases List.mem_cons.1 hm with rfl | hr
      · exact dec_ty_p17 e t hft hpt hnst homt hlft hnet
      · exact dec_mems_p17 e r all (before ++ [.mk n t k]) hfr hpr hnsr homr hlfr hner m hr
end

/-! ## erasing enums changes neither the layout, nor the decoder, nor `get_byte_size` -/
namespace Cpp

def eraseM_p17 : Member → Member
  | .mk n t k => .mk n (eraseEnum t) k

theorem eraseEnumMs_map_p17 : (ms : List Member) → eraseEnumMs ms = ms.map eraseM_p17
  | [] => rfl
  | .mk n t k :: r => by simp [eraseEnumMs, eraseM_p17, eraseEnumMs_map_p17 r]

@[simp] theorem eraseM_name_p17 (m : Member) : (eraseM_p17 m).name = m.name := by cases m; rfl
@[simp] theorem eraseM_kind_p17 (m : Member) : (eraseM_p17 m).kind = m.kind := by cases m; rfl

theorem eraseEnumMs_append_p17 (a b : List Member) : eraseEnumMs (a ++ b) = eraseEnumMs a ++ eraseEnumMs b := by
  simp [eraseEnumMs_map_p17]

theorem isSizer_erase_p17 (n : String) (all : List Member) : isSizer n (eraseEnumMs all) = isSizer n all := by
  simp only [isSizer, eraseEnumMs_map_p17, List.any_map]
  congr 1
  funext m
  simp

theorem names_erase_p17 (ms : List Member) : (eraseEnumMs ms).map (·.name) = ms.map (·.name) := by
  simp only [eraseEnumMs_map_p17, List.map_map]
  congr 1
  funext m
  simp

mutual
  theorem nodeTy_erase_p17 : (t : Ty) → PL.nodeTy (eraseEnum t) = PL.nodeTy t
    | .prim _ => rfl
    | .byte => rfl
    | .enum _ _ => rfl
    | .struct _ ms => by simp only [eraseEnum, PL.nodeTy, memsOf_erase_p17 ms]
    | .union _ arms => by simp only [eraseEnum, PL.nodeTy, armsOf_erase_p17 arms]
  theorem memsOf_erase_p17 : (ms : List Member) → PL.memsOf (eraseEnumMs ms) = PL.memsOf ms
    | [] => rfl
    | .mk _ t k :: r => by simp only [eraseEnumMs, PL.memsOf, nodeTy_erase_p17 t, memsOf_erase_p17 r]
  theorem armsOf_erase_p17 : (arms : List Arm) → PL.armsOf (eraseEnumArms arms) = PL.armsOf arms
    | [] => rfl
    | .mk _ _ t :: r => by simp only [eraseEnumArms, PL.armsOf, nodeTy_erase_p17 t, armsOf_erase_p17 r]
end

theorem structMembers_erase_p17 (ms : List Member) : PL.structMembers (eraseEnumMs ms) = PL.structMembers ms := by
  simp only [PL.structMembers, memsOf_erase_p17]

mutual
  theorem cppAlign_erase_p17 : (t : Ty) → cppAlign (eraseEnum t) = cppAlign t
    | .prim _ => rfl
    | .byte => rfl
    | .enum _ _ => rfl
    | .struct _ ms => by simp only [eraseEnum, cppAlign]; exact cppAlignMs_erase_p17 ms ms
    | .union _ arms => by simp only [eraseEnum, cppAlign, cppAlignArms_erase_p17 arms]
  theorem cppAlignMs_erase_p17 (all : List Member) : (ms : List Member) →
      cppAlignMs (eraseEnumMs all) (eraseEnumMs ms) = cppAlignMs all ms
    | [] => rfl
    | .mk n t k :: r => by
      simp only [eraseEnumMs, cppAlignMs, cppAlign_erase_p17 t, cppAlignMs_erase_p17 all r, isSizer_erase_p17]
  theorem cppAlignArms_erase_p17 : (arms : List Arm) → cppAlignArms (eraseEnumArms arms) = cppAlignArms arms
    | [] => rfl
    | .mk _ _ t :: r => by simp only [eraseEnumArms, cppAlignArms, cppAlign_erase_p17 t, cppAlignArms_erase_p17 r]
end

theorem codecSize_erase_p17 (t : Ty) : codecSize (eraseEnum t) = codecSize t := by
  cases t with
  | prim _ => rfl
  | byte => rfl
  | enum _ _ => rfl
  | struct nm ms =>
    have := nodeTy_erase_p17 (.struct nm ms)
    simp only [eraseEnum] at this
    simp only [eraseEnum, codecSize, this]
  | union nm arms =>
    have := nodeTy_erase_p17 (.union nm arms)
    simp only [eraseEnum] at this
    simp only [eraseEnum, codecSize, this]

theorem isMessage_erase_p17 (t : Ty) : isMessage (eraseEnum t) = isMessage t := by cases t <;> rfl

mutual
  theorem optMisaligned_erase_p17 : (t : Ty) → optMisaligned (eraseEnum t) = optMisaligned t
    | .prim _ => rfl
    | .byte => rfl
    | .enum _ _ => rfl
    | .struct _ ms => by simp only [eraseEnum, optMisaligned, optMisalignedMs_erase_p17 ms]
    | .union _ arms => by simp only [eraseEnum, optMisaligned, optMisalignedArms_erase_p17 arms]
  theorem optMisalignedMs_erase_p17 : (ms : List Member) → optMisalignedMs (eraseEnumMs ms) = optMisalignedMs ms
    | [] => rfl
    | .mk _ t k :: r => by
      simp only [eraseEnumMs, optMisalignedMs, cppAlign_erase_p17 t, nodeTy_erase_p17 t, optMisaligned_erase_p17 t,
        optMisalignedMs_erase_p17 r]
  theorem optMisalignedArms_erase_p17 : (arms : List Arm) →
      optMisalignedArms (eraseEnumArms arms) = optMisalignedArms arms
    | [] => rfl
    | .mk _ _ t :: r => by
      simp only [eraseEnumArms, optMisalignedArms, optMisaligned_erase_p17 t, optMisalignedArms_erase_p17 r]
end

mutual
  theorem noShift_erase_p17 : (t : Ty) → Cpp.noShift (eraseEnum t) = Cpp.noShift t
    | .prim _ => rfl
    | .byte => rfl
    | .enum _ _ => rfl
    | .struct _ ms => by simp only [eraseEnum, Cpp.noShift, noShiftMs_erase_p17 ms]
    | .union _ arms => by simp only [eraseEnum, Cpp.noShift, noShiftArms_erase_p17 arms]
  theorem noShiftMs_erase_p17 : (ms : List Member) → Cpp.noShiftMs (eraseEnumMs ms) = Cpp.noShiftMs ms
    | [] => rfl
    | .mk _ t k :: r => by simp only [eraseEnumMs, Cpp.noShiftMs, noShift_erase_p17 t, noShiftMs_erase_p17 r]
  theorem noShiftArms_erase_p17 : (arms : List Arm) → Cpp.noShiftArms (eraseEnumArms arms) = Cpp.noShiftArms arms
    | [] => rfl
    | .mk _ _ t :: r => by simp only [eraseEnumArms, Cpp.noShiftArms, noShift_erase_p17 t, noShiftArms_erase_p17 r]
end

mutual
  theorem noEnum_erase_p17 : (t : Ty) → noEnum (eraseEnum t) = true
    | .prim _ => rfl
    | .byte => rfl
    | .enum _ _ => rfl
    | .struct _ ms => by simp only [eraseEnum, noEnum, noEnumMs_erase_p17 ms]
    | .union _ arms => by simp only [eraseEnum, noEnum, noEnumArms_erase_p17 arms]
  theorem noEnumMs_erase_p17 : (ms : List Member) → noEnumMs (eraseEnumMs ms) = true
    | [] => rfl
    | .mk _ t k :: r => by simp only [eraseEnumMs, noEnumMs, noEnum_erase_p17 t, noEnumMs_erase_p17 r, Bool.and_self]
  theorem noEnumArms_erase_p17 : (arms : List Arm) → noEnumArms (eraseEnumArms arms) = true
    | [] => rfl
    | .mk _ _ t :: r => by
      simp only [eraseEnumArms, noEnumArms, noEnum_erase_p17 t, noEnumArms_erase_p17 r, Bool.and_self]
end

theorem find_sizer_erase_p17 (s : String) (all : List Member) :
    (eraseEnumMs all).find? (fun m => decide (m.kind.sizer? = some s)) =
      (all.find? (fun m => decide (m.kind.sizer? = some s))).map eraseM_p17 := by
  rw [eraseEnumMs_map_p17, List.find?_map]
  congr 2
  funext m
  simp

mutual
  theorem limFirst_erase_p17 : (t : Ty) → limFirst (eraseEnum t) = limFirst t
    | .prim _ => rfl
    | .byte => rfl
    | .enum _ _ => rfl
    | .struct _ ms => by simp only [eraseEnum, limFirst]; exact limFirstMs_erase_p17 ms ms
    | .union _ arms => by simp only [eraseEnum, limFirst, limFirstArms_erase_p17 arms]
  theorem limFirstMs_erase_p17 (all : List Member) : (ms : List Member) →
      limFirstMs (eraseEnumMs all) (eraseEnumMs ms) = limFirstMs all ms
    | [] => rfl
    | .mk _ t k :: r => by
      simp only [eraseEnumMs, limFirstMs, limFirst_erase_p17 t, limFirstMs_erase_p17 all r]
      congr 2
      cases k with
      | limited s l =>
        simp only [find_sizer_erase_p17]
        cases all.find? (fun m => decide (m.kind.sizer? = some s)) with
        | none => rfl
        | some m => simp
      | _ => rfl
  theorem limFirstArms_erase_p17 : (arms : List Arm) → limFirstArms (eraseEnumArms arms) = limFirstArms arms
    | [] => rfl
    | .mk _ _ t :: r => by simp only [eraseEnumArms, limFirstArms, limFirst_erase_p17 t, limFirstArms_erase_p17 r]
end

theorem isEmpty_erase_p17 (ms : List Member) : (eraseEnumMs ms).isEmpty = ms.isEmpty := by
  cases ms with
  | nil => rfl
  | cons m r => obtain ⟨n, t, k⟩ := m; rfl

theorem find_name_erase_p17 (s : String) (l : List Member) :
    (eraseEnumMs l).find? (fun m => m.name == s) = (l.find? (fun m => m.name == s)).map eraseM_p17 := by
  rw [eraseEnumMs_map_p17, List.find?_map]
  congr 2
  funext m
  simp

theorem isIntPrim_erase_p17 (t : Ty) (h : isIntPrim t = true) : isIntPrim (eraseEnum t) = true := by
  cases t <;> simp_all [isIntPrim, eraseEnum]

mutual
  theorem front_erase_p17 : (t : Ty) → front t = true → front (eraseEnum t) = true
    | .prim _, _ => rfl
    | .byte, _ => rfl
    | .enum _ _, _ => rfl
    | .struct nm ms, h => by
      simp only [front, Bool.and_eq_true] at h
      simp only [eraseEnum, front, Bool.and_eq_true, isEmpty_erase_p17, names_erase_p17]
      exact ⟨h.1, frontMs_erase_p17 ms ms [] h.2⟩
    | .union nm arms, h => by
      simp only [front, Bool.and_eq_true] at h
      obtain ⟨⟨⟨⟨h1, h2⟩, h3⟩, h4⟩, h5⟩ := h
      obtain ⟨a1, a2, a3, a4, a5⟩ := frontArms_erase_p17 arms h5
      simp only [eraseEnum, front, Bool.and_eq_true, a1, a2, a3, a4]
      exact ⟨⟨⟨⟨h1, h2⟩, h3⟩, h4⟩, a5⟩
  theorem frontMs_erase_p17 (all : List Member) : (ms before : List Member) → frontMs all ms before = true →
      frontMs (eraseEnumMs all) (eraseEnumMs ms) (eraseEnumMs before) = true
    | [], _, _ => by simp [eraseEnumMs, frontMs]
    | .mk n t k :: r, before, h => by
      have ih := frontMs_erase_p17 all r (before ++ [.mk n t k])
      simp only [frontMs, Bool.and_eq_true] at h
      obtain ⟨⟨⟨⟨⟨⟨⟨⟨h1, h2⟩, h3⟩, h4⟩, h5⟩, h6⟩, h7⟩, h8⟩, h9⟩ := h
      have ih' := ih h9
      rw [eraseEnumMs_append_p17] at ih'
      simp only [eraseEnumMs, frontMs, Bool.and_eq_true, nodeTy_erase_p17, isEmpty_erase_p17]
      refine ⟨⟨⟨⟨⟨⟨⟨⟨front_erase_p17 t h1, h2⟩, h3⟩, h4⟩, h5⟩, ?_⟩, h7⟩, by cases t <;> exact h8⟩, ih'⟩
      cases hk : k.sizer? with
      | none => rfl
      | some s =>
        rw [hk] at h6
        simp only at h6 ⊢
        rw [find_name_erase_p17]
        cases hfd : before.find? (fun m => m.name == s) with
        | none => rw [hfd] at h6; simp at h6
        | some m =>
          obtain ⟨a, st, sk⟩ := m
          rw [hfd] at h6
          simp only [Bool.and_eq_true] at h6
          simp only [Option.map, eraseM_p17, Bool.and_eq_true]
          exact ⟨⟨isIntPrim_erase_p17 st h6.1.1, h6.1.2⟩, h6.2⟩
  theorem frontArms_erase_p17 : (arms : List Arm) → frontArms arms = true →
      (eraseEnumArms arms).isEmpty = arms.isEmpty ∧
      (eraseEnumArms arms).map (·.name) = arms.map (·.name) ∧
      (eraseEnumArms arms).map (fun a => toString a.disc) = arms.map (fun a => toString a.disc) ∧
      (eraseEnumArms arms).all (fun a => decide (a.disc < 2 ^ 32)) = arms.all (fun a => decide (a.disc < 2 ^ 32)) ∧
      frontArms (eraseEnumArms arms) = true
    | [], _ => by simp [eraseEnumArms, frontArms]
    | .mk n d t :: r, h => by
      simp only [frontArms, Bool.and_eq_true] at h
      obtain ⟨⟨⟨h1, h2⟩, h3⟩, h4⟩ := h
      obtain ⟨a1, a2, a3, a4, a5⟩ := frontArms_erase_p17 r h4
      refine ⟨rfl, ?_, ?_, ?_, ?_⟩
      · exact congrArg (n :: ·) a2
      · exact congrArg (toString d :: ·) a3
      · exact congrArg (decide (d < 2 ^ 32) && ·) a4
      · simp only [eraseEnumArms, frontArms, Bool.and_eq_true, nodeTy_erase_p17]
        exact ⟨⟨⟨front_erase_p17 t h1, h2⟩, by cases t <;> exact h3⟩, a5⟩
end

theorem sizerPrimOf_erase_p17 (n : String) (all : List Member) :
    sizerPrimOf n (eraseEnumMs all) = sizerPrimOf n all := by
  unfold sizerPrimOf
  rw [find_name_erase_p17]
  cases all.find? (fun m => m.name == n) with
  | none => rfl
  | some m => obtain ⟨a, t, k⟩ := m; cases t <;> rfl

theorem bound_erase_p17 (n : String) (cnt : Nat) (all : List Member) :
    (eraseEnumMs all).filterMap (fun m => if m.kind.sizer? = some n then some (m.name, cnt) else none) =
      all.filterMap (fun m => if m.kind.sizer? = some n then some (m.name, cnt) else none) := by
  rw [eraseEnumMs_map_p17, List.filterMap_map]
  congr 1
  funext m
  simp

theorem lim_erase_p17 (n : String) (all : List Member) (g : Member → Option Nat)
    (hg : ∀ m, g (eraseM_p17 m) = g m) :
    ((eraseEnumMs all).find? (fun m => decide (m.kind.sizer? = some n))).bind g =
      (all.find? (fun m => decide (m.kind.sizer? = some n))).bind g := by
  rw [find_sizer_erase_p17]
  cases all.find? (fun m => decide (m.kind.sizer? = some n)) with
  | none => rfl
  | some m => simp [hg]

theorem resizeElem_erase_p17 (n : String) (all : List Member) :
    resizeElem n (eraseEnumMs all) = resizeElem n all := by
  unfold resizeElem
  rw [find_sizer_erase_p17]
  cases all.find? (fun m => decide (m.kind.sizer? = some n)) with
  | none => rfl
  | some m =>
    obtain ⟨a, t, k⟩ := m
    simp only [Option.map, eraseM_p17, Member.ty, codecSize_erase_p17]
    rfl

theorem decArray_erase_p17 (f : Nat → List Nat → DRes Val × Nat) (t : Ty) (cnt size pos : Nat) (rs : List Nat) :
    decArray f (eraseEnum t) cnt size pos rs = decArray f t cnt size pos rs := by
  cases t <;> first | rfl | simp [decArray, eraseEnum, isMessage, codecSize]

theorem memberStep_erase_p17 (e : Endian) (all : List Member) (n : String) (t : Ty) (k : MKind) (msize : Nat)
    (data : Bytes) (pos : Nat) (rs : List Nat) (lens : List (String × Nat))
    (elem : Nat → List Nat → DRes Val × Nat) :
    memberStep e (eraseEnumMs all) n (eraseEnum t) k msize data pos rs lens elem =
      memberStep e all n t k msize data pos rs lens elem := by
  unfold memberStep
  cases k with
  | plain =>
    simp only [isSizer_erase_p17, sizerPrimOf_erase_p17, bound_erase_p17, resizeElem_erase_p17]
    rw [lim_erase_p17 n all _ (fun m => by cases m; rfl)]
  | optional => simp only [cppAlign_erase_p17, codecSize_erase_p17]
  | fixed c => simp only [decArray_erase_p17]
  | dyn s sh => simp only [decArray_erase_p17]
  | limited s l => simp only [decArray_erase_p17]
  | greedy => simp only [decArray_erase_p17, codecSize_erase_p17]

mutual
  theorem decTy_erase_p17 (e : Endian) : (t : Ty) → ∀ (data : Bytes) (pos : Nat) (rs : List Nat),
      decTy e (eraseEnum t) data pos rs = decTy e t data pos rs
    | .prim _, _, _, _ => rfl
    | .byte, _, _, _ => rfl
    | .enum _ _, _, _, _ => rfl
    | .struct nm ms, data, pos, rs => by
      simp only [eraseEnum, decTy, structMembers_erase_p17]
      rw [decMs_erase_p17 e ms ms]
    | .union nm arms, data, pos, rs => by
      have hn := nodeTy_erase_p17 (.union nm arms)
      simp only [eraseEnum] at hn
      simp only [eraseEnum, decTy, hn]
      have : ∀ d q r i, decArms e (eraseEnumArms arms) d data q r i = decArms e arms d data q r i :=
        fun d q r i => decArms_erase_p17 e arms d data q r i
      simp only [this]
  theorem decArms_erase_p17 (e : Endian) : (arms : List Arm) → ∀ (disc : Int) (data : Bytes) (pos : Nat)
      (rs : List Nat) (idx : Nat),
      decArms e (eraseEnumArms arms) disc data pos rs idx = decArms e arms disc data pos rs idx
    | [], _, _, _, _, _ => rfl
    | .mk _ d t :: r, disc, data, pos, rs, idx => by
      simp only [eraseEnumArms, decArms, decTy_erase_p17 e t, decArms_erase_p17 e r]
  theorem decMs_erase_p17 (e : Endian) (all : List Member) : (ms : List Member) →
      ∀ (ls : List (Nat × Nat × Int)) (data : Bytes) (pos : Nat) (rs : List Nat) (lens : List (String × Nat)),
      decMs e (eraseEnumMs all) (eraseEnumMs ms) ls data pos rs lens = decMs e all ms ls data pos rs lens
    | [], ls, data, pos, rs, lens => by
      simp only [eraseEnumMs, decMs_nil]
    | .mk n t k :: r, [], data, pos, rs, lens => by
      simp only [eraseEnumMs, decMs_nil_layout]
    | .mk n t k :: r, (msize, a, padding) :: ls, data, pos, rs, lens => by
      simp only [eraseEnumMs]
      rw [decMs_cons, decMs_cons, memberStep_erase_p17]
      have hfe : (fun q rs' => decTy e (eraseEnum t) data q rs') = (fun q rs' => decTy e t data q rs') := by
        funext q rs'; exact decTy_erase_p17 e t data q rs'
      rw [hfe]
      have : ∀ q x l, decMs e (eraseEnumMs all) (eraseEnumMs r) ls data q x l = decMs e all r ls data q x l :=
        fun q x l => decMs_erase_p17 e all r ls data q x l
      simp only [this]
end

theorem decode_erase_p17 (t : Ty) (data : Bytes) (e : Endian) : decode (eraseEnum t) data e = decode t data e := by
  unfold decode
  rw [decTy_erase_p17]

/-! ### `get_byte_size` -/

theorem bszPair_erase_p17 (t : Ty) (k : MKind) (v : Val) (kind msize : Nat) (padding acc bytes : Int)
    (h1 : byteSizeTy (eraseEnum t) v = byteSizeTy t v)
    (h2 : ∀ xs, v = .arr xs → byteSizeElems (eraseEnum t) xs = byteSizeElems t xs) :
    bszPair (eraseEnum t) k v kind msize padding acc bytes = bszPair t k v kind msize padding acc bytes := by
  unfold bszPair
  rw [nodeTy_erase_p17, h1]
  cases v with
  | arr xs => simp only [h2 xs rfl]
  | _ => rfl

mutual
  theorem bszTy_erase_p17 : (v : Val) → ∀ (t : Ty), byteSizeTy (eraseEnum t) v = byteSizeTy t v
    | .struct vs, t => by
      cases t with
      | struct nm ms =>
        simp only [eraseEnum, byteSizeTy_struct, memsOf_erase_p17, structMembers_erase_p17]
        exact bszMs_erase_p17 vs ms ms _ _ 0 0
      | prim _ => rfl
      | byte => rfl
      | enum _ _ => rfl
      | union nm arms =>
        rw [byteSizeTy_other (eraseEnum (.union nm arms)) _ (by intro nm ms vs h; cases h.1),
          byteSizeTy_other (.union nm arms) _ (by intro nm ms vs h; cases h.1), nodeTy_erase_p17]
    | .int _, t => by
      rw [byteSizeTy_other (eraseEnum t) _ (by intro nm ms vs h; cases h.2),
        byteSizeTy_other t _ (by intro nm ms vs h; cases h.2), nodeTy_erase_p17]
    | .bytes _, t => by
      rw [byteSizeTy_other (eraseEnum t) _ (by intro nm ms vs h; cases h.2),
        byteSizeTy_other t _ (by intro nm ms vs h; cases h.2), nodeTy_erase_p17]
    | .arr _, t => by
      rw [byteSizeTy_other (eraseEnum t) _ (by intro nm ms vs h; cases h.2),
        byteSizeTy_other t _ (by intro nm ms vs h; cases h.2), nodeTy_erase_p17]
    | .union _ _, t => by
      rw [byteSizeTy_other (eraseEnum t) _ (by intro nm ms vs h; cases h.2),
        byteSizeTy_other t _ (by intro nm ms vs h; cases h.2), nodeTy_erase_p17]
    | .absent, t => by
      rw [byteSizeTy_other (eraseEnum t) _ (by intro nm ms vs h; cases h.2),
        byteSizeTy_other t _ (by intro nm ms vs h; cases h.2), nodeTy_erase_p17]
    | .present _, t => by
      rw [byteSizeTy_other (eraseEnum t) _ (by intro nm ms vs h; cases h.2),
        byteSizeTy_other t _ (by intro nm ms vs h; cases h.2), nodeTy_erase_p17]
    | .sizer, t => by
      rw [byteSizeTy_other (eraseEnum t) _ (by intro nm ms vs h; cases h.2),
        byteSizeTy_other t _ (by intro nm ms vs h; cases h.2), nodeTy_erase_p17]
  theorem bszMs_erase_p17 : (vs : List Val) → ∀ (all ms : List Member) (mems : List PL.Mem)
      (ls : List (Nat × Nat × Int)) (acc bytes : Int),
      byteSizeMs (eraseEnumMs all) (eraseEnumMs ms) vs mems ls acc bytes = byteSizeMs all ms vs mems ls acc bytes
    | [], all, ms, mems, ls, acc, bytes => by
      cases ms with
      | nil => rfl
      | cons m r => obtain ⟨n, t, k⟩ := m; rfl
    | v :: vs, all, ms, mems, ls, acc, bytes => by
      cases ms with
      | nil => rfl
      | cons m r =>
        obtain ⟨n, t, k⟩ := m
        cases mems with
        | nil => rfl
        | cons mem mems =>
          cases ls with
          | nil => rfl
          | cons l ls =>
            obtain ⟨msize, al, padding⟩ := l
            have h1 := bszTy_erase_p17 v t
            have h2 : ∀ xs, v = .arr xs → byteSizeElems (eraseEnum t) xs = byteSizeElems t xs := by
              intro xs hv
              cases v with
              | arr ys =>
                injection hv with hv
                subst hv
                exact bszElems_erase_p17 ys t
              | _ => cases hv
            simp only [eraseEnumMs]
            rw [byteSizeMs_unfold, byteSizeMs_unfold, bszPair_erase_p17 t k v _ _ _ _ _ h1 h2]
            exact bszMs_erase_p17 vs all r mems ls _ _
  theorem bszElems_erase_p17 : (xs : List Val) → ∀ (t : Ty), byteSizeElems (eraseEnum t) xs = byteSizeElems t xs
    | [], t => rfl
    | x :: xs, t => by
      rw [byteSizeElems_cons, byteSizeElems_cons, bszTy_erase_p17 x t, bszElems_erase_p17 xs t]
end

theorem getByteSize_erase_p17 (t : Ty) (v : Val) : getByteSize (eraseEnum t) v = getByteSize t v := by
  unfold getByteSize
  rw [bszTy_erase_p17]

/-! ### coherence of bound arrays -/

theorem boundLens_erase_p17 (s : String) : (ms : List Member) → (vs : List Val) →
    boundLens s (eraseEnumMs ms) vs = boundLens s ms vs
  | [], _ => rfl
  | .mk n t k :: r, [] => rfl
  | .mk n t k :: r, v :: vs => by
    have ih := boundLens_erase_p17 s r vs
    simp only [eraseEnumMs]
    by_cases hk : k.sizer? = some s
    · rw [boundLens_cons_bound s n _ k _ v vs hk, boundLens_cons_bound s n _ k _ v vs hk, ih]
    · rw [boundLens_cons_skip s n _ k _ v vs hk, boundLens_cons_skip s n _ k _ v vs hk, ih]

theorem agreeMs_erase_p17 (ms : List Member) (vs : List Val) : agreeMs (eraseEnumMs ms) vs = agreeMs ms vs := by
  unfold agreeMs
  simp only [Spec.counter, boundLens_erase_p17]
  rw [eraseEnumMs_map_p17, List.all_map]
  congr 1
  funext m
  simp

theorem arms_get_erase_p17 : (arms : List Arm) → (idx : Nat) →
    (eraseEnumArms arms)[idx]? = (arms[idx]?).map (fun a => Arm.mk a.name a.disc (eraseEnum a.ty))
  | [], _ => by simp [eraseEnumArms]
  | .mk n d t :: r, 0 => by simp [eraseEnumArms, Arm.name, Arm.disc, Arm.ty]
  | .mk n d t :: r, i + 1 => by simpa [eraseEnumArms] using arms_get_erase_p17 r i

mutual
  theorem agreeTy_erase_p17 : (v : Val) → ∀ (t : Ty), agreeTy (eraseEnum t) v = agreeTy t v
    | .present x, t => by rw [agreeTy_present, agreeTy_present]; exact agreeTy_erase_p17 x t
    | .arr xs, t => by rw [agreeTy_arr, agreeTy_arr]; exact agreeElems_erase_p17 xs t
    | .struct vs, t => by
      cases t with
      | struct nm ms => simp only [eraseEnum, agreeTy, agreeMs_erase_p17, agreeFields_erase_p17 vs ms]
      | _ => simp [eraseEnum, agreeTy]
    | .union idx x, t => by
      cases t with
      | union nm arms =>
        simp only [eraseEnum, agreeTy, arms_get_erase_p17]
        cases arms[idx]? with
        | none => rfl
        | some a =>
          obtain ⟨an, ad, at'⟩ := a
          simp only [Option.map, Arm.ty]
          exact agreeTy_erase_p17 x at'
      | _ => simp [eraseEnum, agreeTy]
    | .int _, t => by cases t <;> simp [agreeTy]
    | .bytes _, t => by cases t <;> simp [agreeTy]
    | .absent, t => by cases t <;> simp [agreeTy]
    | .sizer, t => by cases t <;> simp [agreeTy]
  theorem agreeFields_erase_p17 : (vs : List Val) → ∀ (ms : List Member),
      agreeFields (eraseEnumMs ms) vs = agreeFields ms vs
    | [], ms => by
      cases ms with
      | nil => rfl
      | cons m r => obtain ⟨n, t, k⟩ := m; simp [eraseEnumMs, agreeFields]
    | v :: vs, ms => by
      cases ms with
      | nil => rfl
      | cons m r =>
        obtain ⟨n, t, k⟩ := m
        simp only [eraseEnumMs, agreeFields, agreeTy_erase_p17 v t, agreeFields_erase_p17 vs r]
  theorem agreeElems_erase_p17 : (xs : List Val) → ∀ (t : Ty), agreeElems (eraseEnum t) xs = agreeElems t xs
    | [], t => by simp [agreeElems]
    | x :: xs, t => by simp only [agreeElems, agreeTy_erase_p17 x t, agreeElems_erase_p17 xs t]
end

/-! ### `hasTypeW` is weaker than `hasType` -/

theorem sizerMax_erase_le_p17 (s : String) (all : List Member) : sizerMax s all ≤ sizerMax s (eraseEnumMs all) := by
  unfold sizerMax
  rw [find_name_erase_p17]
  cases all.find? (fun m => m.name == s) with
  | none => simp
  | some m =>
    obtain ⟨a, t, k⟩ := m
    cases t <;> simp [eraseM_p17, eraseEnum, primRange, Prim.isFloat, Prim.isSigned, Prim.size]

theorem lenOk_erase_p17 (all : List Member) (k : MKind) (n : Nat) (h : lenOk_dt all k n = true) :
    lenOk_dt (eraseEnumMs all) k n = true := by
  cases k with
  | limited s c =>
    have := sizerMax_erase_le_p17 s all
    simp only [lenOk_dt, Bool.and_eq_true, decide_eq_true_eq] at h ⊢
    exact ⟨h.1, by omega⟩
  | dyn s sh =>
    have := sizerMax_erase_le_p17 s all
    simp only [lenOk_dt, decide_eq_true_eq] at h ⊢
    omega
  | _ => exact h

theorem hasField_arr_inv_p17 (all : List Member) (k : MKind) (t : Ty) (xs : List Val)
    (h : hasField all k t (.arr xs) = true) : t ≠ .byte ∧ lenOk_dt all k xs.length = true ∧ hasElems t xs = true := by
  cases t <;> cases k <;> simp_all [hasField, lenOk_dt]

theorem hasField_bytes_inv_p17 (all : List Member) (k : MKind) (t : Ty) (b : Bytes)
    (h : hasField all k t (.bytes b) = true) : t = .byte ∧ lenOk_dt all k b.length = true := by
  cases t <;> cases k <;> simp_all [hasField, lenOk_dt]

theorem eraseEnum_ne_byte_p17 (t : Ty) (h : t ≠ .byte) : eraseEnum t ≠ .byte := by
  cases t <;> simp_all [eraseEnum]

mutual
  theorem hasFieldW_of_p17 : (v : Val) → ∀ (all : List Member) (k : MKind) (t : Ty), wfTy t = true →
      hasField all k t v = true → hasField (eraseEnumMs all) k (eraseEnum t) v = true
    | .sizer, all, k, t, _, h => by cases k <;> simp_all [hasField]
    | .absent, all, k, t, _, h => by cases k <;> simp_all [hasField]
    | .present x, all, k, t, hw, h => by
      have hk : k = .optional := by cases k <;> simp_all [hasField]
      subst hk
      simp only [hasField, Bool.true_and, Bool.and_eq_true, Bool.not_eq_true'] at h ⊢
      exact ⟨h.1, hasFieldW_of_p17 x all .plain t hw h.2⟩
    | .bytes b, all, k, t, _, h => by
      obtain ⟨rfl, hl⟩ := hasField_bytes_inv_p17 all k t b h
      exact hasField_bytes_dt _ k b (lenOk_erase_p17 all k _ hl)
    | .arr xs, all, k, t, hw, h => by
      obtain ⟨hb, hl, he⟩ := hasField_arr_inv_p17 all k t xs h
      exact hasField_arr_dt _ k _ xs (eraseEnum_ne_byte_p17 t hb) (lenOk_erase_p17 all k _ hl)
        (hasElemsW_of_p17 xs t hw he)
    | .int i, all, k, t, hw, h => by
      cases t with
      | prim p =>
        have hk : k = .plain := by cases k <;> simp_all [hasField]
        subst hk; simpa [eraseEnum, hasField] using h
      | byte =>
        have hk : k = .plain := by cases k <;> simp_all [hasField]
        subst hk; simpa [eraseEnum, hasField] using h
      | enum nm es =>
        have hk : k = .plain := by cases k <;> simp_all [hasField]
        subst hk
        simp only [hasField, Bool.true_and, List.any_eq_true, beq_iff_eq] at h
        obtain ⟨en, hen, hi⟩ := h
        simp only [wfTy, List.all_eq_true, decide_eq_true_eq] at hw
        have := hw en hen
        simp only [eraseEnum, hasField, Bool.true_and, inRange, primRange, Prim.isFloat, Prim.isSigned, Prim.size,
          Bool.and_eq_true]
        constructor <;> simp <;> omega
      | struct nm ms => cases k <;> simp_all [hasField]
      | union nm arms => cases k <;> simp_all [hasField]
    | .struct vs, all, k, t, hw, h => by
      cases t with
      | struct nm ms =>
        have hk : k = .plain := by cases k <;> simp_all [hasField]
        subst hk
        simp only [wfTy, Bool.and_eq_true] at hw
        simp only [hasField, Bool.true_and] at h
        simp only [eraseEnum, hasField, Bool.true_and]
        exact hasMsW_of_p17 vs ms ms ms hw.2 h
      | _ => cases k <;> simp_all [hasField]
    | .union idx x, all, k, t, hw, h => by
      cases t with
      | union nm arms =>
        have hk : k = .plain := by cases k <;> simp_all [hasField]
        subst hk
        simp only [wfTy, Bool.and_eq_true] at hw
        simp only [hasField, Bool.true_and] at h
        simp only [eraseEnum, hasField, Bool.true_and, arms_get_erase_p17]
        cases ha : arms[idx]? with
        | none => rw [ha] at h; simp at h
        | some a =>
          obtain ⟨an, ad, at'⟩ := a
          rw [ha] at h
          simp only [Bool.and_eq_true, Bool.not_eq_true'] at h
          have hwa := (WF.wfArms_get arms hw.2 idx _ ha)
          simp only [Option.map, Arm.ty, Bool.and_eq_true, Bool.not_eq_true']
          exact ⟨h.1, by simpa [eraseEnumMs] using hasFieldW_of_p17 x [] .plain at' hwa.1 h.2⟩
      | _ => cases k <;> simp_all [hasField]
  theorem hasMsW_of_p17 : (vs : List Val) → ∀ (all all0 ms : List Member), wfMs all0 ms = true →
      hasMs all ms vs = true → hasMs (eraseEnumMs all) (eraseEnumMs ms) vs = true
    | [], all, all0, ms, _, h => by
      cases ms with
      | nil => simp [eraseEnumMs, hasMs]
      | cons m r => obtain ⟨n, t, k⟩ := m; simp [hasMs] at h
    | v :: vs, all, all0, ms, hw, h => by
      cases ms with
      | nil => simp [hasMs] at h
      | cons m r =>
        obtain ⟨n, t, k⟩ := m
        obtain ⟨hwt, _, _, _, hwr⟩ := (wfMs_cons all0 n t k r).1 hw
        obtain ⟨h1, h2, h3⟩ := (hasMs_cons all n t k r v vs).1 h
        simp only [eraseEnumMs]
        exact (hasMs_cons _ n _ k _ v vs).2 ⟨by rw [isSizer_erase_p17]; exact h1,
          hasFieldW_of_p17 v all k t hwt h2, hasMsW_of_p17 vs all all0 r hwr h3⟩
  theorem hasElemsW_of_p17 : (xs : List Val) → ∀ (t : Ty), wfTy t = true → hasElems t xs = true →
      hasElems (eraseEnum t) xs = true
    | [], t, _, _ => by simp [hasElems]
    | x :: xs, t, hw, h => by
      obtain ⟨h1, h2, h3⟩ := (hasElems_cons t x xs).1 h
      exact (hasElems_cons _ x xs).2 ⟨h1, by simpa [eraseEnumMs] using hasFieldW_of_p17 x [] .plain t hw h2,
        hasElemsW_of_p17 xs t hw h3⟩
end

/-- the weak typing is implied by the full one (for a well-formed schema: enumerators fit 32 bits) -/
theorem hasTypeW_of_hasType (t : Ty) (v : Val) (hw : wfTy t = true) (h : hasType t v = true) :
    hasTypeW t v = true := by
  simp only [hasTypeW, hasType, Bool.and_eq_true] at h ⊢
  exact ⟨h.1, by simpa [eraseEnumMs] using hasFieldW_of_p17 v [] .plain t hw h.2⟩

mutual
  theorem eraseEnum_of_noEnum_p17 : (t : Ty) → noEnum t = true → eraseEnum t = t
    | .prim _, _ => rfl
    | .byte, _ => rfl
    | .enum _ _, h => by simp [noEnum] at h
    | .struct _ ms, h => by
      simp only [noEnum] at h
      simp only [eraseEnum, eraseEnumMs_of_noEnum_p17 ms h]
    | .union _ arms, h => by
      simp only [noEnum] at h
      simp only [eraseEnum, eraseEnumArms_of_noEnum_p17 arms h]
  theorem eraseEnumMs_of_noEnum_p17 : (ms : List Member) → noEnumMs ms = true → eraseEnumMs ms = ms
    | [], _ => rfl
    | .mk _ t _ :: r, h => by
      simp only [noEnumMs, Bool.and_eq_true] at h
      simp only [eraseEnumMs, eraseEnum_of_noEnum_p17 t h.1, eraseEnumMs_of_noEnum_p17 r h.2]
  theorem eraseEnumArms_of_noEnum_p17 : (arms : List Arm) → noEnumArms arms = true → eraseEnumArms arms = arms
    | [], _ => rfl
    | .mk _ _ t :: r, h => by
      simp only [noEnumArms, Bool.and_eq_true] at h
      simp only [eraseEnumArms, eraseEnum_of_noEnum_p17 t h.1, eraseEnumArms_of_noEnum_p17 r h.2]
end

/-- for a schema without enums the weak typing is `hasType` -/
theorem hasTypeW_of_noEnum (t : Ty) (v : Val) (h : noEnum t = true) : hasTypeW t v = hasType t v := by
  unfold hasTypeW
  rw [eraseEnum_of_noEnum_p17 t h]

/-- the core statement, for a schema without enums: whatever is accepted is well-typed, coherent and
    exactly as long (canonically encoded) as the input -/
theorem decode_accepted_core_p17 (t : Ty) (data : Bytes) (e : Endian) (v : Val) (rs : List Nat)
    (hf : Accept.front t = true) (hns : Accept.noShift t = true) (hm : optMisaligned t = false)
    (hlf : limFirst t = true) (hne : noEnum t = true)
    (h : decode t data e = .accepted v rs) :
    hasType t v = true ∧ WF.agreeTy t v = true ∧ data.length = Spec.clen (Spec.chunksTy t v) := by
  have hp := Accept.pyRt_of_front t hf hns
  have hns' : Cpp.noShift t = true := by rw [Cpp.noShift_eq_accept]; exact hns
  unfold decode at h
  cases hd : decTy e t data 0 [] with
  | mk x p =>
    rw [hd] at h
    cases x with
    | ok v' pos rs' =>
      simp only at h
      split at h
      · rename_i hpos
        injection h with h1 h2
        subst h1
        obtain ⟨hg, hq, _⟩ := dec_ty_p17 e t hf hp hns' hm hlf hne data 0 [] v' pos rs' p hd (Nat.zero_le _)
          (Nat.dvd_zero _)
        refine ⟨by simp [hasType, hg.nc, hg.ty], hg.ag, ?_⟩
        omega
      · cases h
    | fail rs' => simp at h
    | fault => simp at h
    | throw rs' => simp at h

end Cpp

/-! ## the theorems

  ORIGINAL TARGETS

      theorem Cpp.decode_accepted_typed (t : Ty) (data : Bytes) (e : Endian) (v : Val) (rs : List Nat)
          (hf : Accept.front t = true) (hns : Accept.noShift t = true) (hm : Cpp.optMisaligned t = false)
          (h : Cpp.decode t data e = .accepted v rs) :
          hasType t v = true ∧ WF.agreeTy t v = true
      theorem Cpp.decode_accepted_exact (… same …) : Cpp.getByteSize t v = data.length

  The first is FALSE in the model, for two independent reasons (both proved below):

  * enums: the C++ decoder does not check that an enum value is an enumerator
    (`CppDecodeExactCx.TE`: the 4 bytes `07 00 00 00` are accepted as the value 7 of `enum E { a = 1 }`).
    This is a documented difference to the Python decoder, not a defect of the property: the conclusion
    is stated with `Cpp.hasTypeW` = `hasType` of the schema in which every enum is replaced by `u32`
    ("like hasType but enum values are any 32-bit unsigned integer"); for a schema without enums it
    is `hasType` (`Cpp.hasTypeW_of_noEnum`).
  * limited arrays sharing a counter (`CppDecodeExactCx.TL`): `do_decode_resize` checks only the limit of
    the FIRST array bound to the counter; a later limited array with a smaller limit is decoded "in
    place" with the same count and can exceed its limit (5 bytes `02 01 02 04 05` are accepted with
    `a = [4, 5]` in `byte a<1>`).  Added hypothesis `Cpp.limFirst t`: the first array bound to the counter
    of a limited array is a limited array with a limit that is not greater.  It holds for everything
    prophyc's own language can express (`T x<n>` gets its own counter).

  The second needs, beyond `Cpp.limFirst t` (a sufficient condition: the proof goes through the typing
  result; the witness `TL` itself is still exact, `CppDecodeExactCx.TL_exact`, and no accepted input that
  re-encodes to another length was found), `data.length < 2 ^ 64`: `get_byte_size()` is a `size_t`, the model's byte lists are unbounded
  (a fixed array `u8 x[2^64]` accepts 2^64 bytes and `getByteSize` wraps to 0); every real buffer satisfies it.
-/

/-- C07, second clause: whatever the C++ decoder accepts - for every byte string - is a coherent object
    that is well-typed up to enumerator checks -/
theorem Cpp.decode_accepted_typed (t : Ty) (data : Bytes) (e : Endian) (v : Val) (rs : List Nat)
    (hf : Accept.front t = true) (hns : Accept.noShift t = true) (hm : Cpp.optMisaligned t = false)
    (hlf : Cpp.limFirst t = true)
    (h : Cpp.decode t data e = .accepted v rs) :
    Cpp.hasTypeW t v = true ∧ WF.agreeTy t v = true := by
  have hns' : Accept.noShift (Cpp.eraseEnum t) = true := by
    rw [← Cpp.noShift_eq_accept, Cpp.noShift_erase_p17, Cpp.noShift_eq_accept]; exact hns
  obtain ⟨h1, h2, _⟩ := Cpp.decode_accepted_core_p17 (Cpp.eraseEnum t) data e v rs (Cpp.front_erase_p17 t hf) hns'
    (by rw [Cpp.optMisaligned_erase_p17]; exact hm) (by rw [Cpp.limFirst_erase_p17]; exact hlf)
    (Cpp.noEnum_erase_p17 t) (by rw [Cpp.decode_erase_p17]; exact h)
  exact ⟨h1, by rw [← Cpp.agreeTy_erase_p17]; exact h2⟩

/-- the same for a schema without enums: the accepted object is well-typed in the full sense -/
theorem Cpp.decode_accepted_typed_noEnum (t : Ty) (data : Bytes) (e : Endian) (v : Val) (rs : List Nat)
    (hf : Accept.front t = true) (hns : Accept.noShift t = true) (hm : Cpp.optMisaligned t = false)
    (hlf : Cpp.limFirst t = true) (hne : Cpp.noEnum t = true)
    (h : Cpp.decode t data e = .accepted v rs) :
    hasType t v = true ∧ WF.agreeTy t v = true := by
  obtain ⟨h1, h2⟩ := Cpp.decode_accepted_typed t data e v rs hf hns hm hlf h
  rw [Cpp.hasTypeW_of_noEnum t v hne] at h1
  exact ⟨h1, h2⟩

/-- C07 / C03: accepted inputs are consumed exactly - the accepted object re-encodes
    (`get_byte_size()`) to as many bytes as were read -/
theorem Cpp.decode_accepted_exact (t : Ty) (data : Bytes) (e : Endian) (v : Val) (rs : List Nat)
    (hf : Accept.front t = true) (hns : Accept.noShift t = true) (hm : Cpp.optMisaligned t = false)
    (hlf : Cpp.limFirst t = true) (hlen : data.length < 2 ^ 64)
    (h : Cpp.decode t data e = .accepted v rs) :
    Cpp.getByteSize t v = data.length := by
  have hf' := Cpp.front_erase_p17 t hf
  have hns' : Accept.noShift (Cpp.eraseEnum t) = true := by
    rw [← Cpp.noShift_eq_accept, Cpp.noShift_erase_p17, Cpp.noShift_eq_accept]; exact hns
  have hm' : Cpp.optMisaligned (Cpp.eraseEnum t) = false := by rw [Cpp.optMisaligned_erase_p17]; exact hm
  obtain ⟨h1, h2, h3⟩ := Cpp.decode_accepted_core_p17 (Cpp.eraseEnum t) data e v rs hf' hns' hm'
    (by rw [Cpp.limFirst_erase_p17]; exact hlf) (Cpp.noEnum_erase_p17 t) (by rw [Cpp.decode_erase_p17]; exact h)
  have hT := Cpp.tyOk_of_accept (Cpp.eraseEnum t) hf' (Accept.pyRt_of_front _ hf' hns') hm'
    (by rw [Cpp.noShift_cppenc_eq_accept]; exact hns')
  have hb := Cpp.byteSizeTy_spec (Cpp.eraseEnum t) v hT h1
  rw [← Cpp.getByteSize_erase_p17]
  unfold Cpp.getByteSize
  rw [hb, ← h3]
  omega

/-- the accepted object encodes (`message::encode<E>()`) without fault to `data.length` bytes, for a schema
    without enums (where the canonical encoding of the decoded object is defined) -/
theorem Cpp.decode_accepted_reencodes (t : Ty) (data : Bytes) (e e' : Endian) (v : Val) (rs : List Nat)
    (hf : Accept.front t = true) (hns : Accept.noShift t = true) (hm : Cpp.optMisaligned t = false)
    (hlf : Cpp.limFirst t = true) (hne : Cpp.noEnum t = true) (hlen : data.length < 2 ^ 64)
    (h : Cpp.decode t data e = .accepted v rs) :
    Cpp.encodeVec t v e' = .ok (Spec.enc t v e') ∧ (Spec.enc t v e').length = data.length := by
  obtain ⟨h1, h2, h3⟩ := Cpp.decode_accepted_core_p17 t data e v rs hf hns hm hlf hne h
  have hl : (Spec.enc t v e').length = data.length := by
    simp only [Spec.enc, Spec.render_length]; omega
  exact ⟨Cpp.encodeVec_canonical t v e' hf (Accept.pyRt_of_front t hf hns) hm
    (by rw [Cpp.noShift_cppenc_eq_accept]; exact hns) h1 h2 (by rw [hl]; exact hlen), hl⟩

/-- the original typing statement is false: enum values are not checked -/
theorem Cpp.decode_accepted_hasType_false :
    ∃ (t : Ty) (data : Bytes) (e : Endian) (v : Val) (rs : List Nat),
      Accept.front t = true ∧ Accept.noShift t = true ∧ Cpp.optMisaligned t = false ∧ Cpp.limFirst t = true ∧
      Cpp.decode t data e = .accepted v rs ∧ hasType t v = false :=
  ⟨CppDecodeExactCx.TE, CppDecodeExactCx.DE, .little, CppDecodeExactCx.VE, [], by decide, by decide, by decide,
    by decide, CppDecodeExactCx.TE_accepted, CppDecodeExactCx.TE_untyped⟩

/-- and it stays false without enums: a limited array can come back longer than its limit when it is
    not the first array bound to its counter -/
theorem Cpp.decode_accepted_limit_false :
    ∃ (t : Ty) (data : Bytes) (e : Endian) (v : Val) (rs : List Nat),
      Accept.front t = true ∧ Accept.noShift t = true ∧ Cpp.optMisaligned t = false ∧ Cpp.noEnum t = true ∧
      Cpp.decode t data e = .accepted v rs ∧ hasType t v = false ∧ Cpp.hasTypeW t v = false :=
  ⟨CppDecodeExactCx.TL, CppDecodeExactCx.DL, .little, CppDecodeExactCx.VL, [2], by decide, by decide, by decide,
    by decide, CppDecodeExactCx.TL_accepted, CppDecodeExactCx.TL_untyped, by decide⟩

end Prophy

#print axioms Prophy.Cpp.decode_accepted_typed
#print axioms Prophy.Cpp.decode_accepted_typed_noEnum
#print axioms Prophy.Cpp.decode_accepted_exact
#print axioms Prophy.Cpp.decode_accepted_reencodes
#print axioms Prophy.Cpp.decode_accepted_hasType_false
#print axioms Prophy.Cpp.decode_accepted_limit_false

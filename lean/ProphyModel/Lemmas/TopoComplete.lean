/-
  Completeness of the rotation-based topological sort (properties C15 / C13):
  on every definition set whose dependencies among the defined names are acyclic
  (witnessed by a rank function), `Topo.sort` returns a result - the rotation bound
  `total + 1` per position is never exhausted and `stuck` never happens.

  Key argument (`settle_complete`): at one position every rotation brings a node of strictly
  smaller rank to the front of the suffix, so the number of nodes of the suffix whose rank is
  below the rank of the head (`cnt`) strictly decreases; it is at most `len(suffix) ≤ total`.
  `stuck` would need an unplaced available dependency that is not later in the suffix, i.e.
  a self-dependency, which the rank excludes.

  Neither uniqueness of the names nor disjointness from the builtins is needed for
  completeness (`sort_complete'`); the statement of the task (`sort_complete`) is a corollary.
-/
import ProphyModel.Topo
import ProphyModel.Properties.C15
namespace Prophy
namespace Topo

theorem findIdx_none (dep : String) :
    ∀ l : List TNode, findIdx dep l = none → dep ∉ l.map (·.name)
  | [], _ => by simp
  | n :: r, h => by
    simp only [findIdx] at h
    by_cases hn : n.name = dep
    · simp [hn] at h
    · simp only [hn, if_false, Option.map_eq_none_iff] at h
      have ih := findIdx_none dep r h
      simp only [List.map_cons, List.mem_cons, not_or]
      exact ⟨fun e => hn e.symm, ih⟩

/-- the node moved to the front is the one `find_first_dep` found: it is named `dep` -/
theorem findIdx_moveFront (dep : String) :
    ∀ (l : List TNode) (k : Nat), findIdx dep l = some k →
      ∃ y r, moveFront l k = y :: r ∧ y.name = dep
  | [], _, h => by simp [findIdx] at h
  | n :: r, k, h => by
    simp only [findIdx] at h
    by_cases hn : n.name = dep
    · simp only [hn, if_true, Option.some.injEq] at h
      subst h
      exact ⟨n, r, by simp [moveFront], hn⟩
    · simp only [hn, if_false, Option.map_eq_some_iff] at h
      obtain ⟨k', hk', hk⟩ := h
      subst hk
      obtain ⟨y, r', hm, hy⟩ := findIdx_moveFront dep r k' hk'
      exact ⟨y, n :: r', by simp [moveFront, hm], hy⟩

/-- number of nodes of `s` whose rank is below `b` -/
def cnt (rank : String → Nat) (b : Nat) (s : List TNode) : Nat :=
  (s.filter (fun n => decide (rank n.name < b))).length

theorem cnt_perm (rank : String → Nat) (b : Nat) {s s' : List TNode} (h : s.Perm s') :
    cnt rank b s = cnt rank b s' :=
  (h.filter _).length_eq

theorem cnt_le_length (rank : String → Nat) (b : Nat) (s : List TNode) :
    cnt rank b s ≤ s.length :=
  List.length_filter_le _ _

theorem cnt_mono (rank : String → Nat) {a b : Nat} (hab : a ≤ b) :
    ∀ s : List TNode, cnt rank a s ≤ cnt rank b s
  | [] => by simp [cnt]
  | n :: r => by
    have ih := cnt_mono rank hab r
    unfold cnt at ih ⊢
    simp only [List.filter_cons]
    by_cases h1 : rank n.name < a
    · have h2 : rank n.name < b := by omega
      simp [h1, h2]; exact ih
    · by_cases h2 : rank n.name < b
      · simp [h1, h2]; omega
      · simp [h1, h2]; exact ih

/-- a node of rank in `[a, b)` makes the count strictly smaller -/
theorem cnt_lt (rank : String → Nat) {a b : Nat} (y : TNode) (hya : ¬ rank y.name < a)
    (hyb : rank y.name < b) :
    ∀ s : List TNode, y ∈ s → cnt rank a s < cnt rank b s
  | [], h => by simp at h
  | n :: r, h => by
    have hab : a ≤ b := by omega
    have hmono := cnt_mono rank hab r
    by_cases hny : y = n
    · subst hny
      unfold cnt at hmono ⊢
      simp only [List.filter_cons]
      simp [hya, hyb]; omega
    · have hyr : y ∈ r := by
        cases h with
        | head => exact absurd rfl hny
        | tail _ h => exact h
      have ih := cnt_lt rank y hya hyb r hyr
      unfold cnt at ih ⊢
      simp only [List.filter_cons]
      by_cases h1 : rank n.name < a
      · have h2 : rank n.name < b := by omega
        simp [h1, h2]; exact ih
      · by_cases h2 : rank n.name < b
        · simp [h1, h2]; omega
        · simp [h1, h2]; exact ih

/-- the unplaced available names are names of the suffix -/
def Covered (known available : List String) (s : List TNode) : Prop :=
  ∀ d, known.contains d = false → available.contains d = true → d ∈ s.map (·.name)

/-- the available dependencies of the nodes of `s` have smaller rank -/
def Ranked (rank : String → Nat) (available : List String) (s : List TNode) : Prop :=
  ∀ n ∈ s, ∀ d ∈ n.deps, available.contains d = true → rank d < rank n.name

theorem Covered.perm {known available : List String} {s s' : List TNode}
    (h : Covered known available s) (hp : s'.Perm s) : Covered known available s' := by
  intro d hk ha
  have := h d hk ha
  exact ((hp.map (·.name)).mem_iff).2 this

theorem Ranked.perm {rank : String → Nat} {available : List String} {s s' : List TNode}
    (h : Ranked rank available s) (hp : s'.Perm s) : Ranked rank available s' :=
  fun n hn => h n (hp.mem_iff.1 hn)

/-- the `while model_sort_rotate()` loop at one position terminates normally when the fuel
    exceeds the number of suffix nodes ranked below the head -/
theorem settle_complete (rank : String → Nat) (known available : List String) :
    ∀ (fuel : Nat) (node : TNode) (rest : List TNode),
      Covered known available (node :: rest) →
      Ranked rank available (node :: rest) →
      cnt rank (rank node.name) (node :: rest) < fuel →
      ∃ r, settle known available fuel (node :: rest) = some r
  | 0, _, _, _, _, h => by omega
  | fuel + 1, node, rest, hc, hr, hf => by
    simp only [settle, rotate]
    cases hfind : node.deps.find?
        (fun d => !known.contains d && available.contains d) with
    | none => exact ⟨_, rfl⟩
    | some dep =>
      have hp := List.find?_some hfind
      have hmem : dep ∈ node.deps := List.mem_of_find?_eq_some hfind
      simp only [Bool.and_eq_true, Bool.not_eq_true'] at hp
      have hrank : rank dep < rank node.name := hr node (by simp) dep hmem hp.2
      have hin := hc dep hp.1 hp.2
      have hne : dep ≠ node.name := by
        intro e; rw [e] at hrank; omega
      simp only [List.map_cons, List.mem_cons] at hin
      have hin' : dep ∈ rest.map (·.name) := by
        cases hin with
        | inl h => exact absurd h hne
        | inr h => exact h
      cases hidx : findIdx dep rest with
      | none => exact absurd hin' (findIdx_none dep rest hidx)
      | some k =>
        obtain ⟨y, r', hm, hy⟩ := findIdx_moveFront dep rest k hidx
        have hmf : moveFront (node :: rest) (k + 1) = y :: node :: r' := by
          simp [moveFront, hm]
        have hperm : (y :: node :: r').Perm (node :: rest) := by
          rw [← hmf]; exact C15.moveFront_perm _ _
        simp only [hidx, hmf]
        apply settle_complete rank known available fuel y (node :: r')
          (hc.perm hperm) (hr.perm hperm)
        have hyin : y ∈ node :: rest := hperm.mem_iff.1 (by simp)
        have h1 : cnt rank (rank y.name) (y :: node :: r')
            = cnt rank (rank y.name) (node :: rest) := cnt_perm rank _ hperm
        have h2 : cnt rank (rank y.name) (node :: rest)
            < cnt rank (rank node.name) (node :: rest) :=
          cnt_lt rank y (by omega) (by rw [hy]; exact hrank) _ hyin
        omega

theorem settle_nil (known available : List String) (fuel : Nat) :
    settle known available (fuel + 1) [] = some [] := by
  simp [settle, rotate]

/-- the `for index in range(len(nodes))` loop never reports a cycle on a ranked suffix -/
theorem sortFrom_complete (rank : String → Nat) (total : Nat) (available : List String) :
    ∀ (k : Nat) (s : List TNode) (known : List String),
      s.length ≤ total → Covered known available s → Ranked rank available s →
      ∃ r, sortFrom total available k s known = some r
  | 0, s, _, _, _, _ => ⟨s, rfl⟩
  | k + 1, [], known, _, _, _ => by
    simp [sortFrom, settle_nil]
  | k + 1, node :: rest, known, hl, hc, hr => by
    have hcnt : cnt rank (rank node.name) (node :: rest) < total + 1 := by
      have := cnt_le_length rank (rank node.name) (node :: rest)
      omega
    obtain ⟨r, hs⟩ := settle_complete rank known available (total + 1) node rest hc hr hcnt
    have hperm := C15.settle_perm _ _ _ _ _ hs
    simp only [sortFrom, hs]
    cases r with
    | nil => exact ⟨_, rfl⟩
    | cons m r' =>
      have hc' : Covered known available (m :: r') := hc.perm hperm
      have hr' : Ranked rank available (m :: r') := hr.perm hperm
      have hlen : (m :: r').length = (node :: rest).length := hperm.length_eq
      have hc'' : Covered (m.name :: known) available r' := by
        intro d hk ha
        simp only [List.contains_cons, Bool.or_eq_false_iff] at hk
        have := hc' d hk.2 ha
        simp only [List.map_cons, List.mem_cons] at this
        cases this with
        | inl h => simp [h] at hk
        | inr h => exact h
      have hr'' : Ranked rank available r' := fun n hn => hr' n (List.mem_cons_of_mem _ hn)
      obtain ⟨t, ht⟩ := sortFrom_complete rank total available k r' (m.name :: known)
        (by simp at hlen hl; omega) hc'' hr''
      exact ⟨m :: t, by simp [ht]⟩

/-- General form: the sort succeeds on every node list whose dependencies among the defined
    names decrease a rank.  (No uniqueness of names, no condition on the builtins.) -/
theorem sort_complete' (g : List TNode) (rank : String → Nat)
    (hr : ∀ n ∈ g, ∀ d ∈ n.deps, d ∈ g.map (·.name) → rank d < rank n.name) :
    ∃ r, sort g = some r := by
  unfold sort
  apply sortFrom_complete rank g.length (g.map (·.name)) g.length g builtins (Nat.le_refl _)
  · intro d _ ha
    simpa using ha
  · intro n hn d hd ha
    exact hr n hn d hd (by simpa using ha)

/-- The statement of the task (`rank n` read as `rank n.name`: `rank` is a function of names).
    `hn` and `hb` are not needed. -/
theorem sort_complete (g : List TNode) (rank : String → Nat)
    (_hn : (g.map (·.name)).Nodup)
    (_hb : ∀ n ∈ g, n.name ∉ builtins)
    (hr : ∀ n ∈ g, ∀ d ∈ n.deps, d ∈ g.map (·.name) → rank d < rank n.name) :
    ∃ r, sort g = some r :=
  sort_complete' g rank hr

/-- non-vacuity: a chain given in reverse order needs the maximal number of rotations at
    position 0 and is sorted -/
example : (sort [⟨"D", ["C"]⟩, ⟨"C", ["B"]⟩, ⟨"B", ["A"]⟩, ⟨"A", []⟩]).map (·.map (·.name))
    = some ["A", "B", "C", "D"] := by decide

end Topo
end Prophy

#print axioms Prophy.Topo.sort_complete'
#print axioms Prophy.Topo.sort_complete

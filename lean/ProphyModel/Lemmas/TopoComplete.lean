/-
  Completeness of the rotation-based topological sort (properties C15 / C13):
  on every definition set whose dependencies among the defined names are acyclic
  (witnessed by a rank function), `Topo.sort` returns a result - the rotation bound
  `total + 1` per position is never exhausted and `stuck` never happens.

  Key argument (`settle_complete`): at one position every rotation brings a node of strictly
  smaller rank to the front of the suffix, so the number of nodes of the suffix whose rank is
  below the rank of the head (`cnt`) strictly decreases; it is at most `len(suffix) ≤ total`.
  `stuck` would need an unplaced available dependency that is not later in the suffix, i.e.
  a self-dependency, which the rank excludes.

  Neither uniqueness of the names nor disjointness from the builtins is needed for
  completeness (`sort_complete'`); the statement of the task (`sort_complete`) is a corollary.

  Include nodes (`incl = true`) may stand anywhere in the list, may carry the name of a definition
  and may be given any dependencies: the rank condition is asked of the definitions only.  In the
  proof a NODE rank `nr` is used (a definition: the rank of its name; an Include node: one more than
  the ranks of its dependencies) - nothing is ever moved in front of a node because of an Include
  node's NAME, so an Include node needs no rank of its own among the names.
-/
import ProphyModel.Topo
import ProphyModel.Properties.C15
namespace Prophy
namespace Topo

theorem findIdx_none (dep : String) :
    ∀ l : List TNode, findIdx dep l = none → dep ∉ availableOf l
  | [], _ => by simp [availableOf]
  | n :: r, h => by
    simp only [findIdx] at h
    by_cases hn : n.name = dep ∧ n.incl = false
    · simp [hn] at h
    · simp only [hn, if_false, Option.map_eq_none_iff] at h
      have ih := findIdx_none dep r h
      intro hmem
      rcases C15.mem_availableOf.1 hmem with ⟨m, hm, hmi, hmn⟩
      rcases List.mem_cons.1 hm with rfl | hm
      · exact hn ⟨hmn, hmi⟩
      · exact ih (C15.mem_availableOf.2 ⟨m, hm, hmi, hmn⟩)

/-- the node moved to the front is the one `find_first_dep` found: it is named `dep` and is no Include -/
theorem findIdx_moveFront (dep : String) :
    ∀ (l : List TNode) (k : Nat), findIdx dep l = some k →
      ∃ y r, moveFront l k = y :: r ∧ y.name = dep ∧ y.incl = false
  | [], _, h => by simp [findIdx] at h
  | n :: r, k, h => by
    simp only [findIdx] at h
    by_cases hn : n.name = dep ∧ n.incl = false
    · simp only [hn, and_self, if_true, Option.some.injEq] at h
      subst h
      exact ⟨n, r, by simp [moveFront], hn⟩
    · simp only [hn, if_false, Option.map_eq_some_iff] at h
      obtain ⟨k', hk', hk⟩ := h
      subst hk
      obtain ⟨y, r', hm, hy⟩ := findIdx_moveFront dep r k' hk'
      exact ⟨y, n :: r', by simp [moveFront, hm], hy⟩

/-- number of nodes of `s` whose rank is below `b` (`nr` ranks NODES: a definition by the rank of its
    name, an Include node above whatever it is made to depend on) -/
def cnt (nr : TNode → Nat) (b : Nat) (s : List TNode) : Nat :=
  (s.filter (fun n => decide (nr n < b))).length

theorem cnt_perm (nr : TNode → Nat) (b : Nat) {s s' : List TNode} (h : s.Perm s') :
    cnt nr b s = cnt nr b s' :=
  (h.filter _).length_eq

theorem cnt_le_length (nr : TNode → Nat) (b : Nat) (s : List TNode) :
    cnt nr b s ≤ s.length :=
  List.length_filter_le _ _

theorem cnt_mono (nr : TNode → Nat) {a b : Nat} (hab : a ≤ b) :
    ∀ s : List TNode, cnt nr a s ≤ cnt nr b s
  | [] => by simp [cnt]
  | n :: r => by
    have ih := cnt_mono nr hab r
    unfold cnt at ih ⊢
    simp only [List.filter_cons]
    by_cases h1 : nr n < a
    · have h2 : nr n < b := by omega
      simp [h1, h2]; exact ih
    · by_cases h2 : nr n < b
      · simp [h1, h2]; omega
      · simp [h1, h2]; exact ih

/-- a node of rank in `[a, b)` makes the count strictly smaller -/
theorem cnt_lt (nr : TNode → Nat) {a b : Nat} (y : TNode) (hya : ¬ nr y < a)
    (hyb : nr y < b) :
    ∀ s : List TNode, y ∈ s → cnt nr a s < cnt nr b s
  | [], h => by simp at h
  | n :: r, h => by
    have hab : a ≤ b := by omega
    have hmono := cnt_mono nr hab r
    by_cases hny : y = n
    · subst hny
      unfold cnt at hmono ⊢
      simp only [List.filter_cons]
      simp [hya, hyb]; omega
    · have hyr : y ∈ r := by
        cases h with
        | head => exact absurd rfl hny
        | tail _ h => exact h
      have ih := cnt_lt nr y hya hyb r hyr
      unfold cnt at ih ⊢
      simp only [List.filter_cons]
      by_cases h1 : nr n < a
      · have h2 : nr n < b := by omega
        simp [h1, h2]; exact ih
      · by_cases h2 : nr n < b
        · simp [h1, h2]; omega
        · simp [h1, h2]; exact ih

/-- the unplaced available names are names of definitions (non-Include nodes) of the suffix -/
def Covered (known available : List String) (s : List TNode) : Prop :=
  ∀ d, known.contains d = false → available.contains d = true → d ∈ availableOf s

/-- the available dependencies of the nodes of `s` have smaller rank -/
def Ranked (rank : String → Nat) (nr : TNode → Nat) (available : List String) (s : List TNode) : Prop :=
  ∀ n ∈ s, ∀ d ∈ n.deps, available.contains d = true → rank d < nr n

theorem Covered.perm {known available : List String} {s s' : List TNode}
    (h : Covered known available s) (hp : s'.Perm s) : Covered known available s' := by
  intro d hk ha
  have := h d hk ha
  exact ((C15.availableOf_perm hp).mem_iff).2 this

theorem Ranked.perm {rank : String → Nat} {nr : TNode → Nat} {available : List String} {s s' : List TNode}
    (h : Ranked rank nr available s) (hp : s'.Perm s) : Ranked rank nr available s' :=
  fun n hn => h n (hp.mem_iff.1 hn)

/-- the `while model_sort_rotate()` loop at one position terminates normally when the fuel
    exceeds the number of suffix nodes ranked below the head -/
theorem settle_complete (rank : String → Nat) (nr : TNode → Nat)
    (hnr : ∀ n, n.incl = false → nr n = rank n.name) (known available : List String) :
    ∀ (fuel : Nat) (node : TNode) (rest : List TNode),
      Covered known available (node :: rest) →
      Ranked rank nr available (node :: rest) →
      cnt nr (nr node) (node :: rest) < fuel →
      ∃ r, settle known available fuel (node :: rest) = some r
  | 0, _, _, _, _, h => by omega
  | fuel + 1, node, rest, hc, hr, hf => by
    simp only [settle, rotate]
    cases hfind : node.deps.find?
        (fun d => !known.contains d && available.contains d) with
    | none => exact ⟨_, rfl⟩
    | some dep =>
      have hp := List.find?_some hfind
      have hmem : dep ∈ node.deps := List.mem_of_find?_eq_some hfind
      simp only [Bool.and_eq_true, Bool.not_eq_true'] at hp
      have hrank : rank dep < nr node := hr node (by simp) dep hmem hp.2
      have hin := hc dep hp.1 hp.2
      have hin' : dep ∈ availableOf rest := by
        rcases C15.mem_availableOf.1 hin with ⟨m, hm, hmi, hmn⟩
        rcases List.mem_cons.1 hm with rfl | hm
        · -- the head itself is a definition named `dep`: excluded by the rank
          rw [hnr m hmi, hmn] at hrank; omega
        · exact C15.mem_availableOf.2 ⟨m, hm, hmi, hmn⟩
      cases hidx : findIdx dep rest with
      | none => exact absurd hin' (findIdx_none dep rest hidx)
      | some k =>
        obtain ⟨y, r', hm, hy, hyi⟩ := findIdx_moveFront dep rest k hidx
        have hmf : moveFront (node :: rest) (k + 1) = y :: node :: r' := by
          simp [moveFront, hm]
        have hperm : (y :: node :: r').Perm (node :: rest) := by
          rw [← hmf]; exact C15.moveFront_perm _ _
        simp only [hidx, hmf]
        apply settle_complete rank nr hnr known available fuel y (node :: r')
          (hc.perm hperm) (hr.perm hperm)
        have hyin : y ∈ node :: rest := hperm.mem_iff.1 (by simp)
        have h1 : cnt nr (nr y) (y :: node :: r')
            = cnt nr (nr y) (node :: rest) := cnt_perm nr _ hperm
        have h2 : cnt nr (nr y) (node :: rest)
            < cnt nr (nr node) (node :: rest) :=
          cnt_lt nr y (by omega) (by rw [hnr y hyi, hy]; exact hrank) _ hyin
        omega

theorem settle_nil (known available : List String) (fuel : Nat) :
    settle known available (fuel + 1) [] = some [] := by
  simp [settle, rotate]

/-- the `for index in range(len(nodes))` loop never reports a cycle on a ranked suffix -/
theorem sortFrom_complete (rank : String → Nat) (nr : TNode → Nat)
    (hnr : ∀ n, n.incl = false → nr n = rank n.name) (total : Nat) (available : List String) :
    ∀ (k : Nat) (s : List TNode) (known : List String),
      s.length ≤ total → Covered known available s → Ranked rank nr available s →
      ∃ r, sortFrom total available k s known = some r
  | 0, s, _, _, _, _ => ⟨s, rfl⟩
  | k + 1, [], known, _, _, _ => by
    simp [sortFrom, settle_nil]
  | k + 1, node :: rest, known, hl, hc, hr => by
    have hcnt : cnt nr (nr node) (node :: rest) < total + 1 := by
      have := cnt_le_length nr (nr node) (node :: rest)
      omega
    obtain ⟨r, hs⟩ := settle_complete rank nr hnr known available (total + 1) node rest hc hr hcnt
    have hperm := C15.settle_perm _ _ _ _ _ hs
    simp only [sortFrom, hs]
    cases r with
    | nil => exact ⟨_, rfl⟩
    | cons m r' =>
      have hc' : Covered known available (m :: r') := hc.perm hperm
      have hr' : Ranked rank nr available (m :: r') := hr.perm hperm
      have hlen : (m :: r').length = (node :: rest).length := hperm.length_eq
      have hc'' : Covered (if m.incl then known else m.name :: known) available r' := by
        intro d hk ha
        by_cases hmi : m.incl = true
        · simp only [hmi, if_true] at hk
          rcases C15.mem_availableOf.1 (hc' d hk ha) with ⟨x, hx, hxi, hxn⟩
          rcases List.mem_cons.1 hx with rfl | hx
          · rw [hmi] at hxi; cases hxi
          · exact C15.mem_availableOf.2 ⟨x, hx, hxi, hxn⟩
        · have hmi' : m.incl = false := by simpa using hmi
          simp only [hmi', Bool.false_eq_true, if_false, List.contains_cons,
            Bool.or_eq_false_iff] at hk
          rcases C15.mem_availableOf.1 (hc' d hk.2 ha) with ⟨x, hx, hxi, hxn⟩
          rcases List.mem_cons.1 hx with rfl | hx
          · simp [hxn] at hk
          · exact C15.mem_availableOf.2 ⟨x, hx, hxi, hxn⟩
      have hr'' : Ranked rank nr available r' := fun n hn => hr' n (List.mem_cons_of_mem _ hn)
      obtain ⟨t, ht⟩ := sortFrom_complete rank nr hnr total available k r' _
        (by simp at hlen hl; omega) hc'' hr''
      exact ⟨m :: t, by simp [ht]⟩

/-- a bound above the ranks of a list of names -/
def maxRank (rank : String → Nat) : List String → Nat
  | [] => 0
  | d :: r => max (rank d) (maxRank rank r)

theorem le_maxRank (rank : String → Nat) : ∀ (l : List String) (d : String), d ∈ l → rank d ≤ maxRank rank l
  | [], _, h => by simp at h
  | x :: l, d, h => by
    simp only [maxRank]
    rcases List.mem_cons.1 h with rfl | h
    · omega
    · have := le_maxRank rank l d h; omega

/-- General form: the sort succeeds on every node list in which the dependencies of the DEFINITIONS
    (non-Include nodes) on defined names decrease a rank.  Nothing is asked of the Include nodes
    (whatever they are made to depend on, nothing depends on THEM: they are not `available` and
    `find_first_dep` skips them); no uniqueness of names, no condition on the builtins; an Include
    node may carry the name of a definition. -/
theorem sort_complete' (g : List TNode) (rank : String → Nat)
    (hr : ∀ n ∈ g, n.incl = false → ∀ d ∈ n.deps, d ∈ availableOf g → rank d < rank n.name) :
    ∃ r, sort g = some r := by
  unfold sort
  apply sortFrom_complete rank
    (fun n => if n.incl then maxRank rank n.deps + 1 else rank n.name)
    (by intro n hn; simp [hn]) g.length (availableOf g) g.length g builtins (Nat.le_refl _)
  · intro d _ ha
    simpa using ha
  · intro n hn d hd ha
    by_cases hi : n.incl = true
    · have := le_maxRank rank n.deps d hd
      simp only [hi, if_true]; omega
    · have hi' : n.incl = false := by simpa using hi
      simp only [hi', Bool.false_eq_true, if_false]
      exact hr n hn hi' d hd (by simpa using ha)

/-- The statement of the task (`rank n` read as `rank n.name`: `rank` is a function of names), for
    lists with Include nodes: distinct names are asked of the definitions only (an Include node may
    carry the name of a definition), the rank condition of the definitions only.
    `hn` and `hb` are not needed. -/
theorem sort_complete (g : List TNode) (rank : String → Nat)
    (_hn : (availableOf g).Nodup)
    (_hb : ∀ n ∈ g, n.incl = false → n.name ∉ builtins)
    (hr : ∀ n ∈ g, n.incl = false → ∀ d ∈ n.deps, d ∈ availableOf g → rank d < rank n.name) :
    ∃ r, sort g = some r :=
  sort_complete' g rank hr

/-- `dependencies()` of an Include is empty (not needed by `sort_complete'`, which asks nothing of
    the Include nodes) -/
theorem toNodes_incl_deps (ds : List Decl) : ∀ n ∈ toNodes ds, n.incl = true → n.deps = [] := by
  intro n hn hi
  simp only [toNodes, List.mem_map] at hn
  obtain ⟨d, _, rfl⟩ := hn
  cases d <;> simp_all [Decl.rawDeps]

/-- non-vacuity: a chain given in reverse order needs the maximal number of rotations at
    position 0 and is sorted -/
example : (sort [⟨"D", ["C"], false⟩, ⟨"C", ["B"], false⟩, ⟨"B", ["A"], false⟩, ⟨"A", [], false⟩]).map (·.map (·.name))
    = some ["A", "B", "C", "D"] := by decide

/-- non-vacuity with Include nodes: one carries the name of a definition, one is given a dependency
    on a definition (the hypothesis of `sort_complete'` holds with the rank A < B < S) -/
example : (sort [⟨"S", ["B"], true⟩, ⟨"S", ["B"], false⟩, ⟨"B", ["A"], false⟩, ⟨"i", [], true⟩, ⟨"A", [], false⟩]).map
    (·.map (fun n => (n.name, n.incl)))
    = some [("A", false), ("B", false), ("S", true), ("S", false), ("i", true)] := by decide

end Topo
end Prophy

#print axioms Prophy.Topo.sort_complete'
#print axioms Prophy.Topo.sort_complete
#print axioms Prophy.Topo.toNodes_incl_deps

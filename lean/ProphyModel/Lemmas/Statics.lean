/- relation between the Python runtime's static attributes and the Spec layout -/
import ProphyModel.Spec
import ProphyModel.Py
namespace Prophy.Py
open Prophy

theorem fieldSt_align (s : St) (k : MKind) :
    (fieldSt s k).align = match k with
      | .optional => max flagSize s.align
      | _ => s.align := by
  cases k <;> rfl

mutual
  theorem stTy_align : (t : Ty) → (stTy t).align = Spec.alignTy t
    | .prim p => by simp [stTy, Spec.alignTy]
    | .byte => by simp [stTy, Spec.alignTy]
    | .enum _ _ => by simp [stTy, Spec.alignTy]
    | .struct _ ms => by
      simp only [stTy, structSt, Spec.alignTy]
      exact stMs_align ms
    | .union _ arms => by
      simp only [stTy, unionSt, Spec.alignTy, flagSize, Spec.flagSize]
      rw [stArms_align arms]
  theorem stMs_align : (ms : List Member) → maxAlign (stMs ms) = Spec.alignMs ms
    | [] => by simp [stMs, maxAlign, Spec.alignMs]
    | .mk _ t k :: r => by
      simp only [stMs, maxAlign, Spec.alignMs]
      rw [stMs_align r, fieldSt_align, stTy_align t]
      cases k <;> simp [flagSize, Spec.flagSize]
  theorem stArms_align : (arms : List Arm) → maxAlign (stArms arms) = Spec.alignArms arms
    | [] => by simp [stArms, maxAlign, Spec.alignArms]
    | .mk _ _ t :: r => by
      simp only [stArms, maxAlign, Spec.alignArms]
      rw [stArms_align r, stTy_align t]
end

end Prophy.Py

/- relation between the Python runtime's static attributes and the Spec layout -/
import ProphyModel.Spec
import ProphyModel.Py
import ProphyModel.Lemmas.Align
namespace Prophy.Py
open Prophy

theorem fieldSt_align (s : St) (k : MKind) :
    (fieldSt s k).align = match k with
      | .optional => max flagSize s.align
      | _ => s.align := by
  cases k <;> rfl

mutual
  theorem stTy_align : (t : Ty) → (stTy t).align = Spec.alignTy t
    | .prim p => by simp [stTy, Spec.alignTy]
    | .byte => by simp [stTy, Spec.alignTy]
    | .enum _ _ => by simp [stTy, Spec.alignTy]
    | .struct _ ms => by
      simp only [stTy, structSt, Spec.alignTy]
      exact stMs_align ms
    | .union _ arms => by
      simp only [stTy, unionSt, Spec.alignTy, flagSize, Spec.flagSize]
      rw [stArms_align arms]
  theorem stMs_align : (ms : List Member) → maxAlign (stMs ms) = Spec.alignMs ms
    | [] => by simp [stMs, maxAlign, Spec.alignMs]
    | .mk _ t k :: r => by
      simp only [stMs, maxAlign, Spec.alignMs]
      rw [stMs_align r, fieldSt_align, stTy_align t]
      cases k <;> simp [flagSize, Spec.flagSize]
  theorem stArms_align : (arms : List Arm) → maxAlign (stArms arms) = Spec.alignArms arms
    | [] => by simp [stArms, maxAlign, Spec.alignArms]
    | .mk _ _ t :: r => by
      simp only [stArms, maxAlign, Spec.alignArms]
      rw [stArms_align r, stTy_align t]
end

end Prophy.Py

namespace Prophy
open Prophy

/-! ### alignments are positive -/
mutual
  theorem Spec.alignTy_pos : (t : Ty) → 0 < Spec.alignTy t
    | .prim p => by cases p <;> simp [Spec.alignTy, Prim.size]
    | .byte => by simp [Spec.alignTy]
    | .enum _ _ => by simp [Spec.alignTy]
    | .struct _ ms => by simp only [Spec.alignTy]; exact Spec.alignMs_pos ms
    | .union _ arms => by simp only [Spec.alignTy, Spec.flagSize]; omega
  theorem Spec.alignMs_pos : (ms : List Member) → 0 < Spec.alignMs ms
    | [] => by simp [Spec.alignMs]
    | .mk _ t k :: r => by
      have := Spec.alignMs_pos r
      simp only [Spec.alignMs]; omega
end

theorem Spec.alignMember_pos (m : Member) : 0 < Spec.alignMember m := by
  obtain ⟨n, t, k⟩ := m
  have := Spec.alignTy_pos t
  unfold Spec.alignMember
  cases k <;> simp [Member.kind, Member.ty, Spec.flagSize] <;> omega

theorem Spec.alignMember_le_alignMs (n : String) (t : Ty) (k : MKind) (r : List Member) :
    Spec.alignMember (.mk n t k) ≤ Spec.alignMs (.mk n t k :: r) := by
  simp only [Spec.alignMs, Spec.alignMember, Member.kind, Member.ty]
  cases k <;> simp <;> omega

namespace Py

/-- the loop of get_padded_sizes as "final offset": off + Σ sizes + paddings -/
def finalOffset (fs : List St) (sa off : Nat) : Nat := off + sumSizes fs + paddings fs sa off

theorem finalOffset_nil (sa off : Nat) : finalOffset [] sa off = off := by simp [finalOffset, sumSizes, paddings]

theorem finalOffset_single (f : St) (sa off : Nat) :
    finalOffset [f] sa off = alignUp (off + f.size) sa := by
  simp [finalOffset, sumSizes, paddings, alignUp]

theorem finalOffset_cons (f g : St) (r : List St) (sa off : Nat) :
    finalOffset (f :: g :: r) sa off = finalOffset (g :: r) sa (alignUp (off + f.size) g.align) := by
  simp only [finalOffset, sumSizes, paddings, alignUp]; omega

end Py
end Prophy

namespace Prophy
open Prophy

/-! ### fixed types are not dynamic -/
theorem Spec.fixedMs_cons (n : String) (t : Ty) (k : MKind) (r : List Member) :
    Spec.fixedMs (.mk n t k :: r) = true ↔ k.isStatic = true ∧ Spec.fixedTy t = true ∧ Spec.fixedMs r = true := by
  simp [Spec.fixedMs, and_assoc]

mutual
  theorem Spec.dynTy_of_fixed : (t : Ty) → Spec.fixedTy t = true → Spec.dynTy t = false
    | .prim _, _ => rfl
    | .byte, _ => rfl
    | .enum _ _, _ => rfl
    | .union _ _, _ => rfl
    | .struct _ ms, h => by
      simp only [Spec.dynTy]
      exact Spec.dynMs_of_fixed ms (by simpa [Spec.fixedTy] using h)
  theorem Spec.dynMs_of_fixed : (ms : List Member) → Spec.fixedMs ms = true → Spec.dynMs ms = false
    | [], _ => rfl
    | .mk _ t k :: r, h => by
      obtain ⟨hk, ht', hr'⟩ := (Spec.fixedMs_cons _ t k r).1 h
      have hr := Spec.dynMs_of_fixed r hr'
      have ht := Spec.dynTy_of_fixed t ht'
      simp only [Spec.dynMs, hr, Bool.or_false]
      cases k <;> simp_all [MKind.isStatic]
end

theorem Spec.endsBlock_of_fixed (n : String) (t : Ty) (k : MKind) (r : List Member)
    (h : Spec.fixedMs (.mk n t k :: r) = true) : Spec.endsBlock (.mk n t k) = false := by
  obtain ⟨hk, ht', _⟩ := (Spec.fixedMs_cons n t k r).1 h
  have ht := Spec.dynTy_of_fixed t ht'
  unfold Spec.endsBlock
  cases k <;> simp_all [Member.kind, Member.ty, MKind.isStatic]

/-- the slot a member occupies in the static layout -/
def Spec.slot (t : Ty) : MKind → Nat
  | .plain => Spec.sizeTy t
  | .optional => max Spec.flagSize (Spec.alignTy t) + Spec.sizeTy t
  | .fixed c => c * Spec.sizeTy t
  | .limited _ c => c * Spec.sizeTy t
  | .dyn _ _ => 0
  | .greedy => 0

theorem Spec.endMs_cons (n : String) (t : Ty) (k : MKind) (r : List Member) (off : Nat) (ad : Bool) :
    Spec.endMs (.mk n t k :: r) off ad =
      Spec.endMs r (alignUp off (if ad then Spec.blockAlign (.mk n t k :: r) else Spec.alignMember (.mk n t k)) + Spec.slot t k)
        (Spec.endsBlock (.mk n t k)) := by
  simp only [Spec.endMs, Spec.slot]
  cases k <;> rfl

theorem Spec.endMs_alignUp (m : Member) (r : List Member) (x : Nat) :
    Spec.endMs (m :: r) (alignUp x (Spec.alignMember m)) false = Spec.endMs (m :: r) x false := by
  obtain ⟨n, t, k⟩ := m
  rw [Spec.endMs_cons, Spec.endMs_cons]
  simp only [Bool.false_eq_true, if_false]
  rw [alignUp_idem _ _ (Spec.alignMember_pos _)]

namespace Py

theorem fieldSt_size (s : St) (k : MKind) :
    (fieldSt s k).size = match k with
      | .plain => s.size
      | .optional => max flagSize s.align + s.size
      | .fixed c => c * s.size
      | .limited _ c => c * s.size
      | .dyn _ _ => 0
      | .greedy => 0 := by
  cases k <;> rfl

theorem fieldSt_align_member (n : String) (t : Ty) (k : MKind) :
    (fieldSt (stTy t) k).align = Spec.alignMember (.mk n t k) := by
  rw [fieldSt_align, stTy_align]
  unfold Spec.alignMember
  cases k <;> simp [Member.kind, Member.ty, flagSize, Spec.flagSize]

mutual
  /-- `_SIZE` of a generated class of fixed type is the documented static size -/
  theorem stTy_size_fixed : (t : Ty) → Spec.fixedTy t = true → (stTy t).size = Spec.sizeTy t
    | .prim _, _ => rfl
    | .byte, _ => rfl
    | .enum _ _, _ => rfl
    | .struct _ ms, h => by
      have hf : Spec.fixedMs ms = true := by simpa [Spec.fixedTy] using h
      simp only [stTy, structSt, Spec.sizeTy]
      rw [stMs_align]
      cases ms with
      | nil => simp [stMs, sumSizes, paddings, Spec.endMs, alignUp, padTo, Spec.alignMs]
      | cons m r =>
        have := stMs_layout (m :: r) hf (Spec.alignMs (m :: r)) 0 (by intro _ _ _; exact Nat.dvd_zero _) (by simp)
        simpa [finalOffset] using this
    | .union _ arms, h => by
      have hf : Spec.fixedArms arms = true := by simpa [Spec.fixedTy] using h
      simp only [stTy, unionSt, Spec.sizeTy, alignUp]
      rw [stArms_align, stArms_maxSize arms hf]
      simp [flagSize, Spec.flagSize]
  /-- the loop of get_padded_sizes reaches the documented end offset -/
  theorem stMs_layout : (ms : List Member) → Spec.fixedMs ms = true →
      ∀ (sa off : Nat), (∀ m r, ms = m :: r → Spec.alignMember m ∣ off) → ms ≠ [] →
      finalOffset (stMs ms) sa off = alignUp (Spec.endMs ms off false) sa
    | [], _, _, _, _, hne => absurd rfl hne
    | [.mk n t k], hf, sa, off, hd, _ => by
      have hd := hd _ _ rfl
      obtain ⟨hk, ht, _⟩ := (Spec.fixedMs_cons n t k []).1 hf
      have hs := stTy_size_fixed t ht
      have ha := stTy_align t
      simp only [stMs, finalOffset_single]
      rw [Spec.endMs_cons]
      simp only [Bool.false_eq_true, if_false, Spec.endMs]
      rw [alignUp_of_dvd off _ hd, fieldSt_size]
      cases k <;> simp_all [Spec.slot, flagSize, Spec.flagSize, MKind.isStatic]
    | .mk n t k :: .mk n' t' k' :: r', hf, sa, off, hd, _ => by
      have hd := hd _ _ rfl
      obtain ⟨hk, ht, hf'⟩ := (Spec.fixedMs_cons n t k (.mk n' t' k' :: r')).1 hf
      have hs := stTy_size_fixed t ht
      have ha := stTy_align t
      have hstep : stMs (.mk n t k :: .mk n' t' k' :: r') =
          fieldSt (stTy t) k :: fieldSt (stTy t') k' :: stMs r' := by simp [stMs]
      rw [hstep, finalOffset_cons, fieldSt_align_member n' t' k']
      have ih := stMs_layout (.mk n' t' k' :: r') hf' sa
        (alignUp (off + (fieldSt (stTy t) k).size) (Spec.alignMember (.mk n' t' k')))
        (by intro m r h; injection h with h1 h2; subst h1; exact dvd_alignUp _ _ (Spec.alignMember_pos _))
        (by simp)
      have hstep' : fieldSt (stTy t') k' :: stMs r' = stMs (.mk n' t' k' :: r') := by simp [stMs]
      rw [hstep', ih, Spec.endMs_alignUp]
      rw [Spec.endMs_cons n t k]
      simp only [Bool.false_eq_true, if_false]
      rw [alignUp_of_dvd off _ hd, Spec.endsBlock_of_fixed n t k _ hf]
      have hsz : (fieldSt (stTy t) k).size = Spec.slot t k := by
        rw [fieldSt_size]
        cases k <;> simp_all [Spec.slot, flagSize, Spec.flagSize, MKind.isStatic]
      rw [hsz]
  theorem stArms_maxSize : (arms : List Arm) → Spec.fixedArms arms = true → maxSize (stArms arms) = Spec.maxArm arms
    | [], _ => rfl
    | .mk _ _ t :: r, h => by
      have h' : Spec.fixedTy t = true ∧ Spec.fixedArms r = true := by simpa [Spec.fixedArms] using h
      simp only [stArms, maxSize, Spec.maxArm]
      rw [stTy_size_fixed t h'.1, stArms_maxSize r h'.2]
end

end Py
end Prophy

/- helper definitions and lemmas for the C++ decode-of-canonical-encoding theorem (C03) -/
import ProphyModel.Lemmas.PyRoundTrip
import ProphyModel.Lemmas.PLayoutSpec
import ProphyModel.Lemmas.CppDecodeSafe
namespace Prophy
open Prophy WF Accept

/-! ### the extra hypotheses of the theorem -/
namespace Cpp

/- no array has a shifted counter (`prophy.array(shift=)` exists only in hand-written Python
   descriptors; the C++ generator has no notion of it) -/
mutual
  def noShift : Ty → Bool
    | .struct _ ms => noShiftMs ms
    | .union _ arms => noShiftArms arms
    | _ => true
  def noShiftMs : List Member → Bool
    | [] => true
    | .mk _ t k :: r => (k.shift == 0) && noShift t && noShiftMs r
  def noShiftArms : List Arm → Bool
    | [] => true
    | .mk _ _ t :: r => noShift t && noShiftArms r
end

/- every `resize` the decoder will request is within `resizeLimit` elements: the length of every
   array that has a counter, and of every greedy array of fixed-size elements -/
mutual
  def resizeOkTy : Ty → Val → Bool
    | t, .present x => resizeOkTy t x
    | t, .arr xs => resizeOkElems t xs
    | .struct _ ms, .struct vs => resizeOkFields ms vs
    | .union _ arms, .union idx v =>
      (match arms[idx]? with
       | some (.mk _ _ t) => resizeOkTy t v
       | none => true)
    | _, _ => true
  def resizeOkFields : List Member → List Val → Bool
    | .mk _ t k :: r, v :: vs =>
      (match k with
       | .dyn _ _ => decide (v.len ≤ resizeLimit)
       | .limited _ _ => decide (v.len ≤ resizeLimit)
       | .greedy => decide (codecSize t < 0) || decide (v.len ≤ resizeLimit)
       | _ => true) && resizeOkTy t v && resizeOkFields r vs
    | _, _ => true
  def resizeOkElems : Ty → List Val → Bool
    | _, [] => true
    | t, x :: xs => resizeOkTy t x && resizeOkElems t xs
end

end Cpp

/-! ### scalars -/

theorem signed_roundtrip_p10 (p : Prim) (i : Int) (hr : inRange p i = true) :
    (if p.isSigned = true then toSigned p.size (toUnsigned p.size i) else ((toUnsigned p.size i : Nat) : Int)) = i := by
  simp only [inRange, Bool.and_eq_true, decide_eq_true_eq] at hr
  unfold Prophy.primRange at hr
  by_cases hf : p.isFloat = true
  · rw [Py.isSigned_of_float p hf]
    rw [hf] at hr
    simp only [if_true] at hr
    simp only [Bool.false_eq_true, if_false]
    rw [toUnsigned_nonneg p.size i hr.1 hr.2]
  · have hf' : p.isFloat = false := by simpa using hf
    rw [hf'] at hr
    simp only [Bool.false_eq_true, if_false] at hr
    by_cases hs : p.isSigned = true
    · rw [hs] at hr
      simp only [if_true] at hr
      simp only [hs, if_true]
      rw [toSigned_toUnsigned p.size i hr.1 hr.2 (Py.size_pos p)]
    · have hs' : p.isSigned = false := by simpa using hs
      rw [hs'] at hr
      simp only [Bool.false_eq_true, if_false] at hr
      simp only [hs', Bool.false_eq_true, if_false]
      rw [toUnsigned_nonneg p.size i hr.1 hr.2]

/-- the C++ scalar decoder reads back a `k`-byte scalar chunk at any position -/
theorem Cpp.decScalar_at_p10 (e : Endian) (k n : Nat) (signed : Bool) (data pre post : Bytes) (pos : Nat)
    (rs : List Nat) (hd : data = pre ++ (scalarBytes e k n ++ post)) (hp : pre.length = pos) (hn : n < 256 ^ k) :
    Cpp.decScalar e k signed data pos rs =
      .ok (if signed = true then toSigned k n else (n : Int)) (pos + k) rs := by
  have hlen : (scalarBytes e k n).length = k := scalarBytes_length e k n
  have hsize : data.length = pos + k + post.length := by
    rw [hd, ← hp]; simp [hlen]; omega
  unfold Cpp.decScalar
  have hrem : Cpp.remaining data.length pos = k + post.length := by
    rw [hsize]; unfold Cpp.remaining; rw [if_pos (by omega)]; omega
  rw [hrem, if_neg (by omega)]
  have hfit : pos + k ≤ data.length := by omega
  have hs : (data.drop pos).take k = scalarBytes e k n := by
    have := Py.slice_at data pre (scalarBytes e k n) post pos hd hp
    rw [hlen] at this
    simpa [Py.slice] using this
  simp only [Cpp.readScalar, hfit, if_true, hs, scalarVal_scalarBytes, Nat.mod_eq_of_lt hn]

theorem Cpp.remaining_le_p10 {size pos : Nat} (h : pos ≤ size) : Cpp.remaining size pos = size - pos := by
  simp [Cpp.remaining, h]

theorem Cpp.advance_ok_p10 (n size pos : Nat) (rs : List Nat) (h : pos + n ≤ size) :
    Cpp.advance n size pos rs = .ok () (pos + n) rs := by
  unfold Cpp.advance
  rw [Cpp.remaining_le_p10 (by omega), if_neg (by omega)]

/-- position reached by a padding statement -/
def Cpp.applyPad (p : Int) (off1 : Nat) : Nat := if p < 0 then off1 + padTo off1 p.natAbs else off1 + p.toNat

theorem Cpp.padStep_ok_p10 (p : Int) (size pos : Nat) (rs : List Nat) (h : Cpp.applyPad p pos ≤ size) :
    Cpp.padStep p size pos rs = .ok () (Cpp.applyPad p pos) rs := by
  unfold Cpp.padStep
  by_cases h1 : p < 0
  · have ha : Cpp.applyPad p pos = pos + padTo pos p.natAbs := by simp [Cpp.applyPad, h1]
    rw [ha] at h ⊢
    rw [if_pos h1]
    unfold Cpp.alignStep
    simp only
    rw [if_neg (by omega)]
  · have ha : Cpp.applyPad p pos = pos + p.toNat := by simp [Cpp.applyPad, h1]
    rw [ha] at h ⊢
    rw [if_neg h1]
    by_cases h2 : p > 0
    · rw [if_pos h2]
      exact Cpp.advance_ok_p10 _ _ _ _ h
    · rw [if_neg h2]
      have : p = 0 := by omega
      subst this
      simp

/-! ### union arms -/
theorem Cpp.decArms_pick_p10 (e : Endian) (data : Bytes) (p : Nat) (rs : List Nat) (d : Nat) (an : String) (t' : Ty) :
    (arms : List Arm) → ∀ (idx0 idx : Nat), arms[idx]? = some (.mk an d t') →
    (∀ (j : Nat) (b : Arm), j < idx → arms[j]? = some b → b.disc ≠ d) →
    Cpp.decArms e arms (d : Int) data p rs idx0 =
      (match Cpp.decTy e t' data p rs with
        | (.ok v pos1 rs1, _) => .ok (idx0 + idx, v) pos1 rs1
        | (.fail rs1, _) => .fail rs1
        | (.fault, _) => .fault
        | (.throw rs1, _) => .throw rs1)
  | [], _, idx, h, _ => by simp at h
  | .mk n0 d0 t0 :: r, idx0, idx, h, hne => by
    cases idx with
    | zero =>
      simp at h
      obtain ⟨_, rfl, rfl⟩ := h
      rw [Cpp.decArms, if_pos rfl]
      rfl
    | succ i =>
      simp at h
      have h0 : d0 ≠ d := hne 0 (.mk n0 d0 t0) (by omega) (by simp)
      have h0' : ¬ ((d0 : Int) = (d : Int)) := by omega
      rw [Cpp.decArms, if_neg h0']
      rw [Cpp.decArms_pick_p10 e data p rs d an t' r (idx0 + 1) i h
        (fun j b hj hb => hne (j + 1) b (by omega) (by simpa using hb))]
      have : idx0 + 1 + i = idx0 + (i + 1) := by omega
      rw [this]


/-! ### the layout list `PL.structMembers`, member by member -/
namespace PL
open Accept

/-- the (size, alignment, padding) entries of a member `cur` and the members `rest` after it -/
def lsFrom (A : Nat) (d : Bool) (cur : Mem) (rest : List Mem) (bs : Nat) : List (Nat × Nat × Int) :=
  ((cur :: rest).zip (padsFrom A d cur rest bs)).map (fun (m, p) => (m.size, m.align, p))

theorem lsFrom_nil (A : Nat) (d : Bool) (cur : Mem) (bs : Nat) :
    lsFrom A d cur [] bs = [(cur.size, cur.align, plastOf A d cur bs)] := rfl

theorem lsFrom_cons (A : Nat) (d : Bool) (cur m : Mem) (r : List Mem) (bs : Nat) :
    lsFrom A d cur (m :: r) bs =
      (cur.size, cur.align,
        (if (isMemberDynamic cur && decide (cur.align < m.align)) = true then -(m.align : Int) else (padTo bs m.align : Int)))
        :: lsFrom A d m r (bs + m.size + padTo bs m.align) := rfl

theorem structMembers_eq_p10 (n : String) (t : Ty) (k : MKind) (r : List Member)
    (hf : frontMs (.mk n t k :: r) (.mk n t k :: r) [] = true) :
    structMembers (.mk n t k :: r) =
      lsFrom (Spec.alignMs (.mk n t k :: r)) ((memsOf (.mk n t k :: r)).any isMemberDynamic)
        (curMem false n t k r) (bump (memsOf r) (endsPart (memOf (nodeTy t) k))) (0 + (memOf (nodeTy t) k).size) := by
  have hb := bump_memsOf_cons (.mk n t k :: r) [] n t k r false hf
  have hA : maxAlign (bump (memsOf (.mk n t k :: r)) false) = Spec.alignMs (.mk n t k :: r) := by
    rw [maxAlign_bump, memsOf_align _ (by simp)]
  have hd : (bump (memsOf (.mk n t k :: r)) false).any isMemberDynamic = (memsOf (.mk n t k :: r)).any isMemberDynamic :=
    any_bump _ _
  show ((bump (memsOf (.mk n t k :: r)) false).zip (structSize (bump (memsOf (.mk n t k :: r)) false)).2.2).map _ = _
  rw [hb] at hA hd ⊢
  rw [structSize_pads, hA, hd, padTo_zero, Nat.add_zero, Nat.zero_add]
  rfl

/-- one padding statement between two members brings the reader from the end of the first member's own
    bytes to the start of the next member's own bytes in the canonical layout (the step of `PL.walk`) -/
theorem step_p10 (all allF : List Member) (n : String) (t : Ty) (k : MKind) (v : Val)
    (n' : String) (t' : Ty) (k' : MKind) (r' : List Member) (before : List Member) (first pd : Bool) (off st : Nat)
    (hf : frontMs allF (.mk n t k :: .mk n' t' k' :: r') before = true)
    (hfd : hasField all k t v = true)
    (hi1 : pd = false → off = st)
    (hi2 : off % Spec.blockAlign (.mk n t k :: .mk n' t' k' :: r') = st % Spec.blockAlign (.mk n t k :: .mk n' t' k' :: r'))
    (hi3 : Spec.alignMember (.mk n t k) ∣ off)
    (hi4 : (curMem first n t k (.mk n' t' k' :: r')).align ∣ st) :
    Cpp.applyPad
        (if (isMemberDynamic (curMem first n t k (.mk n' t' k' :: r')) &&
              decide ((curMem first n t k (.mk n' t' k' :: r')).align <
                (curMem (Spec.endsBlock (.mk n t k)) n' t' k' r').align)) = true
          then -((curMem (Spec.endsBlock (.mk n t k)) n' t' k' r').align : Int)
          else (padTo (st + (memOf (nodeTy t) k).size) (curMem (Spec.endsBlock (.mk n t k)) n' t' k' r').align : Int))
        (off + Spec.memberLen t k v)
      = alignUp (off + Spec.memberLen t k v) (curMem (Spec.endsBlock (.mk n t k)) n' t' k' r').align ∧
    ((pd || Spec.endsBlock (.mk n t k)) = false →
      alignUp (off + Spec.memberLen t k v) (curMem (Spec.endsBlock (.mk n t k)) n' t' k' r').align =
      alignUp (st + (memOf (nodeTy t) k).size) (curMem (Spec.endsBlock (.mk n t k)) n' t' k' r').align) ∧
    (alignUp (off + Spec.memberLen t k v) (curMem (Spec.endsBlock (.mk n t k)) n' t' k' r').align
        % Spec.blockAlign (.mk n' t' k' :: r') =
      alignUp (st + (memOf (nodeTy t) k).size) (curMem (Spec.endsBlock (.mk n t k)) n' t' k' r').align
        % Spec.blockAlign (.mk n' t' k' :: r')) ∧
    Spec.alignMember (.mk n' t' k') ∣
      alignUp (off + Spec.memberLen t k v) (curMem (Spec.endsBlock (.mk n t k)) n' t' k' r').align := by
  obtain ⟨ht, ho, hs, ha, hl, hr⟩ := frontMs_cons_playou allF n t k (.mk n' t' k' :: r') before hf
  obtain ⟨_, hk2⟩ := hl (by simp)
  have hep := endsPart_memOf n t k ht ho hs hk2
  have hmd := isMemberDynamic_memOf t k ht hk2
  rw [hep] at hmd
  have hdcur : isMemberDynamic (curMem first n t k (.mk n' t' k' :: r')) = Spec.endsBlock (.mk n t k) := hmd
  have hc2a : (curMem (Spec.endsBlock (.mk n t k)) n' t' k' r').align =
      if Spec.endsBlock (.mk n t k) = true then Spec.blockAlign (.mk n' t' k' :: r')
      else Spec.alignMember (.mk n' t' k') := rfl
  unfold Cpp.applyPad
  rw [hdcur]
  have hB2 := Spec.blockAlign_isAl (.mk n' t' k' :: r')
  have ha2B2 := Spec.alignMember_dvd_blockAlign (.mk n' t' k') r'
  cases heb : Spec.endsBlock (.mk n t k) with
  | true =>
    rw [heb] at hc2a hmd
    simp only [if_true] at hc2a
    have hca : (curMem first n t k (.mk n' t' k' :: r')).align = Spec.alignMember (.mk n t k) := by
      cases first <;> simp [curMem, Spec.blockAlign, heb]
    rw [hca] at hi4 ⊢
    rw [hc2a]
    obtain ⟨hdl, hdz⟩ := dvd_dynamic all n t k v ht ho hs hmd hfd
    have hdo := dvd_alignUp (off + Spec.memberLen t k v) _ hB2.pos
    have hds := dvd_alignUp (st + (memOf (nodeTy t) k).size) _ hB2.pos
    refine ⟨?_, by simp, ?_, Nat.dvd_trans ha2B2 hdo⟩
    · simp only [Bool.true_and, decide_eq_true_eq]
      by_cases hlt : Spec.alignMember (.mk n t k) < Spec.blockAlign (.mk n' t' k' :: r')
      · simp only [if_pos hlt]
        rw [step_neg _ _ hB2.pos]; rfl
      · simp only [if_neg hlt]
        have hdv : Spec.blockAlign (.mk n' t' k' :: r') ∣ Spec.alignMember (.mk n t k) :=
          IsAl.dvd_of_le hB2 (Spec.alignMember_isAl _) (by omega)
        rw [step_nonneg]
        unfold alignUp
        rw [padTo_eq_zero_of_dvd _ _ (Nat.dvd_trans hdv (Nat.dvd_add hi3 hdl)),
          padTo_eq_zero_of_dvd _ _ (Nat.dvd_trans hdv (Nat.dvd_add hi4 hdz))]
    · rw [Nat.mod_eq_zero_of_dvd hdo, Nat.mod_eq_zero_of_dvd hds]
  | false =>
    rw [heb] at hc2a hmd
    simp only [Bool.false_eq_true, if_false] at hc2a
    rw [hc2a]
    have hlen := memberLen_static all t k v ht hmd hfd
    have hBB : Spec.blockAlign (.mk n' t' k' :: r') ∣ Spec.blockAlign (.mk n t k :: .mk n' t' k' :: r') := by
      rw [show Spec.blockAlign (.mk n t k :: .mk n' t' k' :: r') =
        max (Spec.alignMember (.mk n t k)) (Spec.blockAlign (.mk n' t' k' :: r')) by
          simp [Spec.blockAlign, heb]]
      exact IsAl.dvd_max_right (Spec.alignMember_isAl _) hB2
    have hm2 : (off + Spec.memberLen t k v) % Spec.blockAlign (.mk n' t' k' :: r') =
        (st + (memOf (nodeTy t) k).size) % Spec.blockAlign (.mk n' t' k' :: r') := by
      rw [hlen]
      exact mod_add_congr _ _ _ _ (mod_of_dvd _ _ _ _ hBB hi2)
    have hpe := padTo_congr (Spec.alignMember (.mk n' t' k')) _ _ (mod_of_dvd _ _ _ _ ha2B2 hm2)
    refine ⟨?_, ?_, ?_, dvd_alignUp _ _ (Spec.alignMember_pos _)⟩
    · simp only [Bool.false_and, Bool.false_eq_true, if_false]
      rw [step_nonneg]
      unfold alignUp
      rw [hpe]
    · intro hpd
      have : pd = false := by simpa using hpd
      rw [hi1 this, hlen]
    · unfold alignUp
      rw [hpe]
      exact mod_add_congr _ _ _ _ hm2

/-- the padding statement of the last member brings the reader to the end of the struct -/
theorem last_p10 (A : Nat) (hA : IsAl A) (d : Bool) (all allF : List Member) (allv : List Val)
    (n : String) (t : Ty) (k : MKind) (v : Val) (before : List Member) (first pd : Bool) (off st : Nat)
    (hf : frontMs allF [.mk n t k] before = true)
    (hh : hasMs all [.mk n t k] [v] = true)
    (hAle : Spec.alignMs [.mk n t k] ≤ A)
    (hd : d = (pd || (memsOf [.mk n t k]).any isMemberDynamic))
    (hi1 : pd = false → off = st)
    (hi2 : off % Spec.blockAlign [.mk n t k] = st % Spec.blockAlign [.mk n t k])
    (hi3 : Spec.alignMember (.mk n t k) ∣ off)
    (hi4 : (curMem first n t k []).align ∣ st) :
    Cpp.applyPad (plastOf A d (curMem first n t k []) (st + (memOf (nodeTy t) k).size)) (off + Spec.memberLen t k v)
      = alignUp (off + Spec.memberLen t k v) A := by
  have hw := walk A hA d all allF allv [] n t k v [] before first pd off st hf hh hAle hd hi1 hi2 hi3 hi4
  rw [Spec.memberLens_cons] at hw
  simpa only [memsOf, bump, padsFrom, lengthByPaddings_cons, lengthByPaddings_nil_right, Spec.specEnd,
    Cpp.applyPad] using hw

end PL

end Prophy

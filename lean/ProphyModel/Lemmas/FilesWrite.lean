/-
  Lemmas about `FilesW` (model of `prophyc.generators.base.write_files`):
  extensional descriptions of `openAll`, `openAllUndo`, `writeAll`, `cleanup`, and of `writeFiles`.
-/
import ProphyModel.FilesW

namespace Prophy.FilesW

/-- the identities of the targets that can be opened -/
abbrev idents (ts : List Target) : List Ident := ts.filterMap (·.node)

theorem mem_idents_fw {ts : List Target} {i : Ident} : i ∈ idents ts ↔ ∃ t ∈ ts, t.node = some i := by
  simp [idents, List.mem_filterMap]

theorem idents_cons_none_fw {t : Target} {ts : List Target} (h : t.node = none) :
    idents (t :: ts) = idents ts := by
  simp [idents, h]

theorem idents_cons_some_fw {t : Target} {ts : List Target} {i : Ident} (h : t.node = some i) :
    idents (t :: ts) = i :: idents ts := by
  simp [idents, h]

theorem set_same_fw (fs : FS) (i : Ident) (v : Option Bytes) : fs.set i v i = v := by
  simp [FS.set]

theorem set_other_fw (fs : FS) (i j : Ident) (v : Option Bytes) (h : j ≠ i) : fs.set i v j = fs j := by
  simp [FS.set, h]

/-! ### unfolding lemmas -/

theorem openAll_cons_none_fw {t : Target} (h : t.node = none) (fs : FS) (created seen : List Ident)
    (ts : List Target) : openAll fs created seen (t :: ts) = none := by
  simp only [openAll, h]

theorem openAll_cons_some_fw {t : Target} {i : Ident} (h : t.node = some i) (fs : FS)
    (created seen : List Ident) (ts : List Target) :
    openAll fs created seen (t :: ts) =
      if seen.contains i then none
      else openAll (if (fs i).isSome then fs else fs.set i (some []))
             (if (fs i).isSome then created else i :: created) (i :: seen) ts := by
  simp only [openAll, h]

theorem openAllUndo_cons_none_fw {t : Target} (h : t.node = none) (fs : FS) (created seen : List Ident)
    (ts : List Target) :
    openAllUndo fs created seen (t :: ts) = created.foldl (fun f i => f.set i none) fs := by
  simp only [openAllUndo, h]

theorem openAllUndo_cons_some_fw {t : Target} {i : Ident} (h : t.node = some i) (fs : FS)
    (created seen : List Ident) (ts : List Target) :
    openAllUndo fs created seen (t :: ts) =
      if seen.contains i then
        (if (fs i).isSome then created else i :: created).foldl (fun f i => f.set i none)
          (if (fs i).isSome then fs else fs.set i (some []))
      else openAllUndo (if (fs i).isSome then fs else fs.set i (some []))
             (if (fs i).isSome then created else i :: created) (i :: seen) ts := by
  simp only [openAllUndo, h]

theorem writeAll_cons_none_fw {t : Target} (h : t.node = none) (full : Ident → Bool) (fs : FS)
    (ts : List Target) : writeAll full fs (t :: ts) = none := by
  simp only [writeAll, h]

theorem writeAll_cons_some_fw {t : Target} {i : Ident} (h : t.node = some i) (full : Ident → Bool) (fs : FS)
    (ts : List Target) :
    writeAll full fs (t :: ts) = if full i then none else writeAll full (fs.set i (some t.data)) ts := by
  simp only [writeAll, h]

theorem cleanup_cons_none_fw {t : Target} (h : t.node = none) (created : List Ident) (fs : FS)
    (ts : List Target) : cleanup created fs (t :: ts) = cleanup created fs ts := by
  simp only [cleanup, h]

theorem cleanup_cons_some_fw {t : Target} {i : Ident} (h : t.node = some i) (created : List Ident) (fs : FS)
    (ts : List Target) :
    cleanup created fs (t :: ts) =
      cleanup created (fs.set i (if created.contains i then none else some [])) ts := by
  simp only [cleanup, h]

/-! ### phase 1: the decision -/

theorem openAll_isSome_iff_fw (ts : List Target) : ∀ (fs : FS) (created seen : List Ident),
    (openAll fs created seen ts).isSome = true ↔
      (∀ t ∈ ts, t.node.isSome = true) ∧ (idents ts).Nodup ∧ ∀ i ∈ idents ts, i ∉ seen := by
  induction ts with
  | nil => intro fs created seen; simp [openAll, idents]
  | cons t ts ih =>
    intro fs created seen
    cases h : t.node with
    | none =>
      rw [openAll_cons_none_fw h]
      simp [h]
    | some i =>
      rw [openAll_cons_some_fw h, idents_cons_some_fw h]
      by_cases hs : i ∈ seen
      · simp [hs]
      · have hc : seen.contains i = false := by simp [hs]
        rw [hc]
        simp only [Bool.false_eq_true, if_false]
        rw [ih]
        simp only [List.mem_cons, List.nodup_cons, forall_eq_or_imp, h, Option.isSome_some, true_and]
        constructor
        · rintro ⟨h1, h2, h3⟩
          refine ⟨h1, ⟨?_, h2⟩, hs, ?_⟩
          · intro hi; exact (h3 i hi) (Or.inl rfl)
          · intro j hj hjs; exact (h3 j hj) (Or.inr hjs)
        · rintro ⟨h1, ⟨h2, h3⟩, _, h5⟩
          refine ⟨h1, h3, ?_⟩
          intro j hj hjs
          rcases hjs with rfl | hjs
          · exact h2 hj
          · exact h5 j hj hjs

/-! ### phase 1: the state -/

theorem openAll_spec_fw (ts : List Target) : ∀ (fs : FS) (created seen : List Ident) (fs' : FS)
    (created' : List Ident), openAll fs created seen ts = some (fs', created') →
    ∀ j, fs' j = (if j ∈ idents ts ∧ fs j = none then some [] else fs j) ∧
         (j ∈ created' ↔ j ∈ created ∨ (j ∈ idents ts ∧ fs j = none)) := by
  induction ts with
  | nil =>
    intro fs created seen fs' created' h j
    simp only [openAll, Option.some.injEq, Prod.mk.injEq] at h
    obtain ⟨rfl, rfl⟩ := h
    simp [idents]
  | cons t ts ih =>
    intro fs created seen fs' created' h j
    cases hn : t.node with
    | none => rw [openAll_cons_none_fw hn] at h; cases h
    | some i =>
      rw [openAll_cons_some_fw hn] at h
      rw [idents_cons_some_fw hn]
      by_cases hc : seen.contains i = true
      · rw [if_pos hc] at h; cases h
      · rw [if_neg hc] at h
        have := ih _ _ _ _ _ h j
        by_cases he : (fs i).isSome = true
        · simp only [he, if_true] at this
          obtain ⟨a, b⟩ := this
          have hne : fs i ≠ none := by
            intro h0; rw [h0] at he; cases he
          by_cases hji : j = i
          · subst hji
            simp [a, b, hne]
          · simp [a, b, hji]
        · simp only [he] at this
          obtain ⟨a, b⟩ := this
          have h0 : fs i = none := by
            cases hfi : fs i with
            | none => rfl
            | some x => rw [hfi] at he; simp at he
          by_cases hji : j = i
          · subst hji
            simp [a, b, h0, set_same_fw]
          · simp [a, b, hji, set_other_fw _ _ _ _ hji]

/-! ### phase 1 undone -/

theorem foldl_unset_fw (created : List Ident) : ∀ (fs : FS) (j : Ident),
    created.foldl (fun f i => f.set i none) fs j = if j ∈ created then none else fs j := by
  induction created with
  | nil => intro fs j; simp
  | cons c cs ih =>
    intro fs j
    rw [List.foldl_cons, ih]
    by_cases h1 : j ∈ cs
    · simp [h1]
    · by_cases h2 : j = c
      · subst h2; simp [set_same_fw]
      · simp [h1, h2, set_other_fw _ _ _ _ h2]

/-- `fs` is `fs0` after the creations `created` -/
def UndoInv (fs0 fs : FS) (created : List Ident) : Prop :=
  ∀ j, (j ∈ created → fs0 j = none) ∧ (j ∉ created → fs j = fs0 j)

theorem undoInv_fold_fw {fs0 fs : FS} {created : List Ident} (h : UndoInv fs0 fs created) (j : Ident) :
    created.foldl (fun f i => f.set i none) fs j = fs0 j := by
  rw [foldl_unset_fw]
  by_cases hj : j ∈ created
  · rw [if_pos hj, (h j).1 hj]
  · rw [if_neg hj, (h j).2 hj]

theorem undoInv_step_fw {fs0 fs : FS} {created : List Ident} (h : UndoInv fs0 fs created) (i : Ident) :
    UndoInv fs0 (if (fs i).isSome then fs else fs.set i (some []))
      (if (fs i).isSome then created else i :: created) := by
  by_cases he : (fs i).isSome = true
  · simp only [he, if_true]; exact h
  · rw [if_neg he, if_neg he]
    have h0 : fs i = none := by
      cases hfi : fs i with
      | none => rfl
      | some x => rw [hfi] at he; simp at he
    intro j
    constructor
    · intro hj
      rcases List.mem_cons.1 hj with rfl | hj
      · by_cases hjc : j ∈ created
        · exact (h j).1 hjc
        · rw [← (h j).2 hjc]; exact h0
      · exact (h j).1 hj
    · intro hj
      have hji : j ≠ i := fun e => hj (by rw [e]; exact List.mem_cons_self)
      have hjc : j ∉ created := fun e => hj (List.mem_cons_of_mem _ e)
      rw [set_other_fw _ _ _ _ hji]
      exact (h j).2 hjc

/-- the undo of phase 1 always gives the file system of the start -/
theorem openAllUndo_restores_fw (ts : List Target) : ∀ (fs0 fs : FS) (created seen : List Ident),
    UndoInv fs0 fs created → ∀ j, openAllUndo fs created seen ts j = fs0 j := by
  induction ts with
  | nil =>
    intro fs0 fs created seen h j
    simp only [openAllUndo]
    exact undoInv_fold_fw h j
  | cons t ts ih =>
    intro fs0 fs created seen h j
    cases hn : t.node with
    | none =>
      rw [openAllUndo_cons_none_fw hn]
      exact undoInv_fold_fw h j
    | some i =>
      rw [openAllUndo_cons_some_fw hn]
      have hstep := undoInv_step_fw h i
      by_cases hc : seen.contains i = true
      · rw [if_pos hc]
        exact undoInv_fold_fw hstep j
      · rw [if_neg hc]
        exact ih _ _ _ _ hstep j

theorem undoInv_init_fw (fs : FS) : UndoInv fs fs [] := by
  intro j; simp

/-! ### phase 2 -/

theorem writeAll_isSome_iff_fw (full : Ident → Bool) (ts : List Target) : ∀ (fs : FS),
    (writeAll full fs ts).isSome = true ↔
      (∀ t ∈ ts, t.node.isSome = true) ∧ (∀ t ∈ ts, ∀ i, t.node = some i → full i = false) := by
  induction ts with
  | nil => intro fs; simp [writeAll]
  | cons t ts ih =>
    intro fs
    cases h : t.node with
    | none => rw [writeAll_cons_none_fw h]; simp [h]
    | some i =>
      rw [writeAll_cons_some_fw h]
      by_cases hf : full i = true
      · simp [hf, h]
      · have hf' : full i = false := by simpa using hf
        rw [if_neg hf, ih]
        simp [h, hf']

theorem writeAll_spec_fw (full : Ident → Bool) (ts : List Target) : ∀ (fs fs2 : FS),
    writeAll full fs ts = some fs2 → (idents ts).Nodup →
    (∀ t ∈ ts, ∀ i, t.node = some i → fs2 i = some t.data) ∧
    (∀ i, i ∉ idents ts → fs2 i = fs i) := by
  induction ts with
  | nil =>
    intro fs fs2 h _
    simp only [writeAll, Option.some.injEq] at h
    subst h
    simp
  | cons t ts ih =>
    intro fs fs2 h hnd
    cases hn : t.node with
    | none => rw [writeAll_cons_none_fw hn] at h; cases h
    | some i =>
      rw [writeAll_cons_some_fw hn] at h
      rw [idents_cons_some_fw hn] at hnd ⊢
      by_cases hf : full i = true
      · rw [if_pos hf] at h; cases h
      · rw [if_neg hf] at h
        obtain ⟨hi, hnd'⟩ := List.nodup_cons.1 hnd
        obtain ⟨a, b⟩ := ih _ _ h hnd'
        constructor
        · intro t' ht' i' hi'
          rcases List.mem_cons.1 ht' with rfl | ht'
          · rw [hn] at hi'
            cases hi'
            rw [b i hi, set_same_fw]
          · exact a t' ht' i' hi'
        · intro j hj
          have hji : j ≠ i := fun e => hj (by rw [e]; exact List.mem_cons_self)
          have hjt : j ∉ idents ts := fun e => hj (List.mem_cons_of_mem _ e)
          rw [b j hjt, set_other_fw _ _ _ _ hji]

/-! ### the clean-up of phase 2 -/

theorem cleanup_spec_fw (created : List Ident) (ts : List Target) : ∀ (fs : FS) (j : Ident),
    cleanup created fs ts j =
      if j ∈ idents ts then (if j ∈ created then none else some []) else fs j := by
  induction ts with
  | nil => intro fs j; simp [cleanup, idents]
  | cons t ts ih =>
    intro fs j
    cases hn : t.node with
    | none => rw [cleanup_cons_none_fw hn, idents_cons_none_fw hn, ih]
    | some i =>
      rw [cleanup_cons_some_fw hn, idents_cons_some_fw hn, ih]
      by_cases h1 : j ∈ idents ts
      · simp [h1]
      · by_cases h2 : j = i
        · subst h2; simp [h1, set_same_fw]
        · simp [h1, h2, set_other_fw _ _ _ _ h2]

/-! ### write_files -/

/-- the three conditions of success -/
def OpenOK (ts : List Target) : Prop := (∀ t ∈ ts, t.node.isSome = true) ∧ (idents ts).Nodup

def WriteOK (full : Ident → Bool) (ts : List Target) : Prop :=
  ∀ t ∈ ts, ∀ i, t.node = some i → full i = false

theorem openAll_none_iff_fw (fs : FS) (ts : List Target) : openAll fs [] [] ts = none ↔ ¬ OpenOK ts := by
  have := openAll_isSome_iff_fw ts fs [] []
  unfold OpenOK
  cases h : openAll fs [] [] ts with
  | none =>
    rw [h] at this
    simp only [Option.isSome_none, Bool.false_eq_true, false_iff] at this
    simp only [true_iff]
    intro ⟨a, b⟩
    exact this ⟨a, b, by simp⟩
  | some p =>
    rw [h] at this
    simp only [Option.isSome_some, true_iff] at this
    simp only [reduceCtorEq, false_iff, Classical.not_not]
    exact ⟨this.1, this.2.1⟩

theorem writeAll_none_iff_fw (full : Ident → Bool) (fs : FS) (ts : List Target)
    (hopen : ∀ t ∈ ts, t.node.isSome = true) : writeAll full fs ts = none ↔ ¬ WriteOK full ts := by
  have := writeAll_isSome_iff_fw full ts fs
  unfold WriteOK
  cases h : writeAll full fs ts with
  | none =>
    rw [h] at this
    simp only [Option.isSome_none, Bool.false_eq_true, false_iff] at this
    simp only [true_iff]
    intro a
    exact this ⟨hopen, a⟩
  | some p =>
    rw [h] at this
    simp only [Option.isSome_some, true_iff] at this
    simp only [reduceCtorEq, false_iff, Classical.not_not]
    exact this.2

/-- phase 1 fails: not ok, everything as before -/
theorem writeFiles_open_fail_fw (full : Ident → Bool) (fs : FS) (ts : List Target)
    (h : openAll fs [] [] ts = none) :
    (writeFiles full fs ts).ok = false ∧ ∀ i, (writeFiles full fs ts).fs i = fs i := by
  unfold writeFiles
  rw [h]
  exact ⟨rfl, fun i => openAllUndo_restores_fw ts fs fs [] [] (undoInv_init_fw fs) i⟩

/-- phase 2 fails: not ok; the targets that existed are empty, the others are gone, nothing else changed -/
theorem writeFiles_write_fail_fw (full : Ident → Bool) (fs : FS) (ts : List Target)
    (ho : OpenOK ts) (hw : ¬ WriteOK full ts) :
    (writeFiles full fs ts).ok = false ∧
    ∀ i, (writeFiles full fs ts).fs i =
      if i ∈ idents ts then (if fs i = none then none else some []) else fs i := by
  cases h1 : openAll fs [] [] ts with
  | none => exact absurd ho ((openAll_none_iff_fw fs ts).1 h1)
  | some p =>
    obtain ⟨fs1, created⟩ := p
    have h2 : writeAll full fs1 ts = none := (writeAll_none_iff_fw full fs1 ts ho.1).2 hw
    unfold writeFiles
    rw [h1]
    simp only [h2]
    refine ⟨by trivial, ?_⟩
    intro i
    rw [cleanup_spec_fw]
    obtain ⟨a, b⟩ := openAll_spec_fw ts fs [] [] fs1 created h1 i
    by_cases hi : i ∈ idents ts
    · by_cases h0 : fs i = none
      · have : i ∈ created := b.2 (Or.inr ⟨hi, h0⟩)
        simp [hi, h0, this]
      · have : i ∉ created := by
          intro hc
          rcases b.1 hc with hc | hc
          · cases hc
          · exact h0 hc.2
        simp [hi, h0, this]
    · simp [hi, a]

/-- success: ok; every target holds its text, nothing else changed -/
theorem writeFiles_success_fw (full : Ident → Bool) (fs : FS) (ts : List Target)
    (ho : OpenOK ts) (hw : WriteOK full ts) :
    (writeFiles full fs ts).ok = true ∧
    (∀ t ∈ ts, ∀ i, t.node = some i → (writeFiles full fs ts).fs i = some t.data) ∧
    (∀ i, i ∉ idents ts → (writeFiles full fs ts).fs i = fs i) := by
  cases h1 : openAll fs [] [] ts with
  | none => exact absurd ho ((openAll_none_iff_fw fs ts).1 h1)
  | some p =>
    obtain ⟨fs1, created⟩ := p
    cases h2 : writeAll full fs1 ts with
    | none => exact absurd hw ((writeAll_none_iff_fw full fs1 ts ho.1).1 h2)
    | some fs2 =>
      unfold writeFiles
      rw [h1]
      simp only [h2]
      obtain ⟨a, b⟩ := writeAll_spec_fw full ts fs1 fs2 h2 ho.2
      refine ⟨by trivial, a, ?_⟩
      intro i hi
      rw [b i hi]
      have := (openAll_spec_fw ts fs [] [] fs1 created h1 i).1
      rw [this]
      simp [hi]

theorem writeFiles_ok_iff_fw (full : Ident → Bool) (fs : FS) (ts : List Target) :
    (writeFiles full fs ts).ok = true ↔ OpenOK ts ∧ WriteOK full ts := by
  by_cases ho : OpenOK ts
  · by_cases hw : WriteOK full ts
    · simp [ho, hw, (writeFiles_success_fw full fs ts ho hw).1]
    · simp [ho, hw, (writeFiles_write_fail_fw full fs ts ho hw).1]
  · have := (writeFiles_open_fail_fw full fs ts ((openAll_none_iff_fw fs ts).2 ho)).1
    simp [ho, this]

theorem OpenOK_perm_fw {ts₁ ts₂ : List Target} (h : ts₁.Perm ts₂) : OpenOK ts₁ ↔ OpenOK ts₂ := by
  unfold OpenOK
  have hp : (idents ts₁).Perm (idents ts₂) := h.filterMap _
  rw [hp.nodup_iff]
  constructor
  · rintro ⟨a, b⟩; exact ⟨fun t ht => a t (h.mem_iff.2 ht), b⟩
  · rintro ⟨a, b⟩; exact ⟨fun t ht => a t (h.mem_iff.1 ht), b⟩

theorem WriteOK_perm_fw (full : Ident → Bool) {ts₁ ts₂ : List Target} (h : ts₁.Perm ts₂) :
    WriteOK full ts₁ ↔ WriteOK full ts₂ := by
  unfold WriteOK
  constructor
  · intro a t ht; exact a t (h.mem_iff.2 ht)
  · intro a t ht; exact a t (h.mem_iff.1 ht)

theorem idents_perm_mem_fw {ts₁ ts₂ : List Target} (h : ts₁.Perm ts₂) (i : Ident) :
    i ∈ idents ts₁ ↔ i ∈ idents ts₂ :=
  (h.filterMap _).mem_iff

theorem writeFiles_perm_fw (full : Ident → Bool) (fs : FS) (ts₁ ts₂ : List Target) (h : ts₁.Perm ts₂) :
    (writeFiles full fs ts₁).ok = (writeFiles full fs ts₂).ok ∧
    ∀ i, (writeFiles full fs ts₁).fs i = (writeFiles full fs ts₂).fs i := by
  by_cases ho : OpenOK ts₁
  · have ho2 := (OpenOK_perm_fw h).1 ho
    by_cases hw : WriteOK full ts₁
    · have hw2 := (WriteOK_perm_fw full h).1 hw
      obtain ⟨a1, b1, c1⟩ := writeFiles_success_fw full fs ts₁ ho hw
      obtain ⟨a2, b2, c2⟩ := writeFiles_success_fw full fs ts₂ ho2 hw2
      refine ⟨by rw [a1, a2], ?_⟩
      intro i
      by_cases hi : i ∈ idents ts₁
      · obtain ⟨t, ht, hti⟩ := mem_idents_fw.1 hi
        rw [b1 t ht i hti, b2 t (h.mem_iff.1 ht) i hti]
      · rw [c1 i hi, c2 i (fun e => hi ((idents_perm_mem_fw h i).2 e))]
    · have hw2 : ¬ WriteOK full ts₂ := fun e => hw ((WriteOK_perm_fw full h).2 e)
      obtain ⟨a1, b1⟩ := writeFiles_write_fail_fw full fs ts₁ ho hw
      obtain ⟨a2, b2⟩ := writeFiles_write_fail_fw full fs ts₂ ho2 hw2
      refine ⟨by rw [a1, a2], ?_⟩
      intro i
      rw [b1, b2]
      simp only [idents_perm_mem_fw h i]
  · have ho2 : ¬ OpenOK ts₂ := fun e => ho ((OpenOK_perm_fw h).2 e)
    obtain ⟨a1, b1⟩ := writeFiles_open_fail_fw full fs ts₁ ((openAll_none_iff_fw fs ts₁).2 ho)
    obtain ⟨a2, b2⟩ := writeFiles_open_fail_fw full fs ts₂ ((openAll_none_iff_fw fs ts₂).2 ho2)
    exact ⟨by rw [a1, a2], fun i => by rw [b1, b2]⟩

end Prophy.FilesW

/-! ### a second run (P32) -/
namespace Prophy.FilesW

/-- a second run on the same targets in the same order: the same end, every file as the first run left it -/
theorem writeFiles_idem_fw (full : Ident → Bool) (fs : FS) (ts : List Target) :
    (writeFiles full (writeFiles full fs ts).fs ts).ok = (writeFiles full fs ts).ok ∧
    ∀ i, (writeFiles full (writeFiles full fs ts).fs ts).fs i = (writeFiles full fs ts).fs i := by
  by_cases ho : OpenOK ts
  · by_cases hw : WriteOK full ts
    · obtain ⟨a1, b1, _⟩ := writeFiles_success_fw full fs ts ho hw
      obtain ⟨a2, b2, c2⟩ := writeFiles_success_fw full (writeFiles full fs ts).fs ts ho hw
      refine ⟨by rw [a1, a2], ?_⟩
      intro i
      by_cases hi : i ∈ idents ts
      · obtain ⟨t, ht, hti⟩ := mem_idents_fw.1 hi
        rw [b2 t ht i hti, b1 t ht i hti]
      · exact c2 i hi
    · obtain ⟨a1, b1⟩ := writeFiles_write_fail_fw full fs ts ho hw
      obtain ⟨a2, b2⟩ := writeFiles_write_fail_fw full (writeFiles full fs ts).fs ts ho hw
      refine ⟨by rw [a1, a2], ?_⟩
      intro i
      rw [b2 i]
      by_cases hi : i ∈ idents ts
      · rw [if_pos hi, b1 i, if_pos hi]
        by_cases h0 : fs i = none
        · simp [h0]
        · simp [h0]
      · rw [if_neg hi]
  · obtain ⟨a1, _⟩ := writeFiles_open_fail_fw full fs ts ((openAll_none_iff_fw fs ts).2 ho)
    obtain ⟨a2, b2⟩ := writeFiles_open_fail_fw full (writeFiles full fs ts).fs ts
      ((openAll_none_iff_fw _ ts).2 ho)
    exact ⟨by rw [a1, a2], b2⟩

/-- a second run on the same targets in any order -/
theorem writeFiles_repeat_fw (full : Ident → Bool) (fs : FS) (ts₁ ts₂ : List Target) (h : ts₁.Perm ts₂) :
    (writeFiles full (writeFiles full fs ts₁).fs ts₂).ok = (writeFiles full fs ts₁).ok ∧
    ∀ i, (writeFiles full (writeFiles full fs ts₁).fs ts₂).fs i = (writeFiles full fs ts₁).fs i := by
  obtain ⟨p1, p2⟩ := writeFiles_perm_fw full (writeFiles full fs ts₁).fs ts₁ ts₂ h
  obtain ⟨q1, q2⟩ := writeFiles_idem_fw full fs ts₁
  exact ⟨by rw [← p1, q1], fun i => by rw [← p2 i, q2 i]⟩

end Prophy.FilesW

/- whatever `Py.decode` returns is a well-typed, coherent, guarded value (C06, second clause).

   Main results (end of file): `Py.decode_typed`, `Py.decoded_encodes`. -/
import ProphyModel.Lemmas.PyEncode
import ProphyModel.Lemmas.WFAccept
namespace Prophy
open Prophy WF Accept

/-! ## A repaired defect (kept as documentation)

  Before the repair a limited BYTES member was decoded as `data[pos:pos+len_hint]` (which Python cuts
  at the end of the buffer) with only the checks "at least `lim` bytes remain" and "the slice is not
  longer than `lim`".  With a counter `c > lim` and the buffer ending exactly `lim` bytes after the
  field started, the slice had `lim < c` bytes and was accepted; when ANOTHER array of the struct was
  bound to the same counter and had been decoded before (with `c` elements), the decoded struct held
  two arrays of different lengths on one sizer: `agreeTy` failed, and `Py.encode` of the decoded value
  raised "Size mismatch of arrays".  In the old model `Py.decode T D_dt .little = .ok (V, 4)` below.
  The decoder now raises `ProphyError("too long")` when `len_hint > size`, so these inputs are refused
  and `Py.decode_typed` holds for every accepted schema. -/
namespace DecodeTypedCx

/-- `struct S { u8 n; byte b<2> (bound n); byte a<1> (bound n); }` -/
def T : Ty := .struct "S" [.mk "n" (.prim .u8) .plain, .mk "b" .byte (.limited "n" 2), .mk "a" .byte (.limited "n" 1)]
def D_dt : Bytes := [2, 1, 2, 4]
/-- what the unrepaired decoder returned for `D_dt` -/
def V : Val := .struct [.sizer, .bytes [1, 2], .bytes [4]]

theorem front_T : Accept.front T = true := by decide
theorem pyRt_T : Accept.pyRt T = true := by decide
theorem hasType_V : hasType T V = true := by decide
theorem guard_V : WF.guardTy T V = true := by decide
theorem not_agree_V : WF.agreeTy T V = false := by decide
theorem encode_V : Py.encode T V .little = .error .prophy := by rfl

/-- the repaired decoder refuses the input -/
theorem decode_D : Py.decode T D_dt .little = .error .prophy := by rfl

/-- the same with a dynamic array in front: `struct S { u8 n; byte b<@n>; byte a<1> (bound n); }` -/
def T' : Ty := .struct "S" [.mk "n" (.prim .u8) .plain, .mk "b" .byte (.dyn "n" 0), .mk "a" .byte (.limited "n" 1)]
theorem accept_T' : Accept.front T' = true ∧ Accept.pyRt T' = true := by decide
theorem not_agree_V' : WF.agreeTy T' V = false := by decide
theorem decode_D' : Py.decode T' D_dt .little = .error .prophy := by rfl

end DecodeTypedCx

/-! ## scalars come back in range -/

theorem leVal_lt (bs : Bytes) : leVal bs < 256 ^ bs.length := by
  induction bs with
  | nil => simp [leVal]
  | cons b r ih =>
    have hb : b.toNat < 256 := UInt8.toNat_lt b
    simp only [leVal, List.length_cons, Nat.pow_succ]
    omega

theorem scalarVal_lt (e : Endian) (bs : Bytes) : scalarVal e bs < 256 ^ bs.length := by
  cases e
  · exact leVal_lt bs
  · have := leVal_lt bs.reverse
    simpa [scalarVal] using this

namespace Py

theorem unpack_range (e : Endian) (p : Prim) (s : Bytes) (v : Int) (h : unpack e p s = .ok v) :
    inRange p v = true := by
  unfold unpack at h
  split at h
  · rename_i hl
    have hn := scalarVal_lt e s
    rw [hl] at hn
    injection h with h
    subst h
    generalize scalarVal e s = n at hn
    cases p <;>
      simp [inRange, Prophy.primRange, Prim.isFloat, Prim.isSigned, Prim.size, toSigned] at hn ⊢ <;>
      (try split) <;> omega
  · cases h

theorem decScalar_spec (e : Endian) (p : Prim) (data : Bytes) (pos : Nat) (v : Int) (sz : Nat)
    (h : decScalar e p data pos = .ok (v, sz)) :
    inRange p v = true ∧ sz = p.size ∧ pos + p.size ≤ data.length := by
  unfold decScalar at h
  split at h
  · cases h
  · rename_i hg
    cases hu : unpack e p (slice data pos p.size) with
    | error x => simp [hu, bind, Except.bind] at h
    | ok w =>
      simp only [hu, bind, Except.bind, pure, Except.pure] at h
      injection h with h
      injection h with h1 h2
      subst h1
      exact ⟨unpack_range e p _ _ hu, h2.symm, by omega⟩

theorem decSizer_spec (e : Endian) (p : Prim) (shift : Nat) (data : Bytes) (pos : Nat) (c sz : Nat)
    (h : decSizer e p shift data pos = .ok (c, sz)) :
    inRange p ((c : Int) + (shift : Int)) = true ∧ c ≤ arrayGuard ∧ pos + p.size ≤ data.length := by
  unfold decSizer at h
  cases hd : decScalar e p data pos with
  | error x => simp [hd, bind, Except.bind] at h
  | ok r =>
    obtain ⟨v, s⟩ := r
    obtain ⟨hr, _, hl⟩ := decScalar_spec e p data pos v s hd
    simp only [hd, bind, Except.bind] at h
    split at h
    · simp at h
    · split at h
      · simp at h
      · simp only [pure, Except.pure] at h
        injection h with h
        injection h with h1 h2
        have hv : (c : Int) + (shift : Int) = v := by omega
        rw [hv]
        exact ⟨hr, by omega, hl⟩

end Py

/-! ## view of the loop body of `struct._decode_impl` -/
namespace Py

/-- the length hints a decoded counter `c` of the sizer `n` hands to the arrays bound to it -/
def boundHints (all : List Member) (n : String) (c : Nat) : List (String × Nat) :=
  all.filterMap (fun m => if m.kind.sizer? = some n then some (m.name, c) else none)

/-- decoding of one member: the value, the bytes consumed and the updated hints -/
def decField_dt (e : Endian) (all : List Member) (n : String) (t : Ty) (k : MKind) (f : St)
    (data : Bytes) (pos0 : Nat) (hints : List (String × Nat)) : M (Val × Nat × List (String × Nat)) :=
  match k with
  | .plain =>
    if isSizer n all then do
      let (c, sz) ← decSizer e (sizerPrim t) (sizerShift n all) data pos0
      pure (Val.sizer, sz, boundHints all n c ++ hints)
    else do
      let (v, sz) ← decTy e t data pos0 false
      pure (v, sz, hints)
  | .optional => do
    let (flag, _) ← decScalar e .u32 data pos0
    if flag ≠ 0 then do
      let (v, sz) ← decTy e t data (pos0 + f.align) false
      pure (Val.present v, f.align + sz, hints)
    else pure (Val.absent, f.align + (stTy t).size, hints)
  | .fixed c =>
    match t with
    | .byte =>
      if (data.length : Int) - (pos0 : Int) < (c : Int) then .error .prophy
      else pure (Val.bytes (slice data pos0 c), c, hints)
    | _ => do
      if (f.size : Int) > (data.length : Int) - (pos0 : Int) then .error .prophy
      let (vs, cur) ← decN (fun d q => decTy e t d q false) c data pos0 0
      pure (Val.arr vs, cur, hints)
  | .dyn _ _ => do
    let c ← lookupHint hints n
    match t with
    | .byte =>
      if (data.length : Int) - (pos0 : Int) < (c : Int) then .error .prophy
      else pure (Val.bytes (slice data pos0 c), c, hints)
    | _ => do
      if (f.size : Int) > (data.length : Int) - (pos0 : Int) then .error .prophy
      let (vs, cur) ← decN (fun d q => decTy e t d q false) c data pos0 0
      pure (Val.arr vs, max cur f.size, hints)
  | .limited _ lim => do
    let c ← lookupHint hints n
    match t with
    | .byte =>
      if (data.length : Int) - (pos0 : Int) < (lim : Int) then .error .prophy
      else if c > lim then .error .prophy
      else
        let b := slice data pos0 c
        if b.length > lim then .error .prophy
        else pure (Val.bytes b, lim, hints)
    | _ => do
      if (f.size : Int) > (data.length : Int) - (pos0 : Int) then .error .prophy
      let (vs, cur) ← decN (fun d q => decTy e t d q false) (min c lim) data pos0 0
      if c > lim then .error .prophy
      pure (Val.arr vs, max cur f.size, hints)
  | .greedy =>
    match t with
    | .byte =>
      if (data.length : Int) - (pos0 : Int) < 0 then .error .prophy
      else pure (Val.bytes (data.drop pos0), data.length - pos0, hints)
    | .struct _ _ | .union _ _ => do
      if (f.size : Int) > (data.length : Int) - (pos0 : Int) then .error .prophy
      let (vs, cur) ← decWhile (fun d q => decTy e t d q false) data.length data pos0 0
      pure (Val.arr vs, max cur f.size, hints)
    | _ => do
      if (f.size : Int) > (data.length : Int) - (pos0 : Int) then .error .prophy
      let remaining : Int := (data.length : Int) - (pos0 : Int)
      let esz := (stTy t).size
      let cnt := if remaining ≤ 0 then 0 else (remaining.toNat / esz) + (if remaining.toNat % esz = 0 then 0 else 1)
      let (vs, cur) ← decN (fun d q => decTy e t d q false) cnt data pos0 0
      pure (Val.arr vs, max cur f.size, hints)

/-- the position after the padding that follows a dynamic field -/
def nextPos (p : Option Nat) (pos1 : Nat) : Nat :=
  match p with
  | some a => pos1 + padTo pos1 a
  | none => pos1

theorem decMs_cons_dt (e : Endian) (all : List Member) (n : String) (t : Ty) (k : MKind) (r : List Member)
    (f : St) (fs : List St) (p : Option Nat) (ps : List (Option Nat)) (data : Bytes) (pos : Nat)
    (hints : List (String × Nat)) :
    decMs e all (.mk n t k :: r) (f :: fs) (p :: ps) data pos hints =
      (do
        let (v, sz, hints') ← decField_dt e all n t k f data (pos + padTo pos f.align) hints
        let (vs, posEnd) ← decMs e all r fs ps data (nextPos p (pos + padTo pos f.align + sz)) hints'
        pure (v :: vs, posEnd)) := by
  cases k <;> (simp only [decMs, decField_dt]; try rfl)


/-! ### unfolding of `decField_dt` by member kind -/
section unfold
variable (e : Endian) (all : List Member) (n : String) (t : Ty) (f : St) (data : Bytes) (pos0 : Nat)
  (hints : List (String × Nat))

theorem decField_fixed_byte (c : Nat) :
    decField_dt e all n .byte (.fixed c) f data pos0 hints =
      if (data.length : Int) - (pos0 : Int) < (c : Int) then .error .prophy
      else pure (Val.bytes (slice data pos0 c), c, hints) := rfl

theorem decField_fixed_nb (c : Nat) (hb : t ≠ .byte) :
    decField_dt e all n t (.fixed c) f data pos0 hints = (do
      if (f.size : Int) > (data.length : Int) - (pos0 : Int) then .error .prophy
      let (vs, cur) ← decN (fun d q => decTy e t d q false) c data pos0 0
      pure (Val.arr vs, cur, hints)) := by
  cases t <;> first | rfl | exact absurd rfl hb

theorem decField_dyn_byte (s : String) (sh : Nat) :
    decField_dt e all n .byte (.dyn s sh) f data pos0 hints = (do
      let c ← lookupHint hints n
      if (data.length : Int) - (pos0 : Int) < (c : Int) then .error .prophy
      else pure (Val.bytes (slice data pos0 c), c, hints)) := rfl

theorem decField_dyn_nb (s : String) (sh : Nat) (hb : t ≠ .byte) :
    decField_dt e all n t (.dyn s sh) f data pos0 hints = (do
      let c ← lookupHint hints n
      if (f.size : Int) > (data.length : Int) - (pos0 : Int) then .error .prophy
      let (vs, cur) ← decN (fun d q => decTy e t d q false) c data pos0 0
      pure (Val.arr vs, max cur f.size, hints)) := by
  cases t <;> first | rfl | exact absurd rfl hb

theorem decField_limited_byte (s : String) (lim : Nat) :
    decField_dt e all n .byte (.limited s lim) f data pos0 hints = (do
      let c ← lookupHint hints n
      if (data.length : Int) - (pos0 : Int) < (lim : Int) then .error .prophy
      else if c > lim then .error .prophy
      else
        let b := slice data pos0 c
        if b.length > lim then .error .prophy
        else pure (Val.bytes b, lim, hints)) := rfl

theorem decField_limited_nb (s : String) (lim : Nat) (hb : t ≠ .byte) :
    decField_dt e all n t (.limited s lim) f data pos0 hints = (do
      let c ← lookupHint hints n
      if (f.size : Int) > (data.length : Int) - (pos0 : Int) then .error .prophy
      let (vs, cur) ← decN (fun d q => decTy e t d q false) (min c lim) data pos0 0
      if c > lim then .error .prophy
      pure (Val.arr vs, max cur f.size, hints)) := by
  cases t <;> first | rfl | exact absurd rfl hb

theorem decField_greedy_byte :
    decField_dt e all n .byte .greedy f data pos0 hints =
      if (data.length : Int) - (pos0 : Int) < 0 then .error .prophy
      else pure (Val.bytes (data.drop pos0), data.length - pos0, hints) := rfl

/-- a greedy array of anything but bytes: some loop `lp` of element decodes -/
theorem decField_greedy_nb (hb : t ≠ .byte) :
    (∃ fuel, decField_dt e all n t .greedy f data pos0 hints = (do
      if (f.size : Int) > (data.length : Int) - (pos0 : Int) then .error .prophy
      let (vs, cur) ← decWhile (fun d q => decTy e t d q false) fuel data pos0 0
      pure (Val.arr vs, max cur f.size, hints))) ∨
    (∃ cnt, decField_dt e all n t .greedy f data pos0 hints = (do
      if (f.size : Int) > (data.length : Int) - (pos0 : Int) then .error .prophy
      let (vs, cur) ← decN (fun d q => decTy e t d q false) cnt data pos0 0
      pure (Val.arr vs, max cur f.size, hints))) := by
  cases t with
  | byte => exact absurd rfl hb
  | struct _ _ => exact Or.inl ⟨_, rfl⟩
  | union _ _ => exact Or.inl ⟨_, rfl⟩
  | prim _ => exact Or.inr ⟨_, rfl⟩
  | enum _ _ => exact Or.inr ⟨_, rfl⟩

end unfold

/-! ### the element loops -/

theorem decN_spec (f : Bytes → Nat → M (Val × Nat)) (P : Val → Prop)
    (hf : ∀ d q v sz, f d q = .ok (v, sz) → P v) :
    ∀ (n : Nat) (data : Bytes) (pos cur : Nat) (vs : List Val) (c : Nat),
      decN f n data pos cur = .ok (vs, c) → vs.length = n ∧ ∀ v ∈ vs, P v
  | 0, data, pos, cur, vs, c, h => by
    simp only [decN, pure, Except.pure] at h
    injection h with h
    injection h with h1 h2
    subst h1
    simp
  | n + 1, data, pos, cur, vs, c, h => by
    simp only [decN] at h
    cases hx : f data (pos + cur) with
    | error x => simp [hx, bind, Except.bind] at h
    | ok r =>
      obtain ⟨v, sz⟩ := r
      simp only [hx, bind, Except.bind] at h
      cases hy : decN f n data pos (cur + sz) with
      | error x => simp [hy] at h
      | ok r' =>
        obtain ⟨vs', c'⟩ := r'
        simp only [hy, pure, Except.pure] at h
        injection h with h
        injection h with h1 h2
        subst h1
        obtain ⟨hl, hall⟩ := decN_spec f P hf n data pos (cur + sz) vs' c' hy
        refine ⟨by simp [hl], ?_⟩
        intro w hw
        rcases List.mem_cons.1 hw with rfl | hw
        · exact hf _ _ _ _ hx
        · exact hall w hw

theorem decWhile_spec (f : Bytes → Nat → M (Val × Nat)) (P : Val → Prop)
    (hf : ∀ d q v sz, f d q = .ok (v, sz) → P v) :
    ∀ (fuel : Nat) (data : Bytes) (pos cur : Nat) (vs : List Val) (c : Nat),
      decWhile f fuel data pos cur = .ok (vs, c) → ∀ v ∈ vs, P v
  | 0, data, pos, cur, vs, c, h => by
    simp only [decWhile] at h
    split at h
    · cases h
    · simp only [pure, Except.pure] at h
      injection h with h
      injection h with h1 h2
      subst h1
      simp
  | fuel + 1, data, pos, cur, vs, c, h => by
    simp only [decWhile] at h
    split at h
    · cases hx : f data (pos + cur) with
      | error x => simp [hx, bind, Except.bind] at h
      | ok r =>
        obtain ⟨v, sz⟩ := r
        simp only [hx, bind, Except.bind] at h
        cases hy : decWhile f fuel data pos (cur + sz) with
        | error x => simp [hy] at h
        | ok r' =>
          obtain ⟨vs', c'⟩ := r'
          simp only [hy, pure, Except.pure] at h
          injection h with h
          injection h with h1 h2
          subst h1
          have hall := decWhile_spec f P hf fuel data pos (cur + sz) vs' c' hy
          intro w hw
          rcases List.mem_cons.1 hw with rfl | hw
          · exact hf _ _ _ _ hx
          · exact hall w hw
    · simp only [pure, Except.pure] at h
      injection h with h
      injection h with h1 h2
      subst h1
      simp

end Py

/-! ## what a decoded value satisfies -/

/-- `v` is a well-typed, coherent, guarded value of type `t` (not a counter) -/
structure Good_dt (t : Ty) (v : Val) : Prop where
  nc : v.isCounter = false
  ty : hasField [] .plain t v = true
  ag : agreeTy t v = true
  gd : guardTy t v = true

theorem good_elems (t : Ty) : ∀ vs : List Val, (∀ v ∈ vs, Good_dt t v) →
    hasElems t vs = true ∧ agreeElems t vs = true ∧ guardElems t vs = true
  | [], _ => by simp [hasElems, agreeElems, guardElems]
  | x :: xs, h => by
    have hx := h x (List.mem_cons_self ..)
    obtain ⟨a, b, c⟩ := good_elems t xs (fun v hv => h v (List.mem_cons_of_mem _ hv))
    simp [hasElems, agreeElems, guardElems, hx.nc, hx.ty, hx.ag, hx.gd, a, b, c]

/-- the condition of `hasField` on the length of an array of kind `k` -/
def lenOk_dt (all : List Member) (k : MKind) (len : Nat) : Bool :=
  match k with
  | .fixed c => len == c
  | .limited s c => decide (len ≤ c) && decide ((len : Int) ≤ sizerMax s all)
  | .dyn s sh => decide ((len : Int) ≤ sizerMax s all - (sh : Int))
  | .greedy => true
  | _ => false

theorem hasField_arr_dt (all : List Member) (k : MKind) (t : Ty) (xs : List Val) (hb : t ≠ .byte)
    (hl : lenOk_dt all k xs.length = true) (he : hasElems t xs = true) : hasField all k t (.arr xs) = true := by
  cases t <;> cases k <;> simp_all [hasField, lenOk_dt]

theorem hasField_bytes_dt (all : List Member) (k : MKind) (b : Bytes)
    (hl : lenOk_dt all k b.length = true) : hasField all k .byte (.bytes b) = true := by
  cases k <;> simp_all [hasField, lenOk_dt]

theorem agreeTy_arr (t : Ty) (xs : List Val) : agreeTy t (.arr xs) = agreeElems t xs := by
  cases t <;> simp [agreeTy]

theorem guardTy_arr (t : Ty) (xs : List Val) : guardTy t (.arr xs) = guardElems t xs := by
  cases t <;> simp [guardTy]

theorem agreeTy_present (t : Ty) (x : Val) : agreeTy t (.present x) = agreeTy t x := by
  cases t <;> simp [agreeTy]

theorem guardTy_present (t : Ty) (x : Val) : guardTy t (.present x) = guardTy t x := by
  cases t <;> simp [guardTy]

theorem agreeTy_flat (t : Ty) (v : Val) (h : match v with | .bytes _ => True | .absent => True | .sizer => True | _ => False) :
    agreeTy t v = true ∧ guardTy t v = true := by
  cases v <;> simp at h <;> cases t <;> simp [agreeTy, guardTy]


theorem Py.bind_ok {α β : Type} {x : Py.M α} {g : α → Py.M β} {b : β} (h : (x >>= g) = .ok b) :
    ∃ a, x = .ok a ∧ g a = .ok b := by
  cases x with
  | error e => simp [bind, Except.bind] at h
  | ok a => exact ⟨a, rfl, h⟩

theorem Py.lookupHint_ok (hints : List (String × Nat)) (n : String) (c : Nat)
    (h : Py.lookupHint hints n = .ok c) : hints.lookup n = some c := by
  unfold Py.lookupHint at h
  split at h
  · rename_i c' hc
    injection h with h
    rw [hc, h]
  · cases h

theorem inRange_hi (p : Prim) (i : Int) (h : inRange p i = true) : i ≤ (primRange p).2 := by
  simp only [inRange, Bool.and_eq_true, decide_eq_true_eq] at h
  exact h.2

theorem Py.ite_err {β : Type} {c : Prop} [Decidable c] {g : PUnit → Py.M β} {r : Py.M β} {b : β}
    (h : (if c then (Except.error Py.Exc.prophy : Py.M PUnit) >>= g else r) = .ok b) : r = .ok b := by
  split at h
  · simp [bind, Except.bind] at h
  · exact h

/-- the induction hypothesis on a member's type -/
abbrev TyOk (e : Endian) (t : Ty) : Prop :=
  ∀ (data : Bytes) (pos : Nat) (term : Bool) (v : Val) (sz : Nat),
    Py.decTy e t data pos term = .ok (v, sz) → Good_dt t v

/-- what one step of the loop of `struct._decode_impl` establishes -/
structure FieldOk (all : List Member) (n : String) (t : Ty) (k : MKind)
    (hints : List (String × Nat)) (v : Val) (hints' : List (String × Nat)) : Prop where
  ty : hasField all k t v = true
  ag : agreeTy t v = true
  gd : guardTy t v = true
  glen : ∀ s, k.sizer? = some s → v.len ≤ guardLimit
  mode :
    (k = .plain ∧ isSizer n all = true ∧ v = .sizer ∧ ∃ c, hints' = Py.boundHints all n c ++ hints ∧
        (c : Int) + (sizerShift n all : Int) ≤ sizerMax n all ∧ c ≤ guardLimit) ∨
    ((k = .plain → isSizer n all = false) ∧ v.isCounter = false ∧ hints' = hints ∧
      ∀ s, k.sizer? = some s → hints.lookup n = some v.len)

theorem field_spec (e : Endian) (all : List Member) (n : String) (t : Ty) (k : MKind) (f : Py.St)
    (data : Bytes) (pos0 : Nat) (hints : List (String × Nat)) (v : Val) (sz : Nat) (hints' : List (String × Nat))
    (hty : TyOk e t)
    (hsp : isSizer n all = true → k = .plain ∧ ∃ p, t = .prim p ∧ sizerMax n all = (primRange p).2)
    (hshift : ∀ s, k.sizer? = some s → k.shift = sizerShift s all)
    (hh : ∀ s, k.sizer? = some s → ∀ c, hints.lookup n = some c →
        (c : Int) + (sizerShift s all : Int) ≤ sizerMax s all ∧ c ≤ guardLimit)
    (h : Py.decField_dt e all n t k f data pos0 hints = .ok (v, sz, hints')) :
    FieldOk all n t k hints v hints' := by
  cases k with
  | plain =>
    simp only [Py.decField_dt] at h
    by_cases hs : isSizer n all = true
    · obtain ⟨_, p, rfl, hmax⟩ := hsp hs
      rw [if_pos hs] at h
      obtain ⟨⟨c, sz'⟩, hd, h⟩ := Py.bind_ok h
      simp only [pure, Except.pure, Except.ok.injEq, Prod.mk.injEq] at h
      obtain ⟨rfl, rfl, rfl⟩ := h
      obtain ⟨hr, hg, _⟩ := Py.decSizer_spec _ _ _ _ _ _ _ hd
      have hhi := inRange_hi _ _ hr
      simp only [Py.sizerPrim] at hhi
      exact ⟨by simp [hasField], by simp [agreeTy], by simp [guardTy], by simp [MKind.sizer?],
        Or.inl ⟨rfl, hs, rfl, c, rfl, by rw [hmax]; exact hhi, hg⟩⟩
    · have hs' : isSizer n all = false := by simpa using hs
      rw [if_neg hs] at h
      obtain ⟨⟨v', sz'⟩, hd, h⟩ := Py.bind_ok h
      simp only [pure, Except.pure, Except.ok.injEq, Prod.mk.injEq] at h
      obtain ⟨rfl, rfl, rfl⟩ := h
      have hg := hty _ _ _ _ _ hd
      exact ⟨by rw [hasField_plain_indep all []]; exact hg.ty, hg.ag, hg.gd, by simp [MKind.sizer?],
        Or.inr ⟨fun _ => hs', hg.nc, rfl, by simp [MKind.sizer?]⟩⟩
  | optional =>
    simp only [Py.decField_dt] at h
    obtain ⟨⟨flag, fsz⟩, hd, h⟩ := Py.bind_ok h
    simp only at h
    split at h
    · obtain ⟨⟨x, sz'⟩, hx, h⟩ := Py.bind_ok h
      simp only [pure, Except.pure, Except.ok.injEq, Prod.mk.injEq] at h
      obtain ⟨rfl, rfl, rfl⟩ := h
      have hg := hty _ _ _ _ _ hx
      refine ⟨?_, by rw [agreeTy_present]; exact hg.ag, by rw [guardTy_present]; exact hg.gd,
        by simp [MKind.sizer?], Or.inr ⟨by simp, rfl, rfl, by simp [MKind.sizer?]⟩⟩
      have := hg.ty
      rw [hasField_plain_indep [] all] at this
      simp [hasField, hg.nc, this]
    · simp only [pure, Except.pure, Except.ok.injEq, Prod.mk.injEq] at h
      obtain ⟨rfl, rfl, rfl⟩ := h
      obtain ⟨ha, hg⟩ := agreeTy_flat t .absent trivial
      exact ⟨by simp [hasField], ha, hg, by simp [MKind.sizer?],
        Or.inr ⟨by simp, rfl, rfl, by simp [MKind.sizer?]⟩⟩
  | fixed c =>
    by_cases hb : t = .byte
    · subst hb
      rw [Py.decField_fixed_byte] at h
      split at h
      · cases h
      · rename_i hlen
        simp only [pure, Except.pure, Except.ok.injEq, Prod.mk.injEq] at h
        obtain ⟨rfl, rfl, rfl⟩ := h
        have hsl : (Py.slice data pos0 c).length = c := Py.slice_length _ _ _ (by omega)
        obtain ⟨ha, hg⟩ := agreeTy_flat .byte (.bytes (Py.slice data pos0 c)) trivial
        exact ⟨hasField_bytes_dt _ _ _ (by simp [lenOk_dt, hsl]), ha, hg, by simp [MKind.sizer?],
          Or.inr ⟨by simp, rfl, rfl, by simp [MKind.sizer?]⟩⟩
    · rw [Py.decField_fixed_nb _ _ _ _ _ _ _ _ _ hb] at h
      replace h := Py.ite_err h
      obtain ⟨⟨vs, cur⟩, hd, h⟩ := Py.bind_ok h
      simp only [pure, Except.pure, Except.ok.injEq, Prod.mk.injEq] at h
      obtain ⟨rfl, rfl, rfl⟩ := h
      obtain ⟨hl, hall⟩ := Py.decN_spec _ (Good_dt t) (fun d q v sz hv => hty d q false v sz hv) _ _ _ _ _ _ hd
      obtain ⟨h1, h2, h3⟩ := good_elems t vs hall
      exact ⟨hasField_arr_dt _ _ _ _ hb (by simp [lenOk_dt, hl]) h1, by rw [agreeTy_arr]; exact h2,
        by rw [guardTy_arr]; exact h3, by simp [MKind.sizer?], Or.inr ⟨by simp, rfl, rfl, by simp [MKind.sizer?]⟩⟩
  | dyn s sh =>
    have hsh : sh = sizerShift s all := hshift s rfl
    by_cases hb : t = .byte
    · subst hb
      rw [Py.decField_dyn_byte] at h
      obtain ⟨c, hc, h⟩ := Py.bind_ok h
      have hlk := Py.lookupHint_ok _ _ _ hc
      obtain ⟨hb1, hb2⟩ := hh s rfl c hlk
      split at h
      · cases h
      · rename_i hlen
        simp only [pure, Except.pure, Except.ok.injEq, Prod.mk.injEq] at h
        obtain ⟨rfl, rfl, rfl⟩ := h
        have hsl : (Py.slice data pos0 c).length = c := Py.slice_length _ _ _ (by omega)
        obtain ⟨ha, hg⟩ := agreeTy_flat .byte (.bytes (Py.slice data pos0 c)) trivial
        refine ⟨hasField_bytes_dt _ _ _ (by simp [lenOk_dt, hsl]; omega), ha, hg, ?_,
          Or.inr ⟨by simp, rfl, rfl, ?_⟩⟩
        · intro s' hs'
          simp only [MKind.sizer?, Option.some.injEq] at hs'
          subst hs'
          simpa [Val.len, hsl] using hb2
        · intro s' _
          simpa [Val.len, hsl] using hlk
    · rw [Py.decField_dyn_nb _ _ _ _ _ _ _ _ _ _ hb] at h
      obtain ⟨c, hc, h⟩ := Py.bind_ok h
      have hlk := Py.lookupHint_ok _ _ _ hc
      obtain ⟨hb1, hb2⟩ := hh s rfl c hlk
      dsimp only at h
      replace h := Py.ite_err h
      obtain ⟨⟨vs, cur⟩, hd, h⟩ := Py.bind_ok h
      simp only [pure, Except.pure, Except.ok.injEq, Prod.mk.injEq] at h
      obtain ⟨rfl, rfl, rfl⟩ := h
      obtain ⟨hl, hall⟩ := Py.decN_spec _ (Good_dt t) (fun d q v sz hv => hty d q false v sz hv) _ _ _ _ _ _ hd
      obtain ⟨h1, h2, h3⟩ := good_elems t vs hall
      refine ⟨hasField_arr_dt _ _ _ _ hb (by simp [lenOk_dt, hl]; omega) h1, by rw [agreeTy_arr]; exact h2,
        by rw [guardTy_arr]; exact h3, ?_, Or.inr ⟨by simp, rfl, rfl, ?_⟩⟩
      · intro s' hs'
        simp only [MKind.sizer?, Option.some.injEq] at hs'
        subst hs'
        simpa [Val.len, hl] using hb2
      · intro s' _
        simpa [Val.len, hl] using hlk
  | limited s lim =>
    by_cases hb : t = .byte
    · subst hb
      rw [Py.decField_limited_byte] at h
      obtain ⟨c, hc, h⟩ := Py.bind_ok h
      have hlk := Py.lookupHint_ok _ _ _ hc
      obtain ⟨hb1, hb2⟩ := hh s rfl c hlk
      split at h
      · cases h
      · rename_i hlen
        split at h
        · cases h
        · rename_i hcl
          simp only at h
          split at h
          · cases h
          · simp only [pure, Except.pure, Except.ok.injEq, Prod.mk.injEq] at h
            obtain ⟨rfl, rfl, rfl⟩ := h
            have hsl : (Py.slice data pos0 c).length = c := Py.slice_length _ _ _ (by omega)
            obtain ⟨ha, hg⟩ := agreeTy_flat .byte (.bytes (Py.slice data pos0 c)) trivial
            refine ⟨hasField_bytes_dt _ _ _ (by simp [lenOk_dt, hsl]; omega), ha, hg, ?_,
              Or.inr ⟨by simp, rfl, rfl, ?_⟩⟩
            · intro s' hs'
              simp only [MKind.sizer?, Option.some.injEq] at hs'
              subst hs'
              simpa [Val.len, hsl] using hb2
            · intro s' _
              simpa [Val.len, hsl] using hlk
    · rw [Py.decField_limited_nb _ _ _ _ _ _ _ _ _ _ hb] at h
      obtain ⟨c, hc, h⟩ := Py.bind_ok h
      have hlk := Py.lookupHint_ok _ _ _ hc
      obtain ⟨hb1, hb2⟩ := hh s rfl c hlk
      dsimp only at h
      replace h := Py.ite_err h
      obtain ⟨⟨vs, cur⟩, hd, h⟩ := Py.bind_ok h
      dsimp only at h
      have hcl' : c ≤ lim := by
        by_cases hgt : c > lim
        · rw [if_pos hgt] at h
          simp [bind, Except.bind] at h
        · omega
      replace h := Py.ite_err h
      simp only [pure, Except.pure, Except.ok.injEq, Prod.mk.injEq] at h
      obtain ⟨rfl, rfl, rfl⟩ := h
      have hmin : min c lim = c := by omega
      rw [hmin] at hd
      obtain ⟨hl, hall⟩ := Py.decN_spec _ (Good_dt t) (fun d q v sz hv => hty d q false v sz hv) _ _ _ _ _ _ hd
      obtain ⟨h1, h2, h3⟩ := good_elems t vs hall
      refine ⟨hasField_arr_dt _ _ _ _ hb (by simp [lenOk_dt, hl]; omega) h1, by rw [agreeTy_arr]; exact h2,
        by rw [guardTy_arr]; exact h3, ?_, Or.inr ⟨by simp, rfl, rfl, ?_⟩⟩
      · intro s' hs'
        simp only [MKind.sizer?, Option.some.injEq] at hs'
        subst hs'
        simpa [Val.len, hl] using hb2
      · intro s' _
        simpa [Val.len, hl] using hlk
  | greedy =>
    by_cases hb : t = .byte
    · subst hb
      rw [Py.decField_greedy_byte] at h
      split at h
      · cases h
      · simp only [pure, Except.pure, Except.ok.injEq, Prod.mk.injEq] at h
        obtain ⟨rfl, rfl, rfl⟩ := h
        obtain ⟨ha, hg⟩ := agreeTy_flat .byte (.bytes (data.drop pos0)) trivial
        exact ⟨hasField_bytes_dt _ _ _ (by simp [lenOk_dt]), ha, hg, by simp [MKind.sizer?],
          Or.inr ⟨by simp, rfl, rfl, by simp [MKind.sizer?]⟩⟩
    · have key : ∀ vs : List Val, (∀ v ∈ vs, Good_dt t v) → FieldOk all n t .greedy hints (.arr vs) hints := by
        intro vs hall
        obtain ⟨h1, h2, h3⟩ := good_elems t vs hall
        exact ⟨hasField_arr_dt _ _ _ _ hb (by simp [lenOk_dt]) h1, by rw [agreeTy_arr]; exact h2,
          by rw [guardTy_arr]; exact h3, by simp [MKind.sizer?],
          Or.inr ⟨by simp, rfl, rfl, by simp [MKind.sizer?]⟩⟩
      rcases Py.decField_greedy_nb e all n t f data pos0 hints hb with ⟨fuel, hq⟩ | ⟨cnt, hq⟩
      · rw [hq] at h
        dsimp only at h
        replace h := Py.ite_err h
        obtain ⟨⟨vs, cur⟩, hd, h⟩ := Py.bind_ok h
        simp only [pure, Except.pure, Except.ok.injEq, Prod.mk.injEq] at h
        obtain ⟨rfl, rfl, rfl⟩ := h
        exact key vs (Py.decWhile_spec _ (Good_dt t) (fun d q v sz hv => hty d q false v sz hv) _ _ _ _ _ _ hd)
      · rw [hq] at h
        dsimp only at h
        replace h := Py.ite_err h
        obtain ⟨⟨vs, cur⟩, hd, h⟩ := Py.bind_ok h
        simp only [pure, Except.pure, Except.ok.injEq, Prod.mk.injEq] at h
        obtain ⟨rfl, rfl, rfl⟩ := h
        exact key vs (Py.decN_spec _ (Good_dt t) (fun d q v sz hv => hty d q false v sz hv) _ _ _ _ _ _ hd).2

/-! ## the skeleton of one run of the loop: what agreement of the arrays needs -/

/-- `Run all ms hints vs`: the loop over `ms`, started with the length hints `hints`, produced `vs`.
    Only what matters for the agreement of bound arrays is kept: a counter hands its count to the arrays
    bound to it; a bound array has the length of its hint. -/
inductive Run (all : List Member) : List Member → List (String × Nat) → List Val → Prop
  | nil (hints : List (String × Nat)) : Run all [] hints []
  | sizer (n : String) (t : Ty) (r : List Member) (hints : List (String × Nat)) (c : Nat) (vs : List Val) :
      isSizer n all = true →
      Run all r (Py.boundHints all n c ++ hints) vs →
      Run all (.mk n t .plain :: r) hints (.sizer :: vs)
  | other (n : String) (t : Ty) (k : MKind) (r : List Member) (hints : List (String × Nat))
      (v : Val) (vs : List Val) :
      (k = .plain → isSizer n all = false) →
      (∀ s, k.sizer? = some s → hints.lookup n = some v.len) →
      Run all r hints vs → Run all (.mk n t k :: r) hints (v :: vs)

/-- every array names a sizer that stands before it -/
def SizerBefore (all : List Member) : Prop :=
  ∀ (before : List Member) (m : Member) (after : List Member), all = before ++ m :: after →
    ∀ s, m.kind.sizer? = some s → ∃ m' ∈ before, m'.name = s

theorem lookup_bound_some (n : String) (c : Nat) (key : String) (c' : Nat) : (L : List Member) →
    (Py.boundHints L n c).lookup key = some c' → c' = c ∧ ∃ m' ∈ L, m'.kind.sizer? = some n ∧ m'.name = key
  | [], h => by simp [Py.boundHints] at h
  | a :: L, h => by
    unfold Py.boundHints at h
    rw [List.filterMap_cons] at h
    by_cases ha : a.kind.sizer? = some n
    · simp only [ha, if_true] at h
      rw [List.lookup_cons] at h
      cases hk : (key == a.name) with
      | true =>
        simp only [hk] at h
        have : a.name = key := by simpa using (beq_iff_eq.1 hk).symm
        exact ⟨by simpa using h.symm, a, List.mem_cons_self .., ha, this⟩
      | false =>
        simp only [hk] at h
        obtain ⟨h1, m', hm', h2, h3⟩ := lookup_bound_some n c key c' L h
        exact ⟨h1, m', List.mem_cons_of_mem _ hm', h2, h3⟩
    · simp only [ha, if_false] at h
      obtain ⟨h1, m', hm', h2, h3⟩ := lookup_bound_some n c key c' L h
      exact ⟨h1, m', List.mem_cons_of_mem _ hm', h2, h3⟩

theorem lookup_bound_mem (n : String) (c : Nat) (m : Member) (hs : m.kind.sizer? = some n) : (L : List Member) →
    m ∈ L → (Py.boundHints L n c).lookup m.name = some c
  | [], h => by cases h
  | a :: L, h => by
    unfold Py.boundHints
    rw [List.filterMap_cons]
    by_cases ha : a.kind.sizer? = some n
    · simp only [ha, if_true]
      rw [List.lookup_cons]
      cases hk : (m.name == a.name) with
      | true => rfl
      | false =>
        simp only
        rcases List.mem_cons.1 h with rfl | hm
        · simp at hk
        · exact lookup_bound_mem n c m hs L hm
    · simp only [ha, if_false]
      rcases List.mem_cons.1 h with rfl | hm
      · exact absurd hs ha
      · exact lookup_bound_mem n c m hs L hm

theorem lookup_append' (l₁ l₂ : List (String × Nat)) (key : String) :
    (l₁ ++ l₂).lookup key = match l₁.lookup key with | some c => some c | none => l₂.lookup key := by
  induction l₁ with
  | nil => simp
  | cons a r ih =>
    obtain ⟨k, b⟩ := a
    simp only [List.cons_append, List.lookup_cons]
    cases (key == k) <;> simp [ih]

theorem boundLens_cons_bound (s : String) (n : String) (t : Ty) (k : MKind) (r : List Member) (v : Val) (vs : List Val)
    (h : k.sizer? = some s) : boundLens s (.mk n t k :: r) (v :: vs) = v.len :: boundLens s r vs := by
  simp [boundLens, Member.kind, h]

theorem boundLens_cons_skip (s : String) (n : String) (t : Ty) (k : MKind) (r : List Member) (v : Val) (vs : List Val)
    (h : k.sizer? ≠ some s) : boundLens s (.mk n t k :: r) (v :: vs) = boundLens s r vs := by
  simp [boundLens, Member.kind, h]

theorem boundLens_not_sizer (s : String) : (ms : List Member) → (vs : List Val) →
    (∀ m ∈ ms, m.kind.sizer? ≠ some s) → boundLens s ms vs = []
  | [], _, _ => by simp [boundLens]
  | _ :: _, [], _ => by simp [boundLens]
  | m :: r, v :: vs, h => by
    obtain ⟨n, t, k⟩ := m
    rw [boundLens_cons_skip s n t k r v vs (h _ (List.mem_cons_self ..))]
    exact boundLens_not_sizer s r vs (fun m' hm' => h m' (List.mem_cons_of_mem _ hm'))

/-- the hints of the arrays bound to `s` survive the decoding of another counter -/
theorem hints_keep (all : List Member) (UQ : ∀ m ∈ all, ∀ m' ∈ all, m.name = m'.name → m = m')
    (s n : String) (hne : n ≠ s) (c c' : Nat) (hints : List (String × Nat))
    (hinv : ∀ m ∈ all, m.kind.sizer? = some s → hints.lookup m.name = some c) :
    ∀ m ∈ all, m.kind.sizer? = some s → (Py.boundHints all n c' ++ hints).lookup m.name = some c := by
  intro m hm hs
  rw [lookup_append']
  cases hq : (Py.boundHints all n c').lookup m.name with
  | none => exact hinv m hm hs
  | some c'' =>
    obtain ⟨_, m', hm', hs', hn'⟩ := lookup_bound_some n c' m.name c'' all hq
    have := UQ m' hm' m hm hn'
    subst this
    rw [hs] at hs'
    simp only [Option.some.injEq] at hs'
    exact absurd hs'.symm hne

/-- after the counter `s` was decoded as `c`: every array bound to `s` has `c` elements -/
theorem runA (all : List Member) (s : String) (c : Nat)
    (UQ : ∀ m ∈ all, ∀ m' ∈ all, m.name = m'.name → m = m')
    (ms : List Member) (hints : List (String × Nat)) (vs : List Val)
    (hrun : Run all ms hints vs) :
    (∀ m ∈ ms, m ∈ all) → (∀ m ∈ ms, m.name ≠ s) →
    (∀ m ∈ all, m.kind.sizer? = some s → hints.lookup m.name = some c) →
    ∀ x ∈ boundLens s ms vs, x = c := by
  induction hrun with
  | nil hints => intro _ _ _ x hx; simp [boundLens] at hx
  | sizer n t r hints c' vs hs hr ih =>
    intro hsub hnm hinv x hx
    rw [boundLens_cons_skip s n t .plain r _ vs (by simp [MKind.sizer?])] at hx
    have hne : n ≠ s := hnm _ (List.mem_cons_self ..)
    exact ih (fun m hm => hsub m (List.mem_cons_of_mem _ hm)) (fun m hm => hnm m (List.mem_cons_of_mem _ hm))
      (hints_keep all UQ s n hne c c' hints hinv) x hx
  | other n t k r hints v vs hns hb hr ih =>
    intro hsub hnm hinv x hx
    have ih' := ih (fun m hm => hsub m (List.mem_cons_of_mem _ hm)) (fun m hm => hnm m (List.mem_cons_of_mem _ hm)) hinv
    by_cases hk : k.sizer? = some s
    · rw [boundLens_cons_bound s n t k r v vs hk] at hx
      rcases List.mem_cons.1 hx with rfl | hx
      · have hc1 := hb s hk
        have := hinv _ (hsub _ (List.mem_cons_self ..)) hk
        simp only [Member.name] at this
        rw [this] at hc1
        exact (Option.some.inj hc1).symm
      · exact ih' x hx
    · rw [boundLens_cons_skip s n t k r v vs hk] at hx
      exact ih' x hx

def AllSame (l : List Nat) : Prop := ∀ x ∈ l, ∀ y ∈ l, x = y

/-- from the start of the struct -/
theorem runB (all : List Member) (s : String)
    (UQ : ∀ m ∈ all, ∀ m' ∈ all, m.name = m'.name → m = m')
    (SB : SizerBefore all)
    (SP : ∀ n t k, Member.mk n t k ∈ all → isSizer n all = true → k = .plain)
    (ms : List Member) (hints : List (String × Nat)) (vs : List Val)
    (hrun : Run all ms hints vs) :
    ∀ before, all = before ++ ms → (∀ m ∈ before, m.name ≠ s) → WF.uniq (ms.map (·.name)) = true →
    AllSame (boundLens s ms vs) := by
  induction hrun with
  | nil hints => intro _ _ _ _ x hx; simp [boundLens] at hx
  | sizer n t r hints c vs hs hr ih =>
    intro before hall hbf hu
    rw [boundLens_cons_skip s n t .plain r _ vs (by simp [MKind.sizer?])]
    simp only [List.map, WF.uniq, Bool.and_eq_true, Bool.not_eq_true'] at hu
    have hsub : ∀ m ∈ r, m ∈ all := by intro m hm; rw [hall]; simp [hm]
    by_cases hn : n = s
    · subst hn
      have hnm : ∀ m ∈ r, m.name ≠ n := by
        intro m hm hc
        have : (r.map (·.name)).contains n = true := by
          simp only [List.contains_iff_mem, List.mem_map]
          exact ⟨m, hm, hc⟩
        have h1 : (r.map (·.name)).contains n = false := hu.1
        rw [this] at h1
        cases h1
      have hall' := runA all n c UQ r _ vs hr hsub hnm (by
        intro m hm hsz
        rw [lookup_append', lookup_bound_mem n c m hsz all hm])
      intro x hx y hy
      rw [hall' x hx, hall' y hy]
    · refine ih (before ++ [.mk n t .plain]) (by simp [hall]) ?_ hu.2
      intro m hm
      rcases List.mem_append.1 hm with hm | hm
      · exact hbf m hm
      · simp only [List.mem_singleton] at hm
        subst hm
        exact hn
  | other n t k r hints v vs hns hb hr ih =>
    intro before hall hbf hu
    simp only [List.map, WF.uniq, Bool.and_eq_true, Bool.not_eq_true'] at hu
    have hk : k.sizer? ≠ some s := by
      intro hk
      obtain ⟨m', hm', hn'⟩ := SB before (.mk n t k) r hall s hk
      exact hbf m' hm' hn'
    rw [boundLens_cons_skip s n t k r v vs hk]
    by_cases hn : n = s
    · subst hn
      have hnot : isSizer n all = false := by
        cases hs : isSizer n all with
        | false => rfl
        | true =>
          have hmem : Member.mk n t k ∈ all := by rw [hall]; simp
          have := hns (SP n t k hmem hs)
          rw [this] at hs; cases hs
      have : ∀ m ∈ r, m.kind.sizer? ≠ some n := by
        intro m hm hc
        have : isSizer n all = true := (isSizer_iff n all).2 ⟨m, by rw [hall]; simp [hm], hc⟩
        rw [hnot] at this; cases this
      rw [boundLens_not_sizer n r vs this]
      intro x hx; cases hx
    · refine ih (before ++ [.mk n t k]) (by simp [hall]) ?_ hu.2
      intro m hm
      rcases List.mem_append.1 hm with hm | hm
      · exact hbf m hm
      · simp only [List.mem_singleton] at hm
        subst hm
        exact hn

theorem run_agree (all : List Member) (vs : List Val)
    (hu : WF.uniq (all.map (·.name)) = true)
    (SP : ∀ n t k, Member.mk n t k ∈ all → isSizer n all = true → k = .plain)
    (SB : SizerBefore all)
    (hrun : Run all all [] vs) : agreeMs all vs = true := by
  have UQ : ∀ m ∈ all, ∀ m' ∈ all, m.name = m'.name → m = m' := by
    intro m hm m' hm' hn
    have h1 := WF.uniq_find all hu m hm
    have h2 := WF.uniq_find all hu m' hm'
    rw [hn, h2] at h1
    exact (Option.some.inj h1).symm
  unfold agreeMs
  rw [List.all_eq_true]
  intro m hm
  cases hs : m.kind.sizer? with
  | none => rfl
  | some s =>
    simp only
    have hsame := runB all s UQ SB SP all [] vs hrun [] rfl (by intro m hm; cases hm) hu
    rw [List.all_eq_true]
    intro x hx
    simp only [beq_iff_eq]
    unfold Spec.counter
    cases hl : boundLens s all vs with
    | nil => rw [hl] at hx; cases hx
    | cons a l =>
      rw [hl] at hx hsame
      simp only [List.headD_cons]
      exact hsame x hx a (List.mem_cons_self ..)

theorem sizerBefore_aux (all : List Member) : (ms before : List Member) → pyRtMs all ms before = true →
    ∀ (b : List Member) (m : Member) (a : List Member), ms = b ++ m :: a →
    ∀ s, m.kind.sizer? = some s → ∃ m' ∈ before ++ b, m'.name = s
  | [], _, _, b, m, a, h, _, _ => by simp at h
  | .mk n t k :: r, before, hp, b, m, a, h, s, hs => by
    obtain ⟨_, _, _, _, _, h6, _, hpr⟩ := (Accept.pyRtMs_cons all n t k r before).1 hp
    cases b with
    | nil =>
      simp only [List.nil_append, List.cons.injEq] at h
      obtain ⟨rfl, rfl⟩ := h
      obtain ⟨sn, sty, sk, hfind, _⟩ := h6 s hs
      refine ⟨.mk sn sty sk, by simpa using List.mem_of_find?_eq_some hfind, ?_⟩
      have := List.find?_some hfind
      simpa using this
    | cons x b' =>
      simp only [List.cons_append, List.cons.injEq] at h
      obtain ⟨rfl, rfl⟩ := h
      obtain ⟨m', hm', hn⟩ := sizerBefore_aux all _ (before ++ [.mk n t k]) hpr b' m a rfl s hs
      exact ⟨m', by simpa using hm', hn⟩

theorem sizerBefore_of_pyRt (all : List Member) (hp : pyRtMs all all [] = true) : SizerBefore all := by
  intro before m after h s hs
  simpa using sizerBefore_aux all all [] hp before m after h s hs

/-! ## the hints stay within the counters' bounds -/

def HintsOk_dt (all : List Member) (hints : List (String × Nat)) : Prop :=
  ∀ m ∈ all, ∀ s, m.kind.sizer? = some s → ∀ c, hints.lookup m.name = some c →
    (c : Int) + (sizerShift s all : Int) ≤ sizerMax s all ∧ c ≤ guardLimit

theorem hintsOk_bound (all : List Member) (UQ : ∀ m ∈ all, ∀ m' ∈ all, m.name = m'.name → m = m')
    (n : String) (c : Nat) (hints : List (String × Nat)) (h : HintsOk_dt all hints)
    (hb : (c : Int) + (sizerShift n all : Int) ≤ sizerMax n all ∧ c ≤ guardLimit) :
    HintsOk_dt all (Py.boundHints all n c ++ hints) := by
  intro m hm s hs c' hl
  rw [lookup_append'] at hl
  cases hq : (Py.boundHints all n c).lookup m.name with
  | none =>
    rw [hq] at hl
    exact h m hm s hs c' hl
  | some c'' =>
    rw [hq] at hl
    simp only [Option.some.injEq] at hl
    subst hl
    obtain ⟨rfl, m', hm', hs', hn'⟩ := lookup_bound_some n c m.name c'' all hq
    have := UQ m' hm' m hm hn'
    subst this
    rw [hs] at hs'
    simp only [Option.some.injEq] at hs'
    subst hs'
    exact hb

/-! ## the induction -/

theorem Accept.frontMs_cons_pydeco (all : List Member) (n : String) (t : Ty) (k : MKind) (r before : List Member)
    (h : frontMs all (.mk n t k :: r) before = true) :
    front t = true ∧ frontMs all r (before ++ [.mk n t k]) = true := by
  simp only [frontMs, Bool.and_eq_true] at h
  exact ⟨h.1.1.1.1.1.1.1.1, h.2⟩

theorem Py.checkEnum_ok (es : List (String × Nat)) (v w : Int) (h : Py.checkEnum es v = .ok w) :
    w = v ∧ es.any (fun en => (en.2 : Int) == v) = true := by
  unfold Py.checkEnum at h
  split at h
  · rename_i hc
    injection h with h
    refine ⟨h.symm, ?_⟩
    simpa using hc
  · cases h

mutual
  theorem dec_ty_ok (e : Endian) : (t : Ty) → front t = true → pyRt t = true → TyOk e t
    | .prim p, _, _ => by
      intro data pos term v sz h
      simp only [Py.decTy] at h
      obtain ⟨⟨i, sz'⟩, hd, h⟩ := Py.bind_ok h
      simp only [pure, Except.pure, Except.ok.injEq, Prod.mk.injEq] at h
      obtain ⟨rfl, rfl⟩ := h
      obtain ⟨hr, _, _⟩ := Py.decScalar_spec _ _ _ _ _ _ hd
      exact ⟨rfl, by simpa [hasField] using hr, by simp [agreeTy], by simp [guardTy]⟩
    | .byte, _, _ => by
      intro data pos term v sz h
      simp only [Py.decTy] at h
      obtain ⟨⟨i, sz'⟩, hd, h⟩ := Py.bind_ok h
      simp only [pure, Except.pure, Except.ok.injEq, Prod.mk.injEq] at h
      obtain ⟨rfl, rfl⟩ := h
      obtain ⟨hr, _, _⟩ := Py.decScalar_spec _ _ _ _ _ _ hd
      exact ⟨rfl, by simpa [hasField] using hr, by simp [agreeTy], by simp [guardTy]⟩
    | .enum nm es, _, _ => by
      intro data pos term v sz h
      simp only [Py.decTy] at h
      obtain ⟨⟨i, sz'⟩, hd, h⟩ := Py.bind_ok h
      obtain ⟨w, hc, h⟩ := Py.bind_ok h
      simp only [pure, Except.pure, Except.ok.injEq, Prod.mk.injEq] at h
      obtain ⟨rfl, rfl⟩ := h
      obtain ⟨rfl, hany⟩ := Py.checkEnum_ok _ _ _ hc
      exact ⟨rfl, by simpa [hasField] using hany, by simp [agreeTy], by simp [guardTy]⟩
    | .struct nm ms, hf, hp => by
      intro data pos term v sz h
      have hw := Accept.wf_of_accept _ hf hp
      simp only [wfTy, Bool.and_eq_true] at hw
      obtain ⟨hu, hwm⟩ := hw
      simp only [front, Bool.and_eq_true] at hf
      simp only [pyRt] at hp
      have UQ : ∀ m ∈ ms, ∀ m' ∈ ms, m.name = m'.name → m = m' := by
        intro m hm m' hm' hn
        have h1 := WF.uniq_find ms hu m hm
        have h2 := WF.uniq_find ms hu m' hm'
        rw [hn, h2] at h1
        exact (Option.some.inj h1).symm
      have SP : ∀ n t k, Member.mk n t k ∈ ms → isSizer n ms = true →
          k = .plain ∧ ∃ p, t = .prim p ∧ sizerMax n ms = (primRange p).2 := by
        intro n t k hm hs
        obtain ⟨p, h1, h2, _, h4⟩ := WF.sizer_prim ms hu hwm n t k hm hs
        exact ⟨h2, p, h1, h4⟩
      simp only [Py.decTy] at h
      obtain ⟨⟨vs, pos1⟩, hd, h⟩ := Py.bind_ok h
      dsimp only at h
      split at h
      · cases h
      · simp only [pure, Except.pure, Except.ok.injEq, Prod.mk.injEq] at h
        obtain ⟨rfl, rfl⟩ := h
        obtain ⟨h1, h2, h3, hrun⟩ := dec_ms_ok e ms ms [] rfl hf.2 hp SP UQ _ _ _ _ _ _ _
          (by intro m _ s _ c hc; simp at hc) hd
        have hag := run_agree ms vs hu (fun n t k hm hs => (SP n t k hm hs).1) (sizerBefore_of_pyRt ms hp) hrun
        exact ⟨rfl, by simpa [hasField] using h1, by simp [agreeTy, hag, h2], by simpa [guardTy] using h3⟩
    | .union nm arms, hf, hp => by
      intro data pos term v sz h
      simp only [front, Bool.and_eq_true] at hf
      simp only [pyRt, Bool.and_eq_true] at hp
      simp only [Py.decTy] at h
      obtain ⟨⟨d, dsz⟩, hd, h⟩ := Py.bind_ok h
      obtain ⟨⟨idx, x⟩, ha, h⟩ := Py.bind_ok h
      dsimp only at h
      split at h
      · cases h
      · split at h
        · cases h
        · simp only [pure, Except.pure, Except.ok.injEq, Prod.mk.injEq] at h
          obtain ⟨rfl, rfl⟩ := h
          obtain ⟨j, an, ad, at', hj, hget, hg⟩ := dec_arms_ok e arms hf.2 hp.2 _ _ _ _ _ _ _ ha
          have hj' : idx = j := by omega
          subst hj'
          exact ⟨rfl, by simp [hasField, hget, hg.nc, hg.ty], by simp [agreeTy, hget, hg.ag],
            by simp [guardTy, hget, hg.gd]⟩
  theorem dec_ms_ok (e : Endian) : (ms : List Member) → ∀ (all before : List Member), all = before ++ ms →
      frontMs all ms before = true → pyRtMs all ms before = true →
      (∀ n t k, Member.mk n t k ∈ all → isSizer n all = true →
          k = .plain ∧ ∃ p, t = .prim p ∧ sizerMax n all = (primRange p).2) →
      (∀ m ∈ all, ∀ m' ∈ all, m.name = m'.name → m = m') →
      ∀ (fs : List Py.St) (ps : List (Option Nat)) (data : Bytes) (pos : Nat) (hints : List (String × Nat))
        (vs : List Val) (posEnd : Nat), HintsOk_dt all hints →
      Py.decMs e all ms fs ps data pos hints = .ok (vs, posEnd) →
      hasMs all ms vs = true ∧ agreeFields ms vs = true ∧ guardFields all ms vs = true ∧
      Run all ms hints vs
    | [], all, before, _, _, _, _, _, fs, ps, data, pos, hints, vs, posEnd, _, h => by
      simp only [Py.decMs, pure, Except.pure, Except.ok.injEq, Prod.mk.injEq] at h
      obtain ⟨rfl, rfl⟩ := h
      exact ⟨by simp [hasMs], by simp [agreeFields], by simp [guardFields], Run.nil _⟩
    | .mk n t k :: r, all, before, hall, hf, hp, SP, UQ, fs, ps, data, pos, hints, vs, posEnd, hok, h => by
      obtain ⟨hft, hfr⟩ := Accept.frontMs_cons_pydeco all n t k r before hf
      obtain ⟨hpt, _, _, _, _, _, hsh, hpr⟩ := (Accept.pyRtMs_cons all n t k r before).1 hp
      have hmem : Member.mk n t k ∈ all := by rw [hall]; simp
      cases fs with
      | nil => simp [Py.decMs] at h
      | cons f fs =>
        cases ps with
        | nil => simp [Py.decMs] at h
        | cons p ps =>
          rw [Py.decMs_cons_dt] at h
          obtain ⟨⟨v, sz, hints'⟩, hfield, h⟩ := Py.bind_ok h
          dsimp only at h
          obtain ⟨⟨vs', posEnd'⟩, hrest, h⟩ := Py.bind_ok h
          simp only [pure, Except.pure, Except.ok.injEq, Prod.mk.injEq] at h
          obtain ⟨rfl, rfl⟩ := h
          have F := field_spec e all n t k f data _ hints v sz hints' (dec_ty_ok e t hft hpt)
            (SP n t k hmem) (fun s hs => (hsh s hs).2) (fun s hs c hc => hok _ hmem s hs c hc) hfield
          have hok' : HintsOk_dt all hints' := by
            rcases F.mode with ⟨_, _, _, c, rfl, hb1, hb2⟩ | ⟨_, _, rfl, _⟩
            · exact hintsOk_bound all UQ n c hints hok ⟨hb1, hb2⟩
            · exact hok
          obtain ⟨i1, i2, i3, irun⟩ := dec_ms_ok e r all (before ++ [.mk n t k]) (by simp [hall]) hfr hpr SP UQ
            fs ps data _ hints' vs' posEnd' hok' hrest
          refine ⟨?_, ?_, ?_, ?_⟩
          · rw [hasMs_cons]
            refine ⟨?_, F.ty, i1⟩
            rcases F.mode with ⟨_, hs, rfl, _⟩ | ⟨hns, hnc, _, _⟩
            · rw [hs]; rfl
            · rw [hnc]
              cases hs : isSizer n all with
              | false => rfl
              | true => rw [hns (SP n t k hmem hs).1] at hs; cases hs
          · simp [agreeFields, F.ag, i2]
          · simp only [guardFields, Bool.and_eq_true]
            refine ⟨⟨?_, F.gd⟩, i3⟩
            cases hk : k.sizer? with
            | none => rfl
            | some s => simpa using F.glen s hk
          · rcases F.mode with ⟨rfl, hs, rfl, c, rfl, _, _⟩ | ⟨hns, _, rfl, hb⟩
            · exact Run.sizer n t r hints c vs' hs irun
            · exact Run.other n t k r hints' v vs' hns hb irun
  theorem dec_arms_ok (e : Endian) : (arms : List Arm) → frontArms arms = true → pyRtArms arms = true →
      ∀ (all : List Arm) (disc : Int) (data : Bytes) (pos idx i : Nat) (v : Val),
      Py.decArms e all arms disc data pos idx = .ok (i, v) →
      ∃ j an ad at', i = idx + j ∧ arms[j]? = some (.mk an ad at') ∧ Good_dt at' v
    | [], _, _, all, disc, data, pos, idx, i, v, h => by
      simp [Py.decArms] at h
    | .mk an ad t :: r, hf, hp, all, disc, data, pos, idx, i, v, h => by
      simp only [frontArms, Bool.and_eq_true] at hf
      simp only [pyRtArms, Bool.and_eq_true] at hp
      simp only [Py.decArms] at h
      split at h
      · obtain ⟨⟨x, xsz⟩, hx, h⟩ := Py.bind_ok h
        simp only [pure, Except.pure, Except.ok.injEq, Prod.mk.injEq] at h
        obtain ⟨rfl, rfl⟩ := h
        exact ⟨0, an, ad, t, rfl, rfl, dec_ty_ok e t hf.1.1.1 hp.1.1 _ _ _ _ _ hx⟩
      · obtain ⟨j, an', ad', at', hj, hget, hg⟩ := dec_arms_ok e r hf.2 hp.2 all disc data pos (idx + 1) i v h
        exact ⟨j + 1, an', ad', at', by omega, by simpa using hget, hg⟩
end

/-! ## the theorems -/

/-- C06, second clause: whatever `decode` returns is a well-typed, coherent value within the decoder's
    counter guard -/
theorem Py.decode_typed (t : Ty) (data : Bytes) (e : Endian) (v : Val) (n : Nat)
    (hf : Accept.front t = true) (hp : Accept.pyRt t = true)
    (h : Py.decode t data e = .ok (v, n)) :
    hasType t v = true ∧ WF.agreeTy t v = true ∧ WF.guardTy t v = true := by
  have g := dec_ty_ok e t hf hp data 0 true v n h
  exact ⟨by simp [hasType, g.nc, g.ty], g.ag, g.gd⟩

/-- whenever decode returns, the decoded message encodes without error (to its canonical encoding) -/
theorem Py.decoded_encodes (t : Ty) (data : Bytes) (e : Endian) (v : Val) (n : Nat)
    (hf : Accept.front t = true) (hp : Accept.pyRt t = true)
    (h : Py.decode t data e = .ok (v, n)) :
    ∀ e', Py.encode t v e' = .ok (Spec.enc t v e') := by
  obtain ⟨h1, h2, _⟩ := Py.decode_typed t data e v n hf hp h
  exact fun e' => Py.encode_canonical t v e' (Accept.wf_of_accept t hf hp) h1 h2

end Prophy

#print axioms Prophy.Py.decode_typed
#print axioms Prophy.Py.decoded_encodes

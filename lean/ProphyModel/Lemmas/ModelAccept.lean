/-
  The model-level validation (`Accept.model`, prophyc/model.py evaluate_model) and the prophy parser
  (`Accept.front`) accept the same schemas, up to what only the grammar of the language adds
  (`Accept.grammar`: containers are not empty, `byte` occurs only as an array element).

  Results
    * `Accept.front_eq_model_and_grammar`  `front t = (model t && grammar t)`
    * `Accept.model_of_front`              `front t → model t`
    * `Accept.grammar_of_front`            `front t → grammar t`
    * `Accept.front_of_model`              `model t → grammar t → front t`
-/
import ProphyModel.Accept
namespace Prophy
open Prophy Accept

namespace Accept

/-- a member found among `before` is a member of `before ++ rest` -/
theorem any_of_find_p18 (p : Member → Bool) (before rest : List Member) (x : Member)
    (h : before.find? p = some x) : (before ++ rest).any p = true := by
  have hx := List.find?_some h
  have hm := List.mem_of_find?_eq_some h
  rw [List.any_eq_true]
  exact ⟨x, List.mem_append_left _ hm, hx⟩

mutual
  theorem front_eq_ty_p18 : (t : Ty) → front t = (model t && grammar t)
    | .prim _ => by simp [front, model, grammar]
    | .byte => by simp [front, model, grammar]
    | .enum _ es => by simp only [front, model, grammar]
    | .struct _ ms => by
      have ih := front_eq_ms_p18 ms ms [] (by simp)
      simp only [front, model, grammar, ih]
      ac_rfl
    | .union _ arms => by
      have ih := front_eq_arms_p18 arms
      simp only [front, model, grammar, ih]
      ac_rfl
  theorem front_eq_ms_p18 : (ms : List Member) → (all before : List Member) → all = before ++ ms →
      frontMs all ms before = (modelMs all ms before && grammarMs ms)
    | [], all, before, _ => by simp [frontMs, modelMs, grammarMs]
    | .mk n t k :: r, all, before, hall => by
      have iht := front_eq_ty_p18 t
      have ihr := front_eq_ms_p18 r all (before ++ [.mk n t k]) (by simp [hall])
      subst hall
      simp only [frontMs, modelMs, grammarMs, iht, ihr]
      rcases hk : k.sizer? with _ | s <;> simp only []
      · ac_rfl
      · rcases hf : before.find? (fun x => x.name == s) with _ | x
        · simp [hf]
        · have := any_of_find_p18 (fun x => x.name == s) before (.mk n t k :: r) x hf
          simp only [this, hf, Bool.true_and]
          ac_rfl
  theorem front_eq_arms_p18 : (arms : List Arm) → frontArms arms = (modelArms arms && grammarArms arms)
    | [] => by simp [frontArms, modelArms, grammarArms]
    | .mk _ _ t :: r => by
      have iht := front_eq_ty_p18 t
      have ihr := front_eq_arms_p18 r
      simp only [frontArms, modelArms, grammarArms, iht, ihr]
      ac_rfl
end

end Accept

/-- both directions in one -/
theorem Accept.front_eq_model_and_grammar (t : Ty) : Accept.front t = (Accept.model t && Accept.grammar t) :=
  Accept.front_eq_ty_p18 t

/-- nothing the parser accepts is refused by the model-level validation -/
theorem Accept.model_of_front (t : Ty) (h : Accept.front t = true) : Accept.model t = true := by
  rw [Accept.front_eq_model_and_grammar, Bool.and_eq_true] at h
  exact h.1

/-- everything the parser accepts is expressible in the grammar -/
theorem Accept.grammar_of_front (t : Ty) (h : Accept.front t = true) : Accept.grammar t = true := by
  rw [Accept.front_eq_model_and_grammar, Bool.and_eq_true] at h
  exact h.2

/-- whatever passes the model-level validation and can be written in the prophy language at all is accepted by the parser:
    the validation is as strict as the parser, so rule breakers are refused for every front-end -/
theorem Accept.front_of_model (t : Ty) (hm : Accept.model t = true) (hg : Accept.grammar t = true) : Accept.front t = true := by
  rw [Accept.front_eq_model_and_grammar, hm, hg]
  rfl

/-- the member-list and arm-list versions (with the prefix invariant for the member list) -/
theorem Accept.frontMs_eq_model_and_grammar (all ms before : List Member) (hall : all = before ++ ms) :
    Accept.frontMs all ms before = (Accept.modelMs all ms before && Accept.grammarMs ms) :=
  Accept.front_eq_ms_p18 ms all before hall

theorem Accept.frontArms_eq_model_and_grammar (arms : List Arm) :
    Accept.frontArms arms = (Accept.modelArms arms && Accept.grammarArms arms) :=
  Accept.front_eq_arms_p18 arms

end Prophy

#print axioms Prophy.Accept.model_of_front
#print axioms Prophy.Accept.front_of_model
#print axioms Prophy.Accept.front_eq_model_and_grammar

/- C06 (size): the size Python decode reports exceeds the input length by at most a constant of the schema -/
import ProphyModel.Lemmas.PyDecodeSize
namespace Prophy
open Prophy
namespace Py

theorem ite_err_p28 {β : Type} {c : Prop} [Decidable c] {g : PUnit → M β} {r : M β} {b : β}
    (h : (if c then (Except.error Exc.prophy : M PUnit) >>= g else r) = .ok b) : ¬ c ∧ r = .ok b := by
  split at h
  · simp [bind, Except.bind] at h
  · exact ⟨‹_›, h⟩

/-! ### beyond the end of the input only members without bytes decode -/

/-- a successful decode beyond the end of the input reads nothing, and the type has alignment 1 and is not dynamic -/
def TyZ (e : Endian) (t : Ty) : Prop :=
  ∀ (data : Bytes) (pos : Nat) (term : Bool) (v : Val) (sz : Nat),
    decTy e t data pos term = .ok (v, sz) → data.length < pos →
      sz = 0 ∧ (stTy t).align = 1 ∧ (stTy t).dyn = false

theorem decField_beyond_p28 {e : Endian} {all : List Member} {n : String} {t : Ty} {k : MKind} {f : St}
    {data : Bytes} {pos0 : Nat} {hints : List (String × Nat)} {v : Val} {sz : Nat} {hints' : List (String × Nat)}
    (h : decField e all n t k f data pos0 hints = .ok (v, sz, hints')) (hb : data.length < pos0) :
    k = .plain ∧ decTy e t data pos0 false = .ok (v, sz) := by
  cases k with
  | plain =>
    simp only [decField] at h
    split at h
    · obtain ⟨⟨c, s⟩, hx, h⟩ := bind_ok h
      obtain ⟨_, _, h5⟩ := decSizer_spec _ _ _ _ _ _ _ hx
      omega
    · obtain ⟨⟨w, s⟩, hx, h⟩ := bind_ok h
      simp only [pure, Except.pure] at h
      injection h with h; injection h with h1 h2; injection h2 with h2 h3
      subst h1; subst h2
      exact ⟨rfl, hx⟩
  | optional =>
    simp only [decField] at h
    obtain ⟨⟨flag, x⟩, hx, h⟩ := bind_ok h
    obtain ⟨_, _, h5⟩ := decScalar_spec _ _ _ _ _ _ hx
    omega
  | fixed c =>
    simp only [decField] at h
    split at h
    · split at h
      · cases h
      · omega
    · have := (ite_err_p28 h).1; omega
  | dyn s sh =>
    simp only [decField] at h
    obtain ⟨c, hc, h⟩ := bind_ok h
    split at h
    · split at h
      · cases h
      · omega
    · have := (ite_err_p28 h).1; omega
  | limited s lim =>
    simp only [decField] at h
    obtain ⟨c, hc, h⟩ := bind_ok h
    split at h
    · split at h
      · cases h
      · omega
    · have := (ite_err_p28 h).1; omega
  | greedy =>
    simp only [decField] at h
    split at h
    · split at h
      · cases h
      · omega
    · have := (ite_err_p28 h).1; omega
    · have := (ite_err_p28 h).1; omega
    · have := (ite_err_p28 h).1; omega

mutual
  theorem ty_beyond_p28 (e : Endian) : (t : Ty) → TyZ e t
    | .prim p, data, pos, term, v, sz, h, hb => by
      simp only [decTy] at h
      obtain ⟨⟨w, s⟩, hx, h⟩ := bind_ok h
      obtain ⟨_, _, h4⟩ := decScalar_spec _ _ _ _ _ _ hx
      omega
    | .byte, data, pos, term, v, sz, h, hb => by
      simp only [decTy] at h
      obtain ⟨⟨w, s⟩, hx, h⟩ := bind_ok h
      obtain ⟨_, _, h4⟩ := decScalar_spec _ _ _ _ _ _ hx
      omega
    | .enum _ es, data, pos, term, v, sz, h, hb => by
      simp only [decTy] at h
      obtain ⟨⟨w, s⟩, hx, h⟩ := bind_ok h
      obtain ⟨_, _, h4⟩ := decScalar_spec _ _ _ _ _ _ hx
      omega
    | .union _ arms, data, pos, term, v, sz, h, hb => by
      simp only [decTy] at h
      obtain ⟨⟨d, x⟩, hx, h⟩ := bind_ok h
      obtain ⟨_, _, h4⟩ := decScalar_spec _ _ _ _ _ _ hx
      omega
    | .struct _ ms, data, pos, term, v, sz, h, hb => by
      simp only [decTy] at h
      obtain ⟨⟨vs, pos1⟩, hx, h⟩ := bind_ok h
      simp only [] at h
      obtain ⟨a, b, c⟩ := ms_beyond_p28 e ms ms data pos [] vs pos1 hx hb
      subst a
      split at h
      · cases h
      · simp only [pure, Except.pure] at h
        injection h with h; injection h with h1 h2
        have hal : (structSt (stMs ms)).align = 1 := by simp only [structSt]; exact b
        rw [hal, padTo_one] at h2
        simp only [stTy]
        refine ⟨by omega, hal, ?_⟩
        simp only [structSt]; exact c
  theorem ms_beyond_p28 (e : Endian) : (ms : List Member) → ∀ (all : List Member) (data : Bytes) (cp : Nat)
      (hints : List (String × Nat)) (vs : List Val) (posEnd : Nat),
      decMs e all ms (stMs ms) (partials (stMs ms)) data cp hints = .ok (vs, posEnd) → data.length < cp →
        posEnd = cp ∧ maxAlign (stMs ms) = 1 ∧ (stMs ms).any (·.dyn) = false
    | [], all, data, cp, hints, vs, posEnd, h, hb => by
      simp only [decMs, pure, Except.pure] at h
      injection h with h; injection h with h1 h2
      simp only [stMs, maxAlign, List.any_nil]
      exact ⟨h2.symm, by first | rfl | trivial, by first | rfl | trivial⟩
    | .mk n t k :: r, all, data, cp, hints, vs, posEnd, h, hb => by
      simp only [stMs] at h
      rw [partials_cons, decMs_cons_pydeco] at h
      obtain ⟨⟨v, sz, hints'⟩, hx, h⟩ := bind_ok h
      obtain ⟨⟨vs', pe⟩, hy, h⟩ := bind_ok h
      simp only [pure, Except.pure] at h
      injection h with h; injection h with h1 h2
      subst h2
      obtain ⟨hk, hd⟩ := decField_beyond_p28 hx (by omega)
      subst hk
      obtain ⟨z1, z2, z3⟩ := ty_beyond_p28 e t data _ false v sz hd (by omega)
      subst z1
      simp only [fieldSt, z2, z3, padTo_one, Bool.false_eq_true, if_false, Nat.add_zero] at hy
      obtain ⟨a, b, c⟩ := ms_beyond_p28 e r all data cp hints' vs' pe hy hb
      simp only [stMs, fieldSt, maxAlign, List.any_cons, z2, z3, b, c]
      exact ⟨a, by simp, by simp⟩
end

/-! ### the schema constant -/

def sumAlign : List St → Nat
  | [] => 0
  | f :: r => f.align + sumAlign r

def sumPart : List (Option Nat) → Nat
  | [] => 0
  | p :: r => p.getD 0 + sumPart r

def optSize (t : Ty) : MKind → Nat
  | .optional => (stTy t).size
  | _ => 0

mutual
  /-- by how much the reported size can exceed the input: per struct the paddings (each at most the alignment it pads
      to), the static size of the optional members (an absent optional is skipped unchecked), and the same of the
      members' types -/
  def slackTy : Ty → Nat
    | .struct _ ms =>
      2 * sumAlign (stMs ms) + sumPart (partials (stMs ms)) + slackMs ms + (structSt (stMs ms)).align
    | _ => 0
  def slackMs : List Member → Nat
    | [] => 0
    | .mk _ t k :: r => optSize t k + slackTy t + slackMs r
end

theorem padTo_le_p28 (off a : Nat) : padTo off a ≤ a := by
  unfold padTo
  rcases Nat.eq_zero_or_pos a with h | h
  · subst h; simp
  · exact Nat.le_of_lt (Nat.mod_lt _ h)

/-- the reported end is at most the end of the input plus the slack (or the start plus the slack) -/
def TyI (e : Endian) (t : Ty) : Prop :=
  ∀ (data : Bytes) (pos : Nat) (term : Bool) (v : Val) (sz : Nat),
    decTy e t data pos term = .ok (v, sz) → pos + sz ≤ max pos data.length + slackTy t

theorem decN_end_p28 (f : Bytes → Nat → M (Val × Nat)) (data : Bytes) (K : Nat)
    (hf : ∀ q v sz, f data q = .ok (v, sz) → sz = 0 ∨ q + sz ≤ data.length + K) :
    ∀ (n : Nat) (pos cursor : Nat) (vs : List Val) (c : Nat),
      decN f n data pos cursor = .ok (vs, c) → c = cursor ∨ pos + c ≤ data.length + K
  | 0, _, _, _, _, h => by
    simp only [decN, pure, Except.pure] at h
    injection h with h; injection h with h1 h2
    exact Or.inl h2.symm
  | n + 1, pos, cursor, vs, c, h => by
    simp only [decN] at h
    obtain ⟨⟨v, sz⟩, hx, h⟩ := bind_ok h
    obtain ⟨⟨vs2, c2⟩, hy, h⟩ := bind_ok h
    simp only [pure, Except.pure] at h
    injection h with h; injection h with h1 h2
    subst h2
    have a := hf _ _ _ hx
    have b := decN_end_p28 f data K hf n pos (cursor + sz) vs2 c2 hy
    omega

theorem decWhile_end_p28 (f : Bytes → Nat → M (Val × Nat)) (data : Bytes) (K : Nat)
    (hf : ∀ q v sz, f data q = .ok (v, sz) → sz = 0 ∨ q + sz ≤ data.length + K) :
    ∀ (fuel : Nat) (pos cursor : Nat) (vs : List Val) (c : Nat),
      decWhile f fuel data pos cursor = .ok (vs, c) → c = cursor ∨ pos + c ≤ data.length + K
  | 0, pos, cursor, vs, c, h => by
    simp only [decWhile] at h
    split at h
    · cases h
    · simp only [pure, Except.pure] at h
      injection h with h; injection h with h1 h2
      exact Or.inl h2.symm
  | fuel + 1, pos, cursor, vs, c, h => by
    simp only [decWhile] at h
    split at h
    · obtain ⟨⟨v, sz⟩, hx, h⟩ := bind_ok h
      obtain ⟨⟨vs2, c2⟩, hy, h⟩ := bind_ok h
      simp only [pure, Except.pure] at h
      injection h with h; injection h with h1 h2
      subst h2
      have a := hf _ _ _ hx
      have b := decWhile_end_p28 f data K hf fuel pos (cursor + sz) vs2 c2 hy
      omega
    · simp only [pure, Except.pure] at h
      injection h with h; injection h with h1 h2
      exact Or.inl h2.symm

theorem decField_end_p28 {e : Endian} {all : List Member} {n : String} {t : Ty} {k : MKind} {f : St}
    {data : Bytes} {pos0 : Nat} {hints : List (String × Nat)} {v : Val} {sz : Nat} {hints' : List (String × Nat)}
    (hI : TyI e t)
    (h : decField e all n t k f data pos0 hints = .ok (v, sz, hints')) :
    pos0 + sz ≤ max pos0 data.length + f.align + optSize t k + slackTy t := by
  have hel : ∀ q v sz, (fun d q => decTy e t d q false) data q = .ok (v, sz) →
      sz = 0 ∨ q + sz ≤ data.length + slackTy t := by
    intro q v sz hq
    by_cases hql : q ≤ data.length
    · have := hI data q false v sz hq
      exact Or.inr (by omega)
    · exact Or.inl (ty_beyond_p28 e t data q false v sz hq (by omega)).1
  cases k with
  | plain =>
    simp only [decField] at h
    split at h
    · obtain ⟨⟨c, s⟩, hx, h⟩ := bind_ok h
      simp only [pure, Except.pure] at h
      injection h with h; injection h with h1 h2; injection h2 with h2 h3
      subst h2
      have h4 := decSizer_sz hx
      obtain ⟨_, _, h5⟩ := decSizer_spec _ _ _ _ _ _ _ hx
      omega
    · obtain ⟨⟨w, s⟩, hx, h⟩ := bind_ok h
      simp only [pure, Except.pure] at h
      injection h with h; injection h with h1 h2; injection h2 with h2 h3
      subst h2
      have := hI _ _ _ _ _ hx
      omega
  | optional =>
    simp only [decField] at h
    obtain ⟨⟨flag, x⟩, hx, h⟩ := bind_ok h
    obtain ⟨_, _, h5⟩ := decScalar_spec _ _ _ _ _ _ hx
    simp only [] at h
    simp only [optSize]
    split at h
    · obtain ⟨⟨w, s⟩, hy, h⟩ := bind_ok h
      simp only [pure, Except.pure] at h
      injection h with h; injection h with h1 h2; injection h2 with h2 h3
      subst h2
      have := hI _ _ _ _ _ hy
      omega
    · simp only [pure, Except.pure] at h
      injection h with h; injection h with h1 h2; injection h2 with h2 h3
      subst h2
      omega
  | fixed c =>
    simp only [decField] at h
    split at h
    · split at h
      · cases h
      · simp only [pure, Except.pure] at h
        injection h with h; injection h with h1 h2; injection h2 with h2 h3
        omega
    · obtain ⟨hg, h⟩ := ite_err_p28 h
      obtain ⟨⟨ws, cur⟩, hx, h⟩ := bind_ok h
      simp only [pure, Except.pure] at h
      injection h with h; injection h with h1 h2; injection h2 with h2 h3
      subst h2
      have := decN_end_p28 _ data _ hel c pos0 0 ws cur hx
      omega
  | dyn s sh =>
    simp only [decField] at h
    obtain ⟨c, hc, h⟩ := bind_ok h
    split at h
    · split at h
      · cases h
      · simp only [pure, Except.pure] at h
        injection h with h; injection h with h1 h2; injection h2 with h2 h3
        omega
    · obtain ⟨hg, h⟩ := ite_err_p28 h
      obtain ⟨⟨ws, cur⟩, hx, h⟩ := bind_ok h
      simp only [pure, Except.pure] at h
      injection h with h; injection h with h1 h2; injection h2 with h2 h3
      subst h2
      have := decN_end_p28 _ data _ hel c pos0 0 ws cur hx
      omega
  | limited s lim =>
    simp only [decField] at h
    obtain ⟨c, hc, h⟩ := bind_ok h
    split at h
    · split at h
      · cases h
      · split at h
        · cases h
        · split at h
          · cases h
          · simp only [pure, Except.pure] at h
            injection h with h; injection h with h1 h2; injection h2 with h2 h3
            omega
    · obtain ⟨hg, h⟩ := ite_err_p28 h
      obtain ⟨⟨ws, cur⟩, hx, h⟩ := bind_ok h
      obtain ⟨_, h⟩ := ite_err_p28 h
      simp only [pure, Except.pure] at h
      injection h with h; injection h with h1 h2; injection h2 with h2 h3
      subst h2
      have := decN_end_p28 _ data _ hel (min c lim) pos0 0 ws cur hx
      omega
  | greedy =>
    simp only [decField] at h
    split at h
    · split at h
      · cases h
      · simp only [pure, Except.pure] at h
        injection h with h; injection h with h1 h2; injection h2 with h2 h3
        omega
    · obtain ⟨hg, h⟩ := ite_err_p28 h
      obtain ⟨⟨ws, cur⟩, hx, h⟩ := bind_ok h
      simp only [pure, Except.pure] at h
      injection h with h; injection h with h1 h2; injection h2 with h2 h3
      subst h2
      have := decWhile_end_p28 _ data _ hel _ pos0 0 ws cur hx
      omega
    · obtain ⟨hg, h⟩ := ite_err_p28 h
      obtain ⟨⟨ws, cur⟩, hx, h⟩ := bind_ok h
      simp only [pure, Except.pure] at h
      injection h with h; injection h with h1 h2; injection h2 with h2 h3
      subst h2
      have := decWhile_end_p28 _ data _ hel _ pos0 0 ws cur hx
      omega
    · obtain ⟨hg, h⟩ := ite_err_p28 h
      obtain ⟨⟨ws, cur⟩, hx, h⟩ := bind_ok h
      simp only [pure, Except.pure] at h
      injection h with h; injection h with h1 h2; injection h2 with h2 h3
      subst h2
      have := decN_end_p28 _ data _ hel _ pos0 0 ws cur hx
      omega

mutual
  theorem ty_end_p28 (e : Endian) : (t : Ty) → TyI e t
    | .prim p, data, pos, term, v, sz, h => by
      simp only [decTy] at h
      obtain ⟨⟨w, s⟩, hx, h⟩ := bind_ok h
      simp only [pure, Except.pure] at h
      injection h with h; injection h with h1 h2
      obtain ⟨_, h3, h4⟩ := decScalar_spec _ _ _ _ _ _ hx
      omega
    | .byte, data, pos, term, v, sz, h => by
      simp only [decTy] at h
      obtain ⟨⟨w, s⟩, hx, h⟩ := bind_ok h
      simp only [pure, Except.pure] at h
      injection h with h; injection h with h1 h2
      obtain ⟨_, h3, h4⟩ := decScalar_spec _ _ _ _ _ _ hx
      omega
    | .enum _ es, data, pos, term, v, sz, h => by
      simp only [decTy] at h
      obtain ⟨⟨w, s⟩, hx, h⟩ := bind_ok h
      obtain ⟨w', hy, h⟩ := bind_ok h
      simp only [pure, Except.pure] at h
      injection h with h; injection h with h1 h2
      obtain ⟨_, h3, h4⟩ := decScalar_spec _ _ _ _ _ _ hx
      omega
    | .union _ arms, data, pos, term, v, sz, h => by
      simp only [decTy] at h
      obtain ⟨⟨d, x⟩, hx, h⟩ := bind_ok h
      obtain ⟨⟨idx, w⟩, hy, h⟩ := bind_ok h
      simp only [] at h
      split at h
      · cases h
      · split at h
        · cases h
        · simp only [pure, Except.pure] at h
          injection h with h; injection h with h1 h2
          omega
    | .struct _ ms, data, pos, term, v, sz, h => by
      simp only [decTy] at h
      obtain ⟨⟨vs, pos1⟩, hx, h⟩ := bind_ok h
      simp only [] at h
      have a := ms_end_p28 e ms ms _ _ data pos [] vs pos1 hx
      have hm := decMs_mono e ms ms _ _ data pos [] vs pos1 hx
      split at h
      · cases h
      · simp only [pure, Except.pure] at h
        injection h with h; injection h with h1 h2
        have := padTo_le_p28 pos1 (structSt (stMs ms)).align
        simp only [slackTy]
        omega
  theorem ms_end_p28 (e : Endian) : (ms : List Member) → ∀ (all : List Member) (fs : List St)
      (ps : List (Option Nat)) (data : Bytes) (cp : Nat) (hints : List (String × Nat)) (vs : List Val) (posEnd : Nat),
      decMs e all ms fs ps data cp hints = .ok (vs, posEnd) →
        posEnd ≤ max cp data.length + 2 * sumAlign fs + sumPart ps + slackMs ms
    | [], all, fs, ps, data, cp, hints, vs, posEnd, h => by
      simp only [decMs, pure, Except.pure] at h
      injection h with h; injection h with h1 h2
      omega
    | .mk n t k :: r, all, fs, ps, data, cp, hints, vs, posEnd, h => by
      cases fs with
      | nil => simp [decMs] at h
      | cons f fs' =>
        cases ps with
        | nil => simp [decMs] at h
        | cons p ps' =>
          rw [decMs_cons_pydeco] at h
          obtain ⟨⟨v, sz, hints'⟩, hx, h⟩ := bind_ok h
          obtain ⟨⟨vs', pe⟩, hy, h⟩ := bind_ok h
          simp only [pure, Except.pure] at h
          injection h with h; injection h with h1 h2
          subst h2
          have a := decField_end_p28 (ty_end_p28 e t) hx
          have b := ms_end_p28 e r all fs' ps' data _ hints' vs' pe hy
          have c := padTo_le_p28 cp f.align
          simp only [sumAlign, sumPart, slackMs]
          cases p with
          | none =>
            simp only [Option.getD] at b ⊢
            omega
          | some al =>
            have d := padTo_le_p28 (cp + padTo cp f.align + sz) al
            simp only [Option.getD] at b ⊢
            omega
end

/-- the size decode reports is at most the input length plus the slack of the schema -/
theorem decode_end_p28 (t : Ty) (data : Bytes) (e : Endian) (v : Val) (n : Nat)
    (h : decode t data e = .ok (v, n)) : n ≤ data.length + slackTy t := by
  have := ty_end_p28 e t data 0 true v n h
  omega

end Py
end Prophy
#print axioms Prophy.Py.decode_end_p28

/-
  C05 for EVERY C++ object: the pointer encoder of the generated C++ full codec stays inside
  `get_byte_size()`, also for objects that are not values of the schema (limited arrays filled beyond
  their limit, bound arrays longer than their counter can say, enum members holding any 32-bit value).

  `Cpp.objOk t v`      `v` has the shape of a C++ object of the class generated for `t` (`hasType` without the
                       limits of limited arrays, the `sizerMax` bounds of bound arrays, enumerator membership)
  `Cpp.countsFit t v`  every array bound to a counter (`T x<@n>`) has a length that the counter's C++ type
                       holds (`CT(x.size())` does not wrap)

  Part A  objects of fixed-size types encode to the static size (`ffield_p16 / fms_p16 / felems_p16`)
  Part B  helpers (monotonicity of the running size of `get_byte_size`)
  Part C  the main induction: encoder length `<=` running size, `=` when the counts fit
          (`field_len_p16 / ms_len_p16 / elems_len_p16`), reusing the layout lemmas of Lemmas/CppEncode.lean
          (`structMembers_eq_lay`, `padOf_step`, `layInv_step`)
  Part D  `Cpp.encodeVec_in_bounds`, `Cpp.encodePtr_le_getByteSize`, `Cpp.encodePtr_length`
  Part E  `Cpp.objOk_of_hasType`; the counterexample to `encodePtr_length` without `countsFit`
-/
import ProphyModel.Lemmas.CppEncode
import ProphyModel.Lemmas.NoShift

namespace Prophy
open Prophy WF

namespace Cpp

/- `v` has the shape of a C++ object of the generated class of `t` -/
mutual
  def objField (k : MKind) : Ty → Val → Bool
    | _, .sizer => (match k with | .plain => true | _ => false)
    | _, .absent => (match k with | .optional => true | _ => false)
    | t, .present x => (match k with | .optional => true | _ => false) && !x.isCounter && objField .plain t x
    | t, .bytes b =>
      (match t with | .byte => true | _ => false) &&
      (match k with
       | .fixed c => b.length == c
       | .limited _ _ => true
       | .dyn _ _ => true
       | .greedy => true
       | _ => false)
    | t, .arr xs =>
      (match t with | .byte => false | _ => true) &&
      (match k with
       | .fixed c => xs.length == c
       | .limited _ _ => true
       | .dyn _ _ => true
       | .greedy => true
       | _ => false) && objElems t xs
    | .prim p, .int i => (match k with | .plain => true | _ => false) && inRange p i
    | .byte, .int i => (match k with | .plain => true | _ => false) && inRange .u8 i
    | .enum _ _, .int i => (match k with | .plain => true | _ => false) && decide (-(2 ^ 31 : Int) ≤ i ∧ i < 2 ^ 32)
    | .struct _ ms, .struct vs => (match k with | .plain => true | _ => false) && objMs ms ms vs
    | .union _ arms, .union idx v =>
      (match k with | .plain => true | _ => false) &&
      (match arms[idx]? with
       | some (.mk _ _ t) => !v.isCounter && objField .plain t v
       | none => false)
    | _, _ => false
  def objMs (all : List Member) : List Member → List Val → Bool
    | [], [] => true
    | .mk n t k :: r, v :: vs =>
      (match v with
       | .sizer => isSizer n all
       | _ => !(isSizer n all)) && objField k t v && objMs all r vs
    | _, _ => false
  def objElems : Ty → List Val → Bool
    | _, [] => true
    | t, x :: xs => !x.isCounter && objField .plain t x && objElems t xs
end

def objOk (t : Ty) (v : Val) : Bool := !v.isCounter && objField .plain t v

/- every array bound to a counter (`T x<@n>`) has a length its counter's C++ type can hold -/
mutual
  def fitTy : Ty → Val → Bool
    | t, .present x => fitTy t x
    | t, .arr xs => fitElems t xs
    | .struct _ ms, .struct vs => fitMs ms ms vs
    | .union _ arms, .union idx v =>
      (match arms[idx]? with
       | some (.mk _ _ t) => fitTy t v
       | none => true)
    | _, _ => true
  def fitMs (all : List Member) : List Member → List Val → Bool
    | .mk _ t k :: r, v :: vs =>
      (match k with
       | .dyn s _ => decide (v.len < 256 ^ (sizerPrimOf s all).size)
       | _ => true) && fitTy t v && fitMs all r vs
    | _, _ => true
  def fitElems : Ty → List Val → Bool
    | _, [] => true
    | t, x :: xs => fitTy t x && fitElems t xs
end

def countsFit (t : Ty) (v : Val) : Bool := fitTy t v

end Cpp


/-! ## Part A: objects of fixed-size types encode to their static size -/
namespace Cpp

theorem objMs_cons_p16 (all : List Member) (n : String) (t : Ty) (k : MKind) (r : List Member) (v : Val) (vs : List Val) :
    objMs all (.mk n t k :: r) (v :: vs) = true ↔
      (v.isCounter = isSizer n all) ∧ objField k t v = true ∧ objMs all r vs = true := by
  cases v <;> simp [objMs, Val.isCounter, and_assoc]

theorem castCount_le_p16 (p : Prim) (n : Nat) : castCount p n ≤ n := Nat.mod_le _ _

/-- the counter statement writes a scalar of the counter's type -/
def CounterLen_p16 (e : Endian) (all : List Member) (allv : List Val) (n : String) (t : Ty) : Prop :=
  isSizer n all = true → ∃ p, t = .prim p ∧ (counterCells e all allv n).length = p.size

theorem boundOf_some_p16 (all : List Member) (s : String) : (ms : List Member) → (vs : List Val) →
    objMs all ms vs = true → (∃ m ∈ ms, m.kind.sizer? = some s) → ∃ m bv, boundOf s ms vs = some (m, bv)
  | [], _, _, ⟨m, hm, _⟩ => by cases hm
  | _ :: _, [], hh, _ => by simp [objMs] at hh
  | .mk n t k :: r, v :: vs, hh, ⟨m, hm, hs⟩ => by
    obtain ⟨_, _, hhr⟩ := (objMs_cons_p16 all n t k r v vs).1 hh
    simp only [boundOf]
    by_cases hk : (Member.mk n t k).kind.sizer? = some s
    · rw [if_pos hk]; exact ⟨_, _, rfl⟩
    · rw [if_neg hk]
      rcases List.mem_cons.1 hm with rfl | hr
      · exact absurd hs hk
      · exact boundOf_some_p16 all s r vs hhr ⟨m, hr, hs⟩

theorem counterLen_p16 (e : Endian) (all : List Member) (allv : List Val)
    (hu : uniq (all.map (·.name)) = true) (hw : wfMs all all = true) (ho : objMs all all allv = true) :
    ∀ n t k, Member.mk n t k ∈ all → CounterLen_p16 e all allv n t := by
  intro n t k hm hs
  obtain ⟨p, rfl, rfl, _, _⟩ := WF.sizer_prim all hu hw n t k hm hs
  have hfind : all.find? (fun x => x.name == n) = some (.mk n (.prim p) .plain) := WF.uniq_find all hu _ hm
  have hsp : sizerPrimOf n all = p := by unfold sizerPrimOf; rw [hfind]
  obtain ⟨m', hm', hs'⟩ := (isSizer_iff n all).1 hs
  obtain ⟨m, bv, hb⟩ := boundOf_some_p16 all n all allv ho ⟨m', hm', hs'⟩
  refine ⟨p, rfl, ?_⟩
  unfold counterCells
  rw [hb, hsp]
  obtain ⟨mn, mt, mk⟩ := m
  cases mk <;> simp

/-- the static offset after the members `ms`, the first of which starts at static offset `bs` -/
def endLay_p16 (S : Nat) : List Member → Nat → Nat
  | [], bs => bs
  | m :: r, bs => endLay_p16 S r (alignUp (bs + mslot m) (aN S false r))

theorem endLay_eq_p16 (S : Nat) : (r : List Member) → ∀ (m : Member) (x : Nat), Spec.fixedMs (m :: r) = true →
    endLay_p16 S (m :: r) (alignUp x (Spec.alignMember m)) = alignUp (Spec.endMs (m :: r) x false) S
  | [], m, x, hf => by
    obtain ⟨n, t, k⟩ := m
    obtain ⟨_, ht, _⟩ := (Spec.fixedMs_cons n t k []).1 hf
    rw [Spec.endMs_cons]
    simp only [endLay_p16, aN, Spec.endMs, Bool.false_eq_true, if_false, mslot_fixed n t k ht]
  | m' :: r', m, x, hf => by
    obtain ⟨n, t, k⟩ := m
    obtain ⟨_, ht, hr⟩ := (Spec.fixedMs_cons n t k _).1 hf
    have ih := endLay_eq_p16 S r' m' (alignUp x (Spec.alignMember (.mk n t k)) + mslot (.mk n t k)) hr
    have he := Spec.endsBlock_of_fixed n t k _ hf
    rw [Spec.endMs_cons, he]
    simp only [Bool.false_eq_true, if_false]
    rw [← mslot_fixed n t k ht, ← ih]
    simp only [endLay_p16, aN, Bool.false_eq_true, if_false]

theorem endLay_size_p16 (nm : String) (ms : List Member) (hf : Spec.fixedMs ms = true) :
    endLay_p16 (Spec.alignMs ms) ms 0 = Spec.sizeTy (.struct nm ms) := by
  cases ms with
  | nil => simp [endLay_p16, Spec.sizeTy, Spec.endMs, alignUp, padTo_zero]
  | cons m r =>
    have := endLay_eq_p16 (Spec.alignMs (m :: r)) r m 0 hf
    simp only [alignUp, padTo_zero, Nat.add_zero] at this
    simp only [Spec.sizeTy, alignUp]
    exact this

theorem padLen_nat_p16 (x pos : Nat) : padLen ((x : Nat) : Int) pos = x := by
  unfold padLen
  rw [if_neg (by omega)]
  exact Int.toNat_natCast _

theorem lay_fixed_cons_p16 (S : Nat) (m : Member) (r : List Member) (bs : Nat) (he : Spec.endsBlock m = false) :
    lay S false (m :: r) false bs =
      (mslot m, Spec.alignMember m, ((padTo (bs + mslot m) (aN S false r) : Nat) : Int)) ::
        lay S false r false (alignUp (bs + mslot m) (aN S false r)) := by
  rw [lay_cons, he]
  have h1 : aN S false (m :: r) = Spec.alignMember m := by simp [aN]
  have h2 : padOf S false m r (bs + mslot m) = ((padTo (bs + mslot m) (aN S false r) : Nat) : Int) := by
    unfold padOf dynFlag
    rw [he]
    cases r <;> simp
  rw [h1, h2]

theorem encVal_length_p16 (e : Endian) (t : Ty) (v : Val) (pos : Nat) (hf : Spec.fixedTy t = true)
    (H : (encTy e t v pos).length = Spec.sizeTy t) : (encVal e t v pos).length = Spec.sizeTy t := by
  have hc := codecSize_fixed t hf
  unfold encVal
  rw [if_pos (by omega), overlay_length, hc, H]
  simp

theorem mslot_plain_p16 (n : String) (t : Ty) (hf : Spec.fixedTy t = true) : mslot (.mk n t .plain) = Spec.sizeTy t := by
  rw [mslot_fixed n t .plain hf]; rfl

theorem fplain_p16 (e : Endian) (all : List Member) (allv : List Val) (n : String) (t : Ty) (v : Val) (pos : Nat)
    (hf : Spec.fixedTy t = true) (hns : isSizer n all = false) (H : (encTy e t v pos).length = Spec.sizeTy t) :
    (fieldCells e all allv n t .plain v (mslot (.mk n t .plain)) pos).length = mslot (.mk n t .plain) ∧
      (MKind.plain = .plain → v.isCounter = false → (encTy e t v pos).length = Spec.sizeTy t) := by
  refine ⟨?_, fun _ _ => H⟩
  rw [fieldCells_plain e all allv n t v _ pos hns, mslot_plain_p16 n t hf]
  exact encVal_length_p16 e t v pos hf H

theorem encElems_zero_p16 (e : Endian) (t : Ty) (xs : List Val) (pos : Nat) : encElems e t xs 0 pos = [] := by
  cases xs <;> simp [encElems]

theorem encElems_nil_p16 (e : Endian) (t : Ty) (n pos : Nat) : encElems e t [] n pos = [] := by
  simp [encElems]

end Cpp

namespace Cpp

mutual
  theorem ffield_p16 (e : Endian) : (v : Val) → ∀ (all : List Member) (allv : List Val) (n : String) (t : Ty)
      (k : MKind) (pos : Nat), TyOk t → Spec.fixedTy t = true → k.isStatic = true →
      (k = .optional → max 4 (cppAlign t) = max 4 (Spec.alignTy t)) →
      objField k t v = true → v.isCounter = isSizer n all → CounterLen_p16 e all allv n t →
      (fieldCells e all allv n t k v (mslot (.mk n t k)) pos).length = mslot (.mk n t k) ∧
        (k = .plain → v.isCounter = false → (encTy e t v pos).length = Spec.sizeTy t)
    | .sizer, all, allv, n, t, k, pos, hT, hfx, hst, hop, ho, hc, hs => by
      have hk : k = .plain := by cases k <;> simp_all [objField]
      subst hk
      have hsz : isSizer n all = true := by simpa [Val.isCounter] using hc.symm
      obtain ⟨p, rfl, hcc⟩ := hs hsz
      refine ⟨?_, fun _ h => by simp [Val.isCounter] at h⟩
      rw [mslot_plain_p16 n _ rfl]
      simp [fieldCells, hsz, hcc, Spec.sizeTy]
    | .int i, all, allv, n, t, k, pos, hT, hfx, hst, hop, ho, hc, hs => by
      have hns : isSizer n all = false := by simpa [Val.isCounter] using hc.symm
      have hk : k = .plain := by cases k <;> cases t <;> simp_all [objField]
      subst hk
      apply fplain_p16 e all allv n t _ pos hfx hns
      cases t with
      | prim p => simp [encTy, Spec.sizeTy]
      | byte => simp [encTy, Spec.sizeTy]
      | enum nm es => simp [encTy, Spec.sizeTy]
      | struct nm ms => simp [objField] at ho
      | union nm arms => simp [objField] at ho
    | .struct vs, all, allv, n, t, k, pos, hT, hfx, hst, hop, ho, hc, hs => by
      have hns : isSizer n all = false := by simpa [Val.isCounter] using hc.symm
      cases t with
      | struct nm ms =>
        have hk : k = .plain := by cases k <;> simp_all [objField]
        subst hk
        apply fplain_p16 e all allv n _ _ pos hfx hns
        have hom : objMs ms ms vs = true := by simpa [objField] using ho
        obtain ⟨hu, hM⟩ := hT.struct
        have hfm : Spec.fixedMs ms = true := by simpa [Spec.fixedTy] using hfx
        have cf := counterLen_p16 e ms vs hu hM.wf hom
        have H := fms_p16 e vs ms ms vs (Spec.alignMs ms) 0 pos cf (fun m hm => hm) hM hfm hom
        simp only [encTy]
        rw [structMembers_eq_lay ms hM.wf hM.ok, Spec.dynMs_of_fixed ms hfm, ← endLay_size_p16 nm ms hfm, ← H]
        simp
      | prim p => cases k <;> simp [objField] at ho
      | byte => cases k <;> simp [objField] at ho
      | enum nm es => cases k <;> simp [objField] at ho
      | union nm arms => cases k <;> simp [objField] at ho
    | .union idx x, all, allv, n, t, k, pos, hT, hfx, hst, hop, ho, hc, hs => by
      have hns : isSizer n all = false := by simpa [Val.isCounter] using hc.symm
      cases t with
      | union nm arms =>
        have hk : k = .plain := by cases k <;> simp_all [objField]
        subst hk
        apply fplain_p16 e all allv n _ _ pos hfx hns
        simp only [objField, Bool.true_and] at ho
        cases ha : arms[idx]? with
        | none => simp [ha] at ho
        | some a =>
          obtain ⟨an, d, t'⟩ := a
          simp only [ha, Bool.and_eq_true, Bool.not_eq_true'] at ho
          obtain ⟨hT', hfx', hd⟩ := hT.arm idx _ ha
          simp only [Arm.ty, Arm.disc] at hT' hfx' hd
          have hnal := PL.nodeTy_align_cppenc (.union nm arms)
          have hnsz := PL.nodeTy_size_fixed (.union nm arms) hfx
          have hA : Spec.alignTy (.union nm arms) = max 4 (Spec.alignArms arms) := by simp [Spec.alignTy, Spec.flagSize]
          have hdp' : ∀ al, al = max 4 (Spec.alignArms arms) →
              (if al > PL.discSize then al - PL.discSize else 0) = max 4 (Spec.alignArms arms) - 4 := by
            intro al h; subst h
            have hd4 : PL.discSize = 4 := rfl
            by_cases h4 : max 4 (Spec.alignArms arms) > PL.discSize
            · rw [if_pos h4, hd4]
            · rw [if_neg h4]; omega
          have hdp := hdp' _ (hnal.trans hA)
          have hge : max 4 (Spec.alignArms arms) + Spec.maxArm arms ≤ Spec.sizeTy (.union nm arms) := by
            simp only [Spec.sizeTy, Spec.flagSize]; exact le_alignUp _ _
          have hx := (ffield_p16 e x [] [] "" t' .plain (pos + 4 + (max 4 (Spec.alignArms arms) - 4))
            hT' hfx' rfl (by intro h; cases h) ho.2 (by rw [ho.1]; rfl) (by intro h; cases h)).2 rfl ho.1
          have hle := Spec.le_maxArm arms idx _ ha
          simp only [Arm.ty] at hle
          simp only [encTy, ha, hdp, hnsz]
          simp only [List.length_append, written_length, scalarBytes_length, skip_length, overlay_length, hx,
            PL.discSize]
          omega
      | prim p => cases k <;> simp [objField] at ho
      | byte => cases k <;> simp [objField] at ho
      | enum nm es => cases k <;> simp [objField] at ho
      | struct nm ms => cases k <;> simp [objField] at ho
    | .absent, all, allv, n, t, k, pos, hT, hfx, hst, hop, ho, hc, hs => by
      have hk : k = .optional := by cases k <;> simp_all [objField]
      subst hk
      refine ⟨?_, fun h => by cases h⟩
      have hcs := codecSize_fixed t hfx
      have hop' := optPad t (hop rfl)
      rw [mslot_fixed n t .optional hfx]
      simp only [fieldCells, Spec.slot, hcs, hop', List.length_append, written_length, scalarBytes_length,
        skip_length, Int.toNat_natCast, Spec.flagSize]
      omega
    | .present x, all, allv, n, t, k, pos, hT, hfx, hst, hop, ho, hc, hs => by
      have hk : k = .optional := by cases k <;> simp_all [objField]
      subst hk
      refine ⟨?_, fun h => by cases h⟩
      simp only [objField, Bool.true_and, Bool.and_eq_true, Bool.not_eq_true'] at ho
      have hop' := optPad t (hop rfl)
      have hv : ∀ q, (encVal e t x q).length = Spec.sizeTy t := fun q =>
        encVal_length_p16 e t x q hfx
          ((ffield_p16 e x [] [] "" t .plain q
            hT hfx rfl (by intro h; cases h) ho.2 (by rw [ho.1]; rfl) (by intro h; cases h)).2 rfl ho.1)
      rw [mslot_fixed n t .optional hfx]
      simp only [fieldCells, Spec.slot, hop', List.length_append, hv, written_length, scalarBytes_length,
        skip_length, Spec.flagSize]
      omega
    | .bytes b, all, allv, n, t, k, pos, hT, hfx, hst, hop, ho, hc, hs => by
      have ht : t = .byte := by cases t <;> simp_all [objField]
      subst ht
      cases k with
      | plain => simp [objField] at ho
      | optional => simp [objField] at ho
      | fixed c =>
        refine ⟨?_, fun h => by cases h⟩
        have hl : b.length = c := by simpa [objField] using ho
        rw [mslot_fixed n .byte _ rfl]
        simp [fieldCells, Spec.slot, Spec.sizeTy, hl]
      | dyn s sh => simp [MKind.isStatic] at hst
      | limited s c =>
        refine ⟨?_, fun h => by cases h⟩
        have := castCount_le_p16 (sizerPrimOf s all) (min b.length c)
        rw [mslot_fixed n .byte _ rfl]
        simp only [fieldCells, Spec.slot, Spec.sizeTy, overlay_length, written_length, List.length_take]
        omega
      | greedy => simp [MKind.isStatic] at hst
    | .arr xs, all, allv, n, t, k, pos, hT, hfx, hst, hop, ho, hc, hs => by
      have hel : objElems t xs = true := by
        cases t <;> simp_all [objField]
      cases k with
      | plain => cases t <;> simp [objField] at ho
      | optional => cases t <;> simp [objField] at ho
      | fixed c =>
        refine ⟨?_, fun h => by cases h⟩
        have hl : xs.length = c := by cases t <;> simp_all [objField]
        have h1 := felems_p16 e xs t c pos hT hfx hel
        rw [mslot_fixed n t _ hfx]
        simp only [fieldCells, Spec.slot, h1, hl, Nat.min_self]
      | dyn s sh => simp [MKind.isStatic] at hst
      | greedy => simp [MKind.isStatic] at hst
      | limited s c =>
        refine ⟨?_, fun h => by cases h⟩
        have hcl := castCount_le_p16 (sizerPrimOf s all) (min xs.length c)
        have h1 := felems_p16 e xs t (castCount (sizerPrimOf s all) (min xs.length c)) pos hT hfx hel
        have hle : min (castCount (sizerPrimOf s all) (min xs.length c)) xs.length ≤ c := by omega
        have := Nat.mul_le_mul_right (Spec.sizeTy t) hle
        rw [mslot_fixed n t _ hfx]
        simp only [fieldCells, Spec.slot, overlay_length, h1]
        omega
  theorem fms_p16 (e : Endian) : (vs : List Val) → ∀ (ms all : List Member) (allv : List Val) (S bs pos : Nat),
      (∀ n t k, Member.mk n t k ∈ all → CounterLen_p16 e all allv n t) → (∀ m ∈ ms, m ∈ all) → MsOk all ms →
      Spec.fixedMs ms = true → objMs all ms vs = true →
      bs + (encMs e all allv ms vs (lay S false ms false bs) pos).length = endLay_p16 S ms bs
    | [], ms, all, allv, S, bs, pos, cf, hsub, hM, hfm, ho => by
      have hms : ms = [] := by cases ms <;> simp_all [objMs]
      subst hms
      simp [encMs, endLay_p16]
    | v :: vs, ms, all, allv, S, bs, pos, cf, hsub, hM, hfm, ho => by
      cases ms with
      | nil => simp [objMs] at ho
      | cons m r =>
        obtain ⟨n, t, k⟩ := m
        obtain ⟨hT, _, _, hopt, hMr⟩ := hM.cons
        obtain ⟨hst, hft, hfr⟩ := (Spec.fixedMs_cons n t k r).1 hfm
        obtain ⟨hcnt, hf, hor⟩ := (objMs_cons_p16 all n t k r v vs).1 ho
        have hmem : Member.mk n t k ∈ all := hsub _ (List.mem_cons_self ..)
        have he := Spec.endsBlock_of_fixed n t k r hfm
        have hL := (ffield_p16 e v all allv n t k pos hT hft hst hopt hf hcnt (cf n t k hmem)).1
        rw [lay_fixed_cons_p16 S _ r bs he, encMs_cons, hL, padLen_nat_p16]
        have ih := fms_p16 e vs r all allv S (alignUp (bs + mslot (.mk n t k)) (aN S false r))
          (pos + mslot (.mk n t k) + padTo (bs + mslot (.mk n t k)) (aN S false r)) cf
          (fun m hm => hsub m (List.mem_cons_of_mem _ hm)) hMr hfr hor
        simp only [endLay_p16, List.length_append, hL, skip_length]
        rw [← ih]
        simp only [alignUp]
        omega
  theorem felems_p16 (e : Endian) : (xs : List Val) → ∀ (t : Ty) (cnt pos : Nat), TyOk t → Spec.fixedTy t = true →
      objElems t xs = true → (encElems e t xs cnt pos).length = min cnt xs.length * Spec.sizeTy t
    | [], t, cnt, pos, hT, hfx, ho => by
      simp [encElems_nil_p16]
    | x :: xs, t, cnt, pos, hT, hfx, ho => by
      simp only [objElems, Bool.and_eq_true, Bool.not_eq_true'] at ho
      cases cnt with
      | zero => simp [encElems_zero_p16]
      | succ c =>
        have hx := (ffield_p16 e x [] [] "" t .plain pos hT hfx rfl (by intro h; cases h) ho.1.2 (by rw [ho.1.1]; rfl)
          (by intro h; cases h)).2 rfl ho.1.1
        have hv := encVal_length_p16 e t x pos hfx hx
        have ih := felems_p16 e xs t c (pos + (encVal e t x pos).length) hT hfx ho.2
        rw [encElems_cons, List.length_append, hv, ← hv, ih, hv, List.length_cons, Nat.succ_min_succ, Nat.succ_mul]
        omega
end

end Cpp

/-! ## Part B: helpers of the main induction -/
namespace Cpp

theorem alignUp_mono_p16 (x y a : Nat) (ha : 0 < a) (h : x ≤ y) : alignUp x a ≤ alignUp y a := by
  obtain ⟨c1, h1⟩ := dvd_alignUp x a ha
  obtain ⟨c2, h2⟩ := dvd_alignUp y a ha
  have h3 := alignUp_lt x a ha
  have h4 := le_alignUp y a
  rw [h1, h2] at *
  apply Nat.mul_le_mul_left
  have h5 : a * c1 < a * (c2 + 1) := by rw [Nat.mul_succ]; omega
  have := Nat.lt_of_mul_lt_mul_left h5
  omega

/-- the running size of `get_byte_size` never falls behind the encoder -/
theorem bszStep_ge_p16 (off L : Nat) (cur inc : Int) (static0 : Bool) (padding : Int)
    (hcur : (off : Int) ≤ cur) (hinc : (L : Int) ≤ inc)
    (hz : static0 = false → 0 ≤ padding → padding = 0) :
    ((off + L + padLen padding (off + L) : Nat) : Int) ≤ bszStep cur inc static0 padding := by
  unfold bszStep padLen
  by_cases hp : padding < 0
  · rw [if_pos hp, if_pos hp]
    have hm : max padding 0 = 0 := by omega
    have hn : 0 < padding.natAbs := by omega
    have hc : cur + inc + (if static0 = true then max padding 0 else 0) = (((cur + inc).toNat : Nat) : Int) := by
      cases static0 <;> simp [hm] <;> omega
    rw [hc, nearest_eq _ _ hn]
    have := alignUp_mono_p16 (off + L) (cur + inc).toNat padding.natAbs hn (by omega)
    have h2 : off + L + padTo (off + L) padding.natAbs = alignUp (off + L) padding.natAbs := rfl
    rw [h2]
    omega
  · rw [if_neg hp, if_neg hp]
    cases hs : static0 with
    | true =>
      simp only [if_true]
      omega
    | false =>
      have := hz hs (by omega)
      subst this
      simp
      omega

theorem codecSize_neg_p16 (t : Ty) (h : (PL.nodeTy t).kind ≠ 0) : ¬ (codecSize t ≥ 0) :=
  fun hc => h (codecSize_nonneg t hc).2

theorem encVal_dyn_p16 (e : Endian) (t : Ty) (v : Val) (pos : Nat) (h : (PL.nodeTy t).kind ≠ 0) :
    encVal e t v pos = encTy e t v pos := by
  unfold encVal
  rw [if_neg (codecSize_neg_p16 t h)]

def fitK_p16 (all : List Member) (k : MKind) (v : Val) : Bool :=
  match k with
  | .dyn s _ => decide (v.len < 256 ^ (sizerPrimOf s all).size)
  | _ => true

theorem fitMs_cons_p16 (all : List Member) (n : String) (t : Ty) (k : MKind) (r : List Member) (v : Val) (vs : List Val) :
    fitMs all (.mk n t k :: r) (v :: vs) = true ↔
      fitK_p16 all k v = true ∧ fitTy t v = true ∧ fitMs all r vs = true := by
  simp only [fitMs, fitK_p16, Bool.and_eq_true, and_assoc]

/-- what the main induction shows of one member's statement -/
structure FieldLen_p16 (e : Endian) (all : List Member) (allv : List Val) (n : String) (t : Ty) (k : MKind) (v : Val)
    (pos : Nat) : Prop where
  lenok : LenOk (.mk n t k) (fieldCells e all allv n t k v (mslot (.mk n t k)) pos).length
  le : ((fieldCells e all allv n t k v (mslot (.mk n t k)) pos).length : Int)
        ≤ bszInc t k v (decide ((PL.nodeTy t).kind = 0)) (mslot (.mk n t k))
  eq : fitK_p16 all k v = true → fitTy t v = true →
      ((fieldCells e all allv n t k v (mslot (.mk n t k)) pos).length : Int)
        = bszInc t k v (decide ((PL.nodeTy t).kind = 0)) (mslot (.mk n t k))
  ty : k = .plain → v.isCounter = false → (PL.nodeTy t).kind ≠ 0 →
      Spec.alignTy t ∣ (encTy e t v pos).length ∧ ((encTy e t v pos).length : Int) ≤ byteSizeTy t v ∧
        (fitTy t v = true → ((encTy e t v pos).length : Int) = byteSizeTy t v)

theorem dyn_shape_p16 (all : List Member) (n : String) (t : Ty) (k : MKind) (v : Val) (hMO : MemberOk t k)
    (hk0 : (PL.nodeTy t).kind ≠ 0) (ho : objField k t v = true) (hc : v.isCounter = isSizer n all)
    (hs : isSizer n all = true → ∃ p, t = .prim p) :
    (k = .plain ∧ ∃ nm ms vs, t = .struct nm ms ∧ v = .struct vs) ∨
      (((∃ s sh, k = .dyn s sh) ∨ k = .greedy) ∧ ∃ xs, v = .arr xs) := by
  cases t with
  | prim p => simp [PL.nodeTy] at hk0
  | byte => simp [PL.nodeTy] at hk0
  | enum nm es => simp [PL.nodeTy] at hk0
  | union nm arms => simp [PL.nodeTy, PL.unionNode] at hk0
  | struct nm ms =>
    cases k with
    | optional => exact absurd (hMO.opt rfl) hk0
    | fixed c => exact absurd (hMO.sized rfl) hk0
    | limited s c => exact absurd (hMO.sized rfl) hk0
    | plain =>
      cases v with
      | struct vs => exact Or.inl ⟨rfl, nm, ms, vs, rfl, rfl⟩
      | sizer =>
        have hsz : isSizer n all = true := by simpa [Val.isCounter] using hc.symm
        obtain ⟨p, hp⟩ := hs hsz
        cases hp
      | _ => simp [objField] at ho
    | dyn s sh =>
      cases v with
      | arr xs => exact Or.inr ⟨Or.inl ⟨s, sh, rfl⟩, xs, rfl⟩
      | _ => simp [objField] at ho
    | greedy =>
      cases v with
      | arr xs => exact Or.inr ⟨Or.inr rfl, xs, rfl⟩
      | _ => simp [objField] at ho

theorem mslot_dyn_p16 (n : String) (t : Ty) (s : String) (sh : Nat) : mslot (.mk n t (.dyn s sh)) = 0 := by
  simp [mslot, PL.memOf, Member.kind]

theorem mslot_greedy_p16 (n : String) (t : Ty) : mslot (.mk n t .greedy) = 0 := by
  simp [mslot, PL.memOf, Member.kind]

theorem castCount_fit_p16 (p : Prim) (len : Nat) (h : len < 256 ^ p.size) : castCount p len = len :=
  Nat.mod_eq_of_lt h

end Cpp

namespace Cpp

/-- a dynamic or greedy array of fixed-size elements of which the encoder writes `cnt` -/
theorem k0_dynlike_p16 (e : Endian) (all : List Member) (allv : List Val) (n : String) (t : Ty) (k : MKind) (v : Val)
    (pos cnt : Nat) (hk : k.isStatic = false) (hk0 : (PL.nodeTy t).kind = 0) (hf : Spec.fixedTy t = true)
    (hL : (fieldCells e all allv n t k v (mslot (.mk n t k)) pos).length = cnt * Spec.sizeTy t)
    (hcl : cnt ≤ v.len) (hfit : fitK_p16 all k v = true → cnt = v.len) : FieldLen_p16 e all allv n t k v pos := by
  have hsz := PL.nodeTy_size_fixed t hf
  have hdv := Spec.alignTy_dvd_sizeTy t
  have hend : Spec.endsBlock (.mk n t k) = true := by cases k <;> simp_all [MKind.isStatic, Spec.endsBlock, Member.kind]
  have hms : mslot (.mk n t k) = 0 := by cases k <;> simp_all [MKind.isStatic, mslot, PL.memOf, Member.kind]
  have hal : Spec.alignMember (.mk n t k) = Spec.alignTy t := by
    cases k <;> simp_all [MKind.isStatic, Spec.alignMember, Member.kind, Member.ty]
  have hinc : bszInc t k v (decide ((PL.nodeTy t).kind = 0)) (mslot (.mk n t k)) = ((v.len * Spec.sizeTy t : Nat) : Int) := by
    simp [bszInc, hk0, hk, hsz]
  refine ⟨⟨(fun he => by rw [hend] at he; cases he), fun _ => ⟨?_, ?_⟩⟩, ?_, ?_, fun _ _ h => absurd hk0 h⟩
  · rw [hL, hal]; exact Nat.dvd_trans hdv (Nat.dvd_mul_left _ _)
  · rw [hms]; exact Nat.dvd_zero _
  · rw [hL, hinc]
    exact_mod_cast Nat.mul_le_mul_right (Spec.sizeTy t) hcl
  · intro h _
    rw [hL, hinc, hfit h]

/-- members whose type is of fixed size: the statement's length is static (or the elements written) -/
theorem field_k0_p16 (e : Endian) (all : List Member) (allv : List Val) (n : String) (t : Ty) (k : MKind) (v : Val)
    (pos : Nat) (hT : TyOk t) (hopt : k = .optional → max 4 (cppAlign t) = max 4 (Spec.alignTy t))
    (ho : objField k t v = true) (hc : v.isCounter = isSizer n all) (hs : CounterLen_p16 e all allv n t)
    (hk0 : (PL.nodeTy t).kind = 0) : FieldLen_p16 e all allv n t k v pos := by
  have hf := fixed_of_kind t hT.ok hk0
  cases hst : k.isStatic with
  | true =>
    have hL := (ffield_p16 e v all allv n t k pos hT hf hst hopt ho hc hs).1
    have hne : Spec.endsBlock (.mk n t k) = false :=
      Spec.endsBlock_of_fixed n t k [] ((Spec.fixedMs_cons n t k []).2 ⟨hst, hf, rfl⟩)
    refine ⟨⟨fun _ => hL, (fun he => by rw [hne] at he; cases he)⟩, ?_, ?_, fun _ _ h => absurd hk0 h⟩
    · rw [hL]; simp [bszInc, hk0, hst]
    · intro _ _; rw [hL]; simp [bszInc, hk0, hst]
  | false =>
    cases k with
    | plain => simp [MKind.isStatic] at hst
    | optional => simp [MKind.isStatic] at hst
    | fixed c => simp [MKind.isStatic] at hst
    | limited s c => simp [MKind.isStatic] at hst
    | dyn s sh =>
      cases v with
      | arr xs =>
        have hel : objElems t xs = true := by cases t <;> simp_all [objField]
        have hcl := castCount_le_p16 (sizerPrimOf s all) xs.length
        have h1 := felems_p16 e xs t (castCount (sizerPrimOf s all) xs.length) pos hT hf hel
        rw [Nat.min_eq_left hcl] at h1
        refine k0_dynlike_p16 e all allv n t _ _ pos (castCount (sizerPrimOf s all) xs.length) hst hk0 hf
          (by simp only [fieldCells, h1]) hcl (fun h => castCount_fit_p16 _ _ (by simp only [fitK_p16, Val.len] at h; exact of_decide_eq_true h))
      | bytes b =>
        have ht : t = .byte := by cases t <;> simp_all [objField]
        subst ht
        have hcl := castCount_le_p16 (sizerPrimOf s all) b.length
        refine k0_dynlike_p16 e all allv n .byte _ _ pos (castCount (sizerPrimOf s all) b.length) hst hk0 hf
          (by simp only [fieldCells, written_length, List.length_take, Spec.sizeTy]; omega) hcl
          (fun h => castCount_fit_p16 _ _ (by simp only [fitK_p16, Val.len] at h; exact of_decide_eq_true h))
      | _ => cases t <;> simp [objField] at ho
    | greedy =>
      cases v with
      | arr xs =>
        have hel : objElems t xs = true := by cases t <;> simp_all [objField]
        have h1 := felems_p16 e xs t xs.length pos hT hf hel
        rw [Nat.min_self] at h1
        exact k0_dynlike_p16 e all allv n t _ _ pos xs.length hst hk0 hf
          (by simp only [fieldCells, h1]) (Nat.le_refl _) (fun _ => rfl)
      | bytes b =>
        have ht : t = .byte := by cases t <;> simp_all [objField]
        subst ht
        exact k0_dynlike_p16 e all allv n .byte _ _ pos b.length hst hk0 hf
          (by simp only [fieldCells, written_length, Spec.sizeTy]; omega) (Nat.le_refl _) (fun _ => rfl)
      | _ => cases t <;> simp [objField] at ho

end Cpp

/-! ## Part C: the pointer encoder against `get_byte_size`, for every object -/
namespace Cpp

mutual
  theorem field_len_p16 (e : Endian) : (v : Val) → ∀ (all : List Member) (allv : List Val) (n : String) (t : Ty)
      (k : MKind) (pos : Nat), TyOk t → MemberOk t k →
      (k = .optional → max 4 (cppAlign t) = max 4 (Spec.alignTy t)) →
      objField k t v = true → v.isCounter = isSizer n all → CounterLen_p16 e all allv n t →
      Spec.alignMember (.mk n t k) ∣ pos → FieldLen_p16 e all allv n t k v pos
    | .struct vs, all, allv, n, t, k, pos, hT, hMO, hopt, ho, hc, hs, hpos => by
      by_cases hk0 : (PL.nodeTy t).kind = 0
      · exact field_k0_p16 e all allv n t k _ pos hT hopt ho hc hs hk0
      · rcases dyn_shape_p16 all n t k _ hMO hk0 ho hc (fun h => by obtain ⟨p, hp, _⟩ := hs h; exact ⟨p, hp⟩)
          with ⟨rfl, nm, ms, vs', rfl, hv⟩ | ⟨_, _, hv⟩
        · cases hv
          have hns : isSizer n all = false := by simpa [Val.isCounter] using hc.symm
          have hom : objMs ms ms vs = true := by simpa [objField] using ho
          obtain ⟨hu, hM⟩ := hT.struct
          have cf := counterLen_p16 e ms vs hu hM.wf hom
          have hS : Spec.alignMs ms ∣ pos := hpos
          have H := ms_len_p16 e vs ms ms vs (Spec.alignMs ms) false 0 0 (Spec.alignMs ms) pos 0 (Spec.alignMs_isAl ms) hS cf
            (fun m hm => hm) hM hom (layInv_init ms) (by simp [alignUp, padTo_zero])
          simp only [Nat.zero_add, Nat.add_zero] at H
          obtain ⟨hdv, hb⟩ := H
          obtain ⟨hle, heq⟩ := hb 0 0 (by simp)
          have henc : encTy e (.struct nm ms) (.struct vs) pos
              = encMs e ms vs ms vs (lay (Spec.alignMs ms) (Spec.dynMs ms) ms false 0) pos := by
            simp only [encTy]; rw [structMembers_eq_lay ms hM.wf hM.ok]
          have hbs : byteSizeTy (.struct nm ms) (.struct vs)
              = byteSizeMs ms ms vs (PL.memsOf ms) (lay (Spec.alignMs ms) (Spec.dynMs ms) ms false 0) 0 0 := by
            rw [byteSizeTy_struct, structMembers_eq_lay ms hM.wf hM.ok]
          have hty : Spec.alignTy (.struct nm ms) ∣ (encTy e (.struct nm ms) (.struct vs) pos).length ∧
              ((encTy e (.struct nm ms) (.struct vs) pos).length : Int) ≤ byteSizeTy (.struct nm ms) (.struct vs) ∧
              (fitTy (.struct nm ms) (.struct vs) = true →
                ((encTy e (.struct nm ms) (.struct vs) pos).length : Int) = byteSizeTy (.struct nm ms) (.struct vs)) := by
            rw [henc, hbs]
            exact ⟨hdv, hle, fun hfit => (heq (by simpa [fitTy] using hfit) (by simp)).symm⟩
          have hcells : fieldCells e all allv n (.struct nm ms) .plain (.struct vs)
              (mslot (.mk n (.struct nm ms) .plain)) pos = encTy e (.struct nm ms) (.struct vs) pos := by
            rw [fieldCells_plain e all allv n _ _ _ pos hns, encVal_dyn_p16 e _ _ pos hk0]
          have hinc : bszInc (.struct nm ms) .plain (.struct vs) (decide ((PL.nodeTy (.struct nm ms)).kind = 0))
              (mslot (.mk n (.struct nm ms) .plain)) = byteSizeTy (.struct nm ms) (.struct vs) := by
            simp [bszInc, hk0, MKind.isStatic]
          have hend : Spec.endsBlock (.mk n (.struct nm ms) .plain) = true := by
            have := (kind_ne_zero_iff _ hT.wf hT.ok).1 hk0
            simpa [Spec.endsBlock, Member.kind, Member.ty] using this
          refine ⟨⟨(fun he => by rw [hend] at he; cases he), fun _ => ⟨?_, ?_⟩⟩, ?_, ?_, fun _ _ _ => hty⟩
          · rw [hcells]; exact hty.1
          · have := PL.nodeTy_align_dvd_size (.struct nm ms)
            rw [PL.nodeTy_align_cppenc] at this
            exact this
          · rw [hcells, hinc]; exact hty.2.1
          · intro _ hfit; rw [hcells, hinc]; exact hty.2.2 hfit
        · cases hv
    | .arr xs, all, allv, n, t, k, pos, hT, hMO, hopt, ho, hc, hs, hpos => by
      by_cases hk0 : (PL.nodeTy t).kind = 0
      · exact field_k0_p16 e all allv n t k _ pos hT hopt ho hc hs hk0
      · have hel : objElems t xs = true := by cases t <;> simp_all [objField]
        have hmdv : Spec.alignTy t ∣ (PL.nodeTy t).size := by
          have := PL.nodeTy_align_dvd_size t
          rw [PL.nodeTy_align_cppenc] at this
          exact this
        rcases dyn_shape_p16 all n t k _ hMO hk0 ho hc (fun h => by obtain ⟨p, hp, _⟩ := hs h; exact ⟨p, hp⟩)
          with ⟨_, _, _, _, _, hv⟩ | ⟨⟨s, sh, rfl⟩ | rfl, xs', hv⟩
        · cases hv
        · have hposT : Spec.alignTy t ∣ pos := hpos
          obtain ⟨hd, hle, heq⟩ := elems_len_p16 e xs t (castCount (sizerPrimOf s all) xs.length) pos hT hk0 hel hposT
          have hinc : bszInc t (.dyn s sh) (.arr xs) (decide ((PL.nodeTy t).kind = 0)) (mslot (.mk n t (.dyn s sh)))
              = byteSizeElems t xs := by
            simp [bszInc, hk0, MKind.isStatic]
          have hcells : fieldCells e all allv n t (.dyn s sh) (.arr xs) (mslot (.mk n t (.dyn s sh))) pos
              = encElems e t xs (castCount (sizerPrimOf s all) xs.length) pos := by
            simp only [fieldCells]
          refine ⟨⟨(fun he => by simp [Spec.endsBlock, Member.kind] at he), fun _ => ⟨?_, ?_⟩⟩, ?_, ?_,
            (fun h => by cases h)⟩
          · rw [hcells]; exact hd
          · rw [mslot_dyn_p16]; exact Nat.dvd_zero _
          · rw [hcells, hinc]; exact hle
          · intro hfk hfit
            rw [hcells, hinc]
            have hlt : xs.length < 256 ^ (sizerPrimOf s all).size := by
              simp only [fitK_p16, Val.len] at hfk; exact of_decide_eq_true hfk
            refine heq (by simpa [fitTy] using hfit) ?_
            rw [castCount_fit_p16 _ _ hlt]
            exact Nat.le_refl _
        · have hposT : Spec.alignTy t ∣ pos := hpos
          obtain ⟨hd, hle, heq⟩ := elems_len_p16 e xs t xs.length pos hT hk0 hel hposT
          have hinc : bszInc t .greedy (.arr xs) (decide ((PL.nodeTy t).kind = 0)) (mslot (.mk n t .greedy))
              = byteSizeElems t xs := by
            simp [bszInc, hk0, MKind.isStatic]
          have hcells : fieldCells e all allv n t .greedy (.arr xs) (mslot (.mk n t .greedy)) pos
              = encElems e t xs xs.length pos := by
            simp only [fieldCells]
          refine ⟨⟨(fun he => by simp [Spec.endsBlock, Member.kind] at he), fun _ => ⟨?_, ?_⟩⟩, ?_, ?_,
            (fun h => by cases h)⟩
          · rw [hcells]; exact hd
          · rw [mslot_greedy_p16]; exact Nat.dvd_zero _
          · rw [hcells, hinc]; exact hle
          · intro _ hfit
            rw [hcells, hinc]
            exact heq (by simpa [fitTy] using hfit) (Nat.le_refl _)
    | .int i, all, allv, n, t, k, pos, hT, hMO, hopt, ho, hc, hs, hpos => by
      by_cases hk0 : (PL.nodeTy t).kind = 0
      · exact field_k0_p16 e all allv n t k _ pos hT hopt ho hc hs hk0
      · rcases dyn_shape_p16 all n t k _ hMO hk0 ho hc (fun h => by obtain ⟨p, hp, _⟩ := hs h; exact ⟨p, hp⟩)
          with ⟨_, _, _, _, _, hv⟩ | ⟨_, _, hv⟩ <;> cases hv
    | .bytes b, all, allv, n, t, k, pos, hT, hMO, hopt, ho, hc, hs, hpos => by
      by_cases hk0 : (PL.nodeTy t).kind = 0
      · exact field_k0_p16 e all allv n t k _ pos hT hopt ho hc hs hk0
      · rcases dyn_shape_p16 all n t k _ hMO hk0 ho hc (fun h => by obtain ⟨p, hp, _⟩ := hs h; exact ⟨p, hp⟩)
          with ⟨_, _, _, _, _, hv⟩ | ⟨_, _, hv⟩ <;> cases hv
    | .union idx x, all, allv, n, t, k, pos, hT, hMO, hopt, ho, hc, hs, hpos => by
      by_cases hk0 : (PL.nodeTy t).kind = 0
      · exact field_k0_p16 e all allv n t k _ pos hT hopt ho hc hs hk0
      · rcases dyn_shape_p16 all n t k _ hMO hk0 ho hc (fun h => by obtain ⟨p, hp, _⟩ := hs h; exact ⟨p, hp⟩)
          with ⟨_, _, _, _, _, hv⟩ | ⟨_, _, hv⟩ <;> cases hv
    | .absent, all, allv, n, t, k, pos, hT, hMO, hopt, ho, hc, hs, hpos => by
      by_cases hk0 : (PL.nodeTy t).kind = 0
      · exact field_k0_p16 e all allv n t k _ pos hT hopt ho hc hs hk0
      · rcases dyn_shape_p16 all n t k _ hMO hk0 ho hc (fun h => by obtain ⟨p, hp, _⟩ := hs h; exact ⟨p, hp⟩)
          with ⟨_, _, _, _, _, hv⟩ | ⟨_, _, hv⟩ <;> cases hv
    | .present x, all, allv, n, t, k, pos, hT, hMO, hopt, ho, hc, hs, hpos => by
      by_cases hk0 : (PL.nodeTy t).kind = 0
      · exact field_k0_p16 e all allv n t k _ pos hT hopt ho hc hs hk0
      · rcases dyn_shape_p16 all n t k _ hMO hk0 ho hc (fun h => by obtain ⟨p, hp, _⟩ := hs h; exact ⟨p, hp⟩)
          with ⟨_, _, _, _, _, hv⟩ | ⟨_, _, hv⟩ <;> cases hv
    | .sizer, all, allv, n, t, k, pos, hT, hMO, hopt, ho, hc, hs, hpos => by
      by_cases hk0 : (PL.nodeTy t).kind = 0
      · exact field_k0_p16 e all allv n t k _ pos hT hopt ho hc hs hk0
      · rcases dyn_shape_p16 all n t k _ hMO hk0 ho hc (fun h => by obtain ⟨p, hp, _⟩ := hs h; exact ⟨p, hp⟩)
          with ⟨_, _, _, _, _, hv⟩ | ⟨_, _, hv⟩ <;> cases hv
  theorem ms_len_p16 (e : Endian) : (vs : List Val) → ∀ (ms all : List Member) (allv : List Val) (S : Nat) (ad : Bool)
      (off0 bs A base off : Nat), IsAl S → S ∣ base →
      (∀ n t k, Member.mk n t k ∈ all → CounterLen_p16 e all allv n t) → (∀ m ∈ ms, m ∈ all) → MsOk all ms →
      objMs all ms vs = true → LayInv S (Spec.dynMs all) ms ad off0 bs A → off = alignUp off0 (aN S ad ms) →
      S ∣ off + (encMs e all allv ms vs (lay S (Spec.dynMs all) ms ad bs) (base + off)).length ∧
      ∀ acc bytes : Int, (off : Int) ≤ acc + bytes →
        ((off + (encMs e all allv ms vs (lay S (Spec.dynMs all) ms ad bs) (base + off)).length : Nat) : Int)
            ≤ byteSizeMs all ms vs (PL.memsOf ms) (lay S (Spec.dynMs all) ms ad bs) acc bytes ∧
          (fitMs all ms vs = true → acc + bytes = (off : Int) →
            byteSizeMs all ms vs (PL.memsOf ms) (lay S (Spec.dynMs all) ms ad bs) acc bytes
              = ((off + (encMs e all allv ms vs (lay S (Spec.dynMs all) ms ad bs) (base + off)).length : Nat) : Int))
    | [], ms, all, allv, S, ad, off0, bs, A, base, off, hS, hb, cf, hsub, hM, ho, inv, hoff => by
      have hms : ms = [] := by cases ms <;> simp_all [objMs]
      subst hms
      have hd : S ∣ off := by rw [hoff]; exact dvd_alignUp _ _ hS.pos
      simp only [encMs, List.length_nil, Nat.add_zero, byteSizeMs_nil]
      refine ⟨hd, fun acc bytes hab => ⟨hab, fun _ h => h⟩⟩
    | v :: vs, ms, all, allv, S, ad, off0, bs, A, base, off, hS, hb, cf, hsub, hM, ho, inv, hoff => by
      cases ms with
      | nil => simp [objMs] at ho
      | cons m r =>
        obtain ⟨n, t, k⟩ := m
        obtain ⟨hT, hfx, _, hopt, hMr⟩ := hM.cons
        obtain ⟨hMO, _, _, _, _⟩ := memberOk_of all n t k r hM.wf hM.ok
        obtain ⟨hcnt, hf, hor⟩ := (objMs_cons_p16 all n t k r v vs).1 ho
        have hmem : Member.mk n t k ∈ all := hsub _ (List.mem_cons_self ..)
        have hsz := cf n t k hmem
        have hapos := (aN_isAl S hS ad (.mk n t k :: r)).pos
        have hmS : Spec.alignMember (.mk n t k) ∣ S := inv.memS _ (List.mem_cons_self ..)
        have hma : Spec.alignMember (.mk n t k) ∣ aN S ad (.mk n t k :: r) := alignMember_dvd_aN S ad _ r
        have hpos : Spec.alignMember (.mk n t k) ∣ base + off := by
          rw [hoff]
          exact Nat.dvd_add (Nat.dvd_trans hmS hb) (Nat.dvd_trans hma (dvd_alignUp _ _ hapos))
        have FL := field_len_p16 e v all allv n t k (base + off) hT hMO hopt hf hcnt hsz hpos
        have hL := FL.lenok
        have hle := FL.le
        have heq := FL.eq
        generalize hcells : fieldCells e all allv n t k v (mslot (.mk n t k)) (base + off) = cells at hL hle heq
        obtain ⟨hpad, hzero⟩ := padOf_step S hS (Spec.dynMs all) (.mk n t k) r ad off0 bs A base cells.length inv hL hb
        obtain ⟨hpad0, _⟩ := padOf_step S hS (Spec.dynMs all) (.mk n t k) r ad off0 bs A 0 cells.length inv hL
          (Nat.dvd_zero _)
        rw [← hoff] at hpad hpad0
        simp only [Nat.zero_add] at hpad0
        have hz : (decide ((PL.nodeTy t).kind = 0) && k.isStatic) = false →
            0 ≤ padOf S (Spec.dynMs all) (.mk n t k) r (bs + mslot (.mk n t k)) →
            padOf S (Spec.dynMs all) (.mk n t k) r (bs + mslot (.mk n t k)) = 0 :=
          fun h0 hnn => hzero (endsBlock_of_not_static0 n t k hMO h0) hnn
        have hmm : PL.memsOf (.mk n t k :: r) = PL.memOf (PL.nodeTy t) k :: PL.memsOf r := by simp [PL.memsOf]
        rw [lay_cons, encMs_cons, hcells, hmm, hpad]
        have hposeq : base + off + cells.length + padTo (off + cells.length) (aN S (Spec.endsBlock (.mk n t k)) r)
            = base + alignUp (off + cells.length) (aN S (Spec.endsBlock (.mk n t k)) r) := by
          simp only [alignUp]; omega
        rw [hposeq]
        simp only [List.length_append, skip_length]
        have hlen : ∀ x : Nat, off + (cells.length + padTo (off + cells.length) (aN S (Spec.endsBlock (.mk n t k)) r) + x)
            = alignUp (off + cells.length) (aN S (Spec.endsBlock (.mk n t k)) r) + x := by
          intro x; simp only [alignUp]; omega
        rw [hlen]
        -- the accumulators of get_byte_size after this member
        have hstep : ∀ acc bytes : Int, (off : Int) ≤ acc + bytes → ∃ acc2 bytes2,
            byteSizeMs all (.mk n t k :: r) (v :: vs) (PL.memOf (PL.nodeTy t) k :: PL.memsOf r)
              ((mslot (.mk n t k), aN S ad (.mk n t k :: r), padOf S (Spec.dynMs all) (.mk n t k) r (bs + mslot (.mk n t k))) ::
                lay S (Spec.dynMs all) r (Spec.endsBlock (.mk n t k))
                  (alignUp (bs + mslot (.mk n t k)) (aN S (Spec.endsBlock (.mk n t k)) r))) acc bytes
              = byteSizeMs all r vs (PL.memsOf r) (lay S (Spec.dynMs all) r (Spec.endsBlock (.mk n t k))
                  (alignUp (bs + mslot (.mk n t k)) (aN S (Spec.endsBlock (.mk n t k)) r))) acc2 bytes2 ∧
            ((alignUp (off + cells.length) (aN S (Spec.endsBlock (.mk n t k)) r) : Nat) : Int) ≤ acc2 + bytes2 ∧
            (fitK_p16 all k v = true → fitTy t v = true → acc + bytes = (off : Int) →
              acc2 + bytes2 = ((alignUp (off + cells.length) (aN S (Spec.endsBlock (.mk n t k)) r) : Nat) : Int)) := by
          intro acc bytes hab
          obtain ⟨acc2, bytes2, hbeq, hs2⟩ := byteSizeMs_cons all n t k r v vs (PL.memOf (PL.nodeTy t) k) (PL.memsOf r)
            (mslot (.mk n t k)) (aN S ad (.mk n t k :: r)) (padOf S (Spec.dynMs all) (.mk n t k) r (bs + mslot (.mk n t k)))
            (lay S (Spec.dynMs all) r (Spec.endsBlock (.mk n t k))
              (alignUp (bs + mslot (.mk n t k)) (aN S (Spec.endsBlock (.mk n t k)) r))) acc bytes
          rw [PL.memOf_kind] at hs2
          refine ⟨acc2, bytes2, hbeq, ?_, ?_⟩
          · have := bszStep_ge_p16 off cells.length (acc + bytes) _ _ _ hab hle hz
            rw [hpad0] at this
            rw [hs2]
            exact this
          · intro hfk hft hab2
            rw [hs2, hab2, ← heq hfk hft, bszStep_eq off cells.length _ _ hz, hpad0]
            rfl
        cases r with
        | nil =>
          have hvs : vs = [] := by cases vs <;> simp_all [objMs]
          subst hvs
          simp only [encMs, List.length_nil, Nat.add_zero]
          refine ⟨dvd_alignUp _ _ hS.pos, fun acc bytes hab => ?_⟩
          obtain ⟨acc2, bytes2, hbeq, hge, hfe⟩ := hstep acc bytes hab
          rw [hbeq, byteSizeMs_nil]
          refine ⟨hge, fun hfit hab2 => ?_⟩
          obtain ⟨hfk, hft, _⟩ := (fitMs_cons_p16 all n t k [] v []).1 hfit
          exact hfe hfk hft hab2
        | cons m' r' =>
          obtain ⟨A', inv'⟩ := layInv_step S hS (Spec.dynMs all) (.mk n t k) m' r' ad off0 bs A cells.length inv hL
          rw [← hoff] at inv'
          obtain ⟨ihd, ihb⟩ := ms_len_p16 e vs (m' :: r') all allv S (Spec.endsBlock (.mk n t k)) (off + cells.length)
            (alignUp (bs + mslot (.mk n t k)) (aN S (Spec.endsBlock (.mk n t k)) (m' :: r'))) A' base
            (alignUp (off + cells.length) (aN S (Spec.endsBlock (.mk n t k)) (m' :: r'))) hS hb cf
            (fun m hm => hsub m (List.mem_cons_of_mem _ hm)) hMr hor inv' rfl
          refine ⟨ihd, fun acc bytes hab => ?_⟩
          obtain ⟨acc2, bytes2, hbeq, hge, hfe⟩ := hstep acc bytes hab
          obtain ⟨ihle, iheq⟩ := ihb acc2 bytes2 hge
          rw [hbeq]
          refine ⟨ihle, fun hfit hab2 => ?_⟩
          obtain ⟨hfk, hft, hfr⟩ := (fitMs_cons_p16 all n t k (m' :: r') v vs).1 hfit
          exact iheq hfr (hfe hfk hft hab2)
  theorem elems_len_p16 (e : Endian) : (xs : List Val) → ∀ (t : Ty) (cnt pos : Nat), TyOk t →
      (PL.nodeTy t).kind ≠ 0 → objElems t xs = true → Spec.alignTy t ∣ pos →
      Spec.alignTy t ∣ (encElems e t xs cnt pos).length ∧
        ((encElems e t xs cnt pos).length : Int) ≤ byteSizeElems t xs ∧
        (fitElems t xs = true → xs.length ≤ cnt → ((encElems e t xs cnt pos).length : Int) = byteSizeElems t xs)
    | [], t, cnt, pos, hT, hk0, ho, hpos => by
      simp [encElems_nil_p16, byteSizeElems_nil]
    | x :: xs, t, cnt, pos, hT, hk0, ho, hpos => by
      simp only [objElems, Bool.and_eq_true, Bool.not_eq_true'] at ho
      have hMO : MemberOk t .plain := ⟨hT.wf, hT.ok, (by intro h; cases h), (by intro h; cases h)⟩
      have hx := (field_len_p16 e x [] [] "" t .plain pos hT hMO (by intro h; cases h) ho.1.2 (by rw [ho.1.1]; rfl)
        (by intro h; cases h) hpos).ty rfl ho.1.1 hk0
      obtain ⟨hd, hxle, hxeq⟩ := hx
      cases cnt with
      | zero =>
        obtain ⟨_, hxs, _⟩ := elems_len_p16 e xs t 0 pos hT hk0 ho.2 hpos
        rw [encElems_zero_p16] at hxs ⊢
        rw [byteSizeElems_cons]
        simp only [List.length_nil, Nat.dvd_zero, true_and] at hxs ⊢
        refine ⟨by omega, fun _ h => by simp at h⟩
      | succ c =>
        obtain ⟨ihd, ihle, iheq⟩ := elems_len_p16 e xs t c (pos + (encTy e t x pos).length) hT hk0 ho.2
          (Nat.dvd_add hpos hd)
        rw [encElems_cons, encVal_dyn_p16 e t x pos hk0, byteSizeElems_cons, List.length_append]
        refine ⟨Nat.dvd_add hd ihd, by omega, fun hfit hlen => ?_⟩
        simp only [fitElems, Bool.and_eq_true] at hfit
        have h1 := hxeq hfit.1
        have h2 := iheq hfit.2 (by simp only [List.length_cons] at hlen; omega)
        omega
end

end Cpp

/-! ## Part D: the theorems -/
namespace Cpp

theorem tyOk_of_front_p16 (t : Ty) (hf : Accept.front t = true) (hns : Accept.noShift t = true)
    (hm : optMisaligned t = false) : TyOk t :=
  tyOk_of_accept t hf (Accept.pyRt_of_front t hf hns) hm (by rw [noShift_cppenc_eq_accept]; exact hns)

/-- the pointer encoder advances by at most `get_byte_size()` (before its conversion to `size_t`), and by
    exactly that much when no bound array is longer than its counter can say -/
theorem encodePtr_len_p16 (t : Ty) (v : Val) (e : Endian) (hT : TyOk t) (ho : objOk t v = true) :
    ((encodePtr t v e).length : Int) ≤ byteSizeTy t v ∧
      (countsFit t v = true → ((encodePtr t v e).length : Int) = byteSizeTy t v) := by
  simp only [objOk, Bool.and_eq_true, Bool.not_eq_true'] at ho
  obtain ⟨hnc, ho⟩ := ho
  have hMO : MemberOk t .plain := ⟨hT.wf, hT.ok, (by intro h; cases h), (by intro h; cases h)⟩
  have FL := field_len_p16 e v [] [] "" t .plain 0 hT hMO (by intro h; cases h) ho (by rw [hnc]; rfl)
    (by intro h; cases h) (Nat.dvd_zero _)
  unfold encodePtr countsFit
  by_cases hk0 : (PL.nodeTy t).kind = 0
  · have hf := fixed_of_kind t hT.ok hk0
    have hL := (ffield_p16 e v [] [] "" t .plain 0 hT hf rfl (by intro h; cases h) ho (by rw [hnc]; rfl)
      (by intro h; cases h)).2 rfl hnc
    rw [hL]
    by_cases hst : ∃ nm ms vs, t = .struct nm ms ∧ v = .struct vs
    · obtain ⟨nm, ms, vs, rfl, rfl⟩ := hst
      -- a struct of fixed size: `get_byte_size` adds up the same static sizes
      obtain ⟨hu, hM⟩ := hT.struct
      have hom : objMs ms ms vs = true := by simpa [objField] using ho
      have cf := counterLen_p16 e ms vs hu hM.wf hom
      have H := ms_len_p16 e vs ms ms vs (Spec.alignMs ms) false 0 0 (Spec.alignMs ms) 0 0 (Spec.alignMs_isAl ms)
        (Nat.dvd_zero _) cf (fun m hm => hm) hM hom (layInv_init ms) (by simp [alignUp, padTo_zero])
      simp only [Nat.zero_add, Nat.add_zero] at H
      obtain ⟨_, hb⟩ := H
      obtain ⟨hle', heq'⟩ := hb 0 0 (by simp)
      have henc : encTy e (.struct nm ms) (.struct vs) 0
          = encMs e ms vs ms vs (lay (Spec.alignMs ms) (Spec.dynMs ms) ms false 0) 0 := by
        simp only [encTy]; rw [structMembers_eq_lay ms hM.wf hM.ok]
      have hbs : byteSizeTy (.struct nm ms) (.struct vs)
          = byteSizeMs ms ms vs (PL.memsOf ms) (lay (Spec.alignMs ms) (Spec.dynMs ms) ms false 0) 0 0 := by
        rw [byteSizeTy_struct, structMembers_eq_lay ms hM.wf hM.ok]
      rw [← hL, henc, hbs]
      exact ⟨hle', fun hfit => (heq' (by simpa [fitTy] using hfit) (by simp)).symm⟩
    · have hbo : byteSizeTy t v = ((PL.nodeTy t).size : Int) :=
        byteSizeTy_other t v (fun nm ms vs h => hst ⟨nm, ms, vs, h.1, h.2⟩)
      rw [hbo, PL.nodeTy_size_fixed t hf]
      exact ⟨Int.le_refl _, fun _ => rfl⟩
  · obtain ⟨_, h1, h2⟩ := FL.ty rfl hnc hk0
    exact ⟨h1, h2⟩

end Cpp

/-- C05, every object: `message::encode<E>()` never writes outside the vector of `get_byte_size()` bytes it
    allocates, whatever the object holds (over-full limited arrays, bound arrays longer than their counter
    can say, any enum value).  `hlen`: `get_byte_size()` fits `size_t`. -/
theorem Cpp.encodeVec_in_bounds (t : Ty) (v : Val) (e : Endian)
    (hf : Accept.front t = true) (hns : Accept.noShift t = true) (hm : Cpp.optMisaligned t = false)
    (ho : Cpp.objOk t v = true) (hlen : Cpp.byteSizeTy t v < 2 ^ 64) :
    Cpp.encodeVec t v e ≠ .fault ∧ ∃ b, Cpp.encodeVec t v e = .ok b ∧ b.length = Cpp.getByteSize t v := by
  obtain ⟨hle, _⟩ := Cpp.encodePtr_len_p16 t v e (Cpp.tyOk_of_front_p16 t hf hns hm) ho
  have hn : (Cpp.encodePtr t v e).length ≤ Cpp.getByteSize t v := by
    unfold Cpp.getByteSize; omega
  unfold Cpp.encodeVec
  simp only [hn, if_true]
  refine ⟨by simp, _, rfl, ?_⟩
  simp [zeros]
  omega

/-- the pointer encoder never advances beyond `get_byte_size()` bytes: all its writes are inside the vector -/
theorem Cpp.encodePtr_le_getByteSize (t : Ty) (v : Val) (e : Endian)
    (hf : Accept.front t = true) (hns : Accept.noShift t = true) (hm : Cpp.optMisaligned t = false)
    (ho : Cpp.objOk t v = true) (hlen : Cpp.byteSizeTy t v < 2 ^ 64) :
    (Cpp.encodePtr t v e).length ≤ Cpp.getByteSize t v := by
  obtain ⟨hle, _⟩ := Cpp.encodePtr_len_p16 t v e (Cpp.tyOk_of_front_p16 t hf hns hm) ho
  unfold Cpp.getByteSize; omega

/-- `size == ptr_written`: the pointer encoder advances by exactly `get_byte_size()`.
    Added hypothesis `hc : Cpp.countsFit t v` - every array bound to a counter (`T x<@n>`) has a length the
    counter's C++ type can hold (`CT(x.size())` does not wrap); see `Cpp.Bounds.wrap_counterexample`. -/
theorem Cpp.encodePtr_length (t : Ty) (v : Val) (e : Endian)
    (hf : Accept.front t = true) (hns : Accept.noShift t = true) (hm : Cpp.optMisaligned t = false)
    (ho : Cpp.objOk t v = true) (hc : Cpp.countsFit t v = true) (hlen : Cpp.byteSizeTy t v < 2 ^ 64) :
    (Cpp.encodePtr t v e).length = Cpp.getByteSize t v := by
  obtain ⟨_, heq⟩ := Cpp.encodePtr_len_p16 t v e (Cpp.tyOk_of_front_p16 t hf hns hm) ho
  have := heq hc
  unfold Cpp.getByteSize; omega

/-! ## Part E: every well-typed value is such an object, with counts that fit -/
namespace Cpp

theorem enum_range_p16 (es : List (String × Nat)) (i : Int) (hw : es.all (fun en => decide (en.2 < 2 ^ 32)) = true)
    (h : es.any (fun e => (e.2 : Int) == i) = true) : decide (-(2 ^ 31 : Int) ≤ i ∧ i < 2 ^ 32) = true := by
  obtain ⟨en, hen, heq⟩ := List.any_eq_true.1 h
  have h1 := List.all_eq_true.1 hw en hen
  simp only [decide_eq_true_eq] at h1
  have h2 : (en.2 : Int) = i := by simpa using heq
  apply decide_eq_true
  omega

mutual
  theorem obj_of_hasField_p16 : (v : Val) → ∀ (all : List Member) (k : MKind) (t : Ty), wfTy t = true →
      hasField all k t v = true → objField k t v = true
    | .sizer, _, k, t, _, h => by cases k <;> simp_all [hasField, objField]
    | .absent, _, k, t, _, h => by cases k <;> simp_all [hasField, objField]
    | .bytes b, all, k, t, _, h => by cases t <;> cases k <;> simp_all [hasField, objField]
    | .int i, all, k, t, hw, h => by
      cases t with
      | prim p => cases k <;> simp_all [hasField, objField]
      | byte => cases k <;> simp_all [hasField, objField]
      | enum nm es =>
        simp only [hasField, Bool.and_eq_true] at h
        have := enum_range_p16 es i (by simpa [wfTy] using hw) h.2
        simp only [objField, Bool.and_eq_true]
        exact ⟨h.1, this⟩
      | struct nm ms => simp [hasField] at h
      | union nm arms => simp [hasField] at h
    | .present x, all, k, t, hw, h => by
      simp only [hasField, Bool.and_eq_true] at h
      have := obj_of_hasField_p16 x all .plain t hw h.2
      simp only [objField, Bool.and_eq_true]
      exact ⟨h.1, this⟩
    | .arr xs, all, k, t, hw, h => by
      have hel : hasElems t xs = true := by cases t <;> simp_all [hasField]
      have := obj_of_hasElems_p16 xs t hw hel
      cases t <;> cases k <;> simp_all [hasField, objField]
    | .struct fs, all, k, t, hw, h => by
      cases t with
      | struct nm ms =>
        simp only [hasField, Bool.and_eq_true] at h
        simp only [wfTy, Bool.and_eq_true] at hw
        have := obj_of_hasMs_p16 fs ms ms hw.2 h.2
        simp only [objField, Bool.and_eq_true]
        exact ⟨h.1, this⟩
      | prim p => simp [hasField] at h
      | byte => simp [hasField] at h
      | enum nm es => simp [hasField] at h
      | union nm arms => simp [hasField] at h
    | .union idx v, all, k, t, hw, h => by
      cases t with
      | union nm arms =>
        simp only [hasField, Bool.and_eq_true] at h
        simp only [objField, Bool.and_eq_true]
        refine ⟨h.1, ?_⟩
        cases ha : arms[idx]? with
        | none => simp [ha] at h
        | some a =>
          obtain ⟨an, d, t'⟩ := a
          have h2 := h.2
          simp only [ha, Bool.and_eq_true] at h2
          simp only [wfTy, Bool.and_eq_true] at hw
          have hwt := (WF.wfArms_get arms hw.2 idx _ ha).1
          simp only [Bool.and_eq_true]
          exact ⟨h2.1, obj_of_hasField_p16 v [] .plain t' hwt h2.2⟩
      | prim p => simp [hasField] at h
      | byte => simp [hasField] at h
      | enum nm es => simp [hasField] at h
      | struct nm ms => simp [hasField] at h
  theorem obj_of_hasMs_p16 : (vs : List Val) → ∀ (all ms : List Member), wfMs all ms = true →
      hasMs all ms vs = true → objMs all ms vs = true
    | [], all, ms, _, h => by cases ms <;> simp_all [hasMs, objMs]
    | v :: vs, all, ms, hw, h => by
      cases ms with
      | nil => simp [hasMs] at h
      | cons m r =>
        obtain ⟨n, t, k⟩ := m
        obtain ⟨hwt, _, _, _, hwr⟩ := (wfMs_cons all n t k r).1 hw
        obtain ⟨h1, h2, h3⟩ := (hasMs_cons all n t k r v vs).1 h
        exact (objMs_cons_p16 all n t k r v vs).2
          ⟨h1, obj_of_hasField_p16 v all k t hwt h2, obj_of_hasMs_p16 vs all r hwr h3⟩
  theorem obj_of_hasElems_p16 : (xs : List Val) → ∀ (t : Ty), wfTy t = true → hasElems t xs = true →
      objElems t xs = true
    | [], t, _, _ => by simp [objElems]
    | x :: xs, t, hw, h => by
      simp only [hasElems, Bool.and_eq_true] at h
      simp only [objElems, Bool.and_eq_true]
      exact ⟨⟨h.1.1, obj_of_hasField_p16 x [] .plain t hw h.1.2⟩, obj_of_hasElems_p16 xs t hw h.2⟩
end

mutual
  theorem fit_of_hasField_p16 : (v : Val) → ∀ (all : List Member) (k : MKind) (t : Ty), wfTy t = true →
      hasField all k t v = true → fitTy t v = true
    | .sizer, _, _, t, _, _ => by cases t <;> simp [fitTy]
    | .absent, _, _, t, _, _ => by cases t <;> simp [fitTy]
    | .bytes _, _, _, t, _, _ => by cases t <;> simp [fitTy]
    | .int _, _, _, t, _, _ => by cases t <;> simp [fitTy]
    | .present x, all, k, t, hw, h => by
      simp only [hasField, Bool.and_eq_true] at h
      have := fit_of_hasField_p16 x all .plain t hw h.2
      cases t <;> simpa [fitTy] using this
    | .arr xs, all, k, t, hw, h => by
      have hel : hasElems t xs = true := by cases t <;> simp_all [hasField]
      have := fit_of_hasElems_p16 xs t hw hel
      cases t <;> simpa [fitTy] using this
    | .struct fs, all, k, t, hw, h => by
      cases t with
      | struct nm ms =>
        simp only [hasField, Bool.and_eq_true] at h
        simp only [wfTy, Bool.and_eq_true] at hw
        simpa [fitTy] using fit_of_hasMs_p16 fs ms ms hw.2 h.2
      | prim p => simp [hasField] at h
      | byte => simp [hasField] at h
      | enum nm es => simp [hasField] at h
      | union nm arms => simp [hasField] at h
    | .union idx v, all, k, t, hw, h => by
      cases t with
      | union nm arms =>
        simp only [hasField, Bool.and_eq_true] at h
        simp only [fitTy]
        cases ha : arms[idx]? with
        | none => simp [ha] at h
        | some a =>
          obtain ⟨an, d, t'⟩ := a
          have h2 := h.2
          simp only [ha, Bool.and_eq_true] at h2
          simp only [wfTy, Bool.and_eq_true] at hw
          have hwt := (WF.wfArms_get arms hw.2 idx _ ha).1
          exact fit_of_hasField_p16 v [] .plain t' hwt h2.2
      | prim p => simp [hasField] at h
      | byte => simp [hasField] at h
      | enum nm es => simp [hasField] at h
      | struct nm ms => simp [hasField] at h
  theorem fit_of_hasMs_p16 : (vs : List Val) → ∀ (all ms : List Member), wfMs all ms = true →
      hasMs all ms vs = true → fitMs all ms vs = true
    | [], all, ms, _, h => by cases ms <;> simp_all [hasMs, fitMs]
    | v :: vs, all, ms, hw, h => by
      cases ms with
      | nil => simp [hasMs] at h
      | cons m r =>
        obtain ⟨n, t, k⟩ := m
        obtain ⟨hwt, _, hsz, _, hwr⟩ := (wfMs_cons all n t k r).1 hw
        obtain ⟨h1, h2, h3⟩ := (hasMs_cons all n t k r v vs).1 h
        refine (fitMs_cons_p16 all n t k r v vs).2
          ⟨?_, fit_of_hasField_p16 v all k t hwt h2, fit_of_hasMs_p16 vs all r hwr h3⟩
        cases k with
        | dyn s sh =>
          have hlen := hasField_len all (.dyn s sh) t v s rfl h2
          have hcast := castCount_of_sizerOk all s (hsz s rfl) v.len (by simp only [MKind.shift] at hlen; omega)
          have hpos : 0 < 256 ^ (sizerPrimOf s all).size := Nat.pow_pos (by decide)
          have := Nat.mod_lt v.len hpos
          unfold castCount at hcast
          simp only [fitK_p16, decide_eq_true_eq]
          omega
        | _ => rfl
  theorem fit_of_hasElems_p16 : (xs : List Val) → ∀ (t : Ty), wfTy t = true → hasElems t xs = true →
      fitElems t xs = true
    | [], t, _, _ => by simp [fitElems]
    | x :: xs, t, hw, h => by
      simp only [hasElems, Bool.and_eq_true] at h
      simp only [fitElems, Bool.and_eq_true]
      exact ⟨fit_of_hasField_p16 x [] .plain t hw h.1.2, fit_of_hasElems_p16 xs t hw h.2⟩
end

end Cpp

/-- `objOk` is weaker than `hasType`: the theorems above cover every value of `Cpp.encodeVec_canonical` -/
theorem Cpp.objOk_of_hasType (t : Ty) (v : Val) (hw : WF.wfTy t = true) (hv : hasType t v = true) :
    Cpp.objOk t v = true ∧ Cpp.countsFit t v = true := by
  simp only [hasType, Bool.and_eq_true] at hv
  simp only [Cpp.objOk, Cpp.countsFit, Bool.and_eq_true]
  exact ⟨⟨hv.1, Cpp.obj_of_hasField_p16 v [] .plain t hw hv.2⟩, Cpp.fit_of_hasField_p16 v [] .plain t hw hv.2⟩

namespace Cpp.Bounds
open Cpp

/-! ### the hypothesis `countsFit` of `Cpp.encodePtr_length` is needed

  The statement first proposed had the hypotheses of `Cpp.encodeVec_in_bounds` only:

      theorem Cpp.encodePtr_length (t : Ty) (v : Val) (e : Endian)
          (hf : Accept.front t = true) (hns : Accept.noShift t = true) (hm : Cpp.optMisaligned t = false)
          (ho : Cpp.objOk t v = true) (hlen : Cpp.byteSizeTy t v < 2 ^ 64) :
          (Cpp.encodePtr t v e).length = Cpp.getByteSize t v

  It is false: a vector bound to a `u8` counter that holds 256 elements.  `get_byte_size()` counts all 256
  elements (257 bytes), the encoder writes the counter `uint8_t(256) = 0` and no element (1 byte).  No write is
  out of bounds (`Cpp.encodeVec_in_bounds` holds), but `size != ptr_written`, and the 257 bytes returned by
  `encode<E>()` are not an encoding of the object. -/
def wrapT : Ty := .struct "X" [.mk "n" (.prim .u8) .plain, .mk "x" (.prim .u8) (.dyn "n" 0)]
def wrapV : Val := .struct [.sizer, .arr (List.replicate 256 (.int 0))]

set_option maxRecDepth 100000 in
theorem wrap_counterexample :
    Accept.front wrapT = true ∧ Accept.noShift wrapT = true ∧ optMisaligned wrapT = false ∧
    objOk wrapT wrapV = true ∧ byteSizeTy wrapT wrapV < 2 ^ 64 ∧ countsFit wrapT wrapV = false ∧
    (encodePtr wrapT wrapV .little).length = 1 ∧ getByteSize wrapT wrapV = 257 := by decide

/-- the statement of `Cpp.encodePtr_length` without `countsFit` is false -/
theorem encodePtr_length_unrestricted_false :
    ¬ (∀ (t : Ty) (v : Val) (e : Endian), Accept.front t = true → Accept.noShift t = true →
        optMisaligned t = false → objOk t v = true → byteSizeTy t v < 2 ^ 64 →
        (encodePtr t v e).length = getByteSize t v) := by
  intro h
  obtain ⟨h1, h2, h3, h4, h5, _, h7, h8⟩ := wrap_counterexample
  have := h wrapT wrapV .little h1 h2 h3 h4 h5
  rw [h7, h8] at this
  exact absurd this (by decide)

/-! ### an over-full limited array: `u16 x<2>` holding 4 elements -/
def overT : Ty :=
  .struct "X" [.mk "n" (.prim .u8) .plain, .mk "x" (.prim .u16) (.limited "n" 2), .mk "y" (.prim .u64) .plain]
def overV : Val := .struct [.sizer, .arr [.int 1, .int 2, .int 3, .int 4], .int 7]

theorem over_example :
    Accept.front overT = true ∧ Accept.noShift overT = true ∧ optMisaligned overT = false ∧
    objOk overT overV = true ∧ hasType overT overV = false ∧ countsFit overT overV = true ∧
    encodeVec overT overV .little = .ok [2, 0, 1, 0, 2, 0, 0, 0, 7, 0, 0, 0, 0, 0, 0, 0] := by decide

end Cpp.Bounds
end Prophy

#print axioms Prophy.Cpp.objOk_of_hasType
#print axioms Prophy.Cpp.Bounds.encodePtr_length_unrestricted_false
#print axioms Prophy.Cpp.encodeVec_in_bounds
#print axioms Prophy.Cpp.encodePtr_le_getByteSize
#print axioms Prophy.Cpp.encodePtr_length

/- C09: the walk of the generated `prophy::swap` over the members and parts of a struct, and the induction on the value -/
import ProphyModel.Lemmas.RawSwapMember
set_option linter.unusedSimpArgs false
namespace Prophy
namespace Raw
open Accept PL WF

/-! ## one member inside the walk over the members of a struct -/

theorem member_at (all : List Member) (allv : List Val) (A S : Nat) (d : Bool)
    (hA : A = Spec.alignMs all) (hS : A ∣ S)
    (huq : WF.uniq (all.map (·.name)) = true) (hw : wfMs all all = true) (hhall : hasMs all all allv = true)
    (hshift : shiftOk all = true)
    (r : List Member) (n : String) (t : Ty) (k : MKind) (v : Val) (vs : List Val) (before : List Member)
    (g : MG) (first : Bool) (o : Nat) (fields done restF : List Field) (ppos off : Nat) (pre post : Bytes)
    (sizers : List (String × Nat × Nat)) (fM : Nat) (isLast : Bool)
    (hall : all = before ++ .mk n t k :: r)
    (hfm : frontMs all (.mk n t k :: r) before = true) (hpm : pyRtMs all (.mk n t k :: r) before = true)
    (hdm : partsOkMs (.mk n t k :: r) = true) (hk2 : (nodeTy t).kind ≠ 2) (hng : k ≠ .greedy)
    (hh : hasMs all (.mk n t k :: r) (v :: vs) = true) (hag : agreeFields (.mk n t k :: r) (v :: vs) = true)
    (hlens : lensOk all allv (.mk n t k :: r) (v :: vs))
    (hdeep : DeepOK v)
    (h1 : GOne_p13 A d g n t k r first o)
    (hfields : fields = done ++ (g.fields ++ restF)) (hdone : totalSize done = o)
    (hnames : WF.uniq (fields.map (·.name)) = true)
    (hpre : pre.length = S + off)
    (hpos : S + alignUp off (if first then Spec.blockAlign (.mk n t k :: r) else Spec.alignMember (.mk n t k)) = ppos + o)
    (hsinv : SInv all allv before sizers pre)
    (hfuel : needField t v ≤ fM) :
    ∃ e, memberStep fM g fields
        (pre ++ (zeros (padTo off (if first then Spec.blockAlign (.mk n t k :: r) else Spec.alignMember (.mk n t k))) ++
          (Spec.render .big (Spec.fieldChunks all allv n t k v) ++ post))) ppos sizers isLast =
      some (pre ++ (zeros (padTo off (if first then Spec.blockAlign (.mk n t k :: r) else Spec.alignMember (.mk n t k))) ++
          (Spec.render .little (Spec.fieldChunks all allv n t k v) ++ post)), e) ∧
      (Spec.endsBlock (.mk n t k) = true → e = ppos + o + Spec.clen (Spec.fieldChunks all allv n t k v)) ∧
      SInv all allv (before ++ [.mk n t k]) (sizersAfter g (ppos + fieldOffset fields g.m.name) sizers)
        (pre ++ zeros (padTo off (if first then Spec.blockAlign (.mk n t k :: r) else Spec.alignMember (.mk n t k))) ++
          Spec.render .little (Spec.fieldChunks all allv n t k v)) := by
  generalize ha : (if first then Spec.blockAlign (.mk n t k :: r) else Spec.alignMember (.mk n t k)) = a at *
  obtain ⟨ht, ho, hs, hak, hl, hr⟩ := frontMs_cons_playou all n t k r before hfm
  obtain ⟨hpt, _⟩ := (Accept.pyRtMs_cons all n t k r before).1 hpm
  obtain ⟨hcn, hfd, hhr⟩ := (hasMs_cons all n t k r v vs).1 hh
  have hdt : partsOk t = true := by simp only [partsOkMs, Bool.and_eq_true] at hdm; exact hdm.1
  have hagv : agreeTy t v = true := by simp only [agreeFields, Bool.and_eq_true] at hag; exact hag.1
  have hmem : Member.mk n t k ∈ all := by rw [hall]; simp
  have hda : Spec.alignMember (.mk n t k) ∣ a := by
    cases first
    · simp at ha; subst ha; exact Nat.dvd_refl _
    · simp at ha; subst ha; exact Spec.alignMember_dvd_blockAlign (.mk n t k) r
  have hapos : 0 < a := by
    cases first
    · simp at ha; subst ha; exact Spec.alignMember_pos _
    · simp at ha; subst ha; exact (Spec.blockAlign_isAl _).pos
  have hdA : Spec.alignMember (.mk n t k) ∣ A := by rw [hA]; exact Spec.alignMember_dvd_alignMs _ all hmem
  have hal : Spec.alignMember (.mk n t k) ∣ ppos + o := by
    rw [← hpos]
    exact Nat.dvd_add (Nat.dvd_trans hdA hS) (Nat.dvd_trans hda (dvd_alignUp off a hapos))
  have hpre1 : (pre ++ zeros (padTo off a)).length = ppos + o := by
    simp only [List.length_append, zeros_length, hpre]; rw [← hpos]; unfold alignUp; omega
  -- offsets of the generated fields
  obtain ⟨flagF, padF, hgf, hopt, hnopt, hfl⟩ := h1.hfields
  have hfs : fields = (done ++ flagF) ++ Field.mk n (sizeofTy t) (countOf_p13 k) :: (padF ++ restF) := by
    rw [hfields, hgf]; simp [List.append_assoc]
  have hoff : fieldOffset fields n = o + flagLen_p13 t k := by
    have := fieldOffset_uniq_p13 (done ++ flagF) (Field.mk n (sizeofTy t) (countOf_p13 k)) (padF ++ restF)
      (by rw [← hfs]; exact hnames)
    rw [← hfs] at this
    simp only [totalSize_append_p13, hdone, hfl] at this
    exact this
  have hflag : k = .optional → fieldOffset fields ("has_" ++ n) = o := by
    intro hk
    obtain ⟨pf, hpf⟩ := hopt hk
    have hfs2 : fields = done ++ Field.mk ("has_" ++ n) 4 1 :: (pf ++ Field.mk n (sizeofTy t) (countOf_p13 k) :: (padF ++ restF)) := by
      rw [hfs, hpf]; simp [List.append_assoc]
    have := fieldOffset_uniq_p13 done (Field.mk ("has_" ++ n) 4 1) _ (by rw [← hfs2]; exact hnames)
    rw [← hfs2, hdone] at this
    exact this
  -- the counter of a bound array
  have hcnt : ∀ s, k.sizer? = some s → ∃ saddr ssz, sizers.lookup s = some (saddr, ssz) ∧
      saddr + ssz ≤ (pre ++ zeros (padTo off a)).length ∧ leRead (pre ++ zeros (padTo off a)) saddr ssz = some v.len := by
    intro s hs'
    obtain ⟨p, hp⟩ := frontMs_sizer_p13 all n t k r before hfm s hs'
    have his : isSizer s all = true := (isSizer_iff s all).2 ⟨_, hmem, hs'⟩
    obtain ⟨a', h1', h2', h3'⟩ := (hsinv.mono (zeros (padTo off a))) s p hp his
    have hlen : v.len = Spec.counter s all allv := hlens.1 s hs'
    rw [sizerShift_zero_p13 s all hshift, Nat.add_zero] at h3'
    exact ⟨a', p.size, h1', h2', by rw [hlen]; exact h3'⟩
  have hszr : v = .sizer → ∃ p, t = .prim p := by
    intro hv; subst hv
    have his : isSizer n all = true := by simpa [Val.isCounter] using hcn.symm
    obtain ⟨p, hp, _⟩ := WF.sizer_prim all huq hw n t k hmem his
    exact ⟨p, hp⟩
  obtain ⟨e, he1, he2⟩ := memberStep_ok all allv n t k v g fields ppos o sizers isLast
    (pre ++ zeros (padTo off a)) post fM h1.hm h1.hkind hoff hflag hpre1 ht hpt hdt ho hs hk2 hng hfd hszr hagv hdeep
    hal hcnt hfuel
  refine ⟨e, ?_, he2, ?_⟩
  · simpa only [List.append_assoc] using he1
  · have := SInv.step all allv before sizers (pre ++ zeros (padTo off a)) n t k r g v h1.hm hall huq hw hhall hcn
      (hsinv.mono _)
    rw [hpre1] at this
    rw [h1.hm]
    simp only [Member.name, hoff]
    rw [← Nat.add_assoc]
    exact this

theorem dynFlag_eq_p13 (n : String) (t : Ty) (k : MKind) (ht : front t = true)
    (ho : isOptional k = true → (nodeTy t).kind = 0)
    (hs : (sizeOf? k).isSome = true → (nodeTy t).kind = 0)
    (hk2 : (nodeTy t).kind ≠ 2) (hg : k ≠ .greedy) :
    ((nodeTy t).kind == 1 || isDynKind k) = Spec.endsBlock (.mk n t k) := by
  rw [← isDyn_memOf_p13 n t k ht ho hs hk2 hg, memOf_kind_p13]
  cases k <;> rfl

theorem clen_static_p13 (all : List Member) (allv : List Val) (n : String) (t : Ty) (k : MKind) (v : Val)
    (ht : front t = true)
    (ho : isOptional k = true → (nodeTy t).kind = 0)
    (hs : (sizeOf? k).isSome = true → (nodeTy t).kind = 0)
    (he : Spec.endsBlock (.mk n t k) = false) (hfd : hasField all k t v = true) :
    Spec.clen (Spec.fieldChunks all allv n t k v) = Spec.slot t k := by
  have hdt := dynTy_of_notEnds_p13 n t k ht ho hs he
  have hfx := fixed_of_front t ht hdt
  have hst : k.isStatic = true := by
    cases k <;> simp_all [Spec.endsBlock, Member.kind, MKind.isStatic]
  exact fsz_field v all allv n t k hfx hst hfd

theorem final_dyn_p13 (S E A p : Nat) (hA : IsAl A) (hp : IsAl p) (hpA : p ∣ A) (hS : A ∣ S) :
    (S + E + padTo (S + E) p) + padTo (S + E + padTo (S + E) p) A = S + alignUp E A := by
  have := alignUp_alignUp_p13 (S + E) p A hp hA hpA
  rw [alignUp_add_left_p13 S E A hS] at this
  unfold alignUp at this ⊢
  exact this

theorem dynMs_cons_eq_p13 (n : String) (t : Ty) (k : MKind) (r : List Member) :
    Spec.dynMs (.mk n t k :: r) = (Spec.endsBlock (.mk n t k) || Spec.dynMs r) := by
  cases k <;> simp [Spec.dynMs, Spec.endsBlock, Member.kind, Member.ty]

theorem blockAlign_cons_static_p13 (m : Member) (r : List Member) (h : Spec.endsBlock m = false) :
    Spec.blockAlign r ∣ Spec.blockAlign (m :: r) := by
  rw [show Spec.blockAlign (m :: r) = max (Spec.alignMember m) (Spec.blockAlign r) by simp [Spec.blockAlign, h]]
  exact IsAl.dvd_max_right (Spec.alignMember_isAl _) (Spec.blockAlign_isAl r)

theorem lastAlign_cons_p13 (g : MG) (l : List MG) (h : l ≠ []) : lastAlign (g :: l) = lastAlign l := by
  cases l with
  | nil => exact absurd rfl h
  | cons a b => rfl

theorem partition_head_cons_p13 {α : Type} (p : α → Bool) : (x : α) → (l : List α) → ∀ hd tl,
    partition p (x :: l) = hd :: tl → ∃ hd', hd = x :: hd'
  | x, [], hd, tl, h => by
    simp [partition] at h; exact ⟨[], h.1.symm⟩
  | x, y :: r, hd, tl, h => by
    cases hx : p x with
    | true =>
      rw [partition_cons_dyn_p13 p x y r hx] at h
      injection h with h1 _; exact ⟨[], h1.symm⟩
    | false =>
      obtain ⟨hd', tl', _, h2⟩ := partition_cons_static_p13 p x y r hx
      rw [h2] at h
      injection h with h1 _; exact ⟨hd', h1.symm⟩

theorem monoParts_cons_p13 (q : List MG) (rest : List (List MG)) (h : monoParts (q :: rest) = true) :
    monoParts rest = true ∧ ∀ q2 rest2, rest = q2 :: rest2 → partAlign q ≤ partAlign q2 ∨ lastAlign q = partAlign q := by
  cases rest with
  | nil => exact ⟨rfl, fun _ _ h => by cases h⟩
  | cons q2 rest2 =>
    simp only [monoParts, pairOk, Bool.and_eq_true, Bool.or_eq_true, decide_eq_true_eq, beq_iff_eq] at h
    refine ⟨h.2, fun a b hab => ?_⟩
    injection hab with h1 h2
    subst h1
    exact h.1

theorem next_part_ptr_p13 (S off' A B p e : Nat) (isMain : Bool) (_hA : IsAl A) (hS : A ∣ S) (hB : IsAl B) (hBA : B ∣ A)
    (he : e = S + off')
    (hnm : isMain = false → IsAl p ∧ (p ≤ B ∨ p ∣ e)) :
    (if isMain = true then e else e + padTo e p) + padTo (if isMain = true then e else e + padTo e p) B =
      S + alignUp off' B := by
  have hBS : B ∣ S := Nat.dvd_trans hBA hS
  cases isMain with
  | true =>
    simp only [if_true]
    rw [he]
    exact alignUp_add_left_p13 S off' B hBS
  | false =>
    simp only [Bool.false_eq_true, if_false]
    obtain ⟨hp, h⟩ := hnm rfl
    rcases h with h | h
    · have := alignUp_alignUp_p13 e p B hp hB (IsAl.dvd_of_le hp hB h)
      rw [he, alignUp_add_left_p13 S off' B hBS] at this
      rw [he]
      exact this
    · rw [padTo_eq_zero_of_dvd _ _ h, Nat.add_zero, he]
      exact alignUp_add_left_p13 S off' B hBS

theorem final_static_nm1_p13 (S E A p ppos X : Nat) (hA : IsAl A) (hp : IsAl p) (hpA : p ∣ A) (hS : A ∣ S)
    (hpp : p ∣ ppos) (h : ppos + X = S + E) :
    (ppos + alignUp X p) + padTo (ppos + alignUp X p) A = S + alignUp E A := by
  rw [← alignUp_add_left_p13 ppos X p hpp, h]
  have := alignUp_alignUp_p13 (S + E) p A hp hA hpA
  rw [alignUp_add_left_p13 S E A hS] at this
  rw [← this]; rfl

theorem final_static_nm2_p13 (S E A ppos X : Nat) (hA : IsAl A) (hS : A ∣ S)
    (hpp : A ∣ ppos) (h : ppos + X = S + E) :
    (ppos + alignUp (alignUp X A) A) + padTo (ppos + alignUp (alignUp X A) A) A = S + alignUp E A := by
  rw [alignUp_idem _ _ hA.pos]
  exact final_static_nm1_p13 S E A A ppos X hA hA (Nat.dvd_refl _) hS hpp h

theorem final_static_main_p13 (S X A : Nat) (hS : A ∣ S) (hA : 0 < A) :
    S + alignUp X A + padTo (S + alignUp X A) A = S + alignUp X A := by
  rw [padTo_eq_zero_of_dvd _ _ (Nat.dvd_add hS (dvd_alignUp X A hA))]; rfl


theorem walk_ok (all : List Member) (allv : List Val) (A ssize : Nat) (skind : Kind) (S : Nat) (d : Bool)
    (hA : A = Spec.alignMs all) (hS : A ∣ S)
    (huq : WF.uniq (all.map (·.name)) = true) (hw : wfMs all all = true) (hhall : hasMs all all allv = true)
    (hshift : shiftOk all = true) (hdd : ∀ m ∈ all, Spec.endsBlock m = true → d = true) :
    (r : List Member) → ∀ (n : String) (t : Ty) (k : MKind) (v : Val) (vs : List Val) (before : List Member)
      (g : MG) (gs' cur : List MG) (rest : List (List MG)) (first : Bool) (o : Nat)
      (fields done : List Field) (ppos palign : Nat) (isMain : Bool) (off : Nat) (pre post : Bytes)
      (sizers : List (String × Nat × Nat)) (fuelP fuelM : Nat),
    all = before ++ .mk n t k :: r →
    frontMs all (.mk n t k :: r) before = true → pyRtMs all (.mk n t k :: r) before = true →
    partsOkMs (.mk n t k :: r) = true → Spec.unlMs (.mk n t k :: r) = false →
    hasMs all (.mk n t k :: r) (v :: vs) = true → agreeFields (.mk n t k :: r) (v :: vs) = true →
    lensOk all allv (.mk n t k :: r) (v :: vs) →
    (∀ x ∈ v :: vs, DeepOK x) →
    GSpec_p13 A d (g :: gs') (.mk n t k :: r) first o →
    partition (fun (g : MG) => g.isDyn) (g :: gs') = cur :: rest →
    fields = done ++ cur.flatMap (·.fields) → totalSize done = o →
    WF.uniq ((fields ++ rest.flatten.flatMap (·.fields)).map (·.name)) = true →
    pre.length = S + off →
    S + alignUp off (if first then Spec.blockAlign (.mk n t k :: r) else Spec.alignMember (.mk n t k)) = ppos + o →
    Spec.blockAlign (.mk n t k :: r) ∣ ppos →
    (isMain = false → d = true ∧ IsAl palign ∧ palign ∣ A ∧ palign ∣ ppos ∧ Spec.blockAlign (.mk n t k :: r) ∣ palign) →
    (isMain = true → ppos = S ∧ first = false ∧ (Spec.dynMs (.mk n t k :: r) = false →
        ssize = alignUp (off + Spec.clen (Spec.chunksMs all allv (.mk n t k :: r) (v :: vs) off first)) A)) →
    (isMain = false → ∀ q rest', rest = q :: rest' → palign ≤ partAlign q ∨ lastAlign cur = palign) →
    monoParts rest = true →
    SInv all allv before sizers pre →
    needMs (.mk n t k :: r) (v :: vs) ≤ fuelP → needMs (.mk n t k :: r) (v :: vs) ≤ fuelM →
    finishPart fuelP A ssize skind rest isMain palign ppos fields S
        (swapMembers fuelM cur fields
          (pre ++ (Spec.render .big (Spec.chunksMs all allv (.mk n t k :: r) (v :: vs) off first) ++ post)) ppos sizers) =
      some (pre ++ (Spec.render .little (Spec.chunksMs all allv (.mk n t k :: r) (v :: vs) off first) ++ post),
        S + alignUp (off + Spec.clen (Spec.chunksMs all allv (.mk n t k :: r) (v :: vs) off first)) A)
  | [], n, t, k, v, vs, before, g, gs', cur, rest, first, o, fields, done, ppos, palign, isMain, off, pre, post,
      sizers, fuelP, fuelM, hall, hfm, hpm, hdm, hum, hh, hag, hlens, hdeep, hg, hpart, hfields, hdone, hnames,
      hpre, hpos, hbp, hnm, hmn, hpair, hmono, hsinv, hfP, hfM => by
    obtain ⟨h1, h2⟩ := hg
    have hgs : gs' = [] := by cases gs' with
      | nil => rfl
      | cons a b => simp [GSpec_p13] at h2
    subst hgs
    have hcr : cur = [g] ∧ rest = [] := by
      simp only [partition] at hpart
      injection hpart with a b
      exact ⟨a.symm, b.symm⟩
    obtain ⟨rfl, rfl⟩ := hcr
    obtain ⟨ht, ho, hs, hak, hl, hr⟩ := frontMs_cons_playou all n t k [] before hfm
    obtain ⟨hng, hup, hur⟩ := notUnl_cons_p13 n t k [] hum
    have hk2 := kind_ne2_p13 t k ht ho hak hup
    obtain ⟨hcn, hfd, hhr⟩ := (hasMs_cons all n t k [] v vs).1 hh
    have hvs : vs = [] := by cases vs <;> simp_all [hasMs]
    subst hvs
    rw [needMs_cons] at hfM
    obtain ⟨fM, rfl⟩ : ∃ f, fuelM = f + 1 := ⟨fuelM - 1, by omega⟩
    have hAal : IsAl A := by rw [hA]; exact Spec.alignMs_isAl all
    simp only [List.flatMap_cons, List.flatMap_nil] at hfields
    have hnm' : WF.uniq (fields.map (·.name)) = true := by
      simpa using hnames
    obtain ⟨e, he1, he2, he3⟩ := member_at all allv A S d hA hS huq hw hhall hshift [] n t k v [] before g first o
      fields done [] ppos off pre post sizers fM true hall hfm hpm hdm hk2 hng hh hag hlens
      (hdeep v (List.mem_cons_self ..)) h1 hfields hdone hnm' hpre hpos hsinv (by omega)
    generalize ha : (if first then Spec.blockAlign [.mk n t k] else Spec.alignMember (.mk n t k)) = a at *
    have hchunks : Spec.chunksMs all allv [.mk n t k] [v] off first =
        .pad (padTo off a) :: (Spec.fieldChunks all allv n t k v ++ []) := by
      rw [Spec.chunksMs_cons, ha]; simp [Spec.chunksMs]
    rw [hchunks]
    simp only [render_cons_p13, Spec.render_append, render_nil_p13, List.append_nil, Spec.Chunk.render, List.append_assoc,
      Spec.clen_cons, Spec.clen_append, Spec.clen_nil, Spec.Chunk.len, Nat.add_zero]
    rw [swapMembers_cons]
    simp only [List.isEmpty_nil]
    rw [he1]
    simp only [if_true]
    have hunl : (g.kind == 2 || isGreedyKind g.m.kind) = false := by
      rw [h1.hkind, h1.hm]
      have : ((nodeTy t).kind == 2) = false := by simpa using hk2
      cases k <;> simp_all [isGreedyKind, Member.kind]
    have hdynf : (g.kind == 1 || isDynKind g.m.kind) = Spec.endsBlock (.mk n t k) := by
      rw [h1.hkind, h1.hm]; exact dynFlag_eq_p13 n t k ht ho hs hk2 hng
    simp only [finishPart, hunl, hdynf, Bool.false_eq_true, if_false]
    have hposE : ppos + o = S + (off + padTo off a) := by rw [← hpos]; unfold alignUp; omega
    cases heb : Spec.endsBlock (.mk n t k) with
    | true =>
      simp only [if_true]
      rw [he2 heb, hposE]
      congr 2
      have hp : IsAl (if isMain = true then A else palign) ∧ (if isMain = true then A else palign) ∣ A := by
        cases isMain with
        | true => exact ⟨hAal, Nat.dvd_refl _⟩
        | false => exact ⟨(hnm rfl).2.1, (hnm rfl).2.2.1⟩
      have := final_dyn_p13 S (off + padTo off a + Spec.clen (Spec.fieldChunks all allv n t k v)) A _ hAal hp.1 hp.2 hS
      simp only [Nat.add_assoc] at this ⊢
      exact this
    | false =>
      simp only [Bool.false_eq_true, if_false]
      congr 2
      have hcl := clen_static_p13 all allv n t k v ht ho hs heb hfd
      cases hmain : isMain with
      | true =>
        obtain ⟨hp1, hp2, hp3⟩ := hmn hmain
        have hdm0 : Spec.dynMs [.mk n t k] = false := by
          rw [dynMs_cons_eq_p13, heb]; rfl
        have hss := hp3 hdm0
        rw [hchunks] at hss
        simp only [Spec.clen_cons, Spec.clen_append, Spec.clen_nil, Spec.Chunk.len, Nat.add_zero] at hss
        subst hp1
        simp only [if_true]
        rw [hss]
        exact final_static_main_p13 _ _ _ hS hAal.pos
      | false =>
        obtain ⟨hd1, hpal, hpA, hpp, hbpal⟩ := hnm hmain
        simp only [Bool.false_eq_true, if_false]
        have htf : totalSize fields = o + totalSize g.fields := by
          rw [hfields]; simp only [totalSize_append_p13, hdone, totalSize, Nat.add_zero]
        rw [htf]
        have hE : ppos + (o + Spec.slot t k) = S + (off + (padTo off a + Spec.clen (Spec.fieldChunks all allv n t k v))) := by
          rw [hcl]; omega
        rcases (h1.hlast heb rfl).2 hd1 with hl | ⟨hl1, hl2⟩
        · rw [hl]
          exact final_static_nm1_p13 S _ A palign ppos _ hAal hpal hpA hS hpp hE
        · rw [hl2]
          have hpe : palign = A := by
            have h3 : A ∣ palign := by
              rw [← hl1]
              exact Nat.dvd_trans (Spec.alignMember_dvd_blockAlign (.mk n t k) []) hbpal
            exact Nat.dvd_antisymm hpA h3
          subst hpe
          exact final_static_nm2_p13 S _ palign ppos _ hAal hS hpp hE
  | .mk n' t' k' :: r', n, t, k, v, vs, before, g, gs', cur, rest, first, o, fields, done, ppos, palign, isMain, off,
      pre, post, sizers, fuelP, fuelM, hall, hfm, hpm, hdm, hum, hh, hag, hlens, hdeep, hg, hpart, hfields, hdone,
      hnames, hpre, hpos, hbp, hnm, hmn, hpair, hmono, hsinv, hfP, hfM => by
    obtain ⟨h1, h2⟩ := hg
    obtain ⟨g2, gs'', rfl⟩ : ∃ g2 gs'', gs' = g2 :: gs'' := by
      cases gs' with
      | nil => simp [GSpec_p13] at h2
      | cons a b => exact ⟨a, b, rfl⟩
    obtain ⟨ht, ho, hs, hak, hl, hr⟩ := frontMs_cons_playou all n t k (.mk n' t' k' :: r') before hfm
    obtain ⟨hpt, _, _, _, _, _, _, hpr⟩ := (Accept.pyRtMs_cons all n t k (.mk n' t' k' :: r') before).1 hpm
    obtain ⟨hng, hup, hur⟩ := notUnl_cons_p13 n t k (.mk n' t' k' :: r') hum
    have hk2 := kind_ne2_p13 t k ht ho hak hup
    obtain ⟨hcn, hfd, hhr⟩ := (hasMs_cons all n t k (.mk n' t' k' :: r') v vs).1 hh
    obtain ⟨v2, vs', rfl⟩ : ∃ v2 vs', vs = v2 :: vs' := by
      cases vs with
      | nil => simp [hasMs] at hhr
      | cons a b => exact ⟨a, b, rfl⟩
    have hdr : partsOkMs (.mk n' t' k' :: r') = true := by
      simp only [partsOkMs, Bool.and_eq_true] at hdm ⊢; exact hdm.2
    have hagr : agreeFields (.mk n' t' k' :: r') (v2 :: vs') = true := by
      simp only [agreeFields, Bool.and_eq_true] at hag ⊢; exact hag.2
    have hdeepr : ∀ x ∈ v2 :: vs', DeepOK x := fun x hx => hdeep x (List.mem_cons_of_mem _ hx)
    have hall' : all = (before ++ [.mk n t k]) ++ .mk n' t' k' :: r' := by rw [hall]; simp
    rw [needMs_cons] at hfM hfP
    obtain ⟨fM, rfl⟩ : ∃ f, fuelM = f + 1 := ⟨fuelM - 1, by omega⟩
    have hAal : IsAl A := by rw [hA]; exact Spec.alignMs_isAl all
    have hmem : Member.mk n t k ∈ all := by rw [hall]; simp
    have hmem' : Member.mk n' t' k' ∈ all := by rw [hall]; simp
    have hsub : ∀ m ∈ (Member.mk n' t' k' :: r'), m ∈ all := by
      intro m hm; rw [hall]; exact List.mem_append_right _ (List.mem_cons_of_mem _ hm)
    have hB'A : Spec.blockAlign (.mk n' t' k' :: r') ∣ A := by
      rw [hA]
      exact Spec.blockAlign_dvd _ (Spec.alignMs_isAl all) _ (fun m hm => Spec.alignMember_dvd_alignMs m all (hsub m hm))
    have hB'al := Spec.blockAlign_isAl (.mk n' t' k' :: r')
    generalize ha : (if first then Spec.blockAlign (.mk n t k :: .mk n' t' k' :: r') else Spec.alignMember (.mk n t k)) = a at *
    have hchunks : Spec.chunksMs all allv (.mk n t k :: .mk n' t' k' :: r') (v :: v2 :: vs') off first =
        .pad (padTo off a) :: (Spec.fieldChunks all allv n t k v ++
          Spec.chunksMs all allv (.mk n' t' k' :: r') (v2 :: vs')
            (off + padTo off a + Spec.clen (Spec.fieldChunks all allv n t k v)) (Spec.endsBlock (.mk n t k))) := by
      rw [Spec.chunksMs_cons, ha]
    have hposE : ppos + o = S + (off + padTo off a) := by rw [← hpos]; unfold alignUp; omega
    cases heb : Spec.endsBlock (.mk n t k) with
    | false =>
      obtain ⟨hd, tl, hp1, hp2⟩ := partition_cons_static_p13 (fun (g : MG) => g.isDyn) g g2 gs'' (by rw [h1.hdyn hk2 hng]; exact heb)
      rw [hp2] at hpart
      injection hpart with hc1 hc2
      subst hc1; subst hc2
      have hdne : hd ≠ [] := partition_head_ne_nil_p13 _ g2 gs'' hd tl hp1
      have hde : hd.isEmpty = false := by cases hd with
        | nil => exact absurd rfl hdne
        | cons a b => rfl
      simp only [List.flatMap_cons] at hfields
      have hnm' : WF.uniq (fields.map (·.name)) = true := by
        rw [List.map_append] at hnames; exact (uniq_append_p13 _ _ hnames).1
      obtain ⟨e, he1, he2, he3⟩ := member_at all allv A S d hA hS huq hw hhall hshift (.mk n' t' k' :: r') n t k v
        (v2 :: vs') before g first o fields done (hd.flatMap (·.fields)) ppos off pre
        (Spec.render .big (Spec.chunksMs all allv (.mk n' t' k' :: r') (v2 :: vs')
            (off + padTo off a + Spec.clen (Spec.fieldChunks all allv n t k v)) false) ++ post)
        sizers fM false hall hfm hpm hdm hk2 hng hh hag hlens
        (hdeep v (List.mem_cons_self ..)) h1 hfields hdone hnm' hpre (by rw [ha]; exact hpos) hsinv (by omega)
      rw [ha] at he1 he3
      have hcl := clen_static_p13 all allv n t k v ht ho hs heb hfd
      rw [heb] at h2 hchunks
      have hno : nextOff_p13 n t k (.mk n' t' k' :: r') o = alignUp (o + Spec.slot t k) (Spec.alignMember (.mk n' t' k')) := by
        simp [nextOff_p13, heb]
      rw [hno] at h2
      have hBB := blockAlign_cons_static_p13 (.mk n t k) (.mk n' t' k' :: r') heb
      have ha'S : Spec.alignMember (.mk n' t' k') ∣ S :=
        Nat.dvd_trans (Nat.dvd_trans (Spec.alignMember_dvd_blockAlign _ r') hB'A) hS
      have ha'p : Spec.alignMember (.mk n' t' k') ∣ ppos :=
        Nat.dvd_trans (Nat.dvd_trans (Spec.alignMember_dvd_blockAlign _ r') hBB) hbp
      have ih := walk_ok all allv A ssize skind S d hA hS huq hw hhall hshift hdd r' n' t' k' v2 vs'
        (before ++ [.mk n t k]) g2 gs'' hd tl false (alignUp (o + Spec.slot t k) (Spec.alignMember (.mk n' t' k')))
        fields (done ++ g.fields) ppos palign isMain
        (off + padTo off a + Spec.clen (Spec.fieldChunks all allv n t k v))
        (pre ++ zeros (padTo off a) ++ Spec.render .little (Spec.fieldChunks all allv n t k v)) post
        (sizersAfter g (ppos + fieldOffset fields g.m.name) sizers) fuelP fM
        hall' hr hpr hdr hur hhr hagr hlens.2 hdeepr h2 hp1
        (by rw [hfields]; simp [List.append_assoc])
        (by rw [totalSize_append_p13, hdone]; exact h1.hnext heb _ _ rfl)
        hnames
        (by simp [hpre]; omega)
        (by
          simp only [Bool.false_eq_true, if_false]
          rw [← alignUp_add_left_p13 S _ _ ha'S, ← alignUp_add_left_p13 ppos _ _ ha'p]
          congr 1; rw [hcl]; omega)
        (Nat.dvd_trans hBB hbp)
        (fun hm => by
          obtain ⟨q1, q2, q3, q4, q5⟩ := hnm hm
          exact ⟨q1, q2, q3, q4, Nat.dvd_trans hBB q5⟩)
        (fun hm => by
          obtain ⟨q1, q2, q3⟩ := hmn hm
          refine ⟨q1, rfl, fun hdy => ?_⟩
          have := q3 (by rw [dynMs_cons_eq_p13, heb, hdy]; rfl)
          rw [this, hchunks]
          simp only [Spec.clen_cons, Spec.clen_append, Spec.Chunk.len]
          congr 1; omega)
        (fun hm q rest' hq => by
          rcases hpair hm q rest' hq with h | h
          · exact Or.inl h
          · right; rw [← h, lastAlign_cons_p13 g hd hdne])
        hmono he3 (by omega) (by omega)
      rw [hchunks]
      simp only [render_cons_p13, Spec.render_append, Spec.Chunk.render, List.append_assoc,
        Spec.clen_cons, Spec.clen_append, Spec.Chunk.len] at ih ⊢
      rw [swapMembers_cons, hde, he1]
      simp only [Bool.false_eq_true, if_false]
      rw [ih]
      congr 2
      simp only [Nat.add_assoc]
    | true =>
      have hpd := partition_cons_dyn_p13 (fun (g : MG) => g.isDyn) g g2 gs'' (by rw [h1.hdyn hk2 hng]; exact heb)
      rw [hpd] at hpart
      injection hpart with hc1 hc2
      subst hc1
      obtain ⟨q, rest', hq⟩ : ∃ q rest', partition (fun (g : MG) => g.isDyn) (g2 :: gs'') = q :: rest' := by
        cases hp : partition (fun (g : MG) => g.isDyn) (g2 :: gs'') with
        | nil => exact absurd hp (partition_ne_nil_p13 _ _)
        | cons a b => exact ⟨a, b, rfl⟩
      rw [hq] at hc2; subst hc2
      obtain ⟨q', rfl⟩ := partition_head_cons_p13 _ g2 gs'' q rest' hq
      simp only [List.flatMap_cons, List.flatMap_nil] at hfields
      have hnm' : WF.uniq (fields.map (·.name)) = true := by
        rw [List.map_append] at hnames; exact (uniq_append_p13 _ _ hnames).1
      obtain ⟨e, he1, he2, he3⟩ := member_at all allv A S d hA hS huq hw hhall hshift (.mk n' t' k' :: r') n t k v
        (v2 :: vs') before g first o fields done [] ppos off pre
        (Spec.render .big (Spec.chunksMs all allv (.mk n' t' k' :: r') (v2 :: vs')
            (off + padTo off a + Spec.clen (Spec.fieldChunks all allv n t k v)) true) ++ post)
        sizers fM true hall hfm hpm hdm hk2 hng hh hag hlens
        (hdeep v (List.mem_cons_self ..)) h1 hfields hdone hnm' hpre (by rw [ha]; exact hpos) hsinv (by omega)
      rw [ha] at he1 he3
      have he := he2 heb
      rw [heb] at h2 hchunks
      have hno : nextOff_p13 n t k (.mk n' t' k' :: r') o = 0 := by simp [nextOff_p13, heb]
      rw [hno] at h2
      have hal2 : g2.align = Spec.blockAlign (.mk n' t' k' :: r') := by
        have := h2.1.halign; simpa using this
      obtain ⟨fP, rfl⟩ : ∃ f, fuelP = f + 1 := ⟨fuelP - 1, by omega⟩
      -- the pointer at which the next part starts
      have heS : e = S + (off + padTo off a + Spec.clen (Spec.fieldChunks all allv n t k v)) := by
        rw [he, hposE]; omega
      have hda : Spec.alignMember (.mk n t k) ∣ a := by
        cases first
        · simp at ha; subst ha; exact Nat.dvd_refl _
        · simp at ha; subst ha; exact Spec.alignMember_dvd_blockAlign (.mk n t k) _
      have hapos : 0 < a := by
        cases first
        · simp at ha; subst ha; exact Spec.alignMember_pos _
        · simp at ha; subst ha; exact (Spec.blockAlign_isAl _).pos
      have hdme : Spec.alignMember (.mk n t k) ∣ e := by
        have hdyn : isMemberDynamic (memOf (nodeTy t) k) = true := by
          rw [isMemberDynamic_memOf t k ht hk2, endsPart_memOf n t k ht ho hs hk2, heb]
        have h3 := (dvd_dynamic all n t k v ht ho hs hdyn hfd).1
        rw [← Spec.clen_fieldChunks all allv n t k v hfd (by
          intro hne hst
          cases k <;> simp_all [Spec.endsBlock, Member.kind, MKind.isStatic])] at h3
        rw [he]
        refine Nat.dvd_add ?_ h3
        rw [hposE, ← Nat.add_assoc]
        have hdA : Spec.alignMember (.mk n t k) ∣ A := by rw [hA]; exact Spec.alignMember_dvd_alignMs _ all hmem
        have := Nat.dvd_trans hda (dvd_alignUp off a hapos)
        unfold alignUp at this
        rw [Nat.add_assoc]
        exact Nat.dvd_add (Nat.dvd_trans hdA hS) this
      have hptr := next_part_ptr_p13 S (off + padTo off a + Spec.clen (Spec.fieldChunks all allv n t k v)) A
        (Spec.blockAlign (.mk n' t' k' :: r')) palign e isMain hAal hS hB'al hB'A heS
        (fun hm => by
          obtain ⟨_, q2, _, _, _⟩ := hnm hm
          refine ⟨q2, ?_⟩
          rcases hpair hm _ _ rfl with h | h
          · left; simpa [partAlign, hal2] using h
          · right
            rw [← h]
            simp only [lastAlign, h1.hm]
            exact hdme)
      obtain ⟨hmono', hpair'⟩ := monoParts_cons_p13 _ _ hmono
      have hnames2 : WF.uniq ((((g2 :: q').flatMap (·.fields)) ++ rest'.flatten.flatMap (·.fields)).map (·.name)) = true := by
        simp only [List.flatten_cons, List.flatMap_append, List.map_append] at hnames ⊢
        exact (uniq_append_p13 _ _ hnames).2.1
      have ih := walk_ok all allv A ssize skind S d hA hS huq hw hhall hshift hdd r' n' t' k' v2 vs'
        (before ++ [.mk n t k]) g2 gs'' (g2 :: q') rest' true 0
        ((g2 :: q').flatMap (·.fields)) [] (S + alignUp (off + padTo off a + Spec.clen (Spec.fieldChunks all allv n t k v))
          (Spec.blockAlign (.mk n' t' k' :: r'))) (Spec.blockAlign (.mk n' t' k' :: r')) false
        (off + padTo off a + Spec.clen (Spec.fieldChunks all allv n t k v))
        (pre ++ zeros (padTo off a) ++ Spec.render .little (Spec.fieldChunks all allv n t k v)) post
        (sizersAfter g (ppos + fieldOffset fields g.m.name) sizers) fP fP
        hall' hr hpr hdr hur hhr hagr hlens.2 hdeepr h2 hq
        (List.nil_append _).symm rfl hnames2
        (by simp [hpre]; omega)
        (by simp)
        (Nat.dvd_add (Nat.dvd_trans hB'A hS) (dvd_alignUp _ _ hB'al.pos))
        (fun _ => ⟨hdd _ hmem heb, hB'al, hB'A,
          Nat.dvd_add (Nat.dvd_trans hB'A hS) (dvd_alignUp _ _ hB'al.pos), Nat.dvd_refl _⟩)
        (fun h => by cases h)
        (fun _ q2 rest2 hq2 => by
          have := hpair' q2 rest2 hq2
          simpa [partAlign, hal2] using this)
        hmono' he3 (by omega) (by omega)
      rw [hchunks]
      simp only [render_cons_p13, Spec.render_append, Spec.Chunk.render, List.append_assoc,
        Spec.clen_cons, Spec.clen_append, Spec.Chunk.len] at ih ⊢
      rw [swapMembers_cons]
      simp only [List.isEmpty_nil]
      rw [he1]
      simp only [if_true, finishPart]
      rw [swapParts_cons]
      simp only [palignOf, Bool.false_eq_true, if_false]
      rw [hal2, hptr, ih]
      congr 2
      simp only [Nat.add_assoc]

/-! ## structs -/

theorem any_dynamic_true_p13 : (ms allF before : List Member) → frontMs allF ms before = true →
    Spec.unlMs ms = false → ∀ m ∈ ms, Spec.endsBlock m = true → (memsOf ms).any isMemberDynamic = true
  | [], _, _, _, _, m, hm, _ => by cases hm
  | .mk n t k :: r, allF, before, hf, hu, m, hm, he => by
    obtain ⟨ht, ho, hs, ha, hl, hr⟩ := frontMs_cons_playou allF n t k r before hf
    obtain ⟨hng, hup, hur⟩ := notUnl_cons_p13 n t k r hu
    have hk2 := kind_ne2_p13 t k ht ho ha hup
    simp only [memsOf, List.any_cons, Bool.or_eq_true]
    rcases List.mem_cons.1 hm with rfl | hmr
    · left
      rw [isMemberDynamic_memOf t k ht hk2, endsPart_memOf n t k ht ho hs hk2, he]
    · right; exact any_dynamic_true_p13 r allF _ hr hur m hmr he

theorem tyOK_struct (vs : List Val) (hvs : ∀ v ∈ vs, DeepOK v) : TyOK (.struct vs) := by
  intro t pre post fuel pos hf hp hd hc hh ha hu hpre hal hfuel
  cases t with
  | prim p => simp [hasField] at hh
  | byte => simp [hasField] at hh
  | enum nm es => simp [hasField] at hh
  | union nm arms => simp [hasField] at hh
  | struct nm ms =>
    obtain ⟨hne, huq, hw, hfm, hpm⟩ := Accept.struct_facts nm ms hf hp
    have hhm : hasMs ms ms vs = true := by simpa [hasField] using hh
    simp only [agreeTy, Bool.and_eq_true] at ha
    obtain ⟨hagm, hagf⟩ := ha
    simp only [partsOk, Bool.and_eq_true] at hd
    obtain ⟨⟨⟨hnames, hmono⟩, hshift⟩, hdms⟩ := hd
    have hum : Spec.unlMs ms = false := by simpa [Spec.unlTy] using hu
    simp only [needTy] at hfuel
    obtain ⟨f, rfl⟩ : ∃ f, fuel = f + 2 := ⟨fuel - 2, by omega⟩
    have hsz := sizeofMs_ok_p13 ms ms [] hfm
    have hg := groups_spec_p13 ms hne hfm hsz
    have hal' : Spec.alignMs ms ∣ pos := by simpa [Spec.alignTy] using hal
    have hna : (nodeTy (.struct nm ms)).align = Spec.alignMs ms := by rw [nodeTy_align']; simp [Spec.alignTy]
    obtain ⟨cur, rest, hpart⟩ : ∃ cur rest, partition (fun (g : MG) => g.isDyn) (groupsOf ms) = cur :: rest := by
      cases hp : partition (fun (g : MG) => g.isDyn) (groupsOf ms) with
      | nil => exact absurd hp (partition_ne_nil_p13 _ _)
      | cons a b => exact ⟨a, b, rfl⟩
    obtain ⟨m, r, rfl⟩ : ∃ m r, ms = m :: r := by
      cases ms with
      | nil => exact absurd rfl hne
      | cons a b => exact ⟨a, b, rfl⟩
    obtain ⟨n, t, k⟩ := m
    obtain ⟨v, vs', rfl⟩ : ∃ v vs', vs = v :: vs' := by
      cases vs with
      | nil => simp [hasMs] at hhm
      | cons a b => exact ⟨a, b, rfl⟩
    obtain ⟨g, gs', hgs⟩ : ∃ g gs', groupsOf (.mk n t k :: r) = g :: gs' := by
      cases hgo : groupsOf (.mk n t k :: r) with
      | nil => rw [hgo] at hg; simp [GSpec_p13] at hg
      | cons a b => exact ⟨a, b, rfl⟩
    rw [hgs] at hg hpart
    have hflat : groupsOf (.mk n t k :: r) = cur ++ rest.flatten := by
      have := partition_flatten_p13 (fun (g : MG) => g.isDyn) (groupsOf (.mk n t k :: r))
      rw [hgs, hpart] at this
      rw [hgs, ← this]; rfl
    have hmono' : monoParts rest = true := by
      unfold monoOk at hmono; rw [hgs, hpart] at hmono; exact hmono
    have hnames' : WF.uniq (((cur.flatMap (·.fields)) ++ rest.flatten.flatMap (·.fields)).map (·.name)) = true := by
      unfold namesOk at hnames; rw [hflat, List.flatMap_append] at hnames; exact hnames
    have hbody := walk_ok (.mk n t k :: r) (v :: vs') (Spec.alignMs (.mk n t k :: r)) (sizeofTy (.struct nm (.mk n t k :: r)))
      (nodeTy (.struct nm (.mk n t k :: r))).kind pos ((memsOf (.mk n t k :: r)).any isMemberDynamic) rfl hal' huq hw hhm hshift
      (fun m hm he => any_dynamic_true_p13 _ _ [] hfm hum m hm he)
      r n t k v vs' [] g gs' cur rest false 0 (cur.flatMap (·.fields)) [] pos 1 true 0 pre
      (zeros (padTo (Spec.clen (Spec.chunksMs (.mk n t k :: r) (v :: vs') (.mk n t k :: r) (v :: vs') 0 false))
        (Spec.alignMs (.mk n t k :: r))) ++ post) [] (f + 0) f
      rfl hfm hpm hdms hum hhm hagf (lensOk_of_agree _ _ hagm) hvs hg hpart (List.nil_append _).symm rfl hnames'
      (by simp [hpre])
      (by simp [alignUp_zero])
      (Nat.dvd_trans (Spec.blockAlign_dvd _ (Spec.alignMs_isAl _) _
        (fun m hm => Spec.alignMember_dvd_alignMs m _ hm)) hal')
      (fun h => by cases h)
      (fun _ => ⟨rfl, rfl, fun hdy => by
        have hdt : Spec.dynTy (.struct nm (.mk n t k :: r)) = false := by simpa [Spec.dynTy] using hdy
        rw [sizeof_ok_p13 _ hf hdt, ← Spec.clen_fixed _ (.struct (v :: vs')) (fixed_of_front _ hf hdt) hc hh]
        simp only [Spec.chunksTy, Spec.clen_append, Spec.clen_cons, Spec.clen_nil, Spec.Chunk.len, Nat.zero_add,
          Nat.add_zero]
        rfl⟩)
      (fun h => by cases h)
      hmono'
      (fun s p hm => by cases hm)
      (by omega) (by omega)
    simp only [Spec.chunksTy, Spec.render_append, render_cons_p13, render_nil_p13, Spec.Chunk.render, List.append_nil,
      List.append_assoc, Spec.clen_append, Spec.clen_cons, Spec.clen_nil, Spec.Chunk.len, Nat.add_zero]
    rw [show f + 2 = (f + 1) + 1 from rfl, swapTy_struct, hgs, hpart, swapParts_cons]
    have hpa : palignOf cur true = 1 := by cases cur <;> rfl
    simp only [hpa, padTo_one, Nat.add_zero, hna]
    simp only [Nat.zero_add, Nat.add_zero] at hbody
    rw [hbody]
    rfl

/-! ## the induction on the value -/

theorem tyOK_vacuous (v : Val) (h : ∀ t, hasField [] .plain t v = false) : TyOK v := by
  intro t pre post fuel pos hf hp hd hc hh
  rw [h t] at hh; cases hh

mutual
  theorem deep_ok : (v : Val) → DeepOK v
    | .int i => by
      refine ⟨tyOK_int i, ?_, ?_⟩
      · intro x h; cases h
      · intro xs h; cases h
    | .bytes b => by
      refine ⟨tyOK_vacuous _ (fun t => by cases t <;> simp [hasField]), ?_, ?_⟩
      · intro x h; cases h
      · intro xs h; cases h
    | .arr xs => by
      refine ⟨tyOK_vacuous _ (fun t => by cases t <;> simp [hasField]), ?_, ?_⟩
      · intro x h; cases h
      · intro xs' h x hx
        injection h with h
        subst h
        exact (all_ok xs x hx).1
    | .struct vs => by
      refine ⟨tyOK_struct vs (all_ok vs), ?_, ?_⟩
      · intro x h; cases h
      · intro xs h; cases h
    | .union i x => by
      refine ⟨tyOK_union i x (deep_ok x).1, ?_, ?_⟩
      · intro x h; cases h
      · intro xs h; cases h
    | .absent => by
      refine ⟨tyOK_vacuous _ (fun t => by cases t <;> simp [hasField]), ?_, ?_⟩
      · intro x h; cases h
      · intro xs h; cases h
    | .present x => by
      refine ⟨tyOK_vacuous _ (fun t => by cases t <;> simp [hasField]), ?_, ?_⟩
      · intro x' h
        injection h with h
        subst h
        exact (deep_ok x).1
      · intro xs h; cases h
    | .sizer => by
      refine ⟨?_, ?_, ?_⟩
      · intro t pre post fuel pos hf hp hd hc
        simp [Val.isCounter] at hc
      · intro x h; cases h
      · intro xs h; cases h
  theorem all_ok : (vs : List Val) → ∀ v ∈ vs, DeepOK v
    | [], v, h => by cases h
    | x :: xs, v, h =>
      (List.mem_cons.1 h).elim (fun e => e ▸ deep_ok x) (fun h' => all_ok xs v h')
end

end Raw
end Prophy

/-
  C14, host languages: when does expression TEXT pasted into the generated Python module / C++
  header denote the tree (and the integer) that prophyc's calc computed?

  All statements are about TOKEN LISTS and TREES.  The lexers (calc's `\d+` is decimal, C++ reads a
  leading `0` as octal: finding D63, first half) are outside this file.
-/
import ProphyModel.Expr
import ProphyModel.Lemmas.ExprPrint
namespace Prophy
namespace Expr

/-! ### 1. the precedence-climbing parser with the operator table as a parameter -/

mutual
  def parseAtomW (info : Tok → Option (Nat × Bool × BinOp)) : Nat → List Tok → Option (Ast × List Tok)
    | 0, _ => none
    | _ + 1, .num n :: r => some (.num n, r)
    | _ + 1, .ident s :: r => some (.name s, r)
    | fuel + 1, .minus :: r =>
      match parseAtomW info fuel r with
      | some (e, r') => some (.neg e, r')
      | none => none
    | fuel + 1, .lpar :: r =>
      match parseExprW info fuel 0 r with
      | some (e, .rpar :: r') => some (e, r')
      | _ => none
    | _ + 1, _ => none
  def parseExprW (info : Tok → Option (Nat × Bool × BinOp)) : Nat → Nat → List Tok → Option (Ast × List Tok)
    | 0, _, _ => none
    | fuel + 1, minLevel, toks =>
      match parseAtomW info fuel toks with
      | some (lhs, r) => parseLoopW info fuel minLevel lhs r
      | none => none
  def parseLoopW (info : Tok → Option (Nat × Bool × BinOp)) : Nat → Nat → Ast → List Tok → Option (Ast × List Tok)
    | 0, _, _, _ => none
    | fuel + 1, minLevel, lhs, toks =>
      match toks with
      | [] => some (lhs, [])
      | t :: r =>
        match info t with
        | some (lvl, rightAssoc, op) =>
          if lvl < minLevel then some (lhs, t :: r)
          else
            match parseExprW info fuel (if rightAssoc then lvl else lvl + 1) r with
            | some (rhs, r') => parseLoopW info fuel minLevel (.bin op lhs rhs) r'
            | none => none
        | none => some (lhs, t :: r)
end

/-- `Expr.parse` with the operator table as a parameter -/
def parseWith (info : Tok → Option (Nat × Bool × BinOp)) (toks : List Tok) : Option Ast :=
  match parseExprW info (4 * toks.length + 4) 0 toks with
  | some (e, []) => some e
  | _ => none

section Unfold
variable (info : Tok → Option (Nat × Bool × BinOp))

theorem parseAtomW_zero (t : List Tok) : parseAtomW info 0 t = none := by
  unfold parseAtomW; rfl

theorem parseAtomW_num (f : Nat) (n : Nat) (r : List Tok) :
    parseAtomW info (f + 1) (.num n :: r) = some (.num n, r) := by
  simp only [parseAtomW] <;> rfl

theorem parseAtomW_ident (f : Nat) (s : String) (r : List Tok) :
    parseAtomW info (f + 1) (.ident s :: r) = some (.name s, r) := by
  simp only [parseAtomW] <;> rfl

theorem parseAtomW_minus (f : Nat) (r : List Tok) :
    parseAtomW info (f + 1) (.minus :: r) =
      match parseAtomW info f r with
      | some (e, r') => some (.neg e, r')
      | none => none := by
  simp only [parseAtomW] <;> rfl

theorem parseAtomW_lpar (f : Nat) (r : List Tok) :
    parseAtomW info (f + 1) (.lpar :: r) =
      match parseExprW info f 0 r with
      | some (e, .rpar :: r') => some (e, r')
      | _ => none := by
  simp only [parseAtomW] <;> rfl

theorem parseExprW_zero (m : Nat) (t : List Tok) : parseExprW info 0 m t = none := by
  simp only [parseExprW] <;> rfl

theorem parseExprW_succ (f m : Nat) (t : List Tok) :
    parseExprW info (f + 1) m t =
      match parseAtomW info f t with
      | some (lhs, r) => parseLoopW info f m lhs r
      | none => none := by
  simp only [parseExprW] <;> rfl

theorem parseLoopW_zero (m : Nat) (a : Ast) (t : List Tok) : parseLoopW info 0 m a t = none := by
  simp only [parseLoopW] <;> rfl

theorem parseLoopW_nil (f m : Nat) (a : Ast) : parseLoopW info (f + 1) m a [] = some (a, []) := by
  simp only [parseLoopW] <;> rfl

theorem parseLoopW_cons (f m : Nat) (a : Ast) (t : Tok) (r : List Tok) :
    parseLoopW info (f + 1) m a (t :: r) =
      match info t with
      | some (lvl, rightAssoc, op) =>
        if lvl < m then some (a, t :: r)
        else
          match parseExprW info f (if rightAssoc then lvl else lvl + 1) r with
          | some (rhs, r') => parseLoopW info f m (.bin op a rhs) r'
          | none => none
      | none => some (a, t :: r) := by
  simp only [parseLoopW] <;> rfl

theorem parseAtomW_nil (f : Nat) : parseAtomW info f [] = none := by
  cases f <;> simp only [parseAtomW] <;> rfl

theorem parseAtomW_other (f : Nat) (tk : Tok) (r : List Tok)
    (h1 : ∀ n, tk ≠ .num n) (h2 : ∀ s, tk ≠ .ident s) (h3 : tk ≠ .minus) (h4 : tk ≠ .lpar) :
    parseAtomW info f (tk :: r) = none := by
  cases f with
  | zero => exact parseAtomW_zero info _
  | succ f =>
    cases tk <;> first
      | (exact absurd rfl (h1 _)) | (exact absurd rfl (h2 _)) | (exact absurd rfl h3)
      | (exact absurd rfl h4) | (simp only [parseAtomW] <;> rfl)

end Unfold

/-- at calc's table the parameterised parser IS the model's parser -/
theorem parseW_binInfo_step (f : Nat) :
    (∀ t, parseAtomW binInfo f t = parseAtom f t) ∧
    (∀ m t, parseExprW binInfo f m t = parseExpr f m t) ∧
    (∀ m a t, parseLoopW binInfo f m a t = parseLoop f m a t) := by
  induction f with
  | zero =>
    refine ⟨?_, ?_, ?_⟩
    · intro t; rw [parseAtomW_zero, parseAtom_zero]
    · intro m t; rw [parseExprW_zero, parseExpr_zero]
    · intro m a t; rw [parseLoopW_zero, parseLoop_zero]
  | succ f ih =>
    obtain ⟨ihA, ihE, ihL⟩ := ih
    refine ⟨?_, ?_, ?_⟩
    · intro t
      cases t with
      | nil => rw [parseAtomW_nil, parseAtom_nil]
      | cons tk tl =>
        cases tk with
        | num n => rw [parseAtomW_num, parseAtom_num]
        | ident s => rw [parseAtomW_ident, parseAtom_ident]
        | minus => rw [parseAtomW_minus, parseAtom_minus, ihA]; rfl
        | lpar => rw [parseAtomW_lpar, parseAtom_lpar, ihE]; rfl
        | _ => simp [parseAtomW, parseAtom]
    · intro m t
      rw [parseExprW_succ, parseExpr_succ, ihA]
      cases parseAtom f t with
      | none => rfl
      | some p => exact ihL _ _ _
    · intro m a t
      cases t with
      | nil => rw [parseLoopW_nil, parseLoop_nil]
      | cons tk tl =>
        rw [parseLoopW_cons, parseLoop_cons]
        cases binInfo tk with
        | none => rfl
        | some q =>
          obtain ⟨lv, ra, op⟩ := q
          simp only
          rw [ihE]
          split
          · rfl
          · cases parseExpr f (if ra = true then lv else lv + 1) tl with
            | none => rfl
            | some p => exact ihL _ _ _

theorem parseWith_binInfo : parseWith binInfo = parse := by
  funext t
  unfold parseWith parse
  rw [(parseW_binInfo_step _).2.1]; rfl


/-! ### 2. operator tables -/

/-- a precedence table: level and associativity of every binary operator
    (unary minus is above all of them, level 4, in calc, Python and C++ alike) -/
structure Table where
  lv : BinOp → Nat
  ra : BinOp → Bool

/-- the parser's view of a table -/
def Table.info (T : Table) : Tok → Option (Nat × Bool × BinOp)
  | .bar => some (T.lv .bor, T.ra .bor, .bor)
  | .plus => some (T.lv .add, T.ra .add, .add)
  | .minus => some (T.lv .sub, T.ra .sub, .sub)
  | .star => some (T.lv .mul, T.ra .mul, .mul)
  | .slash => some (T.lv .div, T.ra .div, .div)
  | .shl => some (T.lv .shl, T.ra .shl, .shl)
  | .shr => some (T.lv .shr, T.ra .shr, .shr)
  | _ => none

/-- levels are below unary minus, and one level has one associativity (as in every yacc table and
    in the grammars of Python and C++) -/
structure Table.WF (T : Table) : Prop where
  le3 : ∀ op, T.lv op ≤ 3
  coh : ∀ op op', T.lv op = T.lv op' → T.ra op = T.ra op'

def Table.nxt (T : Table) (op : BinOp) : Nat := if T.ra op then T.lv op else T.lv op + 1
def Table.lnx (T : Table) (op : BinOp) : Nat := if T.ra op then T.lv op + 1 else T.lv op

/-- calc's table (`Expr.binInfo`) -/
def calcT : Table := ⟨lvl, rassoc⟩

/-- Python 3 and C++: `|` below `<< >>` below `+ -` below `* /`, all left-associative -/
def hostLvl : BinOp → Nat
  | .bor => 0
  | .shl => 1 | .shr => 1
  | .add => 2 | .sub => 2
  | .mul => 3 | .div => 3

def hostT : Table := ⟨hostLvl, fun _ => false⟩

/-- the operator table of Python 3 and of C++ (restricted to calc's operators) -/
def hostInfo : Tok → Option (Nat × Bool × BinOp)
  | .bar => some (0, false, .bor)
  | .shl => some (1, false, .shl)
  | .shr => some (1, false, .shr)
  | .plus => some (2, false, .add)
  | .minus => some (2, false, .sub)
  | .star => some (3, false, .mul)
  | .slash => some (3, false, .div)
  | _ => none

theorem calcT_info : calcT.info = binInfo := by
  funext t; cases t <;> rfl

theorem hostT_info : hostT.info = hostInfo := by
  funext t; cases t <;> rfl

theorem calcT_wf : calcT.WF :=
  ⟨lvl_le_three, by intro op op'; cases op <;> cases op' <;> decide⟩

theorem hostT_wf : hostT.WF :=
  ⟨by intro op; cases op <;> decide, fun _ _ _ => rfl⟩

theorem Table.info_opTok (T : Table) (op : BinOp) :
    T.info (opTok op) = some (T.lv op, T.ra op, op) := by
  cases op <;> rfl

theorem Table.info_inv (T : Table) {tk : Tok} {lv : Nat} {ra : Bool} {op : BinOp}
    (h : T.info tk = some (lv, ra, op)) : tk = opTok op ∧ lv = T.lv op ∧ ra = T.ra op := by
  cases tk <;> simp [Table.info] at h <;> (obtain ⟨rfl, rfl, rfl⟩ := h; exact ⟨rfl, rfl, rfl⟩)

theorem Table.lv_le_nxt (T : Table) (op : BinOp) : T.lv op ≤ T.nxt op := by
  unfold Table.nxt; split <;> omega

theorem Table.lv_le_lnx (T : Table) (op : BinOp) : T.lv op ≤ T.lnx op := by
  unfold Table.lnx; split <;> omega

/-! ### 3. fuel monotonicity (any table) -/

section Generic
variable (info : Tok → Option (Nat × Bool × BinOp))

theorem parseW_mono_step (f : Nat) :
    (∀ t r, parseAtomW info f t = some r → parseAtomW info (f + 1) t = some r) ∧
    (∀ m t r, parseExprW info f m t = some r → parseExprW info (f + 1) m t = some r) ∧
    (∀ m a t r, parseLoopW info f m a t = some r → parseLoopW info (f + 1) m a t = some r) := by
  induction f with
  | zero =>
    refine ⟨?_, ?_, ?_⟩
    · intro t r h; rw [parseAtomW_zero] at h; cases h
    · intro m t r h; rw [parseExprW_zero] at h; cases h
    · intro m a t r h; rw [parseLoopW_zero] at h; cases h
  | succ f ih =>
    obtain ⟨ihA, ihE, ihL⟩ := ih
    refine ⟨?_, ?_, ?_⟩
    · intro t r h
      cases t with
      | nil => rw [parseAtomW_nil] at h; cases h
      | cons tk tl =>
        cases tk with
        | num n => rw [parseAtomW_num] at h ⊢; exact h
        | ident s => rw [parseAtomW_ident] at h ⊢; exact h
        | minus =>
          rw [parseAtomW_minus] at h ⊢
          cases h1 : parseAtomW info f tl with
          | none => rw [h1] at h; cases h
          | some p => rw [ihA _ _ h1]; rw [h1] at h; exact h
        | lpar =>
          rw [parseAtomW_lpar] at h ⊢
          cases h1 : parseExprW info f 0 tl with
          | none => rw [h1] at h; cases h
          | some p => rw [ihE _ _ _ h1]; rw [h1] at h; exact h
        | _ => simp [parseAtomW] at h
    · intro m t r h
      rw [parseExprW_succ] at h ⊢
      cases h1 : parseAtomW info f t with
      | none => rw [h1] at h; cases h
      | some p =>
        obtain ⟨lhs, r'⟩ := p
        rw [ihA _ _ h1]; rw [h1] at h
        exact ihL _ _ _ _ h
    · intro m a t r h
      cases t with
      | nil => rw [parseLoopW_nil] at h ⊢; exact h
      | cons tk tl =>
        rw [parseLoopW_cons] at h ⊢
        cases hb : info tk with
        | none => rw [hb] at h; exact h
        | some q =>
          obtain ⟨lvl, ra, op⟩ := q
          rw [hb] at h
          simp only at h ⊢
          by_cases hl : lvl < m
          · simp only [hl, if_true] at h ⊢; exact h
          · simp only [hl, if_false] at h ⊢
            cases h1 : parseExprW info f (if ra = true then lvl else lvl + 1) tl with
            | none => rw [h1] at h; cases h
            | some p =>
              obtain ⟨rhs, r'⟩ := p
              rw [ihE _ _ _ h1]; rw [h1] at h
              exact ihL _ _ _ _ h

variable {info}

theorem parseAtomW_mono {f f' : Nat} {t : List Tok} {r} (h : parseAtomW info f t = some r)
    (hf : f ≤ f') : parseAtomW info f' t = some r := by
  induction hf with
  | refl => exact h
  | step _ ih => exact (parseW_mono_step info _).1 _ _ ih

theorem parseExprW_mono {f f' : Nat} {m : Nat} {t : List Tok} {r}
    (h : parseExprW info f m t = some r) (hf : f ≤ f') : parseExprW info f' m t = some r := by
  induction hf with
  | refl => exact h
  | step _ ih => exact (parseW_mono_step info _).2.1 _ _ _ ih

theorem parseLoopW_mono {f f' : Nat} {m : Nat} {a : Ast} {t : List Tok} {r}
    (h : parseLoopW info f m a t = some r) (hf : f ≤ f') : parseLoopW info f' m a t = some r := by
  induction hf with
  | refl => exact h
  | step _ ih => exact (parseW_mono_step info _).2.2 _ _ _ _ ih

theorem parseExprW_of {F fa fl m : Nat} {t : List Tok} {lhs : Ast} {r' : List Tok} {r}
    (ha : parseAtomW info fa t = some (lhs, r')) (hl : parseLoopW info fl m lhs r' = some r)
    (h1 : fa < F) (h2 : fl < F) : parseExprW info F m t = some r := by
  obtain ⟨F, rfl⟩ : ∃ k, F = k + 1 := ⟨F - 1, by omega⟩
  rw [parseExprW_succ, parseAtomW_mono ha (by omega)]
  exact parseLoopW_mono hl (by omega)

theorem parseLoopW_op {F fe fl m lv : Nat} {ra : Bool} {op : BinOp} {a rhs : Ast} {tk : Tok}
    {tl r' : List Tok} {r}
    (hb : info tk = some (lv, ra, op)) (hm : ¬ lv < m)
    (he : parseExprW info fe (if ra then lv else lv + 1) tl = some (rhs, r'))
    (hl : parseLoopW info fl m (.bin op a rhs) r' = some r)
    (h1 : fe < F) (h2 : fl < F) : parseLoopW info F m a (tk :: tl) = some r := by
  obtain ⟨F, rfl⟩ : ∃ k, F = k + 1 := ⟨F - 1, by omega⟩
  rw [parseLoopW_cons, hb]
  simp only [hm, if_false]
  rw [parseExprW_mono he (by omega)]
  exact parseLoopW_mono hl (by omega)

/-- `rest` does not start with a binary operator of level `≥ k` -/
def okRestW (info : Tok → Option (Nat × Bool × BinOp)) (k : Nat) (rest : List Tok) : Prop :=
  ∀ t r lv ra op, rest = t :: r → info t = some (lv, ra, op) → lv < k

theorem okRestW_nil (k : Nat) : okRestW info k [] := by
  intro t r lv ra op h; cases h

theorem okRestW_mono {k k' : Nat} {rest : List Tok} (h : okRestW info k rest) (hk : k ≤ k') :
    okRestW info k' rest := by
  intro t r lv ra op h1 h2
  have := h t r lv ra op h1 h2
  omega

theorem parseLoopW_stop {F m : Nat} {a : Ast} {rest : List Tok} (h : okRestW info m rest)
    (hF : 0 < F) : parseLoopW info F m a rest = some (a, rest) := by
  obtain ⟨F, rfl⟩ : ∃ k, F = k + 1 := ⟨F - 1, by omega⟩
  cases rest with
  | nil => rw [parseLoopW_nil]
  | cons tk tl =>
    rw [parseLoopW_cons]
    cases hb : info tk with
    | none => rfl
    | some q =>
      obtain ⟨lv, ra, op⟩ := q
      have := h tk tl lv ra op rfl hb
      simp only [this, if_true]

theorem parseAtomW_neg_of {F f : Nat} {t r : List Tok} {e : Ast}
    (h : parseAtomW info f t = some (e, r)) (hf : f < F) :
    parseAtomW info F (.minus :: t) = some (.neg e, r) := by
  obtain ⟨F, rfl⟩ : ∃ k, F = k + 1 := ⟨F - 1, by omega⟩
  rw [parseAtomW_minus, parseAtomW_mono h (by omega)]

theorem parseAtomW_paren_of {F f : Nat} {t r : List Tok} {e : Ast}
    (h : parseExprW info f 0 t = some (e, .rpar :: r)) (hf : f < F) :
    parseAtomW info F (.lpar :: t) = some (e, r) := by
  obtain ⟨F, rfl⟩ : ∃ k, F = k + 1 := ⟨F - 1, by omega⟩
  rw [parseAtomW_lpar, parseExprW_mono h (by omega)]

end Generic

theorem Table.okRest_rpar (T : Table) (k : Nat) (r : List Tok) : okRestW T.info k (.rpar :: r) := by
  intro t r lv ra op h hb
  cases h
  simp [Table.info] at hb

/-! ### 4. the language of the parser at table `T` -/

/-- `RepT T l a t`: the token list `t` writes the tree `a`, at table `T`, in a context that admits
    unparenthesised binary operators of level `≥ l` only; parentheses may be added anywhere and
    omitted only where `T` allows it (`Rep` of `ExprPrint.lean` is `RepT calcT`). -/
inductive RepT (T : Table) : Nat → Ast → List Tok → Prop
  | num (l n : Nat) : RepT T l (.num n) [.num n]
  | name (l : Nat) (s : String) : RepT T l (.name s) [.ident s]
  | neg (l : Nat) (e : Ast) (t : List Tok) : RepT T 4 e t → RepT T l (.neg e) (.minus :: t)
  | bin (l : Nat) (op : BinOp) (x y : Ast) (tx ty : List Tok) :
      l ≤ T.lv op → RepT T (T.lnx op) x tx → RepT T (T.nxt op) y ty →
      RepT T l (.bin op x y) (tx ++ opTok op :: ty)
  | paren (l : Nat) (a : Ast) (t : List Tok) : RepT T 0 a t → RepT T l a (.lpar :: t ++ [.rpar])

theorem RepT_of_Rep {l : Nat} {a : Ast} {t : List Tok} (h : Rep l a t) : RepT calcT l a t := by
  induction h with
  | num l n => exact .num l n
  | name l s => exact .name l s
  | neg l e t _ ih => exact .neg l e t ih
  | bin l op x y tx ty hl _ _ ihx ihy => exact .bin l op x y tx ty hl ihx ihy
  | paren l a t _ ih => exact .paren l a t ih

theorem Rep_of_RepT {l : Nat} {a : Ast} {t : List Tok} (h : RepT calcT l a t) : Rep l a t := by
  induction h with
  | num l n => exact .num l n
  | name l s => exact .name l s
  | neg l e t _ ih => exact .neg l e t ih
  | bin l op x y tx ty hl _ _ ihx ihy => exact .bin l op x y tx ty hl ihx ihy
  | paren l a t _ ih => exact .paren l a t ih

/-- what may follow a representation at level `l` without being absorbed into its last operand:
    no operator above `l`, and none AT `l` either when level `l` is right-associative -/
def condT (T : Table) (l : Nat) (rest : List Tok) : Prop :=
  okRestW T.info (l + 1) rest ∧ (∀ op, T.ra op = true → T.lv op = l → okRestW T.info l rest)

theorem condT_of_okRest {T : Table} {l : Nat} {rest : List Tok} (h : okRestW T.info l rest) :
    condT T l rest :=
  ⟨okRestW_mono h (by omega), fun _ _ _ => h⟩

theorem RepT.parse_cont {T : Table} (hT : T.WF) {l : Nat} {a : Ast} {t : List Tok} (h : RepT T l a t) :
    (∀ m rest r f0, m ≤ l → condT T l rest → parseLoopW T.info f0 m a rest = some r →
        parseExprW T.info (f0 + 2 * t.length) m (t ++ rest) = some r) ∧
    (4 ≤ l → ∀ rest, parseAtomW T.info (2 * t.length) (t ++ rest) = some (a, rest)) := by
  induction h with
  | num l n =>
    refine ⟨?_, ?_⟩
    · intro m rest r f0 _ _ hL
      exact parseExprW_of (fa := 1) (parseAtomW_num _ 0 n rest) hL (by simp) (by simp)
    · intro _ rest
      exact parseAtomW_num _ 1 n rest
  | name l s =>
    refine ⟨?_, ?_⟩
    · intro m rest r f0 _ _ hL
      exact parseExprW_of (fa := 1) (parseAtomW_ident _ 0 s rest) hL (by simp) (by simp)
    · intro _ rest
      exact parseAtomW_ident _ 1 s rest
  | neg l e t _ ih =>
    have hA := ih.2 (Nat.le_refl 4)
    refine ⟨?_, ?_⟩
    · intro m rest r f0 _ _ hL
      refine parseExprW_of (fa := 2 * t.length + 1) ?_ hL ?_ ?_
      · exact parseAtomW_neg_of (hA rest) (by omega)
      · simp only [List.length_cons]; omega
      · simp only [List.length_cons]; omega
    · intro _ rest
      exact parseAtomW_neg_of (hA rest) (by simp only [List.length_cons]; omega)
  | bin l op x y tx ty hl _ _ ihx ihy =>
    refine ⟨?_, ?_⟩
    · intro m rest r f0 hm hc hL
      have hlist : (tx ++ opTok op :: ty) ++ rest = tx ++ (opTok op :: (ty ++ rest)) := by simp
      rw [hlist]
      have hnxt := T.lv_le_nxt op
      have hlnx := T.lv_le_lnx op
      -- `rest` is not absorbed into the right operand
      have hok : okRestW T.info (T.nxt op) rest := by
        by_cases hr : T.ra op = true
        · have hn : T.nxt op = T.lv op := by simp [Table.nxt, hr]
          rw [hn]
          by_cases hlt : l = T.lv op
          · exact hlt ▸ hc.2 op hr hlt.symm
          · exact okRestW_mono hc.1 (by omega)
        · have hn : T.nxt op = T.lv op + 1 := by simp [Table.nxt, hr]
          exact okRestW_mono hc.1 (by omega)
      have hcy : condT T (T.nxt op) rest := condT_of_okRest hok
      have hcx : condT T (T.lnx op) (opTok op :: (ty ++ rest)) := by
        refine ⟨?_, ?_⟩
        · intro t r lv ra o h1 h2
          cases h1
          rw [T.info_opTok] at h2
          cases h2
          omega
        · intro op' hr' hlv' t r lv ra o h1 h2
          cases h1
          rw [T.info_opTok] at h2
          cases h2
          by_cases hr : T.ra op = true
          · simp [Table.lnx, hr]
          · exfalso
            have h1 : T.lnx op = T.lv op := by simp [Table.lnx, hr]
            have := hT.coh op' op (by omega)
            rw [hr'] at this
            exact hr this.symm
      have hy := ihy.1 (T.nxt op) rest (y, rest) 1 (Nat.le_refl _) hcy
        (parseLoopW_stop hok (by omega))
      have hstep : parseLoopW T.info (f0 + 2 * ty.length + 2) m x (opTok op :: (ty ++ rest)) = some r := by
        refine parseLoopW_op (T.info_opTok op) (by omega) (fe := 1 + 2 * ty.length) (fl := f0)
          ?_ hL (by omega) (by omega)
        exact hy
      have := ihx.1 m (opTok op :: (ty ++ rest)) r _ (by omega) hcx hstep
      refine parseExprW_mono this ?_
      simp only [List.length_append, List.length_cons]; omega
    · intro h4
      have := hT.le3 op
      omega
  | paren l a t _ ih =>
    have hin : ∀ rest, parseExprW T.info (1 + 2 * t.length) 0 (t ++ (.rpar :: rest)) = some (a, .rpar :: rest) :=
      fun rest => ih.1 0 (.rpar :: rest) (a, .rpar :: rest) 1 (Nat.le_refl _)
        (condT_of_okRest (T.okRest_rpar _ _)) (parseLoopW_stop (T.okRest_rpar _ _) (by omega))
    have hlist : ∀ rest, (Tok.lpar :: t ++ [Tok.rpar]) ++ rest = Tok.lpar :: (t ++ (.rpar :: rest)) := by
      intro rest; simp
    refine ⟨?_, ?_⟩
    · intro m rest r f0 _ _ hL
      rw [hlist]
      refine parseExprW_of (fa := 2 * t.length + 2) ?_ hL ?_ ?_
      · exact parseAtomW_paren_of (hin rest) (by omega)
      · simp only [List.length_append, List.length_cons, List.length_nil]; omega
      · simp only [List.length_append, List.length_cons, List.length_nil]; omega
    · intro _ rest
      rw [hlist]
      refine parseAtomW_paren_of (hin rest) ?_
      simp only [List.length_append, List.length_cons, List.length_nil]; omega

theorem RepT.parseExpr_append {T : Table} (hT : T.WF) {l : Nat} {a : Ast} {t : List Tok}
    (h : RepT T l a t) (rest : List Tok) (hrest : okRestW T.info l rest) (F : Nat)
    (hF : 2 * t.length + 1 ≤ F) : parseExprW T.info F l (t ++ rest) = some (a, rest) := by
  have := (h.parse_cont hT).1 l rest (a, rest) 1 (Nat.le_refl _) (condT_of_okRest hrest)
    (parseLoopW_stop hrest (by omega))
  exact parseExprW_mono this (by omega)

/-- every way of writing `a` that table `T` admits is read back as `a` by the parser at `T` -/
theorem RepT.parse_eq {T : Table} (hT : T.WF) {a : Ast} {t : List Tok} (h : RepT T 0 a t) :
    parseWith T.info t = some a := by
  have := h.parseExpr_append hT [] (okRestW_nil 0) (4 * t.length + 4) (by omega)
  rw [List.append_nil] at this
  unfold parseWith
  rw [this]


/-! ### 5. converse: the parser at `T` accepts nothing but `RepT T` -/

def LoopInvT (T : Table) (m : Nat) (lhs : Ast) (t1 t : List Tok) : Prop :=
  RepT T m lhs t1 ∧
  ∀ tk tl lv ra op, t = tk :: tl → T.info tk = some (lv, ra, op) → m ≤ lv → RepT T (T.lnx op) lhs t1

theorem parseW_sound_step {T : Table} (hT : T.WF) (f : Nat) :
    (∀ t a r, parseAtomW T.info f t = some (a, r) → ∃ t0, t = t0 ++ r ∧ ∀ l, RepT T l a t0) ∧
    (∀ m t a r, parseExprW T.info f m t = some (a, r) →
        ∃ t0, t = t0 ++ r ∧ RepT T m a t0 ∧ okRestW T.info m r) ∧
    (∀ m lhs t a r, parseLoopW T.info f m lhs t = some (a, r) → ∀ t1, LoopInvT T m lhs t1 t →
        ∃ t0, t1 ++ t = t0 ++ r ∧ RepT T m a t0 ∧ okRestW T.info m r) := by
  induction f with
  | zero =>
    refine ⟨?_, ?_, ?_⟩
    · intro t a r h; rw [parseAtomW_zero] at h; cases h
    · intro m t a r h; rw [parseExprW_zero] at h; cases h
    · intro m lhs t a r h; rw [parseLoopW_zero] at h; cases h
  | succ f ih =>
    obtain ⟨ihA, ihE, ihL⟩ := ih
    refine ⟨?_, ?_, ?_⟩
    · intro t a r h
      cases t with
      | nil => rw [parseAtomW_nil] at h; cases h
      | cons tk tl =>
        cases tk with
        | num n =>
          rw [parseAtomW_num] at h
          injection h with h; injection h with h1 h2; subst h1; subst h2
          exact ⟨[.num n], rfl, fun l => .num l n⟩
        | ident s =>
          rw [parseAtomW_ident] at h
          injection h with h; injection h with h1 h2; subst h1; subst h2
          exact ⟨[.ident s], rfl, fun l => .name l s⟩
        | minus =>
          rw [parseAtomW_minus] at h
          cases h1 : parseAtomW T.info f tl with
          | none => rw [h1] at h; cases h
          | some p =>
            obtain ⟨e, r'⟩ := p
            rw [h1] at h
            injection h with h; injection h with h2 h3; subst h2; subst h3
            obtain ⟨t0, ht, hrep⟩ := ihA _ _ _ h1
            exact ⟨.minus :: t0, by rw [ht]; rfl, fun l => .neg l e t0 (hrep 4)⟩
        | lpar =>
          rw [parseAtomW_lpar] at h
          cases h1 : parseExprW T.info f 0 tl with
          | none => rw [h1] at h; cases h
          | some p =>
            obtain ⟨e, r'⟩ := p
            rw [h1] at h
            cases r' with
            | nil => cases h
            | cons tk2 r2 =>
              cases tk2 <;> try (cases h; done)
              injection h with h; injection h with h2 h3; subst h2; subst h3
              obtain ⟨t0, ht, hrep, _⟩ := ihE _ _ _ _ h1
              exact ⟨.lpar :: t0 ++ [.rpar], by rw [ht]; simp, fun l => .paren l _ t0 hrep⟩
        | _ => simp [parseAtomW] at h
    · intro m t a r h
      rw [parseExprW_succ] at h
      cases h1 : parseAtomW T.info f t with
      | none => rw [h1] at h; cases h
      | some p =>
        obtain ⟨lhs, r1⟩ := p
        rw [h1] at h
        obtain ⟨t0, ht, hrep⟩ := ihA _ _ _ h1
        obtain ⟨t0', ht', hrep', hok⟩ := ihL _ _ _ _ _ h t0 ⟨hrep m, fun _ _ _ _ op _ _ _ => hrep (T.lnx op)⟩
        exact ⟨t0', by rw [ht, ht'], hrep', hok⟩
    · intro m lhs t a r h t1 hinv
      cases t with
      | nil =>
        rw [parseLoopW_nil] at h
        injection h with h; injection h with h1 h2; subst h1; subst h2
        exact ⟨t1, rfl, hinv.1, okRestW_nil m⟩
      | cons tk tl =>
        rw [parseLoopW_cons] at h
        cases hb : T.info tk with
        | none =>
          rw [hb] at h
          injection h with h; injection h with h1 h2; subst h1; subst h2
          refine ⟨t1, rfl, hinv.1, ?_⟩
          intro t' r' lv ra op he hb'
          cases he
          rw [hb] at hb'; cases hb'
        | some q =>
          obtain ⟨lv, ra, op⟩ := q
          rw [hb] at h
          simp only at h
          by_cases hl : lv < m
          · simp only [hl, if_true] at h
            injection h with h; injection h with h1 h2; subst h1; subst h2
            refine ⟨t1, rfl, hinv.1, ?_⟩
            intro t' r' lv' ra' op' he hb'
            cases he
            rw [hb] at hb'; cases hb'
            exact hl
          · simp only [hl, if_false] at h
            obtain ⟨htk, hlv, hra⟩ := T.info_inv hb
            cases h1 : parseExprW T.info f (if ra = true then lv else lv + 1) tl with
            | none => rw [h1] at h; cases h
            | some p =>
              obtain ⟨rhs, r'⟩ := p
              rw [h1] at h
              have hnx : (if ra = true then lv else lv + 1) = T.nxt op := by
                rw [hlv, hra]; rfl
              rw [hnx] at h1
              obtain ⟨ty, hty, hrepy, hoky⟩ := ihE _ _ _ _ h1
              have hx : RepT T (T.lnx op) lhs t1 := hinv.2 tk tl lv ra op rfl hb (by omega)
              have hinv' : LoopInvT T m (.bin op lhs rhs) (t1 ++ opTok op :: ty) r' := by
                refine ⟨.bin m op lhs rhs t1 ty (by omega) hx hrepy, ?_⟩
                intro tk2 tl2 lv2 ra2 op2 he2 hb2 _
                have h2 := hoky tk2 tl2 lv2 ra2 op2 he2 hb2
                obtain ⟨_, hlv2, _⟩ := T.info_inv hb2
                refine .bin _ op lhs rhs t1 ty ?_ hx hrepy
                subst hlv2
                -- `lv op2 < nxt op → lnx op2 ≤ lv op`
                by_cases hr : T.ra op = true
                · have : T.nxt op = T.lv op := by simp [Table.nxt, hr]
                  have : T.lnx op2 ≤ T.lv op2 + 1 := by unfold Table.lnx; split <;> omega
                  omega
                · have hn : T.nxt op = T.lv op + 1 := by simp [Table.nxt, hr]
                  by_cases he : T.lv op2 = T.lv op
                  · have := hT.coh op2 op he
                    have : T.lnx op2 = T.lv op2 := by
                      unfold Table.lnx; rw [this]; simp [hr]
                    omega
                  · have : T.lnx op2 ≤ T.lv op2 + 1 := by unfold Table.lnx; split <;> omega
                    omega
              obtain ⟨t0, ht0, hrep0, hok0⟩ := ihL _ _ _ _ _ h _ hinv'
              refine ⟨t0, ?_, hrep0, hok0⟩
              rw [← ht0, hty, htk]; simp

/-- the parser at table `T` accepts exactly `RepT T 0` -/
theorem parseWith_iff_repT {T : Table} (hT : T.WF) (t : List Tok) (a : Ast) :
    parseWith T.info t = some a ↔ RepT T 0 a t := by
  constructor
  · intro h
    unfold parseWith at h
    cases h1 : parseExprW T.info (4 * t.length + 4) 0 t with
    | none => rw [h1] at h; cases h
    | some p =>
      obtain ⟨e, r⟩ := p
      rw [h1] at h
      cases r with
      | cons _ _ => cases h
      | nil =>
        injection h with h; subst h
        obtain ⟨t0, ht, hrep, _⟩ := (parseW_sound_step hT _).2.1 _ _ _ _ h1
        rw [List.append_nil] at ht
        rw [ht]; exact hrep
  · exact RepT.parse_eq hT

/-! ### 6. fully parenthesised text: the same tree at every table -/

theorem repT_toksFull (T : Table) (a : Ast) :
    RepT T 0 a (toksFull a) ∧ ∀ l, RepT T l a (wrap a (toksFull a)) := by
  induction a with
  | num n => exact ⟨.num 0 n, fun l => .num l n⟩
  | name s => exact ⟨.name 0 s, fun l => .name l s⟩
  | neg e ih =>
    have h0 : RepT T 0 (.neg e) (toksFull (.neg e)) := .neg 0 e _ (ih.2 4)
    exact ⟨h0, fun l => .paren l _ _ h0⟩
  | bin op x y ihx ihy =>
    have h0 : RepT T 0 (.bin op x y) (toksFull (.bin op x y)) :=
      .bin 0 op x y _ _ (Nat.zero_le _) (ihx.2 _) (ihy.2 _)
    exact ⟨h0, fun l => .paren l _ _ h0⟩

/-- `toksFull` (parentheses around every compound operand) is read as the same tree whatever the
    precedence table -/
theorem parseWith_toksFull {T : Table} (hT : T.WF) (a : Ast) :
    parseWith T.info (toksFull a) = some a := (repT_toksFull T a).1.parse_eq hT

theorem full_parens_same_tree (a : Ast) :
    parseWith hostInfo (toksFull a) = some a ∧ parse (toksFull a) = some a := by
  refine ⟨?_, parse_toksFull a trivial⟩
  rw [← hostT_info]; exact parseWith_toksFull hostT_wf a

/-- the host parser's language -/
theorem parseHost_iff (t : List Tok) (a : Ast) : parseWith hostInfo t = some a ↔ RepT hostT 0 a t := by
  rw [← hostT_info]; exact parseWith_iff_repT hostT_wf t a

theorem parse_iff_repT (t : List Tok) (a : Ast) : parse t = some a ↔ RepT calcT 0 a t := by
  rw [parse_iff_rep]; exact ⟨RepT_of_Rep, Rep_of_RepT⟩


/-! ### 7. minimal-parentheses text: the condition under which the hosts read the same tree -/

def isArith : BinOp → Bool
  | .add => true | .sub => true | .mul => true | .div => true
  | _ => false

/-- child `c` (left or right operand of `op`) is printed WITHOUT parentheses by calc's minimal
    printer `toks` although the host grammar needs them:
    * a shift directly under `+ - * /` (calc: shifts bind tightest; Python / C++: loosest but `|`),
    * a `|` as the right operand of a `|` (calc's `|` is right-associative, the hosts' is left). -/
def childBad (op : BinOp) (right : Bool) (c : Ast) : Bool :=
  match c with
  | .bin op' _ _ => (isArith op && isShift op') || (right && op == .bor && op' == .bor)
  | _ => false

/-- no node of the tree has a `childBad` operand -/
def precSafe : Ast → Bool
  | .num _ => true
  | .name _ => true
  | .neg e => precSafe e
  | .bin op x y => !childBad op false x && !childBad op true y && precSafe x && precSafe y

/-- the root of `a`, printed at calc context level `l`, is acceptable in host context level `h`:
    it is parenthesised by the printer, or the host level is high enough -/
def okTop (l h : Nat) : Ast → Prop
  | .bin op _ _ => lvl op < l ∨ h ≤ hostLvl op
  | _ => True

theorem okTop_left {op : BinOp} {x : Ast} (h : childBad op false x = false) :
    okTop (lnx op) (hostLvl op) x := by
  cases x with
  | bin op' _ _ =>
    simp only [okTop]
    revert h
    cases op <;> cases op' <;> simp [childBad, isArith, isShift, lnx, lvl, rassoc, hostLvl]
  | _ => trivial

theorem okTop_right {op : BinOp} {y : Ast} (h : childBad op true y = false) :
    okTop (nxt op) (hostLvl op + 1) y := by
  cases y with
  | bin op' _ _ =>
    simp only [okTop]
    revert h
    cases op <;> cases op' <;> simp [childBad, isArith, isShift, nxt, lvl, rassoc, hostLvl]
  | _ => trivial

theorem hostT_lnx (op : BinOp) : hostT.lnx op = hostLvl op := rfl
theorem hostT_nxt (op : BinOp) : hostT.nxt op = hostLvl op + 1 := rfl
theorem hostT_lv (op : BinOp) : hostT.lv op = hostLvl op := rfl

theorem repHost_toksP (a : Ast) :
    ∀ l h, precSafe a = true → okTop l h a → RepT hostT h a (toksP l a) := by
  induction a with
  | num n => intro l h _ _; exact .num h n
  | name s => intro l h _ _; exact .name h s
  | neg e ih =>
    intro l h hs _
    refine .neg h e _ (ih 4 4 hs ?_)
    cases e with
    | bin op _ _ => exact Or.inl (by have := lvl_le_three op; omega)
    | _ => trivial
  | bin op x y ihx ihy =>
    intro l h hs ht
    simp only [precSafe, Bool.and_eq_true, Bool.not_eq_true'] at hs
    obtain ⟨⟨⟨hbx, hby⟩, hsx⟩, hsy⟩ := hs
    have hx : RepT hostT (hostT.lnx op) x (toksP (lnx op) x) := ihx _ _ hsx (okTop_left hbx)
    have hy : RepT hostT (hostT.nxt op) y (toksP (nxt op) y) := ihy _ _ hsy (okTop_right hby)
    unfold toksP
    split
    · exact .paren h _ _ (.bin 0 op x y _ _ (Nat.zero_le _) hx hy)
    · rename_i hn
      refine .bin h op x y _ _ ?_ hx hy
      cases ht with
      | inl h1 => exact absurd h1 hn
      | inr h2 => exact h2

/-- a `precSafe` tree, written by calc's minimal-parentheses printer, is read back as itself by the
    Python / C++ grammar -/
theorem host_reads_same_tree (a : Ast) (h : precSafe a = true) : parseWith hostInfo (toks a) = some a := by
  rw [parseHost_iff]
  refine repHost_toksP a 0 0 h ?_
  cases a with
  | bin op _ _ => exact Or.inr (Nat.zero_le _)
  | _ => trivial

/-! ### 8. values in the hosts -/

/-- Python 3 on the pasted text (`/` written `//`): unbounded integers, floor division, no range
    diagnostics; division by zero and a negative shift count raise -/
def evalPy (env : String → Option Int) : Ast → Except EvalErr Int
  | .num n => .ok n
  | .name s => match env s with
    | some v => .ok v
    | none => .error (.unknown s)
  | .neg e => do
    let v ← evalPy env e
    pure (-v)
  | .bin op a b => do
    let x ← evalPy env a
    let y ← evalPy env b
    rawBinop op x y

theorem rawBinop_of_binop {op : BinOp} {a b v : Int} (h : binop op a b = .ok v) :
    rawBinop op a b = .ok v ∧ inRange64 v = true ∧ (isShift op = true → b ≤ 64) := by
  unfold binop at h
  split at h
  · cases h
  · rename_i hs
    cases hr : rawBinop op a b with
    | error e => simp [hr] at h
    | ok w =>
      simp only [hr] at h
      split at h
      · rename_i hin
        injection h with h
        subst h
        refine ⟨rfl, hin, ?_⟩
        intro h1
        simp only [h1, Bool.true_and, decide_eq_true_eq] at hs
        omega
      · cases h

/-- whatever calc accepts, Python computes the same integer from the same tree -/
theorem evalPy_of_eval (env : String → Option Int) (a : Ast) :
    ∀ v, eval env a = .ok v → evalPy env a = .ok v := by
  induction a with
  | num n => intro v h; exact h
  | name s => intro v h; exact h
  | neg e ih =>
    intro v h
    simp only [eval, evalPy, bind, Except.bind, pure, Except.pure] at h ⊢
    cases he : eval env e with
    | error x => rw [he] at h; cases h
    | ok w => rw [he] at h; rw [ih w he]; exact h
  | bin op x y ihx ihy =>
    intro v h
    simp only [eval, evalPy, bind, Except.bind] at h ⊢
    cases hx : eval env x with
    | error e => rw [hx] at h; cases h
    | ok vx =>
      rw [hx] at h
      cases hy : eval env y with
      | error e => rw [hy] at h; cases h
      | ok vy =>
        rw [hy] at h
        simp only at h
        rw [ihx vx hx, ihy vy hy]
        exact (rawBinop_of_binop h).1

/-- the range of C++ `int` -/
def int32 (v : Int) : Bool := -2147483648 ≤ v && v < 2147483648

def chk32 (v : Int) : Except EvalErr Int := if int32 v then .ok v else .error .outOfRange

/-- C++ on `int` operands.  `.outOfRange` stands for "not computed in `int`": the result (or a
    literal) does not fit `int` - signed overflow is undefined, a wider literal changes the type of
    the whole expression -, a shift count above 31 or a left shift of a negative value (undefined
    before C++20).  `/` truncates toward zero.  `>>` of a negative value is the arithmetic shift
    (what C++20 prescribes and every supported compiler does). -/
def cppBinop (op : BinOp) (a b : Int) : Except EvalErr Int :=
  match op with
  | .add => chk32 (a + b)
  | .sub => chk32 (a - b)
  | .mul => chk32 (a * b)
  | .div => if b = 0 then .error .divZero else chk32 (a.tdiv b)
  | .shl =>
    if b < 0 then .error .negShift
    else if 31 < b || a < 0 then .error .outOfRange
    else chk32 (a * (2 ^ b.toNat : Nat))
  | .shr =>
    if b < 0 then .error .negShift
    else if 31 < b then .error .outOfRange
    else chk32 (a.fdiv (2 ^ b.toNat : Nat))
  | .bor => chk32 (lor a b)

def evalCpp (env : String → Option Int) : Ast → Except EvalErr Int
  | .num n => chk32 n
  | .name s => match env s with
    | some v => chk32 v
    | none => .error (.unknown s)
  | .neg e => do
    let v ← evalCpp env e
    chk32 (-v)
  | .bin op a b => do
    let x ← evalCpp env a
    let y ← evalCpp env b
    cppBinop op x y

/-- floor division and truncating division give the same quotient: the division is exact, or the
    operands have the same sign -/
def divAgree (a b : Int) : Bool := a % b == 0 || (0 ≤ a && 0 < b) || (a < 0 && b < 0)

/-- `divAgree` is the exact condition -/
theorem divAgree_iff (a b : Int) (hb : b ≠ 0) : divAgree a b = true ↔ a.fdiv b = a.tdiv b := by
  rw [Int.fdiv_eq_tdiv]
  simp only [divAgree, Bool.or_eq_true, Bool.and_eq_true, beq_iff_eq, decide_eq_true_eq]
  by_cases hd : b ∣ a
  · have : a % b = 0 := Int.dvd_iff_emod_eq_zero.mp hd
    simp [hd, this]
  · have hm : ¬ a % b = 0 := fun h => hd (Int.dvd_iff_emod_eq_zero.mpr h)
    simp only [hd, if_false, hm, false_or]
    have hsign : (0 < b → b.sign = 1) ∧ (b < 0 → b.sign = -1) :=
      ⟨Int.sign_eq_one_of_pos, Int.sign_eq_neg_one_of_neg⟩
    generalize a.tdiv b = q
    by_cases h1 : 0 ≤ a <;> by_cases h2 : 0 ≤ b <;> simp only [h1, h2, if_true, if_false]
    · have : 0 < b := by omega
      simp [this]
    · have h3 : ¬ (0 < b) := by omega
      have h4 : ¬ (a < 0) := by omega
      simp only [h3, h4, and_false, false_and, or_self, false_iff]
      omega
    · have := hsign.1 (by omega)
      have h3 : ¬ (b < 0) := by omega
      simp only [h3, and_false, false_and, or_self, false_iff]
      omega
    · have := hsign.2 (by omega)
      have h3 : b < 0 := by omega
      have h4 : a < 0 := by omega
      simp only [h3, h4, and_self, or_true, true_iff]
      omega

/-- what the operands of one node must satisfy for `int` arithmetic to agree with calc's -/
def opSafe (op : BinOp) (x y : Int) : Bool :=
  match op with
  | .div => divAgree x y
  | .shl => decide (0 ≤ x) && decide (y ≤ 31)
  | .shr => decide (y ≤ 31)
  | _ => true

/-- calc's value of the (sub)tree exists and fits `int` -/
def val32 (env : String → Option Int) (a : Ast) : Bool :=
  match eval env a with
  | .ok v => int32 v
  | .error _ => false

/-- every subtree's value fits `int` (so does every literal and every named constant), every
    division is exact or has operands of the same sign, shift counts are at most 31 and the left
    operand of `<<` is not negative -/
def int32Safe (env : String → Option Int) : Ast → Bool
  | .num n => val32 env (.num n)
  | .name s => val32 env (.name s)
  | .neg e => int32Safe env e && val32 env (.neg e)
  | .bin op a b =>
    int32Safe env a && int32Safe env b && val32 env (.bin op a b) &&
      (match eval env a, eval env b with
       | .ok x, .ok y => opSafe op x y
       | _, _ => false)

theorem cppBinop_of_binop {op : BinOp} {x y v : Int} (h : binop op x y = .ok v)
    (h32 : int32 v = true) (hs : opSafe op x y = true) : cppBinop op x y = .ok v := by
  have hr := (rawBinop_of_binop h).1
  cases op <;> simp only [rawBinop, cppBinop, opSafe, Bool.and_eq_true, decide_eq_true_eq] at hr hs ⊢
  · injection hr with hr; subst hr; simp [chk32, h32]
  · injection hr with hr; subst hr; simp [chk32, h32]
  · injection hr with hr; subst hr; simp [chk32, h32]
  · split at hr
    · cases hr
    · rename_i hb
      injection hr with hr
      rw [if_neg hb, ← (divAgree_iff x y hb).mp hs, hr]
      simp [chk32, h32]
  · split at hr
    · cases hr
    · rename_i hb
      injection hr with hr
      have h1 : ¬ (31 < y) := by omega
      have h2 : ¬ (x < 0) := by omega
      simp only [if_neg hb, h1, h2, decide_false, Bool.or_self, Bool.false_eq_true, if_false]
      rw [hr]; simp [chk32, h32]
  · split at hr
    · cases hr
    · rename_i hb
      injection hr with hr
      have h1 : ¬ (31 < y) := by omega
      simp only [if_neg hb, h1, if_false]
      rw [hr]; simp [chk32, h32]
  · injection hr with hr; subst hr; simp [chk32, h32]

/-- the safe subset: where `int32Safe` holds, C++ `int` arithmetic on the same tree gives calc's value -/
theorem evalCpp_of_eval (env : String → Option Int) (a : Ast) :
    ∀ v, eval env a = .ok v → int32Safe env a = true → evalCpp env a = .ok v := by
  induction a with
  | num n =>
    intro v h hs
    simp only [int32Safe, val32, h] at hs
    simp only [eval] at h
    have h := Except.ok.inj h
    subst h
    simp only [evalCpp, chk32, hs, if_true]
  | name s =>
    intro v h hs
    simp only [int32Safe, val32, h] at hs
    simp only [eval] at h
    simp only [evalCpp]
    cases he : env s with
    | none => rw [he] at h; cases h
    | some w =>
      rw [he] at h
      injection h with h
      simp only [chk32, h, hs, if_true]
  | neg e ih =>
    intro v h hs
    simp only [int32Safe, val32, h, Bool.and_eq_true] at hs
    simp only [eval, evalCpp, bind, Except.bind, pure, Except.pure] at h ⊢
    cases he : eval env e with
    | error x => rw [he] at h; cases h
    | ok w =>
      rw [he] at h
      injection h with h
      rw [ih w he hs.1]
      simp only [chk32, h, hs.2, if_true]
  | bin op x y ihx ihy =>
    intro v h hs
    simp only [int32Safe, val32, h, Bool.and_eq_true] at hs
    obtain ⟨⟨⟨hsx, hsy⟩, h32⟩, hop⟩ := hs
    simp only [eval, evalCpp, bind, Except.bind] at h ⊢
    cases hx : eval env x with
    | error e => rw [hx] at h; cases h
    | ok vx =>
      rw [hx] at h
      cases hy : eval env y with
      | error e => rw [hy] at h; cases h
      | ok vy =>
        rw [hy] at h
        simp only at h
        rw [hx, hy] at hop
        rw [ihx vx hx hsx, ihy vy hy hsy]
        exact cppBinop_of_binop h h32 hop


/-! ### 9. text level: concrete syntax trees (the tree WITH the parentheses that were written) -/

/-- an expression as written: `Ast` plus explicit parentheses -/
inductive Cst
  | num (n : Nat)
  | name (s : String)
  | neg (e : Cst)
  | bin (op : BinOp) (x y : Cst)
  | paren (e : Cst)
  deriving DecidableEq, Repr

/-- the text (token list) of a concrete syntax tree: nothing added, nothing removed -/
def Cst.toks : Cst → List Tok
  | .num n => [.num n]
  | .name s => [.ident s]
  | .neg e => .minus :: e.toks
  | .bin op x y => x.toks ++ opTok op :: y.toks
  | .paren e => .lpar :: e.toks ++ [.rpar]

/-- forget the parentheses -/
def Cst.ast : Cst → Ast
  | .num n => .num n
  | .name s => .name s
  | .neg e => .neg e.ast
  | .bin op x y => .bin op x.ast y.ast
  | .paren e => e.ast

/-- the grouping shown by the concrete tree is the one table `T` gives to its text: every
    unparenthesised operand has a level the table admits at that place
    (`l`: lowest level admitted at the root; `0` for a whole expression) -/
def Cst.okT (T : Table) : Nat → Cst → Bool
  | _, .num _ => true
  | _, .name _ => true
  | _, .neg e => Cst.okT T 4 e
  | l, .bin op x y => decide (l ≤ T.lv op) && Cst.okT T (T.lnx op) x && Cst.okT T (T.nxt op) y
  | _, .paren e => Cst.okT T 0 e

theorem Cst.repT_of_ok (T : Table) (c : Cst) : ∀ l, c.okT T l = true → RepT T l c.ast c.toks := by
  induction c with
  | num n => intro l _; exact .num l n
  | name s => intro l _; exact .name l s
  | neg e ih => intro l h; exact .neg l _ _ (ih 4 h)
  | bin op x y ihx ihy =>
    intro l h
    simp only [Cst.okT, Bool.and_eq_true, decide_eq_true_eq] at h
    exact .bin l op _ _ _ _ h.1.1 (ihx _ h.1.2) (ihy _ h.2)
  | paren e ih => intro l h; exact .paren l _ _ (ih 0 h)

theorem cst_of_repT {T : Table} {l : Nat} {a : Ast} {t : List Tok} (h : RepT T l a t) :
    ∃ c : Cst, c.toks = t ∧ c.ast = a ∧ c.okT T l = true := by
  induction h with
  | num l n => exact ⟨.num n, rfl, rfl, rfl⟩
  | name l s => exact ⟨.name s, rfl, rfl, rfl⟩
  | neg l e t _ ih =>
    obtain ⟨c, h1, h2, h3⟩ := ih
    exact ⟨.neg c, by simp [Cst.toks, h1], by simp [Cst.ast, h2], h3⟩
  | bin l op x y tx ty hl _ _ ihx ihy =>
    obtain ⟨cx, hx1, hx2, hx3⟩ := ihx
    obtain ⟨cy, hy1, hy2, hy3⟩ := ihy
    refine ⟨.bin op cx cy, by simp [Cst.toks, hx1, hy1], by simp [Cst.ast, hx2, hy2], ?_⟩
    simp [Cst.okT, hl, hx3, hy3]
  | paren l a t _ ih =>
    obtain ⟨c, h1, h2, h3⟩ := ih
    exact ⟨.paren c, by simp [Cst.toks, h1], by simp [Cst.ast, h2], h3⟩

/-! parenthesis depth and token count -/

/-- depth after reading `t` starting at depth `d`; `none` when a `)` has no partner -/
def scan : List Tok → Nat → Option Nat
  | [], d => some d
  | tk :: r, d =>
    match tk with
    | .lpar => scan r (d + 1)
    | .rpar => if d = 0 then none else scan r (d - 1)
    | _ => scan r d

theorem scan_append (a b : List Tok) : ∀ d, scan (a ++ b) d = (scan a d).bind (scan b) := by
  induction a with
  | nil => intro d; rfl
  | cons tk r ih =>
    intro d
    cases tk <;> simp only [List.cons_append, scan, ih]
    split
    · rfl
    · rfl

theorem scan_shift (t : List Tok) : ∀ d e, scan t d = some e → scan t (d + 1) = some (e + 1) := by
  induction t with
  | nil => intro d e h; simp only [scan] at h ⊢; injection h with h; rw [h]
  | cons tk r ih =>
    intro d e h
    cases tk <;> simp only [scan] at h ⊢ <;> try (exact ih _ _ h)
    split at h
    · cases h
    · rename_i hd
      obtain ⟨d', rfl⟩ : ∃ k, d = k + 1 := ⟨d - 1, by omega⟩
      simp only [Nat.add_sub_cancel] at h ⊢
      simp only [Nat.succ_ne_zero, if_false]
      exact ih _ _ h

theorem scan_opTok (op : BinOp) (r : List Tok) (d : Nat) : scan (opTok op :: r) d = scan r d := by
  cases op <;> rfl

theorem Cst.scan_toks (c : Cst) : ∀ d, scan c.toks d = some d := by
  induction c with
  | num n => intro d; rfl
  | name s => intro d; rfl
  | neg e ih => intro d; simp only [Cst.toks, scan]; exact ih d
  | bin op x y ihx ihy =>
    intro d
    simp only [Cst.toks, scan_append, ihx, Option.bind_some, scan_opTok, ihy]
  | paren e ih =>
    intro d
    simp only [Cst.toks, List.cons_append, scan, scan_append, ih, Option.bind_some]
    simp

/-- tokens other than parentheses -/
def tokW : Tok → Nat
  | .lpar => 0
  | .rpar => 0
  | _ => 1

def cnt : List Tok → Nat
  | [] => 0
  | tk :: r => tokW tk + cnt r

theorem cnt_append (a b : List Tok) : cnt (a ++ b) = cnt a + cnt b := by
  induction a with
  | nil => simp [cnt]
  | cons tk r ih => simp only [List.cons_append, cnt, ih]; omega

theorem tokW_opTok (op : BinOp) : tokW (opTok op) = 1 := by cases op <;> rfl

def Ast.size : Ast → Nat
  | .num _ => 1
  | .name _ => 1
  | .neg e => e.size + 1
  | .bin _ x y => x.size + y.size + 1

theorem Cst.cnt_toks (c : Cst) : cnt c.toks = c.ast.size := by
  induction c with
  | num n => rfl
  | name s => rfl
  | neg e ih => simp only [Cst.toks, Cst.ast, cnt, Ast.size, ih, tokW]; omega
  | bin op x y ihx ihy =>
    simp only [Cst.toks, Cst.ast, cnt_append, cnt, Ast.size, ihx, ihy, tokW_opTok]; omega
  | paren e ih =>
    simp only [Cst.toks, Cst.ast, List.cons_append, cnt, cnt_append, tokW, ih]; omega

theorem Ast.size_pos (a : Ast) : 0 < a.size := by cases a <;> simp [Ast.size]

theorem Cst.toks_ne_nil (c : Cst) : c.toks ≠ [] := by
  intro h
  have := c.cnt_toks
  rw [h] at this
  have := c.ast.size_pos
  simp [cnt] at *
  omega

/-- where the operator of a binary node sits is determined by the operand's token count -/
theorem split_unique {X X' Y Y' : List Tok} {o : Tok} (ho : tokW o = 1) (hc : cnt X = cnt X')
    (h : X ++ o :: Y = X' ++ o :: Y') : X = X' ∧ Y = Y' := by
  rcases List.append_eq_append_iff.mp h with ⟨c, h1, h2⟩ | ⟨c, h1, h2⟩
  · cases c with
    | nil =>
      simp only [List.append_nil, List.nil_append] at h1 h2
      injection h2 with _ h2
      exact ⟨h1.symm, h2⟩
    | cons k c' =>
      exfalso
      simp only [List.cons_append] at h2
      injection h2 with h3 _
      subst h3
      rw [h1, cnt_append] at hc
      simp only [cnt] at hc
      omega
  · cases c with
    | nil =>
      simp only [List.append_nil, List.nil_append] at h1 h2
      injection h2 with _ h2
      exact ⟨h1, h2.symm⟩
    | cons k c' =>
      exfalso
      simp only [List.cons_append] at h2
      injection h2 with h3 _
      subst h3
      rw [h1, cnt_append] at hc
      simp only [cnt] at hc
      omega

/-- a balanced operand cannot begin with the `(` whose partner is the last token of the text -/
theorem paren_clash {X Y t' : List Tok} {o : Tok} (ho : o ≠ .rpar)
    (hX : ∀ d, scan X d = some d) (hne : X ≠ []) (ht : ∀ d, scan t' d = some d)
    (h : X ++ o :: Y = .lpar :: t' ++ [.rpar]) : False := by
  cases X with
  | nil => exact hne rfl
  | cons k X' =>
    simp only [List.cons_append] at h
    injection h with hk h
    subst hk
    have h1 : scan X' 1 = some 0 := by
      have := hX 0
      simpa [scan] using this
    rcases List.append_eq_append_iff.mp h with ⟨c, h2, h3⟩ | ⟨c, h2, h3⟩
    · have := ht 0
      rw [h2, scan_append] at this
      cases hs : scan X' 0 with
      | none => rw [hs] at this; cases this
      | some k =>
        have := scan_shift _ _ _ hs
        rw [h1] at this
        injection this with this
        omega
    · cases c with
      | nil =>
        simp only [List.nil_append] at h3
        injection h3 with h4 _
        exact ho h4.symm
      | cons k c' =>
        simp only [List.cons_append] at h3
        injection h3 with _ h4
        cases c' <;> cases h4


theorem opTok_ne_rpar (op : BinOp) : opTok op ≠ .rpar := by cases op <;> simp [opTok]

theorem RepT.scan_eq {T : Table} {l : Nat} {a : Ast} {t : List Tok} (h : RepT T l a t) :
    ∀ d, scan t d = some d := by
  obtain ⟨c, h1, _, _⟩ := cst_of_repT h
  rw [← h1]; exact c.scan_toks

theorem RepT.cnt_eq {T : Table} {l : Nat} {a : Ast} {t : List Tok} (h : RepT T l a t) :
    cnt t = a.size := by
  obtain ⟨c, h1, h2, _⟩ := cst_of_repT h
  rw [← h1, ← h2]; exact c.cnt_toks

theorem RepT.ne_nil {T : Table} {l : Nat} {a : Ast} {t : List Tok} (h : RepT T l a t) : t ≠ [] := by
  obtain ⟨c, h1, _, _⟩ := cst_of_repT h
  rw [← h1]; exact c.toks_ne_nil

/-- inversion at a binary node whose operands are written `x.toks`, `y.toks` -/
theorem RepT.bin_inv {T : Table} {h : Nat} {op : BinOp} {x y : Cst}
    (hr : RepT T h (.bin op x.ast y.ast) (x.toks ++ opTok op :: y.toks)) :
    h ≤ T.lv op ∧ RepT T (T.lnx op) x.ast x.toks ∧ RepT T (T.nxt op) y.ast y.toks := by
  generalize ht : x.toks ++ opTok op :: y.toks = t at hr
  generalize ha : Ast.bin op x.ast y.ast = a at hr
  cases hr with
  | num l n => cases ha
  | name l s => cases ha
  | neg l e t _ => cases ha
  | bin l op' x' y' tx ty hl hx hy =>
    injection ha with h1 h2 h3
    subst h1; subst h2; subst h3
    have hc : cnt x.toks = cnt tx := by rw [x.cnt_toks, hx.cnt_eq]
    obtain ⟨e1, e2⟩ := split_unique (tokW_opTok op) hc ht
    rw [e1, e2]
    exact ⟨hl, hx, hy⟩
  | paren l a t' h0 =>
    exfalso
    exact paren_clash (opTok_ne_rpar op) x.scan_toks x.toks_ne_nil h0.scan_eq ht

/-- The concrete tree of a text is determined by the text and the abstract tree: if the text
    `c.toks` is a `T`-representation of `c.ast` at all, then it is one with exactly the
    parentheses of `c`. -/
theorem Cst.ok_of_repT (T : Table) (c : Cst) : ∀ h, RepT T h c.ast c.toks → c.okT T h = true := by
  induction c with
  | num n => intro h _; rfl
  | name s => intro h _; rfl
  | neg e ih =>
    intro h hr
    simp only [Cst.ast, Cst.toks] at hr
    generalize ht : Tok.minus :: e.toks = t at hr
    generalize ha : Ast.neg e.ast = a at hr
    cases hr with
    | num l n => cases ha
    | name l s => cases ha
    | neg l e' t' h' =>
      injection ha with ha; subst ha
      injection ht with _ ht; subst ht
      exact ih 4 h'
    | bin l op' x' y' tx ty hl hx hy => cases ha
    | paren l a t' h0 => cases ht
  | bin op x y ihx ihy =>
    intro h hr
    obtain ⟨h1, h2, h3⟩ := RepT.bin_inv hr
    simp only [Cst.okT, Bool.and_eq_true, decide_eq_true_eq]
    exact ⟨⟨h1, ihx _ h2⟩, ihy _ h3⟩
  | paren e ih =>
    intro h hr
    simp only [Cst.ast, Cst.toks] at hr
    generalize ht : Tok.lpar :: e.toks ++ [Tok.rpar] = t at hr
    generalize ha : e.ast = a at hr
    cases hr with
    | num l n => simp at ht
    | name l s => simp at ht
    | neg l e' t' h' => cases ht
    | bin l op' x' y' tx ty hl hx hy =>
      exfalso
      exact paren_clash (opTok_ne_rpar op') hx.scan_eq hx.ne_nil e.scan_toks ht.symm
    | paren l a t' h0 =>
      simp only [List.cons_append, List.cons.injEq, true_and] at ht
      have := List.append_cancel_right ht
      subst this; subst ha
      exact ih 0 h0

/-- a text with the parentheses of `c` is read by the parser at `T` as the tree `c.ast`
    exactly when `c`'s grouping is `T`'s -/
theorem Cst.parseWith_iff {T : Table} (hT : T.WF) (c : Cst) :
    parseWith T.info c.toks = some c.ast ↔ c.okT T 0 = true := by
  rw [parseWith_iff_repT hT]
  exact ⟨c.ok_of_repT T 0, c.repT_of_ok T 0⟩

/-- every text calc reads has a concrete tree, and that tree decides whether the hosts read the
    same abstract tree -/
theorem text_same_tree_iff (t : List Tok) (a : Ast) (h : parse t = some a) :
    ∃ c : Cst, c.toks = t ∧ c.ast = a ∧ c.okT calcT 0 = true ∧
      (parseWith hostInfo t = some a ↔ c.okT hostT 0 = true) := by
  obtain ⟨c, h1, h2, h3⟩ := cst_of_repT ((parse_iff_repT t a).mp h)
  refine ⟨c, h1, h2, h3, ?_⟩
  rw [← h1, ← h2, ← hostT_info]
  exact c.parseWith_iff hostT_wf


/-- if both grammars accept the text, they build the same tree exactly when the concrete tree of
    calc's reading is also grouped as the hosts group -/
theorem text_trees_equal_iff (t : List Tok) (a b : Ast) (ha : parse t = some a)
    (hb : parseWith hostInfo t = some b) :
    ∃ c : Cst, c.toks = t ∧ c.ast = a ∧ c.okT calcT 0 = true ∧ (a = b ↔ c.okT hostT 0 = true) := by
  obtain ⟨c, h1, h2, h3, h4⟩ := text_same_tree_iff t a ha
  refine ⟨c, h1, h2, h3, ?_⟩
  rw [← h4, hb]
  constructor
  · intro h; rw [h]
  · intro h; injection h with h; exact h.symm

/-! ### 10. `precSafe` is the exact condition for calc's minimal printing -/

/-- the concrete tree of `toksP l a` -/
def cstP : Nat → Ast → Cst
  | _, .num n => .num n
  | _, .name s => .name s
  | _, .neg e => .neg (cstP 4 e)
  | l, .bin op x y =>
    if lvl op < l then .paren (.bin op (cstP (lnx op) x) (cstP (nxt op) y))
    else .bin op (cstP (lnx op) x) (cstP (nxt op) y)

theorem cstP_toks (a : Ast) : ∀ l, (cstP l a).toks = toksP l a := by
  induction a with
  | num n => intro l; rfl
  | name s => intro l; rfl
  | neg e ih => intro l; simp only [cstP, Cst.toks, toksP, ih]
  | bin op x y ihx ihy =>
    intro l
    unfold cstP toksP
    split <;> simp only [Cst.toks, ihx, ihy]

theorem cstP_ast (a : Ast) : ∀ l, (cstP l a).ast = a := by
  induction a with
  | num n => intro l; rfl
  | name s => intro l; rfl
  | neg e ih => intro l; simp only [cstP, Cst.ast, ih]
  | bin op x y ihx ihy =>
    intro l
    unfold cstP
    split <;> simp only [Cst.ast, ihx, ihy]

theorem okTop_left_iff (op : BinOp) (x : Ast) :
    okTop (lnx op) (hostLvl op) x ↔ childBad op false x = false := by
  refine ⟨?_, okTop_left⟩
  cases x with
  | bin op' _ _ =>
    simp only [okTop]
    cases op <;> cases op' <;> simp [childBad, isArith, isShift, lnx, lvl, rassoc, hostLvl]
  | _ => intro _; rfl

theorem okTop_right_iff (op : BinOp) (y : Ast) :
    okTop (nxt op) (hostLvl op + 1) y ↔ childBad op true y = false := by
  refine ⟨?_, okTop_right⟩
  cases y with
  | bin op' _ _ =>
    simp only [okTop]
    cases op <;> cases op' <;> simp [childBad, isArith, isShift, nxt, lvl, rassoc, hostLvl]
  | _ => intro _; rfl

theorem cstP_ok_iff (a : Ast) :
    ∀ l h, (cstP l a).okT hostT h = true ↔ (precSafe a = true ∧ okTop l h a) := by
  induction a with
  | num n => intro l h; simp [cstP, Cst.okT, precSafe, okTop]
  | name s => intro l h; simp [cstP, Cst.okT, precSafe, okTop]
  | neg e ih =>
    intro l h
    simp only [cstP, Cst.okT, precSafe, okTop, and_true]
    rw [ih 4 4]
    refine ⟨fun h => h.1, fun hs => ⟨hs, ?_⟩⟩
    cases e with
    | bin op _ _ => exact Or.inl (by have := lvl_le_three op; omega)
    | _ => trivial
  | bin op x y ihx ihy =>
    intro l h
    have key : ∀ h', (Cst.bin op (cstP (lnx op) x) (cstP (nxt op) y)).okT hostT h' = true ↔
        (h' ≤ hostLvl op ∧ precSafe (.bin op x y) = true) := by
      intro h'
      simp only [Cst.okT, Bool.and_eq_true, hostT_lnx, hostT_nxt, hostT_lv, ihx,
        ihy, precSafe, Bool.not_eq_true', okTop_left_iff, okTop_right_iff]
      constructor
      · rintro ⟨⟨h1, h2, h3⟩, h4, h5⟩; exact ⟨of_decide_eq_true h1, ⟨⟨h3, h5⟩, h2⟩, h4⟩
      · rintro ⟨h1, ⟨⟨h3, h5⟩, h2⟩, h4⟩; exact ⟨⟨decide_eq_true h1, h2, h3⟩, h4, h5⟩
    unfold cstP
    split
    · rename_i hl
      simp only [Cst.okT]
      have := key 0
      simp only [Cst.okT] at this
      rw [this]
      simp only [okTop, hl, true_or, and_true, Nat.zero_le, true_and]
    · rename_i hl
      rw [key h]
      simp only [okTop, hl, false_or]
      exact And.comm

/-- EXACT: the hosts read calc's minimal printing of `a` as `a` if and only if `precSafe a` -/
theorem host_reads_same_tree_iff (a : Ast) : parseWith hostInfo (toks a) = some a ↔ precSafe a = true := by
  have h1 := (cstP 0 a).parseWith_iff hostT_wf
  rw [cstP_toks, cstP_ast, hostT_info] at h1
  unfold toks
  rw [h1, cstP_ok_iff]
  constructor
  · exact fun h => h.1
  · intro h
    refine ⟨h, ?_⟩
    cases a with
    | bin op _ _ => exact Or.inr (Nat.zero_le _)
    | _ => trivial


/-! ### 11. a readable sufficient condition on the written text -/

/-- operand `c` of `op` is written WITHOUT parentheses and is a binary operation that calc and the
    hosts rank differently relative to `op`: a shift next to `+ - * /` (either way round), or a `|`
    directly under a `|` (calc groups `|` to the right, the hosts to the left) -/
def Cst.mixBad (op : BinOp) : Cst → Bool
  | .bin op' _ _ =>
    (isArith op && isShift op') || (isShift op && isArith op') || (op == .bor && op' == .bor)
  | _ => false

/-- every shift written next to `+ - * /`, and every `|` written as an operand of `|`, is in
    parentheses -/
def Cst.mixFree : Cst → Bool
  | .num _ => true
  | .name _ => true
  | .neg e => e.mixFree
  | .paren e => e.mixFree
  | .bin op x y => !Cst.mixBad op x && !Cst.mixBad op y && x.mixFree && y.mixFree

theorem Cst.okHost_of_mixFree (c : Cst) :
    ∀ l h, c.okT calcT l = true → c.mixFree = true →
      (∀ op x y, c = .bin op x y → h ≤ hostLvl op) → c.okT hostT h = true := by
  induction c with
  | num n => intro l h _ _ _; rfl
  | name s => intro l h _ _ _; rfl
  | neg e ih =>
    intro l h hc hm _
    simp only [Cst.okT, Cst.mixFree] at hc hm ⊢
    refine ih 4 4 hc hm ?_
    intro op x y he
    subst he
    simp only [Cst.okT, Bool.and_eq_true, decide_eq_true_eq] at hc
    have h1 : 4 ≤ lvl op := hc.1.1
    have := lvl_le_three op
    omega
  | paren e ih =>
    intro l h hc hm _
    simp only [Cst.okT, Cst.mixFree] at hc hm ⊢
    exact ih 0 0 hc hm (fun _ _ _ _ => Nat.zero_le _)
  | bin op x y ihx ihy =>
    intro l h hc hm ht
    simp only [Cst.okT, Cst.mixFree, Bool.and_eq_true, decide_eq_true_eq, Bool.not_eq_true'] at hc hm ⊢
    obtain ⟨⟨_, hcx⟩, hcy⟩ := hc
    obtain ⟨⟨⟨hbx, hby⟩, hmx⟩, hmy⟩ := hm
    refine ⟨⟨ht op x y rfl, ihx _ _ hcx hmx ?_⟩, ihy _ _ hcy hmy ?_⟩
    · intro op' x' y' he
      subst he
      simp only [Cst.okT, Bool.and_eq_true, decide_eq_true_eq] at hcx
      have h1 : lnx op ≤ lvl op' := hcx.1.1
      show hostLvl op ≤ hostLvl op'
      revert h1 hbx
      cases op <;> cases op' <;> simp [Cst.mixBad, isArith, isShift, lnx, lvl, rassoc, hostLvl]
    · intro op' x' y' he
      subst he
      simp only [Cst.okT, Bool.and_eq_true, decide_eq_true_eq] at hcy
      have h1 : nxt op ≤ lvl op' := hcy.1.1
      show hostLvl op + 1 ≤ hostLvl op'
      revert h1 hby
      cases op <;> cases op' <;> simp [Cst.mixBad, isArith, isShift, nxt, lvl, rassoc, hostLvl]

/-- text in which every shift next to `+ - * /` and every nested `|` is parenthesised is read as
    the same tree by calc and by the hosts -/
theorem Cst.mixFree_same_tree (c : Cst) (hc : c.okT calcT 0 = true) (hm : c.mixFree = true) :
    parse c.toks = some c.ast ∧ parseWith hostInfo c.toks = some c.ast := by
  refine ⟨(parse_iff_repT _ _).mpr (c.repT_of_ok calcT 0 hc), ?_⟩
  rw [← hostT_info, c.parseWith_iff hostT_wf]
  exact c.okHost_of_mixFree 0 0 hc hm (fun _ _ _ _ => Nat.zero_le _)

/-- every text calc accepts is the text of exactly such a concrete tree -/
theorem parse_iff_cst (t : List Tok) (a : Ast) :
    parse t = some a ↔ ∃ c : Cst, c.toks = t ∧ c.ast = a ∧ c.okT calcT 0 = true := by
  rw [parse_iff_repT]
  constructor
  · exact cst_of_repT
  · rintro ⟨c, h1, h2, h3⟩
    rw [← h1, ← h2]; exact c.repT_of_ok calcT 0 h3


/-! ### 12. Python's `|` is associative -/

/-- bits of `x` not in `z`, for a submask `z` of `x` -/
theorem testBit_sub_submask : ∀ (i x z : Nat), z &&& x = z →
    (x - z).testBit i = (x.testBit i && !z.testBit i) := by
  intro i
  induction i with
  | zero =>
    intro x z h
    have hle : z ≤ x := by rw [← h]; exact Nat.and_le_right
    have hm : z % 2 = 1 → x % 2 = 1 := by
      intro hz
      have : (z &&& x) % 2 = 1 := by rw [h]; exact hz
      exact (Nat.and_mod_two_eq_one.mp this).2
    simp only [Nat.testBit_zero]
    by_cases h1 : x % 2 = 1 <;> by_cases h2 : z % 2 = 1 <;> simp [h1, h2] <;> omega
  | succ i ih =>
    intro x z h
    have hle : z ≤ x := by rw [← h]; exact Nat.and_le_right
    have hm : z % 2 = 1 → x % 2 = 1 := by
      intro hz
      have : (z &&& x) % 2 = 1 := by rw [h]; exact hz
      exact (Nat.and_mod_two_eq_one.mp this).2
    simp only [Nat.testBit_succ]
    have hd : (x - z) / 2 = x / 2 - z / 2 := by omega
    rw [hd]
    exact ih (x / 2) (z / 2) (by rw [← Nat.and_div_two, h])

/-- and-not on naturals as the model's `lor` writes it -/
def andn (x y : Nat) : Nat := x - (x &&& y)

theorem testBit_andn (x y i : Nat) : (andn x y).testBit i = (x.testBit i && !y.testBit i) := by
  unfold andn
  rw [testBit_sub_submask i x (x &&& y)]
  · simp only [Nat.testBit_and]
    cases x.testBit i <;> cases y.testBit i <;> rfl
  · apply Nat.eq_of_testBit_eq
    intro j
    simp only [Nat.testBit_and]
    cases x.testBit j <;> cases y.testBit j <;> rfl

theorem lor_ofNat_ofNat (m n : Nat) : lor (Int.ofNat m) (Int.ofNat n) = Int.ofNat (m ||| n) := by
  unfold lor
  simp
theorem lor_ofNat_negSucc (m n : Nat) : lor (Int.ofNat m) (Int.negSucc n) = Int.negSucc (andn n m) := by
  unfold lor andn
  have h1 : (0 : Int) ≤ Int.ofNat m := Int.natCast_nonneg m
  have h2 : ¬ (0 : Int) ≤ Int.negSucc n := by omega
  have h3 : (-(Int.negSucc n) - 1).toNat = n := by omega
  simp only [h1, h2, if_true, if_false, h3]
  rfl
theorem lor_negSucc_ofNat (m n : Nat) : lor (Int.negSucc m) (Int.ofNat n) = Int.negSucc (andn m n) := by
  unfold lor andn
  have h1 : (0 : Int) ≤ Int.ofNat n := Int.natCast_nonneg n
  have h2 : ¬ (0 : Int) ≤ Int.negSucc m := by omega
  have h3 : (-(Int.negSucc m) - 1).toNat = m := by omega
  simp only [h1, h2, if_true, if_false, h3]
  rfl
theorem lor_negSucc_negSucc (m n : Nat) : lor (Int.negSucc m) (Int.negSucc n) = Int.negSucc (m &&& n) := by
  unfold lor
  have h2 : ¬ (0 : Int) ≤ Int.negSucc m := by omega
  have h2' : ¬ (0 : Int) ≤ Int.negSucc n := by omega
  have h3 : (-(Int.negSucc m) - 1).toNat = m := by omega
  have h3' : (-(Int.negSucc n) - 1).toNat = n := by omega
  simp only [h2, h2', if_false, h3, h3']

/-- Python's `|` is associative -/
theorem lor_assoc (a b c : Int) : lor (lor a b) c = lor a (lor b c) := by
  cases a <;> cases b <;> cases c <;>
    simp only [lor_ofNat_ofNat, lor_ofNat_negSucc, lor_negSucc_ofNat, lor_negSucc_negSucc] <;>
    congr 1 <;> apply Nat.eq_of_testBit_eq <;> intro i <;>
    simp only [Nat.testBit_and, Nat.testBit_or, testBit_andn] <;>
    (rename_i x y z; cases x.testBit i <;> cases y.testBit i <;> cases z.testBit i <;> rfl)


/-! ### 13. the tree the hosts build from calc's minimal printing when only `|` chains differ -/

/- `a | b | c`: calc builds `a | (b | c)`, the hosts `(a | b) | c`.  `hostTree` re-associates every
   unparenthesised `|` chain to the left (`hostChain acc y` hangs the chain `y` under `acc`). -/
mutual
  def hostTree : Ast → Ast
    | .num n => .num n
    | .name s => .name s
    | .neg e => .neg (hostTree e)
    | .bin op x y =>
      if op = .bor then hostChain (hostTree x) y else .bin op (hostTree x) (hostTree y)
  def hostChain (acc : Ast) : Ast → Ast
    | .num n => .bin .bor acc (.num n)
    | .name s => .bin .bor acc (.name s)
    | .neg e => .bin .bor acc (.neg (hostTree e))
    | .bin op y1 y2 =>
      if op = .bor then hostChain (.bin .bor acc (hostTree y1)) y2
      else .bin .bor acc (.bin op (hostTree y1) (hostTree y2))
end

theorem hostTree_bor (x y : Ast) : hostTree (.bin .bor x y) = hostChain (hostTree x) y := by
  simp only [hostTree, if_true]

theorem hostTree_notbor {op : BinOp} (h : op ≠ .bor) (x y : Ast) :
    hostTree (.bin op x y) = .bin op (hostTree x) (hostTree y) := by
  simp only [hostTree, h, if_false]

theorem hostChain_bor (acc y1 y2 : Ast) :
    hostChain acc (.bin .bor y1 y2) = hostChain (.bin .bor acc (hostTree y1)) y2 := by
  simp only [hostChain, if_true]

theorem hostChain_notbor {op : BinOp} (h : op ≠ .bor) (acc y1 y2 : Ast) :
    hostChain acc (.bin op y1 y2) = .bin .bor acc (hostTree (.bin op y1 y2)) := by
  simp only [hostChain, hostTree, h, if_false]

/-- a shift written directly under `+ - * /` -/
def shiftBad (op : BinOp) : Ast → Bool
  | .bin op' _ _ => isArith op && isShift op'
  | _ => false

/-- no shift is a direct operand of `+ - * /` (the first clause of `precSafe` alone) -/
def shiftSafe : Ast → Bool
  | .num _ => true
  | .name _ => true
  | .neg e => shiftSafe e
  | .bin op x y => !shiftBad op x && !shiftBad op y && shiftSafe x && shiftSafe y

theorem shiftSafe_of_precSafe (a : Ast) (h : precSafe a = true) : shiftSafe a = true := by
  induction a with
  | num n => rfl
  | name s => rfl
  | neg e ih => exact ih h
  | bin op x y ihx ihy =>
    simp only [precSafe, shiftSafe, Bool.and_eq_true, Bool.not_eq_true'] at h ⊢
    obtain ⟨⟨⟨h1, h2⟩, h3⟩, h4⟩ := h
    refine ⟨⟨⟨?_, ?_⟩, ihx h3⟩, ihy h4⟩
    · cases x with
      | bin op' _ _ =>
        simp only [childBad, shiftBad] at h1 ⊢
        cases hh : (isArith op && isShift op') with
        | false => rfl
        | true => rw [hh] at h1; simp at h1
      | _ => rfl
    · cases y with
      | bin op' _ _ =>
        simp only [childBad, shiftBad] at h2 ⊢
        cases hh : (isArith op && isShift op') with
        | false => rfl
        | true => rw [hh] at h2; simp at h2
      | _ => rfl

theorem okTop_zero (l : Nat) (a : Ast) : okTop l 0 a := by
  cases a with
  | bin op _ _ => exact Or.inr (Nat.zero_le _)
  | _ => trivial

theorem okTop_left_shift {op : BinOp} (ho : op ≠ .bor) {x : Ast} (h : shiftBad op x = false) :
    okTop (lnx op) (hostLvl op) x := by
  cases x with
  | bin op' _ _ =>
    simp only [okTop]
    revert h ho
    cases op <;> cases op' <;> simp [shiftBad, isArith, isShift, lnx, lvl, rassoc, hostLvl]
  | _ => trivial

theorem okTop_right_shift {op : BinOp} (ho : op ≠ .bor) {y : Ast} (h : shiftBad op y = false) :
    okTop (nxt op) (hostLvl op + 1) y := by
  cases y with
  | bin op' _ _ =>
    simp only [okTop]
    revert h ho
    cases op <;> cases op' <;> simp [shiftBad, isArith, isShift, nxt, lvl, rassoc, hostLvl]
  | _ => trivial

theorem okTop_one_one (a : Ast) : okTop 1 1 a := by
  cases a with
  | bin op _ _ => simp only [okTop]; cases op <;> simp [lvl, hostLvl]
  | _ => trivial

theorem toksP_bor_zero (x y : Ast) :
    toksP 0 (.bin .bor x y) = toksP 1 x ++ Tok.bar :: toksP 0 y := by
  simp [toksP, lvl, lnx, nxt, rassoc, opTok]

theorem repHost_hostTree (a : Ast) :
    (∀ l h, shiftSafe a = true → okTop l h a → RepT hostT h (hostTree a) (toksP l a)) ∧
    (∀ acc tacc, RepT hostT 0 acc tacc → shiftSafe a = true →
        RepT hostT 0 (hostChain acc a) (tacc ++ Tok.bar :: toksP 0 a)) := by
  induction a with
  | num n =>
    refine ⟨fun l h _ _ => .num h n, fun acc tacc ha _ => ?_⟩
    exact .bin 0 .bor acc (.num n) tacc _ (Nat.zero_le _) ha (.num _ n)
  | name s =>
    refine ⟨fun l h _ _ => .name h s, fun acc tacc ha _ => ?_⟩
    exact .bin 0 .bor acc (.name s) tacc _ (Nat.zero_le _) ha (.name _ s)
  | neg e ih =>
    have hA : ∀ l h, shiftSafe (.neg e) = true → RepT hostT h (hostTree (.neg e)) (toksP l (.neg e)) := by
      intro l h hs
      simp only [hostTree, toksP]
      refine .neg h _ _ (ih.1 4 4 hs ?_)
      cases e with
      | bin op _ _ => exact Or.inl (by have := lvl_le_three op; omega)
      | _ => trivial
    refine ⟨fun l h hs _ => hA l h hs, fun acc tacc ha hs => ?_⟩
    exact .bin 0 .bor acc (hostTree (.neg e)) tacc _ (Nat.zero_le _) ha (hA 0 _ hs)
  | bin op x y ihx ihy =>
    have hA : ∀ l h, shiftSafe (.bin op x y) = true → okTop l h (.bin op x y) →
        RepT hostT h (hostTree (.bin op x y)) (toksP l (.bin op x y)) := by
      intro l h hs ht
      simp only [shiftSafe, Bool.and_eq_true, Bool.not_eq_true'] at hs
      obtain ⟨⟨⟨hbx, hby⟩, hsx⟩, hsy⟩ := hs
      by_cases ho : op = .bor
      · subst ho
        have hx : RepT hostT 0 (hostTree x) (toksP 1 x) := ihx.1 1 0 hsx (okTop_zero _ _)
        have h0 : RepT hostT 0 (hostTree (.bin .bor x y)) (toksP 1 x ++ Tok.bar :: toksP 0 y) := by
          rw [hostTree_bor]; exact ihy.2 _ _ hx hsy
        unfold toksP
        split
        · exact .paren h _ _ h0
        · rename_i hn
          have : h = 0 := by
            cases ht with
            | inl h1 => exact absurd h1 hn
            | inr h2 => simpa [hostLvl] using h2
          subst this
          exact h0
      · rw [hostTree_notbor ho]
        have hx : RepT hostT (hostT.lnx op) (hostTree x) (toksP (lnx op) x) :=
          ihx.1 _ _ hsx (okTop_left_shift ho hbx)
        have hy : RepT hostT (hostT.nxt op) (hostTree y) (toksP (nxt op) y) :=
          ihy.1 _ _ hsy (okTop_right_shift ho hby)
        unfold toksP
        split
        · exact .paren h _ _ (.bin 0 op _ _ _ _ (Nat.zero_le _) hx hy)
        · rename_i hn
          refine .bin h op _ _ _ _ ?_ hx hy
          cases ht with
          | inl h1 => exact absurd h1 hn
          | inr h2 => exact h2
    refine ⟨hA, ?_⟩
    intro acc tacc ha hs
    by_cases ho : op = .bor
    · subst ho
      have hs' := hs
      simp only [shiftSafe, Bool.and_eq_true, Bool.not_eq_true'] at hs'
      obtain ⟨⟨_, hsx⟩, hsy⟩ := hs'
      rw [hostChain_bor, toksP_bor_zero]
      have hx : RepT hostT 1 (hostTree x) (toksP 1 x) := ihx.1 1 1 hsx (okTop_one_one x)
      have hacc : RepT hostT 0 (.bin .bor acc (hostTree x)) (tacc ++ Tok.bar :: toksP 1 x) :=
        .bin 0 .bor acc (hostTree x) tacc _ (Nat.zero_le _) ha hx
      have := ihy.2 _ _ hacc hsy
      simpa using this
    · rw [hostChain_notbor ho]
      refine .bin 0 .bor acc _ tacc _ (Nat.zero_le _) ha (hA 0 _ hs ?_)
      right
      show 1 ≤ hostLvl op
      revert ho
      cases op <;> simp [hostLvl]

/-- what the hosts read in calc's minimal printing of a `shiftSafe` tree: the same tree with the
    `|` chains grouped to the left -/
theorem host_reads_hostTree (a : Ast) (h : shiftSafe a = true) :
    parseWith hostInfo (toks a) = some (hostTree a) := by
  rw [parseHost_iff]
  exact (repHost_hostTree a).1 0 0 h (okTop_zero _ _)

/-- on `precSafe` trees there is nothing to re-associate -/
theorem hostTree_eq_self (a : Ast) (h : precSafe a = true) : hostTree a = a := by
  have h1 := host_reads_hostTree a (shiftSafe_of_precSafe a h)
  rw [host_reads_same_tree a h] at h1
  injection h1 with h1
  exact h1.symm

/-- re-grouping `|` chains does not change what Python computes (value or error) -/
theorem evalPy_hostTree (env : String → Option Int) (a : Ast) :
    evalPy env (hostTree a) = evalPy env a ∧
    ∀ acc, evalPy env (hostChain acc a) = evalPy env (.bin .bor acc a) := by
  induction a with
  | num n => exact ⟨rfl, fun _ => rfl⟩
  | name s => exact ⟨rfl, fun _ => rfl⟩
  | neg e ih =>
    have h1 : evalPy env (hostTree (.neg e)) = evalPy env (.neg e) := by
      simp only [hostTree, evalPy, ih.1]
    refine ⟨h1, fun acc => ?_⟩
    simp only [hostChain, evalPy, ih.1]
  | bin op x y ihx ihy =>
    have h1 : evalPy env (hostTree (.bin op x y)) = evalPy env (.bin op x y) := by
      by_cases ho : op = .bor
      · subst ho
        rw [hostTree_bor, ihy.2]
        simp only [evalPy, ihx.1]
      · rw [hostTree_notbor ho]
        simp only [evalPy, ihx.1, ihy.1]
    refine ⟨h1, fun acc => ?_⟩
    by_cases ho : op = .bor
    · subst ho
      rw [hostChain_bor, ihy.2]
      simp only [evalPy, ihx.1, bind, Except.bind, rawBinop]
      cases evalPy env acc <;> cases evalPy env x <;> cases evalPy env y <;> simp only [lor_assoc]
    · rw [hostChain_notbor ho]
      simp only [evalPy] at h1 ⊢
      rw [h1]


theorem val32_of_int32Safe (env : String → Option Int) (b : Ast) (h : int32Safe env b = true) :
    val32 env b = true := by
  cases b with
  | num n => exact h
  | name s => exact h
  | neg e => simp only [int32Safe, Bool.and_eq_true] at h; exact h.2
  | bin op x y => simp only [int32Safe, Bool.and_eq_true] at h; exact h.1.2

/-- calc's value `v` of `a`; text = calc's minimal printing; no shift directly under `+ - * /`:
    Python reads a tree (`hostTree a`, `|` chains re-grouped) whose value is `v` -/
theorem pasted_value_python (env : String → Option Int) (a : Ast) (v : Int)
    (h : eval env a = .ok v) (hs : shiftSafe a = true) :
    ∃ b, parseWith hostInfo (toks a) = some b ∧ evalPy env b = .ok v :=
  ⟨hostTree a, host_reads_hostTree a hs, by rw [(evalPy_hostTree env a).1]; exact evalPy_of_eval env a v h⟩

/-- the same for C++ when the tree the host reads is `int32Safe` -/
theorem pasted_value_cpp (env : String → Option Int) (a : Ast) (v : Int)
    (h : eval env a = .ok v) (hs : shiftSafe a = true) (h32 : int32Safe env (hostTree a) = true) :
    parseWith hostInfo (toks a) = some (hostTree a) ∧ evalCpp env (hostTree a) = .ok v := by
  refine ⟨host_reads_hostTree a hs, ?_⟩
  have hv := val32_of_int32Safe env _ h32
  unfold val32 at hv
  cases he : eval env (hostTree a) with
  | error e => rw [he] at hv; cases hv
  | ok v' =>
    have h1 := evalPy_of_eval env _ v' he
    rw [(evalPy_hostTree env a).1, evalPy_of_eval env a v h] at h1
    injection h1 with h1
    subst h1
    exact evalCpp_of_eval env _ _ he h32

end Expr
end Prophy

#print axioms Prophy.Expr.parseWith_binInfo
#print axioms Prophy.Expr.parseWith_iff_repT
#print axioms Prophy.Expr.full_parens_same_tree
#print axioms Prophy.Expr.host_reads_same_tree_iff
#print axioms Prophy.Expr.Cst.parseWith_iff
#print axioms Prophy.Expr.Cst.mixFree_same_tree
#print axioms Prophy.Expr.evalPy_of_eval
#print axioms Prophy.Expr.divAgree_iff
#print axioms Prophy.Expr.evalCpp_of_eval
#print axioms Prophy.Expr.lor_assoc
#print axioms Prophy.Expr.host_reads_hostTree
#print axioms Prophy.Expr.pasted_value_python
#print axioms Prophy.Expr.pasted_value_cpp

/- C09: the generated raw `prophy::swap` converts a foreign-endian (big-endian) message to native (little-endian)
   in place and returns the pointer one past the aligned end -/
import ProphyModel.Lemmas.RawSwapBase
namespace Prophy
namespace Raw
open Accept PL WF

/-- the statement proved by induction on the value: the swap of a value of type `t` that lies at `pos` -/
def TyOK (v : Val) : Prop := ∀ (t : Ty) (pre post : Bytes) (fuel pos : Nat),
  front t = true → pyRt t = true → partsOk t = true → v.isCounter = false → hasField [] .plain t v = true →
  agreeTy t v = true → Spec.unlTy t = false → pre.length = pos → Spec.alignTy t ∣ pos → needTy t v ≤ fuel →
  swapTy fuel t (pre ++ Spec.render .big (Spec.chunksTy t v) ++ post) pos =
    some (pre ++ Spec.render .little (Spec.chunksTy t v) ++ post, pos + Spec.clen (Spec.chunksTy t v))

/-! ## scalars -/

theorem reverseAt_scalar' (k n : Nat) (pre post : Bytes) (pos : Nat) (h : pre.length = pos) :
    reverseAt (pre ++ (scalarBytes .big k n ++ post)) pos k = some (pre ++ (scalarBytes .little k n ++ post)) := by
  have := reverseAt_scalar_p13 k n pre post pos h
  simpa only [List.append_assoc] using this

theorem leRead_scalar' (k n : Nat) (pre post : Bytes) (pos : Nat) (h : pre.length = pos) (hn : n < 256 ^ k) :
    leRead (pre ++ (scalarBytes .little k n ++ post)) pos k = some n := by
  have := leRead_scalar_p13 k n pre post pos h hn
  simpa only [List.append_assoc] using this

theorem tyOK_int (i : Int) : TyOK (.int i) := by
  intro t pre post fuel pos hf hp hd hc hh ha hu hpre hal hfuel
  cases t with
  | prim p =>
    obtain ⟨f, rfl⟩ : ∃ f, fuel = f + 1 := ⟨fuel - 1, by simp [needTy] at hfuel; omega⟩
    simp only [Spec.chunksTy, render_cons_p13, render_nil_p13, Spec.Chunk.render, List.append_nil, Spec.clen, Spec.Chunk.len]
    rw [swapTy_prim, reverseAt_scalar_p13 _ _ _ _ _ hpre]
    rfl
  | byte =>
    obtain ⟨f, rfl⟩ : ∃ f, fuel = f + 1 := ⟨fuel - 1, by simp [needTy] at hfuel; omega⟩
    simp only [Spec.chunksTy, render_cons_p13, render_nil_p13, Spec.Chunk.render, List.append_nil, Spec.clen, Spec.Chunk.len]
    rw [swapTy_byte, scalarBytes_one_p13]
  | enum nm es =>
    obtain ⟨f, rfl⟩ : ∃ f, fuel = f + 1 := ⟨fuel - 1, by simp [needTy] at hfuel; omega⟩
    simp only [Spec.chunksTy, render_cons_p13, render_nil_p13, Spec.Chunk.render, List.append_nil, Spec.clen, Spec.Chunk.len]
    rw [swapTy_enum, reverseAt_scalar_p13 _ _ _ _ _ hpre]
    rfl
  | struct nm ms => simp [hasField] at hh
  | union nm arms => simp [hasField] at hh

/-! ## arrays: `swap_n_fixed` / `swap_n_dynamic` -/

theorem agreeElems_cons_p13 (t : Ty) (x : Val) (xs : List Val) :
    agreeElems t (x :: xs) = true ↔ agreeTy t x = true ∧ agreeElems t xs = true := by
  simp [agreeElems]

theorem swapN_elems (t : Ty) (dyn : Bool) (hf : front t = true) (hp : pyRt t = true) (hd : partsOk t = true)
    (hu : Spec.unlTy t = false) (hfix : dyn = false → Spec.fixedTy t = true) :
    (xs : List Val) → (∀ x ∈ xs, TyOK x) → ∀ (pre post : Bytes) (fuel pos : Nat),
    hasElems t xs = true → agreeElems t xs = true → pre.length = pos → Spec.alignTy t ∣ pos →
    needElems t xs ≤ fuel →
    swapN fuel dyn t xs.length (pre ++ Spec.render .big (Spec.chunksElems t xs) ++ post) pos =
      some (pre ++ Spec.render .little (Spec.chunksElems t xs) ++ post, pos + Spec.clen (Spec.chunksElems t xs))
  | [], _, pre, post, fuel, pos, _, _, _, _, hfuel => by
    obtain ⟨f, rfl⟩ : ∃ f, fuel = f + 1 := ⟨fuel - 1, by simp [needElems] at hfuel; omega⟩
    simp only [Spec.chunksElems, render_nil_p13, List.append_nil, List.length_nil, Spec.clen, Nat.add_zero]
    rw [swapN_zero]
  | x :: xs, hok, pre, post, fuel, pos, hh, ha, hpre, hal, hfuel => by
    obtain ⟨hc, hx, hr⟩ := (hasElems_cons t x xs).1 hh
    obtain ⟨hax, har⟩ := (agreeElems_cons_p13 t x xs).1 ha
    simp only [needElems] at hfuel
    obtain ⟨f, rfl⟩ : ∃ f, fuel = f + 1 := ⟨fuel - 1, by omega⟩
    have hxok := hok x (List.mem_cons_self ..) t pre (Spec.render .big (Spec.chunksElems t xs) ++ post) f pos
      hf hp hd hc hx hax hu hpre hal (by omega)
    simp only [Spec.chunksElems, Spec.render_append, List.length_cons, Spec.clen_append]
    rw [swapN_succ]
    rw [show pre ++ (Spec.render .big (Spec.chunksTy t x) ++ Spec.render .big (Spec.chunksElems t xs)) ++ post =
      pre ++ Spec.render .big (Spec.chunksTy t x) ++ (Spec.render .big (Spec.chunksElems t xs) ++ post) by
        simp [List.append_assoc]]
    rw [hxok]
    simp only []
    have hnext : (if dyn = true then pos + Spec.clen (Spec.chunksTy t x) else pos + sizeofTy t) =
        pos + Spec.clen (Spec.chunksTy t x) := by
      cases dyn with
      | true => rfl
      | false =>
        have hfx := hfix rfl
        simp only [Bool.false_eq_true, if_false]
        rw [sizeof_ok_p13 t hf (Spec.dynTy_of_fixed t hfx), Spec.clen_fixed t x hfx hc hx]
    rw [hnext]
    have ih := swapN_elems t dyn hf hp hd hu hfix xs (fun y hy => hok y (List.mem_cons_of_mem _ hy))
      (pre ++ Spec.render .little (Spec.chunksTy t x)) post f (pos + Spec.clen (Spec.chunksTy t x))
      hr har (by simp [hpre]) (Nat.dvd_add hal (align_dvd_chunksTy t hf x hc hx)) (by omega)
    rw [show pre ++ Spec.render .little (Spec.chunksTy t x) ++ (Spec.render .big (Spec.chunksElems t xs) ++ post) =
      pre ++ Spec.render .little (Spec.chunksTy t x) ++ Spec.render .big (Spec.chunksElems t xs) ++ post by
        simp [List.append_assoc]]
    rw [ih]
    simp [List.append_assoc, Nat.add_assoc]

/-! ## unions -/

theorem find_disc_p13 : (arms : List Arm) → ∀ (idx : Nat) (a : Arm), arms[idx]? = some a →
    (∀ (j : Nat) (b : Arm), j < idx → arms[j]? = some b → b.disc ≠ a.disc) →
    arms.find? (fun arm => decide (arm.disc = a.disc)) = some a
  | [], idx, a, h, _ => by simp at h
  | hd :: r, idx, a, h, hu => by
    cases idx with
    | zero =>
      simp at h; subst h
      simp [List.find?]
    | succ i =>
      simp at h
      have hne : hd.disc ≠ a.disc := hu 0 hd (by omega) (by simp)
      simp only [List.find?, hne, decide_false]
      exact find_disc_p13 r i a h (fun j b hj hb => hu (j + 1) b (by omega) (by simpa using hb))

theorem partsOkArms_get_p13 : (arms : List Arm) → partsOkArms arms = true → ∀ (idx : Nat) (a : Arm),
    arms[idx]? = some a → partsOk a.ty = true
  | [], _, idx, a, h => by simp at h
  | .mk n d t :: r, hw, idx, a, h => by
    simp only [partsOkArms, Bool.and_eq_true] at hw
    cases idx with
    | zero => simp at h; subst h; exact hw.1
    | succ i => simp at h; exact partsOkArms_get_p13 r hw.2 i a h

theorem unl_of_kind0_p13 (t : Ty) (hf : front t = true) (hk : (nodeTy t).kind = 0) : Spec.unlTy t = false := by
  cases h : Spec.unlTy t with
  | false => rfl
  | true =>
    have := dyn_of_unl_p13 t h
    rw [dyn_of_kind t hf hk] at this
    cases this

theorem frontArms_get_kind_p13 : (arms : List Arm) → frontArms arms = true → ∀ (idx : Nat) (a : Arm),
    arms[idx]? = some a → front a.ty = true ∧ (nodeTy a.ty).kind = 0
  | [], _, idx, a, h => by simp at h
  | .mk n d t :: r, hw, idx, a, h => by
    obtain ⟨h1, h2, h3⟩ := frontArms_cons' n d t r hw
    cases idx with
    | zero => simp at h; subst h; exact ⟨h1, h2⟩
    | succ i => simp at h; exact frontArms_get_kind_p13 r h3 i a h

theorem tyOK_union (idx : Nat) (x : Val) (hx : TyOK x) : TyOK (.union idx x) := by
  intro t pre post fuel pos hf hp hd hc hh ha hu hpre hal hfuel
  cases t with
  | prim p => simp [hasField] at hh
  | byte => simp [hasField] at hh
  | enum nm es => simp [hasField] at hh
  | struct nm ms => simp [hasField] at hh
  | union nm arms =>
    simp only [hasField, Bool.true_and] at hh
    cases harm : arms[idx]? with
    | none => simp [harm] at hh
    | some arm =>
      obtain ⟨an, d, t'⟩ := arm
      simp only [harm, Bool.and_eq_true, Bool.not_eq_true'] at hh
      obtain ⟨hxc, hxh⟩ := hh
      have hf' := hf
      simp only [front, Bool.and_eq_true] at hf'
      obtain ⟨⟨⟨⟨_, _⟩, hud⟩, hdl⟩, hfa⟩ := hf'
      have hp' := hp
      simp only [pyRt, Bool.and_eq_true] at hp'
      obtain ⟨hft', hk0⟩ := frontArms_get_kind_p13 arms hfa idx _ harm
      have hpt' := (Accept.pyRtArms_get arms hp'.2 idx _ harm).1
      have hdt' := partsOkArms_get_p13 arms (by simpa [partsOk] using hd) idx _ harm
      simp only [Arm.ty] at hft' hk0 hpt' hdt'
      have hut' := unl_of_kind0_p13 t' hft' hk0
      have hat' : agreeTy t' x = true := by simpa [agreeTy, harm] using ha
      have hdlt : d < 256 ^ 4 := by
        have h := (List.all_eq_true.1 hdl) _ (List.mem_of_getElem? harm)
        have h := of_decide_eq_true h
        have h2 : (256 : Nat) ^ 4 = 2 ^ 32 := by decide
        rw [h2]; exact h
      simp only [needTy, harm] at hfuel
      obtain ⟨f, rfl⟩ : ∃ f, fuel = f + 1 := ⟨fuel - 1, by omega⟩
      have hfind : arms.find? (fun arm => decide (arm.disc = d)) = some (.mk an d t') :=
        find_disc_p13 arms idx _ harm (fun j b hj hb => Accept.uniq_disc arms hud idx _ harm j b hj hb)
      have hfx : Spec.fixedTy (.union nm arms) = true := by
        simp only [Spec.fixedTy]; exact fixedArms_of_front arms hfa
      have hclen := Spec.clen_fixed _ _ hfx hc (by simp [hasField, harm, hxc, hxh])
      have hsize := sizeof_ok_p13 (.union nm arms) hf (by simp [Spec.dynTy])
      have hA : IsAl (max Spec.flagSize (Spec.alignArms arms)) := IsAl.max IsAl.four (Spec.alignArms_isAl arms)
      have hA4 : 4 ≤ max Spec.flagSize (Spec.alignArms arms) := by simp only [Spec.flagSize]; omega
      have hna : (nodeTy (.union nm arms)).align = max Spec.flagSize (Spec.alignArms arms) := by
        rw [nodeTy_align']; simp [Spec.alignTy]
      have harmpos : pos + 4 + (if max Spec.flagSize (Spec.alignArms arms) = 8 then 4 else 0) =
          pos + max Spec.flagSize (Spec.alignArms arms) := by
        rcases hA with h | h | h | h <;> rw [h] at hA4 ⊢ <;> simp at hA4 ⊢
      have hxok := hx t' (pre ++ scalarBytes .little 4 d ++
          zeros (max Spec.flagSize (Spec.alignArms arms) - Spec.flagSize))
        (zeros (Spec.sizeTy (.union "" arms) - max Spec.flagSize (Spec.alignArms arms) - Spec.clen (Spec.chunksTy t' x))
          ++ post) f (pos + max Spec.flagSize (Spec.alignArms arms))
        hft' hpt' hdt' hxc hxh hat' hut' (by simp [hpre, Spec.flagSize]; omega)
        (Nat.dvd_add (Nat.dvd_trans (Spec.alignArm_dvd arms idx _ harm) (by simpa [Spec.alignTy] using hal))
          (Spec.alignArm_dvd arms idx _ harm)) (by omega)
      rw [hclen, swapTy_union]
      simp only [Spec.chunksTy, harm, render_cons_p13, render_nil_p13, Spec.render_append, Spec.Chunk.render, List.append_nil,
        List.append_assoc] at hxok ⊢
      rw [show Spec.flagSize = 4 from rfl] at *
      rw [reverseAt_scalar' _ _ _ _ _ hpre]
      simp only []
      rw [leRead_scalar' _ _ _ _ _ hpre hdlt]
      simp only []
      unfold unionArm
      simp only [hna, hfind, Arm.ty]
      rw [harmpos, hxok]
      simp only [hsize]

/-! ## one member -/

/-- the induction hypotheses about a member value and the values inside it -/
def DeepOK (v : Val) : Prop :=
  TyOK v ∧ (∀ x, v = .present x → TyOK x) ∧ (∀ xs, v = .arr xs → ∀ x ∈ xs, TyOK x)

theorem reverseAt_zeros_p13 (n : Nat) (pre post : Bytes) (pos : Nat) (h : pre.length = pos) (hn : 4 ≤ n) :
    reverseAt (pre ++ (zeros n ++ post)) pos 4 = some (pre ++ (zeros n ++ post)) := by
  have hz : zeros n = zeros 4 ++ zeros (n - 4) := by
    simp only [zeros, List.replicate_append_replicate]; congr 1; omega
  rw [hz, ← scalarBytes_zero .big 4, List.append_assoc, reverseAt_scalar' _ _ _ _ _ h, scalarBytes_zero,
    scalarBytes_zero]

theorem leRead_zeros_p13 (n : Nat) (pre post : Bytes) (pos : Nat) (h : pre.length = pos) (hn : 4 ≤ n) :
    leRead (pre ++ (zeros n ++ post)) pos 4 = some 0 := by
  have hz : zeros n = zeros 4 ++ zeros (n - 4) := by
    simp only [zeros, List.replicate_append_replicate]; congr 1; omega
  rw [hz, ← scalarBytes_zero .little 4, List.append_assoc, leRead_scalar' _ _ _ _ _ h (by decide)]

theorem kind01_p13 (t : Ty) (hf : front t = true) (hk2 : (nodeTy t).kind ≠ 2) :
    ((nodeTy t).kind == 1) = false → Spec.fixedTy t = true := by
  intro h
  have hle := specKind_le t
  rw [← nodeTy_kind' t hf] at hle
  have h1 : (nodeTy t).kind ≠ 1 := by simpa using h
  have hx : ∀ x : Nat, x ≤ 2 → x ≠ 2 → x ≠ 1 → x = 0 := by intro x; omega
  exact fixed_of_kind t hf (hx _ hle hk2 h1)

/-- the chunks of the elements of an array member -/
def dataChunks (t : Ty) : Val → List Spec.Chunk
  | .arr xs => Spec.chunksElems t xs
  | .bytes b => [.raw b]
  | _ => []

theorem arr_cases_p13 (all : List Member) (k : MKind) (t : Ty) (v : Val) (hk : isArrayKind k = true)
    (hh : hasField all k t v = true) :
    (∃ xs, v = .arr xs ∧ hasElems t xs = true) ∨ (∃ b, v = .bytes b ∧ t = .byte) := by
  cases v with
  | arr xs =>
    left; refine ⟨xs, rfl, ?_⟩
    simp only [hasField, Bool.and_eq_true] at hh; exact hh.2
  | bytes b =>
    right; refine ⟨b, rfl, ?_⟩
    simp only [hasField, Bool.and_eq_true] at hh
    cases t <;> simp_all
  | int i => cases t <;> cases k <;> simp_all [hasField, isArrayKind]
  | struct vs => cases t <;> cases k <;> simp_all [hasField, isArrayKind]
  | union i x => cases t <;> cases k <;> simp_all [hasField, isArrayKind]
  | absent => cases k <;> simp_all [hasField, isArrayKind]
  | present x => cases k <;> simp_all [hasField, isArrayKind]
  | sizer => cases k <;> simp_all [hasField, isArrayKind]

theorem arrData_ok (t : Ty) (v : Val) (hf : front t = true) (hp : pyRt t = true) (hd : partsOk t = true)
    (hk2 : (nodeTy t).kind ≠ 2)
    (hv : (∃ xs, v = .arr xs ∧ hasElems t xs = true) ∨ (∃ b, v = .bytes b ∧ t = .byte))
    (hag : agreeTy t v = true) (hdeep : DeepOK v) (pre post : Bytes) (fuel pos : Nat)
    (hpre : pre.length = pos) (hal : Spec.alignTy t ∣ pos) (hfuel : needField t v ≤ fuel) :
    swapN fuel ((nodeTy t).kind == 1) t v.len (pre ++ (Spec.render .big (dataChunks t v) ++ post)) pos =
      some (pre ++ (Spec.render .little (dataChunks t v) ++ post), pos + Spec.clen (dataChunks t v)) := by
  rcases hv with ⟨xs, rfl, hel⟩ | ⟨b, rfl, rfl⟩
  · have hut : Spec.unlTy t = false := by
      rw [nodeTy_kind' t hf] at hk2
      unfold specKind at hk2
      cases h : Spec.unlTy t with
      | false => rfl
      | true => rw [h] at hk2; simp at hk2
    have := swapN_elems t ((nodeTy t).kind == 1) hf hp hd hut (kind01_p13 t hf hk2) xs (hdeep.2.2 xs rfl)
      pre post fuel pos hel (by simpa [agreeTy] using hag) hpre hal (by simpa [needField] using hfuel)
    simpa only [List.append_assoc, dataChunks, Val.len] using this
  · have hk : ((nodeTy Ty.byte).kind == 1) = false := by decide
    rw [hk]
    simp only [dataChunks, render_cons_p13, render_nil_p13, Spec.Chunk.render, List.append_nil, Val.len, Spec.clen,
      Spec.Chunk.len, Nat.add_zero]
    exact swapN_bytes _ _ _ _ (by simpa [needField] using hfuel)

theorem unl_of_kind_ne2_p13 (t : Ty) (hf : front t = true) (hk2 : (nodeTy t).kind ≠ 2) : Spec.unlTy t = false := by
  rw [nodeTy_kind' t hf] at hk2
  unfold specKind at hk2
  cases h : Spec.unlTy t with
  | false => rfl
  | true => rw [h] at hk2; simp at hk2

theorem memberStep_ok (all : List Member) (allv : List Val) (n : String) (t : Ty) (k : MKind) (v : Val)
    (g : MG) (fields : List Field) (ppos o : Nat) (sizers : List (String × Nat × Nat)) (isLast : Bool)
    (pre post : Bytes) (fuel : Nat)
    (hgm : g.m = .mk n t k) (hgk : g.kind = (nodeTy t).kind)
    (hoff : fieldOffset fields n = o + flagLen_p13 t k)
    (hflag : k = .optional → fieldOffset fields ("has_" ++ n) = o)
    (hpre : pre.length = ppos + o)
    (hf : front t = true) (hp : pyRt t = true) (hd : partsOk t = true)
    (ho : isOptional k = true → (nodeTy t).kind = 0)
    (hs : (sizeOf? k).isSome = true → (nodeTy t).kind = 0)
    (hk2 : (nodeTy t).kind ≠ 2) (hng : k ≠ .greedy)
    (hh : hasField all k t v = true) (hsz : v = .sizer → ∃ p, t = .prim p)
    (hag : agreeTy t v = true) (hdeep : DeepOK v)
    (hal : Spec.alignMember (.mk n t k) ∣ ppos + o)
    (hcnt : ∀ s, k.sizer? = some s → ∃ saddr ssz, sizers.lookup s = some (saddr, ssz) ∧ saddr + ssz ≤ pre.length ∧
      leRead pre saddr ssz = some v.len)
    (hfuel : needField t v ≤ fuel) :
    ∃ e, memberStep fuel g fields (pre ++ (Spec.render .big (Spec.fieldChunks all allv n t k v) ++ post))
          ppos sizers isLast =
        some (pre ++ (Spec.render .little (Spec.fieldChunks all allv n t k v) ++ post), e) ∧
      (Spec.endsBlock (.mk n t k) = true → e = ppos + o + Spec.clen (Spec.fieldChunks all allv n t k v)) := by
  have hk2b : ((nodeTy t).kind == 2) = false := by simpa using hk2
  have hut := unl_of_kind_ne2_p13 t hf hk2
  unfold memberStep
  rw [hgm]
  simp only [Member.kind, Member.name, Member.ty, hgk, hk2b, hoff, Bool.false_or]
  cases k with
  | plain =>
    simp only [Bool.and_false, Bool.false_eq_true, if_false, flagLen_p13, Nat.add_zero]
    cases hv : v.isCounter with
    | true =>
      have : v = .sizer := by cases v <;> simp_all [Val.isCounter]
      subst this
      obtain ⟨p, rfl⟩ := hsz rfl
      obtain ⟨f, rfl⟩ : ∃ f, fuel = f + 1 := ⟨fuel - 1, by simp [needField] at hfuel; omega⟩
      simp only [Spec.fieldChunks, render_cons_p13, render_nil_p13, Spec.Chunk.render, List.append_nil, Spec.sizeTy,
        Spec.clen, Spec.Chunk.len]
      rw [swapTy_prim, reverseAt_scalar' _ _ _ _ _ hpre]
      exact ⟨_, rfl, fun _ => rfl⟩
    | false =>
      rw [Spec.fieldChunks_plain all allv n t v hv]
      have hh' : hasField [] .plain t v = true := by rw [hasField_plain_indep [] all]; exact hh
      have hnf : needField t v = needTy t v := by cases v <;> simp_all [needField, hasField, Val.isCounter]
      have := hdeep.1 t pre post fuel (ppos + o) hf hp hd hv hh' hag hut hpre
        (by simpa [Spec.alignMember, Member.kind, Member.ty] using hal) (by omega)
      simp only [List.append_assoc] at this
      exact ⟨_, this, fun _ => rfl⟩
  | optional =>
    simp only [Bool.and_false, Bool.false_eq_true, if_false, flagLen_p13, hflag rfl]
    have hA4 : 4 ≤ max Spec.flagSize (Spec.alignTy t) := by simp only [Spec.flagSize]; omega
    have hv : v = .absent ∨ ∃ x, v = .present x := by cases v <;> cases t <;> simp_all [hasField]
    rcases hv with rfl | ⟨x, rfl⟩
    · simp only [Spec.fieldChunks, render_cons_p13, render_nil_p13, Spec.Chunk.render, List.append_nil]
      rw [reverseAt_zeros_p13 _ _ _ _ hpre (by omega)]
      simp only []
      rw [leRead_zeros_p13 _ _ _ _ hpre (by omega)]
      simp only [ne_eq, not_true_eq_false, if_false]
      exact ⟨_, rfl, fun h => by simp [Spec.endsBlock, Member.kind] at h⟩
    · simp only [hasField, Bool.true_and, Bool.and_eq_true, Bool.not_eq_true'] at hh
      have hx' : hasField [] .plain t x = true := by rw [hasField_plain_indep [] all]; exact hh.2
      have hax : agreeTy t x = true := by simpa [agreeTy] using hag
      have hxok := hdeep.2.1 x rfl t (pre ++ (scalarBytes .little Spec.flagSize 1 ++
          zeros (max Spec.flagSize (Spec.alignTy t) - Spec.flagSize))) post fuel
        (ppos + (o + max Spec.flagSize (Spec.alignTy t))) hf hp hd hh.1 hx' hax hut
        (by simp [hpre, Spec.flagSize]; omega)
        (by
          have hal' : max Spec.flagSize (Spec.alignTy t) ∣ ppos + o := hal
          have h1 : Spec.alignTy t ∣ max Spec.flagSize (Spec.alignTy t) :=
            IsAl.dvd_max_right IsAl.four (Spec.alignTy_isAl t)
          rw [← Nat.add_assoc]
          exact Nat.dvd_add (Nat.dvd_trans h1 hal') h1)
        (by simpa [needField] using hfuel)
      simp only [Spec.fieldChunks, render_cons_p13, render_nil_p13, Spec.render_append, Spec.Chunk.render, List.append_nil,
        List.append_assoc] at hxok ⊢
      rw [show Spec.flagSize = 4 from rfl] at *
      rw [reverseAt_scalar' _ _ _ _ _ hpre]
      simp only []
      rw [leRead_scalar' _ _ _ _ _ hpre (by decide)]
      simp only [ne_eq, Nat.succ_ne_self, not_false_eq_true, if_true]
      rw [hxok]
      simp only [Option.map_some]
      exact ⟨_, rfl, fun h => by simp [Spec.endsBlock, Member.kind] at h⟩
  | fixed c =>
    simp only [Bool.and_false, Bool.false_eq_true, if_false, flagLen_p13, Nat.add_zero]
    have hv := arr_cases_p13 all _ t v rfl hh
    have hlen : v.len = c := by
      rcases hv with ⟨xs, rfl, _⟩ | ⟨b, rfl, _⟩ <;> cases t <;> simp_all [hasField, Val.len]
    have hdc : Spec.fieldChunks all allv n t (.fixed c) v = dataChunks t v := by
      rcases hv with ⟨xs, rfl, _⟩ | ⟨b, rfl, _⟩ <;> rfl
    rw [hdc, ← hlen]
    rw [arrData_ok t v hf hp hd hk2 hv hag hdeep pre post fuel (ppos + o) hpre
      (by simpa [Spec.alignMember, Member.kind, Member.ty] using hal) hfuel]
    exact ⟨_, rfl, fun h => by simp [Spec.endsBlock, Member.kind] at h⟩
  | dyn s sh =>
    simp only [Bool.and_false, Bool.false_eq_true, if_false, flagLen_p13, Nat.add_zero]
    have hv := arr_cases_p13 all _ t v rfl hh
    have hdc : Spec.fieldChunks all allv n t (.dyn s sh) v = dataChunks t v := by
      rcases hv with ⟨xs, rfl, _⟩ | ⟨b, rfl, _⟩ <;> rfl
    obtain ⟨saddr, ssz, hlk, hle, hrd⟩ := hcnt s rfl
    rw [hdc, hlk]
    simp only []
    rw [leRead_append_p13 _ _ _ _ hle, hrd]
    simp only []
    rw [arrData_ok t v hf hp hd hk2 hv hag hdeep pre post fuel (ppos + o) hpre
      (by simpa [Spec.alignMember, Member.kind, Member.ty] using hal) hfuel]
    exact ⟨_, rfl, fun _ => rfl⟩
  | limited s c =>
    simp only [Bool.and_false, Bool.false_eq_true, if_false, flagLen_p13, Nat.add_zero]
    have hv := arr_cases_p13 all _ t v rfl hh
    obtain ⟨z, hdc⟩ : ∃ z, Spec.fieldChunks all allv n t (.limited s c) v = dataChunks t v ++ [.pad z] := by
      rcases hv with ⟨xs, rfl, _⟩ | ⟨b, rfl, _⟩
      · exact ⟨_, rfl⟩
      · exact ⟨_, rfl⟩
    obtain ⟨saddr, ssz, hlk, hle, hrd⟩ := hcnt s rfl
    rw [hdc, hlk]
    simp only [Spec.render_append, render_cons_p13, render_nil_p13, Spec.Chunk.render, List.append_nil, List.append_assoc]
    rw [leRead_append_p13 _ _ _ _ hle, hrd]
    simp only []
    rw [arrData_ok t v hf hp hd hk2 hv hag hdeep pre (zeros z ++ post) fuel (ppos + o) hpre
      (by simpa [Spec.alignMember, Member.kind, Member.ty] using hal) hfuel]
    exact ⟨_, rfl, fun h => by simp [Spec.endsBlock, Member.kind] at h⟩
  | greedy => exact absurd rfl hng

/-! ## arithmetic of alignments -/

theorem alignUp_add_left_p13 (s x a : Nat) (h : a ∣ s) : alignUp (s + x) a = s + alignUp x a := by
  unfold alignUp; rw [padTo_add_mul s x a h]; omega

theorem alignUp_alignUp_p13 (x a b : Nat) (ha : IsAl a) (hb : IsAl b) (h : a ∣ b) : alignUp (alignUp x a) b = alignUp x b := by
  have hle := Nat.le_of_dvd hb.pos h
  unfold alignUp padTo
  rcases ha with rfl | rfl | rfl | rfl <;> rcases hb with rfl | rfl | rfl | rfl <;> omega

/-! ## field offsets -/

theorem offsets_lookup_p13 (A : List Field) (f : Field) (B : List Field) (off : Nat)
    (h : ∀ a ∈ A, a.name ≠ f.name) : (offsets (A ++ f :: B) off).lookup f.name = some (off + totalSize A) := by
  induction A generalizing off with
  | nil => simp [offsets, totalSize]
  | cons a A ih =>
    have hne : (f.name == a.name) = false := by
      have := h a (List.mem_cons_self ..)
      simpa using fun h' => this h'.symm
    simp only [List.cons_append, offsets, List.lookup, hne, totalSize]
    rw [ih _ (fun x hx => h x (List.mem_cons_of_mem _ hx))]
    congr 1; omega

theorem fieldOffset_mid_p13 (A : List Field) (f : Field) (B : List Field)
    (h : ∀ a ∈ A, a.name ≠ f.name) : fieldOffset (A ++ f :: B) f.name = totalSize A := by
  unfold fieldOffset
  rw [offsets_lookup_p13 A f B 0 h]; simp

theorem uniq_append_p13 (l1 l2 : List String) (h : WF.uniq (l1 ++ l2) = true) :
    WF.uniq l1 = true ∧ WF.uniq l2 = true ∧ ∀ x ∈ l1, x ∉ l2 := by
  induction l1 with
  | nil => exact ⟨rfl, h, fun x hx => by cases hx⟩
  | cons a r ih =>
    simp only [List.cons_append, WF.uniq, Bool.and_eq_true, Bool.not_eq_true'] at h
    obtain ⟨h1, h2, h3⟩ := ih h.2
    have hn : ¬ a ∈ r ++ l2 := by
      intro hc
      have : (r ++ l2).contains a = true := by simpa using hc
      rw [this] at h; cases h.1
    refine ⟨?_, h2, ?_⟩
    · simp only [WF.uniq, Bool.and_eq_true, Bool.not_eq_true']
      refine ⟨?_, h1⟩
      cases hc : r.contains a with
      | false => rfl
      | true => exact absurd (List.mem_append_left _ (by simpa using hc)) hn
    · intro x hx
      rcases List.mem_cons.1 hx with rfl | hx
      · exact fun hc => hn (List.mem_append_right _ hc)
      · exact h3 x hx

theorem fieldOffset_uniq_p13 (A : List Field) (f : Field) (B : List Field)
    (h : WF.uniq ((A ++ f :: B).map (·.name)) = true) : fieldOffset (A ++ f :: B) f.name = totalSize A := by
  apply fieldOffset_mid_p13
  intro a ha hn
  rw [List.map_append] at h
  obtain ⟨_, _, h3⟩ := uniq_append_p13 _ _ h
  exact h3 a.name (List.mem_map.2 ⟨a, ha, rfl⟩) (by rw [hn]; simp)

/-! ## the counters seen so far -/

/-- the counters of the members `before`, already swapped, lie inside `pre` and `sizers` finds them -/
def SInv (all : List Member) (allv : List Val) (before : List Member) (sizers : List (String × Nat × Nat))
    (pre : Bytes) : Prop :=
  ∀ s p, Member.mk s (.prim p) .plain ∈ before → isSizer s all = true →
    ∃ a, sizers.lookup s = some (a, p.size) ∧ a + p.size ≤ pre.length ∧
      leRead pre a p.size = some (Spec.counter s all allv + sizerShift s all)

theorem SInv.mono {all : List Member} {allv : List Val} {before : List Member}
    {sizers : List (String × Nat × Nat)} {pre : Bytes} (h : SInv all allv before sizers pre) (more : Bytes) :
    SInv all allv before sizers (pre ++ more) := by
  intro s p hm hs
  obtain ⟨a, h1, h2, h3⟩ := h s p hm hs
  exact ⟨a, h1, by simp; omega, by rw [leRead_append_p13 _ _ _ _ h2]; exact h3⟩

theorem counter_lt_p13 (all : List Member) (allv : List Val) (hu : WF.uniq (all.map (·.name)) = true)
    (hw : wfMs all all = true) (hh : hasMs all all allv = true) (n : String) (p : Prim) (k : MKind)
    (hm : Member.mk n (.prim p) k ∈ all) (hs : isSizer n all = true) :
    Spec.counter n all allv + sizerShift n all < 256 ^ p.size := by
  obtain ⟨p', heq, _, hfl, hmax⟩ := WF.sizer_prim all hu hw n (.prim p) k hm hs
  injection heq with heq; subst heq
  obtain ⟨m', hm', hs'⟩ := (isSizer_iff n all).1 hs
  have hne := boundLens_ne_nil all n all allv hh ⟨m', hm', hs'⟩
  have hmem : Spec.counter n all allv ∈ boundLens n all allv := by
    unfold Spec.counter
    cases hb : boundLens n all allv with
    | nil => exact absurd hb hne
    | cons a r => simp
  have hb := boundLens_bound all n all allv hw hh _ hmem
  obtain ⟨hlo, hhi⟩ := primRange_nonfloat p hfl
  rw [hmax] at hb
  have : 0 < 256 ^ p.size := Nat.pow_pos (by decide)
  omega

theorem sizerShift_zero_p13 (s : String) : (all : List Member) → shiftOk all = true → sizerShift s all = 0
  | [], _ => rfl
  | m :: r, h => by
    simp only [shiftOk, List.all_cons, Bool.and_eq_true, beq_iff_eq] at h
    simp only [sizerShift]
    split
    · exact h.1
    · exact sizerShift_zero_p13 s r (by simpa [shiftOk] using h.2)

theorem frontMs_sizer_p13 (all : List Member) (n : String) (t : Ty) (k : MKind) (r before : List Member)
    (h : frontMs all (.mk n t k :: r) before = true) (s : String) (hs : k.sizer? = some s) :
    ∃ p, Member.mk s (.prim p) .plain ∈ before := by
  simp only [frontMs, Bool.and_eq_true] at h
  have h6 := h.1.1.1.2
  rw [hs] at h6
  simp only at h6
  cases hfind : before.find? (fun x => x.name == s) with
  | none => rw [hfind] at h6; cases h6
  | some x =>
    rw [hfind] at h6
    obtain ⟨nm, st, sk⟩ := x
    simp only [Bool.and_eq_true, Bool.not_eq_true'] at h6
    obtain ⟨p, rfl, _⟩ := (Accept.isIntPrim_iff st).1 h6.1.1
    have hk := Accept.plain_of_flags sk h6.1.2 h6.2
    subst hk
    have hn : nm = s := by simpa [Member.name] using List.find?_some hfind
    subst hn
    exact ⟨p, List.mem_of_find?_eq_some hfind⟩

theorem names_ne_of_uniq_p13 (before : List Member) (m : Member) (r : List Member)
    (hu : WF.uniq ((before ++ m :: r).map (·.name)) = true) : ∀ x ∈ before, x.name ≠ m.name := by
  intro x hx hn
  rw [List.map_append] at hu
  obtain ⟨_, _, h3⟩ := uniq_append_p13 _ _ hu
  exact h3 x.name (List.mem_map.2 ⟨x, hx, rfl⟩) (by rw [hn]; simp)

theorem SInv.step (all : List Member) (allv : List Val) (before : List Member) (sizers : List (String × Nat × Nat))
    (pre1 : Bytes) (n : String) (t : Ty) (k : MKind) (r : List Member) (g : MG) (v : Val)
    (hgm : g.m = .mk n t k) (hall : all = before ++ .mk n t k :: r)
    (huq : WF.uniq (all.map (·.name)) = true) (hw : wfMs all all = true) (hhall : hasMs all all allv = true)
    (hcn : v.isCounter = isSizer n all)
    (h : SInv all allv before sizers pre1) :
    SInv all allv (before ++ [.mk n t k]) (sizersAfter g (pre1.length + flagLen_p13 t k) sizers)
      (pre1 ++ Spec.render .little (Spec.fieldChunks all allv n t k v)) := by
  intro s p hm hs
  rcases List.mem_append.1 hm with hb | hb
  · obtain ⟨a, h1, h2, h3⟩ := (h.mono (Spec.render .little (Spec.fieldChunks all allv n t k v))) s p hb hs
    refine ⟨a, ?_, h2, h3⟩
    have hne : s ≠ n := by
      have := names_ne_of_uniq_p13 before (.mk n t k) r (by rw [← hall]; exact huq) _ hb
      simpa [Member.name] using this
    unfold sizersAfter
    rw [hgm]
    simp only [Member.ty, Member.kind, Member.name]
    split
    · simp only [List.lookup]
      have : (s == n) = false := by simpa using hne
      rw [this]; exact h1
    · exact h1
  · have heq : Member.mk s (.prim p) .plain = .mk n t k := by simpa using hb
    injection heq with h1 h2 h3
    subst h1; subst h2; subst h3
    have hv : v = .sizer := by
      rw [hs] at hcn
      cases v <;> simp_all [Val.isCounter]
    subst hv
    have hmem : Member.mk s (.prim p) .plain ∈ all := by rw [hall]; simp
    have hlt := counter_lt_p13 all allv huq hw hhall s p .plain hmem hs
    refine ⟨pre1.length, ?_, ?_, ?_⟩
    · unfold sizersAfter
      rw [hgm]
      simp [Member.ty, Member.kind, Member.name, List.lookup, flagLen_p13]
    · simp [Spec.fieldChunks, render_cons_p13, render_nil_p13, Spec.Chunk.render, Spec.sizeTy]
    · simp only [Spec.fieldChunks, render_cons_p13, render_nil_p13, Spec.Chunk.render, Spec.sizeTy]
      have := leRead_scalar_p13 p.size (Spec.counter s all allv + sizerShift s all) pre1 [] pre1.length rfl hlt
      simpa using this

/-! ## parts -/

theorem partition_ne_nil_p13 {α : Type} (p : α → Bool) : (l : List α) → partition p l ≠ []
  | [] => by simp [partition]
  | [x] => by simp [partition]
  | x :: y :: r => by
    have ih := partition_ne_nil_p13 p (y :: r)
    simp only [partition]
    split
    · simp
    · split <;> simp

theorem partition_cons_dyn_p13 {α : Type} (p : α → Bool) (x y : α) (r : List α) (h : p x = true) :
    partition p (x :: y :: r) = [x] :: partition p (y :: r) := by
  simp [partition, h]

theorem partition_cons_static_p13 {α : Type} (p : α → Bool) (x y : α) (r : List α) (h : p x = false) :
    ∃ hd tl, partition p (y :: r) = hd :: tl ∧ partition p (x :: y :: r) = (x :: hd) :: tl := by
  cases hp : partition p (y :: r) with
  | nil => exact absurd hp (partition_ne_nil_p13 p _)
  | cons hd tl => exact ⟨hd, tl, rfl, by simp [partition, h, hp]⟩

theorem partition_head_ne_nil_p13 {α : Type} (p : α → Bool) : (x : α) → (l : List α) → ∀ hd tl,
    partition p (x :: l) = hd :: tl → hd ≠ []
  | x, [], hd, tl, h => by
    simp [partition] at h; rw [← h.1]; simp
  | x, y :: r, hd, tl, h => by
    cases hx : p x with
    | true =>
      rw [partition_cons_dyn_p13 p x y r hx] at h
      injection h with h1 _; rw [← h1]; simp
    | false =>
      obtain ⟨hd', tl', _, h2⟩ := partition_cons_static_p13 p x y r hx
      rw [h2] at h
      injection h with h1 _; rw [← h1]; simp

theorem partition_flatten_p13 {α : Type} (p : α → Bool) : (l : List α) → (partition p l).flatten = l
  | [] => by simp [partition]
  | [x] => by simp [partition]
  | x :: y :: r => by
    have ih := partition_flatten_p13 p (y :: r)
    cases hx : p x with
    | true => rw [partition_cons_dyn_p13 p x y r hx]; simp [ih]
    | false =>
      obtain ⟨hd, tl, h1, h2⟩ := partition_cons_static_p13 p x y r hx
      rw [h2]; rw [h1] at ih
      simp only [List.flatten_cons] at ih ⊢
      rw [List.cons_append, ih]

end Raw
end Prophy

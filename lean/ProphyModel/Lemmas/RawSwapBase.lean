/- the generated raw `prophy::swap` (property C09): hypotheses, fuel measure, unfolding lemmas of the model,
   byte-buffer kernels -/
import ProphyModel.Lemmas.RawSwapLayout
import ProphyModel.Lemmas.PyRoundTrip
import ProphyModel.Properties.C09
namespace Prophy
namespace Raw
open Accept PL

/-! ## the hypotheses on the schema that the theorem needs beyond acceptance

  `namesOk`     the fields generated for a struct (members, `has_x` flags, `_paddingN` padders) have pairwise
                distinct names.  A C++ compiler rejects the generated header otherwise; in the model the swap
                addresses a member through the FIRST field of that name (`fieldOffset`), so a member called
                `has_x` next to an optional `x`, or a member called `_padding0`, is swapped at a wrong offset.
  `monoOk`      known defect D23: a part that is neither the main block nor the last part returns its end
                aligned to its OWN alignment, and only then the next part aligns to its alignment.  This is
                harmless when the part's alignment does not exceed the next part's, or when the data of the
                part's last (dynamic) member always ends on the part's alignment (its own alignment is the
                part's alignment).
  `shiftOk`     the counter holds exactly the element count (`shift = 0`, always so in prophyc output): the
                swap reads the counter and swaps that many elements.
-/

def partAlign (p : List MG) : Nat :=
  match p with
  | g :: _ => g.align
  | [] => 1

/-- alignment of the last member of a part -/
def lastAlign : List MG → Nat
  | [] => 1
  | [g] => Spec.alignMember g.m
  | _ :: r => lastAlign r

def pairOk (p q : List MG) : Bool := decide (partAlign p ≤ partAlign q) || (lastAlign p == partAlign p)

def monoParts : List (List MG) → Bool
  | p :: q :: r => pairOk p q && monoParts (q :: r)
  | _ => true

def namesOk (ms : List Member) : Bool := WF.uniq (((groupsOf ms).flatMap (·.fields)).map (·.name))
def monoOk (ms : List Member) : Bool := monoParts ((partition (fun (g : MG) => g.isDyn) (groupsOf ms)).drop 1)
def shiftOk (ms : List Member) : Bool := ms.all (fun m => m.kind.shift == 0)

mutual
  /-- the conditions hold for every struct at any depth -/
  def partsOk : Ty → Bool
    | .struct _ ms => namesOk ms && monoOk ms && shiftOk ms && partsOkMs ms
    | .union _ arms => partsOkArms arms
    | _ => true
  def partsOkMs : List Member → Bool
    | [] => true
    | .mk _ t _ :: r => partsOk t && partsOkMs r
  def partsOkArms : List Arm → Bool
    | [] => true
    | .mk _ _ t :: r => partsOk t && partsOkArms r
end

/-! ## fuel: the depth of the call tree of the model's `swapTy` on a value (the model recurses on a fuel
    counter; `Raw.swap` starts it at `4 * length + 256`) -/
mutual
  def needTy : Ty → Val → Nat
    | .struct _ ms, .struct vs => 2 + needMs ms vs
    | .union _ arms, .union idx v =>
      match arms[idx]? with
      | some (.mk _ _ t) => 1 + needTy t v
      | none => 1
    | _, _ => 1
  def needMs : List Member → List Val → Nat
    | .mk _ t _ :: r, v :: vs =>
      1 + max (match v with
               | .present x => needTy t x
               | .arr xs => needElems t xs
               | .bytes b => b.length + 1
               | .absent => 0
               | .sizer => 1
               | v => needTy t v) (needMs r vs)
    | _, _ => 0
  def needElems : Ty → List Val → Nat
    | _, [] => 1
    | t, x :: xs => 1 + max (needTy t x) (needElems t xs)
end

/-- fuel a member's own swap needs -/
def needField (t : Ty) (v : Val) : Nat :=
  match v with
  | .present x => needTy t x
  | .arr xs => needElems t xs
  | .bytes b => b.length + 1
  | .absent => 0
  | .sizer => 1
  | v => needTy t v

theorem needMs_cons (n : String) (t : Ty) (k : MKind) (r : List Member) (v : Val) (vs : List Val) :
    needMs (.mk n t k :: r) (v :: vs) = 1 + max (needField t v) (needMs r vs) := by
  cases v <;> simp [needMs, needField]

/-! ## unfolding the model -/

theorem swapTy_prim (fuel : Nat) (p : Prim) (buf : Bytes) (pos : Nat) :
    swapTy (fuel + 1) (.prim p) buf pos = (reverseAt buf pos p.size).map fun b => (b, pos + p.size) := by
  simp only [swapTy]

theorem swapTy_byte (fuel : Nat) (buf : Bytes) (pos : Nat) :
    swapTy (fuel + 1) .byte buf pos = some (buf, pos + 1) := by
  simp only [swapTy]

theorem swapTy_enum (fuel : Nat) (nm : String) (es : List (String × Nat)) (buf : Bytes) (pos : Nat) :
    swapTy (fuel + 1) (.enum nm es) buf pos = (reverseAt buf pos 4).map fun b => (b, pos + 4) := by
  simp only [swapTy]

theorem swapTy_struct (fuel : Nat) (nm : String) (ms : List Member) (buf : Bytes) (pos : Nat) :
    swapTy (fuel + 1) (.struct nm ms) buf pos =
      swapParts fuel (PL.nodeTy (.struct nm ms)).align (sizeofTy (.struct nm ms)) ((PL.nodeTy (.struct nm ms)).kind)
        (partition (fun (g : MG) => g.isDyn) (groupsOf ms)) buf pos pos [] true := by
  simp only [swapTy]

/-- what `swapTy` does on a union after the discriminator has been swapped and read -/
def unionArm (fuel : Nat) (t : Ty) (arms : List Arm) (b1 : Bytes) (pos d : Nat) : Option (Bytes × Nat) :=
  let a := (PL.nodeTy t).align
  let armPos := pos + 4 + (if a = 8 then 4 else 0)
  match arms.find? (fun arm => arm.disc = d) with
  | some arm =>
    match swapTy fuel arm.ty b1 armPos with
    | some (b2, _) => some (b2, pos + sizeofTy t)
    | none => none
  | none => some (b1, pos + sizeofTy t)

theorem swapTy_union (fuel : Nat) (nm : String) (arms : List Arm) (buf : Bytes) (pos : Nat) :
    swapTy (fuel + 1) (.union nm arms) buf pos =
      match reverseAt buf pos 4 with
      | none => none
      | some b1 =>
        match leRead b1 pos 4 with
        | none => none
        | some d => unionArm fuel (.union nm arms) arms b1 pos d := by
  simp only [swapTy]; rfl

theorem swapN_zero (fuel : Nat) (d : Bool) (t : Ty) (buf : Bytes) (pos : Nat) :
    swapN (fuel + 1) d t 0 buf pos = some (buf, pos) := by
  simp only [swapN]

theorem swapN_succ (fuel : Nat) (d : Bool) (t : Ty) (n : Nat) (buf : Bytes) (pos : Nat) :
    swapN (fuel + 1) d t (n + 1) buf pos =
      match swapTy fuel t buf pos with
      | none => none
      | some (b1, e) => swapN fuel d t n b1 (if d then e else pos + sizeofTy t) := by
  simp only [swapN]; rfl

/-- the per-member step of `swapMembers` -/
def memberStep (fuel : Nat) (g : MG) (fields : List Field) (buf : Bytes) (ppos : Nat)
    (sizers : List (String × Nat × Nat)) (isLast : Bool) : Option (Bytes × Nat) :=
  let addr := ppos + fieldOffset fields g.m.name
  let unlimitedLast := isLast && (g.kind == 2 || (match g.m.kind with | .greedy => true | _ => false))
  if unlimitedLast then some (buf, addr) else
  match g.m.kind with
  | .plain => swapTy fuel g.m.ty buf addr
  | .optional =>
    let faddr := ppos + fieldOffset fields ("has_" ++ g.m.name)
    match reverseAt buf faddr 4 with
    | none => none
    | some b1 =>
      match leRead b1 faddr 4 with
      | none => none
      | some flag => if flag ≠ 0 then (swapTy fuel g.m.ty b1 addr).map fun (b2, _) => (b2, addr) else some (b1, addr)
  | .fixed c => swapN fuel (g.kind == 1) g.m.ty c buf addr
  | .dyn s _ | .limited s _ =>
    match sizers.lookup s with
    | some (saddr, ssz) =>
      match leRead buf saddr ssz with
      | some n => swapN fuel (g.kind == 1) g.m.ty n buf addr
      | none => none
    | none => none
  | .greedy => some (buf, addr)

def sizersAfter (g : MG) (addr : Nat) (sizers : List (String × Nat × Nat)) : List (String × Nat × Nat) :=
  match g.m.ty, g.m.kind with
  | .prim p, .plain => (g.m.name, addr, p.size) :: sizers
  | _, _ => sizers

def isDynKind (k : MKind) : Bool := match k with | .dyn _ _ => true | _ => false
def isGreedyKind (k : MKind) : Bool := match k with | .greedy => true | _ => false

theorem swapMembers_cons (fuel : Nat) (g : MG) (r : List MG) (fields : List Field) (buf : Bytes) (ppos : Nat)
    (sizers : List (String × Nat × Nat)) :
    swapMembers (fuel + 1) (g :: r) fields buf ppos sizers =
      match memberStep fuel g fields buf ppos sizers r.isEmpty with
      | none => none
      | some (buf1, e) =>
        if r.isEmpty then
          some (buf1, e, sizersAfter g (ppos + fieldOffset fields g.m.name) sizers,
            g.kind == 1 || isDynKind g.m.kind, g.kind == 2 || isGreedyKind g.m.kind,
            ppos + fieldOffset fields g.m.name)
        else swapMembers fuel r fields buf1 ppos (sizersAfter g (ppos + fieldOffset fields g.m.name) sizers) := by
  simp only [swapMembers]
  rfl

/-- the rest of `swapParts` after the members of a part have been swapped -/
def finishPart (fuel salign ssize : Nat) (skind : PL.Kind) (rest : List (List MG)) (isMain : Bool)
    (palign ppos : Nat) (fields : List Field) (start : Nat) :
    Option (Bytes × Nat × List (String × Nat × Nat) × Bool × Bool × Nat) → Option (Bytes × Nat)
  | none => none
  | some (buf1, lastEnd, sizers1, lastDynamic, lastUnlimited, lastAddr) =>
    match rest with
    | [] =>
      if lastUnlimited then
        let e1 := lastAddr + padTo lastAddr (if isMain then salign else palign)
        some (buf1, e1 + padTo e1 salign)
      else if lastDynamic then
        let e1 := lastEnd + padTo lastEnd (if isMain then salign else palign)
        some (buf1, e1 + padTo e1 salign)
      else
        let e1 := ppos + (if isMain then ssize else alignUp (totalSize fields) palign)
        some (buf1, e1 + padTo e1 salign)
    | _ =>
      let e1 := if isMain then lastEnd else lastEnd + padTo lastEnd palign
      swapParts fuel salign ssize skind rest buf1 e1 start sizers1 false

def palignOf (part : List MG) (isMain : Bool) : Nat :=
  match part with
  | g :: _ => if isMain then 1 else g.align
  | [] => 1

theorem swapParts_cons (fuel salign ssize : Nat) (skind : PL.Kind) (part : List MG) (rest : List (List MG))
    (buf : Bytes) (pos start : Nat) (sizers : List (String × Nat × Nat)) (isMain : Bool) :
    swapParts (fuel + 1) salign ssize skind (part :: rest) buf pos start sizers isMain =
      finishPart fuel salign ssize skind rest isMain (palignOf part isMain) (pos + padTo pos (palignOf part isMain))
        (part.flatMap (·.fields)) start
        (swapMembers fuel part (part.flatMap (·.fields)) buf (pos + padTo pos (palignOf part isMain)) sizers) := by
  rw [swapParts.eq_def]
  rfl

/-! ## byte-buffer kernels -/

theorem render_cons_p13 (e : Endian) (c : Spec.Chunk) (r : List Spec.Chunk) :
    Spec.render e (c :: r) = c.render e ++ Spec.render e r := rfl

theorem render_nil_p13 (e : Endian) : Spec.render e [] = [] := rfl

theorem reverseAt_scalar_p13 (k n : Nat) (pre post : Bytes) (pos : Nat) (h : pre.length = pos) :
    reverseAt (pre ++ scalarBytes .big k n ++ post) pos k = some (pre ++ scalarBytes .little k n ++ post) := by
  subst h; exact C09.C09_scalar_swap k n pre post

theorem leRead_mid_p13 (pre bs post : Bytes) (pos k : Nat) (h : pre.length = pos) (hk : bs.length = k) :
    leRead (pre ++ bs ++ post) pos k = some (leVal bs) := by
  subst h; subst hk
  unfold leRead
  rw [if_pos (by simp)]
  simp [List.append_assoc]

theorem leRead_scalar_p13 (k n : Nat) (pre post : Bytes) (pos : Nat) (h : pre.length = pos) (hn : n < 256 ^ k) :
    leRead (pre ++ scalarBytes .little k n ++ post) pos k = some n := by
  rw [leRead_mid_p13 pre _ post pos k h (scalarBytes_length _ _ _)]
  simp only [scalarBytes, leVal_leBytes, Nat.mod_eq_of_lt hn]

theorem leRead_append_p13 (pre rest : Bytes) (a k : Nat) (h : a + k ≤ pre.length) :
    leRead (pre ++ rest) a k = leRead pre a k := by
  unfold leRead
  rw [if_pos h, if_pos (by simp; omega)]
  congr 1
  rw [List.drop_append_of_le_length (by omega), List.take_append_of_le_length (by simp; omega)]

theorem scalarBytes_one_p13 (n : Nat) : scalarBytes .big 1 n = scalarBytes .little 1 n := by
  simp [scalarBytes, leBytes]

theorem swapN_bytes : (n fuel : Nat) → (buf : Bytes) → (pos : Nat) → n + 1 ≤ fuel →
    swapN fuel false .byte n buf pos = some (buf, pos + n)
  | 0, fuel, buf, pos, h => by
    obtain ⟨f, rfl⟩ : ∃ f, fuel = f + 1 := ⟨fuel - 1, by omega⟩
    rw [swapN_zero]; rfl
  | n + 1, fuel, buf, pos, h => by
    obtain ⟨f, rfl⟩ : ∃ f, fuel = f + 1 := ⟨fuel - 1, by omega⟩
    obtain ⟨f', rfl⟩ : ∃ f', f = f' + 1 := ⟨f - 1, by omega⟩
    rw [swapN_succ, swapTy_byte]
    simp only [Bool.false_eq_true, if_false]
    rw [swapN_bytes n (f' + 1) buf _ (by omega)]
    simp only [sizeofTy]
    congr 2; omega

end Raw
end Prophy

/- helper lemmas for the C++ decode-of-canonical-encoding theorem (C03), part 2: per-struct facts -/
import ProphyModel.Lemmas.CppRoundTripBase
namespace Prophy
open Prophy WF Accept

/-! ### the hypotheses, member by member -/
theorem Cpp.noShiftMs_cons (n : String) (t : Ty) (k : MKind) (r : List Member) :
    Cpp.noShiftMs (.mk n t k :: r) = true ↔ k.shift = 0 ∧ Cpp.noShift t = true ∧ Cpp.noShiftMs r = true := by
  simp [Cpp.noShiftMs, and_assoc]

theorem Cpp.sizerShift_zero_p10 (s : String) : (all : List Member) → Cpp.noShiftMs all = true → sizerShift s all = 0
  | [], _ => rfl
  | .mk n t k :: r, h => by
    obtain ⟨h1, _, h3⟩ := (Cpp.noShiftMs_cons n t k r).1 h
    simp only [sizerShift]
    by_cases hk : (Member.mk n t k).kind.sizer? = some s
    · rw [if_pos hk]; exact h1
    · rw [if_neg hk]; exact Cpp.sizerShift_zero_p10 s r h3

theorem Cpp.noShiftArms_get_p10 : (arms : List Arm) → Cpp.noShiftArms arms = true → ∀ (idx : Nat) (a : Arm),
    arms[idx]? = some a → Cpp.noShift a.ty = true
  | [], _, idx, a, h => by simp at h
  | .mk n d t :: r, hw, idx, a, h => by
    simp only [Cpp.noShiftArms, Bool.and_eq_true] at hw
    cases idx with
    | zero => simp at h; subst h; exact hw.1
    | succ i => simp at h; exact Cpp.noShiftArms_get_p10 r hw.2 i a h

theorem Cpp.optMisalignedMs_cons (n : String) (t : Ty) (k : MKind) (r : List Member) :
    Cpp.optMisalignedMs (.mk n t k :: r) = false ↔
      (k = .optional → max 4 (Cpp.cppAlign t) = max 4 (PL.nodeTy t).align) ∧
      Cpp.optMisaligned t = false ∧ Cpp.optMisalignedMs r = false := by
  cases k <;> simp [Cpp.optMisalignedMs, and_assoc]

theorem Cpp.optMisalignedArms_get_p10 : (arms : List Arm) → Cpp.optMisalignedArms arms = false → ∀ (idx : Nat) (a : Arm),
    arms[idx]? = some a → Cpp.optMisaligned a.ty = false
  | [], _, idx, a, h => by simp at h
  | .mk n d t :: r, hw, idx, a, h => by
    simp only [Cpp.optMisalignedArms, Bool.or_eq_false_iff] at hw
    cases idx with
    | zero => simp at h; subst h; exact hw.1
    | succ i => simp at h; exact Cpp.optMisalignedArms_get_p10 r hw.2 i a h

theorem Cpp.resizeOkFields_cons (n : String) (t : Ty) (k : MKind) (r : List Member) (v : Val) (vs : List Val) :
    Cpp.resizeOkFields (.mk n t k :: r) (v :: vs) = true ↔
      ((∀ s, k.sizer? = some s → v.len ≤ Cpp.resizeLimit) ∧
       (k = .greedy → Cpp.codecSize t ≥ 0 → v.len ≤ Cpp.resizeLimit)) ∧
      Cpp.resizeOkTy t v = true ∧ Cpp.resizeOkFields r vs = true := by
  cases k <;> simp [Cpp.resizeOkFields, MKind.sizer?, and_assoc]
  omega

theorem Cpp.boundLens_resize_p10 (s : String) : (ms : List Member) → (vs : List Val) →
    Cpp.resizeOkFields ms vs = true → ∀ x ∈ boundLens s ms vs, x ≤ Cpp.resizeLimit
  | [], _, _, x, hx => by simp [boundLens] at hx
  | _ :: _, [], _, x, hx => by simp [boundLens] at hx
  | .mk n t k :: r, v :: vs, hg, x, hx => by
    obtain ⟨⟨h1, _⟩, _, h3⟩ := (Cpp.resizeOkFields_cons n t k r v vs).1 hg
    simp only [boundLens] at hx
    by_cases hk : (Member.mk n t k).kind.sizer? = some s
    · rw [if_pos hk] at hx
      rcases List.mem_cons.1 hx with rfl | hx'
      · exact h1 s hk
      · exact Cpp.boundLens_resize_p10 s r vs h3 x hx'
    · rw [if_neg hk] at hx
      exact Cpp.boundLens_resize_p10 s r vs h3 x hx

/-- the limit checked by `do_decode_resize` is that of the first array bound to the counter, whose
    length is the counter -/
theorem Cpp.counter_le_lim_p10 (all : List Member) (n : String) : (ms : List Member) → (vs : List Val) →
    hasMs all ms vs = true → ∀ m, ms.find? (fun m => decide (m.kind.sizer? = some n)) = some m →
    ∀ s l, m.kind = .limited s l → (boundLens n ms vs).headD 0 ≤ l
  | [], _, _, m, hm, _, _, _ => by simp at hm
  | _ :: _, [], hh, _, _, _, _, _ => by simp [hasMs] at hh
  | .mk n0 t0 k0 :: r, v :: vs, hh, m, hm, s, l, hk => by
    obtain ⟨_, hf, hhr⟩ := (hasMs_cons all n0 t0 k0 r v vs).1 hh
    simp only [List.find?] at hm
    simp only [boundLens]
    by_cases hs : (Member.mk n0 t0 k0).kind.sizer? = some n
    · simp only [hs, decide_true] at hm
      injection hm with hm
      subst hm
      rw [if_pos hs]
      have hk' : k0 = .limited s l := hk
      subst hk'
      simp only [List.headD_cons]
      cases v <;> cases t0 <;> simp_all [hasField, Val.len]
    · simp only [hs, decide_false] at hm
      rw [if_neg hs]
      exact Cpp.counter_le_lim_p10 all n r vs hhr m hm s l hk

/-- what the C++ decode of a struct needs to know about its counters -/
structure SizerDecC (all : List Member) (allv : List Val) : Prop where
  dec : ∀ n t k, Member.mk n t k ∈ all → isSizer n all = true →
    ∃ p, t = .prim p ∧ Cpp.sizerPrimOf n all = p ∧
      inRange p ((Spec.counter n all allv : Nat) : Int) = true ∧ sizerShift n all = 0 ∧
      Spec.counter n all allv ≤ Cpp.resizeLimit ∧
      (∀ m, all.find? (fun m => decide (m.kind.sizer? = some n)) = some m → ∀ s l, m.kind = .limited s l →
        Spec.counter n all allv ≤ l)

theorem sizerDecC (all : List Member) (allv : List Val)
    (hu : WF.uniq (all.map (·.name)) = true) (hw : wfMs all all = true)
    (hh : hasMs all all allv = true) (hns : Cpp.noShiftMs all = true)
    (hg : Cpp.resizeOkFields all allv = true) : SizerDecC all allv := by
  refine ⟨fun n t k hm hs => ?_⟩
  obtain ⟨p, rfl, _, hfl, hmax⟩ := WF.sizer_prim all hu hw n t k hm hs
  obtain ⟨m', hm', hs'⟩ := (isSizer_iff n all).1 hs
  have hne := boundLens_ne_nil all n all allv hh ⟨m', hm', hs'⟩
  have hmem : Spec.counter n all allv ∈ boundLens n all allv := by
    unfold Spec.counter
    cases hb : boundLens n all allv with
    | nil => exact absurd hb hne
    | cons a r => simp
  have hb := boundLens_bound all n all allv hw hh _ hmem
  obtain ⟨hlo, hhi⟩ := primRange_nonfloat p hfl
  have hsh := Cpp.sizerShift_zero_p10 n all hns
  have hf : all.find? (fun x => x.name == n) = some (.mk n (.prim p) k) := WF.uniq_find all hu _ hm
  refine ⟨p, rfl, ?_, ?_, hsh, Cpp.boundLens_resize_p10 n all allv hg _ hmem, ?_⟩
  · unfold Cpp.sizerPrimOf; rw [hf]
  · simp only [inRange, Bool.and_eq_true, decide_eq_true_eq]
    rw [hmax, hsh] at hb
    constructor <;> omega
  · intro m hfm s l hk
    exact Cpp.counter_le_lim_p10 all n all allv hh m hfm s l hk


/-! ### `codec_traits<T>::size` -/
theorem Cpp.codecSize_kind0_p10 (t : Ty) (ht : front t = true) (hk : (PL.nodeTy t).kind = 0) :
    Cpp.codecSize t = (Spec.sizeTy t : Int) := by
  have hsz := PL.nodeTy_size' t ht
  cases t with
  | prim p => rfl
  | byte => rfl
  | enum nm es => rfl
  | struct nm ms => simp only [Cpp.codecSize, hk, if_true, hsz]
  | union nm arms => simp only [Cpp.codecSize, hsz]

theorem Cpp.kind0_of_codecSize_p10 (t : Ty) (h : Cpp.codecSize t ≥ 0) : (PL.nodeTy t).kind = 0 := by
  cases t with
  | prim p => rfl
  | byte => rfl
  | enum nm es => rfl
  | struct nm ms =>
    simp only [Cpp.codecSize] at h
    by_cases hk : (PL.nodeTy (.struct nm ms)).kind = 0
    · exact hk
    · rw [if_neg hk] at h; omega
  | union nm arms => rfl

theorem PL.unl_of_kind_p10 (t : Ty) (ht : front t = true) (hk : (PL.nodeTy t).kind ≠ 2) : Spec.unlTy t = false := by
  rw [PL.nodeTy_kind' t ht] at hk
  unfold PL.specKind at hk
  cases h : Spec.unlTy t with
  | false => rfl
  | true => rw [h] at hk; simp at hk

/-! ### bytes fields -/
theorem scalarBytes_one_p10 (e : Endian) (x : UInt8) : scalarBytes e 1 x.toNat = [x] := by
  have h : x.toNat % 256 = x.toNat := Nat.mod_eq_of_lt (UInt8.toNat_lt x)
  cases e <;> simp [scalarBytes, leBytes, h]

theorem Cpp.decTy_byte_at_p10 (e : Endian) (x : UInt8) (data pre post : Bytes) (pos : Nat) (rs : List Nat)
    (hd : data = pre ++ (x :: post)) (hp : pre.length = pos) :
    Cpp.decTy e .byte data pos rs = (.ok (.int x.toNat) (pos + 1) rs, pos) := by
  have hd' : data = pre ++ (scalarBytes e 1 x.toNat ++ post) := by rw [scalarBytes_one_p10]; exact hd
  have hlt : x.toNat < 256 ^ 1 := by have := UInt8.toNat_lt x; omega
  rw [Cpp.decTy, Cpp.decScalar_at_p10 e 1 x.toNat false data pre post pos rs hd' hp hlt]
  rfl

theorem Cpp.decN_bytes_p10 (e : Endian) (data : Bytes) : (b : Bytes) → ∀ (pre post : Bytes) (pos : Nat) (rs : List Nat),
    data = pre ++ (b ++ post) → pre.length = pos →
    ∃ p, Cpp.decN (fun q r => Cpp.decTy e .byte data q r) b.length pos rs =
      (.ok (b.map fun x => Val.int x.toNat) (pos + b.length) rs, p)
  | [], pre, post, pos, rs, hd, hp => ⟨pos, by simp [Cpp.decN]⟩
  | x :: b, pre, post, pos, rs, hd, hp => by
    have h1 := Cpp.decTy_byte_at_p10 e x data pre (b ++ post) pos rs (by simpa using hd) hp
    obtain ⟨p, h2⟩ := Cpp.decN_bytes_p10 e data b (pre ++ [x]) post (pos + 1) rs (by simp [hd]) (by simp [hp])
    refine ⟨p, ?_⟩
    simp only [List.length_cons, Cpp.decN, h1, h2, List.map_cons]
    congr 2
    omega

theorem Cpp.toBytesVal_map_p10 (b : Bytes) : Cpp.toBytesVal (b.map fun x => Val.int x.toNat) = .bytes b := by
  unfold Cpp.toBytesVal
  simp only [List.map_map]
  congr 1
  induction b with
  | nil => rfl
  | cons x r ih => simp [ih]

/-! ### `decArray` once the element loop is known -/
theorem Cpp.decArray_arr_p10 (f : Nat → List Nat → Cpp.DRes Val × Nat) (t : Ty) (cnt size pos : Nat) (rs : List Nat)
    (vs : List Val) (pos1 : Nat) (rs1 : List Nat) (p : Nat)
    (hN : Cpp.decN f cnt pos rs = (.ok vs pos1 rs1, p)) (htb : t ≠ .byte)
    (hrem : Cpp.isMessage t = false → pos + cnt * (Cpp.codecSize t).toNat ≤ size) :
    Cpp.decArray f t cnt size pos rs = (.ok (.arr vs) pos1 rs1, p) := by
  unfold Cpp.decArray
  cases hm : Cpp.isMessage t with
  | true => simp only [if_true, hN]
  | false =>
    have h := hrem hm
    simp only [Bool.false_eq_true, if_false]
    have hle : (cnt * (Cpp.codecSize t).toNat) % Cpp.sizeMax ≤ cnt * (Cpp.codecSize t).toNat := Nat.mod_le _ _
    rw [Cpp.remaining_le_p10 (by omega), if_neg (by omega), hN]

theorem Cpp.decArray_bytes_p10 (f : Nat → List Nat → Cpp.DRes Val × Nat) (cnt size pos : Nat) (rs : List Nat)
    (vs : List Val) (pos1 : Nat) (rs1 : List Nat) (p : Nat)
    (hN : Cpp.decN f cnt pos rs = (.ok vs pos1 rs1, p)) (hrem : pos + cnt ≤ size) :
    Cpp.decArray f .byte cnt size pos rs = (.ok (Cpp.toBytesVal vs) pos1 rs1, p) := by
  unfold Cpp.decArray
  have hk : (Cpp.codecSize .byte).toNat = 1 := rfl
  simp only [Cpp.isMessage, Bool.false_eq_true, if_false, hk, Nat.mul_one]
  have hle : cnt % Cpp.sizeMax ≤ cnt := Nat.mod_le _ _
  rw [Cpp.remaining_le_p10 (by omega), if_neg (by omega), hN]


/-! ### a limited type does not decode from an empty rest of the buffer (the greedy loop stops there) -/
theorem Cpp.decScalar_end_p10 (e : Endian) (k : Nat) (signed : Bool) (data : Bytes) (rs : List Nat) (hk : 0 < k) :
    Cpp.decScalar e k signed data data.length rs = .fail rs := by
  unfold Cpp.decScalar
  rw [Cpp.remaining_le_p10 (Nat.le_refl _), if_pos (by omega)]

theorem PL.structMembers_cons_p10 (n : String) (t : Ty) (k : MKind) (r : List Member)
    (hf : frontMs (.mk n t k :: r) (.mk n t k :: r) [] = true) :
    ∃ a pad ls, PL.structMembers (.mk n t k :: r) = ((PL.memOf (PL.nodeTy t) k).size, a, pad) :: ls := by
  rw [PL.structMembers_eq_p10 n t k r hf]
  cases PL.bump (PL.memsOf r) (PL.endsPart (PL.memOf (PL.nodeTy t) k)) with
  | nil => exact ⟨_, _, _, rfl⟩
  | cons m r' => exact ⟨_, _, _, rfl⟩

theorem Cpp.retag_fail_p10 {α β : Type} (r : Cpp.DRes α × Nat) (g : α → β) (rs' : List Nat) (p : Nat)
    (h : r = (.fail rs', p)) : Cpp.retag r g = (.fail rs', p) := by subst h; rfl

theorem Cpp.decTy_fail_end_p10 (e : Endian) : (t : Ty) → front t = true → pyRt t = true → Spec.unlTy t = false →
    ∀ (data : Bytes) (rs : List Nat), ∃ rs' p, Cpp.decTy e t data data.length rs = (.fail rs', p)
  | .prim p, _, _, _, data, rs => by
    refine ⟨rs, data.length, ?_⟩
    rw [Cpp.decTy, Cpp.decScalar_end_p10 e _ _ data rs (Py.size_pos p)]; rfl
  | .byte, _, _, _, data, rs => by
    refine ⟨rs, data.length, ?_⟩
    rw [Cpp.decTy, Cpp.decScalar_end_p10 e _ _ data rs (by omega)]; rfl
  | .enum _ _, _, _, _, data, rs => by
    refine ⟨rs, data.length, ?_⟩
    rw [Cpp.decTy, Cpp.decScalar_end_p10 e _ _ data rs (by omega)]; rfl
  | .union nm arms, _, _, _, data, rs => by
    refine ⟨rs, data.length, ?_⟩
    rw [Cpp.decTy]
    simp only [Cpp.decScalar_end_p10 e 4 false data rs (by omega)]
  | .struct nm [], hf, _, _, _, _ => by simp [front] at hf
  | .struct nm (.mk n t k :: r), hf, hp, hu, data, rs => by
    have hfm : frontMs (.mk n t k :: r) (.mk n t k :: r) [] = true := by
      simp only [front, Bool.and_eq_true] at hf; exact hf.2
    have hpm : pyRtMs (.mk n t k :: r) (.mk n t k :: r) [] = true := by simpa [pyRt] using hp
    obtain ⟨ht, ho, hs, ha, hl, hr⟩ := frontMs_cons_playou _ n t k r [] hfm
    obtain ⟨hft, hc, _⟩ := Accept.frontMs_cons _ n t k r [] hfm
    obtain ⟨hpt, _, _, _, _, h6, _, _⟩ := (Accept.pyRtMs_cons _ n t k r []).1 hpm
    obtain ⟨a, pad, ls, hls⟩ := PL.structMembers_cons_p10 n t k r hfm
    have hstep : ∃ rs' p, Cpp.memberStep e (.mk n t k :: r) n t k (PL.memOf (PL.nodeTy t) k).size data data.length rs []
        (fun q r' => Cpp.decTy e t data q r') = (.fail rs', p) := by
      cases k with
      | plain =>
        unfold Cpp.memberStep
        by_cases hsz : isSizer n (.mk n t .plain :: r) = true
        · refine ⟨rs, data.length, ?_⟩
          simp only [hsz, if_true]
          rw [Cpp.decScalar_end_p10 e _ _ data rs (Py.size_pos _)]
        · have hut : Spec.unlTy t = false := by
            simp only [Spec.unlTy, Spec.unlMs, Bool.or_eq_false_iff] at hu; exact hu.1
          obtain ⟨rs', p, h⟩ := Cpp.decTy_fail_end_p10 e t hft hpt hut data rs
          refine ⟨rs', p, ?_⟩
          simp only [hsz, if_false, Bool.false_eq_true]
          exact Cpp.retag_fail_p10 _ _ _ _ h
      | optional =>
        refine ⟨rs, data.length, ?_⟩
        unfold Cpp.memberStep
        simp only [Cpp.decScalar_end_p10 e 4 false data rs (by omega)]
      | fixed c =>
        have hc0 := hc c rfl
        have hut : Spec.unlTy t = false := PL.unl_of_kind_p10 t hft (by have hk0 : (PL.nodeTy t).kind = 0 := hs rfl; rw [hk0]; decide)
        obtain ⟨rs', p, h⟩ := Cpp.decTy_fail_end_p10 e t hft hpt hut data rs
        obtain ⟨c', rfl⟩ : ∃ c', c = c' + 1 := ⟨c - 1, by omega⟩
        have hN : Cpp.decN (fun q r' => Cpp.decTy e t data q r') (c' + 1) data.length rs = (.fail rs', p) := by
          simp only [Cpp.decN, h]
        unfold Cpp.memberStep
        simp only
        unfold Cpp.decArray
        by_cases hm : Cpp.isMessage t = true
        · refine ⟨rs', p, ?_⟩
          simp only [hm, if_true, hN]; rfl
        · simp only [hm, if_false, Bool.false_eq_true]
          by_cases hrem : Cpp.remaining data.length data.length < (c' + 1) * (Cpp.codecSize t).toNat % Cpp.sizeMax
          · exact ⟨rs, data.length, by rw [if_pos hrem]; rfl⟩
          · exact ⟨rs', p, by rw [if_neg hrem, hN]; rfl⟩
      | dyn s sh =>
        obtain ⟨_, _, _, hfind, _⟩ := h6 s rfl
        simp at hfind
      | limited s c =>
        obtain ⟨_, _, _, hfind, _⟩ := h6 s rfl
        simp at hfind
      | greedy => simp [Spec.unlTy, Spec.unlMs] at hu
    obtain ⟨rs', p, h⟩ := hstep
    refine ⟨rs', p, ?_⟩
    rw [Cpp.decTy, hls, Cpp.decMs_cons, h]
    rfl


/-! ### a counter never exceeds the number of bytes that follow it -/
theorem Spec.len_le_clen_field_p10 (all : List Member) (allv : List Val) (n : String) (t : Ty) (k : MKind) (v : Val)
    (hft : front t = true) (hpt : pyRt t = true) (hnu : isArrayKind k = true → (Py.stTy t).unl = false)
    (hh : hasField all k t v = true) (s : String) (hk : k.sizer? = some s) :
    v.len ≤ Spec.clen (Spec.fieldChunks all allv n t k v) := by
  have hka : isArrayKind k = true := by cases k <;> simp_all [MKind.sizer?, isArrayKind]
  have hun := hnu hka
  cases v with
  | bytes b =>
    cases k <;> simp_all [MKind.sizer?, Spec.fieldChunks, Spec.clen, Spec.Chunk.len, Val.len]
  | arr xs =>
    have hel : hasElems t xs = true := by cases t <;> simp_all [hasField]
    have hposx : ∀ x ∈ xs, 0 < Spec.clen (Spec.chunksTy t x) := fun x hx =>
      Spec.clen_pos t x hft hpt hun (hasElems_mem t xs hel x hx).1 (hasElems_mem t xs hel x hx).2
    have hle := Spec.length_le_clen_elems t xs hposx
    cases k <;> simp_all [MKind.sizer?, Spec.fieldChunks, Spec.clen_append, Val.len]
    omega
  | _ => cases k <;> cases t <;> simp_all [MKind.sizer?, hasField]

theorem Spec.counter_le_clen_p10 (all : List Member) (allv : List Val) (s : String) : (ms : List Member) →
    ∀ (vs : List Val) (before : List Member) (off : Nat) (ad : Bool),
    frontMs all ms before = true → pyRtMs all ms before = true → hasMs all ms vs = true →
    lensOk all allv ms vs → (∃ m ∈ ms, m.kind.sizer? = some s) →
    Spec.counter s all allv ≤ Spec.clen (Spec.chunksMs all allv ms vs off ad)
  | [], _, _, _, _, _, _, _, _, ⟨m, hm, _⟩ => by cases hm
  | .mk n t k :: r, [], _, _, _, _, _, hh, _, _ => by simp [hasMs] at hh
  | .mk n t k :: r, v :: vs, before, off, ad, hfm, hpm, hh, hl, ⟨m, hm, hs⟩ => by
    obtain ⟨hft, _, hfr⟩ := Accept.frontMs_cons all n t k r before hfm
    obtain ⟨hpt, _, _, h4, _, _, _, hpr⟩ := (Accept.pyRtMs_cons all n t k r before).1 hpm
    obtain ⟨_, hf, hhr⟩ := (hasMs_cons all n t k r v vs).1 hh
    simp only [lensOk] at hl
    rw [Spec.chunksMs_cons]
    simp only [clen_cons, Spec.clen_append]
    rcases List.mem_cons.1 hm with rfl | hr
    · have h1 := Spec.len_le_clen_field_p10 all allv n t k v hft hpt h4 hf s hs
      rw [← hl.1 s hs]
      omega
    · have := Spec.counter_le_clen_p10 all allv s r vs (before ++ [.mk n t k])
        (off + padTo off (if ad = true then Spec.blockAlign (.mk n t k :: r) else Spec.alignMember (.mk n t k))
          + Spec.clen (Spec.fieldChunks all allv n t k v)) (Spec.endsBlock (.mk n t k)) hfr hpr hhr hl.2 ⟨m, hr, hs⟩
      omega

/-! ### a counter times the element size `do_decode_resize` divides by never exceeds the bytes that follow it -/

/-- `resizeElem` is the element size of some member bound to the counter -/
theorem Cpp.resizeElem_mem_r1 (n : String) (all : List Member) (hs : isSizer n all = true) :
    ∃ m ∈ all, m.kind.sizer? = some n ∧ Cpp.resizeElem n all = Cpp.elemSz m.ty := by
  rw [Cpp.resizeElem_eq]
  cases hf : all.find? (fun m => decide (m.kind.sizer? = some n)) with
  | none =>
    exfalso
    obtain ⟨m', hm', hs'⟩ := (isSizer_iff n all).1 hs
    have := List.find?_eq_none.1 hf m' hm'
    simp [hs'] at this
  | some m =>
    have h1 := List.mem_of_find?_eq_some hf
    have h2 := List.find?_some hf
    exact ⟨m, h1, by simpa using h2, rfl⟩

theorem Spec.len_mul_le_clen_field_r1 (all : List Member) (allv : List Val) (n : String) (t : Ty) (k : MKind) (v : Val)
    (hft : front t = true) (hpt : pyRt t = true) (hnu : isArrayKind k = true → (Py.stTy t).unl = false)
    (hh : hasField all k t v = true) (s : String) (hk : k.sizer? = some s) :
    v.len * Cpp.elemSz t ≤ Spec.clen (Spec.fieldChunks all allv n t k v) := by
  unfold Cpp.elemSz
  by_cases hc : Cpp.codecSize t > 0
  · rw [if_pos hc]
    have hkind := Cpp.kind0_of_codecSize_p10 t (by omega)
    have hfxt := PL.fixed_of_kind t hft hkind
    have hcse := Cpp.codecSize_kind0_p10 t hft hkind
    rw [hcse, Int.toNat_natCast]
    cases v with
    | bytes b =>
      have ht : t = .byte := by cases t <;> cases k <;> simp_all [hasField]
      subst ht
      cases k <;> simp_all [MKind.sizer?, Spec.fieldChunks, Spec.clen, Spec.Chunk.len, Val.len, Spec.sizeTy]
    | arr xs =>
      have hel : hasElems t xs = true := by cases t <;> simp_all [hasField]
      have hcl := fixed_elems xs t hfxt hel
      cases k <;> simp_all [MKind.sizer?, Spec.fieldChunks, Spec.clen_append, Val.len]
    | _ => cases k <;> cases t <;> simp_all [MKind.sizer?, hasField]
  · rw [if_neg hc, Nat.mul_one]
    exact Spec.len_le_clen_field_p10 all allv n t k v hft hpt hnu hh s hk

theorem Spec.counter_mul_le_clen_r1 (all : List Member) (allv : List Val) (s : String) : (ms : List Member) →
    ∀ (vs : List Val) (before : List Member) (off : Nat) (ad : Bool),
    frontMs all ms before = true → pyRtMs all ms before = true → hasMs all ms vs = true →
    lensOk all allv ms vs → ∀ m ∈ ms, m.kind.sizer? = some s →
    Spec.counter s all allv * Cpp.elemSz m.ty ≤ Spec.clen (Spec.chunksMs all allv ms vs off ad)
  | [], _, _, _, _, _, _, _, _, m, hm, _ => by cases hm
  | .mk n t k :: r, [], _, _, _, _, _, hh, _, _, _, _ => by simp [hasMs] at hh
  | .mk n t k :: r, v :: vs, before, off, ad, hfm, hpm, hh, hl, m, hm, hs => by
    obtain ⟨hft, _, hfr⟩ := Accept.frontMs_cons all n t k r before hfm
    obtain ⟨hpt, _, _, h4, _, _, _, hpr⟩ := (Accept.pyRtMs_cons all n t k r before).1 hpm
    obtain ⟨_, hf, hhr⟩ := (hasMs_cons all n t k r v vs).1 hh
    simp only [lensOk] at hl
    rw [Spec.chunksMs_cons]
    simp only [clen_cons, Spec.clen_append]
    rcases List.mem_cons.1 hm with rfl | hr
    · have h1 := Spec.len_mul_le_clen_field_r1 all allv n t k v hft hpt h4 hf s hs
      rw [← hl.1 s hs]
      simp only [Member.ty]
      omega
    · have := Spec.counter_mul_le_clen_r1 all allv s r vs (before ++ [.mk n t k])
        (off + padTo off (if ad = true then Spec.blockAlign (.mk n t k :: r) else Spec.alignMember (.mk n t k))
          + Spec.clen (Spec.fieldChunks all allv n t k v)) (Spec.endsBlock (.mk n t k)) hfr hpr hhr hl.2 m hr hs
      omega

/-- uniqueness of names is positional -/
theorem WF.uniq_not_mem_prefix_p10 (x : String) : (l1 l2 : List String) → WF.uniq (l1 ++ x :: l2) = true → x ∉ l1
  | [], _, _ => by simp
  | a :: l1, l2, h => by
    simp only [List.cons_append, WF.uniq, Bool.and_eq_true, Bool.not_eq_true'] at h
    intro hx
    rcases List.mem_cons.1 hx with rfl | hx'
    · have : (l1 ++ x :: l2).contains x = true := by simp
      rw [this] at h; cases h.1
    · exact WF.uniq_not_mem_prefix_p10 x l1 l2 h.2 hx'

/-- the chunks of a struct from the own bytes of member `n` on (no padding in front) -/
def Spec.bodyMs (all : List Member) (allv : List Val) (n : String) (t : Ty) (k : MKind) (r : List Member) :
    List Val → Nat → List Spec.Chunk
  | v :: vs, off =>
    Spec.fieldChunks all allv n t k v ++
      Spec.chunksMs all allv r vs (off + Spec.clen (Spec.fieldChunks all allv n t k v)) (Spec.endsBlock (.mk n t k))
  | [], _ => []

end Prophy

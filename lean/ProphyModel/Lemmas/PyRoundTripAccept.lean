/- consequences of `front` / `pyRt` used by the round-trip proof: unlimited types, positive sizes,
   discriminators -/
import ProphyModel.Lemmas.PyRoundTripSize
namespace Prophy
open Prophy WF Accept

theorem Accept.frontMs_cons (all : List Member) (n : String) (t : Ty) (k : MKind) (r before : List Member)
    (h : frontMs all (.mk n t k :: r) before = true) :
    front t = true ∧ (∀ c, sizeOf? k = some c → 0 < c) ∧ frontMs all r (before ++ [.mk n t k]) = true := by
  simp only [frontMs, Bool.and_eq_true] at h
  refine ⟨h.1.1.1.1.1.1.1.1, ?_, h.2⟩
  intro c hc
  have := h.1.1.1.1.2
  rw [hc] at this
  simpa using this

theorem Accept.frontArms_get : (arms : List Arm) → frontArms arms = true → ∀ (idx : Nat) (a : Arm),
    arms[idx]? = some a → front a.ty = true
  | [], _, idx, a, h => by simp at h
  | .mk n d t :: r, hw, idx, a, h => by
    simp only [frontArms, Bool.and_eq_true] at hw
    cases idx with
    | zero => simp at h; subst h; exact hw.1.1.1
    | succ i => simp at h; exact Accept.frontArms_get r hw.2 i a h

theorem Accept.pyRtArms_get : (arms : List Arm) → pyRtArms arms = true → ∀ (idx : Nat) (a : Arm),
    arms[idx]? = some a → pyRt a.ty = true ∧ (Py.stTy a.ty).dyn = false
  | [], _, idx, a, h => by simp at h
  | .mk n d t :: r, hw, idx, a, h => by
    simp only [pyRtArms, Bool.and_eq_true, Bool.not_eq_true'] at hw
    cases idx with
    | zero => simp at h; subst h; exact hw.1
    | succ i => simp at h; exact Accept.pyRtArms_get r hw.2 i a h

/-- unique discriminator strings: no earlier arm carries the same discriminator -/
theorem Accept.uniq_disc : (arms : List Arm) → Accept.uniq (arms.map (fun a => toString a.disc)) = true →
    ∀ (idx : Nat) (a : Arm), arms[idx]? = some a → ∀ (j : Nat) (b : Arm), j < idx → arms[j]? = some b → b.disc ≠ a.disc
  | [], _, idx, a, h, _, _, _, _ => by simp at h
  | hd :: r, hu, idx, a, h, j, b, hj, hb => by
    simp only [List.map, Accept.uniq, Bool.and_eq_true, Bool.not_eq_true'] at hu
    cases idx with
    | zero => omega
    | succ i =>
      simp at h
      cases j with
      | zero =>
        simp at hb; subst hb
        intro heq
        have : (r.map (fun a => toString a.disc)).contains (toString hd.disc) = true := by
          simp only [List.contains_iff_mem, List.mem_map]
          exact ⟨a, List.mem_of_getElem? h, by rw [heq]⟩
        rw [this] at hu; cases hu.1
      | succ j' =>
        simp at hb
        exact Accept.uniq_disc r hu.2 i a h j' b (by omega) hb

/-- `_get_discriminated_field` finds the arm that was encoded -/
theorem Py.decArms_pick (e : Endian) (all : List Arm) (data : Bytes) (p : Nat) (d : Nat) (an : String) (t' : Ty) :
    (arms : List Arm) → ∀ (idx0 idx : Nat), arms[idx]? = some (.mk an d t') →
    (∀ (j : Nat) (b : Arm), j < idx → arms[j]? = some b → b.disc ≠ d) →
    Py.decArms e all arms (d : Int) data p idx0 =
      (do let (v, _) ← Py.decTy e t' data p false
          pure (idx0 + idx, v))
  | [], _, idx, h, _ => by simp at h
  | .mk n0 d0 t0 :: r, idx0, idx, h, hne => by
    cases idx with
    | zero =>
      simp at h
      obtain ⟨_, rfl, rfl⟩ := h
      simp [Py.decArms]
    | succ i =>
      simp at h
      have h0 : d0 ≠ d := hne 0 (.mk n0 d0 t0) (by omega) (by simp)
      have h0' : ¬ ((d0 : Int) = (d : Int)) := by omega
      simp only [Py.decArms, if_neg h0']
      rw [Py.decArms_pick e all data p d an t' r (idx0 + 1) i h
        (fun j b hj hb => hne (j + 1) b (by omega) (by simpa using hb))]
      have : idx0 + 1 + i = idx0 + (i + 1) := by omega
      rw [this]

/-! ### unlimited types -/
mutual
  theorem Py.stTy_unl_dyn : (t : Ty) → (Py.stTy t).unl = true → (Py.stTy t).dyn = true
    | .prim _, h => by simp [Py.stTy] at h
    | .byte, h => by simp [Py.stTy] at h
    | .enum _ _, h => by simp [Py.stTy] at h
    | .union _ _, h => by simp [Py.stTy, Py.unionSt] at h
    | .struct _ ms, h => by
      simp only [Py.stTy, Py.structSt] at h ⊢
      exact Py.stMs_unl_dyn ms h
  theorem Py.stMs_unl_dyn : (ms : List Member) → (Py.stMs ms).any (·.unl) = true → (Py.stMs ms).any (·.dyn) = true
    | [], h => by simp [Py.stMs] at h
    | .mk _ t k :: r, h => by
      simp only [Py.stMs, List.any_cons, Bool.or_eq_true] at h ⊢
      rcases h with h | h
      · left
        cases k with
        | plain => exact Py.stTy_unl_dyn t h
        | optional => exact Py.stTy_unl_dyn t h
        | fixed c => simp [Py.fieldSt] at h
        | dyn s sh => simp [Py.fieldSt] at h
        | limited s c => simp [Py.fieldSt] at h
        | greedy => rfl
      · right; exact Py.stMs_unl_dyn r h
end

mutual
  theorem Accept.unl_spec : (t : Ty) → pyRt t = true → (Py.stTy t).unl = true → Spec.unlTy t = true
    | .prim _, _, h => by simp [Py.stTy] at h
    | .byte, _, h => by simp [Py.stTy] at h
    | .enum _ _, _, h => by simp [Py.stTy] at h
    | .union _ _, _, h => by simp [Py.stTy, Py.unionSt] at h
    | .struct _ ms, hp, h => by
      simp only [pyRt] at hp
      simp only [Py.stTy, Py.structSt] at h
      simp only [Spec.unlTy]
      exact Accept.unlMs_spec ms ms [] hp h
  theorem Accept.unlMs_spec (all : List Member) : (ms before : List Member) → pyRtMs all ms before = true →
      (Py.stMs ms).any (·.unl) = true → Spec.unlMs ms = true
    | [], _, _, h => by simp [Py.stMs] at h
    | .mk n t k :: r, before, hp, h => by
      obtain ⟨h1, h2, _, _, _, _, _, h8⟩ := (Accept.pyRtMs_cons all n t k r before).1 hp
      simp only [Py.stMs, List.any_cons, Bool.or_eq_true] at h
      simp only [Spec.unlMs, Bool.or_eq_true]
      rcases h with h | h
      · left
        cases k with
        | plain => exact Accept.unl_spec t h1 h
        | optional =>
          have := Py.stTy_unl_dyn t h
          rw [h2 rfl] at this; cases this
        | fixed c => simp [Py.fieldSt] at h
        | dyn s sh => simp [Py.fieldSt] at h
        | limited s c => simp [Py.fieldSt] at h
        | greedy => rfl
      · right; exact Accept.unlMs_spec all r _ h8 h
end

theorem Py.stMs_any_unl_mem (all : List Member) (n : String) (t : Ty) (k : MKind) (hm : Member.mk n t k ∈ all)
    (h : (Py.fieldSt (Py.stTy t) k).unl = true) : (Py.stMs all).any (·.unl) = true := by
  induction all with
  | nil => cases hm
  | cons a r ih =>
    obtain ⟨n', t', k'⟩ := a
    simp only [Py.stMs, List.any_cons, Bool.or_eq_true]
    rcases List.mem_cons.1 hm with heq | hr
    · injection heq with h1 h2 h3; subst h1 h2 h3; exact Or.inl h
    · exact Or.inr (ih hr)

end Prophy

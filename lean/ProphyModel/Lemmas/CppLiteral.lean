/-
  Lemmas for Properties/C14Literal.lean: the model of `_to_literal` (ProphyModel/CppLit.lean).
-/
import ProphyModel.CppLit
namespace Prophy.CppLit

/-! ### characters -/

theorem isBlankParen_cases_p29 {c : Char} (h : isBlankParen c = true) :
    c = ' ' ∨ c = '\t' ∨ c = '(' ∨ c = ')' := by
  simp only [isBlankParen, isBlank, Bool.or_eq_true, beq_iff_eq] at h
  rcases h with ((h | h) | h) | h <;> simp [h]

theorem isWord_nbp_p29 {c : Char} (h : isWord c = true) : isBlankParen c = false := by
  cases hb : isBlankParen c with
  | false => rfl
  | true =>
    rcases isBlankParen_cases_p29 hb with h1 | h1 | h1 | h1 <;> subst h1 <;> revert h <;> decide

theorem isBlank_bp_p29 {c : Char} (h : isBlank c = true) : isBlankParen c = true := by
  simp [isBlankParen, h]

theorem nbp_nblank_p29 {c : Char} (h : isBlankParen c = false) : isBlank c = false := by
  cases hb : isBlank c with
  | false => rfl
  | true => rw [isBlank_bp_p29 hb] at h; cases h

theorem isOpen_bp_p29 {c : Char} (h : isOpen c = true) : isBlankParen c = true := by
  simp only [isOpen, Bool.or_eq_true] at h
  simp only [isBlankParen, Bool.or_eq_true]
  rcases h with h | h
  · exact Or.inl (Or.inl h)
  · exact Or.inl (Or.inr h)

theorem isClose_bp_p29 {c : Char} (h : isClose c = true) : isBlankParen c = true := by
  simp only [isClose, Bool.or_eq_true] at h
  simp only [isBlankParen, Bool.or_eq_true]
  rcases h with h | h
  · exact Or.inl (Or.inl h)
  · exact Or.inr h

theorem isDec_isHex_p29 {c : Char} (h : isDec c = true) : isHex c = true := by
  simp [isHex, h]

theorem isHex_isWord_p29 {c : Char} (h : isHex c = true) : isWord c = true := by
  simp only [isHex, isWord, isDec, Bool.or_eq_true, Bool.and_eq_true, decide_eq_true_eq] at *
  left; omega

theorem isDec_isWord_p29 {c : Char} (h : isDec c = true) : isWord c = true :=
  isHex_isWord_p29 (isDec_isHex_p29 h)

theorem isX_isWord_p29 {c : Char} (h : isX c = true) : isWord c = true := by
  simp only [isX, Bool.or_eq_true, beq_iff_eq] at h
  rcases h with h | h <;> subst h <;> decide

/-- a hex digit is a Python digit below 16, and not an underscore -/
theorem isHex_pyDigit_p29 {c : Char} (h : isHex c = true) :
    pyDigit c = some (hexVal c) ∧ hexVal c < 16 ∧ (c == '_') = false := by
  refine ⟨?_, ?_, ?_⟩
  · simp only [isHex, isDec, Bool.or_eq_true, Bool.and_eq_true, decide_eq_true_eq] at h
    unfold pyDigit hexVal isDec
    rcases h with (h | h) | h
    · simp [h]
    · have h1 : ¬ (48 ≤ c.toNat ∧ c.toNat ≤ 57) := by omega
      have h2 : 97 ≤ c.toNat ∧ c.toNat ≤ 122 := by omega
      simp [h1, h2, h]
    · have h1 : ¬ (48 ≤ c.toNat ∧ c.toNat ≤ 57) := by omega
      have h2 : ¬ (97 ≤ c.toNat ∧ c.toNat ≤ 122) := by omega
      have h3 : ¬ (97 ≤ c.toNat ∧ c.toNat ≤ 102) := by omega
      have h4 : 65 ≤ c.toNat ∧ c.toNat ≤ 90 := by omega
      simp [h1, h2, h3, h4, h]
  · simp only [isHex, isDec, Bool.or_eq_true, Bool.and_eq_true, decide_eq_true_eq] at h
    unfold hexVal isDec
    rcases h with (h | h) | h
    · simp [h]; omega
    · have h1 : ¬ (48 ≤ c.toNat ∧ c.toNat ≤ 57) := by omega
      simp [h1, h]; omega
    · have h1 : ¬ (48 ≤ c.toNat ∧ c.toNat ≤ 57) := by omega
      have h3 : ¬ (97 ≤ c.toNat ∧ c.toNat ≤ 102) := by omega
      simp [h1, h3, h]; omega
  · cases hb : c == '_' with
    | false => rfl
    | true => rw [beq_iff_eq] at hb; subst hb; revert h; decide

theorem isDec_hexVal_lt_p29 {c : Char} (h : isDec c = true) : hexVal c < 10 := by
  unfold hexVal
  simp only [h, if_true]
  simp only [isDec, Bool.and_eq_true, decide_eq_true_eq] at h
  omega


/-! ### Python's digit loop on plain digits -/

theorem pyDigitsGo_plain_p29 (b : Nat) (l : List Char) :
    ∀ acc, (∀ c ∈ l, pyDigit c = some (hexVal c) ∧ hexVal c < b ∧ (c == '_') = false) →
      pyDigitsGo b acc false l = some (l.foldl (fun a c => a * b + hexVal c) acc) := by
  induction l with
  | nil => intro acc _; simp [pyDigitsGo]
  | cons c r ih =>
    intro acc h
    obtain ⟨h1, h2, h3⟩ := h c (List.mem_cons_self ..)
    simp only [pyDigitsGo, h3, h1, h2, if_true, List.foldl_cons]
    exact ih _ (fun x hx => h x (List.mem_cons_of_mem _ hx))

theorem pyDigits_plain_p29 (b : Nat) (l : List Char) (hne : l ≠ [])
    (h : ∀ c ∈ l, pyDigit c = some (hexVal c) ∧ hexVal c < b ∧ (c == '_') = false) :
    pyDigits b l = some (digitsVal b l) := by
  cases l with
  | nil => exact absurd rfl hne
  | cons c r =>
    simp only [pyDigits, (h c (List.mem_cons_self ..)).2.2]
    exact pyDigitsGo_plain_p29 b (c :: r) 0 h

theorem pyDigits_hex_p29 (l : List Char) (h : hexDigits l = true) :
    pyDigits 16 l = some (digitsVal 16 l) := by
  simp only [hexDigits, Bool.and_eq_true, Bool.not_eq_true', List.isEmpty_eq_false_iff,
    List.all_eq_true] at h
  exact pyDigits_plain_p29 16 l h.1 (fun c hc => isHex_pyDigit_p29 (h.2 c hc))

theorem pyDigits_dec_p29 (l : List Char) (hne : l ≠ []) (h : ∀ c ∈ l, isDec c = true) :
    pyDigits 10 l = some (digitsVal 10 l) := by
  refine pyDigits_plain_p29 10 l hne (fun c hc => ?_)
  have := isHex_pyDigit_p29 (isDec_isHex_p29 (h c hc))
  exact ⟨this.1, isDec_hexVal_lt_p29 (h c hc), this.2.2⟩

theorem isX_pyBase_p29 {x : Char} (h : isX x = true) : pyBase x = some 16 := by
  simp only [isX] at h
  simp [pyBase, h]

/-! ### the literal of `loneValue`: what Python and C++ make of it -/

/-- the literal is read by Python's `int(_, 0)` with the same value -/
theorem pyMag_of_litVal_p29 {lit : List Char} {n : Nat} (h : litVal lit = some n) :
    pyMag lit = some n := by
  cases lit with
  | nil => simp [litVal] at h
  | cons c r =>
    simp only [litVal] at h
    simp only [pyMag]
    by_cases hc : (c == '0') = true
    · simp only [hc, if_true] at h ⊢
      cases r with
      | nil => simpa using h
      | cons x hs =>
        simp only at h ⊢
        by_cases hx : (isX x && hexDigits hs) = true
        · simp only [hx, if_true] at h
          simp only [Bool.and_eq_true] at hx
          simp only [isX_pyBase_p29 hx.1]
          have hh := hx.2
          cases hs with
          | nil => simp [hexDigits] at hh
          | cons d t =>
            have hd : (d == '_') = false := by
              simp only [hexDigits, Bool.and_eq_true, List.all_eq_true] at hh
              exact (isHex_pyDigit_p29 (hh.2 d (List.mem_cons_self ..))).2.2
            simp only [pyPrefixed, hd]
            rw [pyDigits_hex_p29 _ hh]
            simpa using h
        · simp [hx] at h
    · simp only [hc] at h ⊢
      by_cases hd : (c :: r).all isDec = true
      · simp only [hd, if_true] at h
        rw [List.all_eq_true] at hd
        rw [pyDigits_dec_p29 _ (by simp) hd]
        simpa using h
      · simp [hd] at h

/-- the literal as the C++ compiler cuts it: hexadecimal or `0` (octal) or decimal, same value -/
theorem litBody_of_litVal_p29 {lit : List Char} {n : Nat} (h : litVal lit = some n) :
    litBody lit = some (lit.head? == some '0', n) := by
  cases lit with
  | nil => simp [litVal] at h
  | cons c r =>
    simp only [litVal] at h
    simp only [litBody, List.head?_cons]
    by_cases hc : (c == '0') = true
    · have hc' : c = '0' := by simpa using hc
      simp only [hc, if_true] at h ⊢
      cases r with
      | nil => simp at h; simp [h, hc']
      | cons x hs =>
        simp only at h ⊢
        by_cases hx : (isX x && hexDigits hs) = true
        · simp only [hx, if_true] at h
          simp only [Bool.and_eq_true] at hx
          simp only [hx.1, hx.2, if_true]
          simp at h; simp [h, hc']
        · simp [hx] at h
    · simp only [hc] at h ⊢
      by_cases hd : (c :: r).all isDec = true
      · simp only [hd, if_true] at h ⊢
        have hc' : ¬ c = '0' := by simpa using hc
        simp at h; simp [h, hc']
      · simp [hd] at h

/-- the literal consists of word characters, starts with a decimal digit -/
theorem litVal_chars_p29 {lit : List Char} {n : Nat} (h : litVal lit = some n) :
    (∃ c r, lit = c :: r ∧ isDec c = true) ∧ ∀ c ∈ lit, isHex c = true ∨ isX c = true := by
  cases lit with
  | nil => simp [litVal] at h
  | cons c r =>
    simp only [litVal] at h
    by_cases hc : (c == '0') = true
    · have hc' : c = '0' := by simpa using hc
      subst hc'
      refine ⟨⟨_, _, rfl, by decide⟩, ?_⟩
      simp only [hc, if_true] at h
      cases r with
      | nil => intro c hc; simp at hc; subst hc; left; decide
      | cons x hs =>
        simp only at h
        by_cases hx : (isX x && hexDigits hs) = true
        · simp only [Bool.and_eq_true, hexDigits, List.all_eq_true] at hx
          intro c hc
          simp only [List.mem_cons] at hc
          rcases hc with hc | hc | hc
          · subst hc; left; decide
          · subst hc; right; exact hx.1
          · left; exact hx.2.2 c hc
        · simp [hx] at h
    · simp only [hc] at h
      by_cases hd : (c :: r).all isDec = true
      · rw [List.all_eq_true] at hd
        exact ⟨⟨c, r, rfl, hd c (List.mem_cons_self ..)⟩, fun x hx => Or.inl (isDec_isHex_p29 (hd x hx))⟩
      · simp [hd] at h

theorem litVal_word_p29 {lit : List Char} {n : Nat} (h : litVal lit = some n) :
    ∀ c ∈ lit, isWord c = true := by
  intro c hc
  rcases (litVal_chars_p29 h).2 c hc with h1 | h1
  · exact isHex_isWord_p29 h1
  · exact isX_isWord_p29 h1

theorem litVal_no_u_p29 {lit : List Char} {n : Nat} (h : litVal lit = some n) :
    ∀ c ∈ lit, c ≠ 'u' ∧ c ≠ 'U' := by
  intro c hc
  rcases (litVal_chars_p29 h).2 c hc with h1 | h1
  · constructor <;> (intro e; subst e; revert h1; decide)
  · constructor <;> (intro e; subst e; revert h1; decide)

/-- `-` + the literal matches the first regular expression -/
theorem negLit_of_litVal_p29 {lit : List Char} {n : Nat} (h : litVal lit = some n) :
    negLit ('-' :: lit) = true := by
  cases lit with
  | nil => simp [litVal] at h
  | cons c r =>
    simp only [litVal] at h
    simp only [negLit, beq_self_eq_true, Bool.true_and, Bool.or_eq_true]
    by_cases hc : (c == '0') = true
    · simp only [hc, if_true] at h
      cases r with
      | nil =>
        right
        have hc' : c = '0' := by simpa using hc
        subst hc'; decide
      | cons x hs =>
        simp only at h
        by_cases hx : (isX x && hexDigits hs) = true
        · left; simp only [hexLit, hc, Bool.true_and]; exact hx
        · simp [hx] at h
    · simp only [hc] at h
      by_cases hd : (c :: r).all isDec = true
      · right; simp only [decDigits, hd, Bool.and_true]; simp
      · simp [hd] at h


/-! ### lists -/

theorem dropWhile_all_append_p29 {p : Char → Bool} (l t : List Char) (h : ∀ c ∈ l, p c = true) :
    (l ++ t).dropWhile p = t.dropWhile p := by
  induction l with
  | nil => rfl
  | cons c r ih =>
    have hc := h c (List.mem_cons_self ..)
    simp only [List.cons_append, List.dropWhile_cons, hc, if_true]
    exact ih (fun x hx => h x (List.mem_cons_of_mem _ hx))

theorem takeWhile_all_append_p29 {p : Char → Bool} (l t : List Char) (h : ∀ c ∈ l, p c = true) :
    (l ++ t).takeWhile p = l ++ t.takeWhile p := by
  induction l with
  | nil => rfl
  | cons c r ih =>
    have hc := h c (List.mem_cons_self ..)
    simp only [List.cons_append, List.takeWhile_cons, hc, if_true]
    rw [ih (fun x hx => h x (List.mem_cons_of_mem _ hx))]

theorem mem_takeWhile_p29 {p : Char → Bool} (l : List Char) : ∀ c ∈ l.takeWhile p, p c = true := by
  induction l with
  | nil => intro c hc; simp at hc
  | cons a r ih =>
    intro c hc
    simp only [List.takeWhile_cons] at hc
    by_cases ha : p a = true
    · simp only [ha, if_true, List.mem_cons] at hc
      rcases hc with hc | hc
      · subst hc; exact ha
      · exact ih c hc
    · simp [ha] at hc

theorem dropWhile_head_p29 {p : Char → Bool} (l : List Char) {c : Char} {r : List Char}
    (h : l.dropWhile p = c :: r) : p c = false := by
  induction l with
  | nil => simp at h
  | cons a t ih =>
    simp only [List.dropWhile_cons] at h
    by_cases ha : p a = true
    · simp only [ha, if_true] at h; exact ih h
    · simp only [ha] at h
      simp only [Bool.false_eq_true, if_false, List.cons.injEq] at h
      rw [← h.1]; simpa using ha

theorem dropWhile_id_p29 {p : Char → Bool} {c : Char} (r : List Char) (h : p c = false) :
    (c :: r).dropWhile p = c :: r := by
  simp [h]

/-! ### `bare` and `strip` -/

theorem bare_append_p29 (a b : List Char) : bare (a ++ b) = bare a ++ bare b := by
  simp [bare]

theorem bare_self_p29 {l : List Char} (h : ∀ c ∈ l, isBlankParen c = false) : bare l = l := by
  rw [bare, List.filter_eq_self]
  intro a ha; simp [h a ha]

theorem bare_nil_p29 {l : List Char} (h : ∀ c ∈ l, isBlankParen c = true) : bare l = [] := by
  rw [bare, List.filter_eq_nil_iff]
  intro a ha; simp [h a ha]

theorem bare_lstrip_p29 (l : List Char) : bare (l.dropWhile isBlank) = bare l := by
  induction l with
  | nil => rfl
  | cons c r ih =>
    simp only [List.dropWhile_cons]
    by_cases hc : isBlank c = true
    · simp only [hc, if_true, ih]
      simp [bare, isBlank_bp_p29 hc]
    · simp [hc]

theorem bare_rstrip_p29 (l : List Char) : bare (rstrip l) = bare l := by
  induction l with
  | nil => rfl
  | cons c r ih =>
    simp only [rstrip]
    by_cases hc : (isBlank c && (rstrip r).isEmpty) = true
    · simp only [hc, if_true]
      simp only [Bool.and_eq_true, List.isEmpty_iff] at hc
      rw [hc.2] at ih
      simp only [bare, List.filter_cons, isBlank_bp_p29 hc.1] at ih ⊢
      simpa using ih
    · simp only [hc]
      simp only [bare] at ih
      simp only [bare, Bool.false_eq_true, if_false, List.filter_cons, ih]

theorem bare_strip_p29 (l : List Char) : bare (strip l) = bare l := by
  rw [strip, bare_rstrip_p29, bare_lstrip_p29]

theorem rstrip_noblank_p29 {l : List Char} (h : ∀ c ∈ l, isBlank c = false) : rstrip l = l := by
  induction l with
  | nil => rfl
  | cons c r ih =>
    simp only [rstrip, h c (List.mem_cons_self ..), Bool.false_and]
    simp [ih (fun x hx => h x (List.mem_cons_of_mem _ hx))]

theorem strip_noblank_p29 {l : List Char} (h : ∀ c ∈ l, isBlank c = false) : strip l = l := by
  rw [strip]
  cases l with
  | nil => rfl
  | cons c r =>
    rw [dropWhile_id_p29 r (h c (List.mem_cons_self ..))]
    exact rstrip_noblank_p29 h

/-! ### `str(number)` -/

theorem hexVal_digitChar_p29 : ∀ d, d < 10 → hexVal (digitChar d) = d ∧ isDec (digitChar d) = true ∧
    (0 < d → (digitChar d == '0') = false) := by
  decide

theorem digitsVal_snoc_p29 (b : Nat) (l : List Char) (c : Char) :
    digitsVal b (l ++ [c]) = digitsVal b l * b + hexVal c := by
  simp [digitsVal, List.foldl_append]

theorem natDigitsF_spec_p29 (f : Nat) : ∀ n, n < 2 ^ (f + 1) →
    ∃ c r, natDigitsF f n = c :: r ∧ (0 < n → (c == '0') = false) ∧
      (∀ x ∈ c :: r, isDec x = true) ∧ digitsVal 10 (c :: r) = n := by
  induction f with
  | zero =>
    intro n hn
    have hn' : n < 10 := by omega
    have hm : n % 10 = n := by omega
    obtain ⟨h1, h2, h3⟩ := hexVal_digitChar_p29 n hn'
    refine ⟨digitChar n, [], by simp [natDigitsF, hm], h3, ?_, ?_⟩
    · intro x hx; simp at hx; subst hx; exact h2
    · simp [digitsVal, h1]
  | succ f ih =>
    intro n hn
    by_cases h10 : n < 10
    · obtain ⟨h1, h2, h3⟩ := hexVal_digitChar_p29 n h10
      refine ⟨digitChar n, [], by simp [natDigitsF, h10], h3, ?_, ?_⟩
      · intro x hx; simp at hx; subst hx; exact h2
      · simp [digitsVal, h1]
    · have hp : 2 ^ (f + 1 + 1) = 2 ^ (f + 1) * 2 := Nat.pow_succ ..
      have hq : n / 10 < 2 ^ (f + 1) := by omega
      obtain ⟨c, r, e, hz, hd, hv⟩ := ih (n / 10) hq
      obtain ⟨h1, h2, _⟩ := hexVal_digitChar_p29 (n % 10) (by omega)
      refine ⟨c, r ++ [digitChar (n % 10)], by simp [natDigitsF, h10, e], ?_, ?_, ?_⟩
      · intro _; exact hz (by omega)
      · intro x hx
        rw [← List.cons_append, List.mem_append] at hx
        rcases hx with hx | hx
        · exact hd x hx
        · simp at hx; subst hx; exact h2
      · rw [← List.cons_append, digitsVal_snoc_p29, hv, h1]; omega

theorem natToDigits_spec_p29 (n : Nat) :
    ∃ c r, natToDigits n = c :: r ∧ (0 < n → (c == '0') = false) ∧
      (∀ x ∈ c :: r, isDec x = true) ∧ digitsVal 10 (c :: r) = n :=
  natDigitsF_spec_p29 _ n Nat.lt_log2_self

/-- the decimal rendering of a positive number is a decimal literal of that value for the C++ compiler -/
theorem litBody_natToDigits_p29 (n : Nat) (hn : 0 < n) :
    litBody (natToDigits n) = some (false, n) ∧ (∀ x ∈ natToDigits n, isDec x = true) := by
  obtain ⟨c, r, e, hz, hd, hv⟩ := natToDigits_spec_p29 n
  rw [e]
  refine ⟨?_, hd⟩
  have hall : (c :: r).all isDec = true := by rw [List.all_eq_true]; exact hd
  simp only [litBody, hz hn, hall, hv]
  simp


/-! ### the C++ reader on the rendered forms -/

theorem readLit_plain_p29 {l : List Char} (hu : ∀ c ∈ l, c ≠ 'u' ∧ c ≠ 'U') :
    readLit l = match litBody l with
      | none => none
      | some (nd, n) => (litType nd false n).map (fun t => (t, (n : Int))) := by
  have hl : (l.getLast? == some 'u' || l.getLast? == some 'U') = false := by
    cases hg : l.getLast? with
    | none => rfl
    | some c =>
      have := hu c (List.mem_of_getLast? hg)
      simp [this.1, this.2]
  simp only [readLit, hl]
  rfl

theorem readLit_u_p29 (l : List Char) :
    readLit (l ++ ['u']) = match litBody l with
      | none => none
      | some (nd, n) => (litType nd true n).map (fun t => (t, (n : Int))) := by
  simp only [readLit, List.getLast?_concat, List.dropLast_concat]
  rfl

theorem isDec_no_u_p29 {l : List Char} (h : ∀ c ∈ l, isDec c = true) : ∀ c ∈ l, c ≠ 'u' ∧ c ≠ 'U' := by
  intro c hc
  have := h c hc
  constructor <;> (intro e; subst e; revert this; decide)

theorem word_nblank_p29 {c : Char} (h : isWord c = true) : isBlank c = false :=
  nbp_nblank_p29 (isWord_nbp_p29 h)

theorem readSigned_neg_p29 {c : Char} (r : List Char) (hc : isWord c = true) :
    readSigned ('-' :: c :: r) =
      (readLit (c :: r)).bind (fun (t, v) => (cneg t v).map (fun w => (t, w))) := by
  have h1 : isBlank '-' = false := by decide
  simp only [readSigned, dropWhile_id_p29 _ h1, dropWhile_id_p29 _ (word_nblank_p29 hc)]
  simp

theorem readSigned_pos_p29 {c : Char} (r : List Char) (hc : isWord c = true) :
    readSigned ('+' :: c :: r) = readLit (c :: r) := by
  have h1 : isBlank '+' = false := by decide
  simp only [readSigned, dropWhile_id_p29 _ h1, dropWhile_id_p29 _ (word_nblank_p29 hc)]
  simp

theorem readSigned_plain_p29 {c : Char} (r : List Char) (hc : isWord c = true) :
    readSigned (c :: r) = readLit (c :: r) := by
  have h1 : (c == '-') = false := by
    cases hb : c == '-' with
    | false => rfl
    | true => rw [beq_iff_eq] at hb; subst hb; revert hc; decide
  have h2 : (c == '+') = false := by
    cases hb : c == '+' with
    | false => rfl
    | true => rw [beq_iff_eq] at hb; subst hb; revert hc; decide
  simp only [readSigned, dropWhile_id_p29 _ (word_nblank_p29 hc), h1, h2]
  simp

theorem cppRead_noparen_p29 {c : Char} (r : List Char) (hc : (c == '(') = false) :
    cppRead (c :: r) = (readSigned (c :: r)).map (fun p => p.2) := by
  simp only [cppRead, hc]
  simp

theorem word_noparen_p29 {c : Char} (hc : isWord c = true) : (c == '(') = false := by
  cases hb : c == '(' with
  | false => rfl
  | true => rw [beq_iff_eq] at hb; subst hb; revert hc; decide


/-! ### `int(text, 0)` refuses blanks and parentheses inside -/

theorem bp_pyDigit_p29 {c : Char} (hb : isBlankParen c = true) : pyDigit c = none ∧ pyBase c = none := by
  rcases isBlankParen_cases_p29 hb with h1 | h1 | h1 | h1 <;> subst h1 <;> decide

theorem pyDigit_nbp_p29 {c : Char} {d : Nat} (h : pyDigit c = some d) : isBlankParen c = false := by
  cases hb : isBlankParen c with
  | false => rfl
  | true => rw [(bp_pyDigit_p29 hb).1] at h; cases h

theorem us_nbp_p29 {c : Char} (h : (c == '_') = true) : isBlankParen c = false := by
  rw [beq_iff_eq] at h; subst h; decide

theorem pyDigitsGo_nbp_p29 (b : Nat) (l : List Char) :
    ∀ acc us n, pyDigitsGo b acc us l = some n → ∀ c ∈ l, isBlankParen c = false := by
  induction l with
  | nil => intro _ _ _ _ c hc; simp at hc
  | cons a r ih =>
    intro acc us n h c hc
    simp only [pyDigitsGo] at h
    have hr : ∀ acc us n, pyDigitsGo b acc us r = some n → c ∈ r → isBlankParen c = false :=
      fun acc us n h' hc' => ih acc us n h' c hc'
    rw [List.mem_cons] at hc
    by_cases ha : (a == '_') = true
    · simp only [ha, if_true] at h
      rcases hc with hc | hc
      · subst hc; exact us_nbp_p29 ha
      · cases us with
        | true => simp at h
        | false => exact hr _ _ _ h hc
    · simp only [ha] at h
      cases hd : pyDigit a with
      | none => simp [hd] at h
      | some d =>
        simp only [hd] at h
        rcases hc with hc | hc
        · subst hc; exact pyDigit_nbp_p29 hd
        · by_cases hlt : d < b
          · simp only [hlt, if_true] at h; exact hr _ _ _ (by simpa using h) hc
          · simp [hlt] at h

theorem pyDigits_nbp_p29 (b : Nat) (l : List Char) (n : Nat) (h : pyDigits b l = some n) :
    ∀ c ∈ l, isBlankParen c = false := by
  cases l with
  | nil => simp [pyDigits] at h
  | cons a r =>
    simp only [pyDigits] at h
    by_cases ha : (a == '_') = true
    · simp [ha] at h
    · simp only [ha] at h
      exact pyDigitsGo_nbp_p29 b _ _ _ _ (by simpa using h)

theorem pyPrefixed_nbp_p29 (b : Nat) (l : List Char) (n : Nat) (h : pyPrefixed b l = some n) :
    ∀ c ∈ l, isBlankParen c = false := by
  cases l with
  | nil => simp [pyPrefixed] at h
  | cons a r =>
    simp only [pyPrefixed] at h
    by_cases ha : (a == '_') = true
    · simp only [ha, if_true] at h
      intro c hc
      rw [List.mem_cons] at hc
      rcases hc with hc | hc
      · subst hc; exact us_nbp_p29 ha
      · exact pyDigits_nbp_p29 b _ _ h c hc
    · simp only [ha] at h
      exact pyDigits_nbp_p29 b _ _ (by simpa using h)

theorem pyBase_nbp_p29 {x : Char} {b : Nat} (h : pyBase x = some b) : isBlankParen x = false := by
  cases hb : isBlankParen x with
  | false => rfl
  | true => rw [(bp_pyDigit_p29 hb).2] at h; cases h

theorem pyMag_nbp_p29 (l : List Char) (n : Nat) (h : pyMag l = some n) :
    ∀ c ∈ l, isBlankParen c = false := by
  cases l with
  | nil => simp [pyMag] at h
  | cons a r =>
    simp only [pyMag] at h
    by_cases ha : (a == '0') = true
    · have ha' : a = '0' := by simpa using ha
      simp only [ha, if_true] at h
      cases r with
      | nil => intro c hc; simp at hc; subst hc; subst ha'; decide
      | cons x hs =>
        simp only at h
        cases hb : pyBase x with
        | some b =>
          simp only [hb] at h
          intro c hc
          simp only [List.mem_cons] at hc
          rcases hc with hc | hc | hc
          · subst hc; subst ha'; decide
          · subst hc; exact pyBase_nbp_p29 hb
          · exact pyPrefixed_nbp_p29 b _ _ h c hc
        | none =>
          simp only [hb] at h
          cases hd : pyDigits 10 (a :: x :: hs) with
          | none => simp [hd] at h
          | some m => exact pyDigits_nbp_p29 10 _ _ hd
    · simp only [ha] at h
      exact pyDigits_nbp_p29 10 _ _ (by simpa using h)

/-- `int(text, 0)` succeeds only when the text without its surrounding blanks has no blank and no parenthesis -/
theorem pyInt0_nbp_p29 (cs : List Char) (k : Int) (h : pyInt0 cs = some k) :
    ∀ c ∈ strip cs, isBlankParen c = false := by
  simp only [pyInt0] at h
  cases hs : strip cs with
  | nil => simp [hs] at h
  | cons a r =>
    simp only [hs] at h
    intro c hc
    rw [List.mem_cons] at hc
    by_cases h1 : (a == '-') = true
    · simp only [h1, if_true] at h
      rcases hc with hc | hc
      · subst hc; rw [beq_iff_eq] at h1; subst h1; decide
      · cases hm : pyMag r with
        | none => simp [hm] at h
        | some m => exact pyMag_nbp_p29 _ _ hm c hc
    · simp only [h1] at h
      by_cases h2 : (a == '+') = true
      · simp only [h2, if_true] at h
        rcases hc with hc | hc
        · subst hc; rw [beq_iff_eq] at h2; subst h2; decide
        · cases hm : pyMag r with
          | none => simp [hm] at h
          | some m => exact pyMag_nbp_p29 _ _ hm c hc
      · simp only [h2] at h
        cases hm : pyMag (a :: r) with
        | none => simp [hm] at h
        | some m => exact pyMag_nbp_p29 _ _ hm c (List.mem_cons.mpr hc)


/-! ### the anatomy of a lone literal text -/

theorem isPre_sign_p29 {c : Char} (h : isPre c = true) (hb : isBlankParen c = false) : c = '-' ∨ c = '+' := by
  simp only [isPre, Bool.or_eq_true, beq_iff_eq] at h
  rcases h with (h | h) | h
  · rw [isOpen_bp_p29 h] at hb; cases hb
  · exact Or.inl h
  · exact Or.inr h

theorem isPre_open_p29 {c : Char} (h : isPre c = true) (hb : isBlankParen c = true) : isOpen c = true := by
  simp only [isPre, Bool.or_eq_true, beq_iff_eq] at h
  rcases h with (h | h) | h
  · exact h
  · subst h; revert hb; decide
  · subst h; revert hb; decide

theorem isDec_not_sign_p29 {c : Char} (h : isDec c = true) : (c == '-') = false ∧ (c == '+') = false := by
  constructor
  · cases hb : c == '-' with
    | false => rfl
    | true => rw [beq_iff_eq] at hb; subst hb; revert h; decide
  · cases hb : c == '+' with
    | false => rfl
    | true => rw [beq_iff_eq] at hb; subst hb; revert h; decide

/-- `loneValue cs = some v`: the text is `pre ++ lit ++ post`, `pre` of blanks, `(` and at most one sign, `lit` the
    literal of value `n`, `post` of blanks and `)`; `v` is `n` with the sign -/
theorem lone_anatomy_p29 {cs : List Char} {v : Int} (h : loneValue cs = some v) :
    ∃ pre lit post n, cs = pre ++ (lit ++ post) ∧ (∀ c ∈ pre, isPre c = true) ∧ litVal lit = some n ∧
      (∀ c ∈ post, isClose c = true) ∧ balanced cs = true ∧
      ((bare pre = ['-'] ∧ v = -(n : Int)) ∨ ((bare pre = [] ∨ bare pre = ['+']) ∧ v = (n : Int))) := by
  simp only [loneValue] at h
  by_cases hc : (balanced cs && loneShape cs) = true
  · simp only [hc, if_true] at h
    simp only [Bool.and_eq_true, loneShape, Bool.not_eq_true', List.isEmpty_eq_false_iff,
      List.all_eq_true] at hc
    obtain ⟨hbal, hne, hpost⟩ := hc
    have e1 : cs = cs.takeWhile isPre ++ ((cs.dropWhile isPre).takeWhile isWord ++
        (cs.dropWhile isPre).dropWhile isWord) := by
      rw [List.takeWhile_append_dropWhile, List.takeWhile_append_dropWhile]
    generalize hpre : cs.takeWhile isPre = pre at e1
    generalize hlit : (cs.dropWhile isPre).takeWhile isWord = lit at e1 hne
    generalize hpo : (cs.dropWhile isPre).dropWhile isWord = post at e1 hpost
    have hpreall : ∀ c ∈ pre, isPre c = true := by rw [← hpre]; exact mem_takeWhile_p29 _
    have hlitall : ∀ c ∈ lit, isWord c = true := by rw [← hlit]; exact mem_takeWhile_p29 _
    have hb : bare cs = bare pre ++ lit := by
      rw [e1, bare_append_p29, bare_append_p29,
        bare_self_p29 (fun c hc => isWord_nbp_p29 (hlitall c hc)),
        bare_nil_p29 (fun c hc => isClose_bp_p29 (hpost c hc))]
      simp
    rw [hb] at h
    have hsg : ∀ c ∈ bare pre, c = '-' ∨ c = '+' := by
      intro c hc
      simp only [bare, List.mem_filter, Bool.not_eq_true'] at hc
      exact isPre_sign_p29 (hpreall c hc.1) hc.2
    -- the literal starts with a word character that is no sign
    obtain ⟨l0, lr, hl0⟩ : ∃ l0 lr, lit = l0 :: lr := by
      cases lit with
      | nil => exact absurd rfl hne
      | cons a b => exact ⟨a, b, rfl⟩
    have hw0 : isWord l0 = true := hlitall l0 (by rw [hl0]; exact List.mem_cons_self ..)
    have hl0m : (l0 == '-') = false := by
      cases hb : l0 == '-' with
      | false => rfl
      | true => rw [beq_iff_eq] at hb; subst hb; revert hw0; decide
    have hl0p : (l0 == '+') = false := by
      cases hb : l0 == '+' with
      | false => rfl
      | true => rw [beq_iff_eq] at hb; subst hb; revert hw0; decide
    cases hsgn : bare pre with
    | nil =>
      rw [hsgn, List.nil_append, hl0] at h
      simp only [signedLit, hl0m, hl0p] at h
      rw [← hl0] at h
      cases hn : litVal lit with
      | none => simp [hn] at h
      | some n =>
        simp [hn] at h
        exact ⟨pre, lit, post, n, e1, hpreall, hn, hpost, hbal, Or.inr ⟨Or.inl hsgn, h.symm⟩⟩
    | cons s t =>
      rw [hsgn] at h hsg
      have hs := hsg s (List.mem_cons_self ..)
      -- a second sign cannot start a literal
      have ht : t = [] := by
        cases t with
        | nil => rfl
        | cons s2 t2 =>
          exfalso
          have hs2 := hsg s2 (List.mem_cons_of_mem _ (List.mem_cons_self ..))
          have key : ∀ m, litVal (s2 :: (t2 ++ lit)) = some m → False := by
            intro m hm
            obtain ⟨⟨c, r, e, hd⟩, _⟩ := litVal_chars_p29 hm
            simp only [List.cons.injEq] at e
            rw [← e.1] at hd
            rcases hs2 with e2 | e2 <;> subst e2 <;> revert hd <;> decide
          rcases hs with e | e
          · subst e
            simp only [signedLit, List.cons_append, beq_self_eq_true, if_true] at h
            cases hm : litVal (s2 :: (t2 ++ lit)) with
            | none => simp [hm] at h
            | some m => exact key m hm
          · subst e
            have : ('+' == '-') = false := by decide
            simp only [signedLit, List.cons_append, this, beq_self_eq_true, if_true] at h
            cases hm : litVal (s2 :: (t2 ++ lit)) with
            | none => simp [hm] at h
            | some m => exact key m hm
      subst ht
      rcases hs with e | e
      · subst e
        simp only [signedLit, List.cons_append, List.nil_append, beq_self_eq_true, if_true] at h
        cases hn : litVal lit with
        | none => simp [hn] at h
        | some n =>
          simp [hn] at h
          exact ⟨pre, lit, post, n, e1, hpreall, hn, hpost, hbal, Or.inl ⟨hsgn, h.symm⟩⟩
      · subst e
        have : ('+' == '-') = false := by decide
        simp only [signedLit, List.cons_append, List.nil_append, this, beq_self_eq_true, if_true] at h
        cases hn : litVal lit with
        | none => simp [hn] at h
        | some n =>
          simp [hn] at h
          exact ⟨pre, lit, post, n, e1, hpreall, hn, hpost, hbal, Or.inr ⟨Or.inr hsgn, h.symm⟩⟩
  · simp [hc] at h

/-- with the one sign `-`, the text matches the second regular expression -/
theorem shape_pre_p29 (pre : List Char) (hpre : ∀ c ∈ pre, isPre c = true) (hb : bare pre = ['-'])
    (tail : List Char) :
    ∃ X, (pre ++ tail).dropWhile isOpen = '-' :: X ∧ X.dropWhile isOpen = tail.dropWhile isOpen := by
  induction pre with
  | nil => simp [bare] at hb
  | cons c t ih =>
    have hc := hpre c (List.mem_cons_self ..)
    have ht : ∀ x ∈ t, isPre x = true := fun x hx => hpre x (List.mem_cons_of_mem _ hx)
    by_cases hbp : isBlankParen c = true
    · have ho := isPre_open_p29 hc hbp
      have hb' : bare t = ['-'] := by
        simp only [bare, List.filter_cons, hbp] at hb
        simpa [bare] using hb
      obtain ⟨X, h1, h2⟩ := ih ht hb'
      refine ⟨X, ?_, h2⟩
      simp only [List.cons_append, List.dropWhile_cons, ho, if_true]
      exact h1
    · have hbp' : isBlankParen c = false := by simpa using hbp
      have hb' : c = '-' ∧ bare t = [] := by
        simp only [bare, List.filter_cons, hbp'] at hb
        simpa [bare] using hb
      obtain ⟨e, hbt⟩ := hb'
      subst e
      have hno : isOpen '-' = false := by decide
      refine ⟨t ++ tail, by simp [hno], ?_⟩
      apply dropWhile_all_append_p29
      intro x hx
      have : isBlankParen x = true := by
        have := (List.filter_eq_nil_iff.mp hbt) x hx
        simpa using this
      exact isPre_open_p29 (ht x hx) this

theorem shape_of_lone_neg_p29 {pre lit post : List Char} {n : Nat} (hpre : ∀ c ∈ pre, isPre c = true)
    (hb : bare pre = ['-']) (hl : litVal lit = some n) (hpost : ∀ c ∈ post, isClose c = true) :
    shape (pre ++ (lit ++ post)) = true := by
  obtain ⟨X, h1, h2⟩ := shape_pre_p29 pre hpre hb (lit ++ post)
  obtain ⟨⟨c, r, e, hd⟩, _⟩ := litVal_chars_p29 hl
  have hw := litVal_word_p29 hl
  have hco : isOpen c = false := by
    cases ho : isOpen c with
    | false => rfl
    | true =>
      have := isWord_nbp_p29 (isDec_isWord_p29 hd)
      rw [isOpen_bp_p29 ho] at this; cases this
  have h3 : (lit ++ post).dropWhile isOpen = lit ++ post := by
    rw [e, List.cons_append]; exact dropWhile_id_p29 _ hco
  -- after the literal comes no word character
  have hpw : post.takeWhile isWord = [] ∧ post.dropWhile isWord = post := by
    cases post with
    | nil => exact ⟨rfl, rfl⟩
    | cons a b =>
      have ha : isWord a = false := by
        cases hwa : isWord a with
        | false => rfl
        | true =>
          have := isWord_nbp_p29 hwa
          rw [isClose_bp_p29 (hpost a (List.mem_cons_self ..))] at this; cases this
      simp [ha]
  simp only [shape, h1, h2, h3, beq_self_eq_true, Bool.true_and]
  rw [takeWhile_all_append_p29 _ _ hw, dropWhile_all_append_p29 _ _ hw, hpw.1, hpw.2]
  simp only [List.append_nil, Bool.and_eq_true, Bool.not_eq_true', List.isEmpty_eq_false_iff,
    List.all_eq_true]
  exact ⟨by rw [e]; simp, hpost⟩


/-! ### `toLiteral` in two steps -/

/-- the text `int()` is applied to -/
def valueOf (cs : List Char) : List Char :=
  if negLit (bare cs) && shape cs && balanced cs then bare cs else cs

/-- the rendering of that text -/
def renderOf (value : List Char) : List Char :=
  match pyInt0 value with
  | none => value
  | some number =>
    if number < 0 then
      (if number = -(2 ^ 63 : Int) then '(' :: (intStr (number + 1) ++ " - 1)".toList) else intStr number)
    else strip value ++ (if number > 0 then ['u'] else [])

theorem toLiteral_eq_p29 (cs : List Char) : toLiteral cs = renderOf (valueOf cs) := rfl

theorem readLit_lit_p29 {lit : List Char} {n : Nat} (hl : litVal lit = some n) :
    readLit lit = (litType (lit.head? == some '0') false n).map (fun t => (t, (n : Int))) := by
  rw [readLit_plain_p29 (litVal_no_u_p29 hl), litBody_of_litVal_p29 hl]

theorem readLit_lit_u_p29 {lit : List Char} {n : Nat} (hl : litVal lit = some n) :
    readLit (lit ++ ['u']) = (litType (lit.head? == some '0') true n).map (fun t => (t, (n : Int))) := by
  rw [readLit_u_p29, litBody_of_litVal_p29 hl]

theorem litType_zero_p29 (b : Bool) : litType b false 0 = some .int := by
  cases b <;> decide

/-- `int("-literal", 0)` is minus the literal's value -/
theorem pyInt0_neg_lit_p29 {lit : List Char} {n : Nat} (hl : litVal lit = some n) :
    pyInt0 ('-' :: lit) = some (-(n : Int)) := by
  have hw := litVal_word_p29 hl
  have hnb : ∀ c ∈ '-' :: lit, isBlank c = false := by
    intro c hc
    rw [List.mem_cons] at hc
    rcases hc with hc | hc
    · subst hc; decide
    · exact word_nblank_p29 (hw c hc)
  simp only [pyInt0, strip_noblank_p29 hnb, beq_self_eq_true, if_true, pyMag_of_litVal_p29 hl]
  rfl

/-- `int(text, 0)` of a text that is, blanks stripped, the literal or `+` and the literal -/
theorem pyInt0_pos_lit_p29 {cs lit sg : List Char} {n : Nat} (hl : litVal lit = some n)
    (hs : strip cs = sg ++ lit) (hsg : sg = [] ∨ sg = ['+']) :
    pyInt0 cs = some (n : Int) := by
  obtain ⟨⟨c, r, e, hd⟩, _⟩ := litVal_chars_p29 hl
  obtain ⟨hm, hp⟩ := isDec_not_sign_p29 hd
  have hpm : ('+' == '-') = false := by decide
  rcases hsg with h | h
  · subst h
    rw [List.nil_append, e] at hs
    simp only [pyInt0, hs, hm, hp]
    rw [← e, pyMag_of_litVal_p29 hl]; rfl
  · subst h
    simp only [pyInt0, hs, List.cons_append, List.nil_append, hpm, beq_self_eq_true, if_true]
    rw [pyMag_of_litVal_p29 hl]; rfl

/-- a negative lone literal: rendered as the decimal number, read back as that number -/
theorem render_neg_p29 {lit : List Char} {n : Nat} (hl : litVal lit = some n) (hn : n ≤ 2 ^ 63) :
    cppRead (renderOf ('-' :: lit)) = some (-(n : Int)) := by
  have hw := litVal_word_p29 hl
  have hnb : ∀ c ∈ '-' :: lit, isBlank c = false := by
    intro c hc
    rw [List.mem_cons] at hc
    rcases hc with hc | hc
    · subst hc; decide
    · exact word_nblank_p29 (hw c hc)
  have hpy := pyInt0_neg_lit_p29 hl
  obtain ⟨⟨c, r, e, hd⟩, _⟩ := litVal_chars_p29 hl
  have hcw : isWord c = true := isDec_isWord_p29 hd
  have hminus : ('-' == '(') = false := by decide
  simp only [renderOf, hpy]
  by_cases h0 : n = 0
  · subst h0
    have e0 : (-((0 : Nat) : Int)) = 0 := by simp
    rw [e0]
    simp only [Int.lt_irrefl, if_false, gt_iff_lt, List.append_nil, strip_noblank_p29 hnb]
    rw [e, cppRead_noparen_p29 _ hminus, readSigned_neg_p29 _ hcw, ← e, readLit_lit_p29 hl,
      litType_zero_p29]
    decide
  · by_cases h63 : n = 2 ^ 63
    · subst h63
      rw [if_pos (by decide), if_pos (by decide)]
      decide
    · have hlt : n < 2 ^ 63 := by omega
      have hneg : (-(n : Int)) < 0 := by omega
      have hne : ¬ (-(n : Int)) = -(2 ^ 63 : Int) := by
        have : (2 ^ 63 : Int) = ((2 ^ 63 : Nat) : Int) := by norm_cast
        omega
      rw [if_pos hneg, if_neg hne]
      have hs : intStr (-(n : Int)) = '-' :: natToDigits n := by
        unfold intStr
        rw [if_pos hneg, Int.natAbs_neg, Int.natAbs_natCast]
      rw [hs]
      obtain ⟨hb, hdd⟩ := litBody_natToDigits_p29 n (by omega)
      obtain ⟨c2, r2, e2, _, hd2, _⟩ := natToDigits_spec_p29 n
      have hc2 : isWord c2 = true := isDec_isWord_p29 (hd2 c2 (List.mem_cons_self ..))
      rw [cppRead_noparen_p29 _ hminus, e2, readSigned_neg_p29 _ hc2, ← e2,
        readLit_plain_p29 (isDec_no_u_p29 hdd), hb]
      by_cases h31 : n < 2 ^ 31
      · have : litType false false n = some .int := by simp [litType, h31]
        simp only [this, Option.map_some, Option.bind_some, cneg, CTy.holds]
        have hh : (-(2 ^ 31 : Int) ≤ -(n : Int) && -(n : Int) < (2 ^ 31 : Int)) = true := by
          simp only [Bool.and_eq_true, decide_eq_true_eq]
          have : (2 ^ 31 : Int) = ((2 ^ 31 : Nat) : Int) := by norm_cast
          omega
        simp only [hh, if_true, Option.map_some]
      · have : litType false false n = some .long := by simp [litType, h31, hlt]
        simp only [this, Option.map_some, Option.bind_some, cneg, CTy.holds]
        have hh : (-(2 ^ 63 : Int) ≤ -(n : Int) && -(n : Int) < (2 ^ 63 : Int)) = true := by
          simp only [Bool.and_eq_true, decide_eq_true_eq]
          have : (2 ^ 63 : Int) = ((2 ^ 63 : Nat) : Int) := by norm_cast
          omega
        simp only [hh, if_true, Option.map_some]


theorem litType_u_p29 (b : Bool) {n : Nat} (hn : n < 2 ^ 64) : ∃ t, litType b true n = some t := by
  by_cases h : n < 2 ^ 32
  · exact ⟨.uint, by simp [litType, h]⟩
  · exact ⟨.ulong, by simp [litType, h, hn]⟩

/-- a lone literal with `+` or no sign, without parentheses and inner blanks: rendered with the suffix `u` (or
    as it is, when zero), read back as its value -/
theorem render_pos_p29 {cs lit sg : List Char} {n : Nat} (hl : litVal lit = some n) (hn : n < 2 ^ 64)
    (hs : strip cs = sg ++ lit) (hsg : sg = [] ∨ sg = ['+']) :
    cppRead (renderOf cs) = some (n : Int) := by
  obtain ⟨⟨c, r, e, hd⟩, _⟩ := litVal_chars_p29 hl
  have hcw : isWord c = true := isDec_isWord_p29 hd
  obtain ⟨hm, hp⟩ := isDec_not_sign_p29 hd
  have hplus : ('+' == '(') = false := by decide
  have hpm : ('+' == '-') = false := by decide
  have hpy := pyInt0_pos_lit_p29 hl hs hsg
  have hnn : ¬ ((n : Int) < 0) := by omega
  simp only [renderOf, hpy]
  rw [if_neg hnn, hs]
  by_cases h0 : n = 0
  · subst h0
    have : ¬ (((0 : Nat) : Int) > 0) := by simp
    rw [if_neg this, List.append_nil]
    rcases hsg with h | h
    · subst h
      rw [List.nil_append, e, cppRead_noparen_p29 _ (word_noparen_p29 hcw), readSigned_plain_p29 _ hcw,
        ← e, readLit_lit_p29 hl, litType_zero_p29]
      rfl
    · subst h
      rw [List.cons_append, List.nil_append, e, cppRead_noparen_p29 _ hplus, readSigned_pos_p29 _ hcw,
        ← e, readLit_lit_p29 hl, litType_zero_p29]
      rfl
  · have : ((n : Int) > 0) := by omega
    rw [if_pos this]
    obtain ⟨t, ht⟩ := litType_u_p29 (lit.head? == some '0') hn
    rcases hsg with h | h
    · subst h
      rw [List.nil_append, e, List.cons_append, cppRead_noparen_p29 _ (word_noparen_p29 hcw),
        readSigned_plain_p29 _ hcw, ← List.cons_append, ← e, readLit_lit_u_p29 hl, ht]
      rfl
    · subst h
      rw [List.cons_append, List.nil_append, e, List.cons_append, List.cons_append,
        cppRead_noparen_p29 _ hplus, readSigned_pos_p29 _ hcw, ← List.cons_append, ← e,
        readLit_lit_u_p29 hl, ht]
      rfl

/-! ### assembling -/

/-- with the sign `-`: the text is replaced by its bare form `-literal` -/
theorem valueOf_neg_p29 {pre lit post : List Char} {n : Nat} (hpre : ∀ c ∈ pre, isPre c = true)
    (hb : bare pre = ['-']) (hl : litVal lit = some n) (hpost : ∀ c ∈ post, isClose c = true)
    (hbal : balanced (pre ++ (lit ++ post)) = true) :
    bare (pre ++ (lit ++ post)) = '-' :: lit ∧ valueOf (pre ++ (lit ++ post)) = '-' :: lit := by
  have hbare : bare (pre ++ (lit ++ post)) = '-' :: lit := by
    rw [bare_append_p29, bare_append_p29, hb,
      bare_self_p29 (fun c hc => isWord_nbp_p29 (litVal_word_p29 hl c hc)),
      bare_nil_p29 (fun c hc => isClose_bp_p29 (hpost c hc))]
    simp
  refine ⟨hbare, ?_⟩
  simp only [valueOf, hbare, negLit_of_litVal_p29 hl, shape_of_lone_neg_p29 hpre hb hl hpost, hbal,
    Bool.and_self, if_true]

/-- with `+` or no sign: the bare form of the text is the sign and the literal; the text itself is kept -/
theorem valueOf_pos_p29 {pre lit post sg : List Char} {n : Nat}
    (hb : bare pre = sg) (hsg : sg = [] ∨ sg = ['+']) (hl : litVal lit = some n)
    (hpost : ∀ c ∈ post, isClose c = true) :
    bare (pre ++ (lit ++ post)) = sg ++ lit ∧ valueOf (pre ++ (lit ++ post)) = pre ++ (lit ++ post) ∧
      (bare (pre ++ (lit ++ post))).head? ≠ some '-' := by
  have hbare : bare (pre ++ (lit ++ post)) = sg ++ lit := by
    rw [bare_append_p29, bare_append_p29, hb,
      bare_self_p29 (fun c hc => isWord_nbp_p29 (litVal_word_p29 hl c hc)),
      bare_nil_p29 (fun c hc => isClose_bp_p29 (hpost c hc))]
    simp
  obtain ⟨⟨c, r, e, hd⟩, _⟩ := litVal_chars_p29 hl
  obtain ⟨hm, _⟩ := isDec_not_sign_p29 hd
  have hpm : ('+' == '-') = false := by decide
  have hneg : negLit (sg ++ lit) = false := by
    rcases hsg with h | h
    · subst h; rw [List.nil_append, e]; simp [negLit, hm]
    · subst h; simp [negLit, hpm]
  refine ⟨hbare, ?_, ?_⟩
  · simp [valueOf, hbare, hneg]
  · rw [hbare]
    rcases hsg with h | h
    · subst h; rw [List.nil_append, e]
      intro h; simp at h; subst h; revert hd; decide
    · subst h; simp

end Prophy.CppLit

/-
  Lemmas about `ProphyModel/Resolve.lean`: the two `while` loops with a `seen` set of prophyc's evaluator
  (`calc.p_expression_name`, `model._collect_constants.get_last_in_chain`).

  * pigeonhole (`length_le_of_nodup_subset_p26`): a duplicate-free list whose elements all occur in `m` is no longer than `m`;
  * the invariant of `seen` (`SeenInv`): duplicate-free, and every element is a KEY of `vars` (found by `lookup`);
    hence `seen.length ≤ vars.length`, also when `vars` has duplicate keys (then it is even smaller);
  * `loop` never runs out of fuel (`loop_ne_fuel_p26`), fuel monotonicity (`loop_mono_p26`);
  * the walk relation `Chain` and soundness / completeness of `loop` for the three outcomes;
  * the same for `lastInChain` (`KChain`).
-/
import ProphyModel.Resolve
namespace Prophy
namespace Resolve

/-! ### pigeonhole -/

theorem length_le_of_nodup_subset_p26 {α : Type} [DecidableEq α] :
    ∀ (l m : List α), l.Nodup → (∀ x, x ∈ l → x ∈ m) → l.length ≤ m.length
  | [], _, _, _ => by simp
  | x :: l, m, hn, hs => by
    have hx : x ∈ m := hs x (by simp)
    have hn' := List.nodup_cons.mp hn
    have ih := length_le_of_nodup_subset_p26 l (m.erase x) hn'.2 (by
      intro y hy
      have hne : y ≠ x := by
        intro e; subst e; exact hn'.1 hy
      exact (List.mem_erase_of_ne hne).mpr (hs y (by simp [hy])))
    have hl := List.length_erase_of_mem hx
    have hpos : 0 < m.length := List.length_pos_of_mem hx
    simp only [List.length_cons]
    omega

theorem lookup_some_mem_keys_p26 {β : Type} :
    ∀ (vars : List (String × β)) (k : String) (v : β), vars.lookup k = some v → k ∈ vars.map (·.1)
  | [], k, v, h => by simp [List.lookup] at h
  | (a, b) :: rest, k, v, h => by
    by_cases e : k = a
    · simp [e]
    · have : (k == a) = false := by simpa using e
      simp only [List.lookup, this] at h
      have := lookup_some_mem_keys_p26 rest k v h
      simp [this]

theorem contains_iff_p26 {α : Type} [DecidableEq α] (l : List α) (a : α) : l.contains a = true ↔ a ∈ l := by
  simp

/-! ### the first loop: `p_expression_name` -/

/-- the invariant of `seen`: distinct keys of `vars` -/
def SeenInv (vars : Vars) (seen : List String) : Prop :=
  seen.Nodup ∧ ∀ x, x ∈ seen → x ∈ vars.map (·.1)

theorem seenInv_nil_p26 (vars : Vars) : SeenInv vars [] := by
  constructor <;> simp

theorem seenInv_length_p26 {vars : Vars} {seen : List String} (h : SeenInv vars seen) :
    seen.length ≤ vars.length := by
  have := length_le_of_nodup_subset_p26 seen (vars.map (·.1)) h.1 h.2
  simpa using this

theorem seenInv_cons_p26 {vars : Vars} {seen : List String} {cur : String} {v : Val}
    (h : SeenInv vars seen) (hc : ¬ cur ∈ seen) (hl : vars.lookup cur = some v) :
    SeenInv vars (cur :: seen) := by
  refine ⟨List.nodup_cons.mpr ⟨hc, h.1⟩, ?_⟩
  intro x hx
  rcases List.mem_cons.mp hx with e | hx
  · subst e; exact lookup_some_mem_keys_p26 vars _ v hl
  · exact h.2 x hx

/-- unfolding lemma of one iteration -/
theorem loop_succ_p26 (vars : Vars) (fuel : Nat) (seen : List String) (cur : String) :
    loop vars (fuel + 1) seen cur =
      if cur ∈ seen then .error .selfDefined
      else match vars.lookup cur with
        | Option.none => .error .notFound
        | some (.int v) => .ok v
        | some (.name s) => loop vars fuel (cur :: seen) s
        | some .none => .error .notFound := by
  simp only [loop, List.contains_eq_mem, decide_eq_true_eq]
  by_cases h : cur ∈ seen
  · rw [if_pos h, if_pos h]
  · rw [if_neg h, if_neg h]
    cases List.lookup cur vars with
    | none => rfl
    | some w => cases w <;> rfl

/-- with `fuel + seen.length > vars.length` the loop does not run out of fuel: each iteration adds a new key to `seen`. -/
theorem loop_ne_fuel_p26 (vars : Vars) :
    ∀ (fuel : Nat) (seen : List String) (cur : String), SeenInv vars seen →
      vars.length + 1 ≤ fuel + seen.length → loop vars fuel seen cur ≠ .error .fuel
  | 0, seen, cur, hi, hf => by
    have := seenInv_length_p26 hi
    omega
  | fuel + 1, seen, cur, hi, hf => by
    rw [loop_succ_p26]
    by_cases hc : cur ∈ seen
    · simp [hc]
    · simp only [hc, if_false]
      cases hl : vars.lookup cur with
      | none => simp
      | some v =>
        cases v with
        | int v => simp
        | none => simp
        | name s =>
          simp only
          apply loop_ne_fuel_p26 vars fuel (cur :: seen) s (seenInv_cons_p26 hi hc hl)
          simp only [List.length_cons]; omega

/-- more fuel does not change an answer that is not "out of fuel" -/
theorem loop_mono_p26 (vars : Vars) :
    ∀ (fuel : Nat) (seen : List String) (cur : String) (d : Nat),
      loop vars fuel seen cur ≠ .error .fuel → loop vars (fuel + d) seen cur = loop vars fuel seen cur
  | 0, seen, cur, d, h => by simp [loop] at h
  | fuel + 1, seen, cur, d, h => by
    have e : fuel + 1 + d = (fuel + d) + 1 := by omega
    rw [e, loop_succ_p26]
    rw [loop_succ_p26] at h ⊢
    by_cases hc : cur ∈ seen
    · simp [hc]
    · simp only [hc, if_false] at h ⊢
      cases hl : vars.lookup cur with
      | none => simp
      | some v =>
        cases v with
        | int v => simp
        | none => simp
        | name s =>
          simp only [hl] at h ⊢
          exact loop_mono_p26 vars fuel (cur :: seen) s d h

theorem loop_eq_of_ne_fuel_p26 (vars : Vars) (n m : Nat) (seen : List String) (cur : String)
    (hn : loop vars n seen cur ≠ .error .fuel) (hm : loop vars m seen cur ≠ .error .fuel) :
    loop vars n seen cur = loop vars m seen cur := by
  by_cases h : n ≤ m
  · obtain ⟨d, rfl⟩ : ∃ d, m = n + d := ⟨m - n, by omega⟩
    exact (loop_mono_p26 vars n seen cur d hn).symm
  · obtain ⟨d, rfl⟩ : ∃ d, n = m + d := ⟨n - m, by omega⟩
    exact loop_mono_p26 vars m seen cur d hm

/-! ### the walk -/

/-- `Chain vars a path b`: following NAME entries of `vars` from `a` visits exactly the names `path` (in this order, `a` first,
    `b` not included) and arrives at `b`.  (`Chain vars a [] a`: no step.) -/
inductive Chain (vars : Vars) : String → List String → String → Prop
  | nil (a : String) : Chain vars a [] a
  | cons {a c b : String} {path : List String} :
      vars.lookup a = some (.name c) → Chain vars c path b → Chain vars a (a :: path) b

/-- `b` is an end of the walk: it is no key, or its entry is an int or `None` -/
def Terminal (vars : Vars) (b : String) : Prop := ∀ s, vars.lookup b ≠ some (.name s)

theorem chain_snoc_p26 {vars : Vars} {a b c : String} {path : List String}
    (h : Chain vars a path b) (hl : vars.lookup b = some (.name c)) : Chain vars a (path ++ [b]) c := by
  induction h with
  | nil a => exact .cons hl (.nil c)
  | cons h1 _ ih => exact .cons h1 (ih hl)

/-- the walk is deterministic: two walks from `a` are prefixes of one another; with equal length they are equal -/
theorem chain_det_p26 {vars : Vars} {a b : String} {p : List String} (h : Chain vars a p b) :
    ∀ {b' : String} {p' : List String}, Chain vars a p' b' → p.length = p'.length → p = p' ∧ b = b' := by
  induction h with
  | nil a =>
    intro b' p' h' hlen
    cases h' with
    | nil => exact ⟨rfl, rfl⟩
    | cons _ _ => simp at hlen
  | cons h1 _ ih =>
    intro b' p' h' hlen
    cases h' with
    | nil => simp at hlen
    | cons h1' h2' =>
      rw [h1] at h1'
      cases h1'
      have := ih h2' (by simpa using hlen)
      exact ⟨by rw [this.1], this.2⟩

/-- a walk that ends in a terminal name determines its path -/
theorem chain_terminal_unique_p26 {vars : Vars} {a b : String} {p : List String} (h : Chain vars a p b)
    (hb : Terminal vars b) :
    ∀ {b' : String} {p' : List String}, Chain vars a p' b' → Terminal vars b' → p = p' ∧ b = b' := by
  induction h with
  | nil a =>
    intro b' p' h' _
    cases h' with
    | nil => exact ⟨rfl, rfl⟩
    | cons h1 _ => exact absurd h1 (hb _)
  | cons h1 _ ih =>
    intro b' p' h' hb'
    cases h' with
    | nil => exact absurd h1 (hb' _)
    | cons h1' h2' =>
      rw [h1] at h1'
      cases h1'
      have := ih hb h2' hb'
      exact ⟨by rw [this.1], this.2⟩

/-- from a member of the path there is a shorter walk to the same end -/
theorem chain_from_mem_p26 {vars : Vars} {a b : String} {p : List String} (h : Chain vars a p b) :
    ∀ x, x ∈ p → ∃ q, Chain vars x q b ∧ q.length ≤ p.length := by
  induction h with
  | nil a => intro x hx; simp at hx
  | @cons a c b path h1 h2 ih =>
    intro x hx
    rcases List.mem_cons.mp hx with e | hx
    · subst e; exact ⟨_, .cons h1 h2, Nat.le_refl _⟩
    · obtain ⟨q, hq, hlen⟩ := ih x hx
      exact ⟨q, hq, by simp only [List.length_cons]; omega⟩

/-- a walk that reaches a terminal name repeats no name: otherwise it would go round for ever -/
theorem chain_terminal_nodup_p26 {vars : Vars} {a b : String} {p : List String} (h : Chain vars a p b)
    (hb : Terminal vars b) : (p ++ [b]).Nodup := by
  induction h with
  | nil a => simp
  | @cons a c b path h1 h2 ih =>
    have ih := ih hb
    simp only [List.cons_append]
    refine List.nodup_cons.mpr ⟨?_, ih⟩
    intro hm
    rcases List.mem_append.mp hm with hm | hm
    · obtain ⟨q, hq, hlen⟩ := chain_from_mem_p26 h2 a hm
      have := chain_terminal_unique_p26 (Chain.cons h1 h2) hb hq hb
      have : (a :: path).length = q.length := by rw [this.1]
      simp only [List.length_cons] at this
      omega
    · simp only [List.mem_singleton] at hm
      subst hm
      exact hb _ h1

/-- every walk is an initial piece of the walk to a terminal name -/
theorem chain_prefix_terminal_p26 {vars : Vars} {a b : String} {p : List String} (h : Chain vars a p b) :
    ∀ {t : String} {q : List String}, Chain vars a q t → Terminal vars t → ∃ r, Chain vars b r t ∧ q = p ++ r := by
  induction h with
  | nil a => intro t q hq _; exact ⟨q, hq, rfl⟩
  | cons h1 _ ih =>
    intro t q hq ht
    cases hq with
    | nil => exact absurd h1 (ht _)
    | cons h1' h2' =>
      rw [h1] at h1'
      cases h1'
      obtain ⟨r, hr, e⟩ := ih h2' ht
      exact ⟨r, hr, by rw [e]; rfl⟩

theorem chain_head_mem_p26 {vars : Vars} {a b : String} {p : List String} (h : Chain vars a p b) : a ∈ p ++ [b] := by
  cases h with
  | nil => simp
  | cons _ _ => simp

/-- a walk that comes back to a name it has visited cannot also reach a terminal name -/
theorem chain_cycle_no_terminal_p26 {vars : Vars} {a b t : String} {p q : List String} (h : Chain vars a p b)
    (hb : b ∈ p) (hq : Chain vars a q t) (ht : Terminal vars t) : False := by
  obtain ⟨r, hr, e⟩ := chain_prefix_terminal_p26 h hq ht
  have hnd := chain_terminal_nodup_p26 hq ht
  rw [e, List.append_assoc] at hnd
  have hdis := (List.nodup_append.mp hnd).2.2
  exact hdis b hb b (chain_head_mem_p26 hr) rfl

/-! ### soundness of `loop` -/

theorem loop_ok_sound_p26 (vars : Vars) :
    ∀ (fuel : Nat) (seen : List String) (cur : String) (v : Int), loop vars fuel seen cur = .ok v →
      ∃ path b, Chain vars cur path b ∧ vars.lookup b = some (.int v) ∧ (path ++ [b]).Nodup ∧
        (∀ x, x ∈ path ++ [b] → ¬ x ∈ seen) ∧ path.length + 1 ≤ fuel
  | 0, seen, cur, v, h => by simp [loop] at h
  | fuel + 1, seen, cur, v, h => by
    rw [loop_succ_p26] at h
    by_cases hc : cur ∈ seen
    · simp [hc] at h
    · simp only [hc, if_false] at h
      cases hl : vars.lookup cur with
      | none => simp [hl] at h
      | some w =>
        cases w with
        | none => simp [hl] at h
        | int w =>
          simp only [hl, Except.ok.injEq] at h
          subst h
          refine ⟨[], cur, .nil cur, hl, by simp, ?_, by simp⟩
          intro x hx
          simp only [List.nil_append, List.mem_singleton] at hx
          subst hx; exact hc
        | name s =>
          simp only [hl] at h
          obtain ⟨path, b, hch, hb, hnd, hdis, hlen⟩ := loop_ok_sound_p26 vars fuel (cur :: seen) s v h
          refine ⟨cur :: path, b, .cons hl hch, hb, ?_, ?_, by simp only [List.length_cons]; omega⟩
          · simp only [List.cons_append]
            refine List.nodup_cons.mpr ⟨?_, hnd⟩
            intro hm
            exact hdis cur hm (by simp)
          · intro x hx
            simp only [List.cons_append] at hx
            rcases List.mem_cons.mp hx with e | hx
            · subst e; exact hc
            · intro hs
              exact hdis x hx (List.mem_cons_of_mem _ hs)

theorem loop_notFound_sound_p26 (vars : Vars) :
    ∀ (fuel : Nat) (seen : List String) (cur : String), loop vars fuel seen cur = .error .notFound →
      ∃ path b, Chain vars cur path b ∧ (vars.lookup b = Option.none ∨ vars.lookup b = some .none) ∧
        (path ++ [b]).Nodup ∧ (∀ x, x ∈ path ++ [b] → ¬ x ∈ seen) ∧ path.length + 1 ≤ fuel
  | 0, seen, cur, h => by simp [loop] at h
  | fuel + 1, seen, cur, h => by
    rw [loop_succ_p26] at h
    by_cases hc : cur ∈ seen
    · simp [hc] at h
    · simp only [hc, if_false] at h
      have hend : (vars.lookup cur = Option.none ∨ vars.lookup cur = some .none) →
          ∃ path b, Chain vars cur path b ∧ (vars.lookup b = Option.none ∨ vars.lookup b = some .none) ∧
            (path ++ [b]).Nodup ∧ (∀ x, x ∈ path ++ [b] → ¬ x ∈ seen) ∧ path.length + 1 ≤ fuel + 1 := by
        intro hl
        refine ⟨[], cur, .nil cur, hl, by simp, ?_, by simp⟩
        intro x hx
        simp only [List.nil_append, List.mem_singleton] at hx
        subst hx; exact hc
      cases hl : vars.lookup cur with
      | none => exact hend (Or.inl hl)
      | some w =>
        cases w with
        | none => exact hend (Or.inr hl)
        | int w => simp [hl] at h
        | name s =>
          simp only [hl] at h
          obtain ⟨path, b, hch, hb, hnd, hdis, hlen⟩ := loop_notFound_sound_p26 vars fuel (cur :: seen) s h
          refine ⟨cur :: path, b, .cons hl hch, hb, ?_, ?_, by simp only [List.length_cons]; omega⟩
          · simp only [List.cons_append]
            refine List.nodup_cons.mpr ⟨?_, hnd⟩
            intro hm
            exact hdis cur hm (by simp)
          · intro x hx
            simp only [List.cons_append] at hx
            rcases List.mem_cons.mp hx with e | hx
            · subst e; exact hc
            · intro hs
              exact hdis x hx (List.mem_cons_of_mem _ hs)

theorem loop_selfDefined_sound_p26 (vars : Vars) :
    ∀ (fuel : Nat) (seen : List String) (cur : String), loop vars fuel seen cur = .error .selfDefined →
      ∃ path b, Chain vars cur path b ∧ path.Nodup ∧ (∀ x, x ∈ path → ¬ x ∈ seen) ∧ (b ∈ path ∨ b ∈ seen) ∧
        path.length + 1 ≤ fuel
  | 0, seen, cur, h => by simp [loop] at h
  | fuel + 1, seen, cur, h => by
    rw [loop_succ_p26] at h
    by_cases hc : cur ∈ seen
    · exact ⟨[], cur, .nil cur, by simp, by simp, Or.inr hc, by simp⟩
    · simp only [hc, if_false] at h
      cases hl : vars.lookup cur with
      | none => simp [hl] at h
      | some w =>
        cases w with
        | none => simp [hl] at h
        | int w => simp [hl] at h
        | name s =>
          simp only [hl] at h
          obtain ⟨path, b, hch, hnd, hdis, hb, hlen⟩ := loop_selfDefined_sound_p26 vars fuel (cur :: seen) s h
          refine ⟨cur :: path, b, .cons hl hch, ?_, ?_, ?_, by simp only [List.length_cons]; omega⟩
          · refine List.nodup_cons.mpr ⟨?_, hnd⟩
            intro hm
            exact hdis cur hm (by simp)
          · intro x hx
            rcases List.mem_cons.mp hx with e | hx
            · subst e; exact hc
            · intro hs
              exact hdis x hx (List.mem_cons_of_mem _ hs)
          · rcases hb with hb | hb
            · exact Or.inl (List.mem_cons_of_mem _ hb)
            · rcases List.mem_cons.mp hb with e | hb
              · subst e; exact Or.inl (by simp)
              · exact Or.inr hb

/-! ### completeness of `loop` (with enough fuel for the path) -/

/-- the answer of the loop at a name whose entry is not a name -/
def endAnswer : Option Val → Except Err Int
  | some (.int v) => .ok v
  | _ => .error .notFound

/-- a walk to a terminal name that avoids `seen` and repeats nothing is what the loop does; the answer is decided by the
    entry of the terminal name -/
theorem loop_terminal_complete_p26 {vars : Vars} {a b : String} {path : List String} (h : Chain vars a path b) :
    ∀ (fuel : Nat) (seen : List String), (path ++ [b]).Nodup → (∀ x, x ∈ path ++ [b] → ¬ x ∈ seen) →
      path.length + 1 ≤ fuel → Terminal vars b →
      loop vars fuel seen a = endAnswer (vars.lookup b) := by
  induction h with
  | nil a =>
    intro fuel seen _ hdis hf hb
    obtain ⟨f, rfl⟩ : ∃ f, fuel = f + 1 := ⟨fuel - 1, by simp at hf; omega⟩
    rw [loop_succ_p26]
    have hc : ¬ a ∈ seen := hdis a (by simp)
    simp only [hc, if_false]
    cases hl : vars.lookup a with
    | none => rfl
    | some w =>
      cases w with
      | none => rfl
      | int w => rfl
      | name s => exact absurd hl (hb s)
  | @cons a c b path h1 h2 ih =>
    intro fuel seen hnd hdis hf hb
    obtain ⟨f, rfl⟩ : ∃ f, fuel = f + 1 := ⟨fuel - 1, by simp at hf; omega⟩
    rw [loop_succ_p26]
    have hc : ¬ a ∈ seen := hdis a (by simp)
    simp only [hc, if_false, h1]
    simp only [List.cons_append] at hnd hdis
    have hnd' := List.nodup_cons.mp hnd
    apply ih f (a :: seen) hnd'.2
    · intro x hx hs
      rcases List.mem_cons.mp hs with e | hs
      · subst e; exact hnd'.1 hx
      · exact hdis x (List.mem_cons_of_mem _ hx) hs
    · simp only [List.length_cons] at hf; omega
    · exact hb

theorem loop_selfDefined_complete_p26 {vars : Vars} {a b : String} {path : List String} (h : Chain vars a path b) :
    ∀ (fuel : Nat) (seen : List String), path.Nodup → (∀ x, x ∈ path → ¬ x ∈ seen) → (b ∈ path ∨ b ∈ seen) →
      path.length + 1 ≤ fuel → loop vars fuel seen a = .error .selfDefined := by
  induction h with
  | nil a =>
    intro fuel seen _ _ hb hf
    obtain ⟨f, rfl⟩ : ∃ f, fuel = f + 1 := ⟨fuel - 1, by simp at hf; omega⟩
    rw [loop_succ_p26]
    have hc : a ∈ seen := by simpa using hb
    simp [hc]
  | @cons a c b path h1 h2 ih =>
    intro fuel seen hnd hdis hb hf
    obtain ⟨f, rfl⟩ : ∃ f, fuel = f + 1 := ⟨fuel - 1, by simp at hf; omega⟩
    rw [loop_succ_p26]
    have hc : ¬ a ∈ seen := hdis a (by simp)
    simp only [hc, if_false, h1]
    have hnd' := List.nodup_cons.mp hnd
    apply ih f (a :: seen) hnd'.2
    · intro x hx hs
      rcases List.mem_cons.mp hs with e | hs
      · subst e; exact hnd'.1 hx
      · exact hdis x (List.mem_cons_of_mem _ hx) hs
    · rcases hb with hb | hb
      · rcases List.mem_cons.mp hb with e | hb
        · subst e; exact Or.inr (by simp)
        · exact Or.inl hb
      · exact Or.inr (List.mem_cons_of_mem _ hb)
    · simp only [List.length_cons] at hf; omega

/-! ### the second loop: `get_last_in_chain` -/

def keysOf (vars : Vars) : List Key := vars.map (fun p => Key.name p.1)

theorem lookupKey_some_mem_p26 (vars : Vars) (k : Key) (v : Val) (h : lookupKey vars k = some v) : k ∈ keysOf vars := by
  cases k with
  | name s =>
    simp only [lookupKey] at h
    have := lookup_some_mem_keys_p26 vars s v h
    simp only [List.mem_map] at this
    obtain ⟨p, hp, e⟩ := this
    simp only [keysOf, List.mem_map]
    exact ⟨p, hp, by rw [e]⟩
  | int v => simp [lookupKey] at h
  | none => simp [lookupKey] at h

def KSeenInv (vars : Vars) (seen : List Key) : Prop :=
  seen.Nodup ∧ ∀ x, x ∈ seen → x ∈ keysOf vars

theorem kseenInv_nil_p26 (vars : Vars) : KSeenInv vars [] := by
  constructor <;> simp

theorem kseenInv_length_p26 {vars : Vars} {seen : List Key} (h : KSeenInv vars seen) :
    seen.length ≤ vars.length := by
  have := length_le_of_nodup_subset_p26 seen (keysOf vars) h.1 h.2
  simpa [keysOf] using this

theorem kseenInv_cons_p26 {vars : Vars} {seen : List Key} {cur : Key} {v : Val}
    (h : KSeenInv vars seen) (hc : ¬ cur ∈ seen) (hl : lookupKey vars cur = some v) :
    KSeenInv vars (cur :: seen) := by
  refine ⟨List.nodup_cons.mpr ⟨hc, h.1⟩, ?_⟩
  intro x hx
  rcases List.mem_cons.mp hx with e | hx
  · subst e; exact lookupKey_some_mem_p26 vars _ v hl
  · exact h.2 x hx

theorem lastInChain_succ_p26 (vars : Vars) (fuel : Nat) (seen : List Key) (key : Key) :
    lastInChain vars (fuel + 1) seen key =
      if key ∈ seen then key
      else match lookupKey vars key with
        | Option.none => key
        | some v => if valToKey v = key then key else lastInChain vars fuel (key :: seen) (valToKey v) := by
  simp only [lastInChain, List.contains_eq_mem, decide_eq_true_eq]
  by_cases h : key ∈ seen
  · rw [if_pos h, if_pos h]
  · rw [if_neg h, if_neg h]
    cases lookupKey vars key with
    | none => rfl
    | some w => rfl

/-- with `fuel + seen.length > vars.length` more fuel changes nothing: the loop has stopped by its own conditions before
    the fuel is used up (the fuel-exhausted branch `| 0, _, key => key` is never the one that answers). -/
theorem lastInChain_mono_p26 (vars : Vars) :
    ∀ (fuel : Nat) (seen : List Key) (key : Key) (d : Nat), KSeenInv vars seen →
      vars.length + 1 ≤ fuel + seen.length →
      lastInChain vars (fuel + d) seen key = lastInChain vars fuel seen key
  | 0, seen, key, d, hi, hf => by
    have := kseenInv_length_p26 hi
    omega
  | fuel + 1, seen, key, d, hi, hf => by
    have e : fuel + 1 + d = (fuel + d) + 1 := by omega
    rw [e, lastInChain_succ_p26, lastInChain_succ_p26]
    by_cases hc : key ∈ seen
    · simp [hc]
    · simp only [hc, if_false]
      cases hl : lookupKey vars key with
      | none => rfl
      | some v =>
        simp only
        by_cases hv : valToKey v = key
        · simp [hv]
        · simp only [hv, if_false]
          apply lastInChain_mono_p26 vars fuel (key :: seen) (valToKey v) d (kseenInv_cons_p26 hi hc hl)
          simp only [List.length_cons]; omega

/-- `KChain vars a path b`: following entries of the dictionary that do not map a key to itself, from `a`, visits exactly
    `path` (`a` first, `b` not included) and arrives at `b`.  Only NAME keys have entries, so every element of `path` is a
    name; `b` may be an int or `None` (the VALUE of a constant, when the chain of typedef names ends in a constant). -/
inductive KChain (vars : Vars) : Key → List Key → Key → Prop
  | nil (a : Key) : KChain vars a [] a
  | cons {a b : Key} {v : Val} {path : List Key} :
      lookupKey vars a = some v → valToKey v ≠ a → KChain vars (valToKey v) path b → KChain vars a (a :: path) b

/-- where the Python loop stops by its second condition: `constants.get(key, key) == key` -/
def KStop (vars : Vars) (b : Key) : Prop :=
  lookupKey vars b = Option.none ∨ ∃ v, lookupKey vars b = some v ∧ valToKey v = b

theorem lastInChain_sound_p26 (vars : Vars) :
    ∀ (fuel : Nat) (seen : List Key) (key : Key), KSeenInv vars seen → vars.length + 1 ≤ fuel + seen.length →
      ∃ path, KChain vars key path (lastInChain vars fuel seen key) ∧ path.Nodup ∧ (∀ x, x ∈ path → ¬ x ∈ seen) ∧
        (lastInChain vars fuel seen key ∈ path ∨ lastInChain vars fuel seen key ∈ seen ∨
          KStop vars (lastInChain vars fuel seen key))
  | 0, seen, key, hi, hf => by
    have := kseenInv_length_p26 hi
    omega
  | fuel + 1, seen, key, hi, hf => by
    rw [lastInChain_succ_p26]
    by_cases hc : key ∈ seen
    · rw [if_pos hc]
      exact ⟨[], .nil key, by simp, by simp, Or.inr (Or.inl hc)⟩
    · simp only [hc, if_false]
      cases hl : lookupKey vars key with
      | none => exact ⟨[], .nil key, by simp, by simp, Or.inr (Or.inr (Or.inl hl))⟩
      | some v =>
        simp only
        by_cases hv : valToKey v = key
        · simp only [hv, if_true]
          exact ⟨[], .nil key, by simp, by simp, Or.inr (Or.inr (Or.inr ⟨v, hl, hv⟩))⟩
        · simp only [hv, if_false]
          obtain ⟨path, hch, hnd, hdis, hb⟩ :=
            lastInChain_sound_p26 vars fuel (key :: seen) (valToKey v) (kseenInv_cons_p26 hi hc hl)
              (by simp only [List.length_cons]; omega)
          refine ⟨key :: path, .cons hl hv hch, ?_, ?_, ?_⟩
          · refine List.nodup_cons.mpr ⟨?_, hnd⟩
            intro hm
            exact hdis key hm (by simp)
          · intro x hx
            rcases List.mem_cons.mp hx with e | hx
            · subst e; exact hc
            · intro hs
              exact hdis x hx (List.mem_cons_of_mem _ hs)
          · rcases hb with hb | hb | hb
            · exact Or.inl (List.mem_cons_of_mem _ hb)
            · rcases List.mem_cons.mp hb with e | hb
              · exact Or.inl (by rw [e]; simp)
              · exact Or.inr (Or.inl hb)
            · exact Or.inr (Or.inr hb)

/-- completeness: a walk without repetition that ends where the loop's conditions stop it is the loop's answer -/
theorem lastInChain_complete_p26 {vars : Vars} {a b : Key} {path : List Key} (h : KChain vars a path b) :
    ∀ (fuel : Nat) (seen : List Key), path.Nodup → (∀ x, x ∈ path → ¬ x ∈ seen) →
      (b ∈ path ∨ b ∈ seen ∨ KStop vars b) → path.length + 1 ≤ fuel → lastInChain vars fuel seen a = b := by
  induction h with
  | nil a =>
    intro fuel seen _ _ hb hf
    obtain ⟨f, rfl⟩ : ∃ f, fuel = f + 1 := ⟨fuel - 1, by simp at hf; omega⟩
    rw [lastInChain_succ_p26]
    by_cases hc : a ∈ seen
    · simp [hc]
    · simp only [hc, if_false]
      rcases hb with hb | hb | hb
      · simp at hb
      · exact absurd hb hc
      · rcases hb with hb | ⟨v, hl, hv⟩
        · simp [hb]
        · simp [hl, hv]
  | @cons a b v path h1 hne h2 ih =>
    intro fuel seen hnd hdis hb hf
    obtain ⟨f, rfl⟩ : ∃ f, fuel = f + 1 := ⟨fuel - 1, by simp at hf; omega⟩
    rw [lastInChain_succ_p26]
    have hc : ¬ a ∈ seen := hdis a (by simp)
    simp only [hc, if_false, h1, hne]
    have hnd' := List.nodup_cons.mp hnd
    apply ih f (a :: seen) hnd'.2
    · intro x hx hs
      rcases List.mem_cons.mp hs with e | hs
      · subst e; exact hnd'.1 hx
      · exact hdis x (List.mem_cons_of_mem _ hx) hs
    · rcases hb with hb | hb | hb
      · rcases List.mem_cons.mp hb with e | hb
        · exact Or.inr (Or.inl (by rw [e]; simp))
        · exact Or.inl hb
      · exact Or.inr (Or.inl (List.mem_cons_of_mem _ hb))
      · exact Or.inr (Or.inr hb)
    · simp only [List.length_cons] at hf; omega

end Resolve
end Prophy

/- last helpers before the main induction of the round-trip theorem -/
import ProphyModel.Lemmas.PyRoundTripHints
namespace Prophy
open Prophy WF Accept

theorem IsAl.dvd_of_le {a b : Nat} (ha : IsAl a) (hb : IsAl b) (h : a ≤ b) : a ∣ b := by
  unfold IsAl at *
  rcases ha with rfl | rfl | rfl | rfl <;> rcases hb with rfl | rfl | rfl | rfl <;> first | omega | decide

theorem Spec.alignMember_dvd_alignMs (m : Member) : (all : List Member) → m ∈ all →
    Spec.alignMember m ∣ Spec.alignMs all
  | [], h => by cases h
  | .mk n t k :: r, h => by
    have hal := Spec.alignMs_isAl (.mk n t k :: r)
    apply IsAl.dvd_of_le (Spec.alignMember_isAl m) hal
    rcases List.mem_cons.1 h with rfl | hr
    · exact Spec.alignMember_le_alignMs n t k r
    · have ih := Nat.le_of_dvd (Spec.alignMs_pos r) (Spec.alignMember_dvd_alignMs m r hr)
      simp only [Spec.alignMs]; omega

theorem Spec.blockAlign_dvd (A : Nat) (hA : IsAl A) : (ms : List Member) →
    (∀ m ∈ ms, Spec.alignMember m ∣ A) → Spec.blockAlign ms ∣ A
  | [], _ => by simp [Spec.blockAlign]
  | m :: r, h => by
    have h1 := h m (List.mem_cons_self ..)
    have h2 := Spec.blockAlign_dvd A hA r (fun x hx => h x (List.mem_cons_of_mem _ hx))
    simp only [Spec.blockAlign]
    split
    · exact h1
    · apply IsAl.dvd_of_le (IsAl.max (Spec.alignMember_isAl m) (Spec.blockAlign_isAl r)) hA
      have := Nat.le_of_dvd hA.pos h1
      have := Nat.le_of_dvd hA.pos h2
      omega

theorem Spec.alignArm_dvd : (arms : List Arm) → ∀ (idx : Nat) (a : Arm), arms[idx]? = some a →
    Spec.alignTy a.ty ∣ max Spec.flagSize (Spec.alignArms arms)
  | [], idx, a, h => by simp at h
  | .mk n d t :: r, idx, a, h => by
    have hA : IsAl (max Spec.flagSize (Spec.alignArms (.mk n d t :: r))) :=
      IsAl.max IsAl.four (Spec.alignArms_isAl _)
    apply IsAl.dvd_of_le (Spec.alignTy_isAl _) hA
    cases idx with
    | zero =>
      simp at h; subst h
      simp only [Spec.alignArms, Arm.ty]; omega
    | succ i =>
      simp at h
      have ih := Nat.le_of_dvd (by simp only [Spec.flagSize]; omega) (Spec.alignArm_dvd r i a h)
      simp only [Spec.alignArms]; omega

theorem Accept.not_unl_of_fixed (t : Ty) (hf : front t = true) (hp : pyRt t = true)
    (hfx : Spec.fixedTy t = true) : (Py.stTy t).unl = false := by
  cases h : (Py.stTy t).unl with
  | false => rfl
  | true =>
    have h1 := Py.stTy_unl_dyn t h
    rw [Py.stTy_dyn t (Accept.wf_of_accept t hf hp), Spec.dynTy_of_fixed t hfx] at h1
    cases h1

theorem Spec.galMs_tail (m : Member) (r : List Member) (v : Val) (vs : List Val)
    (h : Spec.galMs (m :: r) (v :: vs) = true) : Spec.galMs r vs = true := by
  cases r with
  | nil => cases vs <;> simp [Spec.galMs]
  | cons m' r' =>
    cases vs with
    | nil => simp [Spec.galMs]
    | cons v' vs' =>
      obtain ⟨n, t, k⟩ := m
      cases k <;> simpa [Spec.galMs] using h

theorem Spec.galMs_single (n : String) (t : Ty) (v : Val) (h : Spec.galMs [.mk n t .plain] [v] = true) :
    Spec.galTy t v = true := by simpa [Spec.galMs] using h

theorem find?_name_mem (before : List Member) (s : String) (x : Member)
    (h : before.find? (·.name == s) = some x) : ∃ y ∈ before, y.name = s :=
  ⟨x, List.mem_of_find?_eq_some h, by simpa using List.find?_some h⟩

/-! ### reductions of `fieldDec` -/
theorem Py.fieldDec_plain_ok (e : Endian) (all : List Member) (n : String) (t : Ty) (f : Py.St) (data : Bytes)
    (pos : Nat) (hints : List (String × Nat)) (term : Bool) (v : Val) (c : Nat)
    (hns : isSizer n all = false) (h : Py.decTy e t data pos term = .ok (v, c)) :
    Py.fieldDec e all n t .plain f data pos hints term = .ok (v, c, hints) := by
  simp [Py.fieldDec, hns, h, bind, Except.bind, pure, Except.pure]

theorem Py.decTy_of_fieldDec (e : Endian) (t : Ty) (f : Py.St) (data : Bytes)
    (pos : Nat) (hints hints' : List (String × Nat)) (term : Bool) (v : Val) (c : Nat)
    (h : Py.fieldDec e [] "" t .plain f data pos hints term = .ok (v, c, hints')) :
    Py.decTy e t data pos term = .ok (v, c) := by
  simp only [Py.fieldDec, isSizer_nil, Bool.false_eq_true, if_false] at h
  cases hd : Py.decTy e t data pos term with
  | error x => simp [hd, bind, Except.bind] at h
  | ok r =>
    obtain ⟨v', c'⟩ := r
    simp only [hd, bind, Except.bind, pure, Except.pure] at h
    injection h with h
    injection h with h1 h2
    injection h2 with h2 h3
    rw [h1, h2]

theorem Py.fieldDec_sizer_ok (e : Endian) (all : List Member) (n : String) (t : Ty) (f : Py.St) (data : Bytes)
    (pos : Nat) (hints : List (String × Nat)) (term : Bool) (c sz : Nat)
    (hs : isSizer n all = true) (h : Py.decSizer e (Py.sizerPrim t) (sizerShift n all) data pos = .ok (c, sz)) :
    Py.fieldDec e all n t .plain f data pos hints term = .ok (Val.sizer, sz, boundHints all n c ++ hints) := by
  simp [Py.fieldDec, hs, h, bind, Except.bind, pure, Except.pure, boundHints]

end Prophy

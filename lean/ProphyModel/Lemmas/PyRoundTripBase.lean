/- helper lemmas for the decode-inverts-encode theorem (C02): scalars and slices at a position -/
import ProphyModel.Lemmas.PyRoundTripView
namespace Prophy
open Prophy WF Accept

/-! ### bytes at a position -/
theorem Py.slice_at (data pre bs post : Bytes) (pos : Nat) (hd : data = pre ++ (bs ++ post))
    (hp : pre.length = pos) : Py.slice data pos bs.length = bs := by
  subst hd hp; simp [Py.slice]

theorem Py.drop_at (data pre bs : Bytes) (pos : Nat) (hd : data = pre ++ bs) (hp : pre.length = pos) :
    data.drop pos = bs := by
  subst hd hp; simp

theorem Py.isSigned_of_float (p : Prim) (h : p.isFloat = true) : p.isSigned = false := by
  cases p <;> simp_all [Prim.isFloat, Prim.isSigned]

theorem Py.size_pos (p : Prim) : 0 < p.size := by cases p <;> simp [Prim.size]

/-- the guarded unpack reads back what pack wrote, at any position, for every scalar type -/
theorem Py.decScalar_at (e : Endian) (p : Prim) (i : Int) (data pre post : Bytes) (pos : Nat)
    (hd : data = pre ++ (scalarBytes e p.size (toUnsigned p.size i) ++ post)) (hp : pre.length = pos)
    (hr : inRange p i = true) : Py.decScalar e p data pos = .ok (i, p.size) := by
  have hlen : (scalarBytes e p.size (toUnsigned p.size i)).length = p.size := scalarBytes_length _ _ _
  have hs := Py.slice_at data pre _ post pos hd hp
  rw [hlen] at hs
  unfold Py.decScalar
  have hguard : ¬ ((data.length : Int) - (pos : Int) < (p.size : Int)) := by
    subst hd hp; simp [List.length_append, hlen]; omega
  rw [if_neg hguard]
  simp only [bind, Except.bind, hs, Py.unpack, hlen, if_true, scalarVal_scalarBytes, pure, Except.pure]
  rw [Nat.mod_eq_of_lt (toUnsigned_lt _ _)]
  simp only [inRange, Bool.and_eq_true, decide_eq_true_eq] at hr
  unfold Prophy.primRange at hr
  by_cases hf : p.isFloat = true
  · rw [Py.isSigned_of_float p hf]
    rw [hf] at hr
    simp only [if_true] at hr
    simp only [Bool.false_eq_true, if_false]
    rw [toUnsigned_nonneg p.size i hr.1 hr.2]
  · have hf' : p.isFloat = false := by simpa using hf
    rw [hf'] at hr
    simp only [Bool.false_eq_true, if_false] at hr
    by_cases hs : p.isSigned = true
    · rw [hs] at hr
      simp only [if_true] at hr
      simp only [hs, if_true]
      rw [toSigned_toUnsigned p.size i hr.1 hr.2 (Py.size_pos p)]
    · have hs' : p.isSigned = false := by simpa using hs
      rw [hs'] at hr
      simp only [Bool.false_eq_true, if_false] at hr
      simp only [hs', Bool.false_eq_true, if_false]
      rw [toUnsigned_nonneg p.size i hr.1 hr.2]

theorem scalarBytes_zero (e : Endian) (k : Nat) : scalarBytes e k 0 = zeros k := by
  have h : ∀ k, leBytes k 0 = zeros k := by
    intro k
    induction k with
    | zero => rfl
    | succ k ih => simp only [leBytes, ih, zeros, List.replicate_succ]; rfl
  cases e <;> simp [scalarBytes, h, zeros]

theorem inRange_nat_lt (p : Prim) (n : Nat) (h : inRange p (n : Int) = true) : n < 256 ^ p.size := by
  simp only [inRange, Bool.and_eq_true, decide_eq_true_eq] at h
  have h2 := h.2
  cases p <;> simp [primRange, Prim.isFloat, Prim.isSigned, Prim.size] at h2 ⊢ <;> omega

/-- a `k`-byte scalar chunk holding the natural `n` read at a position -/
theorem Py.decScalar_nat_at (e : Endian) (p : Prim) (n : Nat) (data pre post : Bytes) (pos : Nat)
    (hd : data = pre ++ (scalarBytes e p.size n ++ post)) (hp : pre.length = pos)
    (hr : inRange p (n : Int) = true) : Py.decScalar e p data pos = .ok ((n : Int), p.size) := by
  apply Py.decScalar_at e p n data pre post pos _ hp hr
  rw [toUnsigned_nat p.size n (inRange_nat_lt p n hr)]; exact hd

theorem Py.decSizer_at (e : Endian) (p : Prim) (c sh : Nat) (data pre post : Bytes) (pos : Nat)
    (hd : data = pre ++ (scalarBytes e p.size (c + sh) ++ post)) (hp : pre.length = pos)
    (hr : inRange p ((c + sh : Nat) : Int) = true) (hg : c ≤ guardLimit) :
    Py.decSizer e p sh data pos = .ok (c, p.size) := by
  unfold Py.decSizer
  rw [Py.decScalar_nat_at e p (c + sh) data pre post pos hd hp hr]
  have hg' : ¬ (((c + sh : Nat) : Int) - (sh : Int) > (Py.arrayGuard : Int)) := by
    unfold guardLimit at hg; unfold Py.arrayGuard; omega
  have hs' : ¬ (((c + sh : Nat) : Int) - (sh : Int) < 0) := by omega
  simp only [bind, Except.bind]
  rw [if_neg hg', if_neg hs']
  simp only [pure, Except.pure]
  congr 2
  omega

end Prophy

/- values of fixed types have encodings of the static size; encodings are multiples of the alignment -/
import ProphyModel.Lemmas.PyRoundTripBase
namespace Prophy
open Prophy WF Accept

theorem Spec.fixedArms_get : (arms : List Arm) → Spec.fixedArms arms = true → ∀ (idx : Nat) (a : Arm),
    arms[idx]? = some a → Spec.fixedTy a.ty = true ∧ Spec.sizeTy a.ty ≤ Spec.maxArm arms
  | [], _, idx, a, h => by simp at h
  | .mk n d t :: r, hw, idx, a, h => by
    have hw' : Spec.fixedTy t = true ∧ Spec.fixedArms r = true := by simpa [Spec.fixedArms] using hw
    cases idx with
    | zero =>
      simp at h; subst h
      exact ⟨hw'.1, by simp only [Spec.maxArm, Arm.ty]; omega⟩
    | succ i =>
      simp at h
      have := Spec.fixedArms_get r hw'.2 i a h
      exact ⟨this.1, by simp only [Spec.maxArm]; omega⟩

theorem clen_cons (c : Spec.Chunk) (r : List Spec.Chunk) : Spec.clen (c :: r) = c.len + Spec.clen r := rfl
theorem clen_nil : Spec.clen [] = 0 := rfl

mutual
  theorem fixed_field : (v : Val) → ∀ (all : List Member) (allv : List Val) (n : String) (t : Ty) (k : MKind),
      Spec.fixedTy t = true → k.isStatic = true → hasField all k t v = true →
      Spec.clen (Spec.fieldChunks all allv n t k v) = Spec.slot t k
    | .sizer, all, allv, n, t, k, hfx, hk, hh => by
      have hk : k = .plain := by cases k <;> simp_all [hasField]
      subst hk
      simp [Spec.fieldChunks, Spec.clen, Spec.Chunk.len, Spec.slot]
    | .int i, all, allv, n, t, k, hfx, hk, hh => by
      have hk : k = .plain := by cases k <;> cases t <;> simp_all [hasField]
      subst hk
      cases t <;> simp_all [hasField, Spec.fieldChunks, Spec.chunksTy, Spec.clen, Spec.Chunk.len, Spec.slot, Spec.sizeTy]
    | .struct vs, all, allv, n, t, k, hfx, hk, hh => by
      cases t with
      | struct nm ms =>
        have hk : k = .plain := by cases k <;> simp_all [hasField]
        subst hk
        have hhm : hasMs ms ms vs = true := by simpa [hasField] using hh
        have hfm : Spec.fixedMs ms = true := by simpa [Spec.fixedTy] using hfx
        have := fixed_ms vs ms ms vs 0 hfm hhm
        rw [Nat.zero_add] at this
        simp only [Spec.fieldChunks, Spec.chunksTy, Spec.clen_append, clen_cons, clen_nil, Spec.Chunk.len, Spec.slot,
          Spec.sizeTy, alignUp]
        rw [← this]; omega
      | prim p => cases k <;> simp [hasField] at hh
      | byte => cases k <;> simp [hasField] at hh
      | enum nm es => cases k <;> simp [hasField] at hh
      | union nm arms => cases k <;> simp [hasField] at hh
    | .union idx x, all, allv, n, t, k, hfx, hk, hh => by
      cases t with
      | union nm arms =>
        have hk : k = .plain := by cases k <;> simp_all [hasField]
        subst hk
        simp only [hasField, Bool.true_and] at hh
        cases ha : arms[idx]? with
        | none => simp [ha] at hh
        | some a =>
          obtain ⟨an, d, t'⟩ := a
          simp only [ha, Bool.and_eq_true, Bool.not_eq_true'] at hh
          have hfa : Spec.fixedArms arms = true := by simpa [Spec.fixedTy] using hfx
          obtain ⟨hft', hle⟩ := Spec.fixedArms_get arms hfa idx _ ha
          have h1 := fixed_field x [] [] "" t' .plain hft' rfl hh.2
          rw [Spec.fieldChunks_plain [] [] "" t' x hh.1] at h1
          simp only [Spec.slot, Arm.ty] at h1 hle
          have hsz : Spec.sizeTy (.union nm arms) = alignUp (max Spec.flagSize (Spec.alignArms arms) + Spec.maxArm arms)
              (max Spec.flagSize (Spec.alignArms arms)) := by simp [Spec.sizeTy]
          have hnm : Spec.sizeTy (.union "" arms) = Spec.sizeTy (.union nm arms) := by simp [Spec.sizeTy]
          have hge := le_alignUp (max Spec.flagSize (Spec.alignArms arms) + Spec.maxArm arms) (max Spec.flagSize (Spec.alignArms arms))
          simp only [Spec.fieldChunks, Spec.chunksTy, ha, Spec.clen_append, clen_cons, clen_nil, Spec.Chunk.len, Spec.slot,
            h1, hnm]
          rw [hsz] at *
          simp only [Spec.flagSize] at *
          omega
      | prim p => cases k <;> simp [hasField] at hh
      | byte => cases k <;> simp [hasField] at hh
      | enum nm es => cases k <;> simp [hasField] at hh
      | struct nm ms => cases k <;> simp [hasField] at hh
    | .absent, all, allv, n, t, k, hfx, hk, hh => by
      have hk : k = .optional := by cases k <;> simp_all [hasField]
      subst hk
      simp [Spec.fieldChunks, Spec.clen, Spec.Chunk.len, Spec.slot]
    | .present x, all, allv, n, t, k, hfx, hk, hh => by
      have hk : k = .optional := by cases k <;> simp_all [hasField]
      subst hk
      simp only [hasField, Bool.true_and, Bool.and_eq_true, Bool.not_eq_true'] at hh
      have h1 := fixed_field x all allv n t .plain hfx rfl hh.2
      rw [Spec.fieldChunks_plain all allv n t x hh.1] at h1
      simp only [Spec.slot] at h1
      simp only [Spec.fieldChunks, Spec.clen_append, clen_cons, clen_nil, Spec.Chunk.len, Spec.slot, h1, Spec.flagSize]
      omega
    | .bytes b, all, allv, n, t, k, hfx, hk, hh => by
      have ht : t = .byte := by cases t <;> simp_all [hasField]
      subst ht
      cases k with
      | plain => simp [hasField] at hh
      | optional => simp [hasField] at hh
      | fixed c =>
        have hl : b.length = c := by simpa [hasField] using hh
        simp [Spec.fieldChunks, Spec.clen, Spec.Chunk.len, Spec.slot, Spec.sizeTy, hl]
      | dyn s sh => simp [MKind.isStatic] at hk
      | limited s c =>
        have hl : b.length ≤ c := by
          simp only [hasField, Bool.true_and, Bool.and_eq_true, decide_eq_true_eq] at hh; exact hh.1
        simp only [Spec.fieldChunks, clen_cons, clen_nil, Spec.Chunk.len, Spec.slot, Spec.sizeTy]
        omega
      | greedy => simp [MKind.isStatic] at hk
    | .arr xs, all, allv, n, t, k, hfx, hk, hh => by
      have hel : hasElems t xs = true := by
        cases t <;> simp_all [hasField]
      have h1 := fixed_elems xs t hfx hel
      cases k with
      | plain => cases t <;> simp [hasField] at hh
      | optional => cases t <;> simp [hasField] at hh
      | fixed c =>
        have hl : xs.length = c := by cases t <;> simp_all [hasField]
        simp [Spec.fieldChunks, Spec.slot, h1, hl]
      | dyn s sh => simp [MKind.isStatic] at hk
      | greedy => simp [MKind.isStatic] at hk
      | limited s c =>
        have hl : xs.length ≤ c := by cases t <;> simp_all [hasField]
        have := Nat.mul_le_mul_right (Spec.sizeTy t) hl
        simp only [Spec.fieldChunks, Spec.clen_append, clen_cons, clen_nil, Spec.Chunk.len, Spec.slot, h1]
        omega
  theorem fixed_ms : (vs : List Val) → ∀ (ms all : List Member) (allv : List Val) (off : Nat),
      Spec.fixedMs ms = true → hasMs all ms vs = true →
      off + Spec.clen (Spec.chunksMs all allv ms vs off false) = Spec.endMs ms off false
    | [], ms, all, allv, off, hfx, hh => by
      have hms : ms = [] := by cases ms <;> simp_all [hasMs]
      subst hms
      simp [Spec.chunksMs, Spec.clen, Spec.endMs]
    | v :: vs, ms, all, allv, off, hfx, hh => by
      cases ms with
      | nil => simp [hasMs] at hh
      | cons m r =>
        obtain ⟨n, t, k⟩ := m
        obtain ⟨hk, ht, hfr⟩ := (Spec.fixedMs_cons n t k r).1 hfx
        obtain ⟨_, hf, hhr⟩ := (hasMs_cons all n t k r v vs).1 hh
        have h1 := fixed_field v all allv n t k ht hk hf
        have heb := Spec.endsBlock_of_fixed n t k r hfx
        have h2 := fixed_ms vs r all allv (off + padTo off (Spec.alignMember (.mk n t k)) + Spec.slot t k) hfr hhr
        rw [Spec.chunksMs_cons, Spec.endMs_cons, heb, h1]
        simp only [Bool.false_eq_true, if_false, clen_cons, Spec.clen_append, Spec.Chunk.len, h1, alignUp]
        rw [← h2]; omega
  theorem fixed_elems : (xs : List Val) → ∀ (t : Ty), Spec.fixedTy t = true → hasElems t xs = true →
      Spec.clen (Spec.chunksElems t xs) = xs.length * Spec.sizeTy t
    | [], t, hfx, hh => by simp [Spec.chunksElems, Spec.clen]
    | x :: xs, t, hfx, hh => by
      simp only [hasElems, Bool.and_eq_true, Bool.not_eq_true'] at hh
      have h1 := fixed_field x [] [] "" t .plain hfx rfl hh.1.2
      rw [Spec.fieldChunks_plain [] [] "" t x hh.1.1] at h1
      have h2 := fixed_elems xs t hfx hh.2
      simp only [Spec.slot] at h1
      simp only [Spec.chunksElems, Spec.clen_append, h1, h2, List.length_cons, Nat.add_mul, Nat.one_mul]
      omega
end

/-- a value of a fixed type encodes to exactly the static size of the type -/
theorem Spec.clen_fixed (t : Ty) (v : Val) (hfx : Spec.fixedTy t = true) (hc : v.isCounter = false)
    (hh : hasField [] .plain t v = true) : Spec.clen (Spec.chunksTy t v) = Spec.sizeTy t := by
  have := fixed_field v [] [] "" t .plain hfx rfl hh
  rwa [Spec.fieldChunks_plain [] [] "" t v hc] at this

end Prophy

namespace Prophy
open Prophy WF Accept

theorem Spec.fixedTy_union_of_wf (nm : String) (arms : List Arm) (hw : wfTy (.union nm arms) = true) :
    Spec.fixedTy (.union nm arms) = true := by
  simp only [wfTy, Bool.and_eq_true] at hw
  simpa [Spec.fixedTy] using WF.fixedArms_of_wf arms hw.2

/-- every encoding is a multiple of the type's alignment long -/
theorem Spec.align_dvd_clen (t : Ty) (v : Val) (hw : wfTy t = true) (hc : v.isCounter = false)
    (hh : hasField [] .plain t v = true) : Spec.alignTy t ∣ Spec.clen (Spec.chunksTy t v) := by
  cases t with
  | prim p => cases v <;> simp_all [hasField, Spec.chunksTy, Spec.clen, Spec.Chunk.len, Spec.alignTy]
  | byte => cases v <;> simp_all [hasField, Spec.chunksTy, Spec.clen, Spec.Chunk.len, Spec.alignTy]
  | enum nm es => cases v <;> simp_all [hasField, Spec.chunksTy, Spec.clen, Spec.Chunk.len, Spec.alignTy]
  | struct nm ms =>
    cases v with
    | struct vs =>
      simp only [Spec.chunksTy, Spec.clen_append, clen_cons, clen_nil, Spec.Chunk.len, Spec.alignTy, Nat.add_zero]
      exact dvd_alignUp _ _ (Spec.alignMs_pos ms)
    | _ => simp_all [hasField, Val.isCounter]
  | union nm arms =>
    rw [Spec.clen_fixed _ v (Spec.fixedTy_union_of_wf nm arms hw) hc hh]
    simp only [Spec.sizeTy, Spec.alignTy]
    exact dvd_alignUp _ _ (by simp only [Spec.flagSize]; omega)

end Prophy

/- C09: the fuel the model of `prophy::swap` needs is bounded by the static nesting depth of the schema plus the
   length of the message -/
import ProphyModel.Lemmas.RawSwapWalk
set_option linter.unusedSimpArgs false
namespace Prophy
namespace Raw
open Accept PL WF

mutual
  /-- static nesting depth of a schema tree, in calls of the model (`swapTy` -> `swapParts` -> `swapMembers` ...) -/
  def depthTy : Ty → Nat
    | .struct _ ms => 2 + depthMs ms
    | .union _ arms => 1 + depthArms arms
    | _ => 1
  def depthMs : List Member → Nat
    | [] => 0
    | .mk _ t _ :: r => 1 + max (depthTy t + 1) (depthMs r)
  def depthArms : List Arm → Nat
    | [] => 0
    | .mk _ _ t :: r => max (depthTy t) (depthArms r)
end

/-- the bound proved by induction on the value -/
def BOK (v : Val) : Prop := ∀ (t : Ty), front t = true → pyRt t = true → v.isCounter = false →
  hasField [] .plain t v = true → needTy t v ≤ depthTy t + Spec.clen (Spec.chunksTy t v)

def DeepB (v : Val) : Prop :=
  BOK v ∧ (∀ x, v = .present x → BOK x) ∧ (∀ xs, v = .arr xs → ∀ x ∈ xs, BOK x)

theorem bound_elems (t : Ty) (hf : front t = true) (hp : pyRt t = true) (hu : (Py.stTy t).unl = false) :
    (xs : List Val) → (∀ x ∈ xs, BOK x) → hasElems t xs = true →
    needElems t xs ≤ depthTy t + 1 + Spec.clen (Spec.chunksElems t xs)
  | [], _, _ => by simp only [needElems]; omega
  | x :: xs, hok, hh => by
    obtain ⟨hc, hx, hr⟩ := (hasElems_cons t x xs).1 hh
    have h1 := hok x (List.mem_cons_self ..) t hf hp hc hx
    have h2 := bound_elems t hf hp hu xs (fun y hy => hok y (List.mem_cons_of_mem _ hy)) hr
    have h3 := Spec.clen_pos t x hf hp hu hc hx
    simp only [needElems, Spec.chunksElems, Spec.clen_append]
    omega

theorem clen_fc_arr (all : List Member) (allv : List Val) (n : String) (t : Ty) (k : MKind) (xs : List Val)
    (hk : isArrayKind k = true) :
    Spec.clen (Spec.chunksElems t xs) ≤ Spec.clen (Spec.fieldChunks all allv n t k (.arr xs)) := by
  cases k <;> simp [isArrayKind] at hk <;> simp [Spec.fieldChunks, Spec.clen_append]

theorem clen_fc_bytes (all : List Member) (allv : List Val) (n : String) (t : Ty) (k : MKind) (b : Bytes)
    (hk : isArrayKind k = true) :
    b.length ≤ Spec.clen (Spec.fieldChunks all allv n t k (.bytes b)) := by
  cases k <;> simp [isArrayKind] at hk <;> simp [Spec.fieldChunks, Spec.clen, Spec.Chunk.len]

theorem bound_field (all : List Member) (allv : List Val) (n : String) (t : Ty) (k : MKind) (v : Val)
    (hf : front t = true) (hp : pyRt t = true) (hh : hasField all k t v = true)
    (hua : isArrayKind k = true → (Py.stTy t).unl = false) (hdeep : DeepB v) :
    needField t v ≤ depthTy t + 1 + Spec.clen (Spec.fieldChunks all allv n t k v) := by
  cases v with
  | sizer => simp only [needField]; omega
  | absent => simp only [needField]; omega
  | present x =>
    have hk : k = .optional := by cases k <;> simp_all [hasField]
    subst hk
    simp only [hasField, Bool.true_and, Bool.and_eq_true, Bool.not_eq_true'] at hh
    have hx' : hasField [] .plain t x = true := by rw [hasField_plain_indep [] all]; exact hh.2
    have := hdeep.2.1 x rfl t hf hp hh.1 hx'
    simp only [needField, Spec.fieldChunks, Spec.clen_append]
    omega
  | arr xs =>
    have hk : isArrayKind k = true := by cases k <;> cases t <;> simp_all [hasField, isArrayKind]
    have hel : hasElems t xs = true := by
      simp only [hasField, Bool.and_eq_true] at hh; exact hh.2
    have h1 := bound_elems t hf hp (hua hk) xs (hdeep.2.2 xs rfl) hel
    have h2 := clen_fc_arr all allv n t k xs hk
    simp only [needField]
    omega
  | bytes b =>
    have hk : isArrayKind k = true := by cases k <;> cases t <;> simp_all [hasField, isArrayKind]
    have h2 := clen_fc_bytes all allv n t k b hk
    simp only [needField]
    omega
  | int i =>
    have hk : k = .plain := by cases k <;> cases t <;> simp_all [hasField]
    subst hk
    have hh' : hasField [] .plain t (.int i) = true := by rw [hasField_plain_indep [] all]; exact hh
    have := hdeep.1 t hf hp rfl hh'
    rw [Spec.fieldChunks_plain all allv n t _ rfl]
    simp only [needField]
    omega
  | struct vs =>
    have hk : k = .plain := by cases k <;> cases t <;> simp_all [hasField]
    subst hk
    have hh' : hasField [] .plain t (.struct vs) = true := by rw [hasField_plain_indep [] all]; exact hh
    have := hdeep.1 t hf hp rfl hh'
    rw [Spec.fieldChunks_plain all allv n t _ rfl]
    simp only [needField]
    omega
  | union idx x =>
    have hk : k = .plain := by cases k <;> cases t <;> simp_all [hasField]
    subst hk
    have hh' : hasField [] .plain t (.union idx x) = true := by rw [hasField_plain_indep [] all]; exact hh
    have := hdeep.1 t hf hp rfl hh'
    rw [Spec.fieldChunks_plain all allv n t _ rfl]
    simp only [needField]
    omega

theorem bound_ms (all : List Member) (allv : List Val) : (ms : List Member) → ∀ (vs : List Val) (before : List Member),
    frontMs all ms before = true → pyRtMs all ms before = true → hasMs all ms vs = true →
    (∀ v ∈ vs, DeepB v) → ∀ (off : Nat) (ad : Bool),
    needMs ms vs ≤ depthMs ms + Spec.clen (Spec.chunksMs all allv ms vs off ad)
  | [], vs, _, _, _, _, _, _, _ => by cases vs <;> simp [needMs]
  | .mk n t k :: r, vs, before, hfm, hpm, hh, hdeep, off, ad => by
    cases vs with
    | nil => simp [hasMs] at hh
    | cons v vs =>
      obtain ⟨ht, _, _, _, _, hr⟩ := frontMs_cons_playou all n t k r before hfm
      obtain ⟨hpt, _, _, hua, _, _, _, hpr⟩ := (Accept.pyRtMs_cons all n t k r before).1 hpm
      obtain ⟨_, hfd, hhr⟩ := (hasMs_cons all n t k r v vs).1 hh
      have h1 := bound_field all allv n t k v ht hpt hfd hua (hdeep v (List.mem_cons_self ..))
      have h2 := bound_ms all allv r vs _ hr hpr hhr (fun x hx => hdeep x (List.mem_cons_of_mem _ hx))
        (off + padTo off (if ad then Spec.blockAlign (.mk n t k :: r) else Spec.alignMember (.mk n t k))
          + Spec.clen (Spec.fieldChunks all allv n t k v)) (Spec.endsBlock (.mk n t k))
      rw [needMs_cons, Spec.chunksMs_cons]
      simp only [depthMs, Spec.clen_cons, Spec.clen_append, Spec.Chunk.len]
      omega

theorem bok_struct (vs : List Val) (hvs : ∀ v ∈ vs, DeepB v) : BOK (.struct vs) := by
  intro t hf hp hc hh
  cases t with
  | prim p => simp [hasField] at hh
  | byte => simp [hasField] at hh
  | enum nm es => simp [hasField] at hh
  | union nm arms => simp [hasField] at hh
  | struct nm ms =>
    obtain ⟨_, _, _, hfm, hpm⟩ := Accept.struct_facts nm ms hf hp
    have hhm : hasMs ms ms vs = true := by simpa [hasField] using hh
    have := bound_ms ms vs ms vs [] hfm hpm hhm hvs 0 false
    simp only [needTy, depthTy, Spec.chunksTy, Spec.clen_append]
    omega

theorem depthArms_get : (arms : List Arm) → ∀ (idx : Nat) (a : Arm), arms[idx]? = some a →
    depthTy a.ty ≤ depthArms arms
  | [], idx, a, h => by simp at h
  | .mk n d t :: r, idx, a, h => by
    cases idx with
    | zero => simp at h; subst h; simp only [depthArms, Arm.ty]; omega
    | succ i =>
      simp at h
      have := depthArms_get r i a h
      simp only [depthArms]; omega

theorem bok_union (idx : Nat) (x : Val) (hx : BOK x) : BOK (.union idx x) := by
  intro t hf hp hc hh
  cases t with
  | prim p => simp [hasField] at hh
  | byte => simp [hasField] at hh
  | enum nm es => simp [hasField] at hh
  | struct nm ms => simp [hasField] at hh
  | union nm arms =>
    simp only [hasField, Bool.true_and] at hh
    cases harm : arms[idx]? with
    | none => simp [harm] at hh
    | some arm =>
      obtain ⟨an, d, t'⟩ := arm
      simp only [harm, Bool.and_eq_true, Bool.not_eq_true'] at hh
      have hfa : frontArms arms = true := by
        simp only [front, Bool.and_eq_true] at hf; exact hf.2
      have hpa : pyRtArms arms = true := by
        simp only [pyRt, Bool.and_eq_true] at hp; exact hp.2
      have hft' := Accept.frontArms_get arms hfa idx _ harm
      have hpt' := (Accept.pyRtArms_get arms hpa idx _ harm).1
      have hd := depthArms_get arms idx _ harm
      simp only [Arm.ty] at hft' hpt' hd
      have := hx t' hft' hpt' hh.1 hh.2
      simp only [needTy, harm, depthTy, Spec.chunksTy, Spec.clen_append, Spec.clen_cons, Spec.Chunk.len]
      omega

theorem bok_vacuous (v : Val) (h : ∀ t, hasField [] .plain t v = false) : BOK v := by
  intro t hf hp hc hh
  rw [h t] at hh; cases hh

mutual
  theorem deepB_ok : (v : Val) → DeepB v
    | .int i => by
      refine ⟨?_, ?_, ?_⟩
      · intro t hf hp hc hh
        cases t <;> simp [hasField] at hh <;> simp [needTy, depthTy]
      · intro x h; cases h
      · intro xs h; cases h
    | .bytes b => by
      refine ⟨bok_vacuous _ (fun t => by cases t <;> simp [hasField]), ?_, ?_⟩
      · intro x h; cases h
      · intro xs h; cases h
    | .arr xs => by
      refine ⟨bok_vacuous _ (fun t => by cases t <;> simp [hasField]), ?_, ?_⟩
      · intro x h; cases h
      · intro xs' h x hx
        injection h with h
        subst h
        exact (allB_ok xs x hx).1
    | .struct vs => by
      refine ⟨bok_struct vs (allB_ok vs), ?_, ?_⟩
      · intro x h; cases h
      · intro xs h; cases h
    | .union i x => by
      refine ⟨bok_union i x (deepB_ok x).1, ?_, ?_⟩
      · intro x h; cases h
      · intro xs h; cases h
    | .absent => by
      refine ⟨bok_vacuous _ (fun t => by cases t <;> simp [hasField]), ?_, ?_⟩
      · intro x h; cases h
      · intro xs h; cases h
    | .present x => by
      refine ⟨bok_vacuous _ (fun t => by cases t <;> simp [hasField]), ?_, ?_⟩
      · intro x' h
        injection h with h
        subst h
        exact (deepB_ok x).1
      · intro xs h; cases h
    | .sizer => by
      refine ⟨?_, ?_, ?_⟩
      · intro t hf hp hc
        simp [Val.isCounter] at hc
      · intro x h; cases h
      · intro xs h; cases h
  theorem allB_ok : (vs : List Val) → ∀ v ∈ vs, DeepB v
    | [], v, h => by cases h
    | x :: xs, v, h =>
      (List.mem_cons.1 h).elim (fun e => e ▸ deepB_ok x) (fun h' => allB_ok xs v h')
end

/-- the fuel needed is at most the static depth of the schema plus the length of the message -/
theorem needTy_le (t : Ty) (v : Val) (hf : front t = true) (hp : pyRt t = true) (hv : hasType t v = true) :
    needTy t v ≤ depthTy t + (Spec.enc t v .big).length := by
  simp only [hasType, Bool.and_eq_true, Bool.not_eq_true'] at hv
  have := (deepB_ok v).1 t hf hp hv.1 hv.2
  simpa only [Spec.enc, Spec.render_length] using this

end Raw
end Prophy

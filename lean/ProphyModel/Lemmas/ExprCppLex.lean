/-
  C14, the host LEXER: how a C++ compiler (translation phase 3, maximal munch) tokenises expression text
  that prophyc pastes into generated code, compared with calc's own lexer `Expr.lex false`.

  * `unwritable`  : prophyc/model.py
                    `UNWRITABLE_TEXT = [\x00-\x08\x0a-\x1f]|--|\+\+|(?<![A-Za-z0-9_])0[xX][0-9a-fA-F]*[eE][-+]` as a
                    scan (TAB, which calc skips like a blank, is not refused; `0x1e+` inside an identifier is not
                    refused);
  * `cppLex`      : phase 3 on the alphabet calc accepts (pp-numbers, identifiers, the punctuators made of
                    `+ - * / | ( ) < >`, comment openers), one step `cppHead`;
  * `ofCTok`      : which C++ tokens are calc tokens (and with which value);
  * `cpp_lexes_like_calc` : on a text calc lexes AND parses, that is writable and has no leading-zero literal,
                    the C++ tokens are calc's tokens.
-/
import ProphyModel.Expr
import ProphyModel.Lemmas.ExprLex
import ProphyModel.Lemmas.ExprPrint
namespace Prophy
namespace Expr

/-! ### 1. UNWRITABLE_TEXT -/

/-- the next character is `x` -/
def nextIs (x : Char) : List Char → Bool
  | d :: _ => d == x
  | [] => false

def isHexC (c : Char) : Bool := (hexVal? c).isSome
def isSignC (c : Char) : Bool := c == '+' || c == '-'

/-- after `0x`: `[0-9a-fA-F]*[eE][-+]` matches a prefix.  A sign is not a hex digit, so the only way to match is:
    the maximal run of hex digits ends in `e`/`E` (flag `lastE`) and the next character is a sign. -/
def hexE : Bool → List Char → Bool
  | _, [] => false
  | lastE, c :: r => if isHexC c then hexE (c == 'e' || c == 'E') r else lastE && isSignC c

/-- UNWRITABLE_TEXT matches at this position (`c` the character here, `r` the text after it, `prev` = the
    character before is an identifier character: the look-behind `(?<![A-Za-z0-9_])` of the hex clause) -/
def unwAt (prev : Bool) (c : Char) (r : List Char) : Bool :=
  decide (c.toNat < 32 ∧ c ≠ '\t') || (c == '-' && nextIs '-' r) || (c == '+' && nextIs '+' r) ||
  (!prev && c == '0' && (nextIs 'x' r || nextIs 'X' r) && hexE false r.tail)

/-- the scan, carrying "the previous character is an identifier character" (as `hlz` does) -/
def unw : Bool → List Char → Bool
  | _, [] => false
  | prev, c :: r => unwAt prev c r || unw (isIdChar c) r

/-- `re.search(UNWRITABLE_TEXT, text)` finds a match -/
def unwritable (cs : List Char) : Bool := unw false cs

/-! ### 2. translation phase 3 on calc's alphabet -/

inductive CTok
  | ppnum (cs : List Char) | ident (cs : List Char)
  | plus | minus | star | slash | bar | lpar | rpar | lt | gt | shl | shr
  | plusplus | minusminus | arrow | arrowStar | barbar | lineComment | blockComment
  deriving DecidableEq, Repr, Inhabited

/-- `e E p P`: the letters after which a sign continues a pp-number -/
def isExpLetter (c : Char) : Bool := c == 'e' || c == 'E' || c == 'p' || c == 'P'

/-- the continuation of a pp-number: digits, letters, `_`, `.`, a sign directly after `e E p P`, and `'`
    followed by a digit or letter; `prevE` says the previous character is one of `e E p P`.
    Result: (the run, what is left). -/
def ppSpan : Bool → List Char → List Char × List Char
  | _, [] => ([], [])
  | prevE, c :: r =>
    if isIdChar c || c == '.' then (c :: (ppSpan (isExpLetter c) r).1, (ppSpan (isExpLetter c) r).2)
    else if prevE && isSignC c then (c :: (ppSpan false r).1, (ppSpan false r).2)
    else if c == '\'' && (match r with
        | d :: _ => isIdChar d
        | [] => false) then (c :: (ppSpan false r).1, (ppSpan false r).2)
    else ([], c :: r)

/-- the text after the `*/` that closes a block comment (everything is comment when it is not closed) -/
def skipBlock : List Char → List Char
  | [] => []
  | c :: r => if c == '*' && nextIs '/' r then r.tail else skipBlock r

/-- one step of phase 3 on `c :: r`: `none` = a character outside calc's alphabet; `some (none, rest)` = blank;
    `some (some t, rest)` = the LONGEST token that starts here -/
def cppHead (c : Char) (r : List Char) : Option (Option CTok × List Char) :=
    if c == ' ' || c == '\t' then some (none, r)
    else if c == '+' then
      if nextIs '+' r then some (some .plusplus, r.tail) else some (some .plus, r)
    else if c == '-' then
      if nextIs '-' r then some (some .minusminus, r.tail)
      else if nextIs '>' r then
        if nextIs '*' r.tail then some (some .arrowStar, r.tail.tail) else some (some .arrow, r.tail)
      else some (some .minus, r)
    else if c == '*' then some (some .star, r)
    else if c == '/' then
      if nextIs '/' r then some (some .lineComment, [])
      else if nextIs '*' r then some (some .blockComment, skipBlock r.tail)
      else some (some .slash, r)
    else if c == '|' then
      if nextIs '|' r then some (some .barbar, r.tail) else some (some .bar, r)
    else if c == '(' then some (some .lpar, r)
    else if c == ')' then some (some .rpar, r)
    else if c == '<' then
      if nextIs '<' r then some (some .shl, r.tail) else some (some .lt, r)
    else if c == '>' then
      if nextIs '>' r then some (some .shr, r.tail) else some (some .gt, r)
    else if c.isDigit then some (some (.ppnum (c :: (ppSpan false r).1)), (ppSpan false r).2)
    else if isIdStart c then
      let (cs, rest) := takeWhileAcc isIdChar (c :: r) []
      some (some (.ident cs), rest)
    else none

def cppLex : Nat → List Char → Option (List CTok)
  | 0, _ => none
  | _, [] => some []
  | fuel + 1, c :: r =>
    match cppHead c r with
    | none => none
    | some (none, rest) => cppLex fuel rest
    | some (some t, rest) => (cppLex fuel rest).map (t :: ·)

/-! ### 3. which C++ tokens are calc tokens -/

/-- the value of a pp-number that is an integer literal calc also has: `0`, a decimal literal without leading
    zero, `0x` + hex digits.  Everything else (`012` octal, `0X1`, `1u`, `0b1`, `1'000`, `0xE+1`, `12ab`): `none`. -/
def ppValue : List Char → Option Nat
  | [] => none
  | c :: r =>
    if c == '0' then
      match r with
      | [] => some 0
      | d :: hs => if d == 'x' && !hs.isEmpty && hs.all isHexC then some (digitsVal 16 hs) else none
    else if (c :: r).all Char.isDigit then some (digitsVal 10 (c :: r)) else none

def ofCTok : CTok → Option Tok
  | .ppnum cs => (ppValue cs).map Tok.num
  | .ident cs => some (.ident (String.ofList cs))
  | .plus => some .plus
  | .minus => some .minus
  | .star => some .star
  | .slash => some .slash
  | .bar => some .bar
  | .lpar => some .lpar
  | .rpar => some .rpar
  | .shl => some .shl
  | .shr => some .shr
  | _ => none

/-- the C++ token stream read as calc tokens -/
def cppToks (n : Nat) (cs : List Char) : Option (List Tok) := (cppLex n cs).bind (fun cts => cts.mapM ofCTok)

/-! ### what a successful parse says about neighbouring tokens -/

/-- a two-state walk over the tokens: state `true` = an operand is expected (start, after an operator, after
    unary minus, after `(`), state `false` = an operand has just ended (after a literal, a name, `)`) -/
def okSeq : Bool → List Tok → Bool
  | _, [] => true
  | true, t :: r =>
    match t with
    | .num _ => okSeq false r
    | .ident _ => okSeq false r
    | .minus => okSeq true r
    | .lpar => okSeq true r
    | _ => false
  | false, t :: r =>
    match t with
    | .rpar => okSeq false r
    | .num _ => false
    | .ident _ => false
    | .lpar => false
    | _ => okSeq true r

theorem okSeq_opTok_p24 (op : BinOp) (r : List Tok) : okSeq false (opTok op :: r) = okSeq true r := by
  cases op <;> rfl

theorem Rep.okSeq_p24 {l : Nat} {a : Ast} {t : List Tok} (h : Rep l a t) :
    ∀ rest, okSeq true (t ++ rest) = okSeq false rest := by
  induction h with
  | num l n => intro rest; rfl
  | name l s => intro rest; rfl
  | neg l e t _ ih => intro rest; exact ih rest
  | bin l op x y tx ty _ _ _ ihx ihy =>
    intro rest
    rw [List.append_assoc, ihx, List.cons_append, okSeq_opTok_p24, ihy]
  | paren l a t _ ih =>
    intro rest
    have : (Tok.lpar :: t ++ [Tok.rpar]) ++ rest = Tok.lpar :: (t ++ (Tok.rpar :: rest)) := by simp
    rw [this]
    show okSeq true (t ++ (Tok.rpar :: rest)) = _
    rw [ih]; rfl

/-- the weakest consequence of "calc parses the tokens" the lexer comparison needs -/
theorem okSeq_of_parse (ts : List Tok) (hp : (parse ts).isSome = true) : okSeq true ts = true := by
  cases h : parse ts with
  | none => rw [h] at hp; cases hp
  | some a =>
    have := ((parse_iff_rep ts a).mp h).okSeq_p24 []
    rw [List.append_nil] at this
    rw [this]; rfl

/-! ### character classes -/

theorem beq_false_of_p24 (p : Char → Bool) (c x : Char) (hc : p c = true) (hx : p x = false) : (c == x) = false := by
  cases h : c == x with
  | false => rfl
  | true =>
    have := eq_of_beq h
    subst this
    rw [hx] at hc
    cases hc

theorem isIdChar_eq_p24 (c : Char) : isIdChar c = (isIdStart c || c.isDigit) := by
  simp only [isIdChar, isIdStart, Char.isAlphanum]
  cases c.isAlpha <;> cases c.isDigit <;> cases (c == '_') <;> rfl

theorem isDigit_isHexC_p24 (c : Char) (h : c.isDigit = true) : isHexC c = true := by
  have : '0' ≤ c ∧ c ≤ '9' := by
    simp only [Char.isDigit, Bool.and_eq_true, decide_eq_true_eq] at h
    exact ⟨h.1, h.2⟩
  unfold isHexC hexVal?
  rw [if_pos this]; rfl

theorem isHexC_isIdChar_p24 (c : Char) (h : isHexC c = true) : isIdChar c = true := by
  unfold isHexC hexVal? at h
  simp only [isIdChar, Char.isAlphanum, Char.isAlpha, Char.isUpper, Char.isLower, Char.isDigit, Bool.or_eq_true,
    Bool.and_eq_true, decide_eq_true_eq]
  simp only [Char.le_def] at h
  simp only [UInt32.le_iff_toNat_le] at h ⊢
  have e1 : ('0' : Char).val.toNat = 48 := by decide
  have e2 : ('9' : Char).val.toNat = 57 := by decide
  have e3 : ('a' : Char).val.toNat = 97 := by decide
  have e4 : ('f' : Char).val.toNat = 102 := by decide
  have e5 : ('A' : Char).val.toNat = 65 := by decide
  have e6 : ('F' : Char).val.toNat = 70 := by decide
  have e7 : ('z' : Char).val.toNat = 122 := by decide
  have e8 : ('Z' : Char).val.toNat = 90 := by decide
  have f1 : (48 : UInt32).toNat = 48 := by decide
  have f2 : (57 : UInt32).toNat = 57 := by decide
  have f3 : (97 : UInt32).toNat = 97 := by decide
  have f4 : (122 : UInt32).toNat = 122 := by decide
  have f5 : (65 : UInt32).toNat = 65 := by decide
  have f6 : (90 : UInt32).toNat = 90 := by decide
  split at h
  · rename_i h1; left; right; omega
  split at h
  · rename_i h1; left; left; right; omega
  split at h
  · rename_i h1; left; left; left; omega
  simp at h

theorem isDigit_isIdChar_p24 (c : Char) (h : c.isDigit = true) : isIdChar c = true := by
  rw [isIdChar_eq_p24, h]; simp

/-- `p`, `P` are not hex digits: on hex digits the flag of `hexE` is the flag of `ppSpan` -/
theorem hex_expLetter_p24 (c : Char) (h : isHexC c = true) : (c == 'e' || c == 'E') = isExpLetter c := by
  unfold isExpLetter
  rw [beq_false_of_p24 isHexC c 'p' h (by decide), beq_false_of_p24 isHexC c 'P' h (by decide)]
  simp

theorem digit_expLetter_p24 (c : Char) (h : c.isDigit = true) : isExpLetter c = false := by
  unfold isExpLetter
  rw [beq_false_of_p24 Char.isDigit c 'p' h (by decide), beq_false_of_p24 Char.isDigit c 'P' h (by decide),
    beq_false_of_p24 Char.isDigit c 'e' h (by decide), beq_false_of_p24 Char.isDigit c 'E' h (by decide)]
  rfl

/-! ### runs of a pp-number -/

/-- the `prevE` flag after the run `ds` -/
def endE (e : Bool) (ds : List Char) : Bool := ds.foldl (fun _ c => isExpLetter c) e

theorem ppSpan_cons_p24 (e : Bool) (c : Char) (r : List Char) :
    ppSpan e (c :: r) =
      if isIdChar c || c == '.' then (c :: (ppSpan (isExpLetter c) r).1, (ppSpan (isExpLetter c) r).2)
      else if e && isSignC c then (c :: (ppSpan false r).1, (ppSpan false r).2)
      else if c == '\'' && (match r with
          | d :: _ => isIdChar d
          | [] => false) then (c :: (ppSpan false r).1, (ppSpan false r).2)
      else ([], c :: r) := by
  conv => lhs; unfold ppSpan

theorem ppSpan_ids_p24 : ∀ (ds : List Char) (e : Bool) (rest : List Char), (∀ d ∈ ds, isIdChar d = true) →
    ppSpan e (ds ++ rest) = (ds ++ (ppSpan (endE e ds) rest).1, (ppSpan (endE e ds) rest).2)
  | [], e, rest, _ => rfl
  | d :: ds, e, rest, h => by
    have hd := h d (List.mem_cons_self ..)
    have ih := ppSpan_ids_p24 ds (isExpLetter d) rest (fun x hx => h x (List.mem_cons_of_mem _ hx))
    rw [List.cons_append, ppSpan_cons_p24, hd, Bool.true_or, if_pos rfl, ih]
    rfl

theorem ppSpan_stop_p24 (e : Bool) (rest : List Char)
    (h : ∀ x, rest.head? = some x → isIdChar x = false ∧ x ≠ '.' ∧ x ≠ '\'' ∧ (e && isSignC x) = false) :
    ppSpan e rest = ([], rest) := by
  cases rest with
  | nil => rfl
  | cons x r =>
    obtain ⟨h1, h2, h3, h4⟩ := h x rfl
    rw [ppSpan_cons_p24, h1, h4]
    have e2 : (x == '.') = false := by simpa using h2
    have e3 : (x == '\'') = false := by simpa using h3
    rw [e2, e3]
    rfl

theorem endE_false_p24 : ∀ (ds : List Char), (∀ d ∈ ds, isExpLetter d = false) → endE false ds = false
  | [], _ => rfl
  | d :: ds, h => by
    have hd := h d (List.mem_cons_self ..)
    show endE (isExpLetter d) ds = false
    rw [hd]
    exact endE_false_p24 ds (fun x hx => h x (List.mem_cons_of_mem _ hx))

theorem hexE_cons_p24 (e : Bool) (c : Char) (r : List Char) :
    hexE e (c :: r) = if isHexC c then hexE (c == 'e' || c == 'E') r else e && isSignC c := by
  rw [hexE]

theorem hexE_run_p24 : ∀ (hs : List Char) (e : Bool) (rest : List Char), (∀ h ∈ hs, isHexC h = true) →
    hexE e (hs ++ rest) = hexE (endE e hs) rest
  | [], e, rest, _ => rfl
  | d :: hs, e, rest, h => by
    have hd := h d (List.mem_cons_self ..)
    rw [List.cons_append, hexE_cons_p24, if_pos hd, hex_expLetter_p24 d hd,
      hexE_run_p24 hs _ rest (fun x hx => h x (List.mem_cons_of_mem _ hx))]
    rfl

/-! ### one step of the C++ lexer against one step of calc's -/

theorem unwAt_plus_p24 (r : List Char) : unwAt false '+' r = nextIs '+' r := by
  unfold unwAt; cases nextIs '+' r <;> rfl

theorem unwAt_minus_p24 (r : List Char) : unwAt false '-' r = nextIs '-' r := by
  unfold unwAt; cases nextIs '-' r <;> rfl

theorem unwAt_hex_p24 (r' : List Char) : unwAt false '0' ('x' :: r') = hexE false r' := by
  unfold unwAt; rfl

theorem cppHead_digit_p24 (c : Char) (r : List Char) (hd : c.isDigit = true) :
    cppHead c r = some (some (.ppnum (c :: (ppSpan false r).1)), (ppSpan false r).2) := by
  have ne : ∀ x : Char, x.isDigit = false → (c == x) = false :=
    fun x hx => beq_false_of_p24 Char.isDigit c x hd hx
  unfold cppHead
  simp [ne ' ' (by decide), ne '\t' (by decide), ne '+' (by decide), ne '-' (by decide), ne '*' (by decide),
    ne '/' (by decide), ne '|' (by decide), ne '(' (by decide), ne ')' (by decide), ne '<' (by decide),
    ne '>' (by decide), hd]

theorem cppHead_ident_p24 (c : Char) (r : List Char) (hs : isIdStart c = true) :
    cppHead c r = (match takeWhileAcc isIdChar (c :: r) [] with
      | (cs, rest) => some (some (CTok.ident cs), rest)) := by
  have ne : ∀ x : Char, isIdStart x = false → (c == x) = false :=
    fun x hx => beq_false_of_p24 isIdStart c x hs hx
  unfold cppHead
  simp [ne ' ' (by decide), ne '\t' (by decide), ne '+' (by decide), ne '-' (by decide), ne '*' (by decide),
    ne '/' (by decide), ne '|' (by decide), ne '(' (by decide), ne ')' (by decide), ne '<' (by decide),
    ne '>' (by decide), isIdStart_not_digit_p22 c hs, hs]

/-- the two steps correspond: both skip a blank, or the C++ token is calc's token -/
def Corr (ot : Option Tok) (oct : Option CTok) : Prop :=
  (ot = none ∧ oct = none) ∨ ∃ t ct, ot = some t ∧ oct = some ct ∧ ofCTok ct = some t

theorem lexHead_hex_p24 (octal : Bool) (r' : List Char) : lexHead octal '0' ('x' :: r') = numHex r' := by
  unfold lexHead; rfl

theorem cppHead_agree_p24 (c : Char) (r : List Char) (ot : Option Tok) (rest : List Char)
    (h : lexHead false c r = some (ot, rest))
    (hu : unwAt false c r = false) (hz : hlz false (c :: r) = false)
    (hm : c = '-' → nextIs '>' r = false)
    (hs : c = '/' → nextIs '/' r = false ∧ nextIs '*' r = false)
    (hb : c = '|' → nextIs '|' r = false)
    (hd : c.isDigit = true → ∀ x, rest.head? = some x → isIdStart x = false ∧ x ≠ '.' ∧ x ≠ '\'') :
    ∃ oct, cppHead c r = some (oct, rest) ∧ Corr ot oct := by
  by_cases hdg : c.isDigit = true
  · have hd' := hd hdg
    by_cases hx : ∃ r', c = '0' ∧ r = 'x' :: r'
    · obtain ⟨r', rfl, rfl⟩ := hx
      rw [lexHead_hex_p24] at h
      unfold numHex at h
      cases hw : takeWhileAcc (fun d => (hexVal? d).isSome) r' [] with
      | mk hxs rest' =>
        rw [hw] at h
        dsimp only at h
        split at h
        · cases h
        · rename_i hne
          cases h
          obtain ⟨e, hall, hhead⟩ := run_spec_p22 _ _ _ _ hw
          subst e
          have hall' : ∀ x ∈ hxs, isHexC x = true := hall
          rw [unwAt_hex_p24, hexE_run_p24 hxs false rest hall'] at hu
          have hsp : ppSpan false ('x' :: (hxs ++ rest)) = ('x' :: hxs, rest) := by
            have := ppSpan_ids_p24 ('x' :: hxs) false rest (by
              intro d hd
              rcases List.mem_cons.mp hd with hd | hd
              · subst hd; decide
              · exact isHexC_isIdChar_p24 d (hall' d hd))
            rw [List.cons_append] at this
            rw [this, ppSpan_stop_p24]
            · simp
            · intro x hx
              obtain ⟨h1, h2, h3⟩ := hd' x hx
              have hxh : isHexC x = false := hhead x hx
              have hxd : x.isDigit = false := by
                cases hxd : x.isDigit with
                | false => rfl
                | true => rw [isDigit_isHexC_p24 x hxd] at hxh; cases hxh
              refine ⟨by rw [isIdChar_eq_p24, h1, hxd]; rfl, h2, h3, ?_⟩
              cases rest with
              | nil => cases hx
              | cons y rest2 =>
                simp only [List.head?_cons, Option.some.injEq] at hx
                subst hx
                rw [hexE_cons_p24, hxh] at hu
                exact hu
          refine ⟨some (.ppnum ('0' :: 'x' :: hxs)), ?_, Or.inr ⟨_, _, rfl, rfl, ?_⟩⟩
          · rw [cppHead_digit_p24 '0' _ (by decide), hsp]
          · have hall2 : hxs.all isHexC = true := List.all_eq_true.mpr hall'
            have hne' : hxs.isEmpty = false := by simpa using hne
            simp [ofCTok, ppValue, hall2, hne']
    · rw [lexHead_digit_p22 false c r hdg hx] at h
      unfold numDec at h
      cases hw : takeWhileAcc Char.isDigit (c :: r) [] with
      | mk ds rest' =>
        rw [hw] at h
        simp only [Bool.false_and, Bool.false_eq_true, if_false] at h
        cases h
        obtain ⟨-, hall, hhead⟩ := run_spec_p22 _ _ _ _ hw
        obtain ⟨ds', e1, e2⟩ := run_ne_nil_p22 _ _ _ _ _ hdg hw
        subst e1; subst e2
        have hallr : ∀ x ∈ ds', x.isDigit = true := fun x hx => hall x (List.mem_cons_of_mem _ hx)
        have hsp : ppSpan false (ds' ++ rest) = (ds', rest) := by
          rw [ppSpan_ids_p24 ds' false rest (fun x hx => isDigit_isIdChar_p24 x (hallr x hx)),
            endE_false_p24 ds' (fun x hx => digit_expLetter_p24 x (hallr x hx)), ppSpan_stop_p24]
          · simp
          · intro x hx
            obtain ⟨h1, h2, h3⟩ := hd' x hx
            have hxd : x.isDigit = false := hhead x hx
            exact ⟨by rw [isIdChar_eq_p24, h1, hxd]; rfl, h2, h3, rfl⟩
        refine ⟨some (.ppnum (c :: ds')), ?_, Or.inr ⟨_, _, rfl, rfl, ?_⟩⟩
        · rw [cppHead_digit_p24 c _ hdg, hsp]
        · by_cases hc0 : c = '0'
          · subst hc0
            have : ds' = [] := by
              cases ds' with
              | nil => rfl
              | cons d ds2 =>
                have hdd := hallr d (List.mem_cons_self ..)
                unfold hlz at hz
                simp [hdd] at hz
            subst this
            rfl
          · have hall2 : (c :: ds').all Char.isDigit = true := List.all_eq_true.mpr hall
            have hc0' : (c == '0') = false := by simpa using hc0
            simp only [ofCTok, ppValue, hc0', hall2]
            simp
  by_cases his : isIdStart c = true
  · rw [lexHead_ident_p22 false c r his] at h
    rw [cppHead_ident_p24 c r his]
    cases hw : takeWhileAcc isIdChar (c :: r) [] with
    | mk cs rest' =>
      rw [hw] at h
      cases h
      exact ⟨some (.ident cs), rfl, Or.inr ⟨_, _, rfl, rfl, rfl⟩⟩
  unfold lexHead at h
  by_cases h0 : (c == ' ' || c == '\t') = true
  · rw [if_pos h0] at h; cases h
    simp only [Bool.or_eq_true, beq_iff_eq] at h0
    refine ⟨none, ?_, Or.inl ⟨rfl, rfl⟩⟩
    unfold cppHead
    rcases h0 with rfl | rfl <;> rfl
  rw [if_neg h0] at h
  by_cases h1 : (c == '+') = true
  · rw [if_pos h1] at h; cases h
    simp only [beq_iff_eq] at h1
    subst h1
    rw [unwAt_plus_p24] at hu
    refine ⟨some .plus, ?_, Or.inr ⟨_, _, rfl, rfl, rfl⟩⟩
    unfold cppHead; rw [hu]; rfl
  rw [if_neg h1] at h
  by_cases h2 : (c == '-') = true
  · rw [if_pos h2] at h; cases h
    simp only [beq_iff_eq] at h2
    subst h2
    rw [unwAt_minus_p24] at hu
    refine ⟨some .minus, ?_, Or.inr ⟨_, _, rfl, rfl, rfl⟩⟩
    unfold cppHead; rw [hu, hm rfl]; rfl
  rw [if_neg h2] at h
  by_cases h3 : (c == '*') = true
  · rw [if_pos h3] at h; cases h
    simp only [beq_iff_eq] at h3
    subst h3
    exact ⟨some .star, by unfold cppHead; rfl, Or.inr ⟨_, _, rfl, rfl, rfl⟩⟩
  rw [if_neg h3] at h
  by_cases h4 : (c == '/') = true
  · rw [if_pos h4] at h; cases h
    simp only [beq_iff_eq] at h4
    subst h4
    refine ⟨some .slash, ?_, Or.inr ⟨_, _, rfl, rfl, rfl⟩⟩
    unfold cppHead; rw [(hs rfl).1, (hs rfl).2]; rfl
  rw [if_neg h4] at h
  by_cases h5 : (c == '|') = true
  · rw [if_pos h5] at h; cases h
    simp only [beq_iff_eq] at h5
    subst h5
    refine ⟨some .bar, ?_, Or.inr ⟨_, _, rfl, rfl, rfl⟩⟩
    unfold cppHead; rw [hb rfl]; rfl
  rw [if_neg h5] at h
  by_cases h6 : (c == '(') = true
  · rw [if_pos h6] at h; cases h
    simp only [beq_iff_eq] at h6
    subst h6
    exact ⟨some .lpar, by unfold cppHead; rfl, Or.inr ⟨_, _, rfl, rfl, rfl⟩⟩
  rw [if_neg h6] at h
  by_cases h7 : (c == ')') = true
  · rw [if_pos h7] at h; cases h
    simp only [beq_iff_eq] at h7
    subst h7
    exact ⟨some .rpar, by unfold cppHead; rfl, Or.inr ⟨_, _, rfl, rfl, rfl⟩⟩
  rw [if_neg h7] at h
  by_cases h8 : (c == '<') = true
  · rw [if_pos h8] at h
    simp only [beq_iff_eq] at h8
    subst h8
    split at h
    · cases h
      exact ⟨some .shl, by unfold cppHead; rfl, Or.inr ⟨_, _, rfl, rfl, rfl⟩⟩
    · cases h
  rw [if_neg h8] at h
  by_cases h9 : (c == '>') = true
  · rw [if_pos h9] at h
    simp only [beq_iff_eq] at h9
    subst h9
    split at h
    · cases h
      exact ⟨some .shr, by unfold cppHead; rfl, Or.inr ⟨_, _, rfl, rfl, rfl⟩⟩
    · cases h
  rw [if_neg h9] at h
  rw [if_neg hdg, if_neg his] at h
  cases h

/-! ### the first character of the rest decides the next token -/

theorem lex_first_tok_p24 (n : Nat) (x : Char) (r2 : List Char) (ts : List Tok) (t : Tok) (rest2 : List Char)
    (hl : lex false n (x :: r2) = some ts) (hh : lexHead false x r2 = some (some t, rest2)) :
    ∃ ts2, ts = t :: ts2 := by
  cases n with
  | zero => rw [lex_zero_p22] at hl; cases hl
  | succ n =>
    rw [lex_succ_cons, hh] at hl
    simp only [lexCont, Option.map_eq_some_iff] at hl
    obtain ⟨t', -, rfl⟩ := hl
    exact ⟨t', rfl⟩

theorem lex_first_none_p24 (n : Nat) (x : Char) (r2 : List Char) (ts : List Tok)
    (hl : lex false n (x :: r2) = some ts) (hh : lexHead false x r2 = none) : False := by
  cases n with
  | zero => rw [lex_zero_p22] at hl; cases hl
  | succ n =>
    rw [lex_succ_cons, hh] at hl
    cases hl

theorem lexHead_gt_p24 (r2 : List Char) :
    lexHead false '>' r2 = none ∨ ∃ r', lexHead false '>' r2 = some (some Tok.shr, r') := by
  have e : lexHead false '>' r2 = (match r2 with
      | '>' :: r' => some (some Tok.shr, r')
      | _ => none) := by unfold lexHead; rfl
  split at e
  · exact Or.inr ⟨_, e⟩
  · exact Or.inl e

/-- where an operand is expected, the text does not go on with `>`, `|`, `/`, `*` -/
theorem first_expect_operand_p24 (n : Nat) (x : Char) (r2 : List Char) (ts : List Tok)
    (hl : lex false n (x :: r2) = some ts) (hs : okSeq true ts = true) :
    x ≠ '>' ∧ x ≠ '|' ∧ x ≠ '/' ∧ x ≠ '*' := by
  refine ⟨?_, ?_, ?_, ?_⟩
  · rintro rfl
    rcases lexHead_gt_p24 r2 with e | ⟨r', e⟩
    · exact lex_first_none_p24 _ _ _ _ hl e
    · obtain ⟨ts2, rfl⟩ := lex_first_tok_p24 _ _ _ _ _ _ hl e
      simp [okSeq] at hs
  · rintro rfl
    have e : lexHead false '|' r2 = some (some Tok.bar, r2) := by unfold lexHead; rfl
    obtain ⟨ts2, rfl⟩ := lex_first_tok_p24 _ _ _ _ _ _ hl e
    simp [okSeq] at hs
  · rintro rfl
    have e : lexHead false '/' r2 = some (some Tok.slash, r2) := by unfold lexHead; rfl
    obtain ⟨ts2, rfl⟩ := lex_first_tok_p24 _ _ _ _ _ _ hl e
    simp [okSeq] at hs
  · rintro rfl
    have e : lexHead false '*' r2 = some (some Tok.star, r2) := by unfold lexHead; rfl
    obtain ⟨ts2, rfl⟩ := lex_first_tok_p24 _ _ _ _ _ _ hl e
    simp [okSeq] at hs

/-- after an operand the text does not go on with a letter or `_` -/
theorem first_after_operand_p24 (n : Nat) (x : Char) (r2 : List Char) (ts : List Tok)
    (hl : lex false n (x :: r2) = some ts) (hs : okSeq false ts = true) : isIdStart x = false := by
  cases hi : isIdStart x with
  | false => rfl
  | true =>
    exfalso
    have e := lexHead_ident_p22 false x r2 hi
    cases hw : takeWhileAcc isIdChar (x :: r2) [] with
    | mk cs rest2 =>
      rw [hw] at e
      obtain ⟨ts2, rfl⟩ := lex_first_tok_p24 _ _ _ _ _ _ hl e
      simp [okSeq] at hs

theorem first_lexable_p24 (n : Nat) (x : Char) (r2 : List Char) (ts : List Tok)
    (hl : lex false n (x :: r2) = some ts) : x ≠ '.' ∧ x ≠ '\'' := by
  constructor
  · rintro rfl
    exact lex_first_none_p24 _ _ _ _ hl (by unfold lexHead; rfl)
  · rintro rfl
    exact lex_first_none_p24 _ _ _ _ hl (by unfold lexHead; rfl)

theorem lexHead_digit_num_p24 (c : Char) (r : List Char) (ot : Option Tok) (rest : List Char)
    (hdg : c.isDigit = true) (h : lexHead false c r = some (ot, rest)) : ∃ v, ot = some (Tok.num v) := by
  by_cases hx : ∃ r', c = '0' ∧ r = 'x' :: r'
  · obtain ⟨r', rfl, rfl⟩ := hx
    rw [lexHead_hex_p24] at h
    unfold numHex at h
    cases hw : takeWhileAcc (fun d => (hexVal? d).isSome) r' [] with
    | mk hxs rest' =>
      rw [hw] at h
      dsimp only at h
      split at h
      · cases h
      · cases h; exact ⟨_, rfl⟩
  · rw [lexHead_digit_p22 false c r hdg hx] at h
    unfold numDec at h
    cases hw : takeWhileAcc Char.isDigit (c :: r) [] with
    | mk ds rest' =>
      rw [hw] at h
      simp only [Bool.false_and, Bool.false_eq_true, if_false] at h
      cases h; exact ⟨_, rfl⟩

theorem nextIs_false_p24 (y : Char) (r : List Char) (h : ∀ x r2, r = x :: r2 → x ≠ y) : nextIs y r = false := by
  cases r with
  | nil => rfl
  | cons x r2 =>
    have := h x r2 rfl
    show (x == y) = false
    simpa using this

/-- what the step lemma needs, from "calc lexes the rest and the token sequence walks" -/
theorem ctx_p24 (n : Nat) (c : Char) (r : List Char) (ot : Option Tok) (rest : List Char) (ts : List Tok) (st : Bool)
    (hh : lexHead false c r = some (ot, rest)) (hl : lexCont (lex false n) (some (ot, rest)) = some ts)
    (hs : okSeq st ts = true) :
    (c = '-' → nextIs '>' r = false) ∧ (c = '/' → nextIs '/' r = false ∧ nextIs '*' r = false) ∧
    (c = '|' → nextIs '|' r = false) ∧
    (c.isDigit = true → ∀ x, rest.head? = some x → isIdStart x = false ∧ x ≠ '.' ∧ x ≠ '\'') := by
  refine ⟨?_, ?_, ?_, ?_⟩
  · rintro rfl
    have e : lexHead false '-' r = some (some Tok.minus, r) := by unfold lexHead; rfl
    rw [e] at hh; cases hh
    simp only [lexCont, Option.map_eq_some_iff] at hl
    obtain ⟨ts', hl', rfl⟩ := hl
    have hs' : okSeq true ts' = true := by cases st <;> simpa [okSeq] using hs
    exact nextIs_false_p24 _ _ (fun x r2 e => by subst e; exact (first_expect_operand_p24 n x r2 ts' hl' hs').1)
  · rintro rfl
    have e : lexHead false '/' r = some (some Tok.slash, r) := by unfold lexHead; rfl
    rw [e] at hh; cases hh
    simp only [lexCont, Option.map_eq_some_iff] at hl
    obtain ⟨ts', hl', rfl⟩ := hl
    have hs' : okSeq true ts' = true := by cases st <;> simp [okSeq] at hs <;> exact hs
    exact ⟨nextIs_false_p24 _ _ (fun x r2 e => by subst e; exact (first_expect_operand_p24 n x r2 ts' hl' hs').2.2.1),
      nextIs_false_p24 _ _ (fun x r2 e => by subst e; exact (first_expect_operand_p24 n x r2 ts' hl' hs').2.2.2)⟩
  · rintro rfl
    have e : lexHead false '|' r = some (some Tok.bar, r) := by unfold lexHead; rfl
    rw [e] at hh; cases hh
    simp only [lexCont, Option.map_eq_some_iff] at hl
    obtain ⟨ts', hl', rfl⟩ := hl
    have hs' : okSeq true ts' = true := by cases st <;> simp [okSeq] at hs <;> exact hs
    exact nextIs_false_p24 _ _ (fun x r2 e => by subst e; exact (first_expect_operand_p24 n x r2 ts' hl' hs').2.1)
  · intro hdg x hx
    obtain ⟨v, rfl⟩ := lexHead_digit_num_p24 c r ot rest hdg hh
    simp only [lexCont, Option.map_eq_some_iff] at hl
    obtain ⟨ts', hl', rfl⟩ := hl
    have hs' : okSeq false ts' = true := by cases st <;> simp [okSeq] at hs <;> exact hs
    cases rest with
    | nil => cases hx
    | cons y r2 =>
      simp only [List.head?_cons, Option.some.injEq] at hx
      subst hx
      exact ⟨first_after_operand_p24 n _ r2 ts' hl' hs', first_lexable_p24 n _ r2 ts' hl'⟩

/-! ### 4. the main theorem -/

theorem isIdChar_ge_p24 (c : Char) (h : isIdChar c = true) : 48 ≤ c.toNat := by
  simp [isIdChar, Char.isAlphanum, Char.isAlpha, Char.isUpper, Char.isLower, Char.isDigit] at h
  simp only [UInt32.le_iff_toNat_le] at h
  show 48 ≤ c.val.toNat
  have e1 : (65 : UInt32).toNat = 65 := by decide
  have e2 : (97 : UInt32).toNat = 97 := by decide
  have e3 : (48 : UInt32).toNat = 48 := by decide
  rcases h with ((h | h) | h) | h
  all_goals first | omega | (subst h; decide)

theorem unwAt_id_p24 (b : Bool) (c : Char) (r : List Char) (h : isIdChar c = true) (h0 : b = true ∨ c ≠ '0') :
    unwAt b c r = false := by
  have hge := isIdChar_ge_p24 c h
  have e1 : (c == '-') = false := beq_false_of_p24 isIdChar c '-' h (by decide)
  have e2 : (c == '+') = false := beq_false_of_p24 isIdChar c '+' h (by decide)
  have e3 : decide (c.toNat < 32 ∧ c ≠ '\t') = false := by
    rw [decide_eq_false_iff_not]; intro h'; omega
  have e4 : (!b && c == '0') = false := by
    rcases h0 with rfl | h0
    · rfl
    · have : (c == '0') = false := by simpa using h0
      rw [this]; simp
  unfold unwAt
  rw [e1, e2, e3, e4]
  rfl

/-- the flag matters only when the text starts with `'0'` -/
theorem unw_flag_p24 (b b' : Bool) (cs : List Char) (hh : ∀ x, cs.head? = some x → x ≠ '0') :
    unw b cs = unw b' cs := by
  cases cs with
  | nil => rfl
  | cons c r =>
    have : (c == '0') = false := by
      have := hh c rfl
      simpa using this
    unfold unw unwAt
    simp [this]

theorem unw_ids_p24 : ∀ (pre rest : List Char), (∀ x ∈ pre, isIdChar x = true) →
    unw true (pre ++ rest) = unw true rest
  | [], _, _ => rfl
  | p :: pre, rest, h => by
    have hp := h p (List.mem_cons_self ..)
    rw [List.cons_append, unw, unwAt_id_p24 true p _ hp (Or.inl rfl), hp, Bool.false_or]
    exact unw_ids_p24 pre rest (fun x hx => h x (List.mem_cons_of_mem _ hx))

/-- a token made of identifier characters (a name, a literal): only its first position can match -/
theorem unw_run_p24 (c : Char) (pre rest : List Char) (hc : isIdChar c = true) (hall : ∀ x ∈ pre, isIdChar x = true)
    (hhead : ∀ x, rest.head? = some x → x ≠ '0') :
    unw false (c :: (pre ++ rest)) = (unwAt false c (pre ++ rest) || unw false rest) := by
  rw [unw, hc, unw_ids_p24 pre rest hall, unw_flag_p24 true false rest hhead]

theorem unw_single_p24 (c : Char) (r : List Char) (hc : isIdChar c = false) :
    unw false (c :: r) = (unwAt false c r || unw false r) := by
  rw [unw, hc]

/-- the scan along one step of calc's lexer: a match starts at the token's first character, or in the rest -/
theorem lexHead_unw_p24 (c : Char) (r : List Char) (ot : Option Tok) (rest : List Char)
    (h : lexHead false c r = some (ot, rest)) :
    unw false (c :: r) = (unwAt false c r || unw false rest) := by
  by_cases hdg : c.isDigit = true
  · by_cases hx : ∃ r', c = '0' ∧ r = 'x' :: r'
    · obtain ⟨r', rfl, rfl⟩ := hx
      rw [lexHead_hex_p24] at h
      unfold numHex at h
      cases hw : takeWhileAcc (fun d => (hexVal? d).isSome) r' [] with
      | mk hxs rest' =>
        rw [hw] at h
        dsimp only at h
        split at h
        · cases h
        · cases h
          obtain ⟨e, hall, hhead⟩ := run_spec_p22 _ _ _ _ hw
          subst e
          have hall' : ∀ x ∈ hxs, isHexC x = true := hall
          exact unw_run_p24 '0' ('x' :: hxs) rest (by decide) (by
            intro d hd
            rcases List.mem_cons.mp hd with hd | hd
            · subst hd; decide
            · exact isHexC_isIdChar_p24 d (hall' d hd)) (by
            intro x hx e0
            subst e0
            have := hhead _ hx
            revert this; decide)
    · rw [lexHead_digit_p22 false c r hdg hx] at h
      unfold numDec at h
      cases hw : takeWhileAcc Char.isDigit (c :: r) [] with
      | mk ds rest' =>
        rw [hw] at h
        simp only [Bool.false_and, Bool.false_eq_true, if_false] at h
        cases h
        obtain ⟨-, hall, hhead⟩ := run_spec_p22 _ _ _ _ hw
        obtain ⟨ds', e1, e2⟩ := run_ne_nil_p22 _ _ _ _ _ hdg hw
        subst e1; subst e2
        exact unw_run_p24 c ds' rest (isDigit_isIdChar_p24 c hdg)
          (fun x hx => isDigit_isIdChar_p24 x (hall x (List.mem_cons_of_mem _ hx))) (by
            intro x hx e0
            subst e0
            have := hhead _ hx
            revert this; decide)
  by_cases his : isIdStart c = true
  · rw [lexHead_ident_p22 false c r his] at h
    cases hw : takeWhileAcc isIdChar (c :: r) [] with
    | mk cs rest' =>
      rw [hw] at h
      cases h
      obtain ⟨-, hall, hhead⟩ := run_spec_p22 _ _ _ _ hw
      obtain ⟨ds', e1, e2⟩ := run_ne_nil_p22 _ _ _ _ _ (isIdStart_isIdChar_p22 c his) hw
      subst e1; subst e2
      exact unw_run_p24 c ds' rest (isIdStart_isIdChar_p22 c his)
        (fun x hx => hall x (List.mem_cons_of_mem _ hx)) (by
          intro x hx e0
          subst e0
          have := hhead _ hx
          revert this; decide)
  have hid : isIdChar c = false := by
    rw [isIdChar_eq_p24]
    simp only [Bool.not_eq_true] at hdg his
    rw [hdg, his]; rfl
  unfold lexHead at h
  by_cases h0 : (c == ' ' || c == '\t') = true
  · rw [if_pos h0] at h; cases h; exact unw_single_p24 c r hid
  rw [if_neg h0] at h
  by_cases h1 : (c == '+') = true
  · rw [if_pos h1] at h; cases h; exact unw_single_p24 c r hid
  rw [if_neg h1] at h
  by_cases h2 : (c == '-') = true
  · rw [if_pos h2] at h; cases h; exact unw_single_p24 c r hid
  rw [if_neg h2] at h
  by_cases h3 : (c == '*') = true
  · rw [if_pos h3] at h; cases h; exact unw_single_p24 c r hid
  rw [if_neg h3] at h
  by_cases h4 : (c == '/') = true
  · rw [if_pos h4] at h; cases h; exact unw_single_p24 c r hid
  rw [if_neg h4] at h
  by_cases h5 : (c == '|') = true
  · rw [if_pos h5] at h; cases h; exact unw_single_p24 c r hid
  rw [if_neg h5] at h
  by_cases h6 : (c == '(') = true
  · rw [if_pos h6] at h; cases h; exact unw_single_p24 c r hid
  rw [if_neg h6] at h
  by_cases h7 : (c == ')') = true
  · rw [if_pos h7] at h; cases h; exact unw_single_p24 c r hid
  rw [if_neg h7] at h
  by_cases h8 : (c == '<') = true
  · rw [if_pos h8] at h
    simp only [beq_iff_eq] at h8
    subst h8
    split at h
    · cases h
      have e : unwAt false '<' rest = false := by unfold unwAt; rfl
      rw [unw_single_p24 '<' _ (by decide), unw_single_p24 '<' rest (by decide), e, Bool.false_or]
    · cases h
  rw [if_neg h8] at h
  by_cases h9 : (c == '>') = true
  · rw [if_pos h9] at h
    simp only [beq_iff_eq] at h9
    subst h9
    split at h
    · cases h
      have e : unwAt false '>' rest = false := by unfold unwAt; rfl
      rw [unw_single_p24 '>' _ (by decide), unw_single_p24 '>' rest (by decide), e, Bool.false_or]
    · cases h
  rw [if_neg h9] at h
  rw [if_neg hdg, if_neg his] at h
  cases h

theorem cppLex_succ_cons_p24 (n : Nat) (c : Char) (r : List Char) :
    cppLex (n + 1) (c :: r) = (match cppHead c r with
      | none => none
      | some (none, rest) => cppLex n rest
      | some (some t, rest) => (cppLex n rest).map (t :: ·)) := by
  rw [cppLex]

theorem okSeq_tail_p24 (st : Bool) (t : Tok) (ts : List Tok) (h : okSeq st (t :: ts) = true) :
    ∃ st', okSeq st' ts = true := by
  cases st <;> cases t <;> first | exact ⟨true, h⟩ | exact ⟨false, h⟩ | (simp [okSeq] at h)

theorem cpp_lex_agree_p24 (n : Nat) : ∀ (cs : List Char) (ts : List Tok) (st : Bool), cs.length < n →
    lex false n cs = some ts → okSeq st ts = true → unwritable cs = false → hlz false cs = false →
    cppToks n cs = some ts := by
  induction n with
  | zero => intro cs ts st hn; omega
  | succ n ih =>
    intro cs ts st hn hl hs hu hz
    cases cs with
    | nil =>
      rw [lex_succ_nil_p22] at hl
      cases hl
      rfl
    | cons c r =>
      rw [lex_succ_cons] at hl
      cases hh : lexHead false c r with
      | none => rw [hh] at hl; cases hl
      | some p =>
        obtain ⟨ot, rest⟩ := p
        rw [hh] at hl
        have hlen := lexHead_length false c r ot rest hh
        have hu : unw false (c :: r) = false := hu
        rw [lexHead_unw_p24 c r ot rest hh, Bool.or_eq_false_iff] at hu
        have hu' : unwritable rest = false := hu.2
        have hz' := lexHead_hlz false c r ot rest hh false hz
        have hu0 : unwAt false c r = false := hu.1
        obtain ⟨c1, c2, c3, c4⟩ := ctx_p24 n c r ot rest ts st hh hl hs
        obtain ⟨oct, hc, hcorr⟩ := cppHead_agree_p24 c r ot rest hh hu0 hz c1 c2 c3 c4
        simp only [List.length_cons] at hn
        rcases hcorr with ⟨rfl, rfl⟩ | ⟨t, ct, rfl, rfl, hof⟩
        · have := ih rest ts st (by omega) hl hs hu' hz'
          unfold cppToks at this ⊢
          rw [cppLex_succ_cons_p24, hc]
          exact this
        · simp only [lexCont, Option.map_eq_some_iff] at hl
          obtain ⟨ts', hl', rfl⟩ := hl
          obtain ⟨st', hs'⟩ := okSeq_tail_p24 st t ts' hs
          have := ih rest ts' st' (by omega) hl' hs' hu' hz'
          unfold cppToks at this ⊢
          rw [cppLex_succ_cons_p24, hc]
          cases hcl : cppLex n rest with
          | none => rw [hcl] at this; cases this
          | some cts =>
            rw [hcl] at this
            simp only [Option.bind_some] at this
            show ((cppLex n rest).map (ct :: ·)).bind (fun cts => List.mapM ofCTok cts) = some (t :: ts')
            rw [hcl]
            simp [List.mapM_cons, hof, this]

/-- **Main theorem.**  A text that calc lexes and PARSES, that UNWRITABLE_TEXT lets pass and that has no
    leading-zero literal is cut into the same tokens, with the same values, by a C++ compiler. -/
theorem cpp_lexes_like_calc (cs : List Char) (ts : List Tok) (n : Nat) (hn : cs.length < n)
    (hl : lex false n cs = some ts) (hp : (parse ts).isSome) (hw : unwritable cs = false)
    (hz : hasLeadingZero cs = false) :
    (cppLex n cs).bind (fun cts => cts.mapM ofCTok) = some ts :=
  cpp_lex_agree_p24 n cs ts true hn hl (okSeq_of_parse ts hp) hw hz

/-! ### 1 (continued). `unwritable` is the regular expression -/

theorem sign_not_hex_p24 (c : Char) (h : isSignC c = true) : isHexC c = false := by
  simp only [isSignC, Bool.or_eq_true, beq_iff_eq] at h
  rcases h with rfl | rfl <;> decide

theorem eE_hex_p24 (c : Char) (h : c = 'e' ∨ c = 'E') : isHexC c = true := by
  rcases h with rfl | rfl <;> decide

/-- `[0-9a-fA-F]*[eE][-+]` matches a prefix of `r` (for `e = false`; with `e = true` the `[eE]` may be the
    character before `r`) -/
theorem hexE_iff_p24 : ∀ (r : List Char) (e : Bool), hexE e r = true ↔
    ((e = true ∧ ∃ S rest, r = S :: rest ∧ isSignC S = true) ∨
     ∃ hs E S rest, r = hs ++ E :: S :: rest ∧ (∀ h ∈ hs, isHexC h = true) ∧ (E = 'e' ∨ E = 'E') ∧ isSignC S = true)
  | [], e => by
    constructor
    · intro h; cases h
    · rintro (⟨-, S, rest, h, -⟩ | ⟨hs, E, S, rest, h, -⟩)
      · cases h
      · cases hs <;> cases h
  | c :: r, e => by
    rw [hexE_cons_p24]
    constructor
    · intro h
      by_cases hc : isHexC c = true
      · rw [if_pos hc] at h
        rcases (hexE_iff_p24 r _).mp h with ⟨he, S, rest, rfl, hS⟩ | ⟨hs, E, S, rest, rfl, hall, hE, hS⟩
        · refine Or.inr ⟨[], c, S, rest, rfl, by simp, ?_, hS⟩
          simpa using he
        · refine Or.inr ⟨c :: hs, E, S, rest, rfl, ?_, hE, hS⟩
          intro x hx
          rcases List.mem_cons.mp hx with hx | hx
          · subst hx; exact hc
          · exact hall x hx
      · rw [if_neg hc] at h
        simp only [Bool.and_eq_true] at h
        exact Or.inl ⟨h.1, c, r, rfl, h.2⟩
    · rintro (⟨he, S, rest, h, hS⟩ | ⟨hs, E, S, rest, h, hall, hE, hS⟩)
      · cases h
        rw [if_neg (by rw [sign_not_hex_p24 c hS]; simp), he, hS]; rfl
      · cases hs with
        | nil =>
          simp only [List.nil_append, List.cons.injEq] at h
          obtain ⟨rfl, rfl⟩ := h
          rw [if_pos (eE_hex_p24 c hE)]
          exact (hexE_iff_p24 _ _).mpr (Or.inl ⟨by simpa using hE, S, rest, rfl, hS⟩)
        | cons d hs =>
          simp only [List.cons_append, List.cons.injEq] at h
          obtain ⟨rfl, rfl⟩ := h
          rw [if_pos (hall c (List.mem_cons_self ..))]
          exact (hexE_iff_p24 _ _).mpr (Or.inr ⟨hs, E, S, rest, rfl,
            fun x hx => hall x (List.mem_cons_of_mem _ hx), hE, hS⟩)

/-- a match of UNWRITABLE_TEXT starts here: a control character other than TAB, `--`, `++`, or
    `(?<![A-Za-z0-9_])0[xX][0-9a-fA-F]*[eE][-+]` (`prev` = the character before is an identifier character) -/
def RegexAt (prev : Bool) (c : Char) (r : List Char) : Prop :=
  (c.toNat < 32 ∧ c ≠ '\t') ∨ (c = '-' ∧ ∃ r', r = '-' :: r') ∨ (c = '+' ∧ ∃ r', r = '+' :: r') ∨
  (prev = false ∧ c = '0' ∧ ∃ X hs E S rest, r = X :: (hs ++ E :: S :: rest) ∧ (X = 'x' ∨ X = 'X') ∧
    (∀ h ∈ hs, isHexC h = true) ∧ (E = 'e' ∨ E = 'E') ∧ (S = '+' ∨ S = '-'))

theorem nextIs_iff_p24 (x : Char) (r : List Char) : nextIs x r = true ↔ ∃ r', r = x :: r' := by
  cases r with
  | nil => simp [nextIs]
  | cons d r' => simp [nextIs]

theorem unwAt_iff (b : Bool) (c : Char) (r : List Char) : unwAt b c r = true ↔ RegexAt b c r := by
  unfold unwAt RegexAt
  simp only [Bool.or_eq_true, Bool.and_eq_true, decide_eq_true_eq, beq_iff_eq, nextIs_iff_p24, Bool.not_eq_true']
  constructor
  · rintro (((h | h) | h) | ⟨⟨⟨hp, h0⟩, hx⟩, he⟩)
    · exact Or.inl h
    · exact Or.inr (Or.inl h)
    · exact Or.inr (Or.inr (Or.inl h))
    · refine Or.inr (Or.inr (Or.inr ⟨hp, h0, ?_⟩))
      have key : ∀ X r', r = X :: r' → (X = 'x' ∨ X = 'X') → ∃ X hs E S rest, r = X :: (hs ++ E :: S :: rest) ∧
          (X = 'x' ∨ X = 'X') ∧ (∀ h ∈ hs, isHexC h = true) ∧ (E = 'e' ∨ E = 'E') ∧ (S = '+' ∨ S = '-') := by
        intro X r' e hX
        subst e
        rcases (hexE_iff_p24 _ _).mp he with ⟨h, -⟩ | ⟨hs, E, S, rest, e, hall, hE, hS⟩
        · cases h
        · simp only [List.tail_cons] at e
          subst e
          exact ⟨X, hs, E, S, rest, rfl, hX, hall, hE, by simpa [isSignC] using hS⟩
      rcases hx with ⟨r', e⟩ | ⟨r', e⟩
      · exact key _ _ e (Or.inl rfl)
      · exact key _ _ e (Or.inr rfl)
  · rintro (h | h | h | ⟨hp, h0, X, hs, E, S, rest, e, hX, hall, hE, hS⟩)
    · exact Or.inl (Or.inl (Or.inl h))
    · exact Or.inl (Or.inl (Or.inr h))
    · exact Or.inl (Or.inr h)
    · subst e
      refine Or.inr ⟨⟨⟨hp, h0⟩, ?_⟩, ?_⟩
      · rcases hX with rfl | rfl
        · exact Or.inl ⟨_, rfl⟩
        · exact Or.inr ⟨_, rfl⟩
      · exact (hexE_iff_p24 _ _).mpr (Or.inr ⟨hs, E, S, rest, rfl, hall, hE, by simpa [isSignC] using hS⟩)

/-- the look-behind flag after the prefix `pre`: is its last character an identifier character (`b` when empty) -/
def prevId (b : Bool) (pre : List Char) : Bool := pre.foldl (fun _ p => isIdChar p) b

theorem prevId_eq_p24 : ∀ (pre : List Char) (b : Bool), prevId b pre = (match pre.getLast? with
    | some p => isIdChar p
    | none => b)
  | [], _ => rfl
  | p :: pre, b => by
    show prevId (isIdChar p) pre = _
    rw [prevId_eq_p24 pre, List.getLast?_cons]
    cases pre.getLast? <;> rfl

theorem prevId_false_iff (pre : List Char) :
    prevId false pre = false ↔ ∀ p, pre.getLast? = some p → isIdChar p = false := by
  rw [prevId_eq_p24]
  cases pre.getLast? with
  | none => simp
  | some q => simp

theorem unw_iff : ∀ (cs : List Char) (b : Bool), unw b cs = true ↔
    ∃ pre c r, cs = pre ++ c :: r ∧ RegexAt (prevId b pre) c r
  | [], b => by
    constructor
    · intro h; cases h
    · rintro ⟨pre, c, r, h, -⟩
      cases pre <;> cases h
  | c :: r, b => by
    rw [unw, Bool.or_eq_true, unwAt_iff, unw_iff r]
    constructor
    · rintro (h | ⟨pre, c', r', rfl, h⟩)
      · exact ⟨[], c, r, rfl, h⟩
      · exact ⟨c :: pre, c', r', rfl, h⟩
    · rintro ⟨pre, c', r', e, h⟩
      cases pre with
      | nil =>
        simp only [List.nil_append, List.cons.injEq] at e
        obtain ⟨rfl, rfl⟩ := e
        exact Or.inl h
      | cons p pre =>
        simp only [List.cons_append, List.cons.injEq] at e
        obtain ⟨rfl, rfl⟩ := e
        exact Or.inr ⟨pre, c', r', rfl, h⟩

/-- `unwritable` is `re.search(UNWRITABLE_TEXT, text)`: the regular expression matches at some position (the
    look-behind of the hex clause looks at the last character of `pre`) -/
theorem unwritable_iff (cs : List Char) :
    unwritable cs = true ↔ ∃ pre c r, cs = pre ++ c :: r ∧ RegexAt (prevId false pre) c r :=
  unw_iff cs false

/-! ### 5 (continued). where UNWRITABLE_TEXT matches, the C++ token is not a calc token -/

theorem cppHead_minusminus (r : List Char) :
    cppHead '-' ('-' :: r) = some (some .minusminus, r) ∧ ofCTok .minusminus = none := ⟨by unfold cppHead; rfl, rfl⟩

theorem cppHead_plusplus (r : List Char) :
    cppHead '+' ('+' :: r) = some (some .plusplus, r) ∧ ofCTok .plusplus = none := ⟨by unfold cppHead; rfl, rfl⟩

/-- `0x`, hex digits ending in `e`/`E`, a sign: the C++ token is a pp-number that goes on through the sign, and
    it is not an integer literal -/
theorem cppHead_hex_e_sign (hs : List Char) (E S : Char) (rest : List Char) (hall : ∀ h ∈ hs, isHexC h = true)
    (hE : E = 'e' ∨ E = 'E') (hS : isSignC S = true) :
    ∃ more rest', cppHead '0' ('x' :: (hs ++ E :: S :: rest)) = some (some (.ppnum ('0' :: 'x' :: (hs ++ E :: S :: more))), rest') ∧
      ofCTok (.ppnum ('0' :: 'x' :: (hs ++ E :: S :: more))) = none := by
  have hid : ∀ d ∈ 'x' :: (hs ++ [E]), isIdChar d = true := by
    intro d hd
    rcases List.mem_cons.mp hd with hd | hd
    · subst hd; decide
    rcases List.mem_append.mp hd with hd | hd
    · exact isHexC_isIdChar_p24 d (hall d hd)
    · simp only [List.mem_singleton] at hd
      subst hd
      exact isHexC_isIdChar_p24 d (eE_hex_p24 d hE)
  have hend : endE false ('x' :: (hs ++ [E])) = true := by
    unfold endE
    rw [List.foldl_cons, List.foldl_append]
    rcases hE with rfl | rfl <;> rfl
  have hS1 : isIdChar S = false := by
    simp only [isSignC, Bool.or_eq_true, beq_iff_eq] at hS
    rcases hS with rfl | rfl <;> decide
  have hS2 : (S == '.') = false := by
    simp only [isSignC, Bool.or_eq_true, beq_iff_eq] at hS
    rcases hS with rfl | rfl <;> decide
  have hsp := ppSpan_ids_p24 ('x' :: (hs ++ [E])) false (S :: rest) hid
  rw [hend, ppSpan_cons_p24 true S rest, hS1, hS2, hS] at hsp
  have e : 'x' :: (hs ++ [E]) ++ S :: rest = 'x' :: (hs ++ E :: S :: rest) := by simp
  rw [e] at hsp
  refine ⟨(ppSpan false rest).1, (ppSpan false rest).2, ?_, ?_⟩
  · rw [cppHead_digit_p24 '0' _ (by decide), hsp]
    simp
  · have : (hs ++ E :: S :: (ppSpan false rest).1).all isHexC = false := by
      rw [List.all_eq_false]
      exact ⟨S, by simp, by rw [sign_not_hex_p24 S hS]; simp⟩
    simp [ofCTok, ppValue, this]

/-! ### the converse: on a text calc accepts, a match of UNWRITABLE_TEXT means other C++ tokens -/

theorem cppToks_none_p24 (n : Nat) (c : Char) (r : List Char) (ct : CTok) (rest' : List Char)
    (hc : cppHead c r = some (some ct, rest')) (hof : ofCTok ct = none) (ts : List Tok) :
    cppToks (n + 1) (c :: r) ≠ some ts := by
  unfold cppToks
  rw [cppLex_succ_cons_p24, hc]
  show ((cppLex n rest').map (ct :: ·)).bind (fun cts => List.mapM ofCTok cts) ≠ some ts
  cases cppLex n rest' with
  | none => simp
  | some cts => simp [List.mapM_cons, hof]

theorem cppToks_cons_inv_p24 (n : Nat) (c : Char) (r : List Char) (ct : CTok) (rest : List Char) (t : Tok)
    (hc : cppHead c r = some (some ct, rest)) (hof : ofCTok ct = some t) (t' : Tok) (ts' : List Tok)
    (h : cppToks (n + 1) (c :: r) = some (t' :: ts')) : cppToks n rest = some ts' := by
  unfold cppToks at h ⊢
  rw [cppLex_succ_cons_p24, hc] at h
  have h : ((cppLex n rest).map (ct :: ·)).bind (fun cts => List.mapM ofCTok cts) = some (t' :: ts') := h
  cases hcl : cppLex n rest with
  | none => rw [hcl] at h; simp at h
  | some cts =>
    rw [hcl] at h
    cases hm : List.mapM ofCTok cts with
    | none => simp [List.mapM_cons, hof, hm] at h
    | some ys =>
      simp [List.mapM_cons, hof, hm] at h
      show List.mapM ofCTok cts = some ts'
      rw [hm, h.2]

theorem cppToks_blank_p24 (n : Nat) (c : Char) (r rest : List Char) (hc : cppHead c r = some (none, rest)) :
    cppToks (n + 1) (c :: r) = cppToks n rest := by
  unfold cppToks
  rw [cppLex_succ_cons_p24, hc]

/-- calc refuses every control character but TAB -/
theorem lexHead_control_none_p24 (c : Char) (r : List Char) (h : c.toNat < 32 ∧ c ≠ '\t') :
    lexHead false c r = none := by
  have ne : ∀ x : Char, 32 ≤ x.toNat → (c == x) = false := by
    intro x hx
    cases hcx : c == x with
    | false => rfl
    | true =>
      have := eq_of_beq hcx
      subst this
      omega
  have hd : c.isDigit = false := by
    cases hd : c.isDigit with
    | false => rfl
    | true => have := isIdChar_ge_p24 c (isDigit_isIdChar_p24 c hd); omega
  have hi : isIdStart c = false := by
    cases hi : isIdStart c with
    | false => rfl
    | true => have := isIdChar_ge_p24 c (isIdStart_isIdChar_p22 c hi); omega
  have ht : (c == '\t') = false := by simpa using h.2
  unfold lexHead
  simp [ne ' ' (by decide), ht, ne '+' (by decide), ne '-' (by decide), ne '*' (by decide),
    ne '/' (by decide), ne '|' (by decide), ne '(' (by decide), ne ')' (by decide), ne '<' (by decide),
    ne '>' (by decide), hd, hi]

/-- `0X...` (capital X): one pp-number for C++, and not a literal calc has -/
theorem cppHead_0X_p24 (r' : List Char) :
    cppHead '0' ('X' :: r') = some (some (.ppnum ('0' :: 'X' :: (ppSpan false r').1)), (ppSpan false r').2) ∧
      ofCTok (.ppnum ('0' :: 'X' :: (ppSpan false r').1)) = none := by
  constructor
  · rw [cppHead_digit_p24 '0' _ (by decide), ppSpan_cons_p24]; rfl
  · rfl

theorem cpp_lex_differs_p24 (n : Nat) : ∀ (cs : List Char) (ts : List Tok) (st : Bool),
    lex false n cs = some ts → okSeq st ts = true → hlz false cs = false → unw false cs = true →
    cppToks n cs ≠ some ts := by
  induction n with
  | zero => intro cs ts st hl; rw [lex_zero_p22] at hl; cases hl
  | succ n ih =>
    intro cs ts st hl hs hz hu
    cases cs with
    | nil => cases hu
    | cons c r =>
      rw [lex_succ_cons] at hl
      cases hh : lexHead false c r with
      | none => rw [hh] at hl; cases hl
      | some p =>
        obtain ⟨ot, rest⟩ := p
        rw [hh] at hl
        by_cases hA : unwAt false c r = true
        · -- the match starts at this token: the C++ token here is not a calc token
          rcases (unwAt_iff false c r).mp hA with h1 | ⟨rfl, r', rfl⟩ | ⟨rfl, r', rfl⟩ |
            ⟨-, rfl, X, hxs, E, S, rest', rfl, hX, hall, hE, hS⟩
          · rw [lexHead_control_none_p24 c r h1] at hh; cases hh
          · exact cppToks_none_p24 n _ _ _ _ (cppHead_minusminus r').1 rfl ts
          · exact cppToks_none_p24 n _ _ _ _ (cppHead_plusplus r').1 rfl ts
          · rcases hX with rfl | rfl
            · have hS' : isSignC S = true := by rcases hS with rfl | rfl <;> rfl
              obtain ⟨more, rest'', hc, hof⟩ := cppHead_hex_e_sign hxs E S rest' hall hE hS'
              exact cppToks_none_p24 n _ _ _ _ hc hof ts
            · exact cppToks_none_p24 n _ _ _ _ (cppHead_0X_p24 _).1 (cppHead_0X_p24 _).2 ts
        · -- the match is further on: this step agrees, go on
          have hA' : unwAt false c r = false := by simpa using hA
          rw [lexHead_unw_p24 c r ot rest hh, hA', Bool.false_or] at hu
          have hz' := lexHead_hlz false c r ot rest hh false hz
          obtain ⟨c1, c2, c3, c4⟩ := ctx_p24 n c r ot rest ts st hh hl hs
          obtain ⟨oct, hc, hcorr⟩ := cppHead_agree_p24 c r ot rest hh hA' hz c1 c2 c3 c4
          rcases hcorr with ⟨rfl, rfl⟩ | ⟨t, ct, rfl, rfl, hof⟩
          · rw [cppToks_blank_p24 n c r rest hc]
            exact ih rest ts st hl hs hz' hu
          · simp only [lexCont, Option.map_eq_some_iff] at hl
            obtain ⟨ts', hl', rfl⟩ := hl
            obtain ⟨st', hs'⟩ := okSeq_tail_p24 st t ts' hs
            intro heq
            exact ih rest ts' st' hl' hs' hz' hu (cppToks_cons_inv_p24 n c r ct rest t hc hof t ts' heq)

/-- **Converse.**  On a text that calc lexes and parses and that has no leading-zero literal, a match of
    UNWRITABLE_TEXT means that the C++ compiler does NOT read calc's tokens: the first match starts a token
    (`--`, `++`, or a pp-number running through the sign) that is no calc token. -/
theorem cpp_lex_differs_of_unwritable (cs : List Char) (ts : List Tok) (n : Nat)
    (hl : lex false n cs = some ts) (hp : (parse ts).isSome) (hz : hasLeadingZero cs = false)
    (hw : unwritable cs = true) :
    (cppLex n cs).bind (fun cts => cts.mapM ofCTok) ≠ some ts :=
  cpp_lex_differs_p24 n cs ts true hl (okSeq_of_parse ts hp) hz hw

/-- UNWRITABLE_TEXT is exact on the texts calc accepts (leading-zero literals aside) -/
theorem unwritable_exact (cs : List Char) (ts : List Tok) (n : Nat) (hn : cs.length < n)
    (hl : lex false n cs = some ts) (hp : (parse ts).isSome) (hz : hasLeadingZero cs = false) :
    (cppLex n cs).bind (fun cts => cts.mapM ofCTok) = some ts ↔ unwritable cs = false := by
  constructor
  · intro h
    cases hw : unwritable cs with
    | false => rfl
    | true => exact (cpp_lex_differs_of_unwritable cs ts n hl hp hz hw h).elim
  · exact fun hw => cpp_lexes_like_calc cs ts n hn hl hp hw hz

/-! ### 5. witnesses -/

def envNone : String → Option Int := fun _ => none

-- `0xE+1` (D175): calc reads `0xE`, `+`, `1` and computes 15; a C++ compiler reads ONE ill-formed pp-number;
-- UNWRITABLE_TEXT refuses it
example : lex false 6 "0xE+1".toList = some [.num 14, .plus, .num 1] := by decide
example : evalText false envNone "0xE+1" = .value 15 := by decide
example : cppLex 6 "0xE+1".toList = some [.ppnum "0xE+1".toList] := by decide
example : cppToks 6 "0xE+1".toList = none := by decide
example : unwritable "0xE+1".toList = true := by decide
-- `2--1` (D158): calc reads `2 - (-1)` = 3; C++ reads `2`, `--`, `1`
example : lex false 5 "2--1".toList = some [.num 2, .minus, .minus, .num 1] := by decide
example : evalText false envNone "2--1" = .value 3 := by decide
example : cppLex 5 "2--1".toList = some [.ppnum ['2'], .minusminus, .ppnum ['1']] := by decide
example : cppToks 5 "2--1".toList = none := by decide
example : unwritable "2--1".toList = true := by decide
-- with a blank: writable, and the same tokens
example : unwritable "0xE + 1".toList = false ∧ cppToks 8 "0xE + 1".toList = lex false 8 "0xE + 1".toList ∧
    lex false 8 "0xE + 1".toList = some [.num 14, .plus, .num 1] := by decide
example : unwritable "2 - -1".toList = false ∧ cppToks 7 "2 - -1".toList = lex false 7 "2 - -1".toList ∧
    lex false 7 "2 - -1".toList = some [.num 2, .minus, .minus, .num 1] := by decide
example : unwritable "1 << 2".toList = false ∧ cppToks 7 "1 << 2".toList = some [.num 1, .shl, .num 2] ∧
    lex false 7 "1 << 2".toList = some [.num 1, .shl, .num 2] := by decide
example : unwritable "(1)<<(31)".toList = false ∧
    cppToks 10 "(1)<<(31)".toList = some [.lpar, .num 1, .rpar, .shl, .lpar, .num 31, .rpar] ∧
    lex false 10 "(1)<<(31)".toList = some [.lpar, .num 1, .rpar, .shl, .lpar, .num 31, .rpar] := by decide
-- a sign after a hex literal that does not end in `e`/`E` is harmless
example : unwritable "0x1F+1".toList = false ∧ cppToks 7 "0x1F+1".toList = some [.num 31, .plus, .num 1] := by decide

-- why `hp` (calc PARSES the tokens) is needed: calc lexes these, UNWRITABLE_TEXT lets them pass, the C++
-- tokens differ - and calc's parser refuses every one of them
example : lex false 6 "1->>2".toList = some [.num 1, .minus, .shr, .num 2] ∧ unwritable "1->>2".toList = false ∧
    cppLex 6 "1->>2".toList = some [.ppnum ['1'], .arrow, .gt, .ppnum ['2']] ∧
    parse [.num 1, .minus, .shr, .num 2] = none := by decide
example : lex false 5 "1||2".toList = some [.num 1, .bar, .bar, .num 2] ∧ unwritable "1||2".toList = false ∧
    cppLex 5 "1||2".toList = some [.ppnum ['1'], .barbar, .ppnum ['2']] ∧
    parse [.num 1, .bar, .bar, .num 2] = none := by decide
example : lex false 5 "7//2".toList = some [.num 7, .slash, .slash, .num 2] ∧ unwritable "7//2".toList = false ∧
    cppLex 5 "7//2".toList = some [.ppnum ['7'], .lineComment] ∧
    parse [.num 7, .slash, .slash, .num 2] = none := by decide
example : lex false 5 "a/*b".toList = some [.ident "a", .slash, .star, .ident "b"] ∧ unwritable "a/*b".toList = false ∧
    cppLex 5 "a/*b".toList = some [.ident ['a'], .blockComment] ∧
    parse [.ident "a", .slash, .star, .ident "b"] = none := by decide
example : lex false 5 "12ab".toList = some [.num 12, .ident "ab"] ∧ unwritable "12ab".toList = false ∧
    cppLex 5 "12ab".toList = some [.ppnum "12ab".toList] ∧ parse [.num 12, .ident "ab"] = none := by decide
example : lex false 7 "0x1p+3".toList = some [.num 1, .ident "p", .plus, .num 3] ∧ unwritable "0x1p+3".toList = false ∧
    cppLex 7 "0x1p+3".toList = some [.ppnum "0x1p+3".toList] ∧
    parse [.num 1, .ident "p", .plus, .num 3] = none := by decide
example : lex false 5 "1e+5".toList = some [.num 1, .ident "e", .plus, .num 5] ∧ unwritable "1e+5".toList = false ∧
    cppLex 5 "1e+5".toList = some [.ppnum "1e+5".toList] := by decide
-- why `hz` is needed (D63): `010` is ten for calc and eight for C++
example : lex false 4 "010".toList = some [.num 10] ∧ unwritable "010".toList = false ∧
    cppLex 4 "010".toList = some [.ppnum "010".toList] ∧ cppToks 4 "010".toList = none ∧
    hasLeadingZero "010".toList = true := by decide

-- a TAB is skipped by calc like a blank and is white space for C++: writable (it was refused before the repair
-- of UNWRITABLE_TEXT), same tokens, value 3
example : unwritable "1\t+ 2".toList = false ∧ cppToks 7 "1\t+ 2".toList = lex false 7 "1\t+ 2".toList ∧
    lex false 7 "1\t+ 2".toList = some [.num 1, .plus, .num 2] ∧ evalText false envNone "1\t+ 2" = .value 3 := by
  decide
-- every other control character is still refused (and calc does not lex it anyway)
example : unwritable "1\n+ 2".toList = true ∧ lex false 7 "1\n+ 2".toList = none := by decide
-- `0x1e+` inside an identifier is no number: writable since the look-behind was added to UNWRITABLE_TEXT
example : unwritable "a0x1e+1".toList = false ∧ cppToks 8 "a0x1e+1".toList = lex false 8 "a0x1e+1".toList ∧
    lex false 8 "a0x1e+1".toList = some [.ident "a0x1e", .plus, .num 1] := by decide
example : unwritable "OFFSET_0xE+1".toList = false ∧
    cppToks 13 "OFFSET_0xE+1".toList = lex false 13 "OFFSET_0xE+1".toList ∧
    lex false 13 "OFFSET_0xE+1".toList = some [.ident "OFFSET_0xE", .plus, .num 1] := by decide
-- the literal itself is still refused, also after an operator or a blank
example : unwritable "0xE+1".toList = true ∧ unwritable "1+0xE+1".toList = true ∧
    unwritable "1 + 0Xe-1".toList = true := by decide

end Expr
end Prophy

#print axioms Prophy.Expr.cpp_lexes_like_calc
#print axioms Prophy.Expr.unwritable_iff
#print axioms Prophy.Expr.cpp_lex_differs_of_unwritable
#print axioms Prophy.Expr.unwritable_exact
#print axioms Prophy.Expr.okSeq_of_parse
#print axioms Prophy.Expr.cppHead_hex_e_sign

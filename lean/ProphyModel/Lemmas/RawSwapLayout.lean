/- layout of the generated raw C++ structs (`Raw.groupsOf`, fields, paddings, `sizeofTy`) in terms of
   the documented layout (`Spec`): the offsets the generated `prophy::swap` addresses members with -/
import ProphyModel.Raw
import ProphyModel.Lemmas.PLayoutSpec
namespace Prophy
namespace Raw
open Accept PL

/-! ## the fields generated for one member -/

def flagFields_p13 (n : String) (t : Ty) (k : MKind) (idx : Nat) : List Field × Nat :=
  match k with
  | .optional =>
    let fp := (PL.memOf (PL.nodeTy t) .optional).size - (PL.nodeTy t).size - 4
    let pi := if fp > 0 then padders fp idx else ([], idx)
    (Field.mk ("has_" ++ n) 4 1 :: pi.1, pi.2)
  | _ => ([], idx)

def countOf_p13 (k : MKind) : Nat := match k with
  | .fixed c => c
  | .limited _ c => c
  | _ => 1

def padFields_p13 (padding : Int) (idx1 : Nat) : List Field × Nat :=
  if padding > 0 then padders padding.toNat idx1 else ([], idx1)

theorem memberFields_cons_p13 (all : List Member) (n : String) (t : Ty) (k : MKind) (r : List Member)
    (a b : Nat) (padding : Int) (ls : List (Nat × Nat × Int)) (mem : PL.Mem) (mems : List PL.Mem) (idx : Nat) :
    memberFields all (.mk n t k :: r) ((a, b, padding) :: ls) (mem :: mems) idx =
      ((flagFields_p13 n t k idx).1 ++ [Field.mk n (sizeofTy t) (countOf_p13 k)] ++
          (padFields_p13 padding (flagFields_p13 n t k idx).2).1,
        mem.kind == 1 || mem.isDynamic) ::
      memberFields all r ls mems (padFields_p13 padding (flagFields_p13 n t k idx).2).2 := by
  cases k <;> simp only [memberFields, flagFields_p13, countOf_p13, padFields_p13] <;> rfl

/-- `groupsOf` for a suffix of the member list -/
def groupsAux_p13 (all ms : List Member) (ls : List (Nat × Nat × Int)) (mems : List PL.Mem) (idx : Nat) : List MG :=
  (ms.zip ((memberFields all ms ls mems idx).zip (ls.zip mems))).map fun (m, (f, d), (_, a, _), mem) =>
    { m := m, fields := f, isDyn := d, align := a, kind := mem.kind }

theorem groupsOf_eq_p13 (ms : List Member) :
    groupsOf ms = groupsAux_p13 ms ms (PL.structMembers ms) (PL.memsOf ms) 0 := rfl

theorem groupsAux_cons_p13 (all : List Member) (n : String) (t : Ty) (k : MKind) (r : List Member)
    (a b : Nat) (padding : Int) (ls : List (Nat × Nat × Int)) (mem : PL.Mem) (mems : List PL.Mem) (idx : Nat) :
    groupsAux_p13 all (.mk n t k :: r) ((a, b, padding) :: ls) (mem :: mems) idx =
      { m := .mk n t k,
        fields := (flagFields_p13 n t k idx).1 ++ [Field.mk n (sizeofTy t) (countOf_p13 k)] ++
          (padFields_p13 padding (flagFields_p13 n t k idx).2).1,
        isDyn := mem.kind == 1 || mem.isDynamic, align := b, kind := mem.kind } ::
      groupsAux_p13 all r ls mems (padFields_p13 padding (flagFields_p13 n t k idx).2).2 := by
  unfold groupsAux_p13
  rw [memberFields_cons_p13]
  rfl

/-! ## sizes of field lists -/

theorem totalSize_append_p13 (a b : List Field) : totalSize (a ++ b) = totalSize a + totalSize b := by
  induction a with
  | nil => simp [totalSize]
  | cons f r ih => simp only [List.cons_append, totalSize, ih]; omega

theorem totalSize_padders_p13 (p idx : Nat) (hp : p < 8) : totalSize (padders p idx).1 = p := by
  unfold padders
  simp only [totalSize_append_p13]
  split <;> split <;> split <;> simp [totalSize, Field.size] <;> omega

theorem totalSize_padFields_p13 (p : Nat) (idx : Nat) (hp : p < 8) :
    totalSize (padFields_p13 (p : Int) idx).1 = p := by
  unfold padFields_p13
  by_cases h : (p : Int) > 0
  · rw [if_pos h, Int.toNat_natCast, totalSize_padders_p13 p idx hp]
  · rw [if_neg h]
    have : p = 0 := by omega
    subst this; rfl

theorem padFields_neg_p13 (a : Nat) (idx : Nat) : (padFields_p13 (-(a : Int)) idx).1 = [] := by
  unfold padFields_p13
  have : ¬ (-(a : Int) > 0) := by omega
  rw [if_neg this]

/-- bytes the flag of an optional member (with its padding) takes before the value -/
def flagLen_p13 (t : Ty) (k : MKind) : Nat :=
  match k with | .optional => max Spec.flagSize (Spec.alignTy t) | _ => 0

theorem totalSize_flagFields_p13 (n : String) (t : Ty) (k : MKind) (idx : Nat) :
    totalSize (flagFields_p13 n t k idx).1 = flagLen_p13 t k := by
  cases k <;> simp only [flagFields_p13, totalSize, flagLen_p13]
  have hal := Spec.alignTy_isAl t
  rw [PL.memOf_size, PL.nodeTy_align']
  simp only [PL.discSize, Spec.flagSize, Field.size]
  rcases hal with h | h | h | h <;> rw [h] <;> simp [padders, totalSize, Field.size] <;> omega

/-! ## what the groups of a struct look like -/

def lsOf_p13 (bm : List Mem) (ps : List Int) : List (Nat × Nat × Int) :=
  (bm.zip ps).map (fun (x : Mem × Int) => (x.1.size, x.1.align, x.2))

theorem structMembers_eq_p13 (ms : List Member) :
    structMembers ms = lsOf_p13 (bump (memsOf ms) false) (structSize (bump (memsOf ms) false)).2.2 := rfl

/-- the facts about the group `g` generated for member `n t k` followed by the members `r`; `o` is the offset of
    the member's first field inside its part, `first` = the member starts a part that is not the main block -/
structure GOne_p13 (A : Nat) (d : Bool) (g : MG) (n : String) (t : Ty) (k : MKind) (r : List Member)
    (first : Bool) (o : Nat) : Prop where
  hm : g.m = .mk n t k
  hkind : g.kind = (nodeTy t).kind
  hdyn : (nodeTy t).kind ≠ 2 → k ≠ .greedy → g.isDyn = Spec.endsBlock (.mk n t k)
  halign : g.align = if first then Spec.blockAlign (.mk n t k :: r) else Spec.alignMember (.mk n t k)
  hfields : ∃ flagF padF, g.fields = flagF ++ Field.mk n (sizeofTy t) (countOf_p13 k) :: padF ∧
      (k = .optional → ∃ pf, flagF = Field.mk ("has_" ++ n) 4 1 :: pf) ∧
      (k ≠ .optional → flagF = []) ∧
      totalSize flagF = flagLen_p13 t k
  hdvd : Spec.alignMember (.mk n t k) ∣ o
  hnext : Spec.endsBlock (.mk n t k) = false → ∀ m' r', r = m' :: r' →
      o + totalSize g.fields = alignUp (o + Spec.slot t k) (Spec.alignMember m')
  hlast : Spec.endsBlock (.mk n t k) = false → r = [] →
      (d = false → o + totalSize g.fields = alignUp (o + Spec.slot t k) A) ∧
      (d = true → o + totalSize g.fields = o + Spec.slot t k ∨
        (Spec.alignMember (.mk n t k) = A ∧ o + totalSize g.fields = alignUp (o + Spec.slot t k) A))

/-- offset of the next member's first field inside its part -/
def nextOff_p13 (n : String) (t : Ty) (k : MKind) (r : List Member) (o : Nat) : Nat :=
  if Spec.endsBlock (.mk n t k) then 0 else
    match r with
    | [] => 0
    | m' :: _ => alignUp (o + Spec.slot t k) (Spec.alignMember m')

def GSpec_p13 (A : Nat) (d : Bool) : List MG → List Member → Bool → Nat → Prop
  | [], [], _, _ => True
  | g :: gs, .mk n t k :: r, first, o =>
    GOne_p13 A d g n t k r first o ∧ GSpec_p13 A d gs r (Spec.endsBlock (.mk n t k)) (nextOff_p13 n t k r o)
  | _, _, _, _ => False

mutual
  theorem dyn_of_unl_p13 : (t : Ty) → Spec.unlTy t = true → Spec.dynTy t = true
    | .prim _, h => by simp [Spec.unlTy] at h
    | .byte, h => by simp [Spec.unlTy] at h
    | .enum _ _, h => by simp [Spec.unlTy] at h
    | .union _ _, h => by simp [Spec.unlTy] at h
    | .struct _ ms, h => by
      simp only [Spec.unlTy] at h
      simp only [Spec.dynTy]
      exact dynMs_of_unl_p13 ms h
  theorem dynMs_of_unl_p13 : (ms : List Member) → Spec.unlMs ms = true → Spec.dynMs ms = true
    | [], h => by simp [Spec.unlMs] at h
    | .mk n t k :: r, h => by
      simp only [Spec.unlMs, Bool.or_eq_true] at h
      simp only [Spec.dynMs, Bool.or_eq_true]
      rcases h with h | h
      · left
        cases k with
        | plain => exact dyn_of_unl_p13 t h
        | greedy => rfl
        | optional => simp at h
        | fixed c => simp at h
        | dyn s sh => rfl
        | limited s c => simp at h
      · right; exact dynMs_of_unl_p13 r h
end

/-- a member that does not end a block is not unlimited -/
theorem notUnl_of_notEnds_p13 (n : String) (t : Ty) (k : MKind) (ht : front t = true)
    (ho : isOptional k = true → (nodeTy t).kind = 0)
    (hs : (sizeOf? k).isSome = true → (nodeTy t).kind = 0)
    (he : Spec.endsBlock (.mk n t k) = false) : (nodeTy t).kind ≠ 2 ∧ k ≠ .greedy := by
  cases k with
  | plain =>
    refine ⟨?_, by simp⟩
    have hd : Spec.dynTy t = false := by simpa [Spec.endsBlock, Member.kind, Member.ty] using he
    have hu : Spec.unlTy t = false := by
      cases h : Spec.unlTy t with
      | false => rfl
      | true => rw [dyn_of_unl_p13 t h] at hd; cases hd
    rw [nodeTy_kind' t ht]; unfold specKind; rw [hu, hd]; simp
  | optional => exact ⟨by rw [ho rfl]; simp, by simp⟩
  | fixed c => exact ⟨by rw [hs rfl]; simp, by simp⟩
  | limited s c => exact ⟨by rw [hs rfl]; simp, by simp⟩
  | dyn s sh => simp [Spec.endsBlock, Member.kind] at he
  | greedy => simp [Spec.endsBlock, Member.kind] at he

/-- the member is not unlimited -/
theorem notUnl_cons_p13 (n : String) (t : Ty) (k : MKind) (r : List Member)
    (h : Spec.unlMs (.mk n t k :: r) = false) :
    k ≠ .greedy ∧ (k = .plain → Spec.unlTy t = false) ∧ Spec.unlMs r = false := by
  simp only [Spec.unlMs, Bool.or_eq_false_iff] at h
  refine ⟨?_, ?_, h.2⟩
  · intro hk; subst hk; simp at h
  · intro hk; subst hk; exact h.1

theorem kind_ne2_p13 (t : Ty) (k : MKind) (ht : front t = true)
    (ho : isOptional k = true → (nodeTy t).kind = 0)
    (ha : isArrayKind k = true → (nodeTy t).kind ≠ 2)
    (hu : k = .plain → Spec.unlTy t = false) : (nodeTy t).kind ≠ 2 := by
  cases k with
  | plain =>
    rw [nodeTy_kind' t ht]; unfold specKind; rw [hu rfl]; simp only [Bool.false_eq_true, if_false]; split <;> simp
  | optional => rw [ho rfl]; simp
  | fixed c => exact ha rfl
  | dyn s sh => exact ha rfl
  | limited s c => exact ha rfl
  | greedy => exact ha rfl

theorem isDyn_memOf_p13 (n : String) (t : Ty) (k : MKind) (ht : front t = true)
    (ho : isOptional k = true → (nodeTy t).kind = 0)
    (hs : (sizeOf? k).isSome = true → (nodeTy t).kind = 0)
    (hk2 : (nodeTy t).kind ≠ 2) (hg : k ≠ .greedy) :
    ((memOf (nodeTy t) k).kind == 1 || (memOf (nodeTy t) k).isDynamic) = Spec.endsBlock (.mk n t k) := by
  rw [← endsPart_memOf n t k ht ho hs hk2]
  unfold endsPart
  cases k <;> simp_all [memOf]

theorem dynTy_of_notEnds_p13 (n : String) (t : Ty) (k : MKind) (ht : front t = true)
    (ho : isOptional k = true → (nodeTy t).kind = 0)
    (hs : (sizeOf? k).isSome = true → (nodeTy t).kind = 0)
    (he : Spec.endsBlock (.mk n t k) = false) : Spec.dynTy t = false := by
  cases k with
  | plain => simpa [Spec.endsBlock, Member.kind, Member.ty] using he
  | optional => exact dyn_of_kind t ht (ho rfl)
  | fixed c => exact dyn_of_kind t ht (hs rfl)
  | limited s c => exact dyn_of_kind t ht (hs rfl)
  | dyn s sh => simp [Spec.endsBlock, Member.kind] at he
  | greedy => simp [Spec.endsBlock, Member.kind] at he

/-- the fields of a member that does not end a block fill its slot -/
theorem slot_fields_p13 (n : String) (t : Ty) (k : MKind) (idx : Nat)
    (he : Spec.endsBlock (.mk n t k) = false) (hsz : sizeofTy t = Spec.sizeTy t) :
    totalSize (flagFields_p13 n t k idx).1 + sizeofTy t * countOf_p13 k = Spec.slot t k := by
  rw [totalSize_flagFields_p13, hsz]
  cases k with
  | plain => simp [countOf_p13, Spec.slot, flagLen_p13]
  | optional => simp [countOf_p13, Spec.slot, flagLen_p13]
  | fixed c => simp [countOf_p13, Spec.slot, Nat.mul_comm, flagLen_p13]
  | limited s c => simp [countOf_p13, Spec.slot, Nat.mul_comm, flagLen_p13]
  | dyn s sh => simp [Spec.endsBlock, Member.kind] at he
  | greedy => simp [Spec.endsBlock, Member.kind] at he

theorem IsAl.le8_p13 {a : Nat} (h : IsAl a) : a ≤ 8 := by unfold IsAl at h; omega

theorem padTo_lt8_p13 (x a : Nat) (h : IsAl a) : padTo x a < 8 := by
  have := padTo_lt x a h.pos
  have := IsAl.le8_p13 h
  omega

theorem memOf_kind_p13 (nd : Node) (k : MKind) : (memOf nd k).kind = nd.kind := by cases k <;> rfl

theorem groupsAux_nil_p13 (all : List Member) (ls : List (Nat × Nat × Int)) (mems : List Mem) (idx : Nat) :
    groupsAux_p13 all [] ls mems idx = [] := by simp [groupsAux_p13]

theorem flagFields_opt_p13 (n : String) (t : Ty) (idx : Nat) :
    ∃ pf, (flagFields_p13 n t .optional idx).1 = Field.mk ("has_" ++ n) 4 1 :: pf := ⟨_, rfl⟩

theorem flagFields_nonopt_p13 (n : String) (t : Ty) (k : MKind) (idx : Nat) (hk : k ≠ .optional) :
    (flagFields_p13 n t k idx).1 = [] := by
  cases k <;> first | rfl | exact absurd rfl hk

theorem totalSize_group_p13 (n : String) (t : Ty) (k : MKind) (idx : Nat) (p : Int) :
    totalSize ((flagFields_p13 n t k idx).1 ++ [Field.mk n (sizeofTy t) (countOf_p13 k)] ++
        (padFields_p13 p (flagFields_p13 n t k idx).2).1) =
      totalSize (flagFields_p13 n t k idx).1 + sizeofTy t * countOf_p13 k +
        totalSize (padFields_p13 p (flagFields_p13 n t k idx).2).1 := by
  simp only [totalSize_append_p13, totalSize, Field.size]; omega

theorem gwalk_p13 (A : Nat) (hA : IsAl A) (d : Bool) (all allF : List Member) :
    (r : List Member) → ∀ (n : String) (t : Ty) (k : MKind) (before : List Member)
      (first pd : Bool) (o st idx : Nat),
    frontMs allF (.mk n t k :: r) before = true →
    Spec.alignMs (.mk n t k :: r) ≤ A →
    d = (pd || (memsOf (.mk n t k :: r)).any isMemberDynamic) →
    (∀ m ∈ (Member.mk n t k :: r), Spec.dynTy m.ty = false → sizeofTy m.ty = Spec.sizeTy m.ty) →
    (pd = false → o = st) →
    o % Spec.blockAlign (.mk n t k :: r) = st % Spec.blockAlign (.mk n t k :: r) →
    Spec.alignMember (.mk n t k) ∣ o →
    (curMem first n t k r).align ∣ st →
    GSpec_p13 A d
      (groupsAux_p13 all (.mk n t k :: r)
        (lsOf_p13 (curMem first n t k r :: bump (memsOf r) (endsPart (memOf (nodeTy t) k)))
          (padsFrom A d (curMem first n t k r) (bump (memsOf r) (endsPart (memOf (nodeTy t) k)))
            (st + (memOf (nodeTy t) k).size)))
        (memsOf (.mk n t k :: r)) idx)
      (.mk n t k :: r) first o
  | [], n, t, k, before, first, pd, o, st, idx, hf, hAle, hd, hsz, hi1, hi2, hi3, hi4 => by
    obtain ⟨ht, ho, hs, ha, hl, hr⟩ := frontMs_cons_playou allF n t k [] before hf
    have hca : (curMem first n t k []).align = Spec.alignMember (.mk n t k) := by
      cases first <;> simp [curMem, Spec.blockAlign_single]
    rw [Spec.blockAlign_single] at hi2
    have hale : Spec.alignMember (.mk n t k) ≤ A :=
      Nat.le_trans (Spec.alignMember_le_alignMs n t k []) hAle
    simp only [memsOf, bump, padsFrom, lsOf_p13, List.zip_cons_cons, List.zip_nil_right, List.map_cons, List.map_nil]
    rw [groupsAux_cons_p13, groupsAux_nil_p13]
    refine ⟨?_, trivial⟩
    refine ⟨rfl, memOf_kind_p13 _ _, fun hk2 hng => isDyn_memOf_p13 n t k ht ho hs hk2 hng, rfl, ?_, hi3, ?_, ?_⟩
    · refine ⟨(flagFields_p13 n t k idx).1, _, List.append_assoc _ _ _, ?_, flagFields_nonopt_p13 n t k idx, totalSize_flagFields_p13 n t k idx⟩
      intro hk; subst hk; exact flagFields_opt_p13 n t idx
    · intro _ m' r' h; cases h
    · intro he _
      obtain ⟨hk2, hng⟩ := notUnl_of_notEnds_p13 n t k ht ho hs he
      have hdt := dynTy_of_notEnds_p13 n t k ht ho hs he
      have hsl := slot_fields_p13 n t k idx he (hsz _ (List.mem_cons_self ..) hdt)
      have hslot := memOf_slot t k ht
      simp only [totalSize_group_p13]
      simp only [memsOf, List.any_cons, List.any_nil, Bool.or_false] at hd
      have hnd : isMemberDynamic (memOf (nodeTy t) k) = false := by
        rw [isMemberDynamic_memOf t k ht hk2, endsPart_memOf n t k ht ho hs hk2, he]
      rw [hnd, Bool.or_false] at hd
      constructor
      · intro hdf
        rw [hdf] at hd
        have hpd : pd = false := hd.symm
        rw [hi1 hpd, hslot]
        simp only [plastOf, hdf, Bool.false_eq_true, if_false]
        rw [totalSize_padFields_p13 _ _ (padTo_lt8_p13 _ _ hA)]
        unfold alignUp; omega
      · intro hdt'
        simp only [plastOf, hdt', if_true, hca]
        by_cases hlt : Spec.alignMember (.mk n t k) < A
        · left
          rw [if_pos hlt, padFields_neg_p13]
          simp only [totalSize]; omega
        · right
          have hAeq : Spec.alignMember (.mk n t k) = A := by omega
          refine ⟨hAeq, ?_⟩
          rw [if_neg hlt, totalSize_padFields_p13 _ _ (padTo_lt8_p13 _ _ hA), hslot]
          rw [hAeq] at hi2
          rw [← padTo_congr A _ _ (mod_add_congr _ _ _ A hi2)]
          unfold alignUp; omega
  | .mk n' t' k' :: r', n, t, k, before, first, pd, o, st, idx, hf, hAle, hd, hsz, hi1, hi2, hi3, hi4 => by
    obtain ⟨ht, ho, hs, ha, hl, hr⟩ := frontMs_cons_playou allF n t k (.mk n' t' k' :: r') before hf
    obtain ⟨hgr, hk2⟩ := hl (by simp)
    have hng : k ≠ .greedy := by intro h; subst h; simp [isGreedy] at hgr
    have hep := endsPart_memOf n t k ht ho hs hk2
    have hmd := isMemberDynamic_memOf t k ht hk2
    rw [hep] at hmd
    have hdcur : isMemberDynamic (curMem first n t k (.mk n' t' k' :: r')) = Spec.endsBlock (.mk n t k) := hmd
    have hAle' : Spec.alignMs (.mk n' t' k' :: r') ≤ A := Nat.le_trans (Spec.alignMs_cons_le n t k _) hAle
    have hslot := memOf_slot t k ht
    have hB2 := Spec.blockAlign_isAl (.mk n' t' k' :: r')
    have ha2B2 := Spec.alignMember_dvd_blockAlign (.mk n' t' k') r'
    have hc2a : (curMem (Spec.endsBlock (.mk n t k)) n' t' k' r').align =
        if Spec.endsBlock (.mk n t k) = true then Spec.blockAlign (.mk n' t' k' :: r')
        else Spec.alignMember (.mk n' t' k') := rfl
    have hc2s : (curMem (Spec.endsBlock (.mk n t k)) n' t' k' r').size = (memOf (nodeTy t') k').size := rfl
    have hpos2 : 0 < (curMem (Spec.endsBlock (.mk n t k)) n' t' k' r').align := by
      rw [hc2a]; split
      · exact hB2.pos
      · exact Spec.alignMember_pos _
    have hd' : d = (pd || Spec.endsBlock (.mk n t k) || (memsOf (.mk n' t' k' :: r')).any isMemberDynamic) := by
      rw [hd]; simp only [memsOf, List.any_cons, hmd, Bool.or_assoc]
    have hsz' : ∀ m ∈ (Member.mk n' t' k' :: r'), Spec.dynTy m.ty = false → sizeofTy m.ty = Spec.sizeTy m.ty :=
      fun m hm => hsz m (List.mem_cons_of_mem _ hm)
    -- unfold one step of the generated lists
    rw [hep, bump_memsOf_cons allF _ n' t' k' r' _ hr]
    rw [show memsOf (.mk n t k :: .mk n' t' k' :: r') = memOf (nodeTy t) k :: memsOf (.mk n' t' k' :: r') from rfl]
    simp only [padsFrom, lsOf_p13, List.zip_cons_cons, List.map_cons]
    rw [groupsAux_cons_p13]
    have hbs : st + (memOf (nodeTy t) k).size + (curMem (Spec.endsBlock (.mk n t k)) n' t' k' r').size +
        padTo (st + (memOf (nodeTy t) k).size) (curMem (Spec.endsBlock (.mk n t k)) n' t' k' r').align =
        alignUp (st + (memOf (nodeTy t) k).size) (curMem (Spec.endsBlock (.mk n t k)) n' t' k' r').align +
          (memOf (nodeTy t') k').size := by
      rw [hc2s]; unfold alignUp; omega
    rw [hbs]
    have ih := gwalk_p13 A hA d all allF r' n' t' k' (before ++ [.mk n t k])
      (Spec.endsBlock (.mk n t k)) (pd || Spec.endsBlock (.mk n t k))
      (nextOff_p13 n t k (.mk n' t' k' :: r') o)
      (alignUp (st + (memOf (nodeTy t) k).size) (curMem (Spec.endsBlock (.mk n t k)) n' t' k' r').align)
      (padFields_p13
        (if (isMemberDynamic (curMem first n t k (.mk n' t' k' :: r')) &&
            decide ((curMem first n t k (.mk n' t' k' :: r')).align <
              (curMem (Spec.endsBlock (.mk n t k)) n' t' k' r').align)) = true
          then -((curMem (Spec.endsBlock (.mk n t k)) n' t' k' r').align : Int)
          else (padTo (st + (memOf (nodeTy t) k).size)
            (curMem (Spec.endsBlock (.mk n t k)) n' t' k' r').align : Int))
        (flagFields_p13 n t k idx).2).2
      hr hAle' hd' hsz'
    have hinv : ((pd || Spec.endsBlock (.mk n t k)) = false →
          nextOff_p13 n t k (.mk n' t' k' :: r') o =
          alignUp (st + (memOf (nodeTy t) k).size) (curMem (Spec.endsBlock (.mk n t k)) n' t' k' r').align) ∧
        (nextOff_p13 n t k (.mk n' t' k' :: r') o % Spec.blockAlign (.mk n' t' k' :: r') =
          alignUp (st + (memOf (nodeTy t) k).size) (curMem (Spec.endsBlock (.mk n t k)) n' t' k' r').align
            % Spec.blockAlign (.mk n' t' k' :: r')) ∧
        Spec.alignMember (.mk n' t' k') ∣ nextOff_p13 n t k (.mk n' t' k' :: r') o := by
      unfold nextOff_p13
      cases heb : Spec.endsBlock (.mk n t k) with
      | true =>
        rw [heb] at hc2a
        simp only [if_true] at hc2a
        rw [hc2a]
        have hds := dvd_alignUp (st + (memOf (nodeTy t) k).size) _ hB2.pos
        refine ⟨by simp, ?_, by simp⟩
        simp only [if_true]
        rw [Nat.mod_eq_zero_of_dvd hds, Nat.zero_mod]
      | false =>
        rw [heb] at hc2a
        simp only [Bool.false_eq_true, if_false] at hc2a
        rw [hc2a]
        simp only [Bool.false_eq_true, if_false]
        have hBB : Spec.blockAlign (.mk n' t' k' :: r') ∣ Spec.blockAlign (.mk n t k :: .mk n' t' k' :: r') := by
          rw [show Spec.blockAlign (.mk n t k :: .mk n' t' k' :: r') =
            max (Spec.alignMember (.mk n t k)) (Spec.blockAlign (.mk n' t' k' :: r')) by
              simp [Spec.blockAlign, heb]]
          exact IsAl.dvd_max_right (Spec.alignMember_isAl _) hB2
        have hm2 : (o + Spec.slot t k) % Spec.blockAlign (.mk n' t' k' :: r') =
            (st + (memOf (nodeTy t) k).size) % Spec.blockAlign (.mk n' t' k' :: r') := by
          rw [hslot]
          exact mod_add_congr _ _ _ _ (mod_of_dvd _ _ _ _ hBB hi2)
        have hpe := padTo_congr (Spec.alignMember (.mk n' t' k')) _ _ (mod_of_dvd _ _ _ _ ha2B2 hm2)
        refine ⟨?_, ?_, dvd_alignUp _ _ (Spec.alignMember_pos _)⟩
        · intro hpd
          have : pd = false := by simpa using hpd
          rw [hi1 this, hslot]
        · unfold alignUp
          rw [hpe]
          exact mod_add_congr _ _ _ _ hm2
    obtain ⟨hs2, hs3, hs4⟩ := hinv
    refine ⟨?_, ih hs2 hs3 hs4 (dvd_alignUp _ _ hpos2)⟩
    refine ⟨rfl, memOf_kind_p13 _ _, fun hk2 hng => isDyn_memOf_p13 n t k ht ho hs hk2 hng, rfl, ?_, hi3, ?_, ?_⟩
    · refine ⟨(flagFields_p13 n t k idx).1, _, List.append_assoc _ _ _, ?_,
        flagFields_nonopt_p13 n t k idx, totalSize_flagFields_p13 n t k idx⟩
      intro hk; subst hk; exact flagFields_opt_p13 n t idx
    · intro he m'' r'' heq
      injection heq with h1 h2
      subst h1
      have hdt := dynTy_of_notEnds_p13 n t k ht ho hs he
      have hsl := slot_fields_p13 n t k idx he (hsz _ (List.mem_cons_self ..) hdt)
      simp only [totalSize_group_p13]
      rw [hdcur, he]
      have hc2a' : (curMem false n' t' k' r').align = Spec.alignMember (.mk n' t' k') := rfl
      simp only [Bool.false_and, Bool.false_eq_true, if_false]
      rw [hc2a', totalSize_padFields_p13 _ _ (padTo_lt8_p13 _ _ (Spec.alignMember_isAl _))]
      have hBB : Spec.blockAlign (.mk n' t' k' :: r') ∣ Spec.blockAlign (.mk n t k :: .mk n' t' k' :: r') := by
        rw [show Spec.blockAlign (.mk n t k :: .mk n' t' k' :: r') =
          max (Spec.alignMember (.mk n t k)) (Spec.blockAlign (.mk n' t' k' :: r')) by
            simp [Spec.blockAlign, he]]
        exact IsAl.dvd_max_right (Spec.alignMember_isAl _) hB2
      have hm2 : (o + Spec.slot t k) % Spec.blockAlign (.mk n' t' k' :: r') =
          (st + (memOf (nodeTy t) k).size) % Spec.blockAlign (.mk n' t' k' :: r') := by
        rw [hslot]
        exact mod_add_congr _ _ _ _ (mod_of_dvd _ _ _ _ hBB hi2)
      have hpe := padTo_congr (Spec.alignMember (.mk n' t' k')) _ _ (mod_of_dvd _ _ _ _ ha2B2 hm2)
      rw [← hpe]
      unfold alignUp; omega
    · intro _ h; cases h

/-- `Raw.groupsOf` of an accepted struct, described in documented terms -/
theorem groups_spec_p13 (ms : List Member) (hne : ms ≠ [])
    (hf : frontMs ms ms [] = true)
    (hsz : ∀ m ∈ ms, Spec.dynTy m.ty = false → sizeofTy m.ty = Spec.sizeTy m.ty) :
    GSpec_p13 (Spec.alignMs ms) ((memsOf ms).any isMemberDynamic) (groupsOf ms) ms false 0 := by
  cases ms with
  | nil => exact absurd rfl hne
  | cons m r =>
    obtain ⟨n, t, k⟩ := m
    rw [groupsOf_eq_p13, structMembers_eq_p13]
    have hA : maxAlign (bump (memsOf (.mk n t k :: r)) false) = Spec.alignMs (.mk n t k :: r) := by
      rw [maxAlign_bump, memsOf_align _ (by simp)]
    have hd : (bump (memsOf (.mk n t k :: r)) false).any isMemberDynamic =
        (false || (memsOf (.mk n t k :: r)).any isMemberDynamic) := by
      rw [any_bump, Bool.false_or]
    rw [bump_memsOf_cons (.mk n t k :: r) [] n t k r false hf] at hA hd ⊢
    rw [structSize_pads, hA, hd, padTo_zero, Nat.add_zero]
    have hw := gwalk_p13 (Spec.alignMs (.mk n t k :: r)) (Spec.alignMs_isAl _)
      (false || (memsOf (.mk n t k :: r)).any isMemberDynamic) (.mk n t k :: r) (.mk n t k :: r) r n t k []
      false false 0 0 0 hf (Nat.le_refl _) rfl hsz (fun _ => rfl) rfl (Nat.dvd_zero _) (Nat.dvd_zero _)
    rw [Nat.zero_add] at hw
    rw [Bool.false_or] at hw
    exact hw

/-! ## `sizeof` of generated types of fixed size -/

theorem partition_single_p13 {α : Type} (p : α → Bool) : (l : List α) → (∀ x ∈ l, p x = false) →
    partition p l = [l]
  | [], _ => rfl
  | [x], _ => rfl
  | x :: y :: r, h => by
    have ih := partition_single_p13 p (y :: r) (fun z hz => h z (List.mem_cons_of_mem _ hz))
    simp only [partition, h x (List.mem_cons_self ..), Bool.false_eq_true, if_false, ih]

theorem blocksOf_eq_p13 (all : List Member) : (ms : List Member) → (ls : List (Nat × Nat × Int)) →
    (mems : List Mem) → (idx : Nat) →
    ((memberFields all ms ls mems idx).zip ls).map
        (fun (x : (List Field × Bool) × (Nat × Nat × Int)) => (x.1.1, x.1.2, x.2.2.1)) =
      (groupsAux_p13 all ms ls mems idx).map (fun g => (g.fields, g.isDyn, g.align))
  | [], ls, mems, idx => by simp [memberFields, groupsAux_p13]
  | .mk n t k :: r, [], mems, idx => by simp [memberFields, groupsAux_p13]
  | .mk n t k :: r, l :: ls, [], idx => by simp [memberFields, groupsAux_p13]
  | .mk n t k :: r, (a, b, p) :: ls, mem :: mems, idx => by
    rw [groupsAux_cons_p13, memberFields_cons_p13]
    simp only [List.zip_cons_cons, List.map_cons]
    rw [blocksOf_eq_p13 all r ls mems]

theorem blocksOf_groups_p13 (ms : List Member) :
    blocksOf ms ms (structMembers ms) (memsOf ms) = (groupsOf ms).map (fun g => (g.fields, g.isDyn, g.align)) := by
  rw [groupsOf_eq_p13, ← blocksOf_eq_p13]
  unfold blocksOf
  rfl

/-- the fields of the groups of members none of which ends a block fill the static size -/
theorem total_static_p13 (A : Nat) (hA : IsAl A) : (gs : List MG) → (ms : List Member) → ms ≠ [] →
    (∀ m ∈ ms, Spec.endsBlock m = false) → ∀ (o : Nat), GSpec_p13 A false gs ms false o →
    o + totalSize (gs.flatMap (·.fields)) = alignUp (Spec.endMs ms o false) A
  | _, [], hne, _, _, _ => absurd rfl hne
  | [], _ :: _, _, _, _, h => by simp [GSpec_p13] at h
  | g :: gs, [.mk n t k], _, he, o, h => by
    obtain ⟨h1, h2⟩ := h
    cases gs with
    | cons g' gs' => simp [GSpec_p13] at h2
    | nil =>
      have hl := (h1.hlast (he _ (List.mem_cons_self ..)) rfl).1 rfl
      simp only [List.flatMap_cons, List.flatMap_nil, List.append_nil]
      rw [hl, Spec.endMs_cons]
      simp only [Bool.false_eq_true, if_false, Spec.endMs]
      rw [alignUp_of_dvd _ _ h1.hdvd]
  | g :: gs, .mk n t k :: m' :: r', _, he, o, h => by
    obtain ⟨h1, h2⟩ := h
    have he1 := he _ (List.mem_cons_self ..)
    have hn := h1.hnext he1 m' r' rfl
    rw [he1] at h2
    have ho' : nextOff_p13 n t k (m' :: r') o = alignUp (o + Spec.slot t k) (Spec.alignMember m') := by
      simp [nextOff_p13, he1]
    rw [ho'] at h2
    have ih := total_static_p13 A hA gs (m' :: r') (by simp) (fun z hz => he z (List.mem_cons_of_mem _ hz)) _ h2
    simp only [List.flatMap_cons, totalSize_append_p13]
    rw [← Nat.add_assoc, hn, ih, Spec.endMs_alignUp, Spec.endMs_cons]
    simp only [Bool.false_eq_true, if_false, he1]
    rw [alignUp_of_dvd _ _ h1.hdvd]

theorem unlMs_of_dynMs_p13 (ms : List Member) (h : Spec.dynMs ms = false) : Spec.unlMs ms = false := by
  cases hu : Spec.unlMs ms with
  | false => rfl
  | true => rw [dynMs_of_unl_p13 ms hu] at h; cases h

theorem endsBlock_of_dynMs_p13 : (ms : List Member) → Spec.dynMs ms = false → ∀ m ∈ ms, Spec.endsBlock m = false
  | [], _, m, hm => by cases hm
  | .mk n t k :: r, h, m, hm => by
    simp only [Spec.dynMs, Bool.or_eq_false_iff] at h
    rcases List.mem_cons.1 hm with rfl | hr
    · unfold Spec.endsBlock
      cases k <;> simp_all [Member.kind, Member.ty]
    · exact endsBlock_of_dynMs_p13 r h.2 m hr

theorem any_dynamic_false_p13 : (ms allF before : List Member) → frontMs allF ms before = true →
    Spec.dynMs ms = false → (memsOf ms).any isMemberDynamic = false
  | [], _, _, _, _ => rfl
  | .mk n t k :: r, allF, before, hf, hd => by
    obtain ⟨ht, ho, hs, ha, hl, hr⟩ := frontMs_cons_playou allF n t k r before hf
    have he := endsBlock_of_dynMs_p13 _ hd (.mk n t k) (List.mem_cons_self ..)
    have hu := unlMs_of_dynMs_p13 _ hd
    obtain ⟨hng, hup, hur⟩ := notUnl_cons_p13 n t k r hu
    have hk2 := kind_ne2_p13 t k ht ho ha hup
    simp only [Spec.dynMs, Bool.or_eq_false_iff] at hd
    simp only [memsOf, List.any_cons, Bool.or_eq_false_iff]
    refine ⟨?_, any_dynamic_false_p13 r allF _ hr hd.2⟩
    rw [isMemberDynamic_memOf t k ht hk2, endsPart_memOf n t k ht ho hs hk2, he]

theorem GSpec_isDyn_false_p13 (A : Nat) (d : Bool) (allF : List Member) : (gs : List MG) → (ms : List Member) →
    (before : List Member) → (first : Bool) → (o : Nat) → frontMs allF ms before = true →
    GSpec_p13 A d gs ms first o → (∀ m ∈ ms, Spec.endsBlock m = false) → ∀ g ∈ gs, g.isDyn = false
  | [], _, _, _, _, _, _, _, g, hg => by cases hg
  | g0 :: gs, [], _, _, _, _, h, _, _, _ => by simp [GSpec_p13] at h
  | g0 :: gs, .mk n t k :: r, before, first, o, hf, h, he, g, hg => by
    obtain ⟨h1, h2⟩ := h
    obtain ⟨ht, ho, hs, _, _, hr'⟩ := frontMs_cons_playou allF n t k r before hf
    rcases List.mem_cons.1 hg with rfl | hr
    · obtain ⟨hk2, hng⟩ := notUnl_of_notEnds_p13 n t k ht ho hs (he _ (List.mem_cons_self ..))
      rw [h1.hdyn hk2 hng]; exact he _ (List.mem_cons_self ..)
    · exact GSpec_isDyn_false_p13 A d allF gs r _ _ _ hr' h2 (fun z hz => he z (List.mem_cons_of_mem _ hz)) g hr

theorem alignofTy_eq_p13 (t : Ty) : alignofTy t = Spec.alignTy t := by
  cases t with
  | prim p => simp [alignofTy, Spec.alignTy]
  | byte => simp [alignofTy, Spec.alignTy]
  | enum nm es => simp [alignofTy, Spec.alignTy]
  | struct nm ms =>
    simp only [alignofTy]
    rw [nodeTy_align']; simp [Spec.alignTy]
  | union nm arms =>
    simp only [alignofTy]
    rw [nodeTy_align']; simp [Spec.alignTy]

theorem union_size_arith_p13 (x b : Nat) (hb : IsAl b) :
    alignUp (4 + (if max 4 b = 8 then 4 else 0) + alignUp x b) (max 4 b) = alignUp (max 4 b + x) (max 4 b) := by
  unfold alignUp padTo
  rcases hb with rfl | rfl | rfl | rfl <;> simp <;> omega

theorem structSizeof_single_p13 (gs : List MG) (A : Nat) (h : ∀ g ∈ gs, g.isDyn = false) :
    structSizeof (gs.map (fun g => (g.fields, g.isDyn, g.align))) A =
      alignUp (totalSize (gs.flatMap (·.fields))) A := by
  unfold structSizeof
  rw [partition_single_p13]
  · simp [List.zipIdx, List.flatMap_map]
  · intro x hx
    obtain ⟨g, hg, rfl⟩ := List.mem_map.1 hx
    exact h g hg

mutual
  theorem sizeof_ok_p13 : (t : Ty) → front t = true → Spec.dynTy t = false → sizeofTy t = Spec.sizeTy t
    | .prim p, _, _ => by simp [sizeofTy, Spec.sizeTy]
    | .byte, _, _ => by simp [sizeofTy, Spec.sizeTy]
    | .enum _ _, _, _ => by simp [sizeofTy, Spec.sizeTy]
    | .struct nm ms, hf, hd => by
      have hfm : frontMs ms ms [] = true := by
        simp only [front, Bool.and_eq_true] at hf; exact hf.2
      have hne : ms ≠ [] := by
        intro h; subst h; simp [front] at hf
      have hdm : Spec.dynMs ms = false := by simpa [Spec.dynTy] using hd
      have hsz := sizeofMs_ok_p13 ms ms [] hfm
      have hg := groups_spec_p13 ms hne hfm hsz
      rw [any_dynamic_false_p13 ms ms [] hfm hdm] at hg
      have he := endsBlock_of_dynMs_p13 ms hdm
      have hnd := GSpec_isDyn_false_p13 _ _ ms _ ms [] _ _ hfm hg he
      have htot := total_static_p13 _ (Spec.alignMs_isAl ms) _ ms hne he 0 hg
      rw [Nat.zero_add] at htot
      simp only [sizeofTy, Spec.sizeTy]
      rw [blocksOf_groups_p13, structSizeof_single_p13 _ _ hnd, htot, nodeTy_align']
      simp only [Spec.alignTy]
      exact alignUp_idem _ _ (Spec.alignMs_pos ms)
    | .union nm arms, hf, _ => by
      have hfa : frontArms arms = true := by
        simp only [front, Bool.and_eq_true] at hf; exact hf.2
      obtain ⟨h1, h2⟩ := sizeofArms_ok_p13 arms hfa
      simp only [sizeofTy, Spec.sizeTy]
      rw [nodeTy_align', h1, h2]
      simp only [Spec.alignTy, Spec.flagSize]
      exact union_size_arith_p13 _ _ (Spec.alignArms_isAl arms)
  theorem sizeofMs_ok_p13 : (ms allF before : List Member) → frontMs allF ms before = true →
      ∀ m ∈ ms, Spec.dynTy m.ty = false → sizeofTy m.ty = Spec.sizeTy m.ty
    | [], _, _, _, m, hm, _ => by cases hm
    | .mk n t k :: r, allF, before, hf, m, hm, hd => by
      obtain ⟨ht, _, _, _, _, hr⟩ := frontMs_cons_playou allF n t k r before hf
      rcases List.mem_cons.1 hm with rfl | hmr
      · exact sizeof_ok_p13 t ht hd
      · exact sizeofMs_ok_p13 r allF _ hr m hmr hd
  theorem sizeofArms_ok_p13 : (arms : List Arm) → frontArms arms = true →
      maxArmSizeof arms = Spec.maxArm arms ∧ maxArmAlign arms = Spec.alignArms arms
    | [], _ => by simp [maxArmSizeof, maxArmAlign, Spec.maxArm, Spec.alignArms]
    | .mk n d t :: r, h => by
      obtain ⟨ht, hk, hr⟩ := frontArms_cons' n d t r h
      obtain ⟨h1, h2⟩ := sizeofArms_ok_p13 r hr
      have := sizeof_ok_p13 t ht (dyn_of_kind t ht hk)
      simp only [maxArmSizeof, maxArmAlign, Spec.maxArm, Spec.alignArms, h1, h2, this, alignofTy_eq_p13, and_self]
end

end Raw
end Prophy

#print axioms Prophy.Raw.sizeof_ok_p13
#print axioms Prophy.Raw.groups_spec_p13

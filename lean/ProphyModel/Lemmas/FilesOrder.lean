/-
  P15 - include handling (properties C16 / C20): every file parsed once, results independent of
  the order of the inputs, success on acyclic include graphs.
-/
import ProphyModel.Files
namespace Prophy.Files
open Prophy

/-! ## Unfolding / inversion lemmas -/

/-- `swap_dir` -/
def swapDir_p15 (dirs : List String) (g : FileId) : List String :=
  match dirs with
  | _ :: t => g.dir :: t
  | [] => []

theorem swapDir_cons_p15 (d : String) (t : List String) (g : FileId) :
    swapDir_p15 (d :: t) g = g.dir :: t := rfl

theorem processFile_succ_p15 (fs : List File) (fuel : Nat) (dirs : List String) (cache : Cache) (f : FileId) :
    processFile fs (fuel + 1) dirs cache f =
      match cache.lookup f with
      | some none => .error (.cyclic f)
      | some (some r) => .ok ({ r with parsed := [] }, cache)
      | none =>
        match lookupFile fs f with
        | none => .error (.notFound f.leaf)
        | some file =>
          match processIncludes fs fuel dirs ((f, none) :: cache) file.includes with
          | .error e => .error e
          | .ok (vis, parsed, cache1) =>
            let r : Result := { exports := file.defines, visible := vis ++ file.defines, parsed := f :: parsed }
            .ok (r, (f, some r) :: cache1) := by
  simp only [processFile]; rfl

theorem processIncludes_succ_p15 (fs : List File) (fuel : Nat) (dirs : List String) (cache : Cache)
    (leaf : String) (rest : List String) :
    processIncludes fs (fuel + 1) dirs cache (leaf :: rest) =
      match findLeaf fs leaf dirs with
      | none => .error (.notFound leaf)
      | some g =>
        match processFile fs fuel (swapDir_p15 dirs g) cache g with
        | .error e => .error e
        | .ok (r, cache1) =>
          match processIncludes fs fuel dirs cache1 rest with
          | .error e => .error e
          | .ok (vis, parsed, cache2) => .ok (r.exports ++ vis, r.parsed ++ parsed, cache2) := by
  simp only [processIncludes, swapDir_p15]; rfl

theorem processIncludes_nil_p15 (fs : List File) (fuel : Nat) (dirs : List String) (cache : Cache) :
    processIncludes fs fuel dirs cache [] = .ok ([], [], cache) := by
  cases fuel <;> simp only [processIncludes]

/-- inversion of a successful `processFile` -/
theorem processFile_ok_inv_p15 {fs : List File} {fuel : Nat} {dirs : List String} {cache c' : Cache}
    {f : FileId} {r : Result} (h : processFile fs fuel dirs cache f = .ok (r, c')) :
    (∃ r0, cache.lookup f = some (some r0) ∧ r = { r0 with parsed := [] } ∧ c' = cache) ∨
    (∃ n file vis parsed c1, fuel = n + 1 ∧ cache.lookup f = none ∧ lookupFile fs f = some file ∧
      processIncludes fs n dirs ((f, none) :: cache) file.includes = .ok (vis, parsed, c1) ∧
      r = ⟨file.defines, vis ++ file.defines, f :: parsed⟩ ∧
      c' = (f, some ⟨file.defines, vis ++ file.defines, f :: parsed⟩) :: c1) := by
  cases fuel with
  | zero => simp [processFile] at h
  | succ n =>
    rw [processFile_succ_p15] at h
    cases hl : cache.lookup f with
    | some o =>
      cases o with
      | none => simp [hl] at h
      | some r0 =>
        simp only [hl] at h
        injection h with h
        injection h with h1 h2
        exact .inl ⟨r0, rfl, h1.symm, h2.symm⟩
    | none =>
      simp only [hl] at h
      cases hf : lookupFile fs f with
      | none => simp [hf] at h
      | some file =>
        simp only [hf] at h
        cases hi : processIncludes fs n dirs ((f, none) :: cache) file.includes with
        | error e => simp [hi] at h
        | ok res =>
          obtain ⟨vis, parsed, c1⟩ := res
          simp only [hi] at h
          injection h with h
          injection h with h1 h2
          exact .inr ⟨n, file, vis, parsed, c1, rfl, rfl, rfl, hi, h1.symm, h2.symm⟩

/-- inversion of a successful `processIncludes` -/
theorem processIncludes_ok_inv_p15 {fs : List File} {fuel : Nat} {dirs : List String} {cache c' : Cache}
    {l : List String} {vis : List String} {parsed : List FileId}
    (h : processIncludes fs fuel dirs cache l = .ok (vis, parsed, c')) :
    (l = [] ∧ vis = [] ∧ parsed = [] ∧ c' = cache) ∨
    (∃ n leaf rest g r c1 vis2 parsed2, fuel = n + 1 ∧ l = leaf :: rest ∧ findLeaf fs leaf dirs = some g ∧
      processFile fs n (swapDir_p15 dirs g) cache g = .ok (r, c1) ∧
      processIncludes fs n dirs c1 rest = .ok (vis2, parsed2, c') ∧
      vis = r.exports ++ vis2 ∧ parsed = r.parsed ++ parsed2) := by
  cases l with
  | nil =>
    rw [processIncludes_nil_p15] at h
    injection h with h
    injection h with h1 h2
    injection h2 with h2 h3
    exact .inl ⟨rfl, h1.symm, h2.symm, h3.symm⟩
  | cons leaf rest =>
    cases fuel with
    | zero => simp [processIncludes] at h
    | succ n =>
      rw [processIncludes_succ_p15] at h
      cases hg : findLeaf fs leaf dirs with
      | none => simp [hg] at h
      | some g =>
        simp only [hg] at h
        cases hp : processFile fs n (swapDir_p15 dirs g) cache g with
        | error e => simp [hp] at h
        | ok res =>
          obtain ⟨r, c1⟩ := res
          simp only [hp] at h
          cases hi : processIncludes fs n dirs c1 rest with
          | error e => simp [hi] at h
          | ok res2 =>
            obtain ⟨vis2, parsed2, c2⟩ := res2
            simp only [hi] at h
            injection h with h
            injection h with h1 h2
            injection h2 with h2 h3
            subst h3
            exact .inr ⟨n, leaf, rest, g, r, c1, vis2, parsed2, rfl, rfl, hg, hp, hi, h1.symm, h2.symm⟩


theorem lookup_cons_p15 (a k : FileId) (b : Option Result) (c : Cache) :
    List.lookup a ((k, b) :: c) = if a = k then some b else List.lookup a c := by
  rw [List.lookup_cons]
  by_cases h : a = k
  · subst h; simp
  · have hb : (a == k) = false := by simpa using h
    rw [hb]; simp [h]

/-! ## Target 3 (C16): no file is parsed twice -/

/-- what a successful step tells about `parsed` and the cache: the parsed files are pairwise distinct,
    none of them was in the cache before, all of them are in the cache afterwards, and the cache only grows -/
structure ParsedInv_p15 (cache : Cache) (parsed : List FileId) (c' : Cache) : Prop where
  nodup : parsed.Nodup
  fresh : ∀ g ∈ parsed, cache.lookup g = none
  mono : ∀ g, cache.lookup g ≠ none → c'.lookup g ≠ none
  added : ∀ g ∈ parsed, c'.lookup g ≠ none
  marks : ∀ g, c'.lookup g = some none → cache.lookup g = some none

theorem parsedInv_both_p15 (fs : List File) (n : Nat) :
    (∀ dirs cache f r c', processFile fs n dirs cache f = .ok (r, c') → ParsedInv_p15 cache r.parsed c') ∧
    (∀ dirs cache l vis parsed c', processIncludes fs n dirs cache l = .ok (vis, parsed, c') →
      ParsedInv_p15 cache parsed c') := by
  induction n with
  | zero =>
    refine ⟨?_, ?_⟩
    · intro dirs cache f r c' h
      simp [processFile] at h
    · intro dirs cache l vis parsed c' h
      rcases processIncludes_ok_inv_p15 h with ⟨_, _, hp, hc⟩ | ⟨n, _, _, _, _, _, _, _, hn, _⟩
      · subst hp hc
        exact ⟨List.nodup_nil, by simp, fun g hg => hg, by simp, fun g hg => hg⟩
      · omega
  | succ n ih =>
    obtain ⟨ihF, ihI⟩ := ih
    refine ⟨?_, ?_⟩
    · intro dirs cache f r c' h
      rcases processFile_ok_inv_p15 h with ⟨r0, _, hr, hc⟩ | ⟨m, file, vis, parsed, c1, hm, hl, _, hi, hr, hc⟩
      · subst hr hc
        exact ⟨List.nodup_nil, by simp, fun g hg => hg, by simp, fun g hg => hg⟩
      · have hm' : m = n := by omega
        subst hm'
        have := ihI _ _ _ _ _ _ hi
        subst hr hc
        refine ⟨?_, ?_, ?_, ?_, ?_⟩
        · refine List.nodup_cons.mpr ⟨?_, this.nodup⟩
          intro hmem
          have := this.fresh f hmem
          simp at this
        · intro g hg
          rcases List.mem_cons.mp hg with rfl | hg
          · exact hl
          · have := this.fresh g hg
            rw [lookup_cons_p15] at this
            by_cases hgf : g = f
            · simp [hgf] at this
            · simpa [hgf] using this
        · intro g hg
          rw [lookup_cons_p15]
          by_cases hgf : g = f
          · simp [hgf]
          · simp only [hgf, if_false]
            apply this.mono
            rw [lookup_cons_p15]
            simpa [hgf] using hg
        · intro g hg
          rw [lookup_cons_p15]
          by_cases hgf : g = f
          · simp [hgf]
          · simp only [hgf, if_false]
            rcases List.mem_cons.mp hg with rfl | hg
            · exact absurd rfl hgf
            · exact this.added g hg
        · intro g hg
          rw [lookup_cons_p15] at hg
          by_cases hgf : g = f
          · simp [hgf] at hg
          · simp only [hgf, if_false] at hg
            have := this.marks g hg
            rw [lookup_cons_p15] at this
            simpa [hgf] using this
    · intro dirs cache l vis parsed c' h
      rcases processIncludes_ok_inv_p15 h with ⟨_, _, hp, hc⟩ |
        ⟨m, leaf, rest, g, r, c1, vis2, parsed2, hm, _, _, hp, hi, _, hpar⟩
      · subst hp hc
        exact ⟨List.nodup_nil, by simp, fun g hg => hg, by simp, fun g hg => hg⟩
      · have hm' : m = n := by omega
        subst hm'
        have h1 := ihF _ _ _ _ _ hp
        have h2 := ihI _ _ _ _ _ _ hi
        subst hpar
        refine ⟨?_, ?_, ?_, ?_, ?_⟩
        · refine List.nodup_append.mpr ⟨h1.nodup, h2.nodup, ?_⟩
          intro a ha b hb hab
          subst hab
          exact h1.added a ha (h2.fresh a hb)
        · intro a ha
          rcases List.mem_append.mp ha with ha | ha
          · exact h1.fresh a ha
          · have := h2.fresh a ha
            cases hc : List.lookup a cache with
            | none => rfl
            | some o => exact absurd this (h1.mono a (by simp [hc]))
        · intro a ha
          exact h2.mono a (h1.mono a ha)
        · intro a ha
          rcases List.mem_append.mp ha with ha | ha
          · exact h2.mono a (h1.added a ha)
          · exact h2.added a ha
        · intro a ha
          exact h1.marks a (h2.marks a ha)

theorem processFile_parsedInv_p15 {fs : List File} {n : Nat} {dirs : List String} {cache c' : Cache}
    {f : FileId} {r : Result} (h : processFile fs n dirs cache f = .ok (r, c')) :
    ParsedInv_p15 cache r.parsed c' := (parsedInv_both_p15 fs n).1 _ _ _ _ _ h

/-- all files parsed in one run, in order -/
def allParsed_p15 (rs : List (FileId × Result)) : List FileId := rs.flatMap (·.2.parsed)

theorem processMains_parsedInv_p15 (fs : List File) (inc : List String) :
    ∀ (ms : List FileId) (cache : Cache) (rs : List (FileId × Result)),
      processMains fs inc ms cache = .ok rs →
      (allParsed_p15 rs).Nodup ∧ ∀ g ∈ allParsed_p15 rs, cache.lookup g = none
  | [], cache, rs, h => by
    simp only [processMains] at h
    injection h with h
    subst h
    simp [allParsed_p15]
  | f :: ms, cache, rs, h => by
    simp only [processMains] at h
    cases hp : processFile fs (4 * fs.length + 4) (f.dir :: inc) cache f with
    | error e => simp [hp] at h
    | ok res =>
      obtain ⟨r, c1⟩ := res
      simp only [hp] at h
      cases hm : processMains fs inc ms c1 with
      | error e => simp [hm] at h
      | ok rs1 =>
        simp only [hm] at h
        injection h with h
        subst h
        have h1 := processFile_parsedInv_p15 hp
        have ⟨h2, h3⟩ := processMains_parsedInv_p15 fs inc ms c1 rs1 hm
        have hall : allParsed_p15 ((f, r) :: rs1) = r.parsed ++ allParsed_p15 rs1 := by
          simp [allParsed_p15]
        rw [hall]
        refine ⟨List.nodup_append.mpr ⟨h1.nodup, h2, ?_⟩, ?_⟩
        · intro a ha b hb hab
          subst hab
          exact h1.added a ha (h3 a hb)
        · intro a ha
          rcases List.mem_append.mp ha with ha | ha
          · exact h1.fresh a ha
          · have := h3 a ha
            cases hc : List.lookup a cache with
            | none => rfl
            | some o => exact absurd this (h1.mono a (by simp [hc]))

/-- **Target 3 (C16, parsed once).**  In one run of the shared FileProcessor over all the input files
    (from any starting cache) no file is parsed twice: the concatenation of all the `parsed` lists has
    no duplicates. -/
theorem parsed_once_p15 (fs : List File) (inc : List String) (ms : List FileId) (cache : Cache)
    (rs : List (FileId × Result)) (h : processMains fs inc ms cache = .ok rs) :
    (rs.flatMap (·.2.parsed)).Nodup :=
  (processMains_parsedInv_p15 fs inc ms cache rs h).1

/-- ... and a file that was already in the starting cache is never parsed. -/
theorem parsed_not_cached_p15 (fs : List File) (inc : List String) (ms : List FileId) (cache : Cache)
    (rs : List (FileId × Result)) (h : processMains fs inc ms cache = .ok rs) :
    ∀ g ∈ rs.flatMap (·.2.parsed), cache.lookup g = none :=
  (processMains_parsedInv_p15 fs inc ms cache rs h).2


/-! ## Targets 1 and 2 (C20): the result of a file is a function of the file system and the include
    directories only.

  Key observation: every call of `processFile` that `processMains` can reach has the search path
  `f.dir :: inc` for the file `f` being processed (`processMains` starts with `f.dir :: includeDirs`,
  and `swap_dir` replaces exactly the first entry by the included file's directory).  So the directory
  context from which a file is first reached does NOT influence its result, and no `uniqueLeaves`
  hypothesis is needed. -/

/-- specification of `exports`: the file's own definitions -/
def expSpec_p15 (fs : List File) (f : FileId) : List String :=
  match lookupFile fs f with
  | some file => file.defines
  | none => []

/-- specification of what a list of `#include`s makes visible under the search path `dirs` -/
def incVis_p15 (fs : List File) (dirs : List String) (l : List String) : List String :=
  l.flatMap (fun leaf => match findLeaf fs leaf dirs with
    | some g => expSpec_p15 fs g
    | none => [])

/-- specification of `visible`: the definitions of the direct includes (resolved with the file's own
    directory first, then the include directories), then the file's own definitions -/
def visSpec_p15 (fs : List File) (inc : List String) (f : FileId) : List String :=
  match lookupFile fs f with
  | some file => incVis_p15 fs (f.dir :: inc) file.includes ++ file.defines
  | none => []

/-- the cache invariant: every finished entry carries the specified `exports` and `visible` -/
def Cache.sound_p15 (fs : List File) (inc : List String) (c : Cache) : Prop :=
  ∀ f r, c.lookup f = some (some r) → r.exports = expSpec_p15 fs f ∧ r.visible = visSpec_p15 fs inc f

theorem Cache.sound_nil_p15 (fs : List File) (inc : List String) : Cache.sound_p15 fs inc [] := by
  intro f r h
  simp at h

theorem Cache.sound_marker_p15 {fs : List File} {inc : List String} {c : Cache} (f : FileId)
    (h : Cache.sound_p15 fs inc c) : Cache.sound_p15 fs inc ((f, none) :: c) := by
  intro g r hg
  rw [lookup_cons_p15] at hg
  by_cases hgf : g = f
  · simp [hgf] at hg
  · simp only [hgf, if_false] at hg
    exact h g r hg

theorem Cache.sound_done_p15 {fs : List File} {inc : List String} {c : Cache} (f : FileId) (r : Result)
    (h : Cache.sound_p15 fs inc c) (hr : r.exports = expSpec_p15 fs f ∧ r.visible = visSpec_p15 fs inc f) :
    Cache.sound_p15 fs inc ((f, some r) :: c) := by
  intro g r' hg
  rw [lookup_cons_p15] at hg
  by_cases hgf : g = f
  · simp only [hgf, if_true] at hg
    injection hg with hg
    injection hg with hg
    subst hg; subst hgf
    exact hr
  · simp only [hgf, if_false] at hg
    exact h g r' hg

theorem soundInv_both_p15 (fs : List File) (inc : List String) (n : Nat) :
    (∀ cache f r c', Cache.sound_p15 fs inc cache →
      processFile fs n (f.dir :: inc) cache f = .ok (r, c') →
      r.exports = expSpec_p15 fs f ∧ r.visible = visSpec_p15 fs inc f ∧ Cache.sound_p15 fs inc c') ∧
    (∀ d cache l vis parsed c', Cache.sound_p15 fs inc cache →
      processIncludes fs n (d :: inc) cache l = .ok (vis, parsed, c') →
      vis = incVis_p15 fs (d :: inc) l ∧ Cache.sound_p15 fs inc c') := by
  induction n with
  | zero =>
    refine ⟨?_, ?_⟩
    · intro cache f r c' _ h
      simp [processFile] at h
    · intro d cache l vis parsed c' hs h
      rcases processIncludes_ok_inv_p15 h with ⟨hl, hv, _, hc⟩ | ⟨n, _, _, _, _, _, _, _, hn, _⟩
      · subst hl hv hc
        exact ⟨by simp [incVis_p15], hs⟩
      · omega
  | succ n ih =>
    obtain ⟨ihF, ihI⟩ := ih
    refine ⟨?_, ?_⟩
    · intro cache f r c' hs h
      rcases processFile_ok_inv_p15 h with ⟨r0, hl, hr, hc⟩ | ⟨m, file, vis, parsed, c1, hm, hl, hf, hi, hr, hc⟩
      · subst hr hc
        have := hs f r0 hl
        exact ⟨this.1, this.2, hs⟩
      · have hm' : m = n := by omega
        subst hm'
        have ⟨hv, hs1⟩ := ihI _ _ _ _ _ _ (Cache.sound_marker_p15 f hs) hi
        have hr' : r.exports = expSpec_p15 fs f ∧ r.visible = visSpec_p15 fs inc f := by
          subst hr
          simp only [expSpec_p15, visSpec_p15, hf, hv]
          exact ⟨trivial, trivial⟩
        refine ⟨hr'.1, hr'.2, ?_⟩
        subst hc
        rw [← hr]
        exact Cache.sound_done_p15 f r hs1 hr'
    · intro d cache l vis parsed c' hs h
      rcases processIncludes_ok_inv_p15 h with ⟨hl, hv, _, hc⟩ |
        ⟨m, leaf, rest, g, r, c1, vis2, parsed2, hm, hl, hg, hp, hi, hvis, _⟩
      · subst hl hv hc
        exact ⟨by simp [incVis_p15], hs⟩
      · have hm' : m = n := by omega
        subst hm'
        rw [swapDir_cons_p15] at hp
        have ⟨he, _, hs1⟩ := ihF _ _ _ _ hs hp
        have ⟨hv2, hs2⟩ := ihI _ _ _ _ _ _ hs1 hi
        refine ⟨?_, hs2⟩
        subst hl hvis
        simp only [incVis_p15, List.flatMap_cons, hg]
        rw [he, hv2]
        rfl

/-- **Target 1 (cache invariant, first half).**  Processing a file `f` under its own search path
    `f.dir :: inc` with a sound cache yields the specified `exports` and `visible`, and the resulting
    cache is sound again. -/
theorem processFile_sound_p15 {fs : List File} {inc : List String} {n : Nat} {cache c' : Cache}
    {f : FileId} {r : Result} (hs : Cache.sound_p15 fs inc cache)
    (h : processFile fs n (f.dir :: inc) cache f = .ok (r, c')) :
    r.exports = expSpec_p15 fs f ∧ r.visible = visSpec_p15 fs inc f ∧ Cache.sound_p15 fs inc c' :=
  (soundInv_both_p15 fs inc n).1 _ _ _ _ hs h

/-- **Target 1 (determinism).**  Processing a file with a sound cache yields the same `exports` and
    `visible` as processing it with the empty cache (whatever the two fuels); only `parsed` differs: by
    `processFile_parsedInv_p15` the files that are already in the cache are not parsed again. -/
theorem processFile_cache_irrelevant_p15 {fs : List File} {inc : List String} {n n0 : Nat} {cache c' c0 : Cache}
    {f : FileId} {r r0 : Result} (hs : Cache.sound_p15 fs inc cache)
    (h : processFile fs n (f.dir :: inc) cache f = .ok (r, c'))
    (h0 : processFile fs n0 (f.dir :: inc) [] f = .ok (r0, c0)) :
    r.exports = r0.exports ∧ r.visible = r0.visible ∧
      Cache.sound_p15 fs inc c' ∧ (∀ g ∈ r.parsed, cache.lookup g = none) := by
  have ⟨a, b, c⟩ := processFile_sound_p15 hs h
  have ⟨a0, b0, _⟩ := processFile_sound_p15 (Cache.sound_nil_p15 fs inc) h0
  exact ⟨a.trans a0.symm, b.trans b0.symm, c, (processFile_parsedInv_p15 h).fresh⟩

/-- the literal reading of the task's `Cache.sound`: every finished entry agrees (in `exports` and
    `visible`) with some successful run of `processFile` for that file from the empty cache -/
def Cache.soundLit_p15 (fs : List File) (inc : List String) (c : Cache) : Prop :=
  ∀ f r, c.lookup f = some (some r) →
    ∃ n r0 c0, processFile fs n (f.dir :: inc) [] f = .ok (r0, c0) ∧
      r.exports = r0.exports ∧ r.visible = r0.visible

/-- the literal invariant implies the specification invariant, so the determinism theorem holds for it too -/
theorem Cache.sound_of_soundLit_p15 {fs : List File} {inc : List String} {c : Cache}
    (h : Cache.soundLit_p15 fs inc c) : Cache.sound_p15 fs inc c := by
  intro f r hl
  obtain ⟨n, r0, c0, hp, he, hv⟩ := h f r hl
  have ⟨a0, b0, _⟩ := processFile_sound_p15 (Cache.sound_nil_p15 fs inc) hp
  exact ⟨he.trans a0, hv.trans b0⟩

theorem processMains_sound_p15 (fs : List File) (inc : List String) :
    ∀ (ms : List FileId) (cache : Cache) (rs : List (FileId × Result)),
      Cache.sound_p15 fs inc cache → processMains fs inc ms cache = .ok rs →
      ∀ f r, (f, r) ∈ rs → r.exports = expSpec_p15 fs f ∧ r.visible = visSpec_p15 fs inc f
  | [], cache, rs, _, h => by
    simp only [processMains] at h
    injection h with h
    subst h
    simp
  | f :: ms, cache, rs, hs, h => by
    simp only [processMains] at h
    cases hp : processFile fs (4 * fs.length + 4) (f.dir :: inc) cache f with
    | error e => simp [hp] at h
    | ok res =>
      obtain ⟨r, c1⟩ := res
      simp only [hp] at h
      cases hm : processMains fs inc ms c1 with
      | error e => simp [hm] at h
      | ok rs1 =>
        simp only [hm] at h
        injection h with h
        subst h
        have ⟨a, b, hs1⟩ := processFile_sound_p15 hs hp
        intro f' r' hmem
        rcases List.mem_cons.mp hmem with heq | hmem
        · injection heq with h1 h2
          subst h1 h2
          exact ⟨a, b⟩
        · exact processMains_sound_p15 fs inc ms c1 rs1 hs1 hm f' r' hmem

/-- **Target 2 (C20, order independence).**  For two input lists that are permutations of each other
    (and both succeed) every main file gets the same `exports` and `visible`. -/
theorem order_independent_p15 (fs : List File) (inc : List String) (ms ms' : List FileId)
    (rs rs' : List (FileId × Result))
    (h : processMains fs inc ms [] = .ok rs) (h' : processMains fs inc ms' [] = .ok rs')
    (_hperm : ms.Perm ms') :
    ∀ f r r', (f, r) ∈ rs → (f, r') ∈ rs' → r.exports = r'.exports ∧ r.visible = r'.visible := by
  intro f r r' hm hm'
  have ⟨a, b⟩ := processMains_sound_p15 fs inc ms [] rs (Cache.sound_nil_p15 fs inc) h f r hm
  have ⟨a', b'⟩ := processMains_sound_p15 fs inc ms' [] rs' (Cache.sound_nil_p15 fs inc) h' f r' hm'
  exact ⟨a.trans a'.symm, b.trans b'.symm⟩

/-- Stronger form: the permutation hypothesis is not needed at all (any two input lists, any two sound
    starting caches): a file that is a main file of both runs gets the same `exports` and `visible`. -/
theorem order_independent_strong_p15 (fs : List File) (inc : List String) (ms ms' : List FileId)
    (cache cache' : Cache) (rs rs' : List (FileId × Result))
    (hs : Cache.sound_p15 fs inc cache) (hs' : Cache.sound_p15 fs inc cache')
    (h : processMains fs inc ms cache = .ok rs) (h' : processMains fs inc ms' cache' = .ok rs') :
    ∀ f r r', (f, r) ∈ rs → (f, r') ∈ rs' → r.exports = r'.exports ∧ r.visible = r'.visible := by
  intro f r r' hm hm'
  have ⟨a, b⟩ := processMains_sound_p15 fs inc ms cache rs hs h f r hm
  have ⟨a', b'⟩ := processMains_sound_p15 fs inc ms' cache' rs' hs' h' f r' hm'
  exact ⟨a.trans a'.symm, b.trans b'.symm⟩


/-- the results of `processMains` are listed in the order of the inputs -/
theorem processMains_keys_p15 (fs : List File) (inc : List String) :
    ∀ (ms : List FileId) (cache : Cache) (rs : List (FileId × Result)),
      processMains fs inc ms cache = .ok rs → rs.map (·.1) = ms
  | [], cache, rs, h => by
    simp only [processMains] at h
    injection h with h
    subst h
    rfl
  | f :: ms, cache, rs, h => by
    simp only [processMains] at h
    cases hp : processFile fs (4 * fs.length + 4) (f.dir :: inc) cache f with
    | error e => simp [hp] at h
    | ok res =>
      obtain ⟨r, c1⟩ := res
      simp only [hp] at h
      cases hm : processMains fs inc ms c1 with
      | error e => simp [hm] at h
      | ok rs1 =>
        simp only [hm] at h
        injection h with h
        subst h
        simp [processMains_keys_p15 fs inc ms c1 rs1 hm]

/-! ## Target 4: success on acyclic include graphs

  The fuel `4 * fs.length + 4` of `processMains` is NOT sufficient in general: `processIncludes` spends
  one unit of fuel per element of an include list *and* one per nesting level, so a file processed at
  include depth `k` as the `i`-th include of its parent needs about `Σ (i_j + 2)` fuel along the chain.
  Two witnesses (both acyclic, every include resolves), then the theorem with the bound made explicit. -/

/-- smallest file system: `m` includes the leaf `a` eleven times (fuel `4 * 2 + 4 = 12`) -/
def fuelWitnessDup_p15 : List File :=
  [⟨⟨"d", "m"⟩, List.replicate 11 "a", ["M"]⟩, ⟨⟨"d", "a"⟩, [], ["A"]⟩]

example : (match processMains fuelWitnessDup_p15 [] [⟨"d", "m"⟩] [] with
    | .error e => e == .cyclic ⟨"d", "a"⟩      -- a bogus "cyclic include" report
    | .ok _ => false) = true := by decide

/-- with ten includes it still succeeds -/
example : (match processMains [⟨⟨"d", "m"⟩, List.replicate 10 "a", ["M"]⟩, ⟨⟨"d", "a"⟩, [], ["A"]⟩] []
    [⟨"d", "m"⟩] [] with | .ok _ => true | .error _ => false) = true := by decide

/-- a witness without repeated includes: a chain `c0 → c1 → ... → c6` of seven files, each of which
    first includes the same seven leaf files `x0 .. x6` and then the next file of the chain:
    14 files, fuel `4 * 14 + 4 = 60`, but the chain needs `7 * 9` -/
def fuelWitnessChain_p15 : List File :=
  let xs := ["x0", "x1", "x2", "x3", "x4", "x5", "x6"]
  [⟨⟨"d", "c0"⟩, xs ++ ["c1"], []⟩, ⟨⟨"d", "c1"⟩, xs ++ ["c2"], []⟩, ⟨⟨"d", "c2"⟩, xs ++ ["c3"], []⟩,
   ⟨⟨"d", "c3"⟩, xs ++ ["c4"], []⟩, ⟨⟨"d", "c4"⟩, xs ++ ["c5"], []⟩, ⟨⟨"d", "c5"⟩, xs ++ ["c6"], []⟩,
   ⟨⟨"d", "c6"⟩, xs, []⟩] ++ xs.map (fun x => ⟨⟨"d", x⟩, [], []⟩)

example : (match processMains fuelWitnessChain_p15 [] [⟨"d", "c0"⟩] [] with
    | .ok _ => true | .error _ => false) = false := by decide

/-- `rank` is a *weighted* rank function on the set `R` of files (closed under includes): every file of
    `R` exists, every include resolves inside `R`, and the `i`-th include (counting from 0) of `f` has a
    rank smaller than that of `f` by at least `i + 2` (this is the explicit depth bound: it accounts for
    the fuel `processIncludes` spends walking along the include list) -/
def Ranked_p15 (fs : List File) (inc : List String) (R : FileId → Prop) (rank : FileId → Nat) : Prop :=
  ∀ f, R f → ∃ file, lookupFile fs f = some file ∧
    ∀ i leaf, file.includes[i]? = some leaf →
      ∃ g, findLeaf fs leaf (f.dir :: inc) = some g ∧ R g ∧ rank g + i + 2 ≤ rank f

theorem success_both_p15 (fs : List File) (inc : List String) (R : FileId → Prop) (rank : FileId → Nat)
    (hR : Ranked_p15 fs inc R rank) (n : Nat) :
    (∀ cache f, R f → rank f < n → (∀ h, cache.lookup h = some none → rank f < rank h) →
      ∃ r c', processFile fs n (f.dir :: inc) cache f = .ok (r, c')) ∧
    (∀ d cache l B,
      (∀ i leaf, l[i]? = some leaf →
        ∃ g, findLeaf fs leaf (d :: inc) = some g ∧ R g ∧ rank g + i + 2 ≤ n ∧ rank g < B) →
      (∀ h, cache.lookup h = some none → B ≤ rank h) →
      ∃ vis parsed c', processIncludes fs n (d :: inc) cache l = .ok (vis, parsed, c')) := by
  induction n with
  | zero =>
    refine ⟨?_, ?_⟩
    · intro cache f _ h
      omega
    · intro d cache l B hl _
      cases l with
      | nil => exact ⟨_, _, _, processIncludes_nil_p15 ..⟩
      | cons leaf rest =>
        obtain ⟨g, _, _, h, _⟩ := hl 0 leaf rfl
        omega
  | succ n ih =>
    obtain ⟨ihF, ihI⟩ := ih
    refine ⟨?_, ?_⟩
    · intro cache f hf hn hm
      rw [processFile_succ_p15]
      cases hl : cache.lookup f with
      | some o =>
        cases o with
        | none => exact absurd (hm f hl) (Nat.lt_irrefl _)
        | some r0 => exact ⟨_, _, rfl⟩
      | none =>
        obtain ⟨file, hfile, hinc⟩ := hR f hf
        have : ∃ vis parsed c', processIncludes fs n (f.dir :: inc) ((f, none) :: cache) file.includes
            = .ok (vis, parsed, c') := by
          apply ihI f.dir ((f, none) :: cache) file.includes (rank f)
          · intro i leaf hi
            obtain ⟨g, hg, hRg, hr⟩ := hinc i leaf hi
            exact ⟨g, hg, hRg, by omega, by omega⟩
          · intro h hh
            rw [lookup_cons_p15] at hh
            by_cases hhf : h = f
            · subst hhf; exact Nat.le_refl _
            · simp only [hhf, if_false] at hh
              exact Nat.le_of_lt (hm h hh)
        obtain ⟨vis, parsed, c1, hi⟩ := this
        simp only [hfile, hi]
        exact ⟨_, _, rfl⟩
    · intro d cache l B hl hm
      cases l with
      | nil => exact ⟨_, _, _, processIncludes_nil_p15 ..⟩
      | cons leaf rest =>
        rw [processIncludes_succ_p15]
        obtain ⟨g, hg, hRg, hr, hB⟩ := hl 0 leaf rfl
        simp only [hg, swapDir_cons_p15]
        obtain ⟨r, c1, hp⟩ := ihF cache g hRg (by omega) (fun h hh => Nat.lt_of_lt_of_le hB (hm h hh))
        have hmarks := (processFile_parsedInv_p15 hp).marks
        obtain ⟨vis2, parsed2, c2, hi⟩ := ihI d c1 rest B
          (by
            intro i leaf' hi
            obtain ⟨g', hg', hRg', hr', hB'⟩ := hl (i + 1) leaf' (by simpa using hi)
            exact ⟨g', hg', hRg', by omega, hB'⟩)
          (fun h hh => hm h (hmarks h hh))
        simp only [hp, hi]
        exact ⟨_, _, _, rfl⟩

/-- a successful `processFile` leaves no new cycle marker behind -/
theorem processFile_marks_p15 {fs : List File} {n : Nat} {dirs : List String} {cache c' : Cache}
    {f : FileId} {r : Result} (h : processFile fs n dirs cache f = .ok (r, c'))
    (hc : ∀ g, cache.lookup g ≠ some none) : ∀ g, c'.lookup g ≠ some none :=
  fun g hg => hc g ((processFile_parsedInv_p15 h).marks g hg)

theorem processMains_success_aux_p15 (fs : List File) (inc : List String) (R : FileId → Prop)
    (rank : FileId → Nat) (hR : Ranked_p15 fs inc R rank) :
    ∀ (ms : List FileId) (cache : Cache),
      (∀ f ∈ ms, R f ∧ rank f < 4 * fs.length + 4) → (∀ g, cache.lookup g ≠ some none) →
      ∃ rs, processMains fs inc ms cache = .ok rs
  | [], cache, _, _ => ⟨[], by simp only [processMains]⟩
  | f :: ms, cache, hms, hc => by
    have ⟨hRf, hrf⟩ := hms f (List.mem_cons_self ..)
    obtain ⟨r, c1, hp⟩ := (success_both_p15 fs inc R rank hR (4 * fs.length + 4)).1 cache f hRf hrf
      (fun h hh => absurd hh (hc h))
    obtain ⟨rs, hrs⟩ := processMains_success_aux_p15 fs inc R rank hR ms c1
      (fun g hg => hms g (List.mem_cons_of_mem _ hg)) (processFile_marks_p15 hp hc)
    exact ⟨(f, r) :: rs, by simp only [processMains, hp, hrs]⟩

/-- **Target 4 (success on acyclic include graphs, depth bound explicit).**  If the files reachable from
    the inputs (any set `R` containing the inputs and closed under includes) all exist, all their includes
    resolve, and the include relation carries a weighted rank (`rank g + i + 2 ≤ rank f` for the `i`-th
    include `g` of `f`) that stays below the fuel for the inputs, then `processMains` succeeds.
    (The original statement with a plain rank `rank g < rank f` is false for the fuel
    `4 * fs.length + 4`: see `fuelWitnessDup_p15` / `fuelWitnessChain_p15`.) -/
theorem processMains_success_p15 (fs : List File) (inc : List String) (R : FileId → Prop)
    (rank : FileId → Nat) (hR : Ranked_p15 fs inc R rank) (ms : List FileId)
    (hms : ∀ f ∈ ms, R f ∧ rank f < 4 * fs.length + 4) :
    ∃ rs, processMains fs inc ms [] = .ok rs :=
  processMains_success_aux_p15 fs inc R rank hR ms [] hms (by simp)

/-- plain acyclicity (`rank g < rank f`) plus a bound `W` on the number of includes of a file -/
def RankedPlain_p15 (fs : List File) (inc : List String) (R : FileId → Prop) (rank : FileId → Nat)
    (W : Nat) : Prop :=
  ∀ f, R f → ∃ file, lookupFile fs f = some file ∧ file.includes.length ≤ W ∧
    ∀ leaf ∈ file.includes, ∃ g, findLeaf fs leaf (f.dir :: inc) = some g ∧ R g ∧ rank g < rank f

/-- **Target 4, plain form.**  With an ordinary rank function (`rank (included) < rank (including)`), at
    most `W` includes per file, and inputs of rank `D` with `(W + 1) * D < 4 * fs.length + 4`, the fuel is
    sufficient and `processMains` succeeds. -/
theorem processMains_success_plain_p15 (fs : List File) (inc : List String) (R : FileId → Prop)
    (rank : FileId → Nat) (W : Nat) (hR : RankedPlain_p15 fs inc R rank W) (ms : List FileId)
    (hms : ∀ f ∈ ms, R f ∧ (W + 1) * rank f < 4 * fs.length + 4) :
    ∃ rs, processMains fs inc ms [] = .ok rs := by
  apply processMains_success_p15 fs inc R (fun f => (W + 1) * rank f) ?_ ms hms
  intro f hf
  obtain ⟨file, hfile, hW, hinc⟩ := hR f hf
  refine ⟨file, hfile, ?_⟩
  intro i leaf hi
  have hmem : leaf ∈ file.includes := List.mem_of_getElem? hi
  have hlt : i < file.includes.length := by
    rcases Nat.lt_or_ge i file.includes.length with h | h
    · exact h
    · rw [List.getElem?_eq_none h] at hi; cases hi
  obtain ⟨g, hg, hRg, hr⟩ := hinc leaf hmem
  refine ⟨g, hg, hRg, ?_⟩
  have h1 : (W + 1) * (rank g + 1) ≤ (W + 1) * rank f := Nat.mul_le_mul_left _ hr
  have h2 : (W + 1) * (rank g + 1) = (W + 1) * rank g + (W + 1) := Nat.mul_succ _ _
  show (W + 1) * rank g + i + 2 ≤ (W + 1) * rank f
  omega


/-- Target 2 with the permutation hypothesis used: every input file has a result in both runs, and
    the two results agree in `exports` and `visible`. -/
theorem order_independent_perm_p15 (fs : List File) (inc : List String) (ms ms' : List FileId)
    (rs rs' : List (FileId × Result))
    (h : processMains fs inc ms [] = .ok rs) (h' : processMains fs inc ms' [] = .ok rs')
    (hperm : ms.Perm ms') :
    ∀ f ∈ ms, ∃ r r', (f, r) ∈ rs ∧ (f, r') ∈ rs' ∧ r.exports = r'.exports ∧ r.visible = r'.visible := by
  intro f hf
  have hk := processMains_keys_p15 fs inc ms [] rs h
  have hk' := processMains_keys_p15 fs inc ms' [] rs' h'
  have hf' : f ∈ ms' := hperm.mem_iff.mp hf
  rw [← hk] at hf
  rw [← hk'] at hf'
  obtain ⟨⟨f1, r⟩, hm, rfl⟩ := List.mem_map.mp hf
  obtain ⟨⟨f2, r'⟩, hm', heq⟩ := List.mem_map.mp hf'
  simp only at heq
  subst heq
  exact ⟨r, r', hm, hm', order_independent_p15 fs inc ms ms' rs rs' h h' hperm _ r r' hm hm'⟩

/-- a decidable check of `Ranked_p15` for the finite set `ids` -/
def rankedCheck_p15 (fs : List File) (inc : List String) (ids : List FileId) (rank : FileId → Nat) : Bool :=
  ids.all fun f => match lookupFile fs f with
    | none => false
    | some file => file.includes.zipIdx.all fun p => match findLeaf fs p.1 (f.dir :: inc) with
      | none => false
      | some g => ids.contains g && decide (rank g + p.2 + 2 ≤ rank f)

theorem ranked_of_check_p15 {fs : List File} {inc : List String} {ids : List FileId} {rank : FileId → Nat}
    (h : rankedCheck_p15 fs inc ids rank = true) : Ranked_p15 fs inc (· ∈ ids) rank := by
  intro f hf
  have h1 := List.all_eq_true.mp h f hf
  cases hfile : lookupFile fs f with
  | none => simp [hfile] at h1
  | some file =>
    simp only [hfile] at h1
    refine ⟨file, rfl, ?_⟩
    intro i leaf hi
    have h2 := List.all_eq_true.mp h1 (leaf, i) (List.mem_zipIdx_iff_getElem?.mpr hi)
    cases hg : findLeaf fs leaf (f.dir :: inc) with
    | none => simp [hg] at h2
    | some g =>
      simp only [hg, Bool.and_eq_true, decide_eq_true_eq] at h2
      exact ⟨g, rfl, List.contains_iff_mem.mp h2.1, h2.2⟩

/-- non-vacuity of target 4: the diamond of `Properties/C16.lean` (main includes a and b, both include
    base, over two include directories) satisfies the hypotheses, hence succeeds -/
def exFs_p15 : List File := [
  ⟨⟨"/p", "main"⟩, ["a", "b"], ["M"]⟩, ⟨⟨"/p/i1", "a"⟩, ["base"], ["A"]⟩,
  ⟨⟨"/p/i2", "b"⟩, ["base"], ["B"]⟩, ⟨⟨"/p/i2", "base"⟩, [], ["K"]⟩]

def exRank_p15 (f : FileId) : Nat :=
  if f.leaf = "main" then 5 else if f.leaf = "base" then 0 else 2

example : ∃ rs, processMains exFs_p15 ["/p/i1", "/p/i2"] [⟨"/p", "main"⟩, ⟨"/p/i2", "b"⟩] [] = .ok rs :=
  processMains_success_p15 exFs_p15 ["/p/i1", "/p/i2"]
    (· ∈ [⟨"/p", "main"⟩, ⟨"/p/i1", "a"⟩, ⟨"/p/i2", "b"⟩, ⟨"/p/i2", "base"⟩]) exRank_p15
    (ranked_of_check_p15 (by decide)) _ (by decide)

/-- the search path matters (so `inc` is a parameter of the invariant), but only through `inc`: with the
    two include directories swapped the same file sees another `a` -/
example :
    let fs : List File := [⟨⟨"/p", "m"⟩, ["a"], []⟩, ⟨⟨"/i1", "a"⟩, [], ["A1"]⟩, ⟨⟨"/i2", "a"⟩, [], ["A2"]⟩]
    visSpec_p15 fs ["/i1", "/i2"] ⟨"/p", "m"⟩ = ["A1"] ∧ visSpec_p15 fs ["/i2", "/i1"] ⟨"/p", "m"⟩ = ["A2"] := by
  decide

end Prophy.Files

#print axioms Prophy.Files.parsed_once_p15
#print axioms Prophy.Files.order_independent_p15
#print axioms Prophy.Files.order_independent_strong_p15
#print axioms Prophy.Files.processFile_cache_irrelevant_p15
#print axioms Prophy.Files.processMains_success_p15
#print axioms Prophy.Files.processMains_success_plain_p15
#print axioms Prophy.Files.order_independent_perm_p15
#print axioms Prophy.Files.ranked_of_check_p15

/- helper lemmas about `render` / `clen` -/
import ProphyModel.Spec
namespace Prophy.Spec

@[simp] theorem Chunk.render_length (e : Endian) (c : Chunk) : (c.render e).length = c.len := by
  cases c <;> simp [Chunk.render, Chunk.len]

@[simp] theorem render_length (e : Endian) (cs : List Chunk) : (render e cs).length = clen cs := by
  induction cs with
  | nil => rfl
  | cons c r ih => simp [render, clen, ih]

@[simp] theorem render_append (e : Endian) (a b : List Chunk) :
    render e (a ++ b) = render e a ++ render e b := by
  induction a with
  | nil => rfl
  | cons c r ih => simp [render, ih]

@[simp] theorem clen_append (a b : List Chunk) : clen (a ++ b) = clen a + clen b := by
  induction a with
  | nil => simp [clen]
  | cons c r ih => simp [clen, ih]; omega

end Prophy.Spec

/- the raw C++ struct layout (`Raw.structBlocks`, `Raw.sizeofTy`, `Raw.unionLayout`) is the wire layout
   (`Spec.blockOffsets`, `Spec.sizeTy`, `Spec.blockAlign`): property C08 -/
import ProphyModel.Raw
import ProphyModel.Lemmas.PLayoutSpec
namespace Prophy
open Prophy

namespace Raw

/-! ## names -/

theorem has_not_pad_p11 (n : String) : ("has_" ++ n).startsWith "_padding" = false := by
  rw [String.startsWith_string_eq_false_iff]
  simp [String.toList_append]

theorem pad_is_pad_p11 (idx : Nat) : (s!"_padding{idx}").startsWith "_padding" = true := by
  rw [String.startsWith_string_iff]
  show "_padding".toList <+: ("_padding" ++ toString idx).toList
  simp [String.toList_append]

/-- offsets of the declared (non-padding) fields -/
def fo (fs : List Field) (off : Nat) : List (String × Nat) :=
  (offsets fs off).filter (fun p => !(p.1.startsWith "_padding"))

theorem fo_nil (off : Nat) : fo [] off = [] := rfl

theorem offsets_append_p11 : (fs gs : List Field) → (off : Nat) →
    offsets (fs ++ gs) off = offsets fs off ++ offsets gs (off + totalSize fs)
  | [], gs, off => by simp [offsets, totalSize]
  | f :: fs, gs, off => by
    simp only [List.cons_append, offsets, totalSize, offsets_append_p11 fs gs, Nat.add_assoc]

theorem fo_append (fs gs : List Field) (off : Nat) :
    fo (fs ++ gs) off = fo fs off ++ fo gs (off + totalSize fs) := by
  simp only [fo, offsets_append_p11, List.filter_append]

theorem totalSize_append_p11 : (fs gs : List Field) → totalSize (fs ++ gs) = totalSize fs + totalSize gs
  | [], gs => by simp [totalSize]
  | f :: fs, gs => by simp only [List.cons_append, totalSize, totalSize_append_p11 fs gs, Nat.add_assoc]

theorem fo_padders (p idx off : Nat) : fo (padders p idx).1 off = [] := by
  unfold padders
  simp only []
  split <;> split <;> split <;>
    simp only [fo, offsets, List.append_nil, List.nil_append, List.cons_append, List.length_cons, List.length_nil,
      List.filter_cons, List.filter_nil, pad_is_pad_p11, Bool.not_true, Bool.false_eq_true, if_false]

theorem totalSize_padders (p idx : Nat) (h : p < 8) : totalSize (padders p idx).1 = p := by
  unfold padders
  simp only []
  split <;> split <;> split <;>
    simp only [totalSize, Field.size, List.append_nil, List.nil_append, List.cons_append] <;> omega


/-! ## the fields of one member -/

def flagFields (n : String) (t : Ty) (k : MKind) (idx : Nat) : List Field × Nat :=
  match k with
  | .optional =>
    let fp := (PL.memOf (PL.nodeTy t) .optional).size - (PL.nodeTy t).size - 4
    let (p, i) := if fp > 0 then padders fp idx else ([], idx)
    (Field.mk ("has_" ++ n) 4 1 :: p, i)
  | _ => ([], idx)

def countOf : MKind → Nat
  | .fixed c => c
  | .limited _ c => c
  | _ => 1

def padFields (padding : Int) (idx : Nat) : List Field × Nat :=
  if padding > 0 then padders padding.toNat idx else ([], idx)

def memFields (n : String) (t : Ty) (k : MKind) (padding : Int) (idx : Nat) : List Field × Nat :=
  ((flagFields n t k idx).1 ++ [Field.mk n (sizeofTy t) (countOf k)] ++ (padFields padding (flagFields n t k idx).2).1,
   (padFields padding (flagFields n t k idx).2).2)

theorem memberFields_cons (all : List Member) (n : String) (t : Ty) (k : MKind) (r : List Member)
    (s a : Nat) (padding : Int) (ls : List (Nat × Nat × Int)) (mem : PL.Mem) (mems : List PL.Mem) (idx : Nat) :
    memberFields all (.mk n t k :: r) ((s, a, padding) :: ls) (mem :: mems) idx =
      ((memFields n t k padding idx).1, mem.kind == 1 || mem.isDynamic) ::
        memberFields all r ls mems (memFields n t k padding idx).2 := by
  cases k <;> (simp only [memberFields, memFields, flagFields, padFields, countOf]; try rfl)


def isDynMem (m : PL.Mem) : Bool := m.kind == 1 || m.isDynamic

/-- the per-member groups of `blocksOf`, by recursion on the members, the bumped `Mem`s and the paddings -/
def grp : List Member → List PL.Mem → List Int → Nat → List (List Field × Bool × Nat)
  | .mk n t k :: r, b :: bm, p :: ps, idx =>
    ((memFields n t k p idx).1, isDynMem (PL.memOf (PL.nodeTy t) k), b.align)
      :: grp r bm ps (memFields n t k p idx).2
  | _, _, _, _ => []

theorem memberFields_nil_ls (all ms : List Member) (mems : List PL.Mem) (idx : Nat) :
    memberFields all ms [] mems idx = [] := by
  cases ms <;> simp [memberFields]

theorem groups_eq_grp (all : List Member) : (ms : List Member) → (bm : List PL.Mem) → (ps : List Int) → (idx : Nat) →
    ((memberFields all ms ((bm.zip ps).map (fun (x : PL.Mem × Int) => (x.1.size, x.1.align, x.2))) (PL.memsOf ms) idx).zip
        ((bm.zip ps).map (fun (x : PL.Mem × Int) => (x.1.size, x.1.align, x.2)))).map
      (fun (x : (List Field × Bool) × (Nat × Nat × Int)) => (x.1.1, x.1.2, x.2.2.1)) = grp ms bm ps idx
  | [], bm, ps, idx => by simp [memberFields, grp]
  | .mk n t k :: r, [], ps, idx => by simp [memberFields_nil_ls, grp]
  | .mk n t k :: r, b :: bm, [], idx => by simp [memberFields_nil_ls, grp]
  | .mk n t k :: r, b :: bm, p :: ps, idx => by
    have ih := groups_eq_grp all r bm ps (memFields n t k p idx).2
    simp only [List.zip_cons_cons, List.map_cons, PL.memsOf, memberFields_cons, grp, ih, isDynMem]

theorem blocksOf_eq_grp (all ms : List Member) (bm : List PL.Mem) (ps : List Int) :
    blocksOf all ms ((bm.zip ps).map (fun (x : PL.Mem × Int) => (x.1.size, x.1.align, x.2))) (PL.memsOf ms)
      = grp ms bm ps 0 := by
  rw [← groups_eq_grp all ms bm ps 0]
  simp only [blocksOf]

theorem structMembers_eq (ms : List Member) :
    PL.structMembers ms = ((PL.bump (PL.memsOf ms) false).zip (PL.structSize (PL.bump (PL.memsOf ms) false)).2.2).map
      (fun (x : PL.Mem × Int) => (x.1.size, x.1.align, x.2)) := rfl


/-! ## sizes of the fields of one member -/

/-- the bytes a member's own fields (flag, flag padding, value) take in the generated struct -/
def rawSlot (t : Ty) : MKind → Nat
  | .optional => max 4 (Spec.alignTy t) + sizeofTy t
  | k => sizeofTy t * countOf k

theorem totalSize_flagFields (n : String) (t : Ty) (k : MKind) (idx : Nat) :
    totalSize (flagFields n t k idx).1 = match k with
      | .optional => max 4 (Spec.alignTy t)
      | _ => 0 := by
  have hal := Spec.alignTy_isAl t
  cases k <;> simp only [flagFields, totalSize]
  unfold IsAl at hal
  have hfp : (PL.memOf (PL.nodeTy t) .optional).size - (PL.nodeTy t).size - 4 = max 4 (Spec.alignTy t) - 4 := by
    rw [PL.memOf_size, PL.nodeTy_align']
    simp only [PL.discSize]
    omega
  simp only [hfp]
  by_cases h : max 4 (Spec.alignTy t) - 4 > 0
  · rw [if_pos h, totalSize_padders _ _ (by omega)]
    simp only [Field.size]
    omega
  · rw [if_neg h]
    simp only [totalSize, Field.size]
    omega

theorem totalSize_padFields (p : Int) (idx : Nat) (h : p.toNat < 8) : totalSize (padFields p idx).1 = p.toNat := by
  unfold padFields
  split
  · exact totalSize_padders _ _ h
  · simp only [totalSize]; omega

theorem totalSize_memFields (n : String) (t : Ty) (k : MKind) (p : Int) (idx : Nat) (h : p.toNat < 8) :
    totalSize (memFields n t k p idx).1 = rawSlot t k + p.toNat := by
  simp only [memFields, totalSize_append_p11, totalSize_flagFields, totalSize_padFields _ _ h, totalSize, Field.size]
  cases k <;> simp only [rawSlot, countOf] <;> omega


/-! ## the paddings of evaluate_struct_size: bounds and sum -/

theorem padTo_lt8_p11 (x a : Nat) (ha : a ≤ 8) : padTo x a < 8 := by
  unfold padTo
  by_cases h : a = 0
  · subst h; simp
  · have := Nat.mod_lt (a - x % a) (Nat.pos_of_ne_zero h); omega

theorem padsFrom_lt8 (A : Nat) (d : Bool) (hA : A ≤ 8) : (r : List PL.Mem) → (prev : PL.Mem) → (bs : Nat) →
    (∀ m ∈ r, m.align ≤ 8) → ∀ p ∈ PL.padsFrom A d prev r bs, p.toNat < 8
  | [], prev, bs, _, p, hp => by
    simp only [PL.padsFrom, PL.plastOf, List.mem_singleton] at hp
    have := padTo_lt8_p11 bs A hA
    subst hp
    split
    · split <;> omega
    · omega
  | m :: r, prev, bs, hr, p, hp => by
    simp only [PL.padsFrom, List.mem_cons] at hp
    have hm : m.align ≤ 8 := hr m (by simp)
    rcases hp with hp | hp
    · have := padTo_lt8_p11 bs m.align hm
      subst hp
      split <;> omega
    · exact padsFrom_lt8 A d hA r m _ (fun x hx => hr x (by simp [hx])) p hp

theorem mem_le_maxAlign_p11 : (l : List PL.Mem) → ∀ m ∈ l, m.align ≤ PL.maxAlign l
  | [], _, h => by simp at h
  | x :: r, m, h => by
    simp only [List.mem_cons] at h
    simp only [PL.maxAlign]
    rcases h with rfl | h
    · omega
    · have := mem_le_maxAlign_p11 r m h; omega

/-- sum of the members' byte sizes and of their non-negative paddings -/
def sumSP : List PL.Mem → List Int → Nat
  | m :: r, p :: ps => m.size + p.toNat + sumSP r ps
  | _, _ => 0

theorem sumSP_padsFrom (A : Nat) : (r : List PL.Mem) → (prev : PL.Mem) → (bs : Nat) →
    (∀ m ∈ prev :: r, PL.isMemberDynamic m = false) →
    bs + sumSP (prev :: r) (PL.padsFrom A false prev r bs) = prev.size + alignUp (PL.layout r bs) A
  | [], prev, bs, _ => by
    simp only [PL.padsFrom, PL.plastOf, sumSP, PL.layout, alignUp]
    simp
    omega
  | m :: r, prev, bs, h => by
    have hp : PL.isMemberDynamic prev = false := h prev (by simp)
    have ih := sumSP_padsFrom A r m (bs + m.size + padTo bs m.align) (fun x hx => h x (by simp [hx]))
    simp only [PL.padsFrom, hp, Bool.false_and, Bool.false_eq_true, if_false, PL.layout]
    rw [sumSP]
    simp only [Int.toNat_natCast]
    omega

theorem structSize_sumSP (l : List PL.Mem) (h : ∀ m ∈ l, PL.isMemberDynamic m = false) :
    sumSP l (PL.structSize l).2.2 = (PL.structSize l).1 := by
  cases l with
  | nil => rfl
  | cons m r =>
    have hany : (m :: r).any PL.isMemberDynamic = false := by
      rw [List.any_eq_false]; intro x hx; simp [h x hx]
    rw [PL.structSize_pads, PL.structSize_size, hany, PL.padTo_zero]
    have := sumSP_padsFrom (PL.maxAlign (m :: r)) r m (m.size + 0) h
    simp only [PL.layout, List.isEmpty_cons, Bool.false_eq_true, if_false, PL.padTo_zero, Nat.zero_add]
    simp only [Nat.add_zero] at this ⊢
    omega


/-! ## partition -/

theorem partition_ne_nil {α : Type} (p : α → Bool) : (l : List α) → partition p l ≠ []
  | [] => by simp [partition]
  | [x] => by simp [partition]
  | x :: y :: r => by
    have ih := partition_ne_nil p (y :: r)
    simp only [partition]
    split
    · simp
    · split <;> simp

theorem partition_all_false {α : Type} (p : α → Bool) : (l : List α) → (∀ x ∈ l, p x = false) →
    partition p l = [l]
  | [], _ => rfl
  | [x], _ => rfl
  | x :: y :: r, h => by
    have ih := partition_all_false p (y :: r) (fun z hz => h z (by simp [hz]))
    simp only [partition, h x (by simp), ih]
    simp

theorem grp_total : (ms : List Member) → (first : Bool) → (ps : List Int) → (idx : Nat) →
    (∀ m ∈ ms, rawSlot m.ty m.kind = (PL.memOf (PL.nodeTy m.ty) m.kind).size) → (∀ p ∈ ps, p.toNat < 8) →
    totalSize ((grp ms (PL.bump (PL.memsOf ms) first) ps idx).flatMap (·.1)) = sumSP (PL.bump (PL.memsOf ms) first) ps
  | [], _, _, _, _, _ => by simp [grp, PL.memsOf, PL.bump, sumSP, totalSize]
  | .mk n t k :: r, first, [], idx, _, _ => by simp [grp, PL.memsOf, PL.bump, sumSP, totalSize]
  | .mk n t k :: r, first, p :: ps, idx, hm, hp => by
    have ih := grp_total r (PL.endsPart (PL.memOf (PL.nodeTy t) k)) ps (memFields n t k p idx).2
      (fun m h => hm m (by simp [h])) (fun q h => hp q (by simp [h]))
    have h1 := hm (.mk n t k) (by simp)
    simp only [Member.ty, Member.kind] at h1
    simp only [PL.memsOf, PL.bump_cons, grp, List.flatMap_cons, totalSize_append_p11, sumSP, ih,
      totalSize_memFields n t k p idx (hp p (by simp)), h1]


/-! ## sizeof of a fixed struct, given the sizeof of its members' types -/

theorem nodeTy_struct_size_p11 (n : String) (ms : List Member) :
    (PL.nodeTy (.struct n ms)).size = (PL.structSize (PL.bump (PL.memsOf ms) false)).1 := by
  simp only [PL.nodeTy]

theorem nodeTy_struct_align_p11 (n : String) (ms : List Member) :
    (PL.nodeTy (.struct n ms)).align = (PL.structSize (PL.bump (PL.memsOf ms) false)).2.1 := by
  simp only [PL.nodeTy]

theorem structSize_pads_lt8 (l : List PL.Mem) (h : ∀ m ∈ l, m.align ≤ 8) :
    ∀ p ∈ (PL.structSize l).2.2, p.toNat < 8 := by
  cases l with
  | nil => intro p hp; simp [PL.structSize] at hp
  | cons m r =>
    rw [PL.structSize_pads]
    have hA : PL.maxAlign (m :: r) ≤ 8 := by
      have : ∀ (l : List PL.Mem), (∀ m ∈ l, m.align ≤ 8) → PL.maxAlign l ≤ 8 := by
        intro l
        induction l with
        | nil => intro _; simp [PL.maxAlign]
        | cons x xs ih =>
          intro hl
          have h1 := hl x (by simp)
          have h2 := ih (fun y hy => hl y (by simp [hy]))
          simp only [PL.maxAlign]; omega
      exact this _ h
    exact padsFrom_lt8 _ _ hA r m _ (fun x hx => h x (by simp [hx]))

theorem bump_align_le8 (ms : List Member) (b : Bool) : ∀ m ∈ PL.bump (PL.memsOf ms) b, m.align ≤ 8 := by
  intro m hm
  have h1 := mem_le_maxAlign_p11 _ m hm
  rw [PL.maxAlign_bump] at h1
  cases ms with
  | nil => simp [PL.memsOf, PL.bump] at hm
  | cons x r =>
    rw [PL.memsOf_align _ (by simp)] at h1
    have := Spec.alignMs_isAl (x :: r)
    unfold IsAl at this
    omega

theorem frontMs_mem_p11 (all : List Member) : (ms before : List Member) → Accept.frontMs all ms before = true →
    ∀ m ∈ ms, Accept.front m.ty = true
  | [], _, _, m, hm => by simp at hm
  | .mk n t k :: r, before, h, m, hm => by
    obtain ⟨ht, _, _, _, _, hr⟩ := Accept.frontMs_cons_playou all n t k r before h
    simp only [List.mem_cons] at hm
    rcases hm with rfl | hm
    · exact ht
    · exact frontMs_mem_p11 all r _ hr m hm

theorem fixedMs_mem_p11 : (ms : List Member) → Spec.fixedMs ms = true →
    ∀ m ∈ ms, m.kind.isStatic = true ∧ Spec.fixedTy m.ty = true
  | [], _, m, hm => by simp at hm
  | .mk n t k :: r, h, m, hm => by
    obtain ⟨hk, ht, hr⟩ := (Spec.fixedMs_cons n t k r).1 h
    simp only [List.mem_cons] at hm
    rcases hm with rfl | hm
    · exact ⟨hk, ht⟩
    · exact fixedMs_mem_p11 r hr m hm

mutual
  theorem unlTy_of_fixed_p11 : (t : Ty) → Spec.fixedTy t = true → Spec.unlTy t = false
    | .prim _, _ => rfl
    | .byte, _ => rfl
    | .enum _ _, _ => rfl
    | .union _ _, _ => rfl
    | .struct _ ms, h => by
      simp only [Spec.unlTy]
      exact unlMs_of_fixed_p11 ms (by simpa [Spec.fixedTy] using h)
  theorem unlMs_of_fixed_p11 : (ms : List Member) → Spec.fixedMs ms = true → Spec.unlMs ms = false
    | [], _ => rfl
    | .mk n t k :: r, h => by
      obtain ⟨hk, ht, hr⟩ := (Spec.fixedMs_cons n t k r).1 h
      have h1 := unlTy_of_fixed_p11 t ht
      have h2 := unlMs_of_fixed_p11 r hr
      simp only [Spec.unlMs, h2, Bool.or_false]
      cases k <;> simp_all [MKind.isStatic]
end

theorem kind_of_fixed_p11 (t : Ty) (hf : Accept.front t = true) (hx : Spec.fixedTy t = true) :
    (PL.nodeTy t).kind = 0 := by
  rw [PL.nodeTy_kind' t hf]
  simp [PL.specKind, unlTy_of_fixed_p11 t hx, Spec.dynTy_of_fixed t hx]

theorem memsOf_any_false_p11 (P : PL.Mem → Bool) : (ms : List Member) →
    (∀ m ∈ ms, P (PL.memOf (PL.nodeTy m.ty) m.kind) = false) → ∀ x ∈ PL.memsOf ms, P x = false
  | [], _, x, hx => by simp [PL.memsOf] at hx
  | .mk n t k :: r, h, x, hx => by
    simp only [PL.memsOf, List.mem_cons] at hx
    rcases hx with rfl | hx
    · exact h (.mk n t k) (by simp)
    · exact memsOf_any_false_p11 P r (fun m hm => h m (by simp [hm])) x hx

theorem grp_isDyn_false : (ms : List Member) → (bm : List PL.Mem) → (ps : List Int) → (idx : Nat) →
    (∀ m ∈ ms, isDynMem (PL.memOf (PL.nodeTy m.ty) m.kind) = false) → ∀ g ∈ grp ms bm ps idx, g.2.1 = false
  | [], _, _, _, _, g, hg => by simp [grp] at hg
  | .mk n t k :: r, [], _, _, _, g, hg => by simp [grp] at hg
  | .mk n t k :: r, b :: bm, [], _, _, g, hg => by simp [grp] at hg
  | .mk n t k :: r, b :: bm, p :: ps, idx, h, g, hg => by
    simp only [grp, List.mem_cons] at hg
    rcases hg with rfl | hg
    · exact h (.mk n t k) (by simp)
    · exact grp_isDyn_false r bm ps _ (fun m hm => h m (by simp [hm])) g hg

theorem structSizeof_single (G : List (List Field × Bool × Nat)) (A : Nat) (h : ∀ g ∈ G, g.2.1 = false) :
    structSizeof G A = alignUp (totalSize (G.flatMap (·.1))) A := by
  simp only [structSizeof]
  rw [partition_all_false _ _ h]
  simp

theorem sizeof_struct_of_members (n : String) (ms : List Member) (hf : Accept.front (.struct n ms) = true)
    (hx : Spec.fixedMs ms = true) (hmem : ∀ m ∈ ms, sizeofTy m.ty = Spec.sizeTy m.ty) :
    sizeofTy (.struct n ms) = Spec.sizeTy (.struct n ms) := by
  have hfm : Accept.frontMs ms ms [] = true := by
    simp only [Accept.front, Bool.and_eq_true] at hf; exact hf.2
  have hfr := frontMs_mem_p11 ms ms [] hfm
  have hfx := fixedMs_mem_p11 ms hx
  -- every member is static
  have hnd : ∀ m ∈ ms, PL.isMemberDynamic (PL.memOf (PL.nodeTy m.ty) m.kind) = false := by
    intro m hm
    obtain ⟨n', t, k⟩ := m
    have hk := kind_of_fixed_p11 t (hfr _ hm) (hfx _ hm).2
    have hs := (hfx _ hm).1
    simp only [Member.ty, Member.kind] at hk hs ⊢
    cases k <;> simp_all [PL.isMemberDynamic, PL.memOf, MKind.isStatic]
  have hndy : ∀ m ∈ ms, isDynMem (PL.memOf (PL.nodeTy m.ty) m.kind) = false := by
    intro m hm
    have := hnd m hm
    simp only [PL.isMemberDynamic, Bool.or_eq_false_iff, bne_eq_false_iff_eq] at this
    simp [isDynMem, this.1.1, this.2]
  have hslot : ∀ m ∈ ms, rawSlot m.ty m.kind = (PL.memOf (PL.nodeTy m.ty) m.kind).size := by
    intro m hm
    obtain ⟨n', t, k⟩ := m
    have hs := (hfx _ hm).1
    have h1 := hmem _ hm
    have h2 := PL.memOf_slot t k (hfr _ hm)
    simp only [Member.ty, Member.kind] at hs h1 h2 ⊢
    rw [h2]
    cases k <;> simp_all [rawSlot, countOf, Spec.slot, MKind.isStatic, Spec.flagSize, Nat.mul_comm]
  have hbd : ∀ m ∈ PL.bump (PL.memsOf ms) false, PL.isMemberDynamic m = false := by
    have h1 : (PL.bump (PL.memsOf ms) false).any PL.isMemberDynamic = false := by
      rw [PL.any_bump, List.any_eq_false]
      intro x hx
      simp [memsOf_any_false_p11 PL.isMemberDynamic ms hnd x hx]
    rw [List.any_eq_false] at h1
    intro m hm
    simpa using h1 m hm
  have hsz := PL.nodeTy_size (.struct n ms) hf
  rw [← hsz, nodeTy_struct_size_p11]
  simp only [sizeofTy]
  rw [structMembers_eq, blocksOf_eq_grp]
  rw [structSizeof_single _ _ (grp_isDyn_false ms _ _ 0 hndy), grp_total ms false _ 0 hslot (structSize_pads_lt8 _ (bump_align_le8 ms false)),
    structSize_sumSP _ hbd, nodeTy_struct_align_p11, PL.structSize_size, PL.structSize_align]
  apply alignUp_idem
  have := PL.nodeTy_align' (.struct n ms)
  rw [nodeTy_struct_align_p11, PL.structSize_align] at this
  rw [this]
  exact Spec.alignTy_pos _


/-! ## unions -/

theorem alignofTy_spec (t : Ty) : alignofTy t = Spec.alignTy t := by
  cases t with
  | prim p => simp only [alignofTy, Spec.alignTy]
  | byte => simp only [alignofTy, Spec.alignTy]
  | enum n es => simp only [alignofTy, Spec.alignTy]
  | struct n ms => simp only [alignofTy]; rw [PL.nodeTy_align']; simp only [Spec.alignTy]
  | union n arms => simp only [alignofTy]; rw [PL.nodeTy_align']; simp only [Spec.alignTy]

theorem maxArmAlign_spec : (arms : List Arm) → maxArmAlign arms = Spec.alignArms arms
  | [] => by simp only [maxArmAlign, Spec.alignArms]
  | .mk _ _ t :: r => by simp only [maxArmAlign, Spec.alignArms, alignofTy_spec, maxArmAlign_spec r]

theorem union_arith_p11 (a b m : Nat) (ha : a = 4 ∨ a = 8) (hb : IsAl b) (hba : b ≤ a) :
    alignUp (4 + (if a = 8 then 4 else 0) + alignUp m b) a = alignUp (a + m) a := by
  unfold IsAl at hb
  unfold alignUp padTo
  rcases ha with rfl | rfl <;> rcases hb with rfl | rfl | rfl | rfl <;> simp <;> omega

theorem union_align_p11 (arms : List Arm) :
    max Spec.flagSize (Spec.alignArms arms) = 4 ∨ max Spec.flagSize (Spec.alignArms arms) = 8 := by
  have := Spec.alignArms_isAl arms
  unfold IsAl at this
  simp only [Spec.flagSize]
  omega

theorem sizeof_union_of_arms (n : String) (arms : List Arm) (h : maxArmSizeof arms = Spec.maxArm arms) :
    sizeofTy (.union n arms) = Spec.sizeTy (.union n arms) := by
  simp only [sizeofTy, Spec.sizeTy]
  rw [PL.nodeTy_align', h, maxArmAlign_spec]
  simp only [Spec.alignTy]
  exact union_arith_p11 _ _ _ (union_align_p11 arms) (Spec.alignArms_isAl arms) (by omega)

mutual
  theorem sizeofTy_fixed_aux : (t : Ty) → Accept.front t = true → Spec.fixedTy t = true → sizeofTy t = Spec.sizeTy t
    | .prim _, _, _ => by simp only [sizeofTy, Spec.sizeTy]
    | .byte, _, _ => by simp only [sizeofTy, Spec.sizeTy]
    | .enum _ _, _, _ => by simp only [sizeofTy, Spec.sizeTy]
    | .struct n ms, hf, hx => by
      have hfm : Accept.frontMs ms ms [] = true := by
        simp only [Accept.front, Bool.and_eq_true] at hf; exact hf.2
      have hx' : Spec.fixedMs ms = true := by simpa [Spec.fixedTy] using hx
      exact sizeof_struct_of_members n ms hf hx' (sizeofMs_fixed_aux ms ms [] hfm hx')
    | .union n arms, hf, hx => by
      have hfa : Accept.frontArms arms = true := by
        simp only [Accept.front, Bool.and_eq_true] at hf; exact hf.2
      have hx' : Spec.fixedArms arms = true := by simpa [Spec.fixedTy] using hx
      exact sizeof_union_of_arms n arms (sizeofArms_fixed_aux arms hfa hx')
  theorem sizeofMs_fixed_aux : (ms all before : List Member) → Accept.frontMs all ms before = true →
      Spec.fixedMs ms = true → ∀ m ∈ ms, sizeofTy m.ty = Spec.sizeTy m.ty
    | [], _, _, _, _, m, hm => by simp at hm
    | .mk n t k :: r, all, before, h, hx, m, hm => by
      obtain ⟨ht, _, _, _, _, hr⟩ := Accept.frontMs_cons_playou all n t k r before h
      obtain ⟨_, hxt, hxr⟩ := (Spec.fixedMs_cons n t k r).1 hx
      simp only [List.mem_cons] at hm
      rcases hm with rfl | hm
      · exact sizeofTy_fixed_aux t ht hxt
      · exact sizeofMs_fixed_aux r all _ hr hxr m hm
  theorem sizeofArms_fixed_aux : (arms : List Arm) → Accept.frontArms arms = true → Spec.fixedArms arms = true →
      maxArmSizeof arms = Spec.maxArm arms
    | [], _, _ => by simp only [maxArmSizeof, Spec.maxArm]
    | .mk n d t :: r, h, hx => by
      obtain ⟨ht, hr⟩ := PL.frontArms_cons n d t r h
      have hx' : Spec.fixedTy t = true ∧ Spec.fixedArms r = true := by simpa [Spec.fixedArms] using hx
      simp only [maxArmSizeof, Spec.maxArm, sizeofTy_fixed_aux t ht hx'.1, sizeofArms_fixed_aux r hr hx'.2]
end


/-! ## offsets: views of the two sides -/

def consHead {β : Type} (x : β) : List (List β) → List (List β)
  | [] => [[x]]
  | p :: ps => (x :: p) :: ps

theorem partition_cons_ne {α : Type} (p : α → Bool) (x : α) (l : List α) (h : l ≠ []) :
    partition p (x :: l) = if p x then [x] :: partition p l else consHead x (partition p l) := by
  cases l with
  | nil => exact absurd rfl h
  | cons y r =>
    simp only [partition]
    split
    · rfl
    · split <;> simp_all [consHead]

theorem blocks_cons_ne (m : Member) (l : List Member) (h : l ≠ []) :
    Spec.blocks (m :: l) = if Spec.endsBlock m then [m] :: Spec.blocks l else consHead m (Spec.blocks l) := by
  cases l with
  | nil => exact absurd rfl h
  | cons y r =>
    simp only [Spec.blocks]
    split
    · rfl
    · split <;> simp_all [consHead]

theorem blocks_ne_nil : (l : List Member) → Spec.blocks l ≠ []
  | [] => by simp [Spec.blocks]
  | [x] => by simp [Spec.blocks]
  | x :: y :: r => by
    have ih := blocks_ne_nil (y :: r)
    simp only [Spec.blocks]
    split
    · simp
    · split <;> simp

def prependHead {β : Type} (a : List β) : List (List β) → List (List β)
  | [] => [a]
  | h :: t => (a ++ h) :: t

def rawOffs : List (List (List Field × Bool × Nat)) → Nat → List (List (String × Nat))
  | [], _ => []
  | p :: ps, off => fo (p.flatMap (·.1)) off :: ps.map (fun p => fo (p.flatMap (·.1)) 0)

def specOffs : List (List Member) → Nat → List (List (String × Nat))
  | [], _ => []
  | b :: bs, off => Spec.runOffsets b off :: bs.map (fun b => Spec.runOffsets b 0)

theorem rawOffs_zero (P : List (List (List Field × Bool × Nat))) :
    rawOffs P 0 = P.map (fun p => fo (p.flatMap (·.1)) 0) := by
  cases P <;> rfl

theorem specOffs_zero (B : List (List Member)) : specOffs B 0 = B.map (fun b => Spec.runOffsets b 0) := by
  cases B <;> rfl

theorem rawOffs_cons_single (x : List Field × Bool × Nat) (P : List (List (List Field × Bool × Nat))) (off : Nat) :
    rawOffs ([x] :: P) off = fo x.1 off :: rawOffs P 0 := by
  rw [rawOffs_zero]
  simp [rawOffs]

theorem rawOffs_consHead (x : List Field × Bool × Nat) (P : List (List (List Field × Bool × Nat))) (hP : P ≠ [])
    (off : Nat) : rawOffs (consHead x P) off = prependHead (fo x.1 off) (rawOffs P (off + totalSize x.1)) := by
  cases P with
  | nil => exact absurd rfl hP
  | cons p ps => simp only [consHead, rawOffs, prependHead, List.flatMap_cons, fo_append]

/-- the entries of one member at the (aligned) offset `o` -/
def ent : Member → Nat → List (String × Nat)
  | .mk n t k, o =>
    match k with
    | .optional => [("has_" ++ n, o), (n, o + max Spec.flagSize (Spec.alignTy t))]
    | _ => [(n, o)]

theorem runOffsets_cons (n : String) (t : Ty) (k : MKind) (r : List Member) (off : Nat) :
    Spec.runOffsets (.mk n t k :: r) off =
      ent (.mk n t k) (alignUp off (Spec.alignMember (.mk n t k))) ++
        Spec.runOffsets r (alignUp off (Spec.alignMember (.mk n t k)) + Spec.slot t k) := by
  cases k <;> simp [Spec.runOffsets, ent, Spec.slot, Nat.add_assoc]

theorem runOffsets_alignUp (m : Member) (r : List Member) (off : Nat) :
    Spec.runOffsets (m :: r) (alignUp off (Spec.alignMember m)) = Spec.runOffsets (m :: r) off := by
  obtain ⟨n, t, k⟩ := m
  rw [runOffsets_cons, runOffsets_cons, alignUp_idem _ _ (Spec.alignMember_pos _)]

theorem specOffs_cons_single (n : String) (t : Ty) (k : MKind) (B : List (List Member)) (off : Nat) :
    specOffs ([.mk n t k] :: B) off = ent (.mk n t k) (alignUp off (Spec.alignMember (.mk n t k))) :: specOffs B 0 := by
  rw [specOffs_zero]
  simp only [specOffs]
  rw [runOffsets_cons]
  have : ∀ o, Spec.runOffsets [] o = [] := fun o => rfl
  rw [this, List.append_nil]

theorem specOffs_consHead (n : String) (t : Ty) (k : MKind) (B : List (List Member)) (hB : B ≠ []) (off : Nat) :
    specOffs (consHead (.mk n t k) B) off =
      prependHead (ent (.mk n t k) (alignUp off (Spec.alignMember (.mk n t k))))
        (specOffs B (alignUp off (Spec.alignMember (.mk n t k)) + Spec.slot t k)) := by
  cases B with
  | nil => exact absurd rfl hB
  | cons p ps => simp only [consHead, specOffs, prependHead, runOffsets_cons]

theorem blocks_head (m : Member) : (r : List Member) → ∃ b bs, Spec.blocks (m :: r) = (m :: b) :: bs
  | [] => ⟨[], [], rfl⟩
  | y :: r => by
    obtain ⟨b, bs, h⟩ := blocks_head y r
    rw [blocks_cons_ne m (y :: r) (by simp)]
    split
    · exact ⟨[], _, rfl⟩
    · rw [h]; exact ⟨_, _, rfl⟩

theorem specOffs_alignUp (m : Member) (r : List Member) (off : Nat) :
    specOffs (Spec.blocks (m :: r)) (alignUp off (Spec.alignMember m)) = specOffs (Spec.blocks (m :: r)) off := by
  obtain ⟨b, bs, h⟩ := blocks_head m r
  rw [h]
  simp only [specOffs, runOffsets_alignUp]

/-! ## offsets of the fields of one member -/

theorem fo_padFields (p : Int) (idx off : Nat) : fo (padFields p idx).1 off = [] := by
  unfold padFields
  split
  · exact fo_padders _ _ _
  · rfl

theorem fo_flagFields (n : String) (t : Ty) (k : MKind) (idx off : Nat) :
    fo (flagFields n t k idx).1 off = match k with
      | .optional => [("has_" ++ n, off)]
      | _ => [] := by
  cases k <;> simp only [flagFields, fo_nil]
  have h1 : ∀ (fs : List Field), fo (Field.mk ("has_" ++ n) 4 1 :: fs) off = ("has_" ++ n, off) :: fo fs (off + 4) := by
    intro fs
    simp [fo, offsets, has_not_pad_p11, Field.size]
  rw [h1]
  split
  · rw [fo_padders]
  · rfl

theorem fo_memFields (n : String) (t : Ty) (k : MKind) (p : Int) (idx off : Nat)
    (hn : n.startsWith "_padding" = false) : fo (memFields n t k p idx).1 off = ent (.mk n t k) off := by
  have h1 : ∀ (o : Nat), fo [Field.mk n (sizeofTy t) (countOf k)] o = [(n, o)] := by
    intro o
    simp [fo, offsets, hn]
  simp only [memFields, fo_append, fo_padFields, fo_flagFields, totalSize_flagFields, h1, List.append_nil]
  cases k <;> simp [ent, Spec.flagSize]


/-! ## the walk over the members -/
section Walk
open PL Accept

theorem isDynMem_eq_endsPart (nd : PL.Node) (k : MKind) (hg : isGreedy k = false) :
    isDynMem (memOf nd k) = endsPart (memOf nd k) := by
  cases k <;> simp_all [isDynMem, endsPart, memOf, isGreedy]

theorem rawSlot_of_not_ends (n : String) (t : Ty) (k : MKind) (ht : front t = true)
    (ho : isOptional k = true → (nodeTy t).kind = 0)
    (hs : (sizeOf? k).isSome = true → (nodeTy t).kind = 0)
    (heb : Spec.endsBlock (.mk n t k) = false) : rawSlot t k = Spec.slot t k := by
  have hfx : Spec.fixedTy t = true := by
    cases k with
    | plain => exact fixed_of_front t ht (by simpa [Spec.endsBlock, Member.kind, Member.ty] using heb)
    | optional => exact fixed_of_kind t ht (ho rfl)
    | fixed c => exact fixed_of_kind t ht (hs rfl)
    | limited s c => exact fixed_of_kind t ht (hs rfl)
    | dyn s sh => simp [Spec.endsBlock, Member.kind] at heb
    | greedy => simp [Spec.endsBlock, Member.kind] at heb
  have := sizeofTy_fixed_aux t ht hfx
  cases k <;> simp_all [rawSlot, countOf, Spec.slot, Spec.flagSize, Nat.mul_comm, Spec.endsBlock, Member.kind]

theorem padsFrom_ne_nil (A : Nat) (d : Bool) (prev : Mem) (r : List Mem) (bs : Nat) : padsFrom A d prev r bs ≠ [] := by
  cases r <;> simp [padsFrom]

theorem grp_cons_p11 (n : String) (t : Ty) (k : MKind) (r : List Member) (b : Mem) (bm : List Mem) (p : Int)
    (ps : List Int) (idx : Nat) :
    grp (.mk n t k :: r) (b :: bm) (p :: ps) idx =
      ((memFields n t k p idx).1, isDynMem (memOf (nodeTy t) k), b.align) :: grp r bm ps (memFields n t k p idx).2 := by
  simp only [grp]

theorem walkOffs (A : Nat) (d : Bool) (allF : List Member) :
    (r : List Member) → ∀ (n : String) (t : Ty) (k : MKind) (before : List Member) (first : Bool) (off st idx : Nat),
    frontMs allF (.mk n t k :: r) before = true →
    (∀ m ∈ (Member.mk n t k :: r), m.name.startsWith "_padding" = false) →
    off % Spec.blockAlign (.mk n t k :: r) = st % Spec.blockAlign (.mk n t k :: r) →
    Spec.alignMember (.mk n t k) ∣ off →
    rawOffs (partition (fun (g : List Field × Bool × Nat) => g.2.1)
        (grp (.mk n t k :: r) (curMem first n t k r :: bump (memsOf r) (endsPart (memOf (nodeTy t) k)))
          (padsFrom A d (curMem first n t k r) (bump (memsOf r) (endsPart (memOf (nodeTy t) k)))
            (st + (memOf (nodeTy t) k).size)) idx)) off
      = specOffs (Spec.blocks (.mk n t k :: r)) off
  | [], n, t, k, before, first, off, st, idx, hf, hn, hi2, hi3 => by
    have hnn : n.startsWith "_padding" = false := hn (.mk n t k) (by simp)
    simp only [memsOf, bump, padsFrom, grp, partition, rawOffs, Spec.blocks, specOffs, List.map_nil,
      List.flatMap_cons, List.flatMap_nil, List.append_nil]
    rw [fo_memFields _ _ _ _ _ _ hnn, runOffsets_cons, alignUp_of_dvd _ _ hi3]
    simp [Spec.runOffsets]
  | .mk n' t' k' :: r', n, t, k, before, first, off, st, idx, hf, hn, hi2, hi3 => by
    obtain ⟨ht, ho, hs, ha, hl, hr⟩ := frontMs_cons_playou allF n t k (.mk n' t' k' :: r') before hf
    obtain ⟨hg, hk2⟩ := hl (by simp)
    have hnn : n.startsWith "_padding" = false := hn (.mk n t k) (by simp)
    have hn' : ∀ m ∈ (Member.mk n' t' k' :: r'), m.name.startsWith "_padding" = false :=
      fun m hm => hn m (List.mem_cons_of_mem _ hm)
    have hep := endsPart_memOf n t k ht ho hs hk2
    have hmd := isMemberDynamic_memOf t k ht hk2
    rw [hep] at hmd
    have hdy : isDynMem (memOf (nodeTy t) k) = Spec.endsBlock (.mk n t k) := by
      rw [isDynMem_eq_endsPart _ _ hg, hep]
    have hB2 := Spec.blockAlign_isAl (.mk n' t' k' :: r')
    have ha2B2 := Spec.alignMember_dvd_blockAlign (.mk n' t' k') r'
    have ha2 := Spec.alignMember_isAl (.mk n' t' k')
    have hc2a : (curMem (Spec.endsBlock (.mk n t k)) n' t' k' r').align =
        if Spec.endsBlock (.mk n t k) = true then Spec.blockAlign (.mk n' t' k' :: r')
        else Spec.alignMember (.mk n' t' k') := rfl
    have hc2s : (curMem (Spec.endsBlock (.mk n t k)) n' t' k' r').size = (memOf (nodeTy t') k').size := rfl
    have hbs : st + (memOf (nodeTy t) k).size + (curMem (Spec.endsBlock (.mk n t k)) n' t' k' r').size +
        padTo (st + (memOf (nodeTy t) k).size) (curMem (Spec.endsBlock (.mk n t k)) n' t' k' r').align =
        alignUp (st + (memOf (nodeTy t) k).size) (curMem (Spec.endsBlock (.mk n t k)) n' t' k' r').align +
          (memOf (nodeTy t') k').size := by
      rw [hc2s]; unfold alignUp; omega
    rw [hep, bump_memsOf_cons allF _ n' t' k' r' _ hr]
    simp only [padsFrom]
    rw [grp_cons_p11, hbs]
    have hne : grp (.mk n' t' k' :: r')
        (curMem (Spec.endsBlock (.mk n t k)) n' t' k' r' :: bump (memsOf r') (endsPart (memOf (nodeTy t') k')))
        (padsFrom A d (curMem (Spec.endsBlock (.mk n t k)) n' t' k' r') (bump (memsOf r') (endsPart (memOf (nodeTy t') k')))
          (alignUp (st + (memOf (nodeTy t) k).size) (curMem (Spec.endsBlock (.mk n t k)) n' t' k' r').align +
            (memOf (nodeTy t') k').size))
        (memFields n t k
          (if (isMemberDynamic (curMem first n t k (.mk n' t' k' :: r')) &&
              decide ((curMem first n t k (.mk n' t' k' :: r')).align <
                (curMem (Spec.endsBlock (.mk n t k)) n' t' k' r').align)) = true
            then -((curMem (Spec.endsBlock (.mk n t k)) n' t' k' r').align : Int)
            else (padTo (st + (memOf (nodeTy t) k).size)
              (curMem (Spec.endsBlock (.mk n t k)) n' t' k' r').align : Int)) idx).2 ≠ [] := by
      have := padsFrom_ne_nil A d (curMem (Spec.endsBlock (.mk n t k)) n' t' k' r')
        (bump (memsOf r') (endsPart (memOf (nodeTy t') k')))
        (alignUp (st + (memOf (nodeTy t) k).size) (curMem (Spec.endsBlock (.mk n t k)) n' t' k' r').align +
            (memOf (nodeTy t') k').size)
      revert this
      generalize padsFrom A d _ _ _ = ps
      intro hps
      cases ps with
      | nil => exact absurd rfl hps
      | cons q qs => simp [grp]
    rw [partition_cons_ne _ _ _ hne, blocks_cons_ne _ _ (by simp)]
    simp only [hdy]
    have hdcur : isMemberDynamic (curMem first n t k (.mk n' t' k' :: r')) = Spec.endsBlock (.mk n t k) := hmd
    cases heb : Spec.endsBlock (.mk n t k) with
    | true =>
      rw [heb] at hc2a
      simp only [if_true] at hc2a
      simp only [if_true]
      rw [rawOffs_cons_single, specOffs_cons_single, alignUp_of_dvd _ _ hi3, fo_memFields _ _ _ _ _ _ hnn]
      have ih := walkOffs A d allF r' n' t' k' (before ++ [.mk n t k]) true 0
        (alignUp (st + (memOf (nodeTy t) k).size) (curMem true n' t' k' r').align)
      rw [ih _ hr hn' _ (Nat.dvd_zero _)]
      rw [hc2a, Nat.zero_mod, Nat.mod_eq_zero_of_dvd (dvd_alignUp _ _ hB2.pos)]
    | false =>
      rw [heb] at hc2a hmd hdcur
      simp only [Bool.false_eq_true, if_false] at hc2a
      simp only [Bool.false_eq_true, if_false, hdcur, Bool.false_and]
      rw [rawOffs_consHead _ _ (partition_ne_nil _ _), specOffs_consHead _ _ _ _ (blocks_ne_nil _),
        alignUp_of_dvd _ _ hi3, fo_memFields _ _ _ _ _ _ hnn]
      have hslot := memOf_slot t k ht
      have hraw := rawSlot_of_not_ends n t k ht ho hs heb
      have hBB : Spec.blockAlign (.mk n' t' k' :: r') ∣ Spec.blockAlign (.mk n t k :: .mk n' t' k' :: r') := by
        rw [show Spec.blockAlign (.mk n t k :: .mk n' t' k' :: r') =
          max (Spec.alignMember (.mk n t k)) (Spec.blockAlign (.mk n' t' k' :: r')) by
            simp [Spec.blockAlign, heb]]
        exact IsAl.dvd_max_right (Spec.alignMember_isAl _) hB2
      have hm2 : (off + Spec.slot t k) % Spec.blockAlign (.mk n' t' k' :: r') =
          (st + (memOf (nodeTy t) k).size) % Spec.blockAlign (.mk n' t' k' :: r') := by
        rw [hslot]
        exact mod_add_congr _ _ _ _ (mod_of_dvd _ _ _ _ hBB hi2)
      have hpe := padTo_congr (Spec.alignMember (.mk n' t' k')) _ _ (mod_of_dvd _ _ _ _ ha2B2 hm2)
      have hlt8 : padTo (st + (memOf (nodeTy t) k).size) (Spec.alignMember (.mk n' t' k')) < 8 := by
        apply padTo_lt8_p11
        unfold IsAl at ha2; omega
      rw [hc2a]
      rw [totalSize_memFields _ _ _ _ _ (by simpa using hlt8), hraw]
      simp only [Int.toNat_natCast]
      have hoff : off + (Spec.slot t k + padTo (st + (memOf (nodeTy t) k).size) (Spec.alignMember (.mk n' t' k'))) =
          alignUp (off + Spec.slot t k) (Spec.alignMember (.mk n' t' k')) := by
        unfold alignUp; rw [hpe]; omega
      rw [hoff]
      have ih := walkOffs A d allF r' n' t' k' (before ++ [.mk n t k]) false
        (alignUp (off + Spec.slot t k) (Spec.alignMember (.mk n' t' k')))
        (alignUp (st + (memOf (nodeTy t) k).size) (Spec.alignMember (.mk n' t' k')))
      rw [ih _ hr hn' _ (dvd_alignUp _ _ (Spec.alignMember_pos _)), specOffs_alignUp]
      unfold alignUp
      rw [hpe]
      exact mod_add_congr _ _ _ _ hm2

end Walk


/-! ## alignments of the parts -/
section WalkAlign
open PL Accept

def partAligns (P : List (List (List Field × Bool × Nat))) : List Nat :=
  P.map (fun p => match p with | g :: _ => g.2.2 | [] => 1)

theorem blocks_map_blockAlign : (l : List Member) → l ≠ [] →
    (Spec.blocks l).map Spec.blockAlign = Spec.blockAlign l :: (Spec.blocks l).tail.map Spec.blockAlign
  | [], h => absurd rfl h
  | [m], _ => rfl
  | m :: y :: r, _ => by
    have ih := blocks_map_blockAlign (y :: r) (by simp)
    rw [blocks_cons_ne m (y :: r) (by simp)]
    cases heb : Spec.endsBlock m with
    | true =>
      simp only [if_true, List.map_cons, List.tail_cons, PL.Spec.blockAlign_single]
      simp [Spec.blockAlign, heb]
    | false =>
      simp only [Bool.false_eq_true, if_false]
      cases hb : Spec.blocks (y :: r) with
      | nil => exact absurd hb (blocks_ne_nil _)
      | cons h tl =>
        rw [hb] at ih
        simp only [List.map_cons, List.tail_cons, List.cons.injEq] at ih
        simp only [consHead, List.map_cons, List.tail_cons]
        have h1 : Spec.blockAlign (m :: h) = max (Spec.alignMember m) (Spec.blockAlign h) := by
          simp [Spec.blockAlign, heb]
        have h2 : Spec.blockAlign (m :: y :: r) = max (Spec.alignMember m) (Spec.blockAlign (y :: r)) := by
          simp [Spec.blockAlign, heb]
        rw [h1, h2, ih.1]

theorem walkAligns (allF : List Member) :
    (r : List Member) → ∀ (n : String) (t : Ty) (k : MKind) (before : List Member) (first : Bool) (ps : List Int)
      (idx : Nat),
    frontMs allF (.mk n t k :: r) before = true →
    ps.length = r.length + 1 →
    partAligns (partition (fun (g : List Field × Bool × Nat) => g.2.1)
        (grp (.mk n t k :: r) (curMem first n t k r :: bump (memsOf r) (endsPart (memOf (nodeTy t) k))) ps idx))
      = (curMem first n t k r).align :: (Spec.blocks (.mk n t k :: r)).tail.map Spec.blockAlign
  | [], n, t, k, before, first, ps, idx, hf, hl => by
    cases ps with
    | nil => simp at hl
    | cons p ps' =>
      have : ps' = [] := by simpa using hl
      subst this
      simp [grp, partition, partAligns, Spec.blocks]
  | .mk n' t' k' :: r', n, t, k, before, first, ps, idx, hf, hl => by
    obtain ⟨ht, ho, hs, ha, hl', hr⟩ := frontMs_cons_playou allF n t k (.mk n' t' k' :: r') before hf
    obtain ⟨hg, hk2⟩ := hl' (by simp)
    have hep := endsPart_memOf n t k ht ho hs hk2
    have hdy : isDynMem (memOf (nodeTy t) k) = Spec.endsBlock (.mk n t k) := by
      rw [isDynMem_eq_endsPart _ _ hg, hep]
    cases ps with
    | nil => simp at hl
    | cons p ps' =>
      have hl2 : ps'.length = r'.length + 1 := by simpa using hl
      rw [hep, bump_memsOf_cons allF _ n' t' k' r' _ hr, grp_cons_p11]
      have hne : grp (.mk n' t' k' :: r')
          (curMem (Spec.endsBlock (.mk n t k)) n' t' k' r' :: bump (memsOf r') (endsPart (memOf (nodeTy t') k')))
          ps' (memFields n t k p idx).2 ≠ [] := by
        cases ps' with
        | nil => simp at hl2
        | cons q qs => simp [grp]
      have ih := walkAligns allF r' n' t' k' (before ++ [.mk n t k]) (Spec.endsBlock (.mk n t k)) ps'
        (memFields n t k p idx).2 hr hl2
      rw [partition_cons_ne _ _ _ hne, blocks_cons_ne _ _ (by simp)]
      simp only [hdy]
      cases heb : Spec.endsBlock (.mk n t k) with
      | true =>
        rw [heb] at ih
        simp only [if_true, List.tail_cons]
        rw [blocks_map_blockAlign _ (by simp)]
        simp only [partAligns, List.map_cons] at ih ⊢
        rw [ih]
        rfl
      | false =>
        rw [heb] at ih
        simp only [Bool.false_eq_true, if_false]
        cases hP : partition (fun (g : List Field × Bool × Nat) => g.2.1) (grp (.mk n' t' k' :: r')
          (curMem false n' t' k' r' :: bump (memsOf r') (endsPart (memOf (nodeTy t') k')))
          ps' (memFields n t k p idx).2) with
        | nil => exact absurd hP (partition_ne_nil _ _)
        | cons p0 pt =>
          cases hb : Spec.blocks (.mk n' t' k' :: r') with
          | nil => exact absurd hb (blocks_ne_nil _)
          | cons h tl =>
            rw [hP, hb] at ih
            simp only [partAligns, List.map_cons, List.tail_cons, List.cons.injEq] at ih
            simp only [consHead, partAligns, List.map_cons, List.tail_cons, ih.2]

end WalkAlign

theorem memsOf_length_p11 : (ms : List Member) → (PL.memsOf ms).length = ms.length
  | [] => rfl
  | .mk _ _ _ :: r => by simp [PL.memsOf, memsOf_length_p11 r]

theorem zipIdx_map_fst_p11 {α β : Type} (f : α → β) : (l : List α) → (k : Nat) →
    (l.zipIdx k).map (fun x => f x.1) = l.map f
  | [], _ => rfl
  | a :: l, k => by simp [List.zipIdx_cons, zipIdx_map_fst_p11 f l]

theorem zipIdx_map_pos_p11 {α β : Type} (A : β) (f : α → β) : (l : List α) → (k : Nat) → 0 < k →
    (l.zipIdx k).map (fun x => if x.2 = 0 then A else f x.1) = l.map f
  | [], _, _ => rfl
  | a :: l, k, hk => by
    have : k ≠ 0 := by omega
    simp [List.zipIdx_cons, zipIdx_map_pos_p11 A f l (k + 1) (by omega), this]

theorem zipIdx_map_zero_p11 {α β : Type} (A : β) (f : α → β) (a : α) (l : List α) :
    ((a :: l).zipIdx 0).map (fun x => if x.2 = 0 then A else f x.1) = A :: l.map f := by
  simp [List.zipIdx_cons, zipIdx_map_pos_p11 A f l 1 (by omega)]

theorem filter_names_p11 {α : Type} (nm : α → String) (c : Nat) : (l : List α) →
    (∀ a ∈ l, (nm a).startsWith "_padding" = false) →
    (l.map (fun a => (nm a, c))).filter (fun p => !(p.1.startsWith "_padding")) = l.map (fun a => (nm a, c))
  | [], _ => rfl
  | a :: l, h => by
    simp [h a (by simp), filter_names_p11 nm c l (fun x hx => h x (by simp [hx]))]

end Raw

/-- sizeof of every fixed struct / union equals its wire size -/
theorem Raw.sizeofTy_fixed (t : Ty) (hf : Accept.front t = true) (hx : Spec.fixedTy t = true) :
    Raw.sizeofTy t = Spec.sizeTy t :=
  Raw.sizeofTy_fixed_aux t hf hx


/-- the struct's groups in walk form -/
theorem Raw.structBlocks_parts (n0 : String) (t : Ty) (k : MKind) (r : List Member)
    (hfm : Accept.frontMs (.mk n0 t k :: r) (.mk n0 t k :: r) [] = true) :
    Raw.blocksOf (.mk n0 t k :: r) (.mk n0 t k :: r) (PL.structMembers (.mk n0 t k :: r)) (PL.memsOf (.mk n0 t k :: r)) =
      Raw.grp (.mk n0 t k :: r)
        (PL.curMem false n0 t k r :: PL.bump (PL.memsOf r) (PL.endsPart (PL.memOf (PL.nodeTy t) k)))
        (PL.padsFrom (PL.maxAlign (PL.curMem false n0 t k r :: PL.bump (PL.memsOf r) (PL.endsPart (PL.memOf (PL.nodeTy t) k))))
          ((PL.curMem false n0 t k r :: PL.bump (PL.memsOf r) (PL.endsPart (PL.memOf (PL.nodeTy t) k))).any PL.isMemberDynamic)
          (PL.curMem false n0 t k r) (PL.bump (PL.memsOf r) (PL.endsPart (PL.memOf (PL.nodeTy t) k)))
          (0 + (PL.memOf (PL.nodeTy t) k).size)) 0 := by
  rw [Raw.structMembers_eq, Raw.blocksOf_eq_grp, PL.bump_memsOf_cons (.mk n0 t k :: r) [] n0 t k r false hfm,
    PL.structSize_pads, PL.padTo_zero, Nat.add_zero, Nat.zero_add]
  rfl

/-- every declared (non-padding) member of every block lies at the offset the wire format assigns;
    `hn`: no member is named like the generated padding members (`_paddingN`), which the comparison drops -/
theorem Raw.offsets_spec (n : String) (ms : List Member) (hf : Accept.front (.struct n ms) = true)
    (hn : ∀ m ∈ ms, m.name.startsWith "_padding" = false) :
    (Raw.structBlocks ms).map (fun b => (Raw.offsets b.fields 0).filter (fun p => !(p.1.startsWith "_padding")))
      = Spec.blockOffsets ms := by
  have hfm : Accept.frontMs ms ms [] = true := by
    simp only [Accept.front, Bool.and_eq_true] at hf; exact hf.2
  cases ms with
  | nil => simp [Accept.front] at hf
  | cons m r =>
    obtain ⟨n0, t, k⟩ := m
    simp only [Raw.structBlocks, List.map_map, Spec.blockOffsets]
    rw [Raw.structBlocks_parts n0 t k r hfm]
    refine (Raw.zipIdx_map_fst_p11
      (fun (p : List (List Raw.Field × Bool × Nat)) => Raw.fo (p.flatMap (·.1)) 0) _ 0).trans ?_
    rw [← Raw.rawOffs_zero, ← Raw.specOffs_zero]
    exact Raw.walkOffs _ _ (.mk n0 t k :: r) r n0 t k [] false 0 0 0 hfm hn rfl (Nat.dvd_zero _)

/- The statement without `hn`,

     theorem Raw.offsets_spec (n : String) (ms : List Member) (hf : Accept.front (.struct n ms) = true) :
       (Raw.structBlocks ms).map (fun b => (Raw.offsets b.fields 0).filter (fun p => !(p.1.startsWith "_padding")))
         = Spec.blockOffsets ms

   is false in the model: the front end does not reserve the `_padding` prefix, and the comparison drops
   every field whose name starts with it.  Smallest witness: `struct S { u8 _padding; }`. -/
theorem Raw.offsets_spec_needs_names :
    Accept.front (.struct "S" [.mk "_padding" (.prim .u8) .plain]) = true ∧
    (Raw.structBlocks [.mk "_padding" (.prim .u8) .plain]).map
        (fun b => (Raw.offsets b.fields 0).filter (fun p => !(p.1.startsWith "_padding")))
      ≠ Spec.blockOffsets [.mk "_padding" (.prim .u8) .plain] := by
  refine ⟨by decide, ?_⟩
  intro h
  have hr : Spec.blockOffsets [.mk "_padding" (.prim .u8) .plain] = [[("_padding", 0)]] := by decide
  rw [hr] at h
  have h1 : [("_padding", 0)] ∈ (Raw.structBlocks [.mk "_padding" (.prim .u8) .plain]).map
      (fun b => (Raw.offsets b.fields 0).filter (fun p => !(p.1.startsWith "_padding"))) := by
    rw [h]; simp
  obtain ⟨b, _, hb⟩ := List.mem_map.1 h1
  have h2 : ("_padding", 0) ∈ (Raw.offsets b.fields 0).filter (fun p => !(p.1.startsWith "_padding")) := by
    rw [hb]; simp
  have h3 := (List.mem_filter.1 h2).2
  simp at h3

/-- each part's declared alignment is the block alignment of the wire format (the main block is declared
    with the struct's alignment) -/
theorem Raw.block_align_spec (n : String) (ms : List Member) (hf : Accept.front (.struct n ms) = true) :
    (Raw.structBlocks ms).map (·.align) = Spec.alignMs ms :: (Spec.blocks ms).tail.map Spec.blockAlign := by
  have hfm : Accept.frontMs ms ms [] = true := by
    simp only [Accept.front, Bool.and_eq_true] at hf; exact hf.2
  have hA : (PL.nodeTy (.struct "" ms)).align = Spec.alignMs ms := by
    rw [PL.nodeTy_align']; simp only [Spec.alignTy]
  cases ms with
  | nil => simp [Accept.front] at hf
  | cons m r =>
    obtain ⟨n0, t, k⟩ := m
    simp only [Raw.structBlocks, List.map_map]
    rw [Raw.structBlocks_parts n0 t k r hfm]
    generalize hps : PL.padsFrom _ _ _ _ _ = ps
    have hl : ps.length = r.length + 1 := by
      rw [← hps, PL.padsFrom_length, PL.bump_length, Raw.memsOf_length_p11]
    have hw := Raw.walkAligns (.mk n0 t k :: r) r n0 t k [] false ps 0 hfm hl
    revert hw
    generalize Raw.partition _ _ = P
    intro hw
    cases P with
    | nil => simp [Raw.partAligns] at hw
    | cons p0 pt =>
      simp only [Raw.partAligns, List.map_cons, List.cons.injEq] at hw
      rw [← hw.2, ← hA]
      exact Raw.zipIdx_map_zero_p11 _ (fun p => match p with | g :: _ => g.2.2 | [] => 1) p0 pt

/-- unions: discriminator at 0, arms at max(4, alignment) -/
theorem Raw.union_spec (arms : List Arm) (hn : ∀ a ∈ arms, a.name.startsWith "_padding" = false) :
    (Raw.unionLayout arms).filter (fun p => !(p.1.startsWith "_padding"))
      = ("discriminator", 0) :: arms.map (fun a => (a.name, max Spec.flagSize (Spec.alignArms arms))) := by
  have hA : (PL.nodeTy (.union "" arms)).align = max Spec.flagSize (Spec.alignArms arms) := by
    rw [PL.nodeTy_align']; simp only [Spec.alignTy]
  have hd : ("discriminator".startsWith "_padding") = false := by
    rw [String.startsWith_string_eq_false_iff]; decide
  have hp : ("_padding0".startsWith "_padding") = true := by
    rw [String.startsWith_string_iff]; decide
  simp only [Raw.unionLayout, hA]
  rcases Raw.union_align_p11 arms with h | h
  · rw [h]
    simp only [List.filter_append, List.filter_cons, List.filter_nil, hd]
    simp [Raw.filter_names_p11 Arm.name 4 arms hn]
  · rw [h]
    simp only [List.filter_append, List.filter_cons, List.filter_nil, hd]
    simp [Raw.filter_names_p11 Arm.name 8 arms hn, hp]

/-- the generated union without dropping the padding member -/
theorem Raw.unionLayout_eq (arms : List Arm) :
    Raw.unionLayout arms = [("discriminator", 0)]
      ++ (if max Spec.flagSize (Spec.alignArms arms) = 8 then [("_padding0", 4)] else [])
      ++ arms.map (fun a => (a.name, max Spec.flagSize (Spec.alignArms arms))) := by
  have hA : (PL.nodeTy (.union "" arms)).align = max Spec.flagSize (Spec.alignArms arms) := by
    rw [PL.nodeTy_align']; simp only [Spec.alignTy]
  simp only [Raw.unionLayout, hA]
  rcases Raw.union_align_p11 arms with h | h <;> rw [h] <;> simp

/-- every arm is aligned at the offset it is given -/
theorem Raw.union_arm_aligned : (arms : List Arm) → ∀ a ∈ arms,
    Spec.alignTy a.ty ∣ max Spec.flagSize (Spec.alignArms arms)
  | [], a, h => by simp at h
  | .mk n d t :: r, a, h => by
    have ht := Spec.alignTy_isAl t
    have hr := Spec.alignArms_isAl r
    simp only [List.mem_cons] at h
    simp only [Spec.alignArms]
    rcases h with rfl | h
    · exact Nat.dvd_trans (IsAl.dvd_max_left ht hr) (IsAl.dvd_max_right IsAl.four (IsAl.max ht hr))
    · have ih := Raw.union_arm_aligned r a h
      have h1 : max Spec.flagSize (Spec.alignArms r) ∣ max Spec.flagSize (max (Spec.alignTy t) (Spec.alignArms r)) := by
        unfold IsAl at ht hr
        simp only [Spec.flagSize]
        rcases ht with h | h | h | h <;> rcases hr with h' | h' | h' | h' <;> rw [h, h'] <;> decide
      exact Nat.dvd_trans ih h1

end Prophy

#print axioms Prophy.Raw.sizeofTy_fixed
#print axioms Prophy.Raw.offsets_spec
#print axioms Prophy.Raw.block_align_spec
#print axioms Prophy.Raw.union_spec
#print axioms Prophy.Raw.offsets_spec_needs_names
#print axioms Prophy.Raw.unionLayout_eq
#print axioms Prophy.Raw.union_arm_aligned

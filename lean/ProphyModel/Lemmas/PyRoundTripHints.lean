/- per-struct facts of the decode loop: the length hints the counters leave for their arrays, the
   counter guard, counters read back -/
import ProphyModel.Lemmas.PyRoundTripPos
namespace Prophy
open Prophy WF Accept

/-- the hints a decoded counter `n` with value `c` leaves: one per array bound to it -/
def boundHints (all : List Member) (n : String) (c : Nat) : List (String × Nat) :=
  all.filterMap (fun m => if m.kind.sizer? = some n then some (m.name, c) else none)

theorem lookup_boundHints_hit (n : String) (c : Nat) (m : Member) : (all : List Member) → m ∈ all →
    m.kind.sizer? = some n → (boundHints all n c).lookup m.name = some c
  | [], hm, _ => by cases hm
  | a :: r, hm, hs => by
    unfold boundHints
    simp only [List.filterMap_cons]
    by_cases ha : a.kind.sizer? = some n
    · simp only [ha, if_true, List.lookup_cons]
      cases hq : (m.name == a.name) with
      | true => rfl
      | false =>
        rcases List.mem_cons.1 hm with rfl | hr
        · simp at hq
        · exact lookup_boundHints_hit n c m r hr hs
    · simp only [ha, if_false]
      rcases List.mem_cons.1 hm with rfl | hr
      · exact absurd hs ha
      · exact lookup_boundHints_hit n c m r hr hs

theorem lookup_boundHints_miss (n : String) (c : Nat) (x : String) : (all : List Member) →
    (∀ m ∈ all, m.kind.sizer? = some n → m.name ≠ x) → (boundHints all n c).lookup x = none
  | [], _ => rfl
  | a :: r, h => by
    have ih := lookup_boundHints_miss n c x r (fun m hm => h m (List.mem_cons_of_mem _ hm))
    unfold boundHints at ih ⊢
    simp only [List.filterMap_cons]
    by_cases ha : a.kind.sizer? = some n
    · have hne := h a (List.mem_cons_self ..) ha
      have : (x == a.name) = false := by simpa using fun h' => hne h'.symm
      simp only [ha, if_true, List.lookup_cons, this, ih]
    · simp only [ha, if_false, ih]

theorem WF.uniq_name_inj (all : List Member) (hu : WF.uniq (all.map (·.name)) = true) (m m' : Member)
    (hm : m ∈ all) (hm' : m' ∈ all) (hn : m.name = m'.name) : m = m' := by
  have h1 := WF.uniq_find all hu m hm
  have h2 := WF.uniq_find all hu m' hm'
  rw [hn, h2] at h1
  injection h1 with h1; exact h1.symm

/-- the hints cover every array whose counter has been read -/
def HintInv (all : List Member) (allv : List Val) (hints : List (String × Nat)) (before ms : List Member) : Prop :=
  ∀ m ∈ ms, ∀ s, m.kind.sizer? = some s → (∃ x ∈ before, x.name = s) →
    hints.lookup m.name = some (Spec.counter s all allv)

theorem HintInv.nil (all : List Member) (allv : List Val) (ms : List Member) : HintInv all allv [] [] ms := by
  intro m _ s _ ⟨x, hx, _⟩; cases hx

theorem HintInv.step_plain (all : List Member) (allv : List Val) (hints : List (String × Nat))
    (before : List Member) (m0 : Member) (r : List Member) (hall : all = before ++ m0 :: r)
    (hns : isSizer m0.name all = false) (h : HintInv all allv hints before (m0 :: r)) :
    HintInv all allv hints (before ++ [m0]) r := by
  intro m hm s hs ⟨x, hx, hxn⟩
  rcases List.mem_append.1 hx with hx | hx
  · exact h m (List.mem_cons_of_mem _ hm) s hs ⟨x, hx, hxn⟩
  · have hx0 : x = m0 := by simpa using hx
    subst hx0
    have : isSizer x.name all = true := by
      rw [isSizer_iff]
      exact ⟨m, by rw [hall]; simp [hm], by rw [hxn]; exact hs⟩
    rw [this] at hns; cases hns

theorem HintInv.step_sizer (all : List Member) (allv : List Val) (hints : List (String × Nat))
    (before : List Member) (m0 : Member) (r : List Member) (hall : all = before ++ m0 :: r)
    (hu : WF.uniq (all.map (·.name)) = true) (h : HintInv all allv hints before (m0 :: r)) :
    HintInv all allv (boundHints all m0.name (Spec.counter m0.name all allv) ++ hints) (before ++ [m0]) r := by
  intro m hm s hs ⟨x, hx, hxn⟩
  have hmall : m ∈ all := by rw [hall]; simp [hm]
  rw [List.lookup_append]
  by_cases hsn : s = m0.name
  · subst hsn
    rw [lookup_boundHints_hit _ _ m all hmall hs]; rfl
  · have hxb : x ∈ before := by
      rcases List.mem_append.1 hx with hx | hx
      · exact hx
      · have hx0 : x = m0 := by simpa using hx
        subst hx0; exact absurd hxn.symm hsn
    rw [lookup_boundHints_miss _ _ m.name all ?_, h m (List.mem_cons_of_mem _ hm) s hs ⟨x, hxb, hxn⟩]; rfl
    intro m' hm' hs' hn
    have := WF.uniq_name_inj all hu m' m hm' hmall hn
    subst this
    rw [hs] at hs'
    injection hs' with hs'
    exact hsn hs'

/-! ### array lengths are what the counters say -/
def lensOk (all : List Member) (allv : List Val) : List Member → List Val → Prop
  | m :: r, v :: vs => (∀ s, m.kind.sizer? = some s → v.len = Spec.counter s all allv) ∧ lensOk all allv r vs
  | _, _ => True

theorem lensOk_of_bound (all : List Member) (allv : List Val) : (ms : List Member) → (vs : List Val) →
    (∀ s, ∀ x ∈ boundLens s ms vs, x = Spec.counter s all allv) → lensOk all allv ms vs
  | [], _, _ => by simp [lensOk]
  | _ :: _, [], _ => by simp [lensOk]
  | m :: r, v :: vs, h => by
    refine ⟨?_, lensOk_of_bound all allv r vs ?_⟩
    · intro s hs
      apply h s
      simp [boundLens, hs]
    · intro s x hx
      apply h s
      simp only [boundLens]
      split
      · exact List.mem_cons_of_mem _ hx
      · exact hx

theorem boundLens_mem_sizer (s : String) : (ms : List Member) → (vs : List Val) → ∀ x ∈ boundLens s ms vs,
    ∃ m ∈ ms, m.kind.sizer? = some s
  | [], _, x, hx => by simp [boundLens] at hx
  | _ :: _, [], x, hx => by simp [boundLens] at hx
  | m :: r, v :: vs, x, hx => by
    simp only [boundLens] at hx
    by_cases hk : m.kind.sizer? = some s
    · exact ⟨m, List.mem_cons_self .., hk⟩
    · rw [if_neg hk] at hx
      obtain ⟨m', hm', hs'⟩ := boundLens_mem_sizer s r vs x hx
      exact ⟨m', List.mem_cons_of_mem _ hm', hs'⟩

theorem lensOk_of_agree (all : List Member) (allv : List Val) (ha : agreeMs all allv = true) :
    lensOk all allv all allv := by
  apply lensOk_of_bound
  intro s x hx
  obtain ⟨m, hm, hs⟩ := boundLens_mem_sizer s all allv x hx
  have := (List.all_eq_true.1 ha) m hm
  rw [hs] at this
  have := (List.all_eq_true.1 this) x hx
  simpa using this

/-! ### the counter guard -/
theorem boundLens_guard (all : List Member) (s : String) : (ms : List Member) → (vs : List Val) →
    guardFields all ms vs = true → ∀ x ∈ boundLens s ms vs, x ≤ guardLimit
  | [], _, _, x, hx => by simp [boundLens] at hx
  | _ :: _, [], _, x, hx => by simp [boundLens] at hx
  | .mk n t k :: r, v :: vs, hg, x, hx => by
    simp only [guardFields, Bool.and_eq_true] at hg
    simp only [boundLens] at hx
    by_cases hk : (Member.mk n t k).kind.sizer? = some s
    · rw [if_pos hk] at hx
      replace hk : k.sizer? = some s := hk
      rcases List.mem_cons.1 hx with rfl | hx'
      · have := hg.1.1
        rw [hk] at this
        simpa using this
      · exact boundLens_guard all s r vs hg.2 x hx'
    · rw [if_neg hk] at hx
      exact boundLens_guard all s r vs hg.2 x hx

/-- what the decode loop needs to know about the counters of one struct value -/
structure SizerDec (all : List Member) (allv : List Val) : Prop where
  dec : ∀ n t k, Member.mk n t k ∈ all → isSizer n all = true →
    ∃ p, t = .prim p ∧ inRange p ((Spec.counter n all allv + sizerShift n all : Nat) : Int) = true ∧
      Spec.counter n all allv ≤ guardLimit

theorem sizerDec (all : List Member) (allv : List Val)
    (hu : WF.uniq (all.map (·.name)) = true) (hw : wfMs all all = true)
    (hh : hasMs all all allv = true) (hg : guardFields all all allv = true) : SizerDec all allv := by
  refine ⟨fun n t k hm hs => ?_⟩
  obtain ⟨p, rfl, _, hfl, hmax⟩ := WF.sizer_prim all hu hw n t k hm hs
  obtain ⟨m', hm', hs'⟩ := (isSizer_iff n all).1 hs
  have hne := boundLens_ne_nil all n all allv hh ⟨m', hm', hs'⟩
  have hmem : Spec.counter n all allv ∈ boundLens n all allv := by
    unfold Spec.counter
    cases hb : boundLens n all allv with
    | nil => exact absurd hb hne
    | cons a r => simp
  have hb := boundLens_bound all n all allv hw hh _ hmem
  obtain ⟨hlo, hhi⟩ := primRange_nonfloat p hfl
  refine ⟨p, rfl, ?_, boundLens_guard all n all allv hg _ hmem⟩
  simp only [inRange, Bool.and_eq_true, decide_eq_true_eq]
  rw [hmax] at hb
  constructor <;> omega

end Prophy

/- alignments are 1, 2, 4 or 8; the runtime's dynamic flag and partial alignments are the Spec's
   stiffness and block alignments on well-formed schemas -/
import ProphyModel.WF
import ProphyModel.Lemmas.Statics
namespace Prophy
open Prophy

/-- the alignments that occur -/
def IsAl (a : Nat) : Prop := a = 1 ∨ a = 2 ∨ a = 4 ∨ a = 8

theorem IsAl.pos {a : Nat} (h : IsAl a) : 0 < a := by unfold IsAl at h; omega

theorem IsAl.max {a b : Nat} (ha : IsAl a) (hb : IsAl b) : IsAl (max a b) := by
  unfold IsAl at *
  rcases ha with rfl | rfl | rfl | rfl <;> rcases hb with rfl | rfl | rfl | rfl <;> simp

theorem IsAl.dvd_max_left {a b : Nat} (ha : IsAl a) (hb : IsAl b) : a ∣ Nat.max a b := by
  unfold IsAl at *
  rcases ha with rfl | rfl | rfl | rfl <;> rcases hb with rfl | rfl | rfl | rfl <;> decide

theorem IsAl.dvd_max_right {a b : Nat} (ha : IsAl a) (hb : IsAl b) : b ∣ Nat.max a b := by
  unfold IsAl at *
  rcases ha with rfl | rfl | rfl | rfl <;> rcases hb with rfl | rfl | rfl | rfl <;> decide

theorem IsAl.four : IsAl 4 := by unfold IsAl; omega
theorem IsAl.one : IsAl 1 := by unfold IsAl; omega

mutual
  theorem Spec.alignTy_isAl : (t : Ty) → IsAl (Spec.alignTy t)
    | .prim p => by cases p <;> simp [Spec.alignTy, Prim.size, IsAl]
    | .byte => by simp [Spec.alignTy, IsAl]
    | .enum _ _ => by simp [Spec.alignTy, IsAl]
    | .struct _ ms => by simp only [Spec.alignTy]; exact Spec.alignMs_isAl ms
    | .union _ arms => by
      simp only [Spec.alignTy, Spec.flagSize]
      exact IsAl.max IsAl.four (Spec.alignArms_isAl arms)
  theorem Spec.alignMs_isAl : (ms : List Member) → IsAl (Spec.alignMs ms)
    | [] => by simp [Spec.alignMs, IsAl]
    | .mk _ t k :: r => by
      have ht := Spec.alignTy_isAl t
      have hr := Spec.alignMs_isAl r
      simp only [Spec.alignMs]
      refine IsAl.max ?_ hr
      cases k <;> simp only [Spec.flagSize] <;> first | exact ht | exact IsAl.max IsAl.four ht
  theorem Spec.alignArms_isAl : (arms : List Arm) → IsAl (Spec.alignArms arms)
    | [] => by simp [Spec.alignArms, IsAl]
    | .mk _ _ t :: r => by
      simp only [Spec.alignArms]
      exact IsAl.max (Spec.alignTy_isAl t) (Spec.alignArms_isAl r)
end

theorem Spec.alignMember_isAl (m : Member) : IsAl (Spec.alignMember m) := by
  obtain ⟨n, t, k⟩ := m
  have ht := Spec.alignTy_isAl t
  unfold Spec.alignMember
  cases k <;> simp only [Member.kind, Member.ty, Spec.flagSize] <;> first | exact ht | exact IsAl.max IsAl.four ht

theorem Spec.blockAlign_isAl : (ms : List Member) → IsAl (Spec.blockAlign ms)
  | [] => IsAl.one
  | m :: r => by
    simp only [Spec.blockAlign]
    split
    · exact Spec.alignMember_isAl m
    · exact IsAl.max (Spec.alignMember_isAl m) (Spec.blockAlign_isAl r)

theorem Spec.alignMember_dvd_blockAlign (m : Member) (r : List Member) :
    Spec.alignMember m ∣ Spec.blockAlign (m :: r) := by
  simp only [Spec.blockAlign]
  split
  · exact Nat.dvd_refl _
  · exact IsAl.dvd_max_left (Spec.alignMember_isAl m) (Spec.blockAlign_isAl r)

/-- aligning to a block alignment also aligns to the first member's own alignment -/
theorem padTo_alignUp_of_dvd (off a b : Nat) (hb : 0 < b) (h : a ∣ b) : padTo (alignUp off b) a = 0 :=
  padTo_eq_zero_of_dvd _ _ (Nat.dvd_trans h (dvd_alignUp off b hb))

theorem padTo_one (off : Nat) : padTo off 1 = 0 := by unfold padTo; exact Nat.mod_one _
theorem alignUp_one (off : Nat) : alignUp off 1 = off := by simp [alignUp, padTo_one]

/-! ### the runtime's `_DYNAMIC` is the Spec's stiffness -/
namespace WF

theorem wfMs_cons (all : List Member) (n : String) (t : Ty) (k : MKind) (r : List Member) :
    wfMs all (.mk n t k :: r) = true ↔
      wfTy t = true ∧ (needsFixed k = true → Spec.fixedTy t = true) ∧
      (∀ s, k.sizer? = some s → sizerOk all s = true) ∧ shiftOk all k = true ∧ wfMs all r = true := by
  simp only [wfMs, Bool.and_eq_true, Bool.or_eq_true, Bool.not_eq_true']
  constructor
  · rintro ⟨⟨⟨⟨h1, h2⟩, h3⟩, h4⟩, h5⟩
    refine ⟨h1, ?_, ?_, h4, h5⟩
    · intro hk; rcases h2 with h2 | h2
      · rw [hk] at h2; cases h2
      · exact h2
    · intro s hs; rw [hs] at h3; exact h3
  · rintro ⟨h1, h2, h3, h4, h5⟩
    refine ⟨⟨⟨⟨h1, ?_⟩, ?_⟩, h4⟩, h5⟩
    · cases hk : needsFixed k
      · exact Or.inl rfl
      · exact Or.inr (h2 hk)
    · cases hs : k.sizer? with
      | none => rfl
      | some s => exact h3 s hs

theorem wfArms_cons (n : String) (d : Nat) (t : Ty) (r : List Arm) :
    wfArms (.mk n d t :: r) = true ↔ wfTy t = true ∧ Spec.fixedTy t = true ∧ wfArms r = true := by
  simp [wfArms, and_assoc]

end WF

namespace Py
open WF

mutual
  theorem stTy_dyn : (t : Ty) → wfTy t = true → (stTy t).dyn = Spec.dynTy t
    | .prim _, _ => rfl
    | .byte, _ => rfl
    | .enum _ _, _ => rfl
    | .union _ _, _ => rfl
    | .struct _ ms, h => by
      have h' : wfMs ms ms = true := by
        simp only [wfTy, Bool.and_eq_true] at h; exact h.2
      simp only [stTy, structSt, Spec.dynTy]
      exact stMs_dyn ms ms h'
  theorem stMs_dyn (all : List Member) : (ms : List Member) → wfMs all ms = true →
      (stMs ms).any (·.dyn) = Spec.dynMs ms
    | [], _ => rfl
    | .mk n t k :: r, h => by
      obtain ⟨ht, hfx, _, _, hr⟩ := (wfMs_cons all n t k r).1 h
      have ih := stMs_dyn all r hr
      have iht := stTy_dyn t ht
      simp only [stMs, List.any_cons, Spec.dynMs, ih]
      congr 1
      cases k with
      | plain => exact iht
      | optional =>
        have := Spec.dynTy_of_fixed t (hfx rfl)
        simp [fieldSt, iht, this]
      | fixed c => rfl
      | dyn s sh => rfl
      | limited s c => rfl
      | greedy => rfl
end

/-- `_DYNAMIC` of the field descriptor = the member ends a block -/
theorem fieldSt_dyn (all : List Member) (n : String) (t : Ty) (k : MKind) (r : List Member)
    (h : wfMs all (.mk n t k :: r) = true) :
    (fieldSt (stTy t) k).dyn = Spec.endsBlock (.mk n t k) := by
  obtain ⟨ht, hfx, _, _, _⟩ := (wfMs_cons all n t k r).1 h
  have iht := stTy_dyn t ht
  unfold Spec.endsBlock
  cases k with
  | plain => exact iht
  | optional =>
    have := Spec.dynTy_of_fixed t (hfx rfl)
    simp [fieldSt, iht, this, Member.kind]
  | fixed c => rfl
  | dyn s sh => rfl
  | limited s c => rfl
  | greedy => rfl

/-- a type without dynamic parts on a well-formed schema is of fixed size -/
theorem stTy_size (t : Ty) (h : Spec.fixedTy t = true) : (stTy t).size = Spec.sizeTy t :=
  stTy_size_fixed t h

/-! ### partial alignments -/
def partialAl (fs : List St) : Nat := (partialsAux fs).2

theorem partials_cons (f : St) (r : List St) :
    partials (f :: r) = (if f.dyn then some (partialAl r) else none) :: partials r := by
  simp only [partials, partialAl, partialsAux]
  split <;> rfl

theorem partialAl_cons (f : St) (r : List St) :
    partialAl (f :: r) = if f.dyn then max f.align 1 else max f.align (partialAl r) := by
  simp only [partialAl, partialsAux]
  split <;> rfl

theorem partials_nil : partials [] = [] := rfl
theorem partialAl_nil : partialAl [] = 1 := rfl

theorem partialAl_stMs (all : List Member) : (ms : List Member) → wfMs all ms = true →
    partialAl (stMs ms) = Spec.blockAlign ms
  | [], _ => rfl
  | .mk n t k :: r, h => by
    obtain ⟨_, _, _, _, hr⟩ := (wfMs_cons all n t k r).1 h
    have ih := partialAl_stMs all r hr
    have hd := fieldSt_dyn all n t k r h
    have ha := fieldSt_align_member n t k
    have hp := Spec.alignMember_pos (.mk n t k)
    simp only [stMs, partialAl_cons, Spec.blockAlign, hd, ha, ih]
    split
    · exact Nat.max_eq_left hp
    · rfl

end Py
end Prophy

/-
  C14, grouping: the parser of `Expr.lean` inverts a printer.

  `Rep l a t` relates a tree `a` to every token list `t` that writes it with the parentheses the
  precedence table requires plus ANY redundant ones; `Rep.parse_eq : Rep 0 a t → parse t = some a`
  (the fuel `4n+4` of `parse` is sufficient: `2n+1` is).  The minimal-parentheses printer `toks`
  and the fully parenthesising printer `toksFull` are two instances, hence
  `parse_toks`, `parse_toksFull`, `eval_grouping`.  Conversely the parser accepts nothing else:
  `parse_iff_rep : parse t = some a ↔ Rep 0 a t`.
-/
import ProphyModel.Expr
namespace Prophy
namespace Expr

/-! ### unfolding lemmas of the parser -/

theorem parseAtom_zero (t : List Tok) : parseAtom 0 t = none := by
  unfold parseAtom; rfl

theorem parseAtom_num (f : Nat) (n : Nat) (r : List Tok) :
    parseAtom (f + 1) (.num n :: r) = some (.num n, r) := by
  simp only [parseAtom] <;> rfl

theorem parseAtom_ident (f : Nat) (s : String) (r : List Tok) :
    parseAtom (f + 1) (.ident s :: r) = some (.name s, r) := by
  simp only [parseAtom] <;> rfl

theorem parseAtom_minus (f : Nat) (r : List Tok) :
    parseAtom (f + 1) (.minus :: r) =
      match parseAtom f r with
      | some (e, r') => some (.neg e, r')
      | none => none := by
  simp only [parseAtom] <;> rfl

theorem parseAtom_lpar (f : Nat) (r : List Tok) :
    parseAtom (f + 1) (.lpar :: r) =
      match parseExpr f 0 r with
      | some (e, .rpar :: r') => some (e, r')
      | _ => none := by
  simp only [parseAtom] <;> rfl

theorem parseExpr_zero (m : Nat) (t : List Tok) : parseExpr 0 m t = none := by
  simp only [parseExpr] <;> rfl

theorem parseExpr_succ (f m : Nat) (t : List Tok) :
    parseExpr (f + 1) m t =
      match parseAtom f t with
      | some (lhs, r) => parseLoop f m lhs r
      | none => none := by
  simp only [parseExpr] <;> rfl

theorem parseLoop_zero (m : Nat) (a : Ast) (t : List Tok) : parseLoop 0 m a t = none := by
  simp only [parseLoop] <;> rfl

theorem parseLoop_nil (f m : Nat) (a : Ast) : parseLoop (f + 1) m a [] = some (a, []) := by
  simp only [parseLoop] <;> rfl

theorem parseLoop_cons (f m : Nat) (a : Ast) (t : Tok) (r : List Tok) :
    parseLoop (f + 1) m a (t :: r) =
      match binInfo t with
      | some (lvl, rightAssoc, op) =>
        if lvl < m then some (a, t :: r)
        else
          match parseExpr f (if rightAssoc then lvl else lvl + 1) r with
          | some (rhs, r') => parseLoop f m (.bin op a rhs) r'
          | none => none
      | none => some (a, t :: r) := by
  simp only [parseLoop] <;> rfl

theorem parseAtom_nil (f : Nat) : parseAtom f [] = none := by
  cases f <;> simp only [parseAtom] <;> rfl

/-! ### fuel monotonicity -/

theorem parse_mono_step (f : Nat) :
    (∀ t r, parseAtom f t = some r → parseAtom (f + 1) t = some r) ∧
    (∀ m t r, parseExpr f m t = some r → parseExpr (f + 1) m t = some r) ∧
    (∀ m a t r, parseLoop f m a t = some r → parseLoop (f + 1) m a t = some r) := by
  induction f with
  | zero =>
    refine ⟨?_, ?_, ?_⟩
    · intro t r h; rw [parseAtom_zero] at h; cases h
    · intro m t r h; rw [parseExpr_zero] at h; cases h
    · intro m a t r h; rw [parseLoop_zero] at h; cases h
  | succ f ih =>
    obtain ⟨ihA, ihE, ihL⟩ := ih
    refine ⟨?_, ?_, ?_⟩
    · intro t r h
      cases t with
      | nil => rw [parseAtom_nil] at h; cases h
      | cons tk tl =>
        cases tk with
        | num n => rw [parseAtom_num] at h ⊢; exact h
        | ident s => rw [parseAtom_ident] at h ⊢; exact h
        | minus =>
          rw [parseAtom_minus] at h ⊢
          cases h1 : parseAtom f tl with
          | none => rw [h1] at h; cases h
          | some p => rw [ihA _ _ h1]; rw [h1] at h; exact h
        | lpar =>
          rw [parseAtom_lpar] at h ⊢
          cases h1 : parseExpr f 0 tl with
          | none => rw [h1] at h; cases h
          | some p => rw [ihE _ _ _ h1]; rw [h1] at h; exact h
        | _ => simp [parseAtom] at h
    · intro m t r h
      rw [parseExpr_succ] at h ⊢
      cases h1 : parseAtom f t with
      | none => rw [h1] at h; cases h
      | some p =>
        obtain ⟨lhs, r'⟩ := p
        rw [ihA _ _ h1]; rw [h1] at h
        exact ihL _ _ _ _ h
    · intro m a t r h
      cases t with
      | nil => rw [parseLoop_nil] at h ⊢; exact h
      | cons tk tl =>
        rw [parseLoop_cons] at h ⊢
        cases hb : binInfo tk with
        | none => rw [hb] at h; exact h
        | some q =>
          obtain ⟨lvl, ra, op⟩ := q
          rw [hb] at h
          simp only at h ⊢
          by_cases hl : lvl < m
          · simp only [hl, if_true] at h ⊢; exact h
          · simp only [hl, if_false] at h ⊢
            cases h1 : parseExpr f (if ra = true then lvl else lvl + 1) tl with
            | none => rw [h1] at h; cases h
            | some p =>
              obtain ⟨rhs, r'⟩ := p
              rw [ihE _ _ _ h1]; rw [h1] at h
              exact ihL _ _ _ _ h

/-- fuel monotonicity: a successful parse stays the same with more fuel -/
theorem parseAtom_mono {f f' : Nat} {t : List Tok} {r} (h : parseAtom f t = some r) (hf : f ≤ f') :
    parseAtom f' t = some r := by
  induction hf with
  | refl => exact h
  | step _ ih => exact (parse_mono_step _).1 _ _ ih

theorem parseExpr_mono {f f' : Nat} {m : Nat} {t : List Tok} {r} (h : parseExpr f m t = some r)
    (hf : f ≤ f') : parseExpr f' m t = some r := by
  induction hf with
  | refl => exact h
  | step _ ih => exact (parse_mono_step _).2.1 _ _ _ ih

theorem parseLoop_mono {f f' : Nat} {m : Nat} {a : Ast} {t : List Tok} {r}
    (h : parseLoop f m a t = some r) (hf : f ≤ f') : parseLoop f' m a t = some r := by
  induction hf with
  | refl => exact h
  | step _ ih => exact (parse_mono_step _).2.2 _ _ _ _ ih

/-! ### derived one-step rules (any sufficiently large fuel) -/

theorem parseExpr_of {F fa fl m : Nat} {t : List Tok} {lhs : Ast} {r' : List Tok} {r}
    (ha : parseAtom fa t = some (lhs, r')) (hl : parseLoop fl m lhs r' = some r)
    (h1 : fa < F) (h2 : fl < F) : parseExpr F m t = some r := by
  obtain ⟨F, rfl⟩ : ∃ k, F = k + 1 := ⟨F - 1, by omega⟩
  rw [parseExpr_succ, parseAtom_mono ha (by omega)]
  exact parseLoop_mono hl (by omega)

theorem parseLoop_op {F fe fl m lv : Nat} {ra : Bool} {op : BinOp} {a rhs : Ast} {tk : Tok}
    {tl r' : List Tok} {r}
    (hb : binInfo tk = some (lv, ra, op)) (hm : ¬ lv < m)
    (he : parseExpr fe (if ra then lv else lv + 1) tl = some (rhs, r'))
    (hl : parseLoop fl m (.bin op a rhs) r' = some r)
    (h1 : fe < F) (h2 : fl < F) : parseLoop F m a (tk :: tl) = some r := by
  obtain ⟨F, rfl⟩ : ∃ k, F = k + 1 := ⟨F - 1, by omega⟩
  rw [parseLoop_cons, hb]
  simp only [hm, if_false]
  rw [parseExpr_mono he (by omega)]
  exact parseLoop_mono hl (by omega)

/-- `rest` does not start with a binary operator of level `≥ k` -/
def okRest (k : Nat) (rest : List Tok) : Prop :=
  ∀ t r lv ra op, rest = t :: r → binInfo t = some (lv, ra, op) → lv < k

theorem okRest_nil (k : Nat) : okRest k [] := by
  intro t r lv ra op h; cases h

theorem okRest_rpar (k : Nat) (r : List Tok) : okRest k (.rpar :: r) := by
  intro t r lv ra op h hb
  cases h
  simp [binInfo] at hb

theorem okRest_mono {k k' : Nat} {rest : List Tok} (h : okRest k rest) (hk : k ≤ k') :
    okRest k' rest := by
  intro t r lv ra op h1 h2
  have := h t r lv ra op h1 h2
  omega

theorem parseLoop_stop {F m : Nat} {a : Ast} {rest : List Tok} (h : okRest m rest) (hF : 0 < F) :
    parseLoop F m a rest = some (a, rest) := by
  obtain ⟨F, rfl⟩ : ∃ k, F = k + 1 := ⟨F - 1, by omega⟩
  cases rest with
  | nil => rw [parseLoop_nil]
  | cons tk tl =>
    rw [parseLoop_cons]
    cases hb : binInfo tk with
    | none => rfl
    | some q =>
      obtain ⟨lv, ra, op⟩ := q
      have := h tk tl lv ra op rfl hb
      simp only [this, if_true]

theorem parseAtom_neg_of {F f : Nat} {t r : List Tok} {e : Ast}
    (h : parseAtom f t = some (e, r)) (hf : f < F) :
    parseAtom F (.minus :: t) = some (.neg e, r) := by
  obtain ⟨F, rfl⟩ : ∃ k, F = k + 1 := ⟨F - 1, by omega⟩
  rw [parseAtom_minus, parseAtom_mono h (by omega)]

theorem parseAtom_paren_of {F f : Nat} {t r : List Tok} {e : Ast}
    (h : parseExpr f 0 t = some (e, .rpar :: r)) (hf : f < F) :
    parseAtom F (.lpar :: t) = some (e, r) := by
  obtain ⟨F, rfl⟩ : ∃ k, F = k + 1 := ⟨F - 1, by omega⟩
  rw [parseAtom_lpar, parseExpr_mono h (by omega)]

/-! ### the precedence table as used by the printer -/

/-- level of a binary operator (the parser's `binInfo`) -/
def lvl : BinOp → Nat
  | .bor => 0
  | .add => 1 | .sub => 1
  | .mul => 2 | .div => 2
  | .shl => 3 | .shr => 3

def rassoc : BinOp → Bool
  | .bor => true
  | _ => false

def opTok : BinOp → Tok
  | .bor => .bar
  | .add => .plus | .sub => .minus
  | .mul => .star | .div => .slash
  | .shl => .shl | .shr => .shr

theorem binInfo_opTok (op : BinOp) : binInfo (opTok op) = some (lvl op, rassoc op, op) := by
  cases op <;> rfl

/-- minimum level at which the parser reads the RIGHT operand of `op` -/
def nxt (op : BinOp) : Nat := if rassoc op then lvl op else lvl op + 1
/-- minimum level an unparenthesised LEFT operand of `op` must have -/
def lnx (op : BinOp) : Nat := if rassoc op then lvl op + 1 else lvl op

theorem lvl_le_three (op : BinOp) : lvl op ≤ 3 := by cases op <;> decide

/-! ### token representations of a tree, with arbitrary redundant parentheses -/

/-- `Rep l a t`: the token list `t` is a way of writing the tree `a` in a context that admits
    unparenthesised binary operators of level `≥ l` only (`l = 0`: anywhere a full expression is
    allowed; `l = 4`: operand of unary minus).  Parentheses may be added anywhere (`paren`), and may
    be omitted only where the precedence table allows it (`bin`). -/
inductive Rep : Nat → Ast → List Tok → Prop
  | num (l n : Nat) : Rep l (.num n) [.num n]
  | name (l : Nat) (s : String) : Rep l (.name s) [.ident s]
  | neg (l : Nat) (e : Ast) (t : List Tok) : Rep 4 e t → Rep l (.neg e) (.minus :: t)
  | bin (l : Nat) (op : BinOp) (x y : Ast) (tx ty : List Tok) :
      l ≤ lvl op → Rep (lnx op) x tx → Rep (nxt op) y ty →
      Rep l (.bin op x y) (tx ++ opTok op :: ty)
  | paren (l : Nat) (a : Ast) (t : List Tok) : Rep 0 a t → Rep l a (.lpar :: t ++ [.rpar])

/-- what may follow a representation at level `l` without being absorbed into its last operand -/
def cond (l : Nat) (rest : List Tok) : Prop := okRest (l + 1) rest ∧ (l = 0 → okRest 0 rest)

theorem cond_of_okRest {l : Nat} {rest : List Tok} (h : okRest l rest) : cond l rest :=
  ⟨okRest_mono h (by omega), fun h0 => by subst h0; exact h⟩

/-- Continuation form of the inversion lemma.  Parsing `t ++ rest` at minimum level `m ≤ l`
    does whatever the operator loop does with left operand `a` on `rest`; and a level-4
    representation is read back by `parseAtom`.  Fuel `2 * t.length` on top of the continuation's. -/
theorem Rep.parse_cont {l : Nat} {a : Ast} {t : List Tok} (h : Rep l a t) :
    (∀ m rest r f0, m ≤ l → cond l rest → parseLoop f0 m a rest = some r →
        parseExpr (f0 + 2 * t.length) m (t ++ rest) = some r) ∧
    (4 ≤ l → ∀ rest, parseAtom (2 * t.length) (t ++ rest) = some (a, rest)) := by
  induction h with
  | num l n =>
    refine ⟨?_, ?_⟩
    · intro m rest r f0 _ _ hL
      exact parseExpr_of (fa := 1) (parseAtom_num 0 n rest) hL (by simp) (by simp)
    · intro _ rest
      exact parseAtom_num 1 n rest
  | name l s =>
    refine ⟨?_, ?_⟩
    · intro m rest r f0 _ _ hL
      exact parseExpr_of (fa := 1) (parseAtom_ident 0 s rest) hL (by simp) (by simp)
    · intro _ rest
      exact parseAtom_ident 1 s rest
  | neg l e t _ ih =>
    have hA := ih.2 (Nat.le_refl 4)
    refine ⟨?_, ?_⟩
    · intro m rest r f0 _ _ hL
      refine parseExpr_of (fa := 2 * t.length + 1) ?_ hL ?_ ?_
      · exact parseAtom_neg_of (hA rest) (by omega)
      · simp only [List.length_cons]; omega
      · simp only [List.length_cons]; omega
    · intro _ rest
      exact parseAtom_neg_of (hA rest) (by simp only [List.length_cons]; omega)
  | bin l op x y tx ty hl _ _ ihx ihy =>
    refine ⟨?_, ?_⟩
    · intro m rest r f0 hm hc hL
      have hlist : (tx ++ opTok op :: ty) ++ rest = tx ++ (opTok op :: (ty ++ rest)) := by simp
      rw [hlist]
      -- facts about the table
      have hnxt : lvl op ≤ nxt op := by unfold nxt; split <;> omega
      have hlnx : lvl op ≤ lnx op := by unfold lnx; split <;> omega
      have hnxt0 : nxt op = 0 → l = 0 := by
        intro h0; omega
      have hok : okRest (nxt op) rest := by
        by_cases hr : rassoc op = true
        · have : nxt op = 0 := by cases op <;> simp_all [nxt, rassoc, lvl]
          rw [this]; exact hc.2 (hnxt0 this)
        · have : nxt op = lvl op + 1 := by simp [nxt, hr]
          exact okRest_mono hc.1 (by omega)
      have hcy : cond (nxt op) rest :=
        ⟨okRest_mono hc.1 (by omega), fun h0 => hc.2 (hnxt0 h0)⟩
      have hcx : cond (lnx op) (opTok op :: (ty ++ rest)) := by
        refine ⟨?_, ?_⟩
        · intro t r lv ra o h1 h2
          cases h1
          rw [binInfo_opTok] at h2
          cases h2
          omega
        · intro h0
          exfalso
          cases op <;> simp [lnx, rassoc, lvl] at h0
      -- right operand
      have hy := ihy.1 (nxt op) rest (y, rest) 1 (Nat.le_refl _) hcy
        (parseLoop_stop hok (by omega))
      -- the loop step on the operator
      have hstep : parseLoop (f0 + 2 * ty.length + 2) m x (opTok op :: (ty ++ rest)) = some r := by
        refine parseLoop_op (binInfo_opTok op) (by omega) (fe := 1 + 2 * ty.length) (fl := f0)
          ?_ hL (by omega) (by omega)
        exact hy
      have := ihx.1 m (opTok op :: (ty ++ rest)) r _ (by omega) hcx hstep
      refine parseExpr_mono this ?_
      simp only [List.length_append, List.length_cons]; omega
    · intro h4
      have := lvl_le_three op
      omega
  | paren l a t _ ih =>
    have hin : ∀ rest, parseExpr (1 + 2 * t.length) 0 (t ++ (.rpar :: rest)) = some (a, .rpar :: rest) :=
      fun rest => ih.1 0 (.rpar :: rest) (a, .rpar :: rest) 1 (Nat.le_refl _)
        (cond_of_okRest (okRest_rpar _ _)) (parseLoop_stop (okRest_rpar _ _) (by omega))
    have hlist : ∀ rest, (Tok.lpar :: t ++ [Tok.rpar]) ++ rest = Tok.lpar :: (t ++ (.rpar :: rest)) := by
      intro rest; simp
    refine ⟨?_, ?_⟩
    · intro m rest r f0 _ _ hL
      rw [hlist]
      refine parseExpr_of (fa := 2 * t.length + 2) ?_ hL ?_ ?_
      · exact parseAtom_paren_of (hin rest) (by omega)
      · simp only [List.length_append, List.length_cons, List.length_nil]; omega
      · simp only [List.length_append, List.length_cons, List.length_nil]; omega
    · intro _ rest
      rw [hlist]
      refine parseAtom_paren_of (hin rest) ?_
      simp only [List.length_append, List.length_cons, List.length_nil]; omega

/-- The lemma asked for: with enough fuel (`2 * length + 1`, or anything above), parsing
    `t ++ rest` at minimum level `l` yields `(a, rest)` when `rest` does not start with a binary
    operator of level `≥ l`. -/
theorem Rep.parseExpr_append {l : Nat} {a : Ast} {t : List Tok} (h : Rep l a t)
    (rest : List Tok) (hrest : okRest l rest) (F : Nat) (hF : 2 * t.length + 1 ≤ F) :
    parseExpr F l (t ++ rest) = some (a, rest) := by
  have := h.parse_cont.1 l rest (a, rest) 1 (Nat.le_refl _) (cond_of_okRest hrest)
    (parseLoop_stop hrest (by omega))
  exact parseExpr_mono this (by omega)

/-- `parse`'s fuel `4n+4` is sufficient: every representation of `a` parses to `a`,
    however it is parenthesised -/
theorem Rep.parse_eq {a : Ast} {t : List Tok} (h : Rep 0 a t) : parse t = some a := by
  have := h.parseExpr_append [] (okRest_nil 0) (4 * t.length + 4) (by omega)
  rw [List.append_nil] at this
  unfold parse
  rw [this]

/-- the token language is unambiguous: a token list represents at most one tree -/
theorem Rep.unique {a b : Ast} {t : List Tok} (ha : Rep 0 a t) (hb : Rep 0 b t) : a = b := by
  have h1 := ha.parse_eq
  rw [hb.parse_eq] at h1
  injection h1 with h1
  exact h1.symm

/-! ### converse: the parser accepts nothing but representations -/

theorem binInfo_inv {tk : Tok} {lv : Nat} {ra : Bool} {op : BinOp}
    (h : binInfo tk = some (lv, ra, op)) : tk = opTok op ∧ lv = lvl op ∧ ra = rassoc op := by
  cases tk <;> simp [binInfo] at h <;> (obtain ⟨rfl, rfl, rfl⟩ := h; exact ⟨rfl, rfl, rfl⟩)

/-- loop invariant: `t1` writes the accumulated left operand `lhs`, in a form usable as the left
    operand of whatever operator (of level `≥ m`) comes next -/
def LoopInv (m : Nat) (lhs : Ast) (t1 t : List Tok) : Prop :=
  Rep m lhs t1 ∧
  ∀ tk tl lv ra op, t = tk :: tl → binInfo tk = some (lv, ra, op) → m ≤ lv → Rep (lnx op) lhs t1

theorem parse_sound_step (f : Nat) :
    (∀ t a r, parseAtom f t = some (a, r) → ∃ t0, t = t0 ++ r ∧ ∀ l, Rep l a t0) ∧
    (∀ m t a r, parseExpr f m t = some (a, r) → ∃ t0, t = t0 ++ r ∧ Rep m a t0 ∧ okRest m r) ∧
    (∀ m lhs t a r, parseLoop f m lhs t = some (a, r) → ∀ t1, LoopInv m lhs t1 t →
        ∃ t0, t1 ++ t = t0 ++ r ∧ Rep m a t0 ∧ okRest m r) := by
  induction f with
  | zero =>
    refine ⟨?_, ?_, ?_⟩
    · intro t a r h; rw [parseAtom_zero] at h; cases h
    · intro m t a r h; rw [parseExpr_zero] at h; cases h
    · intro m lhs t a r h; rw [parseLoop_zero] at h; cases h
  | succ f ih =>
    obtain ⟨ihA, ihE, ihL⟩ := ih
    refine ⟨?_, ?_, ?_⟩
    · intro t a r h
      cases t with
      | nil => rw [parseAtom_nil] at h; cases h
      | cons tk tl =>
        cases tk with
        | num n =>
          rw [parseAtom_num] at h
          injection h with h; injection h with h1 h2; subst h1; subst h2
          exact ⟨[.num n], rfl, fun l => .num l n⟩
        | ident s =>
          rw [parseAtom_ident] at h
          injection h with h; injection h with h1 h2; subst h1; subst h2
          exact ⟨[.ident s], rfl, fun l => .name l s⟩
        | minus =>
          rw [parseAtom_minus] at h
          cases h1 : parseAtom f tl with
          | none => rw [h1] at h; cases h
          | some p =>
            obtain ⟨e, r'⟩ := p
            rw [h1] at h
            injection h with h; injection h with h2 h3; subst h2; subst h3
            obtain ⟨t0, ht, hrep⟩ := ihA _ _ _ h1
            exact ⟨.minus :: t0, by rw [ht]; rfl, fun l => .neg l e t0 (hrep 4)⟩
        | lpar =>
          rw [parseAtom_lpar] at h
          cases h1 : parseExpr f 0 tl with
          | none => rw [h1] at h; cases h
          | some p =>
            obtain ⟨e, r'⟩ := p
            rw [h1] at h
            cases r' with
            | nil => cases h
            | cons tk2 r2 =>
              cases tk2 <;> try (cases h; done)
              injection h with h; injection h with h2 h3; subst h2; subst h3
              obtain ⟨t0, ht, hrep, _⟩ := ihE _ _ _ _ h1
              exact ⟨.lpar :: t0 ++ [.rpar], by rw [ht]; simp, fun l => .paren l _ t0 hrep⟩
        | _ => simp [parseAtom] at h
    · intro m t a r h
      rw [parseExpr_succ] at h
      cases h1 : parseAtom f t with
      | none => rw [h1] at h; cases h
      | some p =>
        obtain ⟨lhs, r1⟩ := p
        rw [h1] at h
        obtain ⟨t0, ht, hrep⟩ := ihA _ _ _ h1
        obtain ⟨t0', ht', hrep', hok⟩ := ihL _ _ _ _ _ h t0 ⟨hrep m, fun _ _ _ _ op _ _ _ => hrep (lnx op)⟩
        exact ⟨t0', by rw [ht, ht'], hrep', hok⟩
    · intro m lhs t a r h t1 hinv
      cases t with
      | nil =>
        rw [parseLoop_nil] at h
        injection h with h; injection h with h1 h2; subst h1; subst h2
        exact ⟨t1, rfl, hinv.1, okRest_nil m⟩
      | cons tk tl =>
        rw [parseLoop_cons] at h
        cases hb : binInfo tk with
        | none =>
          rw [hb] at h
          injection h with h; injection h with h1 h2; subst h1; subst h2
          refine ⟨t1, rfl, hinv.1, ?_⟩
          intro t' r' lv ra op he hb'
          cases he
          rw [hb] at hb'; cases hb'
        | some q =>
          obtain ⟨lv, ra, op⟩ := q
          rw [hb] at h
          simp only at h
          by_cases hl : lv < m
          · simp only [hl, if_true] at h
            injection h with h; injection h with h1 h2; subst h1; subst h2
            refine ⟨t1, rfl, hinv.1, ?_⟩
            intro t' r' lv' ra' op' he hb'
            cases he
            rw [hb] at hb'; cases hb'
            exact hl
          · simp only [hl, if_false] at h
            obtain ⟨htk, hlv, hra⟩ := binInfo_inv hb
            cases h1 : parseExpr f (if ra = true then lv else lv + 1) tl with
            | none => rw [h1] at h; cases h
            | some p =>
              obtain ⟨rhs, r'⟩ := p
              rw [h1] at h
              have hnx : (if ra = true then lv else lv + 1) = nxt op := by
                rw [hlv, hra]; rfl
              rw [hnx] at h1
              obtain ⟨ty, hty, hrepy, hoky⟩ := ihE _ _ _ _ h1
              have hx : Rep (lnx op) lhs t1 := hinv.2 tk tl lv ra op rfl hb (by omega)
              have hinv' : LoopInv m (.bin op lhs rhs) (t1 ++ opTok op :: ty) r' := by
                refine ⟨.bin m op lhs rhs t1 ty (by omega) hx hrepy, ?_⟩
                intro tk2 tl2 lv2 ra2 op2 he2 hb2 _
                have h2 := hoky tk2 tl2 lv2 ra2 op2 he2 hb2
                obtain ⟨_, hlv2, _⟩ := binInfo_inv hb2
                refine .bin _ op lhs rhs t1 ty ?_ hx hrepy
                subst hlv2
                revert h2
                cases op <;> cases op2 <;> simp [nxt, lnx, lvl, rassoc]
              obtain ⟨t0, ht0, hrep0, hok0⟩ := ihL _ _ _ _ _ h _ hinv'
              refine ⟨t0, ?_, hrep0, hok0⟩
              rw [← ht0, hty, htk]; simp

/-- the parser accepts exactly the representations: `Rep 0` IS the parser's language -/
theorem parse_iff_rep (t : List Tok) (a : Ast) : parse t = some a ↔ Rep 0 a t := by
  constructor
  · intro h
    unfold parse at h
    cases h1 : parseExpr (4 * t.length + 4) 0 t with
    | none => rw [h1] at h; cases h
    | some p =>
      obtain ⟨e, r⟩ := p
      rw [h1] at h
      cases r with
      | cons _ _ => cases h
      | nil =>
        injection h with h; subst h
        obtain ⟨t0, ht, hrep, _⟩ := (parse_sound_step _).2.1 _ _ _ _ h1
        rw [List.append_nil] at ht
        rw [ht]; exact hrep
  · exact Rep.parse_eq

/-! ### the two printers -/

/-- printer with MINIMAL parentheses at context level `l`: a binary node is parenthesised iff its
    level is below `l`; its left operand is printed at level `lnx op` (same level allowed for the
    left-associative operators, strictly higher for the right-associative `|`), its right operand at
    `nxt op` (strictly higher level for left-associative operators); the operand of unary minus
    at level 4 (every binary node parenthesised, nested minus / literals / names bare). -/
def toksP : Nat → Ast → List Tok
  | _, .num n => [.num n]
  | _, .name s => [.ident s]
  | _, .neg e => .minus :: toksP 4 e
  | l, .bin op x y =>
    if lvl op < l then .lpar :: (toksP (lnx op) x ++ opTok op :: toksP (nxt op) y) ++ [.rpar]
    else toksP (lnx op) x ++ opTok op :: toksP (nxt op) y

def toks (a : Ast) : List Tok := toksP 0 a

/-- parenthesise a compound (non-literal, non-name) expression -/
def wrap (a : Ast) (t : List Tok) : List Tok :=
  match a with
  | .num _ => t
  | .name _ => t
  | _ => .lpar :: t ++ [.rpar]

/-- printer that parenthesises every compound sub-expression -/
def toksFull : Ast → List Tok
  | .num n => [.num n]
  | .name s => [.ident s]
  | .neg e => .minus :: wrap e (toksFull e)
  | .bin op x y => wrap x (toksFull x) ++ opTok op :: wrap y (toksFull y)

theorem rep_toksP (a : Ast) : ∀ l, Rep l a (toksP l a) := by
  induction a with
  | num n => intro l; exact .num l n
  | name s => intro l; exact .name l s
  | neg e ih => intro l; exact .neg l e _ (ih 4)
  | bin op x y ihx ihy =>
    intro l
    have h0 : Rep 0 (.bin op x y) (toksP (lnx op) x ++ opTok op :: toksP (nxt op) y) :=
      .bin 0 op x y _ _ (Nat.zero_le _) (ihx _) (ihy _)
    unfold toksP
    split
    · exact .paren l _ _ h0
    · exact .bin l op x y _ _ (by omega) (ihx _) (ihy _)

theorem rep_toksFull (a : Ast) : Rep 0 a (toksFull a) ∧ ∀ l, Rep l a (wrap a (toksFull a)) := by
  induction a with
  | num n => exact ⟨.num 0 n, fun l => .num l n⟩
  | name s => exact ⟨.name 0 s, fun l => .name l s⟩
  | neg e ih =>
    have h0 : Rep 0 (.neg e) (toksFull (.neg e)) := .neg 0 e _ (ih.2 4)
    exact ⟨h0, fun l => .paren l _ _ h0⟩
  | bin op x y ihx ihy =>
    have h0 : Rep 0 (.bin op x y) (toksFull (.bin op x y)) :=
      .bin 0 op x y _ _ (Nat.zero_le _) (ihx.2 _) (ihy.2 _)
    exact ⟨h0, fun l => .paren l _ _ h0⟩

/-- What the token language cannot express: nothing.  `Ast.num` and `Tok.num` both carry a `Nat`
    (a negative constant is `Ast.neg (.num n)`, printed with unary minus) and `Ast.name` /
    `Tok.ident` both carry an arbitrary `String`, so at token level every tree is printable. -/
def printable (_ : Ast) : Prop := True

theorem parse_toks (a : Ast) (_h : printable a) : parse (toks a) = some a :=
  (rep_toksP a 0).parse_eq

theorem parse_toksFull (a : Ast) (_h : printable a) : parse (toksFull a) = some a :=
  (rep_toksFull a).1.parse_eq

/-- also with the outermost parentheses -/
theorem parse_wrap_toksFull (a : Ast) : parse (wrap a (toksFull a)) = some a :=
  ((rep_toksFull a).2 0).parse_eq

/-- parse-then-evaluate on tokens (the tail of `evalText` after tokenizing) -/
def evalToks (env : String → Option Int) (t : List Tok) : Outcome :=
  match parse t with
  | none => .syntaxError
  | some e => match eval env e with
    | .ok v => .value v
    | .error x => .evalError x

/-- outcome of evaluating a tree -/
def evalAst (env : String → Option Int) (a : Ast) : Outcome :=
  match eval env a with
  | .ok v => .value v
  | .error x => .evalError x

theorem evalText_eq_evalToks (octal : Bool) (env : String → Option Int) (s : String) :
    evalText octal env s =
      match tokenize octal s with
      | none => .syntaxError
      | some t => if octal && t.contains .bar then .syntaxError else evalToks env t := by
  unfold evalText evalToks
  rfl

/-- any way of writing `a` (any redundant grouping) evaluates to the value of `a` -/
theorem Rep.evalToks_eq {a : Ast} {t : List Tok} (h : Rep 0 a t) (env : String → Option Int) :
    evalToks env t = evalAst env a := by
  unfold evalToks evalAst
  rw [h.parse_eq]

theorem evalToks_toks (env : String → Option Int) (a : Ast) :
    evalToks env (toks a) = evalAst env a := (rep_toksP a 0).evalToks_eq env

theorem evalToks_toksFull (env : String → Option Int) (a : Ast) :
    evalToks env (toksFull a) = evalAst env a := (rep_toksFull a).1.evalToks_eq env

theorem eval_grouping (env : String → Option Int) (a : Ast) (_h : printable a) :
    evalToks env (toks a) = evalToks env (toksFull a) := by
  rw [evalToks_toks, evalToks_toksFull]

/-- two texts with the same tokens (differing only in spacing) have the same outcome -/
theorem evalText_spacing (octal : Bool) (env : String → Option Int) (s₁ s₂ : String)
    (h : tokenize octal s₁ = tokenize octal s₂) : evalText octal env s₁ = evalText octal env s₂ := by
  unfold evalText
  rw [h]

/-! ### the parser is left-associative on levels 1-3, and the printer's parentheses are needed -/

-- `1 - 2 - 3` is `(1 - 2) - 3`
example : parse [.num 1, .minus, .num 2, .minus, .num 3]
    = some (.bin .sub (.bin .sub (.num 1) (.num 2)) (.num 3)) := by decide
-- `8 / 4 * 2` is `(8 / 4) * 2`
example : parse [.num 8, .slash, .num 4, .star, .num 2]
    = some (.bin .mul (.bin .div (.num 8) (.num 4)) (.num 2)) := by decide
-- `1 << 2 >> 3` is `(1 << 2) >> 3`
example : parse [.num 1, .shl, .num 2, .shr, .num 3]
    = some (.bin .shr (.bin .shl (.num 1) (.num 2)) (.num 3)) := by decide
-- calc's `|` (no precedence entry: level 0) is right-associative: `1 | 2 | 3` is `1 | (2 | 3)`
example : parse [.num 1, .bar, .num 2, .bar, .num 3]
    = some (.bin .bor (.num 1) (.bin .bor (.num 2) (.num 3))) := by decide
-- the printer on a right-nested same-level tree keeps the parentheses ...
example : toks (.bin .sub (.num 1) (.bin .sub (.num 2) (.num 3)))
    = [.num 1, .minus, .lpar, .num 2, .minus, .num 3, .rpar] := by decide
-- ... and on the left-nested one emits none
example : toks (.bin .sub (.bin .sub (.num 1) (.num 2)) (.num 3))
    = [.num 1, .minus, .num 2, .minus, .num 3] := by decide
example : toks (.bin .bor (.bin .bor (.num 1) (.num 2)) (.num 3))
    = [.lpar, .num 1, .bar, .num 2, .rpar, .bar, .num 3] := by decide
example : toks (.bin .bor (.num 1) (.bin .bor (.num 2) (.num 3)))
    = [.num 1, .bar, .num 2, .bar, .num 3] := by decide
-- unary minus: operand parenthesised iff it is a binary node
example : toks (.neg (.bin .shl (.neg (.neg (.num 1))) (.name "x")))
    = [.minus, .lpar, .minus, .minus, .num 1, .shl, .ident "x", .rpar] := by decide
example : toksFull (.neg (.bin .shl (.neg (.neg (.num 1))) (.name "x")))
    = [.minus, .lpar, .lpar, .minus, .lpar, .minus, .num 1, .rpar, .rpar, .shl, .ident "x", .rpar] := by
  decide

end Expr
end Prophy

#print axioms Prophy.Expr.parseExpr_mono
#print axioms Prophy.Expr.Rep.parseExpr_append
#print axioms Prophy.Expr.Rep.parse_eq
#print axioms Prophy.Expr.parse_iff_rep
#print axioms Prophy.Expr.parse_toksFull
#print axioms Prophy.Expr.eval_grouping
#print axioms Prophy.Expr.parse_toks

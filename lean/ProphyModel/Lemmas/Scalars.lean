/- little-endian byte lists, two's complement, pack/unpack -/
import ProphyModel.Py
namespace Prophy

theorem leVal_leBytes (k n : Nat) : leVal (leBytes k n) = n % 256 ^ k := by
  induction k generalizing n with
  | zero => simp [leBytes, leVal, Nat.mod_one]
  | succ k ih =>
    simp only [leBytes, leVal, ih]
    have h : (UInt8.ofNat (n % 256)).toNat = n % 256 := by
      simp [UInt8.toNat_ofNat']
    rw [h, Nat.pow_succ, Nat.mul_comm (256 ^ k) 256, Nat.mod_mul]

theorem scalarVal_scalarBytes (e : Endian) (k n : Nat) : scalarVal e (scalarBytes e k n) = n % 256 ^ k := by
  cases e <;> simp [scalarVal, scalarBytes, leVal_leBytes]

theorem toUnsigned_lt (k : Nat) (i : Int) : toUnsigned k i < 256 ^ k := by
  unfold toUnsigned
  have hpos : (0 : Int) < ((256 ^ k : Nat) : Int) := by
    have : 0 < 256 ^ k := Nat.pow_pos (by decide)
    omega
  have h1 := Int.emod_lt_of_pos i hpos
  have h0 := Int.emod_nonneg i (Int.ne_of_gt hpos)
  omega

theorem toSigned_toUnsigned (k : Nat) (i : Int)
    (hlo : -((256 ^ k / 2 : Nat) : Int) ≤ i) (hhi : i ≤ ((256 ^ k / 2 : Nat) : Int) - 1) (hk : 0 < k) :
    toSigned k (toUnsigned k i) = i := by
  have heven : 256 ^ k = 2 * (256 ^ k / 2) := by
    obtain ⟨j, rfl⟩ : ∃ j, k = j + 1 := ⟨k - 1, by omega⟩
    rw [Nat.pow_succ]; omega
  generalize hM : 256 ^ k / 2 = H at *
  unfold toSigned toUnsigned
  rw [heven]
  by_cases hneg : i < 0
  · have : i % ((2 * H : Nat) : Int) = i + (2 * H : Nat) := by
      rw [← Int.add_emod_right i ((2 * H : Nat) : Int)]
      exact Int.emod_eq_of_lt (by omega) (by omega)
    rw [this]
    split <;> omega
  · have : i % ((2 * H : Nat) : Int) = i := Int.emod_eq_of_lt (by omega) (by omega)
    rw [this]
    split <;> omega

theorem toUnsigned_nonneg (k : Nat) (i : Int) (h0 : 0 ≤ i) (h1 : i ≤ ((256 ^ k : Nat) : Int) - 1) :
    ((toUnsigned k i : Nat) : Int) = i := by
  unfold toUnsigned
  have : i % ((256 ^ k : Nat) : Int) = i := Int.emod_eq_of_lt h0 (by omega)
  rw [this]; omega

namespace Py

theorem slice_mid (pre bs post : Bytes) : slice (pre ++ bs ++ post) pre.length bs.length = bs := by
  simp [slice, List.append_assoc]

theorem decScalar_pack (e : Endian) (p : Prim) (i : Int) (pre post bs : Bytes)
    (h : pack e p i = .ok bs) (hf : p.isFloat = false) :
    decScalar e p (pre ++ bs ++ post) pre.length = .ok (i, p.size) := by
  unfold pack at h
  generalize hr : primRange p = r at h
  obtain ⟨lo, hi⟩ := r
  simp only at h
  split at h
  · rename_i hin
    injection h with h
    subst h
    have hlen : (scalarBytes e p.size (toUnsigned p.size i)).length = p.size := scalarBytes_length _ _ _
    unfold decScalar
    have hguard : ¬ (((pre ++ scalarBytes e p.size (toUnsigned p.size i) ++ post).length : Int) - (pre.length : Int) < (p.size : Int)) := by
      simp [List.length_append, hlen]; omega
    rw [if_neg hguard]
    have hs := slice_mid pre (scalarBytes e p.size (toUnsigned p.size i)) post
    rw [hlen] at hs
    simp only [bind, Except.bind, hs, unpack, hlen, if_true, scalarVal_scalarBytes, pure, Except.pure]
    rw [Nat.mod_eq_of_lt (toUnsigned_lt _ _)]
    unfold primRange at hr
    rw [hf] at hr
    simp only [Bool.false_eq_true, if_false] at hr
    by_cases hs : p.isSigned = true
    · rw [hs] at hr
      simp only [if_true] at hr
      injection hr with h1 h2
      subst h1; subst h2
      have hk : 0 < p.size := by cases p <;> simp [Prim.size]
      simp only [hs, if_true]
      rw [toSigned_toUnsigned p.size i hin.1 hin.2 hk]
    · have hs' : p.isSigned = false := by simpa using hs
      rw [hs'] at hr
      simp only [Bool.false_eq_true, if_false] at hr
      injection hr with h1 h2
      subst h1; subst h2
      simp only [hs', Bool.false_eq_true, if_false]
      rw [toUnsigned_nonneg p.size i hin.1 hin.2]
  · exact absurd h (by simp)

end Py
end Prophy

namespace Prophy.Py

theorem slice_length (data : Bytes) (pos n : Nat) (h : pos + n ≤ data.length) : (slice data pos n).length = n := by
  simp [slice]; omega

theorem decScalar_total (e : Endian) (p : Prim) (data : Bytes) (pos : Nat) :
    (∃ r, decScalar e p data pos = .ok r) ∨ decScalar e p data pos = .error .prophy := by
  unfold decScalar
  split
  · right; rfl
  · rename_i h
    left
    have hl : (slice data pos p.size).length = p.size := slice_length data pos p.size (by omega)
    simp [unpack, hl, bind, Except.bind, pure, Except.pure]

theorem decSizer_le_guard (e : Endian) (p : Prim) (shift : Nat) (data : Bytes) (pos : Nat) (c sz : Nat)
    (h : decSizer e p shift data pos = .ok (c, sz)) : c ≤ arrayGuard := by
  unfold decSizer at h
  cases hd : decScalar e p data pos with
  | error x => simp [hd, bind, Except.bind] at h
  | ok r =>
    obtain ⟨v, s⟩ := r
    simp only [hd, bind, Except.bind] at h
    split at h
    · simp at h
    · split at h
      · simp at h
      · simp only [pure, Except.pure] at h
        injection h with h
        injection h with h1 h2
        omega

/-- the bound of `decSizer_le_guard` is tight and is a bound on the element count, not on the raw counter (repair D141):
    with `shift = 2` the raw counter 65538 gives 65536 elements, 65539 is refused by the guard, 1 is below the shift -/
example : (match decSizer .little .u32 2 [2, 0, 1, 0] 0 with | .ok (c, sz) => c == 65536 && sz == 4 | _ => false) = true := by decide
example : (match decSizer .little .u32 2 [3, 0, 1, 0] 0 with | .error .prophy => true | _ => false) = true := by decide
example : (match decSizer .little .u32 2 [1, 0, 0, 0] 0 with | .error .prophy => true | _ => false) = true := by decide

end Prophy.Py

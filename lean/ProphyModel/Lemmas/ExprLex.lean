/-
  Character-level facts about the lexer of constant expressions (`Expr.lex`, `Expr.tokenize`), for C14.

  `lexHead` is one step of the lexer (what the first character and its run become, and what is left);
  `lex_succ_cons` says `lex` is the iteration of `lexHead`.  Everything else is proved about `lexHead`
  and lifted by induction on the fuel.
-/
import ProphyModel.Expr
namespace Prophy
namespace Expr

/-! ### one step of the lexer -/

/-- the hexadecimal literal after `0x` -/
def numHex (r' : List Char) : Option (Option Tok × List Char) :=
  let (ds, rest) := takeWhileAcc (fun d => (hexVal? d).isSome) r' []
  if ds.isEmpty then none else some (some (Tok.num (digitsVal 16 ds)), rest)

/-- the decimal / octal literal starting with the digit `c` -/
def numDec (octal : Bool) (c : Char) (r : List Char) : Option (Option Tok × List Char) :=
  let (ds, rest) := takeWhileAcc Char.isDigit (c :: r) []
  if octal && c == '0' && ds.length > 1 then
    if ds.all (fun d => '0' ≤ d ∧ d ≤ '7') then some (some (Tok.num (digitsVal 8 ds)), rest)
    else none
  else some (some (Tok.num (digitsVal 10 ds)), rest)

/-- one step of `lex` on `c :: r`: `none` = lexical error; `some (none, rest)` = blank skipped;
    `some (some t, rest)` = token `t` read, `rest` left -/
def lexHead (octal : Bool) (c : Char) (r : List Char) : Option (Option Tok × List Char) :=
    if c == ' ' || c == '\t' then some (none, r)
    else if c == '+' then some (some Tok.plus, r)
    else if c == '-' then some (some Tok.minus, r)
    else if c == '*' then some (some Tok.star, r)
    else if c == '/' then some (some Tok.slash, r)
    else if c == '|' then some (some Tok.bar, r)
    else if c == '(' then some (some Tok.lpar, r)
    else if c == ')' then some (some Tok.rpar, r)
    else if c == '<' then
      match r with
      | '<' :: r' => some (some Tok.shl, r')
      | _ => none
    else if c == '>' then
      match r with
      | '>' :: r' => some (some Tok.shr, r')
      | _ => none
    else if c.isDigit then
      match c, r with
      | '0', 'x' :: r' => numHex r'
      | _, _ => numDec octal c r
    else if isIdStart c then
      let (cs, rest) := takeWhileAcc isIdChar (c :: r) []
      some (some (Tok.ident (String.ofList cs)), rest)
    else none

/-- how `lex` continues after one step -/
def lexCont (rec : List Char → Option (List Tok)) : Option (Option Tok × List Char) → Option (List Tok)
  | none => none
  | some (none, rest) => rec rest
  | some (some t, rest) => (rec rest).map (t :: ·)

theorem match0x_neg_p22 {α : Type} (c : Char) (r : List Char) (A : List Char → α) (B : α) :
    (match c, r with
      | '0', 'x' :: r' => A r'
      | _, _ => B) = B ∨ ∃ r', c = '0' ∧ r = 'x' :: r' := by
  split
  · exact Or.inr ⟨_, rfl, rfl⟩
  · exact Or.inl rfl

theorem lex_zero_p22 (octal : Bool) (cs : List Char) : lex octal 0 cs = none := by
  unfold lex; rfl

theorem lex_succ_nil_p22 (octal : Bool) (n : Nat) : lex octal (n + 1) [] = some [] := by
  unfold lex; rfl

theorem lex_succ_cons (octal : Bool) (fuel : Nat) (c : Char) (r : List Char) :
    lex octal (fuel + 1) (c :: r) = lexCont (lex octal fuel) (lexHead octal c r) := by
  conv => lhs; unfold lex
  unfold lexHead
  by_cases h0 : (c == ' ' || c == '\t') = true
  · rw [if_pos h0, if_pos h0]; first | rfl | (split <;> first | rfl | (split <;> first | rfl | (exfalso; rename_i hx; exact hx _ rfl))) | skip
  rw [if_neg h0, if_neg h0]
  by_cases h1 : (c == '+') = true
  · rw [if_pos h1, if_pos h1]; first | rfl | (split <;> first | rfl | (split <;> first | rfl | (exfalso; rename_i hx; exact hx _ rfl))) | skip
  rw [if_neg h1, if_neg h1]
  by_cases h2 : (c == '-') = true
  · rw [if_pos h2, if_pos h2]; first | rfl | (split <;> first | rfl | (split <;> first | rfl | (exfalso; rename_i hx; exact hx _ rfl))) | skip
  rw [if_neg h2, if_neg h2]
  by_cases h3 : (c == '*') = true
  · rw [if_pos h3, if_pos h3]; first | rfl | (split <;> first | rfl | (split <;> first | rfl | (exfalso; rename_i hx; exact hx _ rfl))) | skip
  rw [if_neg h3, if_neg h3]
  by_cases h4 : (c == '/') = true
  · rw [if_pos h4, if_pos h4]; first | rfl | (split <;> first | rfl | (split <;> first | rfl | (exfalso; rename_i hx; exact hx _ rfl))) | skip
  rw [if_neg h4, if_neg h4]
  by_cases h5 : (c == '|') = true
  · rw [if_pos h5, if_pos h5]; first | rfl | (split <;> first | rfl | (split <;> first | rfl | (exfalso; rename_i hx; exact hx _ rfl))) | skip
  rw [if_neg h5, if_neg h5]
  by_cases h6 : (c == '(') = true
  · rw [if_pos h6, if_pos h6]; first | rfl | (split <;> first | rfl | (split <;> first | rfl | (exfalso; rename_i hx; exact hx _ rfl))) | skip
  rw [if_neg h6, if_neg h6]
  by_cases h7 : (c == ')') = true
  · rw [if_pos h7, if_pos h7]; first | rfl | (split <;> first | rfl | (split <;> first | rfl | (exfalso; rename_i hx; exact hx _ rfl))) | skip
  rw [if_neg h7, if_neg h7]
  by_cases h8 : (c == '<') = true
  · rw [if_pos h8, if_pos h8]; first | rfl | (split <;> first | rfl | (split <;> first | rfl | (exfalso; rename_i hx; exact hx _ rfl))) | skip
  rw [if_neg h8, if_neg h8]
  by_cases h9 : (c == '>') = true
  · rw [if_pos h9, if_pos h9]; first | rfl | (split <;> first | rfl | (split <;> first | rfl | (exfalso; rename_i hx; exact hx _ rfl))) | skip
  rw [if_neg h9, if_neg h9]
  by_cases h10 : c.isDigit = true
  · rw [if_pos h10, if_pos h10]; first | rfl | (split <;> first | rfl | (split <;> first | rfl | (exfalso; rename_i hx; exact hx _ rfl))) | skip
    split
    · rename_i r'
      show _ = lexCont (lex octal fuel) (numHex r')
      unfold numHex
      cases takeWhileAcc (fun d => (hexVal? d).isSome) r' [] with
      | mk ds rest => dsimp only; split <;> rfl
    · rename_i hx
      have hR := (match0x_neg_p22 c r numHex (numDec octal c r)).resolve_right
        (fun ⟨r', h1, h2⟩ => hx r' h1 h2)
      rw [hR]
      unfold numDec
      cases takeWhileAcc Char.isDigit (c :: r) [] with
      | mk ds rest =>
        dsimp only
        split
        · split <;> rfl
        · rfl
  rw [if_neg h10, if_neg h10]
  by_cases h11 : isIdStart c = true
  · rw [if_pos h11, if_pos h11]; first | rfl | (split <;> first | rfl | (split <;> first | rfl | (exfalso; rename_i hx; exact hx _ rfl))) | skip
  rw [if_neg h11, if_neg h11]
  rfl

theorem isDigit_ascii_p22 (c : Char) (h : c.isDigit = true) : c.val < 128 := by
  simp [Char.isDigit] at h
  have := h.2
  rw [UInt32.le_iff_toNat_le] at this
  rw [UInt32.lt_iff_toNat_lt]
  have e : (57 : UInt32).toNat = 57 := by decide
  have e2 : (128 : UInt32).toNat = 128 := by decide
  omega

theorem isIdChar_ascii_p22 (c : Char) (h : isIdChar c = true) : c.val < 128 := by
  simp [isIdChar, Char.isAlphanum, Char.isAlpha, Char.isUpper, Char.isLower, Char.isDigit] at h
  rw [UInt32.lt_iff_toNat_lt]
  simp only [UInt32.le_iff_toNat_le] at h
  have e2 : (128 : UInt32).toNat = 128 := by decide
  have e3 : (90 : UInt32).toNat = 90 := by decide
  have e4 : (122 : UInt32).toNat = 122 := by decide
  have e5 : (57 : UInt32).toNat = 57 := by decide
  rcases h with ((h | h) | h) | h
  all_goals first | omega | (subst h; decide)

theorem hex_ascii_p22 (c : Char) (h : (hexVal? c).isSome = true) : c.val < 128 := by
  unfold hexVal? at h
  simp only [Char.le_def] at h
  rw [UInt32.lt_iff_toNat_lt]
  simp only [UInt32.le_iff_toNat_le] at h
  have e2 : (128 : UInt32).toNat = 128 := by decide
  split at h
  · rename_i h1; have : ('9' : Char).val.toNat = 57 := by decide
    omega
  split at h
  · rename_i h1; have : ('f' : Char).val.toNat = 102 := by decide
    omega
  split at h
  · rename_i h1; have : ('F' : Char).val.toNat = 70 := by decide
    omega
  simp at h

/-! ### runs -/

theorem takeWhileAcc_eq_p22 (p : Char → Bool) : ∀ (l acc : List Char),
    takeWhileAcc p l acc = (acc.reverse ++ l.takeWhile p, l.dropWhile p)
  | [], acc => by simp [takeWhileAcc]
  | c :: r, acc => by
    unfold takeWhileAcc
    by_cases h : p c = true
    · rw [if_pos h, takeWhileAcc_eq_p22 p r (c :: acc)]
      simp [h]
    · rw [if_neg h]
      simp [h]

theorem dropWhile_head_p22 (p : Char → Bool) : ∀ (l : List Char) (x : Char),
    (l.dropWhile p).head? = some x → p x = false
  | [], x, h => by simp at h
  | c :: r, x, h => by
    rw [List.dropWhile_cons] at h
    by_cases hc : p c = true
    · rw [if_pos hc] at h; exact dropWhile_head_p22 p r x h
    · rw [if_neg hc] at h; simp at h; subst h; simpa using hc

theorem takeWhile_all_p22 (p : Char → Bool) : ∀ (l : List Char) (x : Char), x ∈ l.takeWhile p → p x = true
  | [], x, h => by simp at h
  | c :: r, x, h => by
    rw [List.takeWhile_cons] at h
    by_cases hc : p c = true
    · rw [if_pos hc] at h
      rcases List.mem_cons.mp h with h | h
      · subst h; exact hc
      · exact takeWhile_all_p22 p r x h
    · rw [if_neg hc] at h; simp at h

/-- what a run read by `takeWhileAcc` looks like -/
theorem run_spec_p22 (p : Char → Bool) (l ds rest : List Char) (hw : takeWhileAcc p l [] = (ds, rest)) :
    l = ds ++ rest ∧ (∀ x ∈ ds, p x = true) ∧ (∀ x, rest.head? = some x → p x = false) := by
  rw [takeWhileAcc_eq_p22] at hw
  simp only [List.reverse_nil, List.nil_append, Prod.mk.injEq] at hw
  obtain ⟨rfl, rfl⟩ := hw
  exact ⟨List.takeWhile_append_dropWhile.symm, takeWhile_all_p22 p l, dropWhile_head_p22 p l⟩

theorem run_ne_nil_p22 (p : Char → Bool) (c : Char) (r ds rest : List Char) (hc : p c = true)
    (hw : takeWhileAcc p (c :: r) [] = (ds, rest)) : ∃ ds', ds = c :: ds' ∧ r = ds' ++ rest := by
  rw [takeWhileAcc_eq_p22] at hw
  simp only [List.reverse_nil, List.nil_append, Prod.mk.injEq, List.takeWhile_cons, List.dropWhile_cons, hc,
    if_true] at hw
  obtain ⟨rfl, rfl⟩ := hw
  exact ⟨_, rfl, List.takeWhile_append_dropWhile.symm⟩

/-! ### leading-zero literals, defined on the text alone -/

/-- `hlz prev cs`: somewhere in `cs` there is a `'0'` followed by a decimal digit and not preceded by an
    identifier character; `prev` says whether the character before `cs` is an identifier character -/
def hlz : Bool → List Char → Bool
  | _, [] => false
  | prev, c :: r =>
    (!prev && c == '0' && (match r with
      | d :: _ => d.isDigit
      | [] => false)) || hlz (isIdChar c) r

/-- the regular expression `(?<![A-Za-z0-9_])0[0-9]` matches somewhere in the text -/
def hasLeadingZero (cs : List Char) : Bool := hlz false cs

theorem hlz_cons_p22 (b : Bool) (c : Char) (r : List Char) (h : hlz b (c :: r) = false) :
    hlz (isIdChar c) r = false := by
  unfold hlz at h
  simp only [Bool.or_eq_false_iff] at h
  exact h.2

/-- the flag matters only when the text starts with `'0'` -/
theorem hlz_flag_p22 (b b' : Bool) (cs : List Char) (hh : ∀ x, cs.head? = some x → x ≠ '0') :
    hlz b cs = hlz b' cs := by
  cases cs with
  | nil => rfl
  | cons c r =>
    have : (c == '0') = false := by
      have := hh c rfl
      simpa using this
    unfold hlz
    simp [this]

theorem hlz_append_p22 : ∀ (pre : List Char) (b b' : Bool) (rest : List Char),
    hlz b (pre ++ rest) = false → (∀ x, rest.head? = some x → x ≠ '0') → hlz b' rest = false
  | [], b, b', rest, h, hh => by rw [hlz_flag_p22 b' b rest hh]; exact h
  | c :: pre, b, b', rest, h, hh => hlz_append_p22 pre _ b' rest (hlz_cons_p22 b c (pre ++ rest) h) hh

theorem hlz_append_sep_p22 : ∀ (pre : List Char) (b : Bool) (x : Char) (rest : List Char),
    hlz b (pre ++ x :: rest) = false → isIdChar x = false → hlz false rest = false
  | [], b, x, rest, h, hx => by
    have := hlz_cons_p22 b x rest h
    rwa [hx] at this
  | c :: pre, b, x, rest, h, hx => hlz_append_sep_p22 pre _ x rest (hlz_cons_p22 b c _ h) hx

/-! ### what one step consumes -/

/-- the consumed prefix and the rest are separated: the rest does not start with `'0'`, or the prefix ends
    with a character that is not an identifier character -/
def Sep (pre rest : List Char) : Prop :=
  (∀ x, rest.head? = some x → x ≠ '0') ∨ ∃ pre' x, pre = pre' ++ [x] ∧ isIdChar x = false

theorem one_char_p22 (c : Char) (r : List Char) (ha : c.val < 128) (hi : isIdChar c = false) :
    ∃ pre, c :: r = pre ++ r ∧ pre ≠ [] ∧ (∀ x ∈ pre, x.val < 128) ∧ Sep pre r :=
  ⟨[c], rfl, by simp, by intro x hx; simp at hx; subst hx; exact ha, Or.inr ⟨[], c, rfl, hi⟩⟩

theorem lexHead_spec (octal : Bool) (c : Char) (r : List Char) (ot : Option Tok) (rest : List Char)
    (h : lexHead octal c r = some (ot, rest)) :
    ∃ pre, c :: r = pre ++ rest ∧ pre ≠ [] ∧ (∀ x ∈ pre, x.val < 128) ∧ Sep pre rest := by
  unfold lexHead at h
  by_cases h0 : (c == ' ' || c == '\t') = true
  · rw [if_pos h0] at h; cases h
    simp only [Bool.or_eq_true, beq_iff_eq] at h0
    apply one_char_p22
    · rcases h0 with h0 | h0 <;> subst h0 <;> decide
    · rcases h0 with h0 | h0 <;> subst h0 <;> decide
  rw [if_neg h0] at h
  by_cases h1 : (c == '+') = true
  · rw [if_pos h1] at h; cases h
    simp only [beq_iff_eq] at h1
    apply one_char_p22
    · subst h1; decide
    · subst h1; decide
  rw [if_neg h1] at h
  by_cases h2 : (c == '-') = true
  · rw [if_pos h2] at h; cases h
    simp only [beq_iff_eq] at h2
    apply one_char_p22
    · subst h2; decide
    · subst h2; decide
  rw [if_neg h2] at h
  by_cases h3 : (c == '*') = true
  · rw [if_pos h3] at h; cases h
    simp only [beq_iff_eq] at h3
    apply one_char_p22
    · subst h3; decide
    · subst h3; decide
  rw [if_neg h3] at h
  by_cases h4 : (c == '/') = true
  · rw [if_pos h4] at h; cases h
    simp only [beq_iff_eq] at h4
    apply one_char_p22
    · subst h4; decide
    · subst h4; decide
  rw [if_neg h4] at h
  by_cases h5 : (c == '|') = true
  · rw [if_pos h5] at h; cases h
    simp only [beq_iff_eq] at h5
    apply one_char_p22
    · subst h5; decide
    · subst h5; decide
  rw [if_neg h5] at h
  by_cases h6 : (c == '(') = true
  · rw [if_pos h6] at h; cases h
    simp only [beq_iff_eq] at h6
    apply one_char_p22
    · subst h6; decide
    · subst h6; decide
  rw [if_neg h6] at h
  by_cases h7 : (c == ')') = true
  · rw [if_pos h7] at h; cases h
    simp only [beq_iff_eq] at h7
    apply one_char_p22
    · subst h7; decide
    · subst h7; decide
  rw [if_neg h7] at h
  by_cases h8 : (c == '<') = true
  · rw [if_pos h8] at h
    simp only [beq_iff_eq] at h8
    subst h8
    split at h
    · cases h
      rename_i r'
      exact ⟨['<', '<'], rfl, by simp, by intro x hx; simp at hx; subst hx; decide,
        Or.inr ⟨['<'], '<', rfl, by decide⟩⟩
    · cases h
  rw [if_neg h8] at h
  by_cases h9 : (c == '>') = true
  · rw [if_pos h9] at h
    simp only [beq_iff_eq] at h9
    subst h9
    split at h
    · cases h
      rename_i r'
      exact ⟨['>', '>'], rfl, by simp, by intro x hx; simp at hx; subst hx; decide,
        Or.inr ⟨['>'], '>', rfl, by decide⟩⟩
    · cases h
  rw [if_neg h9] at h
  by_cases h10 : c.isDigit = true
  · rw [if_pos h10] at h
    split at h
    · rename_i r'
      unfold numHex at h
      cases hw : takeWhileAcc (fun d => (hexVal? d).isSome) r' [] with
      | mk ds rest' =>
        rw [hw] at h
        dsimp only at h
        split at h
        · cases h
        · cases h
          obtain ⟨e, hall, hhead⟩ := run_spec_p22 _ _ _ _ hw
          refine ⟨'0' :: 'x' :: ds, by rw [e]; rfl, by simp, ?_, Or.inl ?_⟩
          · intro x hx
            rcases List.mem_cons.mp hx with hx | hx
            · subst hx; decide
            rcases List.mem_cons.mp hx with hx | hx
            · subst hx; decide
            exact hex_ascii_p22 x (hall x hx)
          · intro x hx e0
            subst e0
            have := hhead _ hx
            revert this; decide
    · unfold numDec at h
      cases hw : takeWhileAcc Char.isDigit (c :: r) [] with
      | mk ds rest' =>
        rw [hw] at h
        dsimp only at h
        obtain ⟨e, hall, hhead⟩ := run_spec_p22 _ _ _ _ hw
        obtain ⟨ds', e', -⟩ := run_ne_nil_p22 _ _ _ _ _ h10 hw
        have key : ∃ pre, c :: r = pre ++ rest' ∧ pre ≠ [] ∧ (∀ x ∈ pre, x.val < 128) ∧ Sep pre rest' := by
          refine ⟨ds, e, by rw [e']; simp, fun x hx => isDigit_ascii_p22 x (hall x hx), Or.inl ?_⟩
          intro x hx e0
          subst e0
          have := hhead _ hx
          revert this; decide
        split at h
        · split at h
          · cases h; exact key
          · cases h
        · cases h; exact key
  rw [if_neg h10] at h
  by_cases h11 : isIdStart c = true
  · rw [if_pos h11] at h
    have hc : isIdChar c = true := by
      simp only [isIdStart, isIdChar, Char.isAlphanum, Bool.or_eq_true] at h11 ⊢
      rcases h11 with h11 | h11
      · exact Or.inl (Or.inl h11)
      · exact Or.inr h11
    cases hw : takeWhileAcc isIdChar (c :: r) [] with
    | mk ds rest' =>
      rw [hw] at h
      dsimp only at h
      cases h
      obtain ⟨e, hall, hhead⟩ := run_spec_p22 _ _ _ _ hw
      obtain ⟨ds', e', -⟩ := run_ne_nil_p22 _ _ _ _ _ hc hw
      refine ⟨ds, e, by rw [e']; simp, fun x hx => isIdChar_ascii_p22 x (hall x hx), Or.inl ?_⟩
      intro x hx e0
      subst e0
      have := hhead _ hx
      revert this; decide
  rw [if_neg h11] at h
  cases h

theorem lexHead_length (octal : Bool) (c : Char) (r : List Char) (ot : Option Tok) (rest : List Char)
    (h : lexHead octal c r = some (ot, rest)) : rest.length ≤ r.length := by
  obtain ⟨pre, e, hne, -, -⟩ := lexHead_spec octal c r ot rest h
  have := congrArg List.length e
  simp only [List.length_cons, List.length_append] at this
  have : 0 < pre.length := List.length_pos_iff.mpr hne
  omega

theorem lexHead_hlz (octal : Bool) (c : Char) (r : List Char) (ot : Option Tok) (rest : List Char)
    (h : lexHead octal c r = some (ot, rest)) (b : Bool) (hz : hlz b (c :: r) = false) :
    hlz false rest = false := by
  obtain ⟨pre, e, -, -, hs⟩ := lexHead_spec octal c r ot rest h
  rw [e] at hz
  rcases hs with hs | ⟨pre', x, rfl, hx⟩
  · exact hlz_append_p22 pre b false rest hz hs
  · rw [List.append_assoc] at hz
    exact hlz_append_sep_p22 pre' b x rest hz hx

/-! ### item 1: the two lexers agree away from leading-zero literals -/

theorem numDec_agree_p22 (c : Char) (r : List Char)
    (h : ¬ (c = '0' ∧ ∃ d r', r = d :: r' ∧ d.isDigit = true)) : numDec true c r = numDec false c r := by
  unfold numDec
  cases hw : takeWhileAcc Char.isDigit (c :: r) [] with
  | mk ds rest =>
    dsimp only
    have hl : ¬ (c = '0' ∧ ds.length > 1) := by
      rintro ⟨rfl, hlen⟩
      rw [takeWhileAcc_eq_p22] at hw
      simp only [List.reverse_nil, List.nil_append, Prod.mk.injEq] at hw
      obtain ⟨rfl, -⟩ := hw
      have h0 : ('0' : Char).isDigit = true := by decide
      cases r with
      | nil => simp at hlen
      | cons d r' =>
        have hd : d.isDigit = false := by
          cases hd : d.isDigit with
          | false => rfl
          | true => exact (h ⟨rfl, d, r', rfl, hd⟩).elim
        simp [hd, h0] at hlen
    have e1 : (true && c == '0' && decide (ds.length > 1)) = false := by
      by_cases hc : c = '0'
      · have : ¬ ds.length > 1 := fun hlen => hl ⟨hc, hlen⟩
        simp [this]
      · simp [hc]
    rw [e1]
    simp

theorem lexHead_agree (c : Char) (r : List Char) (h : hlz false (c :: r) = false) :
    lexHead true c r = lexHead false c r := by
  have hd : numDec true c r = numDec false c r := by
    apply numDec_agree_p22
    rintro ⟨rfl, d, r', rfl, hd⟩
    unfold hlz at h
    simp [hd] at h
  unfold lexHead
  rw [hd]

theorem lex_agree (n : Nat) : ∀ (cs : List Char), hlz false cs = false → lex true n cs = lex false n cs := by
  induction n with
  | zero => intro cs _; rw [lex_zero_p22, lex_zero_p22]
  | succ n ih =>
    intro cs h
    cases cs with
    | nil => rw [lex_succ_nil_p22, lex_succ_nil_p22]
    | cons c r =>
      rw [lex_succ_cons, lex_succ_cons, lexHead_agree c r h]
      cases hh : lexHead false c r with
      | none => rfl
      | some p =>
        obtain ⟨ot, rest⟩ := p
        have := ih rest (lexHead_hlz false c r ot rest hh false h)
        cases ot <;> simp [lexCont, this]

/-! ### item 3: every character of an accepted text is ASCII -/

theorem lexCont_some_p22 (rec : List Char → Option (List Tok)) (ot : Option Tok) (rest : List Char)
    (t : List Tok) (h : lexCont rec (some (ot, rest)) = some t) : ∃ t', rec rest = some t' := by
  cases ot with
  | none => exact ⟨t, h⟩
  | some tk =>
    simp only [lexCont, Option.map_eq_some_iff] at h
    obtain ⟨t', h, -⟩ := h
    exact ⟨t', h⟩

theorem lex_ascii (octal : Bool) (n : Nat) : ∀ (cs : List Char) (t : List Tok), lex octal n cs = some t →
    ∀ c ∈ cs, c.val < 128 := by
  induction n with
  | zero => intro cs t h; rw [lex_zero_p22] at h; cases h
  | succ n ih =>
    intro cs t h
    cases cs with
    | nil => intro c hc; cases hc
    | cons c r =>
      rw [lex_succ_cons] at h
      cases hh : lexHead octal c r with
      | none => rw [hh] at h; cases h
      | some p =>
        obtain ⟨ot, rest⟩ := p
        rw [hh] at h
        obtain ⟨t', ht'⟩ := lexCont_some_p22 _ _ _ _ h
        obtain ⟨pre, e, -, ha, -⟩ := lexHead_spec octal c r ot rest hh
        rw [e]
        intro x hx
        rcases List.mem_append.mp hx with hx | hx
        · exact ha x hx
        · exact ih rest t' ht' x hx

/-! ### item 4: the fuel of `tokenize` is enough -/

theorem lex_fuel (octal : Bool) (n : Nat) : ∀ (m : Nat) (cs : List Char), cs.length < n → cs.length < m →
    lex octal n cs = lex octal m cs := by
  induction n with
  | zero => intro m cs h; omega
  | succ n ih =>
    intro m cs hn hm
    cases m with
    | zero => omega
    | succ m =>
      cases cs with
      | nil => rw [lex_succ_nil_p22, lex_succ_nil_p22]
      | cons c r =>
        rw [lex_succ_cons, lex_succ_cons]
        cases hh : lexHead octal c r with
        | none => rfl
        | some p =>
          obtain ⟨ot, rest⟩ := p
          have hl := lexHead_length octal c r ot rest hh
          simp only [List.length_cons] at hn hm
          have := ih m rest (by omega) (by omega)
          cases ot <;> simp [lexCont, this]

/-! ### item 2: a leading-zero literal standing alone -/

theorem run_all_p22 (p : Char → Bool) : ∀ (l : List Char), (∀ x ∈ l, p x = true) →
    l.takeWhile p = l ∧ l.dropWhile p = []
  | [], _ => ⟨rfl, rfl⟩
  | c :: r, h => by
    have hc : p c = true := h c (List.mem_cons_self ..)
    have := run_all_p22 p r (fun x hx => h x (List.mem_cons_of_mem _ hx))
    simp [hc, this]

/-- a digit that does not start `0x` starts a decimal / octal literal -/
theorem lexHead_digit_p22 (octal : Bool) (c : Char) (r : List Char) (hd : c.isDigit = true)
    (hx : ¬ ∃ r', c = '0' ∧ r = 'x' :: r') : lexHead octal c r = numDec octal c r := by
  have ne : ∀ x : Char, x.isDigit = false → (c == x) = false := by
    intro x hx
    cases hcx : c == x with
    | false => rfl
    | true =>
      have := eq_of_beq hcx
      subst this
      rw [hx] at hd
      cases hd
  unfold lexHead
  rw [(match0x_neg_p22 c r numHex (numDec octal c r)).resolve_right hx]
  simp [ne ' ' (by decide), ne '\t' (by decide), ne '+' (by decide), ne '-' (by decide), ne '*' (by decide),
    ne '/' (by decide), ne '|' (by decide), ne '(' (by decide), ne ')' (by decide), ne '<' (by decide),
    ne '>' (by decide), hd]

/-- `'0'` followed by decimal digits, standing alone: the prophy-language lexer reads it in base 8
    (and refuses it when a digit 8 or 9 occurs), calc reads it in base 10 -/
theorem lex_leading_zero (ds : List Char) (hne : ds ≠ []) (hd : ∀ d ∈ ds, d.isDigit = true) (n : Nat) :
    lex true (n + 2) ('0' :: ds) =
      (if ('0' :: ds).all (fun d => decide ('0' ≤ d ∧ d ≤ '7')) then some [Tok.num (digitsVal 8 ('0' :: ds))]
       else none) ∧
    lex false (n + 2) ('0' :: ds) = some [Tok.num (digitsVal 10 ('0' :: ds))] := by
  have h0 : ('0' : Char).isDigit = true := by decide
  have hx : ¬ ∃ r', ('0' : Char) = '0' ∧ ds = 'x' :: r' := by
    rintro ⟨r', -, rfl⟩
    have := hd 'x' (List.mem_cons_self ..)
    revert this; decide
  have hall : ∀ x ∈ '0' :: ds, x.isDigit = true := by
    intro x hx
    rcases List.mem_cons.mp hx with hx | hx
    · subst hx; exact h0
    · exact hd x hx
  have hrun : takeWhileAcc Char.isDigit ('0' :: ds) [] = ('0' :: ds, []) := by
    rw [takeWhileAcc_eq_p22]
    obtain ⟨e1, e2⟩ := run_all_p22 Char.isDigit ('0' :: ds) hall
    rw [e1, e2]; rfl
  have hlen : ('0' :: ds).length > 1 := by
    cases ds with
    | nil => exact (hne rfl).elim
    | cons d r => simp
  constructor
  · rw [lex_succ_cons, lexHead_digit_p22 true '0' ds h0 hx]
    unfold numDec
    rw [hrun]
    dsimp only
    have e1 : (true && ('0' : Char) == '0' && decide (('0' :: ds).length > 1)) = true := by
      simp only [decide_eq_true hlen]; rfl
    rw [if_pos e1]
    split
    · simp [lexCont, lex_succ_nil_p22]
    · rfl
  · rw [lex_succ_cons, lexHead_digit_p22 false '0' ds h0 hx]
    unfold numDec
    rw [hrun]
    simp [lexCont, lex_succ_nil_p22]

/-- the value read in base 8 is not the value read in base 10 (first digit after the zeros aside, e.g. `010`):
    here only the smallest instance, as a sanity check of `digitsVal` -/
example : digitsVal 8 ['0', '1', '0'] = 8 ∧ digitsVal 10 ['0', '1', '0'] = 10 := by decide

/-! ### item 5 (first part): blanks and tabs are skipped -/

theorem lexHead_blank_p22 (octal : Bool) (c : Char) (r : List Char) (h : c = ' ' ∨ c = '\t') :
    lexHead octal c r = some (none, r) := by
  unfold lexHead
  rcases h with rfl | rfl <;> rfl

theorem lex_blank_succ (octal : Bool) (n : Nat) (c : Char) (cs : List Char) (h : c = ' ' ∨ c = '\t') :
    lex octal (n + 1) (c :: cs) = lex octal n cs := by
  rw [lex_succ_cons, lexHead_blank_p22 octal c cs h]; rfl

theorem lex_blank (octal : Bool) (n m : Nat) (c : Char) (cs : List Char) (h : c = ' ' ∨ c = '\t')
    (hn : cs.length + 1 < n) (hm : cs.length < m) : lex octal n (c :: cs) = lex octal m cs := by
  cases n with
  | zero => omega
  | succ n => rw [lex_blank_succ octal n c cs h]; exact lex_fuel octal n m cs (by omega) hm

/-! ### `|` tokens come from `|` characters -/

theorem lexHead_bar_p22 (octal : Bool) (c : Char) (r : List Char) (rest : List Char)
    (h : lexHead octal c r = some (some Tok.bar, rest)) : c = '|' := by
  unfold lexHead at h
  by_cases h0 : (c == ' ' || c == '\t') = true
  · rw [if_pos h0] at h; cases h
  rw [if_neg h0] at h
  by_cases h1 : (c == '+') = true
  · rw [if_pos h1] at h; cases h
  rw [if_neg h1] at h
  by_cases h2 : (c == '-') = true
  · rw [if_pos h2] at h; cases h
  rw [if_neg h2] at h
  by_cases h3 : (c == '*') = true
  · rw [if_pos h3] at h; cases h
  rw [if_neg h3] at h
  by_cases h4 : (c == '/') = true
  · rw [if_pos h4] at h; cases h
  rw [if_neg h4] at h
  by_cases h5 : (c == '|') = true
  · simpa using h5
  rw [if_neg h5] at h
  by_cases h6 : (c == '(') = true
  · rw [if_pos h6] at h; cases h
  rw [if_neg h6] at h
  by_cases h7 : (c == ')') = true
  · rw [if_pos h7] at h; cases h
  rw [if_neg h7] at h
  by_cases h8 : (c == '<') = true
  · rw [if_pos h8] at h; split at h <;> cases h
  rw [if_neg h8] at h
  by_cases h9 : (c == '>') = true
  · rw [if_pos h9] at h; split at h <;> cases h
  rw [if_neg h9] at h
  by_cases h10 : c.isDigit = true
  · rw [if_pos h10] at h
    split at h
    · rename_i r'
      unfold numHex at h
      cases takeWhileAcc (fun d => (hexVal? d).isSome) r' [] with
      | mk ds rest' => dsimp only at h; split at h <;> cases h
    · unfold numDec at h
      cases takeWhileAcc Char.isDigit (c :: r) [] with
      | mk ds rest' =>
        dsimp only at h
        split at h
        · split at h <;> cases h
        · cases h
  rw [if_neg h10] at h
  by_cases h11 : isIdStart c = true
  · rw [if_pos h11] at h
    cases takeWhileAcc isIdChar (c :: r) [] with
    | mk ds rest' => cases h
  rw [if_neg h11] at h
  cases h

theorem lex_no_bar (octal : Bool) (n : Nat) : ∀ (cs : List Char) (t : List Tok), lex octal n cs = some t →
    '|' ∉ cs → Tok.bar ∉ t := by
  induction n with
  | zero => intro cs t h; rw [lex_zero_p22] at h; cases h
  | succ n ih =>
    intro cs t h hb
    cases cs with
    | nil => rw [lex_succ_nil_p22] at h; cases h; simp
    | cons c r =>
      rw [lex_succ_cons] at h
      cases hh : lexHead octal c r with
      | none => rw [hh] at h; cases h
      | some p =>
        obtain ⟨ot, rest⟩ := p
        rw [hh] at h
        obtain ⟨pre, e, -, -, -⟩ := lexHead_spec octal c r ot rest hh
        have hb' : '|' ∉ rest := by
          intro hm; apply hb; rw [e]; exact List.mem_append_right _ hm
        cases ot with
        | none => exact ih rest t h hb'
        | some tk =>
          simp only [lexCont, Option.map_eq_some_iff] at h
          obtain ⟨t', ht', rfl⟩ := h
          intro hm
          rcases List.mem_cons.mp hm with hm | hm
          · subst hm
            exact hb (by rw [lexHead_bar_p22 octal c r rest hh]; exact List.mem_cons_self ..)
          · exact ih rest t' ht' hb' hm

/-! ### more fuel never hurts -/

theorem lex_mono_succ (octal : Bool) (n : Nat) : ∀ (cs : List Char) (t : List Tok), lex octal n cs = some t →
    lex octal (n + 1) cs = some t := by
  induction n with
  | zero => intro cs t h; rw [lex_zero_p22] at h; cases h
  | succ n ih =>
    intro cs t h
    cases cs with
    | nil => rw [lex_succ_nil_p22] at h ⊢; exact h
    | cons c r =>
      rw [lex_succ_cons] at h ⊢
      cases hh : lexHead octal c r with
      | none => rw [hh] at h; cases h
      | some p =>
        obtain ⟨ot, rest⟩ := p
        rw [hh] at h
        cases ot with
        | none => exact ih rest t h
        | some tk =>
          simp only [lexCont, Option.map_eq_some_iff] at h ⊢
          obtain ⟨t', ht', e⟩ := h
          exact ⟨t', ih rest t' ht', e⟩

theorem lex_mono (octal : Bool) (n m : Nat) (cs : List Char) (t : List Tok) (hnm : n ≤ m)
    (h : lex octal n cs = some t) : lex octal m cs = some t := by
  induction hnm with
  | refl => exact h
  | step _ ih => exact lex_mono_succ octal _ cs t ih

/-- `none` with enough fuel is `none` with any fuel: a lexical error, not exhausted fuel -/
theorem lex_none_any_fuel (octal : Bool) (n : Nat) (cs : List Char) (hn : cs.length < n)
    (h : lex octal n cs = none) (m : Nat) : lex octal m cs = none := by
  cases hm : lex octal m cs with
  | none => rfl
  | some t =>
    have h1 := lex_mono octal m (max m n) cs t (Nat.le_max_left ..) hm
    rw [← lex_fuel octal n (max m n) cs hn (Nat.lt_of_lt_of_le hn (Nat.le_max_right ..)), h] at h1
    cases h1

/-! ### item 5 (second part): printing tokens with one blank between them and lexing again -/

/-- the characters of a token: numbers in decimal (`Nat.repr`), identifiers as they are -/
def Tok.chars : Tok → List Char
  | .num n => Nat.toDigits 10 n
  | .ident s => s.toList
  | .plus => ['+'] | .minus => ['-'] | .star => ['*'] | .slash => ['/']
  | .shl => ['<', '<'] | .shr => ['>', '>'] | .bar => ['|'] | .lpar => ['('] | .rpar => [')']

def Tok.text (t : Tok) : String := String.ofList t.chars

/-- an identifier token holds an identifier: a letter or `_`, then letters, digits, `_` -/
def Tok.valid : Tok → Prop
  | .ident s => ∃ c r, s.toList = c :: r ∧ isIdStart c = true ∧ ∀ x ∈ r, isIdChar x = true
  | _ => True

/-- token texts separated by single blanks -/
def spaced : List Tok → List Char
  | [] => []
  | [t] => t.chars
  | t :: t' :: ts => t.chars ++ ' ' :: spaced (t' :: ts)

/-- what may follow a token text: nothing or a blank -/
def BlankOrEnd (rest : List Char) : Prop := rest = [] ∨ ∃ rest', rest = ' ' :: rest'

theorem run_exact_p22 (p : Char → Bool) (l rest : List Char) (hl : ∀ x ∈ l, p x = true)
    (hr : ∀ x, rest.head? = some x → p x = false) : takeWhileAcc p (l ++ rest) [] = (l, rest) := by
  rw [takeWhileAcc_eq_p22]
  have e1 : (l ++ rest).takeWhile p = l := by
    rw [List.takeWhile_append_of_pos hl]
    cases rest with
    | nil => simp
    | cons x r => simp [hr x rfl]
  have e2 : (l ++ rest).dropWhile p = rest := by
    rw [List.dropWhile_append_of_pos hl]
    cases rest with
    | nil => simp
    | cons x r => simp [hr x rfl]
  rw [e1, e2]; rfl

theorem blank_head_p22 (p : Char → Bool) (hp : p ' ' = false) (rest : List Char) (h : BlankOrEnd rest) :
    ∀ x, rest.head? = some x → p x = false := by
  intro x hx
  rcases h with rfl | ⟨rest', rfl⟩
  · cases hx
  · simp at hx; subst hx; exact hp

theorem digitsVal_ten_p22 : ∀ (ds : List Char) (init : Nat), (∀ d ∈ ds, d.isDigit = true) →
    ds.foldl (fun acc c => acc * 10 + (hexVal? c).getD 0) init = Nat.ofDigitChars 10 ds init
  | [], _, _ => by simp
  | d :: ds, init, h => by
    have hd : d.isDigit = true := h d (List.mem_cons_self ..)
    have hv : (hexVal? d).getD 0 = d.toNat - '0'.toNat := by
      have : '0' ≤ d ∧ d ≤ '9' := by
        simp only [Char.isDigit, Bool.and_eq_true, decide_eq_true_eq] at hd
        exact ⟨hd.1, hd.2⟩
      unfold hexVal?
      rw [if_pos this]; rfl
    rw [List.foldl_cons, Nat.ofDigitChars_cons, hv, Nat.mul_comm init 10]
    exact digitsVal_ten_p22 ds _ (fun x hx => h x (List.mem_cons_of_mem _ hx))

theorem digitsVal_toDigits_p22 (n : Nat) : digitsVal 10 (Nat.toDigits 10 n) = n := by
  unfold digitsVal
  rw [digitsVal_ten_p22 _ _ (fun d hd => Nat.isDigit_of_mem_toDigits (by decide) (by decide) hd)]
  exact Nat.ofDigitChars_ten_toDigits

/-- decimal printing has no leading zero: the first character is `'0'` only for `0` itself -/
theorem toDigits_head_p22 (n : Nat) : ∀ r, Nat.toDigits 10 n = '0' :: r → r = [] := by
  induction n using Nat.base_induction 10 (by decide) with
  | single m hm =>
    intro r h
    rw [Nat.toDigits_of_lt_base hm] at h
    simp only [List.cons.injEq] at h
    exact h.2.symm
  | digit m k hk hm ih =>
    intro r h
    rw [← Nat.toDigits_append_toDigits (by decide) hm hk, Nat.toDigits_of_lt_base hk] at h
    cases hm' : Nat.toDigits 10 m with
    | nil => exact (Nat.toDigits_ne_nil hm').elim
    | cons c r' =>
      rw [hm'] at h
      simp only [List.cons_append, List.cons.injEq] at h
      obtain ⟨rfl, -⟩ := h
      have := ih r' hm'
      subst this
      have : m < 10 := by
        have := (Nat.length_toDigits_le_iff (b := 10) (n := m) (k := 1) (by decide) (by decide)).mp
          (by rw [hm']; simp)
        simpa using this
      rw [Nat.toDigits_of_lt_base this] at hm'
      have hz : m = 0 := by
        match m, this, hm' with
        | 0, _, _ => rfl
        | 1, _, h | 2, _, h | 3, _, h | 4, _, h | 5, _, h | 6, _, h | 7, _, h | 8, _, h | 9, _, h =>
          simp [Nat.digitChar] at h
      omega

theorem isIdStart_not_digit_p22 (c : Char) (h : isIdStart c = true) : c.isDigit = false := by
  cases hd : c.isDigit with
  | false => rfl
  | true =>
    exfalso
    simp [isIdStart, Char.isAlpha, Char.isUpper, Char.isLower] at h
    simp [Char.isDigit] at hd
    simp only [UInt32.le_iff_toNat_le] at h hd
    have e3 : (65 : UInt32).toNat = 65 := by decide
    have e4 : (97 : UInt32).toNat = 97 := by decide
    have e5 : (57 : UInt32).toNat = 57 := by decide
    rcases h with (h | h) | h
    · omega
    · omega
    · subst h; revert hd; decide

theorem isIdStart_isIdChar_p22 (c : Char) (h : isIdStart c = true) : isIdChar c = true := by
  simp only [isIdStart, isIdChar, Char.isAlphanum, Bool.or_eq_true] at h ⊢
  rcases h with h | h
  · exact Or.inl (Or.inl h)
  · exact Or.inr h

/-- a letter or `_` starts an identifier -/
theorem lexHead_ident_p22 (octal : Bool) (c : Char) (r : List Char) (hs : isIdStart c = true) :
    lexHead octal c r = (match takeWhileAcc isIdChar (c :: r) [] with
      | (cs, rest) => some (some (Tok.ident (String.ofList cs)), rest)) := by
  have ne : ∀ x : Char, isIdStart x = false → (c == x) = false := by
    intro x hx
    cases hcx : c == x with
    | false => rfl
    | true =>
      have := eq_of_beq hcx
      subst this
      rw [hx] at hs
      cases hs
  unfold lexHead
  simp [ne ' ' (by decide), ne '\t' (by decide), ne '+' (by decide), ne '-' (by decide), ne '*' (by decide),
    ne '/' (by decide), ne '|' (by decide), ne '(' (by decide), ne ')' (by decide), ne '<' (by decide),
    ne '>' (by decide), isIdStart_not_digit_p22 c hs, hs]

/-- one step of the lexer on a printed token followed by a blank or the end reads exactly that token -/
theorem lexHead_token_p22 (octal : Bool) (t : Tok) (ht : t.valid) (rest : List Char) (hr : BlankOrEnd rest) :
    ∃ c r, t.chars = c :: r ∧ lexHead octal c (r ++ rest) = some (some t, rest) := by
  cases t with
  | plus => exact ⟨'+', [], rfl, by unfold lexHead; rfl⟩
  | minus => exact ⟨'-', [], rfl, by unfold lexHead; rfl⟩
  | star => exact ⟨'*', [], rfl, by unfold lexHead; rfl⟩
  | slash => exact ⟨'/', [], rfl, by unfold lexHead; rfl⟩
  | bar => exact ⟨'|', [], rfl, by unfold lexHead; rfl⟩
  | lpar => exact ⟨'(', [], rfl, by unfold lexHead; rfl⟩
  | rpar => exact ⟨')', [], rfl, by unfold lexHead; rfl⟩
  | shl => exact ⟨'<', ['<'], rfl, by unfold lexHead; rfl⟩
  | shr => exact ⟨'>', ['>'], rfl, by unfold lexHead; rfl⟩
  | num n =>
    have hall : ∀ d ∈ Nat.toDigits 10 n, d.isDigit = true :=
      fun d hd => Nat.isDigit_of_mem_toDigits (by decide) (by decide) hd
    have hval := digitsVal_toDigits_p22 n
    have hhead := toDigits_head_p22 n
    cases hd : Nat.toDigits 10 n with
    | nil => exact (Nat.toDigits_ne_nil hd).elim
    | cons c r =>
      rw [hd] at hall hval hhead
      refine ⟨c, r, by simp [Tok.chars, hd], ?_⟩
      have hc : c.isDigit = true := hall c (List.mem_cons_self ..)
      have hx : ¬ ∃ r', c = '0' ∧ r ++ rest = 'x' :: r' := by
        rintro ⟨r', rfl, e⟩
        have := hhead r rfl
        subst this
        rcases hr with rfl | ⟨rest', rfl⟩
        · cases e
        · simp at e
      rw [lexHead_digit_p22 octal c (r ++ rest) hc hx]
      unfold numDec
      have hrun : takeWhileAcc Char.isDigit (c :: (r ++ rest)) [] = (c :: r, rest) :=
        run_exact_p22 Char.isDigit (c :: r) rest hall (blank_head_p22 _ (by decide) rest hr)
      rw [hrun]
      dsimp only
      have e1 : (octal && c == '0' && decide ((c :: r).length > 1)) = false := by
        by_cases hc0 : c = '0'
        · subst hc0
          have := hhead r rfl
          subst this
          simp
        · simp [hc0]
      rw [e1, hval]
      rfl
  | ident s =>
    obtain ⟨c, r, hs, hc, hall⟩ := ht
    refine ⟨c, r, hs, ?_⟩
    rw [lexHead_ident_p22 octal c (r ++ rest) hc]
    have hall' : ∀ x ∈ c :: r, isIdChar x = true := by
      intro x hx
      rcases List.mem_cons.mp hx with hx | hx
      · subst hx; exact isIdStart_isIdChar_p22 x hc
      · exact hall x hx
    have hrun : takeWhileAcc isIdChar (c :: (r ++ rest)) [] = (c :: r, rest) :=
      run_exact_p22 isIdChar (c :: r) rest hall' (blank_head_p22 _ (by decide) rest hr)
    rw [hrun]
    dsimp only
    rw [← hs, String.ofList_toList]

theorem spaced_blankOrEnd_p22 (ts : List Tok) :
    BlankOrEnd (match ts with
      | [] => []
      | t' :: ts' => ' ' :: spaced (t' :: ts')) := by
  cases ts with
  | nil => exact Or.inl rfl
  | cons t' ts' => exact Or.inr ⟨_, rfl⟩

theorem spaced_cons_p22 (t : Tok) (ts : List Tok) :
    spaced (t :: ts) = t.chars ++ (match ts with
      | [] => []
      | t' :: ts' => ' ' :: spaced (t' :: ts')) := by
  cases ts with
  | nil => simp [spaced]
  | cons t' ts' => rfl

theorem lex_spaced_exists_p22 (octal : Bool) : ∀ (ts : List Tok), (∀ t ∈ ts, t.valid) →
    ∃ n, lex octal n (spaced ts) = some ts
  | [], _ => ⟨1, lex_succ_nil_p22 octal 0⟩
  | t :: ts, hv => by
    have hvt : t.valid := hv t (List.mem_cons_self ..)
    have hvs : ∀ t' ∈ ts, t'.valid := fun t' h => hv t' (List.mem_cons_of_mem _ h)
    obtain ⟨n, hn⟩ := lex_spaced_exists_p22 octal ts hvs
    obtain ⟨c, r, hc, hh⟩ := lexHead_token_p22 octal t hvt _ (spaced_blankOrEnd_p22 ts)
    refine ⟨n + 2, ?_⟩
    rw [spaced_cons_p22, hc, List.cons_append, lex_succ_cons, hh]
    cases ts with
    | nil =>
      show Option.map _ (lex octal (n + 1) []) = _
      rw [lex_succ_nil_p22]; rfl
    | cons t' ts' =>
      show Option.map _ (lex octal (n + 1) (' ' :: spaced (t' :: ts'))) = _
      rw [lex_blank_succ octal n ' ' _ (Or.inl rfl), hn]; rfl

/-- lexer / printer round trip on character lists -/
theorem lex_spaced (octal : Bool) (ts : List Tok) (hv : ∀ t ∈ ts, t.valid) (n : Nat)
    (hn : (spaced ts).length < n) : lex octal n (spaced ts) = some ts := by
  obtain ⟨n0, h0⟩ := lex_spaced_exists_p22 octal ts hv
  have h1 := lex_mono octal n0 (max n0 n) _ ts (Nat.le_max_left ..) h0
  rw [lex_fuel octal n (max n0 n) _ hn (Nat.lt_of_lt_of_le hn (Nat.le_max_right ..))]
  exact h1

theorem spaced_eq_intercalate_p22 : ∀ (ts : List Tok),
    (" ".intercalate (ts.map Tok.text)).toList = spaced ts := by
  intro ts
  rw [String.toList_intercalate]
  have e : " ".toList = [' '] := rfl
  rw [e]
  induction ts with
  | nil => rfl
  | cons t ts ih =>
    cases ts with
    | nil => simp [spaced, Tok.text, List.intercalate]
    | cons t' ts' =>
      simp only [List.map_cons] at ih ⊢
      simp only [spaced]
      rw [← ih]
      simp [List.intercalate, Tok.text]

/-- `tokenize octal (" ".intercalate (ts.map Tok.text)) = some ts`: the lexer reads back what the printer wrote -/
theorem tokenize_spaced (octal : Bool) (ts : List Tok) (hv : ∀ t ∈ ts, t.valid) :
    tokenize octal (" ".intercalate (ts.map Tok.text)) = some ts := by
  unfold tokenize
  rw [spaced_eq_intercalate_p22]
  apply lex_spaced octal ts hv
  rw [← spaced_eq_intercalate_p22, String.length_toList]
  omega

/-! ### the lexer produces valid tokens, so every lexable text can be re-printed -/

theorem lexHead_valid_p22 (octal : Bool) (c : Char) (r : List Char) (t : Tok) (rest : List Char)
    (h : lexHead octal c r = some (some t, rest)) : t.valid := by
  unfold lexHead at h
  by_cases h0 : (c == ' ' || c == '\t') = true
  · rw [if_pos h0] at h; cases h
  rw [if_neg h0] at h
  by_cases h1 : (c == '+') = true
  · rw [if_pos h1] at h; cases h; trivial
  rw [if_neg h1] at h
  by_cases h2 : (c == '-') = true
  · rw [if_pos h2] at h; cases h; trivial
  rw [if_neg h2] at h
  by_cases h3 : (c == '*') = true
  · rw [if_pos h3] at h; cases h; trivial
  rw [if_neg h3] at h
  by_cases h4 : (c == '/') = true
  · rw [if_pos h4] at h; cases h; trivial
  rw [if_neg h4] at h
  by_cases h5 : (c == '|') = true
  · rw [if_pos h5] at h; cases h; trivial
  rw [if_neg h5] at h
  by_cases h6 : (c == '(') = true
  · rw [if_pos h6] at h; cases h; trivial
  rw [if_neg h6] at h
  by_cases h7 : (c == ')') = true
  · rw [if_pos h7] at h; cases h; trivial
  rw [if_neg h7] at h
  by_cases h8 : (c == '<') = true
  · rw [if_pos h8] at h; split at h <;> cases h; trivial
  rw [if_neg h8] at h
  by_cases h9 : (c == '>') = true
  · rw [if_pos h9] at h; split at h <;> cases h; trivial
  rw [if_neg h9] at h
  by_cases h10 : c.isDigit = true
  · rw [if_pos h10] at h
    split at h
    · rename_i r'
      unfold numHex at h
      cases takeWhileAcc (fun d => (hexVal? d).isSome) r' [] with
      | mk ds rest' => dsimp only at h; split at h <;> cases h; trivial
    · unfold numDec at h
      cases takeWhileAcc Char.isDigit (c :: r) [] with
      | mk ds rest' =>
        dsimp only at h
        split at h
        · split at h <;> cases h; trivial
        · cases h; trivial
  rw [if_neg h10] at h
  by_cases h11 : isIdStart c = true
  · rw [if_pos h11] at h
    cases hw : takeWhileAcc isIdChar (c :: r) [] with
    | mk ds rest' =>
      rw [hw] at h
      cases h
      obtain ⟨-, hall, -⟩ := run_spec_p22 _ _ _ _ hw
      obtain ⟨ds', rfl, -⟩ := run_ne_nil_p22 _ _ _ _ _ (isIdStart_isIdChar_p22 c h11) hw
      exact ⟨c, ds', String.toList_ofList, h11, fun x hx => hall x (List.mem_cons_of_mem _ hx)⟩
  rw [if_neg h11] at h
  cases h

theorem lex_valid (octal : Bool) (n : Nat) : ∀ (cs : List Char) (ts : List Tok), lex octal n cs = some ts →
    ∀ t ∈ ts, t.valid := by
  induction n with
  | zero => intro cs t h; rw [lex_zero_p22] at h; cases h
  | succ n ih =>
    intro cs ts h
    cases cs with
    | nil => rw [lex_succ_nil_p22] at h; cases h; intro t ht; cases ht
    | cons c r =>
      rw [lex_succ_cons] at h
      cases hh : lexHead octal c r with
      | none => rw [hh] at h; cases h
      | some p =>
        obtain ⟨ot, rest⟩ := p
        rw [hh] at h
        cases ot with
        | none => exact ih rest ts h
        | some tk =>
          simp only [lexCont, Option.map_eq_some_iff] at h
          obtain ⟨t', ht', rfl⟩ := h
          intro t ht
          rcases List.mem_cons.mp ht with ht | ht
          · subst ht; exact lexHead_valid_p22 octal c r t rest hh
          · exact ih rest t' ht' t ht

/-- every lexable text has the tokens of its normal form: the tokens printed (numbers in decimal) with
    single blanks between them.  In particular blanks between tokens are irrelevant. -/
theorem tokenize_normal_form (octal : Bool) (s : String) (ts : List Tok) (h : tokenize octal s = some ts) :
    tokenize octal (" ".intercalate (ts.map Tok.text)) = some ts :=
  tokenize_spaced octal ts (lex_valid octal _ _ ts h)

end Expr
end Prophy

#print axioms Prophy.Expr.lex_succ_cons
#print axioms Prophy.Expr.lex_agree
#print axioms Prophy.Expr.lex_leading_zero
#print axioms Prophy.Expr.lex_ascii
#print axioms Prophy.Expr.lex_fuel
#print axioms Prophy.Expr.lex_none_any_fuel
#print axioms Prophy.Expr.lex_no_bar
#print axioms Prophy.Expr.lex_spaced
#print axioms Prophy.Expr.tokenize_normal_form

/- helper lemmas for the C++ decode-of-canonical-encoding theorem (C03), part 3: views of `memberStep` -/
import ProphyModel.Lemmas.CppRoundTripBase2
namespace Prophy
open Prophy WF Accept

theorem Cpp.retag_ok_p10 {α β : Type} (r : Cpp.DRes α × Nat) (g : α → β) (a : α) (pos : Nat) (rs : List Nat) (p : Nat)
    (h : r = (.ok a pos rs, p)) : Cpp.retag r g = (.ok (g a) pos rs, p) := by subst h; rfl

theorem Cpp.retag_ok_inv_p10 {α β : Type} (r : Cpp.DRes α × Nat) (g : α → β) (b : β) (pos : Nat) (rs : List Nat) (p : Nat)
    (h : Cpp.retag r g = (.ok b pos rs, p)) : ∃ a, r = (.ok a pos rs, p) ∧ g a = b := by
  obtain ⟨r, q⟩ := r
  cases r with
  | ok a pos' rs' =>
    simp only [Cpp.retag] at h
    injection h with h1 h2
    injection h1 with h3 h4 h5
    subst h2 h4 h5
    exact ⟨a, rfl, h3⟩
  | fail rs' => simp [Cpp.retag] at h
  | fault => simp [Cpp.retag] at h
  | throw rs' => simp [Cpp.retag] at h

theorem Cpp.memberStep_plain_p10 (e : Endian) (all : List Member) (n : String) (t : Ty) (msize : Nat) (data : Bytes)
    (pos : Nat) (rs : List Nat) (lens : List (String × Nat)) (elem : Nat → List Nat → Cpp.DRes Val × Nat)
    (hns : isSizer n all = false) :
    Cpp.memberStep e all n t .plain msize data pos rs lens elem = Cpp.retag (elem pos rs) (fun v => (v, lens)) := by
  simp [Cpp.memberStep, hns]

theorem Cpp.memberStep_plain_ok_p10 (e : Endian) (all : List Member) (n : String) (t : Ty) (msize : Nat) (data : Bytes)
    (pos : Nat) (rs : List Nat) (lens : List (String × Nat)) (hns : isSizer n all = false)
    (v : Val) (pos' : Nat) (rs' : List Nat) (p : Nat) (h : Cpp.decTy e t data pos rs = (.ok v pos' rs', p)) :
    Cpp.memberStep e all n t .plain msize data pos rs lens (fun q r => Cpp.decTy e t data q r) =
      (.ok (v, lens) pos' rs', p) := by
  rw [Cpp.memberStep_plain_p10 _ _ _ _ _ _ _ _ _ _ hns]
  exact Cpp.retag_ok_p10 _ _ _ _ _ _ h

theorem Cpp.decTy_of_memberStep_p10 (e : Endian) (t : Ty) (msize : Nat) (data : Bytes)
    (pos : Nat) (rs : List Nat) (lens lens' : List (String × Nat))
    (v : Val) (pos' : Nat) (rs' : List Nat) (p : Nat)
    (h : Cpp.memberStep e [] "" t .plain msize data pos rs lens (fun q r => Cpp.decTy e t data q r) =
      (.ok (v, lens') pos' rs', p)) : Cpp.decTy e t data pos rs = (.ok v pos' rs', p) := by
  rw [Cpp.memberStep_plain_p10 _ _ _ _ _ _ _ _ _ _ (isSizer_nil "")] at h
  obtain ⟨a, h1, h2⟩ := Cpp.retag_ok_inv_p10 _ _ _ _ _ _ h
  injection h2 with h3 _
  rw [h1, h3]

theorem Cpp.memberStep_sizer_p10 (e : Endian) (all : List Member) (n : String) (t : Ty) (msize : Nat) (data : Bytes)
    (pos : Nat) (rs : List Nat) (lens : List (String × Nat)) (elem : Nat → List Nat → Cpp.DRes Val × Nat)
    (hs : isSizer n all = true) (c pos1 : Nat)
    (hdec : Cpp.decScalar e (Cpp.sizerPrimOf n all).size (Cpp.sizerPrimOf n all).isSigned data pos rs = .ok (c : Int) pos1 rs)
    (hlim : ∀ m, all.find? (fun m => decide (m.kind.sizer? = some n)) = some m → ∀ s l, m.kind = .limited s l → c ≤ l)
    (hrem : c * Cpp.resizeElem n all ≤ Cpp.remaining data.length pos1) (hrl : c ≤ Cpp.resizeLimit) :
    Cpp.memberStep e all n t .plain msize data pos rs lens elem =
      (.ok (Val.sizer, boundHints all n c ++ lens) pos1 (c :: rs), pos1) := by
  unfold Cpp.memberStep
  simp only [hs, if_true, hdec]
  have hc : (if (c : Int) < 0 then Cpp.sizeMax - (c : Int).natAbs else (c : Int).toNat) = c := by
    rw [if_neg (by omega)]; simp
  rw [hc]
  clear hc
  have hdiv : c ≤ Cpp.remaining data.length pos1 / Cpp.resizeElem n all :=
    (Nat.le_div_iff_mul_le (Cpp.one_le_resizeElem n all)).2 hrem
  split
  · rename_i l heq
    have hle : c ≤ l := by
      cases hf : all.find? (fun m => decide (m.kind.sizer? = some n)) with
      | none => simp [hf] at heq
      | some m =>
        rw [hf] at heq
        cases hk : m.kind with
        | limited s l' =>
          simp [hk] at heq
          subst heq
          exact hlim m hf s l' hk
        | _ => simp [hk] at heq
    rw [if_neg (by simp only [decide_eq_true_eq]; omega), if_neg (by omega), if_neg (by omega)]
    rfl
  · rw [if_neg (by simp), if_neg (by omega), if_neg (by omega)]
    rfl

/- the former hypothesis `hrem : c ≤ Cpp.remaining data.length pos1` of `Cpp.memberStep_sizer_p10` is no longer
   sufficient: `struct { u8 n; u64 a<>(n); }` on the bytes `01 00 00 00`: the counter 1 is at most the 3 bytes that
   follow it, but `1 > 3 / 8`, so `do_decode_resize` now returns false -/
example :
    let all : List Member := [.mk "n" (.prim .u8) .plain, .mk "a" (.prim .u64) (.dyn "n" 0)]
    let data : Bytes := [1, 0, 0, 0]
    isSizer "n" all = true ∧
    Cpp.decScalar .little (Cpp.sizerPrimOf "n" all).size (Cpp.sizerPrimOf "n" all).isSigned data 0 [] = .ok (1 : Int) 1 [] ∧
    1 ≤ Cpp.remaining data.length 1 ∧ Cpp.resizeElem "n" all = 8 ∧
    Cpp.memberStep .little all "n" (.prim .u8) .plain 1 data 0 [] [] (fun q r => Cpp.decTy .little (.prim .u8) data q r) =
      (.fail [], 1) := by
  refine ⟨by decide, rfl, by decide, by decide, rfl⟩

/-- positions reached by padding statements are relative to the struct start when that is aligned -/
theorem Cpp.applyPad_base_p10 (p : Int) (base off1 : Nat) (h : p < 0 → p.natAbs ∣ base) :
    Cpp.applyPad p (base + off1) = base + Cpp.applyPad p off1 := by
  unfold Cpp.applyPad
  by_cases hp : p < 0
  · rw [if_pos hp, if_pos hp, padTo_add_mul base off1 _ (h hp)]; omega
  · rw [if_neg hp, if_neg hp]; omega

theorem PL.plastOf_neg_p10 (A : Nat) (d : Bool) (cur : PL.Mem) (bs : Nat) (h : PL.plastOf A d cur bs < 0) :
    (PL.plastOf A d cur bs).natAbs = A := by
  unfold PL.plastOf at h ⊢
  split at h <;> (try split at h) <;> simp_all <;> omega

theorem PL.pprev_neg_p10 (c : Bool) (a x : Nat) (h : (if c = true then -(a : Int) else (x : Int)) < 0) :
    (if c = true then -(a : Int) else (x : Int)).natAbs = a := by
  cases c <;> simp_all
  omega

theorem Spec.alignMs_suffix_p10 : (before : List Member) → (ms : List Member) → Spec.alignMs ms ≤ Spec.alignMs (before ++ ms)
  | [], _ => Nat.le_refl _
  | .mk n t k :: b, ms => Nat.le_trans (Spec.alignMs_suffix_p10 b ms) (PL.Spec.alignMs_cons_le n t k _)


/-! ### `memberStep` by member kind -/
theorem Cpp.memberStep_fixed_p10 (e : Endian) (all : List Member) (n : String) (t : Ty) (c msize : Nat) (data : Bytes)
    (pos : Nat) (rs : List Nat) (lens : List (String × Nat)) (elem : Nat → List Nat → Cpp.DRes Val × Nat) :
    Cpp.memberStep e all n t (.fixed c) msize data pos rs lens elem =
      Cpp.retag (Cpp.decArray elem t c data.length pos rs) (fun v => (v, lens)) := rfl

theorem Cpp.memberStep_dyn_p10 (e : Endian) (all : List Member) (n : String) (t : Ty) (s : String) (sh msize : Nat)
    (data : Bytes) (pos : Nat) (rs : List Nat) (lens : List (String × Nat)) (elem : Nat → List Nat → Cpp.DRes Val × Nat) :
    Cpp.memberStep e all n t (.dyn s sh) msize data pos rs lens elem =
      Cpp.retag (Cpp.decArray elem t ((lens.lookup n).getD 0) data.length pos rs) (fun v => (v, lens)) := rfl

theorem Cpp.memberStep_limited_ok_p10 (e : Endian) (all : List Member) (n : String) (t : Ty) (s : String) (c msize : Nat)
    (data : Bytes) (pos : Nat) (rs : List Nat) (lens : List (String × Nat)) (elem : Nat → List Nat → Cpp.DRes Val × Nat)
    (v : Val) (pos1 : Nat) (rs1 : List Nat) (p : Nat)
    (h : Cpp.decArray elem t ((lens.lookup n).getD 0) data.length pos rs = (.ok v pos1 rs1, p))
    (hfit : pos + msize ≤ data.length) :
    Cpp.memberStep e all n t (.limited s c) msize data pos rs lens elem =
      (.ok (v, lens) (pos + msize) rs1, pos + msize) := by
  unfold Cpp.memberStep
  simp only [h, Cpp.advance_ok_p10 _ _ _ _ hfit]

theorem Cpp.memberStep_greedy_fixed_ok_p10 (e : Endian) (all : List Member) (n : String) (t : Ty) (msize : Nat)
    (data : Bytes) (pos : Nat) (rs : List Nat) (lens : List (String × Nat)) (elem : Nat → List Nat → Cpp.DRes Val × Nat)
    (cnt : Nat) (v : Val) (pos1 : Nat) (rs1 : List Nat) (p : Nat)
    (hcs : Cpp.codecSize t ≥ 0) (hcnt : Cpp.remaining data.length pos / (Cpp.codecSize t).toNat = cnt)
    (hrl : cnt ≤ Cpp.resizeLimit)
    (h : Cpp.decArray elem t cnt data.length pos (cnt :: rs) = (.ok v pos1 rs1, p)) :
    Cpp.memberStep e all n t .greedy msize data pos rs lens elem = (.ok (v, lens) pos1 rs1, p) := by
  unfold Cpp.memberStep
  simp only [hcs, if_true, hcnt]
  rw [if_neg (by omega)]
  exact Cpp.retag_ok_p10 _ _ _ _ _ _ h

theorem Cpp.memberStep_greedy_dyn_ok_p10 (e : Endian) (all : List Member) (n : String) (t : Ty) (msize : Nat)
    (data : Bytes) (pos : Nat) (rs : List Nat) (lens : List (String × Nat)) (elem : Nat → List Nat → Cpp.DRes Val × Nat)
    (vs : List Val) (pos1 : Nat) (rs1 : List Nat)
    (hcs : ¬ Cpp.codecSize t ≥ 0)
    (h : Cpp.decGreedyDyn elem (data.length + 1) pos rs = .ok vs pos1 rs1) :
    Cpp.memberStep e all n t .greedy msize data pos rs lens elem = (.ok (Val.arr vs, lens) pos1 rs1, pos1) := by
  unfold Cpp.memberStep
  simp only [hcs, if_false, h]

theorem Cpp.advance_opt_p10 (apad size pos : Nat) (rs : List Nat) (h : pos + apad ≤ size) :
    (if apad ≠ 0 then Cpp.advance apad size pos rs else .ok () pos rs) = .ok () (pos + apad) rs := by
  by_cases ha : apad = 0
  · subst ha; simp
  · rw [if_pos ha]; exact Cpp.advance_ok_p10 _ _ _ _ h

theorem Cpp.memberStep_absent_ok_p10 (e : Endian) (all : List Member) (n : String) (t : Ty) (msize : Nat)
    (data : Bytes) (pos : Nat) (rs : List Nat) (lens : List (String × Nat)) (elem : Nat → List Nat → Cpp.DRes Val × Nat)
    (apad sz : Nat)
    (hdec : Cpp.decScalar e 4 false data pos rs = .ok (0 : Int) (pos + 4) rs)
    (hap : (if Cpp.cppAlign t > 4 then Cpp.cppAlign t - 4 else 0) = apad)
    (hcs : Cpp.codecSize t = (sz : Int))
    (hfit : pos + 4 + apad + sz ≤ data.length) :
    Cpp.memberStep e all n t .optional msize data pos rs lens elem =
      (.ok (Val.absent, lens) (pos + 4 + apad + sz) rs, pos + 4 + apad + sz) := by
  unfold Cpp.memberStep
  have hsz : (if Cpp.codecSize t ≥ 0 then (Cpp.codecSize t).toNat else Cpp.sizeMax - 1) = sz := by
    rw [hcs, if_pos (by omega)]; simp
  simp only [hdec, hap, Cpp.advance_opt_p10 apad data.length (pos + 4) rs (by omega), hsz,
    Cpp.advance_ok_p10 sz data.length (pos + 4 + apad) rs hfit]
  simp

theorem Cpp.memberStep_present_p10 (e : Endian) (all : List Member) (n : String) (t : Ty) (msize : Nat)
    (data : Bytes) (pos : Nat) (rs : List Nat) (lens : List (String × Nat)) (elem : Nat → List Nat → Cpp.DRes Val × Nat)
    (apad : Nat)
    (hdec : Cpp.decScalar e 4 false data pos rs = .ok (1 : Int) (pos + 4) rs)
    (hap : (if Cpp.cppAlign t > 4 then Cpp.cppAlign t - 4 else 0) = apad)
    (hfit : pos + 4 + apad ≤ data.length) :
    Cpp.memberStep e all n t .optional msize data pos rs lens elem =
      Cpp.retag (elem (pos + 4 + apad) rs) (fun v => (Val.present v, lens)) := by
  unfold Cpp.memberStep
  simp only [hdec, hap, Cpp.advance_opt_p10 apad data.length (pos + 4) rs (by omega)]
  simp


theorem Cpp.decTy_union_ok_p10 (e : Endian) (nm : String) (arms : List Arm) (data : Bytes) (pos : Nat) (rs : List Nat)
    (d M sz idx : Nat) (v : Val) (rs3 : List Nat) (pa : Nat)
    (hdec : Cpp.decScalar e 4 false data pos rs = .ok (d : Int) (pos + 4) rs)
    (hM : (PL.nodeTy (.union nm arms)).align = M) (hsz : (PL.nodeTy (.union nm arms)).size = sz)
    (hM4 : 4 ≤ M) (hszM : M ≤ sz)
    (harms : Cpp.decArms e arms (d : Int) data (pos + 4 + (M - 4)) rs 0 = .ok (idx, v) pa rs3)
    (hfit : pos + sz ≤ data.length) :
    Cpp.decTy e (.union nm arms) data pos rs = (.ok (.union idx v) (pos + sz) rs3, pos + sz) := by
  rw [Cpp.decTy]
  have hdp : (if M > PL.discSize then M - PL.discSize else 0) = M - 4 := by
    unfold PL.discSize; split <;> omega
  have hadv := Cpp.advance_opt_p10 (M - 4) data.length (pos + 4) rs (by omega)
  have hadv2 := Cpp.advance_ok_p10 (sz - PL.discSize - (M - 4)) data.length (pos + 4 + (M - 4)) rs3
    (by unfold PL.discSize; omega)
  have hpe : pos + 4 + (M - 4) + (sz - PL.discSize - (M - 4)) = pos + sz := by unfold PL.discSize; omega
  simp only [hdec, hM, hsz, hdp, hadv, harms, hadv2, hpe]

end Prophy

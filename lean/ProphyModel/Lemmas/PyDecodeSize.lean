/- C06 (size): what the Python decoder returns holds no more scalars and payload bytes than it consumed, and no more
   than the input has -/
import ProphyModel.Accept
import ProphyModel.WF
import ProphyModel.Lemmas.PyDecodeTotal
import ProphyModel.Lemmas.PyDecodeTyped
import ProphyModel.Lemmas.PyEncode
import ProphyModel.Lemmas.WFAccept
namespace Prophy
open Prophy

mutual
  /-- scalars and payload bytes a value holds: one per integer / counter / discriminator, one per byte of a bytes field -/
  def Val.weight : Val → Nat
    | .int _ => 1
    | .bytes b => b.length
    | .arr vs => Val.weights vs
    | .struct fs => Val.weights fs
    | .union _ v => 1 + Val.weight v
    | .absent => 0
    | .present v => Val.weight v
    | .sizer => 1
  /-- the sum of the weights of a list of values -/
  def Val.weights : List Val → Nat
    | [] => 0
    | v :: vs => Val.weight v + Val.weights vs
end

/-- `Val.weights` is the sum of the weights -/
theorem Val.weights_eq_sum : (vs : List Val) → Val.weights vs = (vs.map Val.weight).sum
  | [] => rfl
  | v :: vs => by simp [Val.weights, Val.weights_eq_sum vs]

theorem Val.weight_arr (vs : List Val) : (Val.arr vs).weight = (vs.map Val.weight).sum := by
  simp [Val.weight, Val.weights_eq_sum]

theorem Val.weight_struct (vs : List Val) : (Val.struct vs).weight = (vs.map Val.weight).sum := by
  simp [Val.weight, Val.weights_eq_sum]

namespace Py

/-! ### the schema hypothesis -/

def isPrimTy : Ty → Bool
  | .prim _ => true
  | _ => false

/-- a member that is the counter of some array is of a scalar type -/
def sizerTyOk (all : List Member) (n : String) (t : Ty) (k : MKind) : Bool :=
  match k with
  | .plain => !(isSizer n all) || isPrimTy t
  | _ => true

mutual
  /-- the hypothesis of the size theorem: every union arm, at any depth, is of a fixed type (`Spec.fixedTy`: no dynamic
      or greedy array inside - a union reports `_SIZE` bytes whatever its arm read), and every member that is the counter
      of an array is of a scalar type (the statics of a struct count the member's own `_SIZE`, the decoder reads the
      counter).  Both follow from `WF.wfTy`, hence from `Accept.front` and `Accept.pyRt`. -/
  def tightTy : Ty → Bool
    | .struct _ ms => tightMs ms ms
    | .union _ arms => tightArms arms
    | _ => true
  def tightMs (all : List Member) : List Member → Bool
    | [] => true
    | .mk n t k :: r => tightTy t && sizerTyOk all n t k && tightMs all r
  def tightArms : List Arm → Bool
    | [] => true
    | .mk _ _ t :: r => tightTy t && Spec.fixedTy t && tightArms r
end

/-! ### the element loops -/

theorem decN_weight_p28 (f : Bytes → Nat → M (Val × Nat)) (data : Bytes) (C : Prop) (S : Nat)
    (hf : ∀ q v sz, f data q = .ok (v, sz) →
      v.weight ≤ sz ∧ (v.weight = 0 ∨ q + v.weight ≤ data.length) ∧ (C → v.weight ≤ S)) :
    ∀ (n : Nat) (pos cursor : Nat) (vs : List Val) (c : Nat),
      decN f n data pos cursor = .ok (vs, c) →
        cursor + Val.weights vs ≤ c ∧ (Val.weights vs = 0 ∨ pos + cursor + Val.weights vs ≤ data.length) ∧
        (C → Val.weights vs ≤ n * S)
  | 0, _, _, _, _, h => by
    simp only [decN, pure, Except.pure] at h
    injection h with h; injection h with h1 h2
    subst h1
    simp only [Val.weights]
    refine ⟨by omega, (by simp), fun _ => by omega⟩
  | n + 1, pos, cursor, vs, c, h => by
    simp only [decN] at h
    obtain ⟨⟨v, sz⟩, hx, h⟩ := bind_ok h
    obtain ⟨⟨vs2, c2⟩, hy, h⟩ := bind_ok h
    simp only [pure, Except.pure] at h
    injection h with h; injection h with h1 h2
    subst h1; subst h2
    obtain ⟨a1, a2, a3⟩ := hf _ _ _ hx
    obtain ⟨b1, b2, b3⟩ := decN_weight_p28 f data C S hf n pos (cursor + sz) vs2 c2 hy
    simp only [Val.weights]
    refine ⟨by omega, by omega, ?_⟩
    intro hc
    have := a3 hc
    have := b3 hc
    rw [Nat.succ_mul]
    omega

theorem decWhile_weight_p28 (f : Bytes → Nat → M (Val × Nat)) (data : Bytes)
    (hf : ∀ q v sz, f data q = .ok (v, sz) →
      v.weight ≤ sz ∧ (v.weight = 0 ∨ q + v.weight ≤ data.length)) :
    ∀ (fuel : Nat) (pos cursor : Nat) (vs : List Val) (c : Nat),
      decWhile f fuel data pos cursor = .ok (vs, c) →
        cursor + Val.weights vs ≤ c ∧ (Val.weights vs = 0 ∨ pos + cursor + Val.weights vs ≤ data.length)
  | 0, pos, cursor, vs, c, h => by
    simp only [decWhile] at h
    split at h
    · cases h
    · simp only [pure, Except.pure] at h
      injection h with h; injection h with h1 h2
      subst h1
      simp only [Val.weights]
      exact ⟨by omega, (by simp)⟩
  | fuel + 1, pos, cursor, vs, c, h => by
    simp only [decWhile] at h
    split at h
    · obtain ⟨⟨v, sz⟩, hx, h⟩ := bind_ok h
      obtain ⟨⟨vs2, c2⟩, hy, h⟩ := bind_ok h
      simp only [pure, Except.pure] at h
      injection h with h; injection h with h1 h2
      subst h1; subst h2
      obtain ⟨a1, a2⟩ := hf _ _ _ hx
      obtain ⟨b1, b2⟩ := decWhile_weight_p28 f data hf fuel pos (cursor + sz) vs2 c2 hy
      simp only [Val.weights]
      exact ⟨by omega, by omega⟩
    · simp only [pure, Except.pure] at h
      injection h with h; injection h with h1 h2
      subst h1
      simp only [Val.weights]
      exact ⟨by omega, (by simp)⟩

/-! ### one member -/

/-- what a successful decode of a message of type `t` at `pos` guarantees: the weight of the value is at most the
    reported size, the scalars and payload bytes it holds were read inside the input, and a value of a fixed type
    weighs at most the static `_SIZE` -/
def TyW (e : Endian) (t : Ty) : Prop :=
  ∀ (data : Bytes) (pos : Nat) (term : Bool) (v : Val) (sz : Nat),
    decTy e t data pos term = .ok (v, sz) →
      v.weight ≤ sz ∧ (v.weight = 0 ∨ pos + v.weight ≤ data.length) ∧
      (Spec.fixedTy t = true → v.weight ≤ (stTy t).size)

theorem slice_len_p28 (data : Bytes) (pos n : Nat) : (slice data pos n).length ≤ n := by
  simp [slice, List.length_take]; omega

theorem stTy_byte_size_p28 : (stTy .byte).size = 1 := by simp [stTy]

theorem decField_weight_p28 {e : Endian} {all : List Member} {n : String} {t : Ty} {k : MKind} {f : St}
    {data : Bytes} {pos0 : Nat} {hints : List (String × Nat)} {v : Val} {sz : Nat} {hints' : List (String × Nat)}
    (hty : TyW e t) (hs : sizerTyOk all n t k = true)
    (h : decField e all n t k f data pos0 hints = .ok (v, sz, hints')) :
    v.weight ≤ sz ∧ (v.weight = 0 ∨ pos0 + v.weight ≤ data.length) ∧
    (k.isStatic = true → Spec.fixedTy t = true → v.weight ≤ (fieldSt (stTy t) k).size) := by
  have hel : ∀ (C : Prop), (C → Spec.fixedTy t = true) → ∀ q v sz, (fun d q => decTy e t d q false) data q = .ok (v, sz) →
      v.weight ≤ sz ∧ (v.weight = 0 ∨ q + v.weight ≤ data.length) ∧ (C → v.weight ≤ (stTy t).size) := by
    intro C hC q v sz hq
    obtain ⟨a, b, c⟩ := hty data q false v sz hq
    exact ⟨a, b, fun hc => c (hC hc)⟩
  cases k with
  | plain =>
    simp only [decField] at h
    split at h
    · rename_i hsz
      obtain ⟨⟨c, s⟩, hx, h⟩ := bind_ok h
      simp only [pure, Except.pure] at h
      injection h with h; injection h with h1 h2; injection h2 with h2 h3
      subst h1; subst h2
      have h4 := decSizer_sz hx
      obtain ⟨_, _, h5⟩ := decSizer_spec _ _ _ _ _ _ _ hx
      have := Prim.size_pos (sizerPrim t)
      simp only [Val.weight]
      refine ⟨by omega, Or.inr (by omega), ?_⟩
      intro _ _
      simp only [sizerTyOk, hsz, Bool.not_true, Bool.false_or] at hs
      cases t <;> simp [isPrimTy] at hs
      simp only [fieldSt, stTy]
      simp only [sizerPrim] at this
      omega
    · obtain ⟨⟨w, s⟩, hx, h⟩ := bind_ok h
      simp only [pure, Except.pure] at h
      injection h with h; injection h with h1 h2; injection h2 with h2 h3
      subst h1; subst h2
      obtain ⟨a, b, c⟩ := hty _ _ _ _ _ hx
      exact ⟨a, b, fun _ hfx => c hfx⟩
  | optional =>
    simp only [decField] at h
    obtain ⟨⟨flag, x⟩, hx, h⟩ := bind_ok h
    simp only [] at h
    split at h
    · obtain ⟨⟨w, s⟩, hy, h⟩ := bind_ok h
      simp only [pure, Except.pure] at h
      injection h with h; injection h with h1 h2; injection h2 with h2 h3
      subst h1; subst h2
      obtain ⟨a, b, c⟩ := hty _ _ _ _ _ hy
      simp only [Val.weight]
      refine ⟨by omega, by omega, ?_⟩
      intro _ hfx
      have := c hfx
      simp only [fieldSt]
      omega
    · simp only [pure, Except.pure] at h
      injection h with h; injection h with h1 h2; injection h2 with h2 h3
      subst h1
      simp only [Val.weight]
      exact ⟨by omega, (by simp), fun _ _ => by omega⟩
  | fixed c =>
    simp only [decField] at h
    split at h
    · split at h
      · cases h
      · rename_i hg
        simp only [pure, Except.pure] at h
        injection h with h; injection h with h1 h2; injection h2 with h2 h3
        subst h1; subst h2
        have := slice_len_p28 data pos0 c
        simp only [Val.weight]
        refine ⟨by omega, Or.inr (by omega), ?_⟩
        intro _ _
        simp only [fieldSt, stTy_byte_size_p28]
        omega
    · have h := Py.ite_err h
      obtain ⟨⟨ws, cur⟩, hx, h⟩ := bind_ok h
      simp only [pure, Except.pure] at h
      injection h with h; injection h with h1 h2; injection h2 with h2 h3
      subst h1; subst h2
      obtain ⟨a, b, c'⟩ := decN_weight_p28 _ data (Spec.fixedTy t = true) (stTy t).size (hel _ id) c pos0 0 ws cur hx
      simp only [Val.weight]
      refine ⟨by omega, by omega, ?_⟩
      intro _ hfx
      simp only [fieldSt]
      exact c' hfx
  | dyn s sh =>
    simp only [decField] at h
    obtain ⟨c, hc, h⟩ := bind_ok h
    split at h
    · split at h
      · cases h
      · rename_i hg
        simp only [pure, Except.pure] at h
        injection h with h; injection h with h1 h2; injection h2 with h2 h3
        subst h1; subst h2
        have := slice_len_p28 data pos0 c
        simp only [Val.weight]
        refine ⟨by omega, Or.inr (by omega), ?_⟩
        intro hst; simp [MKind.isStatic] at hst
    · have h := Py.ite_err h
      obtain ⟨⟨ws, cur⟩, hx, h⟩ := bind_ok h
      simp only [pure, Except.pure] at h
      injection h with h; injection h with h1 h2; injection h2 with h2 h3
      subst h1; subst h2
      obtain ⟨a, b, _⟩ := decN_weight_p28 _ data False (stTy t).size (hel _ (fun hF => False.elim hF)) c pos0 0 ws cur hx
      simp only [Val.weight]
      refine ⟨by omega, by omega, ?_⟩
      intro hst; simp [MKind.isStatic] at hst
  | limited s lim =>
    simp only [decField] at h
    obtain ⟨c, hc, h⟩ := bind_ok h
    split at h
    · split at h
      · cases h
      · split at h
        · cases h
        · split at h
          · cases h
          · rename_i hg hcl _
            simp only [pure, Except.pure] at h
            injection h with h; injection h with h1 h2; injection h2 with h2 h3
            subst h1; subst h2
            have := slice_len_p28 data pos0 c
            simp only [Val.weight]
            refine ⟨by omega, Or.inr (by omega), ?_⟩
            intro _ _
            simp only [fieldSt, stTy_byte_size_p28]
            omega
    · have h := Py.ite_err h
      obtain ⟨⟨ws, cur⟩, hx, h⟩ := bind_ok h
      have h := Py.ite_err h
      simp only [pure, Except.pure] at h
      injection h with h; injection h with h1 h2; injection h2 with h2 h3
      subst h1; subst h2
      obtain ⟨a, b, c'⟩ := decN_weight_p28 _ data (Spec.fixedTy t = true) (stTy t).size (hel _ id) (min c lim) pos0 0 ws cur hx
      simp only [Val.weight]
      refine ⟨by omega, by omega, ?_⟩
      intro _ hfx
      simp only [fieldSt]
      have h1 := c' hfx
      have h2 : min c lim * (stTy t).size ≤ lim * (stTy t).size := Nat.mul_le_mul_right _ (Nat.min_le_right _ _)
      omega
  | greedy =>
    simp only [decField] at h
    split at h
    · split at h
      · cases h
      · rename_i hg
        simp only [pure, Except.pure] at h
        injection h with h; injection h with h1 h2; injection h2 with h2 h3
        subst h1; subst h2
        simp only [Val.weight, List.length_drop]
        refine ⟨by omega, Or.inr (by omega), ?_⟩
        intro hst; simp [MKind.isStatic] at hst
    · have h := Py.ite_err h
      obtain ⟨⟨ws, cur⟩, hx, h⟩ := bind_ok h
      simp only [pure, Except.pure] at h
      injection h with h; injection h with h1 h2; injection h2 with h2 h3
      subst h1; subst h2
      obtain ⟨a, b⟩ := decWhile_weight_p28 _ data (fun q v sz hq => by
        obtain ⟨a, b, _⟩ := hty data q false v sz hq; exact ⟨a, b⟩) _ pos0 0 ws cur hx
      simp only [Val.weight]
      refine ⟨by omega, by omega, ?_⟩
      intro hst; simp [MKind.isStatic] at hst
    · have h := Py.ite_err h
      obtain ⟨⟨ws, cur⟩, hx, h⟩ := bind_ok h
      simp only [pure, Except.pure] at h
      injection h with h; injection h with h1 h2; injection h2 with h2 h3
      subst h1; subst h2
      obtain ⟨a, b⟩ := decWhile_weight_p28 _ data (fun q v sz hq => by
        obtain ⟨a, b, _⟩ := hty data q false v sz hq; exact ⟨a, b⟩) _ pos0 0 ws cur hx
      simp only [Val.weight]
      refine ⟨by omega, by omega, ?_⟩
      intro hst; simp [MKind.isStatic] at hst
    · have h := Py.ite_err h
      obtain ⟨⟨ws, cur⟩, hx, h⟩ := bind_ok h
      simp only [pure, Except.pure] at h
      injection h with h; injection h with h1 h2; injection h2 with h2 h3
      subst h1; subst h2
      obtain ⟨a, b, _⟩ := decN_weight_p28 _ data False (stTy t).size (hel _ (fun hF => False.elim hF)) _ pos0 0 ws cur hx
      simp only [Val.weight]
      refine ⟨by omega, by omega, ?_⟩
      intro hst; simp [MKind.isStatic] at hst

/-! ### the induction over the schema -/

theorem sumSizes_le_structSt_p28 (fs : List St) : sumSizes fs ≤ (structSt fs).size := by
  simp only [structSt]; omega

theorem maxSize_le_unionSt_p28 (fs : List St) : 4 + maxSize fs ≤ (unionSt fs).size := by
  simp only [unionSt, flagSize]; omega

mutual
  theorem ty_weight_p28 (e : Endian) : (t : Ty) → tightTy t = true → TyW e t
    | .prim p, _, data, pos, term, v, sz, h => by
      simp only [decTy] at h
      obtain ⟨⟨w, s⟩, hx, h⟩ := bind_ok h
      simp only [pure, Except.pure] at h
      injection h with h; injection h with h1 h2
      subst h1; subst h2
      obtain ⟨_, h3, h4⟩ := decScalar_spec _ _ _ _ _ _ hx
      have := Prim.size_pos p
      simp only [Val.weight, stTy]
      exact ⟨by omega, Or.inr (by omega), fun _ => by omega⟩
    | .byte, _, data, pos, term, v, sz, h => by
      simp only [decTy] at h
      obtain ⟨⟨w, s⟩, hx, h⟩ := bind_ok h
      simp only [pure, Except.pure] at h
      injection h with h; injection h with h1 h2
      subst h1; subst h2
      obtain ⟨_, h3, h4⟩ := decScalar_spec _ _ _ _ _ _ hx
      have := Prim.size_pos .u8
      simp only [Val.weight, stTy]
      exact ⟨by omega, Or.inr (by omega), fun _ => by omega⟩
    | .enum _ es, _, data, pos, term, v, sz, h => by
      simp only [decTy] at h
      obtain ⟨⟨w, s⟩, hx, h⟩ := bind_ok h
      obtain ⟨w', hy, h⟩ := bind_ok h
      simp only [pure, Except.pure] at h
      injection h with h; injection h with h1 h2
      subst h1; subst h2
      obtain ⟨_, h3, h4⟩ := decScalar_spec _ _ _ _ _ _ hx
      have h5 : Prim.size .u32 = 4 := rfl
      simp only [Val.weight, stTy]
      exact ⟨by omega, Or.inr (by omega), fun _ => by omega⟩
    | .struct _ ms, ht, data, pos, term, v, sz, h => by
      simp only [decTy] at h
      obtain ⟨⟨vs, pos1⟩, hx, h⟩ := bind_ok h
      simp only [] at h
      simp only [tightTy] at ht
      obtain ⟨a, b, c⟩ := ms_weight_p28 e ms ms ht _ _ data pos [] vs pos1 hx
      split at h
      · cases h
      · simp only [pure, Except.pure] at h
        injection h with h; injection h with h1 h2
        subst h1; subst h2
        simp only [Val.weight]
        refine ⟨by omega, b, ?_⟩
        intro hfx
        simp only [Spec.fixedTy] at hfx
        have := c hfx
        have := sumSizes_le_structSt_p28 (stMs ms)
        simp only [stTy]
        omega
    | .union _ arms, ht, data, pos, term, v, sz, h => by
      simp only [decTy] at h
      obtain ⟨⟨d, x⟩, hx, h⟩ := bind_ok h
      obtain ⟨⟨idx, w⟩, hy, h⟩ := bind_ok h
      simp only [] at h
      simp only [tightTy] at ht
      have hw := arms_weight_p28 e arms ht arms d data _ 0 idx w hy
      have hu := maxSize_le_unionSt_p28 (stArms arms)
      split at h
      · cases h
      · rename_i hg
        split at h
        · cases h
        · simp only [pure, Except.pure] at h
          injection h with h; injection h with h1 h2
          subst h1; subst h2
          simp only [Val.weight, stTy]
          exact ⟨by omega, Or.inr (by omega), fun _ => by omega⟩
  theorem ms_weight_p28 (e : Endian) : (ms : List Member) → (all : List Member) → tightMs all ms = true →
      ∀ (fs : List St) (ps : List (Option Nat)) (data : Bytes) (pos : Nat) (hints : List (String × Nat))
        (vs : List Val) (posEnd : Nat),
        decMs e all ms fs ps data pos hints = .ok (vs, posEnd) →
          pos + Val.weights vs ≤ posEnd ∧ (Val.weights vs = 0 ∨ pos + Val.weights vs ≤ data.length) ∧
          (Spec.fixedMs ms = true → Val.weights vs ≤ sumSizes (stMs ms))
    | [], _, _, _, _, _, pos, _, vs, posEnd, h => by
      simp only [decMs, pure, Except.pure] at h
      injection h with h; injection h with h1 h2
      subst h1; subst h2
      simp only [Val.weights]
      exact ⟨by omega, by simp, fun _ => by omega⟩
    | .mk n t k :: r, all, ht, fs, ps, data, pos, hints, vs, posEnd, h => by
      obtain ⟨f, fs', p, ps', v, sz, hints', vs', pos2, _, _, hx, hle, hy, hvs⟩ := decMs_cons_ok h
      simp only [tightMs, Bool.and_eq_true] at ht
      obtain ⟨a1, a2, a3⟩ := decField_weight_p28 (ty_weight_p28 e t ht.1.1) ht.1.2 hx
      obtain ⟨b1, b2, b3⟩ := ms_weight_p28 e r all ht.2 fs' ps' data pos2 hints' vs' posEnd hy
      subst hvs
      simp only [Val.weights]
      refine ⟨by omega, by omega, ?_⟩
      intro hfx
      obtain ⟨c1, c2, c3⟩ := (Spec.fixedMs_cons n t k r).1 hfx
      have := a3 c1 c2
      have := b3 c3
      simp only [stMs, sumSizes]
      omega
  theorem arms_weight_p28 (e : Endian) : (arms : List Arm) → tightArms arms = true →
      ∀ (all : List Arm) (disc : Int) (data : Bytes) (q idx idx' : Nat) (v : Val),
        decArms e all arms disc data q idx = .ok (idx', v) → v.weight ≤ maxSize (stArms arms)
    | [], _, _, _, _, _, _, _, _, h => by
      simp only [decArms] at h
      cases h
    | .mk _ d t :: r, ht, all, disc, data, q, idx, idx', v, h => by
      simp only [tightArms, Bool.and_eq_true] at ht
      simp only [decArms] at h
      simp only [stArms, maxSize]
      split at h
      · obtain ⟨⟨w, s⟩, hx, h⟩ := bind_ok h
        simp only [pure, Except.pure] at h
        injection h with h; injection h with h1 h2
        subst h2
        obtain ⟨_, _, c⟩ := ty_weight_p28 e t ht.1.1 _ _ _ _ _ hx
        have := c ht.1.2
        omega
      · have := arms_weight_p28 e r ht.2 all disc data q (idx + 1) idx' v h
        omega
end

/-- the decoded message holds at most as many scalars and payload bytes as decode reports consumed, and at most as
    many as the input has -/
theorem decode_weight_p28 (t : Ty) (data : Bytes) (e : Endian) (v : Val) (n : Nat) (ht : tightTy t = true)
    (h : decode t data e = .ok (v, n)) : v.weight ≤ n ∧ v.weight ≤ data.length := by
  obtain ⟨a, b, _⟩ := ty_weight_p28 e t ht data 0 true v n h
  exact ⟨a, by omega⟩

/-! ### the hypothesis holds for well-formed, hence for accepted schemas -/

mutual
  theorem tight_of_wf_p28 : (t : Ty) → WF.wfTy t = true → tightTy t = true
    | .prim _, _ => rfl
    | .byte, _ => rfl
    | .enum _ _, _ => rfl
    | .struct _ ms, h => by
      simp only [WF.wfTy, Bool.and_eq_true] at h
      simp only [tightTy]
      exact tightMs_of_wf_p28 ms h.1 h.2 ms (fun _ hm => hm) h.2
    | .union _ arms, h => by
      simp only [WF.wfTy, Bool.and_eq_true] at h
      simp only [tightTy]
      exact tightArms_of_wf_p28 arms h.2
  theorem tightMs_of_wf_p28 (all : List Member) (hu : WF.uniq (all.map (·.name)) = true)
      (hall : WF.wfMs all all = true) : (ms : List Member) → (∀ m ∈ ms, m ∈ all) → WF.wfMs all ms = true →
      tightMs all ms = true
    | [], _, _ => rfl
    | .mk n t k :: r, hsub, h => by
      obtain ⟨h1, _, _, _, h5⟩ := (WF.wfMs_cons all n t k r).1 h
      simp only [tightMs, Bool.and_eq_true]
      refine ⟨⟨tight_of_wf_p28 t h1, ?_⟩,
        tightMs_of_wf_p28 all hu hall r (fun m hm => hsub m (List.mem_cons_of_mem _ hm)) h5⟩
      cases k <;> try rfl
      simp only [sizerTyOk, Bool.or_eq_true, Bool.not_eq_true']
      cases hs : isSizer n all with
      | false => exact Or.inl rfl
      | true =>
        obtain ⟨p, rfl, _⟩ := WF.sizer_prim all hu hall n t .plain (hsub _ (List.mem_cons_self ..)) hs
        exact Or.inr rfl
  theorem tightArms_of_wf_p28 : (arms : List Arm) → WF.wfArms arms = true → tightArms arms = true
    | [], _ => rfl
    | .mk n d t :: r, h => by
      obtain ⟨h1, h2, h3⟩ := (WF.wfArms_cons n d t r).1 h
      simp only [tightArms, Bool.and_eq_true]
      exact ⟨⟨tight_of_wf_p28 t h1, h2⟩, tightArms_of_wf_p28 r h3⟩
end

theorem tight_of_accept_p28 (t : Ty) (hf : Accept.front t = true) (hp : Accept.pyRt t = true) : tightTy t = true :=
  tight_of_wf_p28 t (Accept.wf_of_accept t hf hp)

end Py
end Prophy

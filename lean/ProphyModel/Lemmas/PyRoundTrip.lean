/- Python decode inverts encode and consumes exactly the message (property C02) -/
import ProphyModel.Lemmas.PyRoundTripAux
namespace Prophy
open Prophy WF Accept

/-- what a struct member's decode needs to know when the member is a counter -/
abbrev SizerAt (all : List Member) (allv : List Val) (n : String) (t : Ty) : Prop :=
  isSizer n all = true → ∃ p, t = .prim p ∧
    inRange p ((Spec.counter n all allv + sizerShift n all : Nat) : Int) = true ∧
    Spec.counter n all allv ≤ guardLimit

/-! ### `fieldDec` on arrays of non-byte elements -/
theorem Py.fieldDec_fixed_arr (e : Endian) (all : List Member) (n : String) (t : Ty) (c : Nat) (f : Py.St) (data : Bytes)
    (pos : Nat) (hints : List (String × Nat)) (term : Bool) (htb : t ≠ .byte) :
    Py.fieldDec e all n t (.fixed c) f data pos hints term =
      (do if (f.size : Int) > (data.length : Int) - (pos : Int) then .error .prophy
          let (vs, cur) ← Py.decN (fun d q => Py.decTy e t d q false) c data pos 0
          pure (Val.arr vs, cur, hints)) := by
  cases t <;> first | exact absurd rfl htb | rfl

theorem Py.fieldDec_dyn_arr (e : Endian) (all : List Member) (n : String) (t : Ty) (s : String) (sh : Nat) (f : Py.St)
    (data : Bytes) (pos : Nat) (hints : List (String × Nat)) (term : Bool) (htb : t ≠ .byte) :
    Py.fieldDec e all n t (.dyn s sh) f data pos hints term =
      (do let c ← Py.lookupHint hints n
          if (f.size : Int) > (data.length : Int) - (pos : Int) then .error .prophy
          let (vs, cur) ← Py.decN (fun d q => Py.decTy e t d q false) c data pos 0
          pure (Val.arr vs, max cur f.size, hints)) := by
  cases t <;> first | exact absurd rfl htb | rfl

theorem Py.fieldDec_limited_arr (e : Endian) (all : List Member) (n : String) (t : Ty) (s : String) (lim : Nat) (f : Py.St)
    (data : Bytes) (pos : Nat) (hints : List (String × Nat)) (term : Bool) (htb : t ≠ .byte) :
    Py.fieldDec e all n t (.limited s lim) f data pos hints term =
      (do let c ← Py.lookupHint hints n
          if (f.size : Int) > (data.length : Int) - (pos : Int) then .error .prophy
          let (vs, cur) ← Py.decN (fun d q => Py.decTy e t d q false) (min c lim) data pos 0
          if c > lim then .error .prophy
          pure (Val.arr vs, max cur f.size, hints)) := by
  cases t <;> first | exact absurd rfl htb | rfl

def Ty.isComposite : Ty → Bool
  | .struct _ _ => true
  | .union _ _ => true
  | _ => false

theorem Py.fieldDec_greedy_comp (e : Endian) (all : List Member) (n : String) (t : Ty) (f : Py.St)
    (data : Bytes) (pos : Nat) (hints : List (String × Nat)) (term : Bool) (htc : t.isComposite = true) :
    Py.fieldDec e all n t .greedy f data pos hints term =
      (do if (f.size : Int) > (data.length : Int) - (pos : Int) then .error .prophy
          let (vs, cur) ← Py.decWhile (fun d q => Py.decTy e t d q false) data.length data pos 0
          pure (Val.arr vs, max cur f.size, hints)) := by
  cases t <;> first | (simp [Ty.isComposite] at htc; done) | rfl

theorem Py.fieldDec_greedy_scalar (e : Endian) (all : List Member) (n : String) (t : Ty) (f : Py.St)
    (data : Bytes) (pos : Nat) (hints : List (String × Nat)) (term : Bool) (htb : t ≠ .byte)
    (htc : t.isComposite = false) :
    Py.fieldDec e all n t .greedy f data pos hints term =
      (do if (f.size : Int) > (data.length : Int) - (pos : Int) then .error .prophy
          let remaining : Int := (data.length : Int) - (pos : Int)
          let esz := (Py.stTy t).size
          let cnt := if remaining ≤ 0 then 0 else (remaining.toNat / esz) + (if remaining.toNat % esz = 0 then 0 else 1)
          let (vs, cur) ← Py.decN (fun d q => Py.decTy e t d q false) cnt data pos 0
          pure (Val.arr vs, max cur f.size, hints)) := by
  cases t <;> first | exact absurd rfl htb | (simp [Ty.isComposite] at htc; done) | rfl

theorem greedy_cnt (dl pos esz len : Nat) (hdl : dl = pos + len * esz) (hesz : 0 < esz) :
    (if ((dl : Int) - (pos : Int)) ≤ 0 then 0
     else ((dl : Int) - (pos : Int)).toNat / esz + (if ((dl : Int) - (pos : Int)).toNat % esz = 0 then 0 else 1)) = len := by
  have h : ((dl : Int) - (pos : Int)).toNat = len * esz := by omega
  rw [h, Nat.mul_mod_left, Nat.mul_div_cancel _ hesz]
  by_cases hl : len = 0
  · subst hl; simp [hdl]
  · have : 0 < len * esz := Nat.mul_pos (by omega) hesz
    rw [if_neg (by omega)]; simp

theorem hasElems_mem (t : Ty) : (xs : List Val) → hasElems t xs = true → ∀ x ∈ xs,
    x.isCounter = false ∧ hasField [] .plain t x = true
  | [], _, x, hx => by cases hx
  | y :: ys, h, x, hx => by
    simp only [hasElems, Bool.and_eq_true, Bool.not_eq_true'] at h
    rcases List.mem_cons.1 hx with rfl | hr
    · exact h.1
    · exact hasElems_mem t ys h.2 x hr

mutual
  theorem dec_field (e : Endian) : (v : Val) → ∀ (all : List Member) (allv : List Val) (n : String) (t : Ty) (k : MKind)
      (data pre post : Bytes) (pos : Nat) (hints : List (String × Nat)) (terminal : Bool),
      front t = true → pyRt t = true → (needsFixed k = true → Spec.fixedTy t = true) →
      (isArrayKind k = true → (Py.stTy t).unl = false) →
      hasField all k t v = true → agreeTy t v = true → guardTy t v = true →
      ((Py.stTy t).unl = true → Spec.galTy t v = true) →
      ((Py.fieldSt (Py.stTy t) k).unl = true → post = []) → (terminal = true → post = []) →
      Spec.alignMember (.mk n t k) ∣ pos →
      v.isCounter = isSizer n all → SizerAt all allv n t →
      (∀ s, k.sizer? = some s → hints.lookup n = some v.len) →
      data = pre ++ (Spec.render e (Spec.fieldChunks all allv n t k v) ++ post) → pre.length = pos →
      Py.fieldDec e all n t k (Py.fieldSt (Py.stTy t) k) data pos hints terminal =
        .ok (v, Spec.clen (Spec.fieldChunks all allv n t k v),
          if isSizer n all then boundHints all n (Spec.counter n all allv) ++ hints else hints)
    | .sizer, all, allv, n, t, k, data, pre, post, pos, hints, terminal, hft, hpt, hfx, hnu, hh, hag, hgd, hgl, hpost, hterm,
        hal, hc, hsz, hhint, hd, hpos => by
      have hk : k = .plain := by cases k <;> simp_all [hasField]
      subst hk
      have hs : isSizer n all = true := by simpa [Val.isCounter] using hc.symm
      obtain ⟨p, rfl, hr, hg⟩ := hsz hs
      have hd' : data = pre ++ (scalarBytes e p.size (Spec.counter n all allv + sizerShift n all) ++ post) := by
        rw [hd]; simp [Spec.fieldChunks, Spec.render, Spec.Chunk.render, Spec.sizeTy]
      have h1 := Py.decSizer_at e p _ _ data pre post pos hd' hpos hr hg
      rw [Py.fieldDec_sizer_ok e all n (.prim p) _ data pos hints terminal _ _ hs (by simpa [Py.sizerPrim] using h1)]
      simp [hs, Spec.fieldChunks, Spec.clen, Spec.Chunk.len, Spec.sizeTy]
    | .int i, all, allv, n, t, k, data, pre, post, pos, hints, terminal, hft, hpt, hfx, hnu, hh, hag, hgd, hgl, hpost, hterm,
        hal, hc, hsz, hhint, hd, hpos => by
      have hns : isSizer n all = false := by simpa [Val.isCounter] using hc.symm
      have hk : k = .plain := by cases k <;> cases t <;> simp_all [hasField]
      subst hk
      rw [Spec.fieldChunks_plain all allv n t _ rfl] at hd ⊢
      simp only [hns, Bool.false_eq_true, if_false]
      apply Py.fieldDec_plain_ok _ _ _ _ _ _ _ _ _ _ _ hns
      cases t with
      | prim p =>
        have hr : inRange p i = true := by simpa [hasField] using hh
        have hd' : data = pre ++ (scalarBytes e p.size (toUnsigned p.size i) ++ post) := by
          rw [hd]; simp [Spec.chunksTy, Spec.render, Spec.Chunk.render]
        simp [Py.decTy, Py.decScalar_at e p i data pre post pos hd' hpos hr, bind, Except.bind, pure, Except.pure,
          Spec.chunksTy, Spec.clen, Spec.Chunk.len]
      | byte =>
        have hr : inRange .u8 i = true := by simpa [hasField] using hh
        have hd' : data = pre ++ (scalarBytes e (Prim.size .u8) (toUnsigned (Prim.size .u8) i) ++ post) := by
          rw [hd]; simp [Spec.chunksTy, Spec.render, Spec.Chunk.render, Prim.size]
        simp [Py.decTy, Py.decScalar_at e .u8 i data pre post pos hd' hpos hr, bind, Except.bind, pure, Except.pure,
          Spec.chunksTy, Spec.clen, Spec.Chunk.len, Prim.size]
      | enum nm es =>
        have hwt := Accept.wf_of_accept _ hft hpt
        have hany : es.any (fun e => (e.2 : Int) == i) = true := by simpa [hasField] using hh
        have hr : inRange .u32 i = true := inRange_enum es i (by simpa [wfTy] using hwt) hany
        have hd' : data = pre ++ (scalarBytes e (Prim.size .u32) (toUnsigned (Prim.size .u32) i) ++ post) := by
          rw [hd]; simp [Spec.chunksTy, Spec.render, Spec.Chunk.render, Prim.size]
        have hck : Py.checkEnum es i = .ok i := by
          unfold Py.checkEnum
          rw [if_pos]
          simpa using hany
        simp [Py.decTy, Py.decScalar_at e .u32 i data pre post pos hd' hpos hr, hck, bind, Except.bind, pure, Except.pure,
          Spec.chunksTy, Spec.clen, Spec.Chunk.len, Prim.size]
      | struct nm ms => simp [hasField] at hh
      | union nm arms => simp [hasField] at hh
    | .struct vs, all, allv, n, t, k, data, pre, post, pos, hints, terminal, hft, hpt, hfx, hnu, hh, hag, hgd, hgl, hpost, hterm,
        hal, hc, hsz, hhint, hd, hpos => by
      have hns : isSizer n all = false := by simpa [Val.isCounter] using hc.symm
      cases t with
      | struct nm ms =>
        have hk : k = .plain := by cases k <;> simp_all [hasField]
        subst hk
        rw [Spec.fieldChunks_plain all allv n _ _ rfl] at hd ⊢
        simp only [hns, Bool.false_eq_true, if_false]
        apply Py.fieldDec_plain_ok _ _ _ _ _ _ _ _ _ _ _ hns
        have hhm : hasMs ms ms vs = true := by simpa [hasField] using hh
        obtain ⟨hne, huq, hw, hfm, hpm⟩ := Accept.struct_facts nm ms hft hpt
        simp only [agreeTy, Bool.and_eq_true] at hag
        have hgdm : guardFields ms ms vs = true := by simpa [guardTy] using hgd
        have hsd := sizerDec ms vs huq hw hhm hgdm
        have hlens := lensOk_of_agree ms vs hag.1
        have hsa : (Py.structSt (Py.stMs ms)).align = Spec.alignMs ms := by simp [Py.structSt, Py.stMs_align]
        have halS : Spec.alignMs ms ∣ pos := by
          simpa [Spec.alignMember, Member.kind, Member.ty, Spec.alignTy] using hal
        have hunl : (Py.stMs ms).any (·.unl) = true → (Py.stTy (.struct nm ms)).unl = true := by
          intro h; simpa [Py.stTy, Py.structSt] using h
        have hq0 : (Py.stMs ms).any (·.unl) = true →
            padTo (Spec.clen (Spec.chunksMs ms vs ms vs 0 false)) (Spec.alignMs ms) = 0 ∧ Spec.galMs ms vs = true := by
          intro hu
          have hg := hgl (hunl hu)
          have hus := Accept.unl_spec (.struct nm ms) hpt (hunl hu)
          simp only [Spec.unlTy] at hus
          simp only [Spec.galTy, hus, Bool.not_true, Bool.false_or, Bool.and_eq_true, beq_iff_eq] at hg
          exact hg
        have hd1 : data = pre ++ (Spec.render e (Spec.chunksMs ms vs ms vs 0 false) ++
            (zeros (padTo (Spec.clen (Spec.chunksMs ms vs ms vs 0 false)) (Spec.alignMs ms)) ++ post)) := by
          rw [hd]; simp [Spec.chunksTy, Spec.render, Spec.Chunk.render, List.append_assoc]
        have hIH := dec_ms e vs ms ms vs [] data pre _ [] 0 false pos pos (by simp) huq hfm hpm hhm hag.2 hgdm
          (fun hu => (hq0 hu).2)
          (fun hu => by rw [(hq0 hu).1, hpost (hunl hu)]; rfl)
          halS (by omega) hd1 hlens (HintInv.nil ms vs ms) hsd (by simp [aheadAl, padTo_one, hpos])
        simp only [Py.decTy, hIH, bind, Except.bind, hsa]
        have hpq : padTo (pre.length + Spec.clen (Spec.chunksMs ms vs ms vs 0 false)) (Spec.alignMs ms) =
            padTo (Spec.clen (Spec.chunksMs ms vs ms vs 0 false)) (Spec.alignMs ms) :=
          padTo_add_mul pre.length _ _ (by rw [hpos]; exact halS)
        have hlen : data.length = pre.length + Spec.clen (Spec.chunksMs ms vs ms vs 0 false) +
            padTo (Spec.clen (Spec.chunksMs ms vs ms vs 0 false)) (Spec.alignMs ms) + post.length := by
          rw [hd1]; simp only [List.length_append, Spec.render_length, zeros_length]; omega
        rw [hpq]
        have hcnd : ¬ ((terminal && decide (pre.length + Spec.clen (Spec.chunksMs ms vs ms vs 0 false) +
            padTo (Spec.clen (Spec.chunksMs ms vs ms vs 0 false)) (Spec.alignMs ms) < data.length)) = true) := by
          cases terminal with
          | false => simp
          | true =>
            have hp := hterm rfl
            subst hp
            simp only [List.length_nil, Nat.add_zero] at hlen
            simp only [Bool.true_and, decide_eq_true_eq]
            omega
        rw [if_neg hcnd]
        simp only [pure, Except.pure, Spec.chunksTy, Spec.clen_append, clen_cons, clen_nil, Spec.Chunk.len]
        congr 2
        omega
      | prim p => cases k <;> simp [hasField] at hh
      | byte => cases k <;> simp [hasField] at hh
      | enum nm es => cases k <;> simp [hasField] at hh
      | union nm arms => cases k <;> simp [hasField] at hh
    | .union idx x, all, allv, n, t, k, data, pre, post, pos, hints, terminal, hft, hpt, hfx, hnu, hh, hag, hgd, hgl, hpost, hterm,
        hal, hc, hsz, hhint, hd, hpos => by
      have hns : isSizer n all = false := by simpa [Val.isCounter] using hc.symm
      cases t with
      | union nm arms =>
        have hk : k = .plain := by cases k <;> simp_all [hasField]
        subst hk
        rw [Spec.fieldChunks_plain all allv n _ _ rfl] at hd ⊢
        simp only [hns, Bool.false_eq_true, if_false]
        apply Py.fieldDec_plain_ok _ _ _ _ _ _ _ _ _ _ _ hns
        have hhU := hh
        simp only [hasField, Bool.true_and] at hh
        cases ha : arms[idx]? with
        | none => simp [ha] at hh
        | some a =>
          obtain ⟨an, d, t'⟩ := a
          simp only [ha, Bool.and_eq_true, Bool.not_eq_true'] at hh
          have hwt := Accept.wf_of_accept _ hft hpt
          have hfxU := Spec.fixedTy_union_of_wf nm arms hwt
          simp only [front, Bool.and_eq_true] at hft
          simp only [pyRt, Bool.and_eq_true] at hpt
          have hft' := Accept.frontArms_get arms hft.2 idx _ ha
          obtain ⟨hpt', hnd⟩ := Accept.pyRtArms_get arms hpt.2 idx _ ha
          simp only [Arm.ty] at hft' hpt' hnd
          have hun : (Py.stTy t').unl = false := by
            cases h : (Py.stTy t').unl with
            | false => rfl
            | true => have := Py.stTy_unl_dyn t' h; rw [hnd] at this; cases this
          have hd32 : d < 2 ^ 32 := by
            have := List.all_eq_true.1 hft.1.2 (.mk an d t') (List.mem_of_getElem? ha)
            exact of_decide_eq_true this
          have hus : (Py.unionSt (Py.stArms arms)).size = Spec.sizeTy (.union nm arms) :=
            Py.stTy_size (.union nm arms) hfxU
          have hua : (Py.unionSt (Py.stArms arms)).align = max 4 (Spec.alignArms arms) := by
            simp [Py.unionSt, Py.stArms_align, Py.flagSize]
          have hcl : Spec.clen (Spec.chunksTy (.union nm arms) (.union idx x)) = Spec.sizeTy (.union nm arms) :=
            Spec.clen_fixed _ _ hfxU rfl hhU
          have hnm : Spec.sizeTy (.union "" arms) = Spec.sizeTy (.union nm arms) := by simp [Spec.sizeTy]
          have hd0 : data = pre ++ (scalarBytes e (Prim.size .u32) d ++ (zeros (max 4 (Spec.alignArms arms) - 4) ++
              (Spec.render e (Spec.chunksTy t' x) ++ (zeros (Spec.sizeTy (.union nm arms) - max 4 (Spec.alignArms arms)
                - Spec.clen (Spec.chunksTy t' x)) ++ post)))) := by
            rw [hd]
            simp [Spec.chunksTy, ha, Spec.render, Spec.Chunk.render, Spec.flagSize, List.append_assoc, Prim.size, hnm]
          have h0 := Py.decScalar_nat_at e .u32 d data pre _ pos hd0 hpos (inRange_u32 d hd32)
          have hdisc := Accept.uniq_disc arms hft.1.1.2 idx _ ha
          have hpick := Py.decArms_pick e arms data (pos + max 4 (Spec.alignArms arms)) d an t' arms 0 idx ha
            (fun j b hj hb => hdisc j b hj hb)
          have hd1 : data = (pre ++ scalarBytes e 4 d ++ zeros (max 4 (Spec.alignArms arms) - 4)) ++
              (Spec.render e (Spec.fieldChunks [] [] "" t' .plain x) ++
                (zeros (Spec.sizeTy (.union nm arms) - max 4 (Spec.alignArms arms)
                  - Spec.clen (Spec.chunksTy t' x)) ++ post)) := by
            rw [hd0, Spec.fieldChunks_plain [] [] "" t' x hh.1]
            simp [List.append_assoc, Prim.size]
          have halU : max 4 (Spec.alignArms arms) ∣ pos := by
            simpa [Spec.alignMember, Member.kind, Member.ty, Spec.alignTy, Spec.flagSize] using hal
          have h1 := dec_field e x [] [] "" t' .plain data _ _ (pos + max 4 (Spec.alignArms arms)) [] false hft' hpt'
            (by intro h; cases h) (by intro h; cases h) hh.2 (by simpa [agreeTy, ha] using hag)
            (by simpa [guardTy, ha] using hgd)
            (by intro h; rw [hun] at h; cases h) (by intro h; simp only [Py.fieldSt] at h; rw [hun] at h; cases h)
            (by intro h; cases h)
            (by
              have h1 : Spec.alignTy t' ∣ max 4 (Spec.alignArms arms) := Spec.alignArm_dvd arms idx _ ha
              have : Spec.alignTy t' ∣ pos + max 4 (Spec.alignArms arms) := (Nat.dvd_add_right (Nat.dvd_trans h1 halU)).2 h1
              simpa [Spec.alignMember, Member.kind, Member.ty] using this)
            (by rw [hh.1]; rfl) (by intro h; cases h) (by intro s h; cases h) hd1
            (by simp [hpos]; omega)
          have h1' := Py.decTy_of_fieldDec e t' _ data _ _ _ false x _ h1
          have hlen : data.length = pos + Spec.sizeTy (.union nm arms) + post.length := by
            rw [hd, ← hpos]; simp only [List.length_append, Spec.render_length, hcl]; omega
          simp only [Py.decTy, h0, bind, Except.bind, hua, hpick, h1']
          have hc1 : ¬ ((data.length : Int) - (pos : Int) < ((Py.unionSt (Py.stArms arms)).size : Int)) := by
            rw [hus]; omega
          have hc2 : ¬ ((terminal && decide ((data.length : Int) - (pos : Int) >
              ((Py.unionSt (Py.stArms arms)).size : Int))) = true) := by
            cases terminal with
            | false => simp
            | true =>
              have hp := hterm rfl
              subst hp
              rw [hus]
              simp only [List.length_nil, Nat.add_zero] at hlen
              simp only [Bool.true_and, decide_eq_true_eq]
              omega
          simp only [pure, Except.pure]
          rw [if_neg hc1, if_neg hc2]
          simp [hus, hcl]
      | prim p => cases k <;> simp [hasField] at hh
      | byte => cases k <;> simp [hasField] at hh
      | enum nm es => cases k <;> simp [hasField] at hh
      | struct nm ms => cases k <;> simp [hasField] at hh
    | .absent, all, allv, n, t, k, data, pre, post, pos, hints, terminal, hft, hpt, hfx, hnu, hh, hag, hgd, hgl, hpost, hterm,
        hal, hc, hsz, hhint, hd, hpos => by
      have hk : k = .optional := by cases k <;> simp_all [hasField]
      subst hk
      have hns : isSizer n all = false := by simpa [Val.isCounter] using hc.symm
      have hsz' := Py.stTy_size t (hfx rfl)
      have hal' := Py.stTy_align t
      have hz : zeros (max 4 (Spec.alignTy t) + Spec.sizeTy t) = zeros 4 ++ zeros (max 4 (Spec.alignTy t) + Spec.sizeTy t - 4) := by
        rw [← zeros_add]; congr 1; omega
      have hd' : data = pre ++ (scalarBytes e (Prim.size .u32) 0 ++ (zeros (max 4 (Spec.alignTy t) + Spec.sizeTy t - 4) ++ post)) := by
        rw [hd]
        simp only [Spec.fieldChunks, Spec.render, Spec.Chunk.render, Spec.flagSize, List.append_nil, hz, List.append_assoc,
          scalarBytes_zero, Prim.size]
      have h1 := Py.decScalar_nat_at e .u32 0 data pre _ pos hd' hpos (by decide)
      simp [Py.fieldDec, h1, bind, Except.bind, pure, Except.pure, hns, Py.fieldSt, hsz', hal', Spec.fieldChunks, Spec.clen,
        Spec.Chunk.len, Spec.flagSize, Py.flagSize]
    | .present x, all, allv, n, t, k, data, pre, post, pos, hints, terminal, hft, hpt, hfx, hnu, hh, hag, hgd, hgl, hpost, hterm,
        hal, hc, hsz, hhint, hd, hpos => by
      have hk : k = .optional := by cases k <;> simp_all [hasField]
      subst hk
      have hns : isSizer n all = false := by simpa [Val.isCounter] using hc.symm
      simp only [hasField, Bool.true_and, Bool.and_eq_true, Bool.not_eq_true'] at hh
      have hx : hasField [] .plain t x = true := by rw [hasField_plain_indep [] all]; exact hh.2
      have hfxt := hfx rfl
      have hal' := Py.stTy_align t
      have hun := Accept.not_unl_of_fixed t hft hpt hfxt
      have hm4 : 4 ≤ max 4 (Spec.alignTy t) := by omega
      have hd0 : data = pre ++ (scalarBytes e (Prim.size .u32) 1 ++ (zeros (max 4 (Spec.alignTy t) - 4) ++
          (Spec.render e (Spec.chunksTy t x) ++ post))) := by
        rw [hd]
        simp [Spec.fieldChunks, Spec.render, Spec.Chunk.render, Spec.flagSize, List.append_assoc, Prim.size]
      have h0 := Py.decScalar_nat_at e .u32 1 data pre _ pos hd0 hpos (by decide)
      have hd1 : data = (pre ++ scalarBytes e 4 1 ++ zeros (max 4 (Spec.alignTy t) - 4)) ++
          (Spec.render e (Spec.fieldChunks [] [] "" t .plain x) ++ post) := by
        rw [hd, Spec.fieldChunks_plain [] [] "" t x hh.1]
        simp [Spec.fieldChunks, Spec.render, Spec.Chunk.render, Spec.flagSize, List.append_assoc]
      have halm : max 4 (Spec.alignTy t) ∣ pos := by
        simpa [Spec.alignMember, Member.kind, Member.ty, Spec.flagSize] using hal
      have h1 := dec_field e x [] [] "" t .plain data _ post (pos + max 4 (Spec.alignTy t)) [] false hft hpt
        (by intro h; cases h) (by intro h; cases h) hx (by simpa [agreeTy] using hag) (by simpa [guardTy] using hgd)
        (by intro h; rw [hun] at h; cases h) (by intro h; simp only [Py.fieldSt] at h; rw [hun] at h; cases h)
        (by intro h; cases h)
        (by
          have h1 : Spec.alignTy t ∣ max 4 (Spec.alignTy t) := IsAl.dvd_max_right IsAl.four (Spec.alignTy_isAl t)
          have : Spec.alignTy t ∣ pos + max 4 (Spec.alignTy t) := (Nat.dvd_add_right (Nat.dvd_trans h1 halm)).2 h1
          simpa [Spec.alignMember, Member.kind, Member.ty] using this)
        (by rw [hh.1]; rfl) (by intro h; cases h) (by intro s h; cases h) hd1
        (by simp [hpos]; omega)
      have h1' := Py.decTy_of_fieldDec e t _ data _ _ _ false x _ h1
      rw [Spec.fieldChunks_plain [] [] "" t x hh.1] at h1'
      simp [Py.fieldDec, h0, h1', bind, Except.bind, pure, Except.pure, hns, Py.fieldSt, hal', Spec.fieldChunks, Spec.clen,
        Spec.Chunk.len, Spec.flagSize, Py.flagSize]
      omega
    | .bytes b, all, allv, n, t, k, data, pre, post, pos, hints, terminal, hft, hpt, hfx, hnu, hh, hag, hgd, hgl, hpost, hterm,
        hal, hc, hsz, hhint, hd, hpos => by
      have ht : t = .byte := by cases t <;> simp_all [hasField]
      subst ht
      have hns : isSizer n all = false := by simpa [Val.isCounter] using hc.symm
      have hd' : data = pre ++ (b ++ (Spec.render e ((Spec.fieldChunks all allv n .byte k (.bytes b)).drop 1) ++ post)) := by
        rw [hd]; cases k <;> first | (exfalso; simp [hasField] at hh; done) | simp [Spec.fieldChunks, Spec.render, Spec.Chunk.render]
      have hsl := Py.slice_at data pre b _ pos hd' hpos
      have hlen : data.length = pos + b.length + (Spec.render e ((Spec.fieldChunks all allv n .byte k (.bytes b)).drop 1)).length
          + post.length := by
        rw [hd', ← hpos]; simp only [List.length_append]; omega
      simp only [hns, Bool.false_eq_true, if_false]
      cases k with
      | plain => simp [hasField] at hh
      | optional => simp [hasField] at hh
      | fixed c =>
        have hl : b.length = c := by simpa [hasField] using hh
        subst hl
        simp only [Py.fieldDec]
        rw [if_neg (by omega), hsl]
        simp [pure, Except.pure, Spec.fieldChunks, Spec.clen, Spec.Chunk.len]
      | dyn s sh =>
        have hh' : Py.lookupHint hints n = .ok b.length := by
          unfold Py.lookupHint; rw [hhint s rfl]; rfl
        simp only [Py.fieldDec, hh', bind, Except.bind]
        rw [if_neg (by omega), hsl]
        simp [pure, Except.pure, Spec.fieldChunks, Spec.clen, Spec.Chunk.len]
      | limited s c =>
        have hl : b.length ≤ c := by
          simp only [hasField, Bool.true_and, Bool.and_eq_true, decide_eq_true_eq] at hh; exact hh.1
        have hh' : Py.lookupHint hints n = .ok b.length := by
          unfold Py.lookupHint; rw [hhint s rfl]; rfl
        have hrl : (Spec.render e ((Spec.fieldChunks all allv n .byte (.limited s c) (.bytes b)).drop 1)).length = c - b.length := by
          simp [Spec.fieldChunks, Spec.clen, Spec.Chunk.len]
        rw [hrl] at hlen
        simp only [Py.fieldDec, hh', bind, Except.bind]
        rw [if_neg (by omega), if_neg (by omega), hsl, if_neg (by omega)]
        simp [pure, Except.pure, Spec.fieldChunks, Spec.clen, Spec.Chunk.len]
        omega
      | greedy =>
        have hp : post = [] := hpost rfl
        subst hp
        have hd2 : data = pre ++ b := by
          rw [hd]; simp [Spec.fieldChunks, Spec.render, Spec.Chunk.render]
        have hdr := Py.drop_at data pre b pos hd2 hpos
        have hlen2 : data.length = pos + b.length := by rw [hd2, ← hpos]; simp
        simp only [Py.fieldDec]
        rw [if_neg (by omega), hdr]
        simp [pure, Except.pure, Spec.fieldChunks, Spec.clen, Spec.Chunk.len]
        omega
    | .arr xs, all, allv, n, t, k, data, pre, post, pos, hints, terminal, hft, hpt, hfx, hnu, hh, hag, hgd, hgl, hpost, hterm,
        hal, hc, hsz, hhint, hd, hpos => by
      have hns : isSizer n all = false := by simpa [Val.isCounter] using hc.symm
      have htb : t ≠ .byte := by intro h; subst h; cases k <;> simp [hasField] at hh
      have hel : hasElems t xs = true := by
        cases t <;> simp_all [hasField]
      have hka : isArrayKind k = true := by
        cases k <;> first | rfl | (cases t <;> simp [hasField] at hh)
      have hun := hnu hka
      have hagE : agreeElems t xs = true := by simpa [agreeTy] using hag
      have hgdE : guardElems t xs = true := by simpa [guardTy] using hgd
      have halT : Spec.alignTy t ∣ pos + 0 := by
        cases k <;> first | (simp [isArrayKind] at hka; done) | simpa [Spec.alignMember, Member.kind, Member.ty] using hal
      have hd1 : data = pre ++ (Spec.render e (Spec.chunksElems t xs) ++
          (Spec.render e ((Spec.fieldChunks all allv n t k (.arr xs)).drop (Spec.chunksElems t xs).length) ++ post)) := by
        rw [hd]
        cases k <;> first | (simp [isArrayKind] at hka; done) | simp [Spec.fieldChunks, Spec.render, List.append_assoc]
      have IH := dec_elems e xs t data pre _ pos 0 hft hpt hun hel hagE hgdE halT hd1 (by simpa using hpos)
      rw [Nat.zero_add] at IH
      simp only [hns, Bool.false_eq_true, if_false]
      have hlen : data.length = pos + Spec.clen (Spec.chunksElems t xs) +
          (Spec.render e ((Spec.fieldChunks all allv n t k (.arr xs)).drop (Spec.chunksElems t xs).length)).length + post.length := by
        rw [hd1, ← hpos]; simp only [List.length_append, Spec.render_length]; omega
      cases k with
      | plain => simp [isArrayKind] at hka
      | optional => simp [isArrayKind] at hka
      | fixed c =>
        have hl : xs.length = c := by cases t <;> simp_all [hasField]
        subst hl
        have hfxt := hfx rfl
        have hsz' := Py.stTy_size t hfxt
        have hcl := fixed_elems xs t hfxt hel
        -- the guard of `decode_array` does not fire: the encoded array occupies exactly `f.size` bytes from `pos`
        have hg0 : ¬ (((Py.fieldSt (Py.stTy t) (.fixed xs.length)).size : Int) > (data.length : Int) - (pos : Int)) := by
          show ¬ (((xs.length * (Py.stTy t).size : Nat) : Int) > _); rw [hsz']; omega
        rw [Py.fieldDec_fixed_arr _ _ _ _ _ _ _ _ _ _ htb]
        simp only [bind, Except.bind]
        rw [if_neg hg0, IH.1]
        simp [pure, Except.pure, Spec.fieldChunks]
      | dyn s sh =>
        have hh' : Py.lookupHint hints n = .ok xs.length := by
          unfold Py.lookupHint; rw [hhint s rfl]; rfl
        have hg0 : ¬ (((Py.fieldSt (Py.stTy t) (.dyn s sh)).size : Int) > (data.length : Int) - (pos : Int)) := by
          show ¬ (((0 : Nat) : Int) > _); omega
        rw [Py.fieldDec_dyn_arr _ _ _ _ _ _ _ _ _ _ _ htb, hh']
        simp only [bind, Except.bind]
        rw [if_neg hg0]
        simp [IH.1, pure, Except.pure, Spec.fieldChunks, Py.fieldSt]
      | limited s lim =>
        have hl : xs.length ≤ lim := by cases t <;> simp_all [hasField]
        have hh' : Py.lookupHint hints n = .ok xs.length := by
          unfold Py.lookupHint; rw [hhint s rfl]; rfl
        have hfxt := hfx rfl
        have hsz' := Py.stTy_size t hfxt
        have hcl := fixed_elems xs t hfxt hel
        have hmul := Nat.mul_le_mul_right (Spec.sizeTy t) hl
        have hrl : (Spec.render e ((Spec.fieldChunks all allv n t (.limited s lim) (.arr xs)).drop
            (Spec.chunksElems t xs).length)).length = lim * Spec.sizeTy t - Spec.clen (Spec.chunksElems t xs) := by
          simp [Spec.fieldChunks, Spec.clen, Spec.Chunk.len]
        rw [hrl] at hlen
        have hg0 : ¬ (((Py.fieldSt (Py.stTy t) (.limited s lim)).size : Int) > (data.length : Int) - (pos : Int)) := by
          show ¬ (((lim * (Py.stTy t).size : Nat) : Int) > _); rw [hsz']; omega
        rw [Py.fieldDec_limited_arr _ _ _ _ _ _ _ _ _ _ _ htb, hh']
        simp only [bind, Except.bind]
        rw [if_neg hg0, Nat.min_eq_left hl, IH.1]
        dsimp only
        rw [if_neg (by omega)]
        simp [pure, Except.pure, Spec.fieldChunks, Spec.clen, Spec.Chunk.len, Py.fieldSt, hsz']
        omega
      | greedy =>
        have hp : post = [] := hpost rfl
        subst hp
        have hd2 : data = pre ++ (Spec.render e (Spec.chunksElems t xs) ++ []) := by
          rw [hd]; simp [Spec.fieldChunks]
        have hlen2 : data.length = pos + Spec.clen (Spec.chunksElems t xs) := by
          rw [hd2, ← hpos]; simp
        have IH2 := dec_elems e xs t data pre [] pos 0 hft hpt hun hel hagE hgdE halT hd2 (by simpa using hpos)
        rw [Nat.zero_add] at IH2
        have hg0 : ¬ (((Py.fieldSt (Py.stTy t) .greedy).size : Int) > (data.length : Int) - (pos : Int)) := by
          show ¬ (((0 : Nat) : Int) > _); omega
        cases htc : t.isComposite with
        | true =>
          have hposx : ∀ x ∈ xs, 0 < Spec.clen (Spec.chunksTy t x) := fun x hx =>
            Spec.clen_pos t x hft hpt hun (hasElems_mem t xs hel x hx).1 (hasElems_mem t xs hel x hx).2
          have hle := Spec.length_le_clen_elems t xs hposx
          have hw := IH2.2 rfl data.length (by omega)
          rw [Py.fieldDec_greedy_comp _ _ _ _ _ _ _ _ _ htc]
          simp only [bind, Except.bind]
          rw [if_neg hg0, hw]
          simp [pure, Except.pure, Spec.fieldChunks, Py.fieldSt]
        | false =>
          have hfxt : Spec.fixedTy t = true := by cases t <;> simp_all [Ty.isComposite, Spec.fixedTy]
          have hsz' := Py.stTy_size t hfxt
          have hcl := fixed_elems xs t hfxt hel
          have hszp : 0 < Spec.sizeTy t := by
            cases t with
            | prim p => exact Py.size_pos p
            | byte => exact absurd rfl htb
            | enum _ _ => simp [Spec.sizeTy]
            | struct _ _ => simp [Ty.isComposite] at htc
            | union _ _ => simp [Ty.isComposite] at htc
          have hcnt := greedy_cnt data.length pos (Spec.sizeTy t) xs.length (by rw [hlen2, hcl]) hszp
          rw [Py.fieldDec_greedy_scalar _ _ _ _ _ _ _ _ _ htb htc]
          simp only [bind, Except.bind, hsz']
          rw [if_neg hg0, hcnt, IH2.1]
          simp [pure, Except.pure, Spec.fieldChunks, Py.fieldSt]
  theorem dec_ms (e : Endian) : (vs : List Val) → ∀ (ms all : List Member) (allv : List Val) (before : List Member)
      (data pre post : Bytes) (hints : List (String × Nat)) (off : Nat) (ad : Bool) (base p0 : Nat),
      all = before ++ ms → WF.uniq (all.map (·.name)) = true →
      frontMs all ms before = true → pyRtMs all ms before = true →
      hasMs all ms vs = true → agreeFields ms vs = true → guardFields all ms vs = true →
      ((Py.stMs all).any (·.unl) = true → Spec.galMs ms vs = true) →
      ((Py.stMs all).any (·.unl) = true → post = []) →
      Spec.alignMs all ∣ base → pre.length = base + off →
      data = pre ++ (Spec.render e (Spec.chunksMs all allv ms vs off ad) ++ post) →
      lensOk all allv ms vs → HintInv all allv hints before ms → SizerDec all allv →
      p0 = pre.length + padTo off (aheadAl ad ms) →
      Py.decMs e all ms (Py.stMs ms) (Py.partials (Py.stMs ms)) data p0 hints =
        .ok (vs, pre.length + Spec.clen (Spec.chunksMs all allv ms vs off ad))
    | [], ms, all, allv, before, data, pre, post, hints, off, ad, base, p0, hall, huq, hfm, hpm, hh, hag, hgd, hgl, hpost,
        hbase, hpre, hd, hlens, hinv, hsd, hp0 => by
      have hms : ms = [] := by cases ms <;> simp_all [hasMs]
      subst hms
      have hp : padTo off (aheadAl ad []) = 0 := by cases ad <;> simp [aheadAl, Spec.blockAlign, padTo_one]
      simp [Py.decMs, hp0, hp, Spec.chunksMs, Spec.clen, pure, Except.pure]
    | v :: vs, ms, all, allv, before, data, pre, post, hints, off, ad, base, p0, hall, huq, hfm, hpm, hh, hag, hgd, hgl, hpost,
        hbase, hpre, hd, hlens, hinv, hsd, hp0 => by
      cases ms with
      | nil => simp [hasMs] at hh
      | cons m r =>
        obtain ⟨n, t, k⟩ := m
        have hw := Accept.wfMs_of_accept all (.mk n t k :: r) before hall hfm hpm
        obtain ⟨hwt, hfx, _, _, hwr⟩ := (wfMs_cons all n t k r).1 hw
        obtain ⟨hft, _, hfr⟩ := Accept.frontMs_cons all n t k r before hfm
        obtain ⟨hpt, h2, h3, h4, h5, h6, _, hpr⟩ := (Accept.pyRtMs_cons all n t k r before).1 hpm
        obtain ⟨hcnt, hf, hhr⟩ := (hasMs_cons all n t k r v vs).1 hh
        simp only [agreeFields, Bool.and_eq_true] at hag
        simp only [guardFields, Bool.and_eq_true] at hgd
        simp only [lensOk] at hlens
        have hmem : Member.mk n t k ∈ all := by rw [hall]; simp
        have hsub : ∀ m ∈ r, m ∈ all := by intro m hm; rw [hall]; simp [hm]
        have hA := Spec.alignMs_isAl all
        have hdm : Spec.alignMember (.mk n t k) ∣ Spec.alignMs all := Spec.alignMember_dvd_alignMs _ all hmem
        have hdb : Spec.blockAlign r ∣ Spec.alignMs all :=
          Spec.blockAlign_dvd _ hA r (fun m hm => Spec.alignMember_dvd_alignMs m all (hsub m hm))
        have hal : (Py.fieldSt (Py.stTy t) k).align = Spec.alignMember (.mk n t k) := Py.fieldSt_align_member n t k
        have hdyn : (Py.fieldSt (Py.stTy t) k).dyn = Spec.endsBlock (.mk n t k) := Py.fieldSt_dyn all n t k r hw
        have hpa : Py.partialAl (Py.stMs r) = Spec.blockAlign r := Py.partialAl_stMs all r hwr
        generalize hadef : (if ad = true then Spec.blockAlign (.mk n t k :: r) else Spec.alignMember (.mk n t k)) = a
        have hda : Spec.alignMember (.mk n t k) ∣ a := by
          cases ad
          · simp at hadef; subst hadef; exact Nat.dvd_refl _
          · simp at hadef; subst hadef; exact Spec.alignMember_dvd_blockAlign (.mk n t k) r
        have hapos : 0 < a := by
          cases ad
          · simp at hadef; subst hadef; exact Spec.alignMember_pos _
          · simp at hadef; subst hadef; exact (Spec.blockAlign_isAl _).pos
        have hoff : alignUp off (aheadAl ad (.mk n t k :: r))
              + padTo (alignUp off (aheadAl ad (.mk n t k :: r))) (Spec.alignMember (.mk n t k)) = off + padTo off a := by
          cases ad
          · simp at hadef; subst hadef
            simp [aheadAl, alignUp_one]
          · simp at hadef; subst hadef
            have hd := Spec.alignMember_dvd_blockAlign (.mk n t k) r
            have hp := (Spec.blockAlign_isAl (.mk n t k :: r)).pos
            have h0 := padTo_alignUp_of_dvd off _ _ hp hd
            unfold alignUp at h0
            simp [aheadAl, alignUp, h0]
        rw [Spec.chunksMs_cons, hadef] at hd ⊢
        -- the member's own decode
        have hd1 : data = (pre ++ zeros (padTo off a)) ++ (Spec.render e (Spec.fieldChunks all allv n t k v) ++
            (Spec.render e (Spec.chunksMs all allv r vs (off + padTo off a + Spec.clen (Spec.fieldChunks all allv n t k v))
              (Spec.endsBlock (.mk n t k))) ++ post)) := by
          rw [hd]; simp [Spec.render, Spec.Chunk.render, List.append_assoc]
        have hanyu : (Py.fieldSt (Py.stTy t) k).unl = true → (Py.stMs all).any (·.unl) = true :=
          Py.stMs_any_unl_mem all n t k hmem
        have hrnil : (Py.fieldSt (Py.stTy t) k).unl = true → r = [] := by
          intro hu
          rcases h5 with h5 | h5
          · simpa using h5
          · rw [h5] at hu; cases hu
        have hbody := dec_field e v all allv n t k data (pre ++ zeros (padTo off a)) _ (pre.length + padTo off a) hints false
          hft hpt hfx h4 hf hag.1 hgd.1.2
          (by
            intro hu
            cases k with
            | plain =>
              have hr := hrnil hu
              subst hr
              have hvs : vs = [] := by cases vs <;> simp_all [hasMs]
              subst hvs
              exact Spec.galMs_single n t v (hgl (hanyu hu))
            | optional => have := Py.stTy_unl_dyn t hu; rw [h2 rfl] at this; cases this
            | fixed c => rw [h4 rfl] at hu; cases hu
            | dyn s sh => rw [h4 rfl] at hu; cases hu
            | limited s c => rw [h4 rfl] at hu; cases hu
            | greedy => rw [h4 rfl] at hu; cases hu)
          (by
            intro hu
            have hr := hrnil hu
            subst hr
            simp [Spec.chunksMs, Spec.render, hpost (hanyu hu)])
          (by intro h; cases h)
          (by
            rw [hpre, Nat.add_assoc]
            exact (Nat.dvd_add_right (Nat.dvd_trans hdm hbase)).2 (Nat.dvd_trans hda (dvd_alignUp off a hapos)))
          hcnt (hsd.dec n t k hmem)
          (by
            intro s hs
            obtain ⟨sn, sty, sk, hfind, _⟩ := h6 s hs
            obtain ⟨y, hy, hyn⟩ := find?_name_mem before s _ hfind
            have := hinv (.mk n t k) (List.mem_cons_self ..) s hs ⟨y, hy, hyn⟩
            rw [hlens.1 s hs]; exact this)
          hd1 (by simp)
        have hq : padTo p0 (Spec.alignMember (.mk n t k)) =
            padTo (alignUp off (aheadAl ad (.mk n t k :: r))) (Spec.alignMember (.mk n t k)) := by
          rw [hp0, hpre, Nat.add_assoc]
          exact padTo_add_mul base _ _ (Nat.dvd_trans hdm hbase)
        have hpos0 : p0 + padTo p0 (Py.fieldSt (Py.stTy t) k).align = pre.length + padTo off a := by
          rw [hal, hq, hp0]
          unfold alignUp at hoff ⊢
          omega
        have hst : Py.stMs (.mk n t k :: r) = Py.fieldSt (Py.stTy t) k :: Py.stMs r := by simp [Py.stMs]
        rw [hst, Py.partials_cons, Py.decMs_cons, hpos0, hbody]
        simp only [bind, Except.bind, hdyn, hpa]
        -- the rest of the loop
        have hd2 : data = (pre ++ zeros (padTo off a) ++ Spec.render e (Spec.fieldChunks all allv n t k v)) ++
            (Spec.render e (Spec.chunksMs all allv r vs (off + padTo off a + Spec.clen (Spec.fieldChunks all allv n t k v))
              (Spec.endsBlock (.mk n t k))) ++ post) := by
          rw [hd1]; simp [List.append_assoc]
        have hinv' : HintInv all allv
            (if isSizer n all then boundHints all n (Spec.counter n all allv) ++ hints else hints)
            (before ++ [.mk n t k]) r := by
          cases hs : isSizer n all with
          | true =>
            simp only [if_true]
            exact HintInv.step_sizer all allv hints before (.mk n t k) r hall huq hinv
          | false =>
            simp only [Bool.false_eq_true, if_false]
            exact HintInv.step_plain all allv hints before (.mk n t k) r hall hs hinv
        have hIH := dec_ms e vs r all allv (before ++ [.mk n t k]) data
          (pre ++ zeros (padTo off a) ++ Spec.render e (Spec.fieldChunks all allv n t k v)) post _
          (off + padTo off a + Spec.clen (Spec.fieldChunks all allv n t k v)) (Spec.endsBlock (.mk n t k)) base _
          (by simp [hall]) huq hfr hpr hhr hag.2 hgd.2
          (fun hu => Spec.galMs_tail _ r v vs (hgl hu)) hpost hbase
          (by simp [hpre]; omega) hd2 hlens.2 hinv' hsd rfl
        have hfin : ∀ posEnd, posEnd = (pre ++ zeros (padTo off a) ++ Spec.render e (Spec.fieldChunks all allv n t k v)).length +
              Spec.clen (Spec.chunksMs all allv r vs (off + padTo off a + Spec.clen (Spec.fieldChunks all allv n t k v))
                (Spec.endsBlock (.mk n t k))) →
            (Except.ok (v :: vs, posEnd) : Py.M (List Val × Nat)) = Except.ok (v :: vs, pre.length + Spec.clen
              (Spec.Chunk.pad (padTo off a) :: (Spec.fieldChunks all allv n t k v ++
                Spec.chunksMs all allv r vs (off + padTo off a + Spec.clen (Spec.fieldChunks all allv n t k v))
                  (Spec.endsBlock (.mk n t k))))) := by
          intro posEnd hpe
          rw [hpe]
          simp only [clen_cons, Spec.clen_append, Spec.Chunk.len, List.length_append, zeros_length, Spec.render_length]
          congr 2
          omega
        cases heb : Spec.endsBlock (.mk n t k)
        · rw [heb] at hIH hfin
          have e1 : (pre ++ zeros (padTo off a) ++ Spec.render e (Spec.fieldChunks all allv n t k v)).length +
              padTo (off + padTo off a + Spec.clen (Spec.fieldChunks all allv n t k v)) (aheadAl false r) =
              pre.length + padTo off a + Spec.clen (Spec.fieldChunks all allv n t k v) := by
            simp only [aheadAl, Bool.false_eq_true, if_false, padTo_one, List.length_append, zeros_length,
              Spec.render_length]
            omega
          rw [e1] at hIH
          simp only [Bool.false_eq_true, if_false, hIH, pure, Except.pure]
          exact hfin _ rfl
        · rw [heb] at hIH hfin
          have e1 : (pre ++ zeros (padTo off a) ++ Spec.render e (Spec.fieldChunks all allv n t k v)).length +
              padTo (off + padTo off a + Spec.clen (Spec.fieldChunks all allv n t k v)) (aheadAl true r) =
              pre.length + padTo off a + Spec.clen (Spec.fieldChunks all allv n t k v) +
                padTo (pre.length + padTo off a + Spec.clen (Spec.fieldChunks all allv n t k v)) (Spec.blockAlign r) := by
            simp only [aheadAl, if_true, List.length_append, zeros_length, Spec.render_length]
            congr 1
            rw [hpre, show base + off + padTo off a + Spec.clen (Spec.fieldChunks all allv n t k v) =
              base + (off + padTo off a + Spec.clen (Spec.fieldChunks all allv n t k v)) by omega]
            exact (padTo_add_mul base _ _ (Nat.dvd_trans hdb hbase)).symm
          rw [e1] at hIH
          simp only [if_true, hIH, pure, Except.pure]
          exact hfin _ rfl
  theorem dec_elems (e : Endian) : (xs : List Val) → ∀ (t : Ty) (data pre post : Bytes) (pos cursor : Nat),
      front t = true → pyRt t = true → (Py.stTy t).unl = false →
      hasElems t xs = true → agreeElems t xs = true → guardElems t xs = true →
      Spec.alignTy t ∣ pos + cursor →
      data = pre ++ (Spec.render e (Spec.chunksElems t xs) ++ post) → pre.length = pos + cursor →
      Py.decN (fun d q => Py.decTy e t d q false) xs.length data pos cursor =
          .ok (xs, cursor + Spec.clen (Spec.chunksElems t xs)) ∧
        (post = [] → ∀ fuel, xs.length ≤ fuel →
          Py.decWhile (fun d q => Py.decTy e t d q false) fuel data pos cursor =
            .ok (xs, cursor + Spec.clen (Spec.chunksElems t xs)))
    | [], t, data, pre, post, pos, cursor, hft, hpt, hnu, hh, hag, hgd, hal, hd, hpos => by
      refine ⟨by simp [Py.decN, Spec.chunksElems, Spec.clen, pure, Except.pure], ?_⟩
      intro hp fuel _
      subst hp
      have hlen : data.length = pos + cursor := by
        rw [hd, ← hpos]; simp [Spec.chunksElems, Spec.render]
      cases fuel <;> simp [Py.decWhile, hlen, Spec.chunksElems, Spec.clen, pure, Except.pure]
    | x :: xs, t, data, pre, post, pos, cursor, hft, hpt, hnu, hh, hag, hgd, hal, hd, hpos => by
      simp only [hasElems, Bool.and_eq_true, Bool.not_eq_true'] at hh
      simp only [agreeElems, Bool.and_eq_true] at hag
      simp only [guardElems, Bool.and_eq_true] at hgd
      have hwt := Accept.wf_of_accept t hft hpt
      have hd1 : data = pre ++ (Spec.render e (Spec.fieldChunks [] [] "" t .plain x) ++
          (Spec.render e (Spec.chunksElems t xs) ++ post)) := by
        rw [hd, Spec.fieldChunks_plain [] [] "" t x hh.1.1]
        simp [Spec.chunksElems, List.append_assoc]
      have h1 := dec_field e x [] [] "" t .plain data pre _ (pos + cursor) [] false hft hpt (by intro h; cases h)
        (by intro h; cases h) hh.1.2 hag.1 hgd.1 (by intro h; rw [hnu] at h; cases h)
        (by intro h; simp only [Py.fieldSt] at h; rw [hnu] at h; cases h) (by intro h; cases h)
        (by simpa [Spec.alignMember, Member.kind, Member.ty] using hal) (by rw [hh.1.1]; rfl) (by intro h; cases h)
        (by intro s h; cases h) hd1 hpos
      have h1' := Py.decTy_of_fieldDec e t _ data _ _ _ false x _ h1
      rw [Spec.fieldChunks_plain [] [] "" t x hh.1.1] at h1'
      have hdv := Spec.align_dvd_clen t x hwt hh.1.1 hh.1.2
      have hd2 : data = (pre ++ Spec.render e (Spec.chunksTy t x)) ++ (Spec.render e (Spec.chunksElems t xs) ++ post) := by
        rw [hd]; simp [Spec.chunksElems, List.append_assoc]
      have h2 := dec_elems e xs t data (pre ++ Spec.render e (Spec.chunksTy t x)) post pos
        (cursor + Spec.clen (Spec.chunksTy t x)) hft hpt hnu hh.2 hag.2 hgd.2
        (by rw [← Nat.add_assoc]; exact (Nat.dvd_add_right hal).2 hdv) hd2
        (by simp [hpos]; omega)
      have hcl : cursor + Spec.clen (Spec.chunksTy t x) + Spec.clen (Spec.chunksElems t xs) =
          cursor + Spec.clen (Spec.chunksElems t (x :: xs)) := by
        simp only [Spec.chunksElems, Spec.clen_append]; omega
      rw [hcl] at h2
      refine ⟨?_, ?_⟩
      · simp [Py.decN, h1', h2.1, bind, Except.bind, pure, Except.pure]
      · intro hp fuel hfu
        have hpx := Spec.clen_pos t x hft hpt hnu hh.1.1 hh.1.2
        have hlen : pos + cursor < data.length := by
          rw [hd2, ← hpos]; simp only [List.length_append, Spec.render_length]; omega
        cases fuel with
        | zero => simp at hfu
        | succ fuel =>
          have := h2.2 hp fuel (by simpa using hfu)
          simp [Py.decWhile, hlen, h1', this, bind, Except.bind, pure, Except.pure]
end

/-- C02: `Message.decode()` of the Python runtime inverts the canonical encoding and consumes exactly
    the message, for every schema prophyc accepts and the runtime imports, every well-typed value
    whose arrays agree with their counters, whose counters pass the decoder's guard (`guardTy`, D49)
    and whose greedy tail ends on the message's alignment boundary (`galTy`, the documented
    exception) -/
theorem Py.decode_encode (t : Ty) (v : Val) (e : Endian)
    (hf : Accept.front t = true) (hp : Accept.pyRt t = true)
    (hv : hasType t v = true) (ha : WF.agreeTy t v = true)
    (hg : Spec.galTy t v = true) (hG : WF.guardTy t v = true) :
    Py.decode t (Spec.enc t v e) e = .ok (v, (Spec.enc t v e).length) := by
  simp only [hasType, Bool.and_eq_true, Bool.not_eq_true'] at hv
  have h := dec_field e v [] [] "" t .plain (Spec.enc t v e) [] [] 0 [] true hf hp
    (by intro h; cases h) (by intro h; cases h) hv.2 ha hG (fun _ => hg) (fun _ => rfl) (fun _ => rfl)
    (Nat.dvd_zero _) (by rw [hv.1]; rfl) (by intro h; cases h) (by intro s h; cases h)
    (by rw [Spec.fieldChunks_plain [] [] "" t v hv.1]; simp [Spec.enc]) rfl
  have h' := Py.decTy_of_fieldDec e t _ _ _ _ _ true v _ h
  rw [Spec.fieldChunks_plain [] [] "" t v hv.1] at h'
  simpa [Py.decode, Spec.enc] using h'

end Prophy

#print axioms Prophy.Py.decode_encode

/- prophyc's computed layout (`PL.nodeTy`) is the documented layout (`Spec.alignTy`, `Spec.sizeTy`,
   `Spec.dynTy`/`Spec.unlTy`): property C04 -/
import ProphyModel.PLayout
import ProphyModel.Accept
import ProphyModel.Lemmas.Layout
import ProphyModel.Lemmas.PyEncode
namespace Prophy
open Prophy

/-! ## alignment (holds for every schema tree, accepted or not) -/
namespace PL

theorem memOf_align (nd : Node) (k : MKind) :
    (memOf nd k).align = match k with
      | .optional => max discSize nd.align
      | _ => nd.align := by
  cases k <;> rfl

theorem partMax_le_maxAlign : (l : List Mem) → partMax l ≤ maxAlign l
  | [] => Nat.le_refl _
  | m :: r => by
    have := partMax_le_maxAlign r
    simp only [partMax, maxAlign]
    split <;> omega

theorem maxAlign_bump : (l : List Mem) → (b : Bool) → maxAlign (bump l b) = maxAlign l
  | [], _ => rfl
  | m :: r, b => by
    have ih := maxAlign_bump r (endsPart m)
    have hp := partMax_le_maxAlign (m :: r)
    simp only [bump, maxAlign, ih] at hp ⊢
    cases b <;> simp <;> omega

theorem structSize_align (l : List Mem) : (structSize l).2.1 = if l.isEmpty then 1 else maxAlign l := by
  cases l <;> rfl

mutual
  theorem nodeTy_align' : (t : Ty) → (nodeTy t).align = Spec.alignTy t
    | .prim p => rfl
    | .byte => rfl
    | .enum _ _ => rfl
    | .struct _ ms => by
      have h := memsOf_align ms
      simp only [nodeTy, Spec.alignTy]
      show (structSize (bump (memsOf ms) false)).2.1 = Spec.alignMs ms
      rw [structSize_align, maxAlign_bump]
      cases ms with
      | nil => rfl
      | cons m r =>
        obtain ⟨n, t, k⟩ := m
        rw [← h (by simp)]
        simp [memsOf, bump]
    | .union _ arms => by
      have h := armsOf_align arms
      simp only [nodeTy, unionNode, Spec.alignTy, discSize, Spec.flagSize]
      cases arms with
      | nil => rfl
      | cons a r =>
        obtain ⟨n, d, t⟩ := a
        rw [← h (by simp)]
        simp [armsOf]
  theorem memsOf_align : (ms : List Member) → ms ≠ [] → maxAlign (memsOf ms) = Spec.alignMs ms
    | [], h => absurd rfl h
    | .mk _ t k :: r, _ => by
      have ht := nodeTy_align' t
      simp only [memsOf, maxAlign, Spec.alignMs, memOf_align, ht]
      have hp := Spec.alignTy_pos t
      cases r with
      | nil =>
        simp only [memsOf, maxAlign, Spec.alignMs]
        cases k <;> simp only [discSize, Spec.flagSize] <;> omega
      | cons m r' =>
        rw [memsOf_align (m :: r') (by simp)]
        cases k <;> simp only [discSize, Spec.flagSize]
  theorem armsOf_align : (arms : List Arm) → arms ≠ [] → maxNodeAlign (armsOf arms) = Spec.alignArms arms
    | [], h => absurd rfl h
    | .mk _ _ t :: r, _ => by
      have ht := nodeTy_align' t
      simp only [armsOf, maxNodeAlign, Spec.alignArms, ht]
      have hp := Spec.alignTy_pos t
      cases r with
      | nil => simp only [armsOf, maxNodeAlign, Spec.alignArms]; omega
      | cons m r' => rw [armsOf_align (m :: r') (by simp)]
end

/-! ## stiffness -/

/-- the documented stiffness as a `Kind` -/
def specKind (t : Ty) : Kind := if Spec.unlTy t then 2 else if Spec.dynTy t then 1 else 0
def specKindMs (ms : List Member) : Kind := if Spec.unlMs ms then 2 else if Spec.dynMs ms then 1 else 0

def lastGreedy : List Mem → Bool
  | [] => false
  | [m] => m.greedy
  | _ :: r => lastGreedy r
def maxKind : List Mem → Nat
  | [] => 0
  | m :: r => max m.kind (maxKind r)

theorem foldl_maxKind (l : List Mem) (a : Nat) :
    l.foldl (fun k m => max k m.kind) a = max a (maxKind l) := by
  induction l generalizing a with
  | nil => simp [maxKind]
  | cons m r ih => simp only [List.foldl, ih, maxKind]; omega

theorem getLast?_greedy : (l : List Mem) →
    (match l.getLast? with | none => false | some m => m.greedy) = lastGreedy l
  | [] => rfl
  | [m] => rfl
  | m :: m' :: r => by
    have := getLast?_greedy (m' :: r)
    rw [List.getLast?_cons_cons]; simpa [lastGreedy] using this

/-- calc_wire_stiffness, recursively -/
def kindRec (l : List Mem) : Kind :=
  if lastGreedy l then 2 else max (maxKind l) (if l.any (·.isDynamic) then 1 else 0)

theorem structKind_eq (l : List Mem) : structKind l = kindRec l := by
  have h := getLast?_greedy l
  unfold structKind kindRec
  cases hl : l.getLast? with
  | none =>
    have : l = [] := by simpa using hl
    subst this; rfl
  | some m =>
    rw [hl] at h
    simp only at h ⊢
    rw [← h, foldl_maxKind]
    split
    · rfl
    · split <;> simp

theorem kindRec_single (m : Mem) :
    kindRec [m] = if m.greedy then 2 else max m.kind (if m.isDynamic then 1 else 0) := by
  simp [kindRec, lastGreedy, maxKind]

theorem kindRec_cons (m : Mem) (r : List Mem) (hr : r ≠ []) (hk : m.kind ≤ 2) :
    kindRec (m :: r) = max (max m.kind (if m.isDynamic then 1 else 0)) (kindRec r) := by
  cases r with
  | nil => exact absurd rfl hr
  | cons m' r' =>
    simp only [kindRec, lastGreedy, maxKind, List.any_cons]
    grind

/-- stiffness a member contributes to its struct -/
def specKindMem (t : Ty) : MKind → Kind
  | .plain => specKind t
  | .dyn _ _ => 1
  | .greedy => 2
  | _ => 0

theorem specKindMs_nil : specKindMs [] = 0 := rfl

theorem specKindMs_cons (n : String) (t : Ty) (k : MKind) (r : List Member) :
    specKindMs (.mk n t k :: r) = max (specKindMem t k) (specKindMs r) := by
  simp only [specKindMs, Spec.unlMs, Spec.dynMs, specKindMem, specKind]
  cases k <;> grind

theorem memsOf_ne_nil (ms : List Member) (h : ms ≠ []) : memsOf ms ≠ [] := by
  cases ms with
  | nil => exact absurd rfl h
  | cons m r => obtain ⟨n, t, k⟩ := m; simp [memsOf]

end PL

namespace Accept
/-- what the per-member check of the front end gives (the part used for the layout) -/
theorem frontMs_cons_playou (all : List Member) (n : String) (t : Ty) (k : MKind) (r before : List Member)
    (h : frontMs all (.mk n t k :: r) before = true) :
    front t = true ∧
    (isOptional k = true → (PL.nodeTy t).kind = 0) ∧
    ((sizeOf? k).isSome = true → (PL.nodeTy t).kind = 0) ∧
    (isArrayKind k = true → (PL.nodeTy t).kind ≠ 2) ∧
    (r ≠ [] → isGreedy k = false ∧ (PL.nodeTy t).kind ≠ 2) ∧
    frontMs all r (before ++ [.mk n t k]) = true := by
  simp only [frontMs, Bool.and_eq_true, Bool.not_eq_true', Bool.or_eq_true, Bool.and_eq_false_iff,
    bne_eq_false_iff_eq, beq_eq_false_iff_ne, bne_iff_ne, ne_eq, List.isEmpty_iff] at h
  obtain ⟨⟨⟨⟨⟨⟨⟨⟨h1, h2⟩, h3⟩, h4⟩, _⟩, _⟩, h7⟩, _⟩, h9⟩ := h
  refine ⟨h1, ?_, ?_, ?_, ?_, h9⟩
  · intro hk; rcases h2 with h2 | h2
    · rw [hk] at h2; cases h2
    · exact h2
  · intro hk; rcases h3 with h3 | h3
    · rw [hk] at h3; cases h3
    · exact h3
  · intro hk; rcases h4 with h4 | h4
    · rw [hk] at h4; cases h4
    · exact h4
  · intro hr; rcases h7 with h7 | h7
    · exact absurd h7 hr
    · exact h7
end Accept

namespace PL
open Accept

theorem specKind_le (t : Ty) : specKind t ≤ 2 := by unfold specKind; grind

mutual
  theorem nodeTy_kind' : (t : Ty) → front t = true → (nodeTy t).kind = specKind t
    | .prim _, _ => rfl
    | .byte, _ => rfl
    | .enum _ _, _ => rfl
    | .union _ _, _ => rfl
    | .struct _ ms, h => by
      have h' : frontMs ms ms [] = true := by
        simp only [front, Bool.and_eq_true] at h; exact h.2
      have := memsOf_kind ms ms [] h'
      simp only [nodeTy]
      show structKind (memsOf ms) = _
      rw [structKind_eq, this]; rfl
  theorem memsOf_kind : (ms all before : List Member) → frontMs all ms before = true →
      kindRec (memsOf ms) = specKindMs ms
    | [], _, _, _ => rfl
    | .mk n t k :: r, all, before, h => by
      obtain ⟨ht, ho, hs, ha, hl, hr⟩ := frontMs_cons_playou all n t k r before h
      have ikt := nodeTy_kind' t ht
      have ih := memsOf_kind r all _ hr
      have hle := specKind_le t
      rw [specKindMs_cons]
      by_cases hre : r = []
      · subst hre
        simp only [memsOf, kindRec_single, specKindMs_nil]
        cases k <;> simp_all [memOf, specKindMem, isOptional, sizeOf?, isArrayKind] <;> grind
      · obtain ⟨hg, hk2⟩ := hl hre
        simp only [memsOf]
        rw [kindRec_cons _ _ (memsOf_ne_nil r hre) (by cases k <;> simp [memOf, ikt, hle]), ih]
        congr 1
        cases k <;> simp_all [memOf, specKindMem, isOptional, sizeOf?, isArrayKind, isGreedy] <;> grind
end

/-! ## size -/

/-- the byte-size loop of evaluate_struct_size without the paddings it records -/
def layout : List Mem → Nat → Nat
  | [], bs => bs
  | m :: r, bs => layout r (bs + m.size + padTo bs m.align)

theorem sizeLoop_fst : (r : List Mem) → (prev : Mem) → (bs : Nat) → (sizeLoop r prev bs).1 = layout r bs
  | [], _, _ => rfl
  | m :: r, prev, bs => by
    have ih := sizeLoop_fst r m (bs + m.size + padTo bs m.align)
    simp only [sizeLoop, layout]
    rw [← ih]

theorem padTo_zero (a : Nat) : padTo 0 a = 0 := by simp [padTo]

theorem structSize_size (l : List Mem) :
    (structSize l).1 = alignUp (layout l 0) (if l.isEmpty then 1 else maxAlign l) := by
  cases l with
  | nil => rfl
  | cons m r =>
    have h := sizeLoop_fst r m (m.size + padTo 0 m.align)
    simp only [structSize, layout, alignUp, List.isEmpty_cons, Bool.false_eq_true, if_false, Nat.zero_add]
    rw [← h]

theorem le_partMax (m : Mem) (r : List Mem) : m.align ≤ partMax (m :: r) := by
  simp only [partMax]; split <;> omega

theorem bump_cons (m : Mem) (r : List Mem) (first : Bool) :
    bump (m :: r) first =
      { m with align := if first then partMax (m :: r) else m.align } :: bump r (endsPart m) := by
  have := le_partMax m r
  cases first
  · rfl
  · simp only [bump, if_true]
    rw [Nat.max_eq_right this]

theorem memOf_size (nd : Node) (k : MKind) :
    (memOf nd k).size = match k with
      | .plain => nd.size
      | .optional => max discSize nd.align + nd.size
      | .fixed c => c * nd.size
      | .limited _ c => c * nd.size
      | .dyn _ _ => 0
      | .greedy => 0 := by
  cases k <;> simp [memOf, Nat.mul_comm, Nat.add_comm]

theorem memOf_align_member (n : String) (t : Ty) (k : MKind) :
    (memOf (nodeTy t) k).align = Spec.alignMember (.mk n t k) := by
  rw [memOf_align, nodeTy_align']
  unfold Spec.alignMember
  cases k <;> simp [Member.kind, Member.ty, discSize, Spec.flagSize]

/-- `split_after` of evaluate_partial_padding_size is the documented block end, for every member
    whose type is not unlimited (an unlimited member is the last one: nothing follows it) -/
theorem endsPart_memOf (n : String) (t : Ty) (k : MKind) (ht : front t = true)
    (ho : isOptional k = true → (nodeTy t).kind = 0)
    (hs : (sizeOf? k).isSome = true → (nodeTy t).kind = 0)
    (hk2 : (nodeTy t).kind ≠ 2) :
    endsPart (memOf (nodeTy t) k) = Spec.endsBlock (.mk n t k) := by
  have ikt := nodeTy_kind' t ht
  rw [ikt] at ho hs hk2
  unfold Spec.endsBlock endsPart
  cases k <;> simp_all [memOf, Member.kind, Member.ty, isOptional, sizeOf?, specKind] <;> grind

theorem partMax_memsOf : (ms all before : List Member) → frontMs all ms before = true → ms ≠ [] →
    partMax (memsOf ms) = Spec.blockAlign ms
  | [], _, _, _, hne => absurd rfl hne
  | .mk n t k :: r, all, before, h, _ => by
    obtain ⟨ht, ho, hs, ha, hl, hr⟩ := frontMs_cons_playou all n t k r before h
    have hal := memOf_align_member n t k
    have hp := Spec.alignMember_pos (.mk n t k)
    simp only [memsOf, partMax, Spec.blockAlign, hal]
    by_cases hre : r = []
    · subst hre
      simp only [memsOf, partMax, Spec.blockAlign]
      split <;> split <;> omega
    · obtain ⟨_, hk2⟩ := hl hre
      rw [endsPart_memOf n t k ht ho hs hk2, partMax_memsOf r all _ hr hre]

theorem ceil_mul (s a : Nat) (ha : IsAl a) : (s + a - 1) / a * a = alignUp s a := by
  unfold alignUp padTo
  rcases ha with rfl | rfl | rfl | rfl <;> omega

theorem frontArms_cons (n : String) (d : Nat) (t : Ty) (r : List Arm)
    (h : frontArms (.mk n d t :: r) = true) : front t = true ∧ frontArms r = true := by
  simp only [frontArms, Bool.and_eq_true] at h
  exact ⟨h.1.1.1, h.2⟩

mutual
  theorem nodeTy_size' : (t : Ty) → front t = true → (nodeTy t).size = Spec.sizeTy t
    | .prim _, _ => rfl
    | .byte, _ => rfl
    | .enum _ _, _ => rfl
    | .struct _ ms, h => by
      have h' : frontMs ms ms [] = true := by
        simp only [front, Bool.and_eq_true] at h; exact h.2
      have hl := memsOf_layout ms ms [] h' 0 false
      simp only [nodeTy, Spec.sizeTy]
      show (structSize (bump (memsOf ms) false)).1 = _
      rw [structSize_size, hl, maxAlign_bump]
      cases ms with
      | nil => rfl
      | cons m r =>
        obtain ⟨n, t, k⟩ := m
        rw [← memsOf_align _ (by simp)]
        simp [memsOf, bump]
    | .union _ arms, h => by
      have h' : frontArms arms = true := by
        simp only [front, Bool.and_eq_true] at h; exact h.2
      have hm := armsOf_size arms h'
      have ha : max discSize (if (armsOf arms).isEmpty then 1 else maxNodeAlign (armsOf arms))
          = max Spec.flagSize (Spec.alignArms arms) := by
        have := nodeTy_align' (.union "" arms)
        simpa [nodeTy, unionNode, Spec.alignTy] using this
      simp only [nodeTy, unionNode, Spec.sizeTy, ha, hm]
      have hal : IsAl (max Spec.flagSize (Spec.alignArms arms)) :=
        IsAl.max IsAl.four (Spec.alignArms_isAl arms)
      rw [ceil_mul _ _ hal, Nat.add_comm]
  theorem memsOf_layout : (ms all before : List Member) → frontMs all ms before = true →
      ∀ (off : Nat) (first : Bool), layout (bump (memsOf ms) first) off = Spec.endMs ms off first
    | [], _, _, _, _, _ => rfl
    | .mk n t k :: r, all, before, h, off, first => by
      obtain ⟨ht, ho, hs, ha, hl, hr⟩ := frontMs_cons_playou all n t k r before h
      have ist := nodeTy_size' t ht
      have ial := nodeTy_align' t
      have hal := memOf_align_member n t k
      have hpm := partMax_memsOf (.mk n t k :: r) all before h (by simp)
      have hsz : (memOf (nodeTy t) k).size = Spec.slot t k := by
        rw [memOf_size, ist, ial]
        cases k <;> simp [Spec.slot, discSize, Spec.flagSize]
      rw [Spec.endMs_cons]
      simp only [memsOf] at hpm ⊢
      rw [bump_cons]
      simp only [layout, hsz, hal, hpm]
      have harg : off + Spec.slot t k + padTo off (if first = true then Spec.blockAlign (.mk n t k :: r)
            else Spec.alignMember (.mk n t k)) =
          alignUp off (if first = true then Spec.blockAlign (.mk n t k :: r)
            else Spec.alignMember (.mk n t k)) + Spec.slot t k := by
        unfold alignUp; omega
      rw [harg]
      by_cases hre : r = []
      · subst hre; rfl
      · obtain ⟨_, hk2⟩ := hl hre
        rw [endsPart_memOf n t k ht ho hs hk2]
        exact memsOf_layout r all _ hr _ _
  theorem armsOf_size : (arms : List Arm) → frontArms arms = true → maxSize (armsOf arms) = Spec.maxArm arms
    | [], _ => rfl
    | .mk n d t :: r, h => by
      obtain ⟨ht, hr⟩ := frontArms_cons n d t r h
      simp only [armsOf, maxSize, Spec.maxArm]
      rw [nodeTy_size' t ht, armsOf_size r hr]
end

end PL

/-- prophyc's alignment of a node is the documented alignment (no acceptance hypothesis needed) -/
theorem PL.nodeTy_align (t : Ty) (_hf : Accept.front t = true) : (PL.nodeTy t).align = Spec.alignTy t :=
  PL.nodeTy_align' t

/-- prophyc's stiffness of an accepted node is the documented one -/
theorem PL.nodeTy_kind (t : Ty) (hf : Accept.front t = true) :
    (PL.nodeTy t).kind = (if Spec.unlTy t then 2 else if Spec.dynTy t then 1 else 0) :=
  PL.nodeTy_kind' t hf

/-- prophyc's byte size of an accepted node is the documented static size (for a dynamic node:
    the size with every dynamic and greedy array empty) -/
theorem PL.nodeTy_size (t : Ty) (hf : Accept.front t = true) : (PL.nodeTy t).size = Spec.sizeTy t :=
  PL.nodeTy_size' t hf


/-! ## every encoding of a value of a fixed type has the static size -/

theorem Spec.clen_cons (c : Spec.Chunk) (r : List Spec.Chunk) : Spec.clen (c :: r) = c.len + Spec.clen r := rfl
theorem Spec.clen_nil : Spec.clen [] = 0 := rfl

theorem Spec.fixedArms_get_playou : (arms : List Arm) → Spec.fixedArms arms = true →
    ∀ (idx : Nat) (n : String) (d : Nat) (t : Ty), arms[idx]? = some (.mk n d t) →
      Spec.fixedTy t = true ∧ Spec.sizeTy t ≤ Spec.maxArm arms
  | [], _, idx, _, _, _, h => by simp at h
  | .mk n' d' t' :: r, hf, idx, n, d, t, h => by
    have h' : Spec.fixedTy t' = true ∧ Spec.fixedArms r = true := by simpa [Spec.fixedArms] using hf
    cases idx with
    | zero =>
      simp only [List.getElem?_cons_zero, Option.some.injEq, Arm.mk.injEq] at h
      obtain ⟨_, _, rfl⟩ := h
      exact ⟨h'.1, by simp only [Spec.maxArm]; omega⟩
    | succ i =>
      simp only [List.getElem?_cons_succ] at h
      have := Spec.fixedArms_get_playou r h'.2 i n d t h
      exact ⟨this.1, by simp only [Spec.maxArm]; omega⟩

theorem hasElems_cons (t : Ty) (x : Val) (xs : List Val) :
    hasElems t (x :: xs) = true ↔ x.isCounter = false ∧ hasField [] .plain t x = true ∧ hasElems t xs = true := by
  simp [hasElems, and_assoc]

mutual
  theorem fsz_field : (v : Val) → ∀ (all : List Member) (allv : List Val) (n : String) (t : Ty) (k : MKind),
      Spec.fixedTy t = true → k.isStatic = true → hasField all k t v = true →
      Spec.clen (Spec.fieldChunks all allv n t k v) = Spec.slot t k
    | .sizer, all, allv, n, t, k, hfx, hk, hh => by
      have hk : k = .plain := by cases k <;> simp_all [hasField]
      subst hk
      simp [Spec.fieldChunks, Spec.slot, Spec.clen, Spec.Chunk.len]
    | .int i, all, allv, n, t, k, hfx, hk, hh => by
      have hk : k = .plain := by cases k <;> cases t <;> simp_all [hasField]
      subst hk
      cases t <;> simp_all [Spec.fieldChunks, Spec.slot, Spec.chunksTy, Spec.clen, Spec.Chunk.len, Spec.sizeTy, hasField]
    | .struct vs, all, allv, n, t, k, hfx, hk, hh => by
      cases t with
      | struct nm ms =>
        have hk : k = .plain := by cases k <;> simp_all [hasField]
        subst hk
        have hhm : hasMs ms ms vs = true := by simpa [hasField] using hh
        have hfm : Spec.fixedMs ms = true := by simpa [Spec.fixedTy] using hfx
        have := fsz_ms vs ms ms vs hfm hhm 0
        simp only [Nat.zero_add] at this
        simp [Spec.fieldChunks, Spec.slot, Spec.chunksTy, Spec.sizeTy, Spec.clen, Spec.Chunk.len, this, alignUp]
      | prim p => cases k <;> simp [hasField] at hh
      | byte => cases k <;> simp [hasField] at hh
      | enum nm es => cases k <;> simp [hasField] at hh
      | union nm arms => cases k <;> simp [hasField] at hh
    | .union idx x, all, allv, n, t, k, hfx, hk, hh => by
      cases t with
      | union nm arms =>
        have hk : k = .plain := by cases k <;> simp_all [hasField]
        subst hk
        simp only [hasField, Bool.true_and] at hh
        cases ha : arms[idx]? with
        | none => simp [ha] at hh
        | some a =>
          obtain ⟨an, d, t'⟩ := a
          simp only [ha, Bool.and_eq_true, Bool.not_eq_true'] at hh
          have hfa : Spec.fixedArms arms = true := by simpa [Spec.fixedTy] using hfx
          obtain ⟨hft', hle⟩ := Spec.fixedArms_get_playou arms hfa idx an d t' ha
          have h1 := fsz_field x [] [] "" t' .plain hft' rfl hh.2
          rw [Spec.fieldChunks_plain [] [] "" t' x hh.1] at h1
          have hal := le_alignUp (max Spec.flagSize (Spec.alignArms arms) + Spec.maxArm arms)
            (max Spec.flagSize (Spec.alignArms arms))
          simp only [Spec.slot] at h1
          simp only [Spec.fieldChunks, Spec.slot, Spec.chunksTy, ha, Spec.sizeTy, Spec.clen_append, Spec.clen_cons,
            Spec.clen_nil, Spec.Chunk.len, h1, Spec.flagSize] at hal ⊢
          omega
      | prim p => cases k <;> simp [hasField] at hh
      | byte => cases k <;> simp [hasField] at hh
      | enum nm es => cases k <;> simp [hasField] at hh
      | struct nm ms => cases k <;> simp [hasField] at hh
    | .absent, all, allv, n, t, k, hfx, hk, hh => by
      have hk : k = .optional := by cases k <;> simp_all [hasField]
      subst hk
      simp [Spec.fieldChunks, Spec.slot, Spec.clen, Spec.Chunk.len]
    | .present x, all, allv, n, t, k, hfx, hk, hh => by
      have hk : k = .optional := by cases k <;> simp_all [hasField]
      subst hk
      simp only [hasField, Bool.true_and, Bool.and_eq_true, Bool.not_eq_true'] at hh
      have hx : hasField [] .plain t x = true := by rw [hasField_plain_indep [] all]; exact hh.2
      have h1 := fsz_field x [] [] "" t .plain hfx rfl hx
      rw [Spec.fieldChunks_plain [] [] "" t x hh.1] at h1
      simp only [Spec.slot] at h1
      simp only [Spec.fieldChunks, Spec.slot, Spec.clen_append, Spec.clen_cons, Spec.clen_nil, Spec.Chunk.len, h1,
        Spec.flagSize]
      omega
    | .bytes b, all, allv, n, t, k, hfx, hk, hh => by
      have ht : t = .byte := by cases t <;> simp_all [hasField]
      subst ht
      cases k with
      | plain => simp [hasField] at hh
      | optional => simp [hasField] at hh
      | fixed c =>
        have hl : b.length = c := by simpa [hasField] using hh
        simp [Spec.fieldChunks, Spec.slot, Spec.clen, Spec.Chunk.len, Spec.sizeTy, hl]
      | dyn s sh => simp [MKind.isStatic] at hk
      | limited s c =>
        have hl : b.length ≤ c := by
          simp only [hasField, Bool.true_and, Bool.and_eq_true, decide_eq_true_eq] at hh; exact hh.1
        simp only [Spec.fieldChunks, Spec.slot, Spec.clen, Spec.Chunk.len, Spec.sizeTy]
        omega
      | greedy => simp [MKind.isStatic] at hk
    | .arr xs, all, allv, n, t, k, hfx, hk, hh => by
      have hel : hasElems t xs = true := by
        cases t <;> simp_all [hasField]
      have h1 := fsz_elems xs t hfx hel
      cases k with
      | plain => cases t <;> simp [hasField] at hh
      | optional => cases t <;> simp [hasField] at hh
      | fixed c =>
        have hl : xs.length = c := by cases t <;> simp_all [hasField]
        simp [Spec.fieldChunks, Spec.slot, h1, hl]
      | dyn s sh => simp [MKind.isStatic] at hk
      | greedy => simp [MKind.isStatic] at hk
      | limited s c =>
        have hl : xs.length ≤ c := by cases t <;> simp_all [hasField]
        have := Nat.mul_le_mul_right (Spec.sizeTy t) hl
        simp only [Spec.fieldChunks, Spec.slot, Spec.clen_append, Spec.clen_cons, Spec.clen_nil, Spec.Chunk.len, h1]
        omega
  theorem fsz_ms : (vs : List Val) → ∀ (ms all : List Member) (allv : List Val),
      Spec.fixedMs ms = true → hasMs all ms vs = true → ∀ off,
      off + Spec.clen (Spec.chunksMs all allv ms vs off false) = Spec.endMs ms off false
    | [], ms, all, allv, hf, hh, off => by
      have hms : ms = [] := by cases ms <;> simp_all [hasMs]
      subst hms
      simp [Spec.chunksMs, Spec.endMs, Spec.clen]
    | v :: vs, ms, all, allv, hf, hh, off => by
      cases ms with
      | nil => simp [hasMs] at hh
      | cons m r =>
        obtain ⟨n, t, k⟩ := m
        obtain ⟨hk, ht, hfr⟩ := (Spec.fixedMs_cons n t k r).1 hf
        obtain ⟨_, hfd, hhr⟩ := (hasMs_cons all n t k r v vs).1 hh
        have h1 := fsz_field v all allv n t k ht hk hfd
        have heb := Spec.endsBlock_of_fixed n t k r hf
        rw [Spec.chunksMs_cons, Spec.endMs_cons, heb]
        simp only [Bool.false_eq_true, if_false, Spec.clen_cons, Spec.clen_append, Spec.Chunk.len, h1]
        have ih := fsz_ms vs r all allv hfr hhr
          (off + padTo off (Spec.alignMember (.mk n t k)) + Spec.slot t k)
        unfold alignUp
        rw [← ih]
        omega
  theorem fsz_elems : (xs : List Val) → ∀ (t : Ty), Spec.fixedTy t = true → hasElems t xs = true →
      Spec.clen (Spec.chunksElems t xs) = xs.length * Spec.sizeTy t
    | [], t, hfx, hh => by simp [Spec.chunksElems, Spec.clen]
    | x :: xs, t, hfx, hh => by
      obtain ⟨hc, hx, hr⟩ := (hasElems_cons t x xs).1 hh
      have h1 := fsz_field x [] [] "" t .plain hfx rfl hx
      rw [Spec.fieldChunks_plain [] [] "" t x hc] at h1
      have h2 := fsz_elems xs t hfx hr
      simp only [Spec.chunksElems, Spec.clen_append, h1, h2, Spec.slot, List.length_cons, Nat.add_mul]
      omega
end

/-! ## accepted types of kind FIXED are fixed -/
namespace PL
open Accept

theorem frontArms_cons' (n : String) (d : Nat) (t : Ty) (r : List Arm)
    (h : frontArms (.mk n d t :: r) = true) :
    front t = true ∧ (nodeTy t).kind = 0 ∧ frontArms r = true := by
  simp only [frontArms, Bool.and_eq_true, beq_iff_eq] at h
  exact ⟨h.1.1.1, h.1.1.2, h.2⟩

theorem dyn_of_kind (t : Ty) (ht : front t = true) (hk : (nodeTy t).kind = 0) : Spec.dynTy t = false := by
  rw [nodeTy_kind' t ht] at hk
  unfold specKind at hk
  grind

mutual
  theorem fixed_of_front : (t : Ty) → front t = true → Spec.dynTy t = false → Spec.fixedTy t = true
    | .prim _, _, _ => rfl
    | .byte, _, _ => rfl
    | .enum _ _, _, _ => rfl
    | .struct _ ms, h, hd => by
      have h' : frontMs ms ms [] = true := by
        simp only [front, Bool.and_eq_true] at h; exact h.2
      simp only [Spec.fixedTy]
      exact fixedMs_of_front ms ms [] h' (by simpa [Spec.dynTy] using hd)
    | .union _ arms, h, _ => by
      have h' : frontArms arms = true := by
        simp only [front, Bool.and_eq_true] at h; exact h.2
      simp only [Spec.fixedTy]
      exact fixedArms_of_front arms h'
  theorem fixedMs_of_front : (ms all before : List Member) → frontMs all ms before = true →
      Spec.dynMs ms = false → Spec.fixedMs ms = true
    | [], _, _, _, _ => rfl
    | .mk n t k :: r, all, before, h, hd => by
      obtain ⟨ht, ho, hs, ha, hl, hr⟩ := frontMs_cons_playou all n t k r before h
      simp only [Spec.dynMs, Bool.or_eq_false_iff] at hd
      have ihr := fixedMs_of_front r all _ hr hd.2
      rw [Spec.fixedMs_cons]
      have hdyn : Spec.dynTy t = false ∧ k.isStatic = true := by
        cases k with
        | plain => exact ⟨hd.1, rfl⟩
        | optional => exact ⟨dyn_of_kind t ht (ho rfl), rfl⟩
        | fixed c => exact ⟨dyn_of_kind t ht (hs rfl), rfl⟩
        | limited s c => exact ⟨dyn_of_kind t ht (hs rfl), rfl⟩
        | dyn s sh => simp at hd
        | greedy => simp at hd
      exact ⟨hdyn.2, fixed_of_front t ht hdyn.1, ihr⟩
  theorem fixedArms_of_front : (arms : List Arm) → frontArms arms = true → Spec.fixedArms arms = true
    | [], _ => rfl
    | .mk n d t :: r, h => by
      obtain ⟨ht, hk, hr⟩ := frontArms_cons' n d t r h
      simp only [Spec.fixedArms, Bool.and_eq_true]
      exact ⟨fixed_of_front t ht (dyn_of_kind t ht hk), fixedArms_of_front r hr⟩
end

theorem fixed_of_kind (t : Ty) (ht : front t = true) (hk : (nodeTy t).kind = 0) : Spec.fixedTy t = true :=
  fixed_of_front t ht (dyn_of_kind t ht hk)

end PL

/-! ## the members' own byte lengths and the end offset of the canonical encoding -/

/-- one entry of `Spec.memberLens` -/
def Spec.memberLen (t : Ty) (k : MKind) (v : Val) : Nat :=
  match k, v with
  | .plain, .sizer => Spec.sizeTy t
  | .plain, v => Spec.clen (Spec.chunksTy t v)
  | .optional, _ => max Spec.flagSize (Spec.alignTy t) + Spec.sizeTy t
  | .fixed c, _ => c * Spec.sizeTy t
  | .limited _ c, _ => c * Spec.sizeTy t
  | .dyn _ _, .arr xs => Spec.clen (Spec.chunksElems t xs)
  | .greedy, .arr xs => Spec.clen (Spec.chunksElems t xs)
  | .dyn _ _, .bytes b => b.length
  | .greedy, .bytes b => b.length
  | _, _ => 0

theorem Spec.memberLens_cons (all : List Member) (allv : List Val) (n : String) (t : Ty) (k : MKind)
    (r : List Member) (v : Val) (vs : List Val) :
    Spec.memberLens all allv (.mk n t k :: r) (v :: vs) = Spec.memberLen t k v :: Spec.memberLens all allv r vs := by
  cases k <;> cases v <;> simp [Spec.memberLens, Spec.memberLen]

/-- the length of a member's own chunks is its `memberLens` entry -/
theorem Spec.clen_fieldChunks (all : List Member) (allv : List Val) (n : String) (t : Ty) (k : MKind) (v : Val)
    (hh : hasField all k t v = true) (hfx : k ≠ .plain → k.isStatic = true → Spec.fixedTy t = true) :
    Spec.clen (Spec.fieldChunks all allv n t k v) = Spec.memberLen t k v := by
  cases k with
  | plain => cases v <;> simp [Spec.fieldChunks, Spec.memberLen, Spec.clen, Spec.Chunk.len]
  | optional =>
    rw [fsz_field v all allv n t _ (hfx (by simp) rfl) rfl hh]
    cases v <;> rfl
  | fixed c =>
    rw [fsz_field v all allv n t _ (hfx (by simp) rfl) rfl hh]
    cases v <;> rfl
  | limited s c =>
    rw [fsz_field v all allv n t _ (hfx (by simp) rfl) rfl hh]
    cases v <;> rfl
  | dyn s sh => cases v <;> simp [Spec.fieldChunks, Spec.memberLen, Spec.clen, Spec.Chunk.len]
  | greedy => cases v <;> simp [Spec.fieldChunks, Spec.memberLen, Spec.clen, Spec.Chunk.len]

/-- end offset of the canonical layout of members with own byte lengths `ls`, from offset `off` -/
def Spec.specEnd : List Member → List Nat → Nat → Bool → Nat
  | m :: r, l :: ls, off, ad =>
    Spec.specEnd r ls (alignUp off (if ad then Spec.blockAlign (m :: r) else Spec.alignMember m) + l) (Spec.endsBlock m)
  | _, _, off, _ => off

namespace PL
open Accept

theorem clen_chunksMs : (ms : List Member) → ∀ (vs : List Val) (all allF before : List Member) (allv : List Val),
    frontMs allF ms before = true → hasMs all ms vs = true → ∀ (off : Nat) (ad : Bool),
    off + Spec.clen (Spec.chunksMs all allv ms vs off ad) = Spec.specEnd ms (Spec.memberLens all allv ms vs) off ad
  | [], vs, all, allF, before, allv, hf, hh, off, ad => by
    cases vs <;> simp [Spec.chunksMs, Spec.specEnd, Spec.clen]
  | .mk n t k :: r, vs, all, allF, before, allv, hf, hh, off, ad => by
    cases vs with
    | nil => simp [hasMs] at hh
    | cons v vs =>
      obtain ⟨ht, ho, hs, ha, hl, hr⟩ := frontMs_cons_playou allF n t k r before hf
      obtain ⟨_, hfd, hhr⟩ := (hasMs_cons all n t k r v vs).1 hh
      have h1 := Spec.clen_fieldChunks all allv n t k v hfd (by
        intro hne hst
        cases k with
        | plain => exact absurd rfl hne
        | optional => exact fixed_of_kind t ht (ho rfl)
        | fixed c => exact fixed_of_kind t ht (hs rfl)
        | limited s c => exact fixed_of_kind t ht (hs rfl)
        | dyn s sh => simp [MKind.isStatic] at hst
        | greedy => simp [MKind.isStatic] at hst)
      rw [Spec.chunksMs_cons, Spec.memberLens_cons]
      simp only [Spec.specEnd, Spec.clen_cons, Spec.clen_append, Spec.Chunk.len, h1]
      rw [← clen_chunksMs r vs all allF _ allv hr hhr]
      unfold alignUp
      omega

/-! ## encodings end on the alignment of their type -/

theorem align_dvd_chunksTy (t : Ty) (ht : front t = true) (x : Val) (hc : x.isCounter = false)
    (hx : hasField [] .plain t x = true) : Spec.alignTy t ∣ Spec.clen (Spec.chunksTy t x) := by
  cases t with
  | prim p => cases x <;> simp [Spec.chunksTy, Spec.clen, Spec.Chunk.len, Spec.alignTy]
  | byte => cases x <;> simp [Spec.chunksTy, Spec.clen, Spec.Chunk.len, Spec.alignTy]
  | enum nm es => cases x <;> simp [Spec.chunksTy, Spec.clen, Spec.Chunk.len, Spec.alignTy]
  | struct nm ms =>
    cases x <;> simp only [Spec.chunksTy, Spec.clen, Spec.alignTy, Nat.dvd_zero]
    rw [Spec.clen_append]
    exact dvd_alignUp _ _ (Spec.alignMs_pos ms)
  | union nm arms =>
    have hfa : Spec.fixedTy (.union nm arms) = true := by
      have h' : frontArms arms = true := by
        simp only [front, Bool.and_eq_true] at ht; exact ht.2
      simp only [Spec.fixedTy]
      exact fixedArms_of_front arms h'
    have h1 := fsz_field x [] [] "" _ .plain hfa rfl hx
    rw [Spec.fieldChunks_plain [] [] "" _ x hc] at h1
    rw [h1]
    simp only [Spec.slot, Spec.sizeTy, Spec.alignTy]
    exact dvd_alignUp _ _ (by simp only [Spec.flagSize]; omega)

theorem align_dvd_chunksElems (t : Ty) (ht : front t = true) : (xs : List Val) → hasElems t xs = true →
    Spec.alignTy t ∣ Spec.clen (Spec.chunksElems t xs)
  | [], _ => by simp [Spec.chunksElems, Spec.clen]
  | x :: xs, hh => by
    obtain ⟨hc, hx, hr⟩ := (hasElems_cons t x xs).1 hh
    simp only [Spec.chunksElems, Spec.clen_append]
    exact Nat.dvd_add (align_dvd_chunksTy t ht x hc hx) (align_dvd_chunksElems t ht xs hr)

/-! ## the signed paddings of evaluate_struct_size, recursively -/

/-- the padding of the last member -/
def plastOf (A : Nat) (d : Bool) (last : Mem) (bs : Nat) : Int :=
  if d then (if last.align < A then -(A : Int) else (padTo bs A : Int)) else (padTo bs A : Int)

/-- paddings of `prev` and the members `r` after it; `bs` is the static offset after `prev` -/
def padsFrom (A : Nat) (d : Bool) : Mem → List Mem → Nat → List Int
  | prev, [], bs => [plastOf A d prev bs]
  | prev, m :: r, bs =>
    (if isMemberDynamic prev && prev.align < m.align then -(m.align : Int) else (padTo bs m.align : Int))
      :: padsFrom A d m r (bs + m.size + padTo bs m.align)

theorem sizeLoop_pads (A : Nat) (d : Bool) : (r : List Mem) → (prev : Mem) → (bs : Nat) →
    (sizeLoop r prev bs).2.1 ++ [plastOf A d (sizeLoop r prev bs).2.2 (sizeLoop r prev bs).1] = padsFrom A d prev r bs
  | [], _, _ => rfl
  | m :: r, prev, bs => by
    have ih := sizeLoop_pads A d r m (bs + m.size + padTo bs m.align)
    simp only [sizeLoop, padsFrom, List.cons_append]
    rw [← ih]

theorem structSize_pads (m : Mem) (r : List Mem) :
    (structSize (m :: r)).2.2 =
      padsFrom (maxAlign (m :: r)) ((m :: r).any isMemberDynamic) m r (m.size + padTo 0 m.align) := by
  rw [← sizeLoop_pads]
  simp only [structSize, plastOf]

theorem padsFrom_length (A : Nat) (d : Bool) : (r : List Mem) → (prev : Mem) → (bs : Nat) →
    (padsFrom A d prev r bs).length = r.length + 1
  | [], _, _ => rfl
  | m :: r, prev, bs => by simp [padsFrom, padsFrom_length A d r]

theorem bump_length : (l : List Mem) → (b : Bool) → (bump l b).length = l.length
  | [], _ => rfl
  | m :: r, b => by simp [bump, bump_length r]

theorem structMembers_pads (ms : List Member) :
    (structMembers ms).map (·.2.2) = (structSize (bump (memsOf ms) false)).2.2 := by
  unfold structMembers
  simp only [List.map_map]
  have : ((fun (x : Nat × Nat × Int) => x.2.2) ∘ fun (x : Mem × Int) => (x.1.size, x.1.align, x.2)) = Prod.snd := by
    funext x; rfl
  show List.map ((fun (x : Nat × Nat × Int) => x.2.2) ∘ fun (x : Mem × Int) => (x.1.size, x.1.align, x.2)) _ = _
  rw [this]
  apply List.map_snd_zip
  cases h : bump (memsOf ms) false with
  | nil => simp [structSize]
  | cons m r => rw [structSize_pads, padsFrom_length]; simp

/-! ## arithmetic helpers -/

theorem IsAl.dvd_of_le {a b : Nat} (ha : IsAl a) (hb : IsAl b) (h : a ≤ b) : a ∣ b := by
  unfold IsAl at *
  rcases ha with rfl | rfl | rfl | rfl <;> rcases hb with rfl | rfl | rfl | rfl <;> first | omega | decide

theorem padTo_congr (a x y : Nat) (h : x % a = y % a) : padTo x a = padTo y a := by
  unfold padTo; rw [h]

theorem mod_add_congr (x y z B : Nat) (h : x % B = y % B) : (x + z) % B = (y + z) % B := by
  rw [Nat.add_mod, h, ← Nat.add_mod]

theorem mod_of_dvd (a B x y : Nat) (h : a ∣ B) (hxy : x % B = y % B) : x % a = y % a := by
  rw [← Nat.mod_mod_of_dvd x h, hxy, Nat.mod_mod_of_dvd y h]

theorem step_nonneg (x off1 : Nat) :
    (if (x : Int) < 0 then off1 + padTo off1 (x : Int).natAbs else off1 + (x : Int).toNat) = off1 + x := by
  have : ¬ ((x : Int) < 0) := by omega
  simp [this]

theorem step_neg (A off1 : Nat) (hA : 0 < A) :
    (if -(A : Int) < 0 then off1 + padTo off1 (-(A : Int)).natAbs else off1 + (-(A : Int)).toNat)
      = off1 + padTo off1 A := by
  have h1 : -(A : Int) < 0 := by omega
  rw [if_pos h1, Int.natAbs_neg, Int.natAbs_natCast]

theorem lengthByPaddings_cons (s : Nat) (ss : List Nat) (p : Int) (ps : List Int) (off : Nat) :
    lengthByPaddings (s :: ss) (p :: ps) off =
      lengthByPaddings ss ps (if p < 0 then off + s + padTo (off + s) p.natAbs else off + s + p.toNat) := rfl

theorem lengthByPaddings_nil_right (ss : List Nat) (off : Nat) : lengthByPaddings ss [] off = off := by
  cases ss <;> rfl

/-! ## facts about one member -/

theorem memOf_slot (t : Ty) (k : MKind) (ht : front t = true) : (memOf (nodeTy t) k).size = Spec.slot t k := by
  rw [memOf_size, nodeTy_size' t ht, nodeTy_align' t]
  cases k <;> simp [Spec.slot, discSize, Spec.flagSize]

theorem isMemberDynamic_memOf (t : Ty) (k : MKind) (ht : front t = true) (hk2 : (nodeTy t).kind ≠ 2) :
    isMemberDynamic (memOf (nodeTy t) k) = endsPart (memOf (nodeTy t) k) := by
  have hle := specKind_le t
  rw [← nodeTy_kind' t ht] at hle
  unfold isMemberDynamic endsPart
  cases k <;> simp [memOf] <;> grind

/-- a member that is not dynamic has one length, the static one -/
theorem memberLen_static (all : List Member) (t : Ty) (k : MKind) (v : Val) (ht : front t = true)
    (hnd : isMemberDynamic (memOf (nodeTy t) k) = false) (hfd : hasField all k t v = true) :
    Spec.memberLen t k v = (memOf (nodeTy t) k).size := by
  have hk0 : (nodeTy t).kind = 0 ∧ k.isStatic = true := by
    cases k <;> simp_all [isMemberDynamic, memOf, MKind.isStatic]
  have hfx := fixed_of_kind t ht hk0.1
  rw [memOf_slot t k ht, ← fsz_field v all [] "" t k hfx hk0.2 hfd]
  exact (Spec.clen_fieldChunks all [] "" t k v hfd (fun _ _ => hfx)).symm

/-- the own bytes of a dynamic member end on its alignment, in every encoding and in the static layout -/
theorem dvd_dynamic (all : List Member) (n : String) (t : Ty) (k : MKind) (v : Val) (ht : front t = true)
    (ho : isOptional k = true → (nodeTy t).kind = 0)
    (hs : (sizeOf? k).isSome = true → (nodeTy t).kind = 0)
    (hd : isMemberDynamic (memOf (nodeTy t) k) = true) (hfd : hasField all k t v = true) :
    Spec.alignMember (.mk n t k) ∣ Spec.memberLen t k v ∧
    Spec.alignMember (.mk n t k) ∣ (memOf (nodeTy t) k).size := by
  cases k with
  | plain =>
    cases t with
    | struct nm ms =>
      have hsz := nodeTy_size' _ ht
      refine ⟨?_, ?_⟩
      · cases v <;> simp only [Spec.memberLen, Spec.alignMember, Member.kind, Member.ty, Spec.alignTy, Spec.chunksTy,
          Spec.clen, Nat.dvd_zero, Spec.sizeTy]
        · rw [Spec.clen_append]
          exact dvd_alignUp _ _ (Spec.alignMs_pos ms)
        · exact dvd_alignUp _ _ (Spec.alignMs_pos ms)
      · simp only [memOf, hsz, Spec.sizeTy, Spec.alignMember, Member.kind, Member.ty, Spec.alignTy]
        exact dvd_alignUp _ _ (Spec.alignMs_pos ms)
    | prim p => simp [isMemberDynamic, memOf, nodeTy] at hd
    | byte => simp [isMemberDynamic, memOf, nodeTy] at hd
    | enum nm es => simp [isMemberDynamic, memOf, nodeTy] at hd
    | union nm arms => simp [isMemberDynamic, memOf, nodeTy, unionNode] at hd
  | optional => simp [isMemberDynamic, memOf, ho rfl] at hd
  | fixed c => simp [isMemberDynamic, memOf, hs rfl] at hd
  | limited s c => simp [isMemberDynamic, memOf, hs rfl] at hd
  | dyn s sh =>
    refine ⟨?_, by simp [memOf]⟩
    cases v <;> simp only [Spec.memberLen, Spec.alignMember, Member.kind, Member.ty, Nat.dvd_zero]
    · have : t = .byte := by cases t <;> simp_all [hasField]
      subst this; simp [Spec.alignTy]
    · rename_i xs
      have hel : hasElems t xs = true := by cases t <;> simp_all [hasField]
      exact align_dvd_chunksElems t ht _ hel
  | greedy =>
    refine ⟨?_, by simp [memOf]⟩
    cases v <;> simp only [Spec.memberLen, Spec.alignMember, Member.kind, Member.ty, Nat.dvd_zero]
    · have : t = .byte := by cases t <;> simp_all [hasField]
      subst this; simp [Spec.alignTy]
    · rename_i xs
      have hel : hasElems t xs = true := by cases t <;> simp_all [hasField]
      exact align_dvd_chunksElems t ht _ hel

/-- the member as evaluate_partial_padding_size leaves it -/
def curMem (first : Bool) (n : String) (t : Ty) (k : MKind) (r : List Member) : Mem :=
  { memOf (nodeTy t) k with
    align := if first then Spec.blockAlign (.mk n t k :: r) else Spec.alignMember (.mk n t k) }

theorem bump_memsOf_cons (allF before : List Member) (n : String) (t : Ty) (k : MKind) (r : List Member)
    (first : Bool) (h : frontMs allF (.mk n t k :: r) before = true) :
    bump (memsOf (.mk n t k :: r)) first =
      curMem first n t k r :: bump (memsOf r) (endsPart (memOf (nodeTy t) k)) := by
  have hpm := partMax_memsOf (.mk n t k :: r) allF before h (by simp)
  simp only [memsOf] at hpm ⊢
  rw [bump_cons, hpm, memOf_align_member n t k]
  rfl

theorem Spec.blockAlign_single (m : Member) : Spec.blockAlign [m] = Spec.alignMember m := by
  have := Spec.alignMember_pos m
  simp only [Spec.blockAlign]
  split <;> omega

theorem Spec.alignMs_cons_le (n : String) (t : Ty) (k : MKind) (r : List Member) :
    Spec.alignMs r ≤ Spec.alignMs (.mk n t k :: r) := by
  simp only [Spec.alignMs]; omega

/-! ## the walk: a writer that applies the signed paddings reaches the canonical end offset -/

theorem walk (A : Nat) (hA : IsAl A) (d : Bool) (all allF : List Member) (allv : List Val) :
    (r : List Member) → ∀ (n : String) (t : Ty) (k : MKind) (v : Val) (vs : List Val) (before : List Member)
      (first pd : Bool) (off st : Nat),
    frontMs allF (.mk n t k :: r) before = true →
    hasMs all (.mk n t k :: r) (v :: vs) = true →
    Spec.alignMs (.mk n t k :: r) ≤ A →
    d = (pd || (memsOf (.mk n t k :: r)).any isMemberDynamic) →
    (pd = false → off = st) →
    off % Spec.blockAlign (.mk n t k :: r) = st % Spec.blockAlign (.mk n t k :: r) →
    Spec.alignMember (.mk n t k) ∣ off →
    (curMem first n t k r).align ∣ st →
    lengthByPaddings (Spec.memberLens all allv (.mk n t k :: r) (v :: vs))
        (padsFrom A d (curMem first n t k r) (bump (memsOf r) (endsPart (memOf (nodeTy t) k)))
          (st + (memOf (nodeTy t) k).size)) off
      = alignUp (Spec.specEnd r (Spec.memberLens all allv r vs) (off + Spec.memberLen t k v)
          (Spec.endsBlock (.mk n t k))) A
  | [], n, t, k, v, vs, before, first, pd, off, st, hf, hh, hAle, hd, hi1, hi2, hi3, hi4 => by
    obtain ⟨ht, ho, hs, ha, hl, hr⟩ := frontMs_cons_playou allF n t k [] before hf
    obtain ⟨_, hfd, hhr⟩ := (hasMs_cons all n t k [] v vs).1 hh
    have hca : (curMem first n t k []).align = Spec.alignMember (.mk n t k) := by
      cases first <;> simp [curMem, Spec.blockAlign_single]
    rw [Spec.blockAlign_single] at hi2
    rw [hca] at hi4
    have hale : Spec.alignMember (.mk n t k) ≤ A :=
      Nat.le_trans (Spec.alignMember_le_alignMs n t k []) hAle
    rw [Spec.memberLens_cons]
    simp only [memsOf, bump, padsFrom, lengthByPaddings_cons, lengthByPaddings_nil_right, Spec.specEnd]
    simp only [memsOf, List.any_cons, List.any_nil, Bool.or_false] at hd
    unfold alignUp
    cases hdm : isMemberDynamic (memOf (nodeTy t) k) with
    | false =>
      have hlen := memberLen_static all t k v ht hdm hfd
      rw [hdm, Bool.or_false] at hd
      cases pd with
      | false =>
        subst hd
        rw [hi1 rfl, hlen]
        simp only [plastOf, Bool.false_eq_true, if_false]
        rw [step_nonneg]
      | true =>
        subst hd
        simp only [plastOf, if_true, hca]
        by_cases hlt : Spec.alignMember (.mk n t k) < A
        · rw [if_pos hlt, step_neg _ _ hA.pos]
        · have hAeq : Spec.alignMember (.mk n t k) = A := by omega
          rw [if_neg hlt, step_nonneg, hlen]
          rw [hAeq] at hi2
          rw [padTo_congr A _ _ (mod_add_congr _ _ _ A hi2)]
    | true =>
      obtain ⟨hdl, hdz⟩ := dvd_dynamic all n t k v ht ho hs hdm hfd
      rw [hdm, Bool.or_true] at hd
      subst hd
      simp only [plastOf, if_true, hca]
      by_cases hlt : Spec.alignMember (.mk n t k) < A
      · rw [if_pos hlt, step_neg _ _ hA.pos]
      · have hAeq : Spec.alignMember (.mk n t k) = A := by omega
        rw [if_neg hlt, step_nonneg]
        rw [hAeq] at hi3 hi4 hdl hdz
        rw [padTo_eq_zero_of_dvd _ _ (Nat.dvd_add hi3 hdl), padTo_eq_zero_of_dvd _ _ (Nat.dvd_add hi4 hdz)]
  | .mk n' t' k' :: r', n, t, k, v, vs, before, first, pd, off, st, hf, hh, hAle, hd, hi1, hi2, hi3, hi4 => by
    obtain ⟨ht, ho, hs, ha, hl, hr⟩ := frontMs_cons_playou allF n t k (.mk n' t' k' :: r') before hf
    obtain ⟨_, hfd, hhr⟩ := (hasMs_cons all n t k (.mk n' t' k' :: r') v vs).1 hh
    obtain ⟨_, hk2⟩ := hl (by simp)
    cases vs with
    | nil => simp [hasMs] at hhr
    | cons v2 vs' =>
      have hep := endsPart_memOf n t k ht ho hs hk2
      have hmd := isMemberDynamic_memOf t k ht hk2
      rw [hep] at hmd
      have hAle' : Spec.alignMs (.mk n' t' k' :: r') ≤ A := Nat.le_trans (Spec.alignMs_cons_le n t k _) hAle
      have ih := walk A hA d all allF allv r' n' t' k' v2 vs' (before ++ [.mk n t k])
        (Spec.endsBlock (.mk n t k)) (pd || Spec.endsBlock (.mk n t k))
        (alignUp (off + Spec.memberLen t k v) (curMem (Spec.endsBlock (.mk n t k)) n' t' k' r').align)
        (alignUp (st + (memOf (nodeTy t) k).size) (curMem (Spec.endsBlock (.mk n t k)) n' t' k' r').align)
        hr hhr hAle'
      rw [Spec.memberLens_cons, hep, bump_memsOf_cons allF _ n' t' k' r' _ hr]
      rw [Spec.memberLens_cons] at ih ⊢
      simp only [padsFrom, lengthByPaddings_cons]
      simp only [Spec.specEnd]
      have hdcur : isMemberDynamic (curMem first n t k (.mk n' t' k' :: r')) = Spec.endsBlock (.mk n t k) := hmd
      have hd' : d = (pd || Spec.endsBlock (.mk n t k) || (memsOf (.mk n' t' k' :: r')).any isMemberDynamic) := by
        rw [hd]; simp only [memsOf, List.any_cons, hmd, Bool.or_assoc]
      have hpos2 : 0 < (curMem (Spec.endsBlock (.mk n t k)) n' t' k' r').align := by
        simp only [curMem]
        split
        · exact (Spec.blockAlign_isAl _).pos
        · exact Spec.alignMember_pos _
      have hc2a : (curMem (Spec.endsBlock (.mk n t k)) n' t' k' r').align =
          if Spec.endsBlock (.mk n t k) = true then Spec.blockAlign (.mk n' t' k' :: r')
          else Spec.alignMember (.mk n' t' k') := rfl
      have hc2s : (curMem (Spec.endsBlock (.mk n t k)) n' t' k' r').size = (memOf (nodeTy t') k').size := rfl
      -- the step and the new invariant
      have hstep : (if (if (isMemberDynamic (curMem first n t k (.mk n' t' k' :: r')) &&
                decide ((curMem first n t k (.mk n' t' k' :: r')).align <
                  (curMem (Spec.endsBlock (.mk n t k)) n' t' k' r').align)) = true
              then -((curMem (Spec.endsBlock (.mk n t k)) n' t' k' r').align : Int)
              else (padTo (st + (memOf (nodeTy t) k).size)
                (curMem (Spec.endsBlock (.mk n t k)) n' t' k' r').align : Int)) < 0
            then off + Spec.memberLen t k v + padTo (off + Spec.memberLen t k v)
              (if (isMemberDynamic (curMem first n t k (.mk n' t' k' :: r')) &&
                decide ((curMem first n t k (.mk n' t' k' :: r')).align <
                  (curMem (Spec.endsBlock (.mk n t k)) n' t' k' r').align)) = true
              then -((curMem (Spec.endsBlock (.mk n t k)) n' t' k' r').align : Int)
              else (padTo (st + (memOf (nodeTy t) k).size)
                (curMem (Spec.endsBlock (.mk n t k)) n' t' k' r').align : Int)).natAbs
            else off + Spec.memberLen t k v +
              (if (isMemberDynamic (curMem first n t k (.mk n' t' k' :: r')) &&
                decide ((curMem first n t k (.mk n' t' k' :: r')).align <
                  (curMem (Spec.endsBlock (.mk n t k)) n' t' k' r').align)) = true
              then -((curMem (Spec.endsBlock (.mk n t k)) n' t' k' r').align : Int)
              else (padTo (st + (memOf (nodeTy t) k).size)
                (curMem (Spec.endsBlock (.mk n t k)) n' t' k' r').align : Int)).toNat)
          = alignUp (off + Spec.memberLen t k v) (curMem (Spec.endsBlock (.mk n t k)) n' t' k' r').align ∧
          ((pd || Spec.endsBlock (.mk n t k)) = false →
            alignUp (off + Spec.memberLen t k v) (curMem (Spec.endsBlock (.mk n t k)) n' t' k' r').align =
            alignUp (st + (memOf (nodeTy t) k).size) (curMem (Spec.endsBlock (.mk n t k)) n' t' k' r').align) ∧
          (alignUp (off + Spec.memberLen t k v) (curMem (Spec.endsBlock (.mk n t k)) n' t' k' r').align
              % Spec.blockAlign (.mk n' t' k' :: r') =
            alignUp (st + (memOf (nodeTy t) k).size) (curMem (Spec.endsBlock (.mk n t k)) n' t' k' r').align
              % Spec.blockAlign (.mk n' t' k' :: r')) ∧
          Spec.alignMember (.mk n' t' k') ∣
            alignUp (off + Spec.memberLen t k v) (curMem (Spec.endsBlock (.mk n t k)) n' t' k' r').align := by
        rw [hdcur]
        have hB2 := Spec.blockAlign_isAl (.mk n' t' k' :: r')
        have ha2B2 := Spec.alignMember_dvd_blockAlign (.mk n' t' k') r'
        cases heb : Spec.endsBlock (.mk n t k) with
        | true =>
          rw [heb] at hc2a hmd
          simp only [if_true] at hc2a
          have hca : (curMem first n t k (.mk n' t' k' :: r')).align = Spec.alignMember (.mk n t k) := by
            cases first <;> simp [curMem, Spec.blockAlign, heb]
          rw [hca] at hi4 ⊢
          rw [hc2a]
          obtain ⟨hdl, hdz⟩ := dvd_dynamic all n t k v ht ho hs hmd hfd
          have hdo := dvd_alignUp (off + Spec.memberLen t k v) _ hB2.pos
          have hds := dvd_alignUp (st + (memOf (nodeTy t) k).size) _ hB2.pos
          refine ⟨?_, by simp, ?_, Nat.dvd_trans ha2B2 hdo⟩
          · simp only [Bool.true_and, decide_eq_true_eq]
            by_cases hlt : Spec.alignMember (.mk n t k) < Spec.blockAlign (.mk n' t' k' :: r')
            · simp only [if_pos hlt]
              rw [step_neg _ _ hB2.pos]; rfl
            · simp only [if_neg hlt]
              have hdv : Spec.blockAlign (.mk n' t' k' :: r') ∣ Spec.alignMember (.mk n t k) :=
                IsAl.dvd_of_le hB2 (Spec.alignMember_isAl _) (by omega)
              rw [step_nonneg]
              unfold alignUp
              rw [padTo_eq_zero_of_dvd _ _ (Nat.dvd_trans hdv (Nat.dvd_add hi3 hdl)),
                padTo_eq_zero_of_dvd _ _ (Nat.dvd_trans hdv (Nat.dvd_add hi4 hdz))]
          · rw [Nat.mod_eq_zero_of_dvd hdo, Nat.mod_eq_zero_of_dvd hds]
        | false =>
          rw [heb] at hc2a hmd
          simp only [Bool.false_eq_true, if_false] at hc2a
          rw [hc2a]
          have hlen := memberLen_static all t k v ht hmd hfd
          have hBB : Spec.blockAlign (.mk n' t' k' :: r') ∣ Spec.blockAlign (.mk n t k :: .mk n' t' k' :: r') := by
            rw [show Spec.blockAlign (.mk n t k :: .mk n' t' k' :: r') =
              max (Spec.alignMember (.mk n t k)) (Spec.blockAlign (.mk n' t' k' :: r')) by
                simp [Spec.blockAlign, heb]]
            exact IsAl.dvd_max_right (Spec.alignMember_isAl _) hB2
          have hm2 : (off + Spec.memberLen t k v) % Spec.blockAlign (.mk n' t' k' :: r') =
              (st + (memOf (nodeTy t) k).size) % Spec.blockAlign (.mk n' t' k' :: r') := by
            rw [hlen]
            exact mod_add_congr _ _ _ _ (mod_of_dvd _ _ _ _ hBB hi2)
          have hpe := padTo_congr (Spec.alignMember (.mk n' t' k')) _ _ (mod_of_dvd _ _ _ _ ha2B2 hm2)
          refine ⟨?_, ?_, ?_, dvd_alignUp _ _ (Spec.alignMember_pos _)⟩
          · simp only [Bool.false_and, Bool.false_eq_true, if_false]
            rw [step_nonneg]
            unfold alignUp
            rw [hpe]
          · intro hpd
            have : pd = false := by simpa using hpd
            rw [hi1 this, hlen]
          · unfold alignUp
            rw [hpe]
            exact mod_add_congr _ _ _ _ hm2
      obtain ⟨hs1, hs2, hs3, hs4⟩ := hstep
      rw [hs1]
      have hbs : st + (memOf (nodeTy t) k).size + (curMem (Spec.endsBlock (.mk n t k)) n' t' k' r').size +
          padTo (st + (memOf (nodeTy t) k).size) (curMem (Spec.endsBlock (.mk n t k)) n' t' k' r').align =
          alignUp (st + (memOf (nodeTy t) k).size) (curMem (Spec.endsBlock (.mk n t k)) n' t' k' r').align +
            (memOf (nodeTy t') k').size := by
        rw [hc2s]; unfold alignUp; omega
      rw [hbs]
      rw [ih hd' hs2 hs3 hs4 (dvd_alignUp _ _ hpos2)]
      rfl

theorem any_bump : (l : List Mem) → (b : Bool) → (bump l b).any isMemberDynamic = l.any isMemberDynamic
  | [], _ => rfl
  | m :: r, b => by
    simp only [bump, List.any_cons, any_bump r]
    cases b <;> rfl

theorem alignUp_zero (a : Nat) : alignUp 0 a = 0 := by simp [alignUp, padTo_zero]

end PL

/-- for a struct type and a value of it, emitting each member's own bytes and then applying its signed
    padding (`>= 0`: that many bytes, `< 0`: align to `|p|`) yields the canonical length -/
theorem PL.lengthByPaddings_spec (n : String) (ms : List Member) (vs : List Val)
    (hf : Accept.front (.struct n ms) = true) (hv : hasType (.struct n ms) (.struct vs) = true) :
    PL.lengthByPaddings (Spec.memberLens ms vs ms vs) ((PL.structMembers ms).map (·.2.2)) 0
      = Spec.clen (Spec.chunksTy (.struct n ms) (.struct vs)) := by
  have hfm : Accept.frontMs ms ms [] = true := by
    simp only [Accept.front, Bool.and_eq_true] at hf; exact hf.2
  have hhm : hasMs ms ms vs = true := by
    simpa [hasType, Val.isCounter, hasField] using hv
  have hbody := PL.clen_chunksMs ms vs ms ms [] vs hfm hhm 0 false
  rw [Nat.zero_add] at hbody
  have hrhs : Spec.clen (Spec.chunksTy (.struct n ms) (.struct vs)) =
      alignUp (Spec.specEnd ms (Spec.memberLens ms vs ms vs) 0 false) (Spec.alignMs ms) := by
    simp only [Spec.chunksTy, Spec.clen_append, Spec.clen_cons, Spec.clen_nil, Spec.Chunk.len, hbody, alignUp,
      Nat.add_zero]
  rw [hrhs, PL.structMembers_pads]
  cases ms with
  | nil => simp [Accept.front] at hf
  | cons m r =>
    obtain ⟨n0, t, k⟩ := m
    cases vs with
    | nil => simp [hasMs] at hhm
    | cons v vs' =>
      have hA : PL.maxAlign (PL.bump (PL.memsOf (.mk n0 t k :: r)) false) = Spec.alignMs (.mk n0 t k :: r) := by
        rw [PL.maxAlign_bump, PL.memsOf_align _ (by simp)]
      have hd : (PL.bump (PL.memsOf (.mk n0 t k :: r)) false).any PL.isMemberDynamic =
          (false || (PL.memsOf (.mk n0 t k :: r)).any PL.isMemberDynamic) := by
        rw [PL.any_bump, Bool.false_or]
      rw [PL.bump_memsOf_cons (.mk n0 t k :: r) [] n0 t k r false hfm] at hA hd ⊢
      rw [PL.structSize_pads, hA, hd]
      have hw := PL.walk (Spec.alignMs (.mk n0 t k :: r)) (Spec.alignMs_isAl _)
        (false || (PL.memsOf (.mk n0 t k :: r)).any PL.isMemberDynamic) (.mk n0 t k :: r) (.mk n0 t k :: r) (v :: vs') r n0 t k v vs' []
        false false 0 0 hfm hhm (Nat.le_refl _) rfl (fun _ => rfl) rfl (Nat.dvd_zero _) (Nat.dvd_zero _)
      rw [Nat.zero_add, Nat.zero_add] at hw
      rw [PL.padTo_zero, Nat.add_zero]
      rw [show (PL.curMem false n0 t k r).size = (PL.memOf (PL.nodeTy t) k).size from rfl, hw]
      rw [Spec.memberLens_cons]
      simp only [Spec.specEnd, PL.alignUp_zero, Nat.zero_add]


/-! ## the acceptance hypothesis is needed for stiffness and size (not for alignment)

  prophyc computes a member's `kind` from its type alone, so an optional of a dynamic struct (which the
  front end rejects) makes the struct DYNAMIC and ends a padding part, while the documented rules
  (`Spec.dynMs`, `Spec.endsBlock`) do not count an optional as dynamic. -/
namespace PLayoutSpecExamples
def D : Ty := .struct "D" [.mk "n" (.prim .u8) .plain, .mk "a" (.prim .u8) (.dyn "n" 0)]
def X1 : Ty := .struct "X" [.mk "o" D .optional]
def X3 : Ty := .struct "X" [.mk "o" D .optional, .mk "x" (.prim .u8) .plain, .mk "y" (.prim .u64) .plain]

example : Accept.front X1 = false ∧ (PL.nodeTy X1).kind = 1 ∧
    (if Spec.unlTy X1 then 2 else if Spec.dynTy X1 then 1 else 0) = 0 := by decide
example : Accept.front X3 = false ∧ (PL.nodeTy X3).size = 24 ∧ Spec.sizeTy X3 = 16 := by decide
end PLayoutSpecExamples

end Prophy

#print axioms Prophy.PL.nodeTy_align
#print axioms Prophy.PL.nodeTy_kind
#print axioms Prophy.PL.nodeTy_size
#print axioms Prophy.PL.lengthByPaddings_spec
